//! `codec` stream: the serialisation layer of `ppoprf::ppoprf` against the model's `Codec`:
//! base64 (`BASE64_STANDARD`), bincode of `ServerPublicKey` / `ProofDLEQ` behind the size guards of
//! `load_from_bincode`, and the `serde_json` text of `Point` / `Evaluation`.
//! Answers: `ok <canonical re-serialisation>` / `err` / `err:TooBig` / `err:Bincode` / `panic`.
use crate::s_ppoprf::*;
use crate::util::*;
use base64::{engine::Engine as _, prelude::BASE64_STANDARD};
use curve25519_dalek::scalar::Scalar;
use num_bigint::BigUint;
use num_traits::One;
use ppoprf::ppoprf::{Client, Evaluation, Point, ProofDLEQ, Server, ServerPublicKey, MAX_SERIALIZED_PK_SIZE};
use ppoprf::PPRFError;

pub fn codec_err_kind(e: &PPRFError) -> String {
  match e {
    PPRFError::SerializedDataTooBig => "TooBig".into(),
    PPRFError::Bincode(_) => "Bincode".into(),
    other => err_kind(other),
  }
}

fn thex(s: &str) -> String {
  hex(s.as_bytes())
}

// ---------------------------------------------------------------------------------------------
// base64
// ---------------------------------------------------------------------------------------------

fn b64dec_ans(s: &str) -> String {
  guarded(|| match BASE64_STANDARD.decode(s) {
    Ok(b) => format!("ok {}", hex(&b)),
    Err(_) => "err".into(),
  })
}

fn emit_b64dec(label: &str, s: &str) {
  let a = b64dec_ans(s);
  stat(&format!("codec.b64dec.{}.{}", label, a.split(' ').next().unwrap()));
  emit(&format!("cd.b64dec {}", thex(s)), &a);
}

const B64_ALPHA: &[u8] = b"ABCDEFGHIJKLMNOPQRSTUVWXYZabcdefghijklmnopqrstuvwxyz0123456789+/";

fn base64_section(g: &mut Sm, q: bool) {
  // encoding, every length 0..=70 and some long ones
  let mut inputs: Vec<Vec<u8>> = Vec::new();
  for n in 0..=70usize {
    inputs.push(g.blob(n));
    inputs.push(g.bytes(n));
  }
  for _ in 0..(if q { 20 } else { 2000 }) {
    let n = g.range(0, 300) as usize;
    inputs.push(g.blob(n));
  }
  for b in inputs.iter() {
    let e = BASE64_STANDARD.encode(b);
    emit(&format!("cd.b64enc {}", hex(b)), &format!("ok {}", thex(&e)));
    emit_b64dec("valid", &e);
  }
  // fixed corner cases
  for s in [
    "", "=", "==", "===", "====", "A", "AA", "AAA", "AAAA", "A===", "AA==", "AAA=", "AA=A", "AA=", "A=", "A==", "AAAA=",
    "AAAA==", "AAAA====", "AA==AAAA", "AAA=AAAA", "=AAA", "A=AA", "AB==", "AQ==", "AP8=", "AP9=", "AAB=", "AAE=", "//8=",
    "//9=", "/w==", "/x==", "+/+/", "-_-_", "AA-A", "AAAA\n", "AAAA ", " AAAA", "AA AA", "AAAA\r\n", "AA\nAA", "AAAA\t",
    "AAA\u{e9}", "\u{e9}", "AAAA\u{0}", "AAA\u{7f}", "AAAAA", "AAAAAA", "AAAAAAA", "AAAAAA==", "AAAAAAA=", "AAAAA===",
    "AAAAAA=", "AAAAAAA==", "QUJD", "QUI=", "QQ==", "QUJDRA==", "QUJDRA=", "QUJDRA", "QUJDREU=", "QUJDREU",
  ] {
    emit_b64dec("fixed", s);
  }
  // mutations of valid encodings
  for _ in 0..(if q { 300 } else { 20000 }) {
    let n = g.range(0, 40) as usize;
    let e = BASE64_STANDARD.encode(g.bytes(n));
    let mut c: Vec<char> = e.chars().collect();
    let label;
    match g.below(9) {
      0 if !c.is_empty() => {
        // replace a symbol by another alphabet symbol (trailing bits when it is the last one)
        let i = if g.chance(1, 2) { c.iter().rposition(|&x| x != '=').unwrap_or(0) } else { g.below(c.len() as u64) as usize };
        c[i] = *g.pick(B64_ALPHA) as char;
        label = "alpha";
      }
      1 if !c.is_empty() => {
        let i = g.below(c.len() as u64) as usize;
        c[i] = *g.pick(&['-', '_', ' ', '\n', '=', '.', '\u{e9}', '\u{0}', '*', '\r', '\t']);
        label = "nonalpha";
      }
      2 if !c.is_empty() => {
        c.pop();
        label = "truncate1";
      }
      3 => {
        c.push('=');
        label = "extrapad";
      }
      4 if !c.is_empty() => {
        let i = g.below(c.len() as u64) as usize;
        c.remove(i);
        label = "delete";
      }
      5 => {
        let i = g.below(c.len() as u64 + 1) as usize;
        c.insert(i, *g.pick(&['A', '=', '\n', ' ', '/']));
        label = "insert";
      }
      6 => {
        while c.last() == Some(&'=') {
          c.pop();
        }
        label = "nopad";
      }
      7 => {
        let k = g.below(c.len() as u64 + 1) as usize;
        c.truncate(k);
        label = "truncate";
      }
      _ => {
        let k2 = g.range(0, 5) as usize;
        let e2 = BASE64_STANDARD.encode(g.bytes(k2));
        c.extend(e2.chars());
        label = "concat";
      }
    }
    let s: String = c.into_iter().collect();
    emit_b64dec(label, &s);
  }
}

// ---------------------------------------------------------------------------------------------
// bincode: ServerPublicKey
// ---------------------------------------------------------------------------------------------

pub fn pkload_ans(b: &[u8]) -> String {
  guarded(|| match ServerPublicKey::load_from_bincode(b) {
    Ok(pk) => format!("ok {}", hex(&pk.serialize_to_bincode().unwrap())),
    Err(e) => format!("err:{}", codec_err_kind(&e)),
  })
}

fn emit_pkload(label: &str, b: &[u8]) -> String {
  let a = pkload_ans(b);
  stat(&format!("codec.pkload.{}.{}", label, a.split(' ').next().unwrap()));
  emit(&format!("cd.pkload {}", hex(b)), &a);
  a
}

/// the components of a public key read through its JSON form (independent of bincode):
/// base point, tags in increasing order, the points of the tags
pub fn pk_components(pk: &ServerPublicKey) -> (Vec<u8>, Vec<u8>, Vec<u8>) {
  let v = serde_json::to_value(pk).unwrap();
  let bytes_of = |a: &serde_json::Value| -> Vec<u8> { a.as_array().unwrap().iter().map(|x| x.as_u64().unwrap() as u8).collect() };
  let base = bytes_of(&v["base_pk"]);
  let mut es: Vec<(u8, Vec<u8>)> = v["md_pks"].as_object().unwrap().iter().map(|(k, p)| (k.parse::<u8>().unwrap(), bytes_of(p))).collect();
  es.sort();
  let tags: Vec<u8> = es.iter().map(|e| e.0).collect();
  let pts: Vec<u8> = es.iter().flat_map(|e| e.1.clone()).collect();
  (base, tags, pts)
}

fn hand_pk(base: &[u8], n: u64, entries: &[(u8, Vec<u8>)], trailing: &[u8]) -> Vec<u8> {
  let mut v = base.to_vec();
  v.extend_from_slice(&n.to_le_bytes());
  for (t, p) in entries {
    v.push(*t);
    v.extend_from_slice(p);
  }
  v.extend_from_slice(trailing);
  v
}

fn rand_entries(g: &mut Sm, n: usize, tags: &[u8]) -> Vec<(u8, Vec<u8>)> {
  (0..n).map(|i| (if i < tags.len() { tags[i] } else { g.below(256) as u8 }, g.bytes(32))).collect()
}

fn pk_section(g: &mut Sm, q: bool) {
  // honest keys of every size
  let mut sizes: Vec<usize> = if q { vec![0, 1, 2, 3, 5, 16, 100, 255, 256] } else { (0..=256).collect() };
  if q {
    for _ in 0..4 {
      sizes.push(g.range(4, 254) as usize);
    }
  }
  let mut honest: Vec<Vec<u8>> = Vec::new();
  for (i, &n) in sizes.iter().enumerate() {
    let mut all: Vec<u8> = (0..=255u8).collect();
    g.shuffle(&mut all);
    let mut mds: Vec<u8> = all[..n].to_vec();
    if i % 3 == 1 && n > 1 {
      // registration order with duplicates
      let d = *g.pick(&mds);
      mds.push(d);
    }
    let server = Server::new(mds.clone()).expect("server");
    let pk = server.get_public_key();
    let bytes = pk.serialize_to_bincode().expect("serialize");
    assert_eq!(bytes.len(), 40 + 33 * n);
    let (base, tags, pts) = pk_components(&pk);
    stat("codec.pkser");
    emit(&format!("cd.pkser {} {} {}", hex(&base), hex(&tags), hex(&pts)), &format!("ok {}", hex(&bytes)));
    let a = emit_pkload("honest", &bytes);
    assert_eq!(a, format!("ok {}", hex(&bytes)));
    // truncations
    let every = !q && (n <= 8 || n == 33 || n == 256);
    let cuts: Vec<usize> = if every {
      (0..bytes.len()).collect()
    } else {
      let mut c: Vec<usize> = vec![0, 1, 31, 32, 33, 39, 40, 41, 72, 73, 74, bytes.len() - 1, bytes.len().saturating_sub(33), bytes.len().saturating_sub(34)];
      for _ in 0..(if q { 6 } else { 40 }) {
        c.push(g.below(bytes.len() as u64) as usize);
      }
      c.retain(|&k| k < bytes.len());
      c.sort();
      c.dedup();
      c
    };
    for k in cuts {
      emit_pkload("truncated", &bytes[..k]);
    }
    // trailing bytes up to and across the size limit
    for total in [bytes.len() + 1, bytes.len() + 33, MAX_SERIALIZED_PK_SIZE - 1, MAX_SERIALIZED_PK_SIZE, MAX_SERIALIZED_PK_SIZE + 1] {
      if (q && i % 4 != 0 && total >= MAX_SERIALIZED_PK_SIZE - 1) || total < bytes.len() {
        continue;
      }
      let mut v = bytes.clone();
      let pad = g.blob(total - bytes.len());
      v.extend_from_slice(&pad);
      emit_pkload("trailing", &v);
    }
    honest.push(bytes);
  }
  // hand-built encodings: unsorted / duplicate keys, length prefix against the entries present
  for it in 0..(if q { 60 } else { 1500 }) {
    let base = g.bytes(32);
    let n = match g.below(6) {
      0 => 0,
      1 => 1,
      2 => g.range(2, 6) as usize,
      _ => g.range(2, 40) as usize,
    };
    let mut tags: Vec<u8> = (0..n).map(|_| g.below(256) as u8).collect();
    match g.below(5) {
      0 => tags.sort(),
      1 => {
        tags.sort();
        tags.reverse();
      }
      2 if n > 1 => {
        // duplicates: later entries replace earlier ones
        for i in 1..n {
          if g.chance(1, 2) {
            tags[i] = tags[g.below(i as u64) as usize];
          }
        }
      }
      3 => tags = vec![g.below(256) as u8; n],
      _ => {}
    }
    let es = rand_entries(g, n, &tags);
    emit_pkload("hand", &hand_pk(&base, n as u64, &es, &[]));
    if it % 3 == 0 {
      let trn = g.range(1, 70) as usize;
      let tr = g.blob(trn);
      emit_pkload("hand_trailing", &hand_pk(&base, n as u64, &es, &tr));
      // prefix says fewer entries than present: the rest is trailing data
      if n > 0 {
        emit_pkload("hand_fewer", &hand_pk(&base, g.below(n as u64), &es, &[]));
      }
      // prefix says more entries than present
      emit_pkload("hand_more", &hand_pk(&base, n as u64 + 1, &es, &[]));
      emit_pkload("hand_more", &hand_pk(&base, n as u64 + 1, &es, &g.bytes(32)));
      emit_pkload("hand_more", &hand_pk(&base, n as u64 + 1, &es, &g.bytes(33)));
      for huge in [1u64 << 32, 1u64 << 63, u64::MAX, (1u64 << 32) + n as u64, 257, 65536, 1u64 << 56] {
        emit_pkload("hand_huge", &hand_pk(&base, huge, &es, &[]));
      }
    }
  }
  // the largest maps that fit: 495 entries = 16375 bytes
  for (n, trail) in [(495usize, 0usize), (495, 9), (495, 10), (496, 0), (494, 42), (494, 43), (300, 0)] {
    let es = rand_entries(g, n, &[]);
    let tr = g.bytes(trail);
    emit_pkload("hand_max", &hand_pk(&g.bytes(32), n as u64, &es, &tr));
    // and with the length prefix one too large
    emit_pkload("hand_max_more", &hand_pk(&g.bytes(32), n as u64 + 1, &es, &tr));
    emit_pkload("hand_max_huge", &hand_pk(&g.bytes(32), u64::MAX, &es, &tr));
  }
  // random bytes
  for len in 0..=80usize {
    emit_pkload("random", &g.blob(len));
  }
  for _ in 0..(if q { 40 } else { 2000 }) {
    let len = match g.below(10) {
      0 => g.range(16300, 16500) as usize,
      1 => g.range(1000, 9000) as usize,
      _ => g.range(0, 400) as usize,
    };
    let mut b = g.blob(len);
    if len >= 40 && g.chance(2, 3) {
      // a plausible length prefix
      let n = g.below(1 + (len as u64 - 40) / 33 + 2);
      b[32..40].copy_from_slice(&n.to_le_bytes());
    }
    emit_pkload("random", &b);
  }
  // single-byte corruptions of honest encodings (any 32 bytes are a `Point` for the decoder)
  for _ in 0..(if q { 30 } else { 2000 }) {
    let mut b = g.pick(&honest).clone();
    let i = if g.chance(1, 3) && b.len() >= 40 { g.range(32, 39) as usize } else { g.below(b.len() as u64) as usize };
    b[i] ^= 1 << g.below(8);
    emit_pkload("bitflip", &b);
  }
}

// ---------------------------------------------------------------------------------------------
// bincode: ProofDLEQ
// ---------------------------------------------------------------------------------------------

pub fn proofload_ans(b: &[u8]) -> String {
  guarded(|| match ProofDLEQ::load_from_bincode(b) {
    Ok(p) => format!("ok {}", hex(&p.serialize_to_bincode().unwrap())),
    Err(e) => format!("err:{}", codec_err_kind(&e)),
  })
}

fn emit_proofload(label: &str, b: &[u8]) {
  let a = proofload_ans(b);
  stat(&format!("codec.proofload.{}.{}", label, a.split(' ').next().unwrap()));
  emit(&format!("cd.proofload {}", hex(b)), &a);
}

pub fn noncanonical_scalars(g: &mut Sm) -> Vec<Vec<u8>> {
  let l = ell();
  let one = BigUint::one();
  let mut v = vec![
    le_n(&l, 32),
    le_n(&(&l + &one), 32),
    le_n(&(&l * 2u32), 32),
    le_n(&(&one << 255), 32),
    le_n(&((&one << 255) - &one), 32),
    le_n(&((&one << 256) - &one), 32),
    le_n(&(&one << 253), 32),
    le_n(&(&l * 15u32), 32),
  ];
  for _ in 0..4 {
    let mut b = g.bytes(32);
    b[31] |= 0x20;
    v.push(b);
  }
  v
}

/// honest verifiable evaluations: (pk bytes, blinded input, output, c, s, tag)
pub fn honest_evals(g: &mut Sm, count: usize) -> Vec<(Server, Honest)> {
  let mut out = Vec::new();
  for i in 0..count {
    let mut mds = gen_tagset(g, 6);
    if mds.is_empty() {
      mds.push(g.below(256) as u8);
    }
    let server = Server::new(mds.clone()).expect("server");
    let md = *g.pick(&mds);
    let input = gen_input(g, i);
    let (bp, _r) = Client::blind(&input);
    let ev = server.eval(&bp, md, true).expect("eval");
    let (c, s) = proof_cs(ev.proof.as_ref().unwrap());
    let h = Honest {
      pkb: server.get_public_key().serialize_to_bincode().unwrap(),
      inp: bp.as_bytes().to_vec(),
      out: ev.output.as_bytes().to_vec(),
      c,
      s,
      md,
    };
    out.push((server, h));
  }
  out
}

fn proof_section(g: &mut Sm, q: bool, hs: &[(Server, Honest)]) {
  let bnd = boundary_scalars();
  let mut goods: Vec<Vec<u8>> = Vec::new();
  for (_, h) in hs.iter() {
    let mut b = h.c.to_bytes().to_vec();
    b.extend_from_slice(&h.s.to_bytes());
    goods.push(b);
  }
  for _ in 0..(if q { 20 } else { 2000 }) {
    let mut b = gen_scalar(g, &bnd).to_bytes().to_vec();
    b.extend_from_slice(&gen_scalar(g, &bnd).to_bytes());
    goods.push(b);
  }
  for b in goods.iter() {
    emit_proofload("canonical", b);
  }
  let bad = noncanonical_scalars(g);
  for nb in bad.iter() {
    let good = gen_scalar(g, &bnd).to_bytes().to_vec();
    let mut v = nb.clone();
    v.extend_from_slice(&good);
    emit_proofload("noncanonical_c", &v);
    let mut v = good.clone();
    v.extend_from_slice(nb);
    emit_proofload("noncanonical_s", &v);
    let mut v = nb.clone();
    v.extend_from_slice(&g.pick(&bad[..])[..]);
    emit_proofload("noncanonical_both", &v);
  }
  // every length 0..=70: prefixes of a good encoding, good encodings with trailing bytes, noise
  for len in 0..=70usize {
    let mut v = g.pick(&goods).clone();
    v.extend_from_slice(&g.bytes(8));
    v.truncate(len);
    emit_proofload("length", &v);
    emit_proofload("length", &g.blob(len));
    emit_proofload("length", &vec![0u8; len]);
  }
  emit_proofload("long", &g.blob(10000));
  emit_proofload("long", &vec![0u8; 10000]);
  for _ in 0..(if q { 40 } else { 4000 }) {
    let mut v = g.blob(64);
    match g.below(4) {
      0 => v[31] &= 0x0f,
      1 => v[63] &= 0x0f,
      2 => {
        v[31] &= 0x0f;
        v[63] &= 0x0f;
      }
      _ => {}
    }
    emit_proofload("random64", &v);
  }
}

// ---------------------------------------------------------------------------------------------
// JSON
// ---------------------------------------------------------------------------------------------

fn ptparse_ans(s: &str) -> String {
  guarded(|| match serde_json::from_str::<Point>(s) {
    Ok(p) => format!("ok {}", hex(p.as_bytes())),
    Err(_) => "err".into(),
  })
}

fn emit_ptparse(label: &str, s: &str) -> String {
  let a = ptparse_ans(s);
  stat(&format!("codec.ptparse.{}.{}", label, a.split(' ').next().unwrap()));
  emit(&format!("cd.ptparse {}", thex(s)), &a);
  a
}

pub fn evparse_ans(s: &str) -> String {
  guarded(|| match serde_json::from_str::<Evaluation>(s) {
    Ok(ev) => format!("ok {}", thex(&serde_json::to_string(&ev).unwrap())),
    Err(_) => "err".into(),
  })
}

fn emit_evparse(label: &str, s: &str) -> String {
  let a = evparse_ans(s);
  stat(&format!("codec.evparse.{}.{}", label, a.split(' ').next().unwrap()));
  emit(&format!("cd.evparse {}", thex(s)), &a);
  a
}

fn ws(g: &mut Sm) -> String {
  match g.below(12) {
    0 => " ".into(),
    1 => "\n".into(),
    2 => "\t".into(),
    3 => "\r\n".into(),
    4 => "  \n\t ".into(),
    _ => "".into(),
  }
}

/// no whitespace at all, or the random mixture
fn wsm(g: &mut Sm, on: bool) -> String {
  if on {
    ws(g)
  } else {
    "".into()
  }
}

/// a number array with optional whitespace around every token
fn arr_json(g: &mut Sm, b: &[u8], spaced: bool) -> String {
  let mut s = String::new();
  s.push('[');
  for (i, x) in b.iter().enumerate() {
    if i > 0 {
      s.push_str(&wsm(g, spaced));
      s.push(',');
    }
    s.push_str(&wsm(g, spaced));
    s.push_str(&x.to_string());
  }
  s.push_str(&wsm(g, spaced));
  s.push(']');
  s
}

const BAD_NUMBERS: &[&str] = &[
  "256", "-1", "1.0", "1e0", "1E0", "-0", "00", "01", "007", "0x10", "\"1\"", "1.", ".5", "1e", "+1", "null", "true", "[1]", "{}", "300", "1000",
  "99999999999999999999", "18446744073709551616", "18446744073709551615", "0.0", "0e0", "2.5e1", "1e-1", "-", "1 2", "0 0", "12a", "1_0", "",
  "255.0", "0.", "0e", "-255", "1e400", "\u{663}",
];

const GOOD_NUMBERS: &[&str] = &["0", "1", "9", "10", "99", "100", "199", "200", "249", "250", "255", "128", "127"];

/// a random JSON value for an unknown field; `bad` plants one malformed spot
fn gen_value(g: &mut Sm, depth: u32, bad: &mut bool) -> String {
  let pick = if depth == 0 { g.below(7) } else { g.below(10) };
  let plant = *bad && g.chance(1, 3);
  if plant {
    *bad = false;
    return g
      .pick(&[
        "tru", "nul", "fals", "nulll", "True", "01", "1.", ".5", "1e", "+1", "'a'", "\"\\x\"", "\"\\u12\"", "\"\\u12g4\"", "\"a\u{1}b\"", "[1,]", "[,1]",
        "{\"a\"}", "{\"a\":}", "{a:1}", "{\"a\":1,}", "NaN", "Infinity", "-", "-a", "[1 2]", "{\"a\":1 \"b\":2}", "{,}", "[", "{", "\"abc", "]", "}", "",
        "{\"a\":1,,\"b\":2}", "[1,,2]", "{1:2}", "{\"a\" 1}", "-01", "1e+", "1.e1", "\"\\", "{\"a\":1}}", "[[]", "\u{feff}1", "/**/1", "1//x",
      ])
      .to_string();
  }
  match pick {
    0 => "null".into(),
    1 => (*g.pick(&["true", "false"])).into(),
    2 => (*g.pick(&["0", "-0", "1", "-1", "12345678901234567890123", "1.5", "-1.5e+3", "0.001", "1E5", "1e-5", "0e0", "0.0", "255", "256", "-0.0e-0", "9.99E+99", "1e9999"])).into(),
    3 | 4 => gen_string(g),
    5 => "[]".into(),
    6 => "{}".into(),
    7 | 8 => {
      let n = g.range(1, 4);
      let mut s = String::from("[");
      for i in 0..n {
        if i > 0 {
          s.push_str(&ws(g));
          s.push(',');
        }
        s.push_str(&ws(g));
        s.push_str(&gen_value(g, depth - 1, bad));
      }
      s.push_str(&ws(g));
      s.push(']');
      s
    }
    _ => {
      let n = g.range(1, 3);
      let mut s = String::from("{");
      for i in 0..n {
        if i > 0 {
          s.push_str(&ws(g));
          s.push(',');
        }
        s.push_str(&ws(g));
        s.push_str(&gen_string(g));
        s.push_str(&ws(g));
        s.push(':');
        s.push_str(&ws(g));
        s.push_str(&gen_value(g, depth - 1, bad));
      }
      s.push_str(&ws(g));
      s.push('}');
      s
    }
  }
}

/// a JSON string literal (valid): plain text, escapes, surrogate pairs, non-ASCII
fn gen_string(g: &mut Sm) -> String {
  let mut s = String::from("\"");
  for _ in 0..g.below(6) {
    s.push_str(*g.pick(&[
      "a", "output", "proof", "c", "s", " ", "\\\"", "\\\\", "\\/", "\\b", "\\f", "\\n", "\\r", "\\t", "\\u0041", "\\u00e9", "\\uD83D\\uDE00", "\\ud800",
      "\\udc00", "\\uABCD", "\u{e9}", "\u{1f600}", "[", "}", ",", ":", "/", "\u{7f}", "\\u0000",
    ]));
  }
  s.push('"');
  s
}

struct EvParts {
  out_b64: String,
  proof: Option<(Vec<u8>, Vec<u8>)>,
}

fn proof_json(g: &mut Sm, c: &[u8], s: &[u8], spaced: bool, order: bool) -> String {
  let (sc1, sc2) = (spaced && g.chance(1, 4), spaced && g.chance(1, 4));
  let fc = format!("\"c\"{}:{}{}", wsm(g, spaced), wsm(g, spaced), arr_json(g, c, sc1));
  let fs = format!("\"s\"{}:{}{}", wsm(g, spaced), wsm(g, spaced), arr_json(g, s, sc2));
  let (a, b) = if order { (fc, fs) } else { (fs, fc) };
  format!("{{{}{}{},{}{}{}}}", wsm(g, spaced), a, wsm(g, spaced), wsm(g, spaced), b, wsm(g, spaced))
}

fn proof_value(g: &mut Sm, p: &EvParts, spaced: bool) -> String {
  match &p.proof {
    None => "null".into(),
    Some((c, s)) => {
      let order = !spaced || g.chance(2, 3);
      proof_json(g, c, s, spaced, order)
    }
  }
}

/// an object from `(key literal, value text)` fields
fn obj(g: &mut Sm, fields: &[(String, String)], spaced: bool) -> String {
  let mut s = String::from("{");
  for (i, (k, v)) in fields.iter().enumerate() {
    if i > 0 {
      s.push_str(&wsm(g, spaced));
      s.push(',');
    }
    s.push_str(&wsm(g, spaced));
    s.push_str(k);
    s.push_str(&wsm(g, spaced));
    s.push(':');
    s.push_str(&wsm(g, spaced));
    s.push_str(v);
  }
  s.push_str(&wsm(g, spaced));
  s.push('}');
  s
}

fn scalar_arr(g: &mut Sm, bnd: &[Scalar]) -> String {
  let b = gen_scalar(g, bnd).to_bytes();
  arr_json(g, &b, false)
}

fn lit(s: &str) -> String {
  format!("\"{}\"", s)
}

fn json_section(g: &mut Sm, q: bool, hs: &[(Server, Honest)]) {
  // ---- Point ----
  let mut pts: Vec<Vec<u8>> = vec![vec![0u8; 32], vec![255u8; 32], (0..32u8).collect(), (0..32u8).map(|i| 99 + i).collect(), (0..32u8).map(|i| 8 * i + 7).collect()];
  for (_, h) in hs.iter().take(if q { 6 } else { 200 }) {
    pts.push(h.out.clone());
    pts.push(h.inp.clone());
  }
  for _ in 0..(if q { 10 } else { 500 }) {
    pts.push(g.blob(32));
  }
  for (i, b) in pts.iter().enumerate() {
    let p = Point::from(&b[..]);
    let text = serde_json::to_string(&p).unwrap();
    emit(&format!("cd.ptjson {}", hex(b)), &format!("ok {}", thex(&text)));
    let a = emit_ptparse("honest", &text);
    assert_eq!(a, format!("ok {}", hex(b)));
    emit_ptparse("spaced", &format!("{}{}{}", ws(g), arr_json(g, b, true), ws(g)));
    if i < (if q { 3 } else { 40 }) {
      for k in 0..text.len() {
        emit_ptparse("truncated", &text[..k]);
      }
    }
    // trailing characters
    for t in [" ", "\n", " x", "]", ",", "[]", "0", " null", "\u{0}", "\u{a0}", "//", " \t\r\n"] {
      if g.chance(1, if q { 4 } else { 1 }) {
        emit_ptparse("trailing", &format!("{}{}", text, t));
      }
    }
  }
  // wrong lengths
  for n in [0usize, 1, 2, 31, 33, 34, 64] {
    let (b1, b2) = (g.bytes(n), g.bytes(n));
    emit_ptparse("length", &arr_json(g, &b1, false));
    emit_ptparse("length", &arr_json(g, &b2, true));
  }
  // one element replaced by something else
  for (k, bad) in BAD_NUMBERS.iter().enumerate() {
    let b = g.bytes(32);
    let pos = if k % 3 == 0 { 0 } else if k % 3 == 1 { 31 } else { g.below(32) as usize };
    let elems: Vec<String> = b.iter().enumerate().map(|(i, x)| if i == pos { bad.to_string() } else { x.to_string() }).collect();
    emit_ptparse("badnumber", &format!("[{}]", elems.join(",")));
  }
  for good in GOOD_NUMBERS.iter() {
    let b = g.bytes(32);
    let pos = g.below(32) as usize;
    let elems: Vec<String> = b.iter().enumerate().map(|(i, x)| if i == pos { good.to_string() } else { x.to_string() }).collect();
    emit_ptparse("goodnumber", &format!("[{}]", elems.join(",")));
    emit_ptparse("goodnumber", &format!("[{} ]", elems.join(" ,")));
  }
  {
    let b = g.bytes(32);
    let elems: Vec<String> = b.iter().map(|x| x.to_string()).collect();
    let body = elems.join(",");
    for s in [
      format!("[{},]", body),
      format!("[,{}]", body),
      format!("[{}", body),
      format!("{}]", body),
      format!("[[{}]]", body),
      format!("{{\"0\":[{}]}}", body),
      format!("\"[{}]\"", body),
      format!("[{}]]", body),
      format!("[{}][", body),
      format!("({})", body),
      format!("[{}", elems.join(" ")),
      format!("[{}]", elems.join(";")),
      format!("[{}]", elems.join(",,")),
      format!("[{}]", elems.join(", ")),
      format!("[{}]", elems.join(" ,\n")),
      format!("\u{feff}[{}]", body),
      format!("\u{b}[{}]", body),
      format!("\u{c}[{}]", body),
      format!("\u{a0}[{}]", body),
      "null".to_string(),
      "".to_string(),
      " ".to_string(),
      "[".to_string(),
      "]".to_string(),
      "[]".to_string(),
      "{}".to_string(),
      "0".to_string(),
      format!("\"{}\"", BASE64_STANDARD.encode(&b)),
    ] {
      emit_ptparse("shape", &s);
    }
  }
  // character-level noise on honest texts
  for _ in 0..(if q { 150 } else { 10000 }) {
    let b = g.pick(&pts).clone();
    let text = serde_json::to_string(&Point::from(&b[..])).unwrap();
    emit_ptparse("noise", &mutate_text(g, &text));
  }

  // ---- Evaluation ----
  let mut parts: Vec<EvParts> = Vec::new();
  for (i, (server, h)) in hs.iter().enumerate() {
    // real evaluations, with and without proof, through the real serializer
    let ev = server.eval(&Point::from(&h.inp[..]), h.md, i % 2 == 0).expect("eval");
    let text = serde_json::to_string(&ev).unwrap();
    let out = ev.output.as_bytes().to_vec();
    let pr = ev.proof.as_ref().map(proof_cs);
    let tok = match &pr {
      None => "none".to_string(),
      Some((c, s)) => format!("{}:{}", sch(c), sch(s)),
    };
    emit(&format!("cd.evjson {} {}", hex(&out), tok), &format!("ok {}", thex(&text)));
    let a = emit_evparse("honest", &text);
    assert_eq!(a, format!("ok {}", thex(&text)));
    parts.push(EvParts { out_b64: BASE64_STANDARD.encode(&out), proof: pr.map(|(c, s)| (c.to_bytes().to_vec(), s.to_bytes().to_vec())) });
    if i < (if q { 4 } else { 40 }) {
      for k in 0..text.len() {
        if text.is_char_boundary(k) {
          emit_evparse("truncated", &text[..k]);
        }
      }
    }
    for t in [" ", "\n", " x", "}", ",", "{}", "0", " null", "\u{0}", "\u{a0}", " \t\r\n", "]"] {
      if g.chance(1, if q { 4 } else { 1 }) {
        emit_evparse("trailing", &format!("{}{}", text, t));
      }
    }
  }
  let bnd = boundary_scalars();
  for _ in 0..(if q { 10 } else { 300 }) {
    let pr = if g.chance(1, 2) { Some((gen_scalar(g, &bnd).to_bytes().to_vec(), gen_scalar(g, &bnd).to_bytes().to_vec())) } else { None };
    parts.push(EvParts { out_b64: BASE64_STANDARD.encode(g.blob(32)), proof: pr });
  }
  let bad_scalars = noncanonical_scalars(g);
  let rounds = if q { 500 } else { 30000 };
  for it in 0..rounds {
    let p = &parts[it % parts.len()];
    let spaced = g.chance(1, 2);
    let out_f = (lit("output"), lit(&p.out_b64));
    let proof_f = (lit("proof"), proof_value(g, p, spaced));
    let label: &str;
    let text: String = match it % 28 {
      0 => {
        label = "plain";
        obj(g, &[out_f, proof_f], spaced)
      }
      1 => {
        label = "reordered";
        obj(g, &[proof_f, out_f], spaced)
      }
      2 => {
        label = "missing_proof";
        obj(g, &[out_f], spaced)
      }
      3 => {
        label = "missing_output";
        obj(g, &[proof_f], spaced)
      }
      4 => {
        label = "empty";
        obj(g, &[], spaced)
      }
      5 => {
        label = "unknown_fields";
        let mut fs = vec![out_f, proof_f];
        for _ in 0..g.range(1, 3) {
          let mut bad = false;
          let k = if g.chance(1, 3) { gen_string(g) } else { lit(*g.pick(&["x", "Output", "output ", "proo", "", "proofs", "c", "s", "OUTPUT", "0"])) };
          let v = gen_value(g, 3, &mut bad);
          let pos = g.below(fs.len() as u64 + 1) as usize;
          fs.insert(pos, (k, v));
        }
        obj(g, &fs, spaced)
      }
      6 => {
        label = "unknown_bad";
        let mut bad = true;
        let v = gen_value(g, 3, &mut bad);
        let mut fs = vec![out_f, proof_f];
        let pos = g.below(3) as usize;
        fs.insert(pos, (lit("x"), v));
        obj(g, &fs, spaced)
      }
      7 => {
        label = "duplicate";
        let fs = match g.below(4) {
          0 => vec![out_f.clone(), proof_f, out_f],
          1 => vec![out_f, proof_f.clone(), proof_f],
          2 => vec![out_f.clone(), out_f, proof_f],
          _ => vec![proof_f.clone(), (lit("proof"), "null".into()), out_f],
        };
        obj(g, &fs, spaced)
      }
      8 => {
        label = "escaped_key";
        let k = g.pick(&["out\\u0070ut", "\\u006futput", "outpu\\u0074", "\\u006Futput", "out\\/put", "output\\u0000", "\\ud800output", "outpu\\ud83d\\ude00", "o\\u0075tput"]).to_string();
        let k2 = g.pick(&["pr\\u006fof", "proof", "\\u0070roof", "proo\\u0066", "proof\\n", "\\udc00"]).to_string();
        obj(g, &[(lit(&k), lit(&p.out_b64)), (lit(&k2), proof_f.1)], spaced)
      }
      9 => {
        label = "escaped_output";
        // any escape makes the string non-borrowable
        let mut v = p.out_b64.clone();
        match g.below(5) {
          0 => v = v.replacen('A', "\\u0041", 1),
          1 => v = v.replace('/', "\\/"),
          2 => v = v.replacen('=', "\\u003d", 1),
          3 => v.push_str("\\n"),
          _ => v = format!("\\u00{:02x}{}", v.as_bytes()[0], &v[1..]),
        }
        obj(g, &[(lit("output"), lit(&v)), proof_f], spaced)
      }
      10 => {
        label = "bad_base64";
        let raw = BASE64_STANDARD.decode(&p.out_b64).unwrap();
        let v = match g.below(9) {
          0 => BASE64_STANDARD.encode(&raw[..31]),
          1 => BASE64_STANDARD.encode([&raw[..], &[7u8][..]].concat()),
          2 => p.out_b64.trim_end_matches('=').to_string(),
          3 => format!("{}=", p.out_b64),
          4 => p.out_b64.replace('=', "A"),
          5 => format!(" {}", p.out_b64),
          6 => "".to_string(),
          7 => {
            // non-zero trailing bits: 32 bytes leave 4 unused bits in the last symbol
            let mut c: Vec<char> = p.out_b64.chars().collect();
            let i = c.len() - 2;
            let idx = B64_ALPHA.iter().position(|&x| x as char == c[i]).unwrap();
            c[i] = B64_ALPHA[idx | (1 + g.below(3) as usize)] as char;
            c.into_iter().collect()
          }
          _ => p.out_b64.replace('+', "-").replace('/', "_").replacen(|c: char| c.is_ascii_lowercase(), "*", 1),
        };
        obj(g, &[(lit("output"), lit(&v)), proof_f], spaced)
      }
      11 => {
        label = "output_type";
        let raw = BASE64_STANDARD.decode(&p.out_b64).unwrap();
        let v = match g.below(6) {
          0 => arr_json(g, &raw, false),
          1 => "null".to_string(),
          2 => "0".to_string(),
          3 => format!("[{}]", lit(&p.out_b64)),
          4 => format!("{{\"0\":{}}}", lit(&p.out_b64)),
          _ => "true".to_string(),
        };
        obj(g, &[(lit("output"), v), proof_f], spaced)
      }
      12 => {
        label = "noncanonical_scalar";
        let good = gen_scalar(g, &bnd).to_bytes().to_vec();
        let nb = g.pick(&bad_scalars).clone();
        let (c, s) = if g.chance(1, 2) { (nb, good) } else { (good, nb) };
        let order = g.chance(1, 2);
        let pj = proof_json(g, &c, &s, spaced, order);
        obj(g, &[out_f, (lit("proof"), pj)], spaced)
      }
      13 => {
        label = "scalar_length";
        let n = *g.pick(&[0usize, 1, 31, 33, 64]);
        let c = g.bytes(n);
        let mut s = g.bytes(32);
        s[31] &= 0x0f;
        let order = g.chance(1, 2);
        let pj = if g.chance(1, 2) { proof_json(g, &c, &s, spaced, order) } else { proof_json(g, &s, &c, spaced, order) };
        obj(g, &[out_f, (lit("proof"), pj)], spaced)
      }
      14 => {
        label = "scalar_number";
        let mut s = g.bytes(32);
        s[31] &= 0x0f;
        let nums = if g.chance(2, 3) { BAD_NUMBERS } else { GOOD_NUMBERS };
        let rep = g.pick(nums).to_string();
        let pos = g.below(31) as usize;
        let elems: Vec<String> = s.iter().enumerate().map(|(i, x)| if i == pos { rep.clone() } else { x.to_string() }).collect();
        let arr = format!("[{}]", elems.join(","));
        let other = scalar_arr(g, &bnd);
        let pj = if g.chance(1, 2) { obj(g, &[(lit("c"), arr), (lit("s"), other)], spaced) } else { obj(g, &[(lit("c"), other), (lit("s"), arr)], spaced) };
        obj(g, &[out_f, (lit("proof"), pj)], spaced)
      }
      15 => {
        label = "proof_fields";
        let c = scalar_arr(g, &bnd);
        let s = scalar_arr(g, &bnd);
        let mut bad = false;
        let pj = match g.below(9) {
          0 => obj(g, &[(lit("c"), c)], spaced),
          1 => obj(g, &[(lit("s"), s)], spaced),
          2 => obj(g, &[], spaced),
          3 => obj(g, &[(lit("c"), c.clone()), (lit("s"), s), (lit("c"), c)], spaced),
          4 => {
            let v = gen_value(g, 2, &mut bad);
            obj(g, &[(lit("c"), c), (lit("x"), v), (lit("s"), s)], spaced)
          }
          5 => obj(g, &[(lit("C"), c), (lit("s"), s)], spaced),
          6 => obj(g, &[(lit("\\u0063"), c), (lit("\\u0073"), s)], spaced),
          7 => obj(g, &[(lit("c"), c), (lit("s"), s.clone()), (lit("s"), s)], spaced),
          _ => obj(g, &[(lit("s"), s), (lit("output"), lit("x")), (lit("c"), c), (lit("proof"), "null".into())], spaced),
        };
        obj(g, &[out_f, (lit("proof"), pj)], spaced)
      }
      16 => {
        label = "array_form";
        // serde's derived visitors also accept a struct as the array of its fields
        let c = scalar_arr(g, &bnd);
        let s = scalar_arr(g, &bnd);
        let w = |g: &mut Sm| wsm(g, spaced);
        match g.below(12) {
          0 => format!("[{}{}{},{}{}{}]", w(g), out_f.1, w(g), w(g), proof_f.1, w(g)),
          1 => format!("[{}{}{}]", w(g), out_f.1, w(g)),
          2 => format!("[{}]", w(g)),
          3 => format!("[{},{},null]", out_f.1, proof_f.1),
          4 => format!("[{},{},]", out_f.1, proof_f.1),
          5 => format!("[{},]", out_f.1),
          6 => format!("[{},{}]", proof_f.1, out_f.1),
          7 => format!("{{\"output\":{},\"proof\":[{}{}{},{}{}{}]}}", out_f.1, w(g), c, w(g), w(g), s, w(g)),
          8 => format!("[{},[{},{}]]", out_f.1, c, s),
          9 => format!("[{},[{}]]", out_f.1, c),
          10 => format!("[{},[{},{},{}]]", out_f.1, c, s, c),
          _ => format!("[{},[{},{},]]", out_f.1, c, s),
        }
      }
      17 => {
        label = "proof_type";
        let v = g.pick(&["nul", "nulll", "NULL", "0", "false", "\"\"", "[]", "{}", "null null", "n", "[null,null]", "{\"c\":null,\"s\":null}", " null "]).to_string();
        obj(g, &[out_f, (lit("proof"), v)], spaced)
      }
      18 => {
        label = "toplevel";
        let inner = obj(g, &[out_f, proof_f], spaced);
        match g.below(8) {
          0 => format!("[{}]", inner),
          1 => format!("{{\"Evaluation\":{}}}", inner),
          2 => lit(&inner.replace('"', "\\\"")),
          3 => format!("{}{}", inner, inner),
          4 => format!("{},", inner),
          5 => format!("\u{feff}{}", inner),
          6 => format!("{} {}", ws(g), inner),
          _ => format!("{}\n\n", inner),
        }
      }
      19 => {
        label = "syntax";
        let o = lit(&p.out_b64);
        let pv = proof_f.1.clone();
        match g.below(14) {
          0 => format!("{{\"output\":{},\"proof\":{},}}", o, pv),
          1 => format!("{{,\"output\":{},\"proof\":{}}}", o, pv),
          2 => format!("{{\"output\":{} \"proof\":{}}}", o, pv),
          3 => format!("{{\"output\":{},,\"proof\":{}}}", o, pv),
          4 => format!("{{\"output\"={},\"proof\":{}}}", o, pv),
          5 => format!("{{\"output\" {},\"proof\":{}}}", o, pv),
          6 => format!("{{output:{},proof:{}}}", o, pv),
          7 => format!("{{'output':{},'proof':{}}}", o, pv),
          8 => format!("{{\"output\":{},\"proof\":{}", o, pv),
          9 => format!("\"output\":{},\"proof\":{}}}", o, pv),
          10 => format!("{{\"output\":{};\"proof\":{}}}", o, pv),
          11 => format!("{{\"output\"::{},\"proof\":{}}}", o, pv),
          12 => format!("{{\"output\":{},\"proof\":{}}}}}", o, pv),
          _ => format!("{{\"output\":{},null:{}}}", o, pv),
        }
      }
      20 => {
        label = "deep_unknown";
        // `IgnoredAny` runs iteratively: no recursion limit on skipped values
        let d = *g.pick(&[1usize, 10, 127, 128, 129, 200, 1000]);
        let (open, close) = if g.chance(1, 2) { ("[".repeat(d), "]".repeat(d)) } else { ("{\"a\":".repeat(d) + "1", "}".repeat(d)) };
        let v = format!("{}{}", open, if g.chance(1, 5) { close[1..].to_string() } else { close });
        obj(g, &[out_f, (lit("x"), v), proof_f], spaced)
      }
      21 => {
        label = "control_chars";
        let bad = *g.pick(&["\u{0}", "\u{1}", "\u{1f}", "\n", "\t", "\u{7f}", "\u{80}", "\u{2028}"]);
        match g.below(3) {
          0 => obj(g, &[(lit(&format!("output{}", bad)), lit(&p.out_b64)), out_f, proof_f], spaced),
          1 => obj(g, &[out_f, proof_f, (lit("x"), lit(&format!("a{}b", bad)))], spaced),
          _ => obj(g, &[(lit("output"), lit(&format!("{}{}", p.out_b64, bad))), proof_f], spaced),
        }
      }
      22 | 23 | 24 => {
        label = "noise";
        let t = obj(g, &[out_f, proof_f], false);
        mutate_text(g, &t)
      }
      25 => {
        label = "noise_spaced";
        let t = obj(g, &[out_f, proof_f], true);
        mutate_text(g, &t)
      }
      26 => {
        label = "unknown_then_missing";
        let mut bad = false;
        let v = gen_value(g, 2, &mut bad);
        let k = gen_string(g);
        obj(g, &[(k, v), out_f], spaced)
      }
      _ => {
        label = "wide_ws";
        let t = obj(g, &[out_f, proof_f], true);
        t.replace(',', " ,\n").replace(':', " :\t").replace('[', "[ ").replace(']', "\r]")
      }
    };
    emit_evparse(label, &text);
  }
}

/// one or two character-level edits
fn mutate_text(g: &mut Sm, text: &str) -> String {
  let mut c: Vec<char> = text.chars().collect();
  for _ in 0..g.range(1, 2) {
    if c.is_empty() {
      break;
    }
    let i = g.below(c.len() as u64) as usize;
    let pool = ['0', '1', '9', ',', ':', '"', '[', ']', '{', '}', ' ', '\n', '-', '.', 'e', 'E', '\\', 'n', 'u', '=', 'A', '/', '+', 'c', 's', '\u{e9}', '\u{0}', '\t'];
    match g.below(4) {
      0 => {
        c.remove(i);
      }
      1 => c.insert(i, *g.pick(&pool)),
      2 => c[i] = *g.pick(&pool),
      _ => {
        let j = g.below(c.len() as u64) as usize;
        c.swap(i, j);
      }
    }
  }
  c.into_iter().collect()
}

pub fn codec(tier: &str, seed: u64) {
  let mut g = Sm::new(seed, "codec");
  let q = quick(tier);
  base64_section(&mut g, q);
  pk_section(&mut g, q);
  let hs = honest_evals(&mut g, if q { 12 } else { 200 });
  proof_section(&mut g, q, &hs);
  json_section(&mut g, q, &hs);
  keystate_section(&mut g, q);
  let _ = Scalar::ZERO;
}

// ---------------------------------------------------------------------------------------------
// bincode: ServerKeyState (feature key-sync)
// ---------------------------------------------------------------------------------------------

fn ks_dump(server: &Server) -> String {
  let prgs: Vec<String> = server.verif_pprf().verif_prg_keys().iter().map(|k| hex(k)).collect();
  format!(
    "{} {} {} {}",
    hex(&server.verif_oprf_key()),
    hex(&server.get_public_key().serialize_to_bincode().unwrap()),
    if prgs.is_empty() { "-".to_string() } else { prgs.join(",") },
    crate::s_ggm::dump(server.verif_pprf())
  )
}

pub fn ksload_ans(b: &[u8]) -> String {
  guarded(|| match bincode::deserialize::<ppoprf::ppoprf::ServerKeyState>(b) {
    Ok(st) => {
      let mut fresh = Server::new(vec![]).expect("server");
      fresh.set_private_key(st);
      format!("ok {}", ks_dump(&fresh))
    }
    Err(_) => "err".into(),
  })
}

fn emit_ksload(label: &str, b: &[u8]) -> String {
  let a = ksload_ans(b);
  stat(&format!("codec.ksload.{}.{}", label, a.split(' ').next().unwrap()));
  emit(&format!("cd.ksload {}", hex(b)), &a);
  a
}

const ORDER_NAME: &str = "bitvec::order::Lsb0";

/// a hand-built `BitSeq`: ordering name, width, head index, bit count, elements
fn hand_bitvec(order: &[u8], width: u8, head: u8, bits: u64, words: &[u64]) -> Vec<u8> {
  let mut v = (order.len() as u64).to_le_bytes().to_vec();
  v.extend_from_slice(order);
  v.push(width);
  v.push(head);
  v.extend_from_slice(&bits.to_le_bytes());
  v.extend_from_slice(&(words.len() as u64).to_le_bytes());
  for w in words {
    v.extend_from_slice(&w.to_le_bytes());
  }
  v
}

fn hand_keystate(g: &mut Sm, key: &[u8], pk: &[u8], prgs: &[Vec<u8>], prefixes: &[(Vec<u8>, Vec<u8>)], punctured: &[Vec<u8>], trailing: usize) -> Vec<u8> {
  let mut v = key.to_vec();
  v.extend_from_slice(pk);
  v.extend_from_slice(&(prgs.len() as u64).to_le_bytes());
  for p in prgs {
    v.extend_from_slice(p);
  }
  v.extend_from_slice(&(prefixes.len() as u64).to_le_bytes());
  for (bv, seed) in prefixes {
    v.extend_from_slice(bv);
    v.extend_from_slice(&(seed.len() as u64).to_le_bytes());
    v.extend_from_slice(seed);
  }
  v.extend_from_slice(&(punctured.len() as u64).to_le_bytes());
  for bv in punctured {
    v.extend_from_slice(bv);
  }
  v.extend_from_slice(&g.bytes(trailing));
  v
}

/// a bit vector encoding, mostly well-formed, with the variations the decoder has to judge
fn gen_bitvec(g: &mut Sm) -> Vec<u8> {
  let words: Vec<u64> = (0..g.below(4)).map(|_| g.next()).collect();
  let live = 64 * words.len() as u64;
  match g.below(16) {
    0 => hand_bitvec(b"bitvec::order::Msb0", 64, 0, g.below(live + 1), &words),
    1 => hand_bitvec(b"bitvec::order::Lsb", 64, 0, g.below(live + 1), &words),
    2 => hand_bitvec(b"", 64, 0, 0, &[]),
    3 => hand_bitvec(ORDER_NAME.as_bytes(), *g.pick(&[8u8, 16, 32, 0, 63, 65, 128]), 0, g.below(live + 1), &words),
    4 => hand_bitvec(ORDER_NAME.as_bytes(), 64, g.range(64, 255) as u8, g.below(live + 1), &words),
    5 => {
      // head + bits one past the buffer
      let head = g.below(64);
      hand_bitvec(ORDER_NAME.as_bytes(), 64, head as u8, (live + 1).saturating_sub(head), &words)
    }
    6 => hand_bitvec(ORDER_NAME.as_bytes(), 64, g.below(64) as u8, *g.pick(&[u64::MAX, 1 << 63, 1 << 61, (1 << 61) - 1, u64::MAX - 63]), &words),
    7 => {
      let mut o = ORDER_NAME.as_bytes().to_vec();
      o[3] = 0xff; // not UTF-8
      hand_bitvec(&o, 64, 0, 0, &[])
    }
    8 => hand_bitvec(ORDER_NAME.as_bytes(), 64, 0, 0, &words),
    _ => {
      // head anywhere, bits anywhere that fits, dead bits arbitrary, spare elements
      let head = if g.chance(1, 2) { 0 } else { g.below(64) };
      let room = live.saturating_sub(head);
      let bits = if live == 0 || head > live { 0 } else { match g.below(4) { 0 => room, 1 => g.below(9).min(room), _ => g.below(room + 1) } };
      hand_bitvec(ORDER_NAME.as_bytes(), 64, if live == 0 { 0 } else { head as u8 }, bits, &words)
    }
  }
}

fn keystate_section(g: &mut Sm, q: bool) {
  let mut honest: Vec<Vec<u8>> = Vec::new();
  for i in 0..(if q { 12 } else { 300 }) {
    let mds = gen_tagset(g, if i % 4 == 0 { 40 } else { 6 });
    let mut server = Server::new(mds.clone()).expect("server");
    let npunct = match g.below(4) {
      0 => 0,
      1 => 1,
      _ => g.range(1, 24),
    };
    for _ in 0..npunct {
      let md = if !mds.is_empty() && g.chance(2, 3) { *g.pick(&mds) } else { g.below(256) as u8 };
      let _ = server.puncture(md);
    }
    let bytes = bincode::serialize(&server.get_private_key()).expect("serialize key state");
    stat("codec.ksser");
    emit(&format!("cd.ksser {}", ks_dump(&server)), &format!("ok {}", hex(&bytes)));
    let a = emit_ksload("honest", &bytes);
    assert_eq!(a, format!("ok {}", ks_dump(&server)));
    let mut v = bytes.clone();
    let tl = 1 + g.below(40) as usize;
    v.extend_from_slice(&g.blob(tl));
    emit_ksload("trailing", &v);
    let cuts: Vec<usize> = if !q && i < 6 {
      (0..bytes.len()).collect()
    } else {
      let mut c: Vec<usize> = vec![0, 31, 32, 63, 64, 71, 72, bytes.len() - 1, bytes.len() - 8, bytes.len() - 9];
      for _ in 0..(if q { 12 } else { 40 }) {
        c.push(g.below(bytes.len() as u64) as usize);
      }
      c
    };
    for k in cuts {
      emit_ksload("truncated", &bytes[..k.min(bytes.len() - 1)]);
    }
    for _ in 0..(if q { 10 } else { 40 }) {
      let mut v = bytes.clone();
      let j = g.below(v.len() as u64) as usize;
      match g.below(3) {
        0 => v[j] ^= 1 << g.below(8),
        1 => v[j] = g.below(256) as u8,
        _ => v[j] = v[j].wrapping_add(1),
      }
      emit_ksload("corrupt", &v);
    }
    honest.push(bytes);
  }
  // hand-built states around the bit-vector transport format
  let bnd = boundary_scalars();
  let bad_keys = noncanonical_scalars(g);
  for it in 0..(if q { 150 } else { 6000 }) {
    let key = if it % 17 == 0 { g.pick(&bad_keys[..]).clone() } else { gen_scalar(g, &bnd).to_bytes().to_vec() };
    let n = g.below(4) as usize;
    let tags: Vec<u8> = (0..n).map(|_| g.below(256) as u8).collect();
    let es = rand_entries(g, n, &tags);
    let pk = hand_pk(&g.bytes(32), if it % 19 == 0 { n as u64 + 1 } else { n as u64 }, &es, &[]);
    let prgs: Vec<Vec<u8>> = (0..g.below(4)).map(|_| g.bytes(32)).collect();
    let prefixes: Vec<(Vec<u8>, Vec<u8>)> = (0..g.below(4))
      .map(|_| {
        let bv = gen_bitvec(g);
        let sl = *g.pick(&[0usize, 1, 32, 33]);
        (bv, g.bytes(sl))
      })
      .collect();
    let punctured: Vec<Vec<u8>> = (0..g.below(3)).map(|_| gen_bitvec(g)).collect();
    let trailing = if g.chance(1, 4) { g.below(20) as usize } else { 0 };
    let mut v = hand_keystate(g, &key, &pk, &prgs, &prefixes, &punctured, trailing);
    if it % 23 == 0 && !v.is_empty() {
      // a huge count somewhere
      let j = g.below(v.len() as u64) as usize;
      let end = (j + 8).min(v.len());
      for x in v[j..end].iter_mut() {
        *x = 0xff;
      }
    }
    emit_ksload("hand", &v);
  }
  for len in 0..=80usize {
    emit_ksload("random", &g.blob(len));
  }
}
