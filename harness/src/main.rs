mod util;
mod s_strobe;
mod s_fp;
mod s_sharks;
mod s_star;
mod oracle;
mod o_sharks;
mod o_wire;
mod o_star;
mod o_c09;
mod s_ggm;
mod o_ggm;
mod s_ppoprf;
mod o_ppoprf;
mod s_codec;
mod o_codec;
mod s_agg;
mod o_agg;

fn main() {
  let args: Vec<String> = std::env::args().collect();
  if args.len() < 4 {
    eprintln!("usage: verif-harness <stream|oracle:Cxx> <quick|thorough> <seed>");
    std::process::exit(2);
  }
  // panics are expected and caught per case; keep stderr quiet
  if std::env::var("VERIF_SHOW_PANICS").is_err() { std::panic::set_hook(Box::new(|_| {})); }
  let (what, tier, seed) = (args[1].as_str(), args[2].as_str(), args[3].parse::<u64>().unwrap_or(0));
  match what {
    "keccak" => s_strobe::keccak(tier, seed),
    "strobe" => s_strobe::strobe(tier, seed),
    "strobe_rng" => s_strobe::strobe_rng(tier, seed),
    "fp" => s_fp::run(tier, seed),
    "sharks" => s_sharks::run(tier, seed),
    "adss" => s_star::adss(tier, seed),
    "star" => s_star::star(tier, seed),
    "wire" => s_star::wire(tier, seed),
    "ggm" => s_ggm::ggm(tier, seed),
    "scalar" => s_ppoprf::scalar(tier, seed),
    "ristretto" => s_ppoprf::ristretto(tier, seed),
    "ppoprf" => s_ppoprf::ppoprf(tier, seed),
    "server" => s_ppoprf::server(tier, seed),
    "codec" => s_codec::codec(tier, seed),
    "wasm" => s_agg::wasm(tier, seed),
    "agg" => s_agg::agg(tier, seed),
    w if w.starts_with("oracle:") => oracle::run(&w[7..], tier, seed),
    _ => {
      eprintln!("unknown stream {}", what);
      std::process::exit(2);
    }
  }
  util::dump_stats();
}
