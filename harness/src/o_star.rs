//! Oracles on the real sta-rs / adss crates: C01 (threshold recovery), C16 (ADSS determinism and
//! recovery).
use crate::oracle::*;
use crate::s_star::*;
use crate::util::*;
use adss::{recover, Commune, Share as AShare};
use sta_rs::{derive_ske_key, load_bytes, share_recover, Message};

/// parse a decrypted payload as a consumer of the documented framing would
pub fn parse_payload(pt: &[u8]) -> Option<(Vec<u8>, Option<Vec<u8>>)> {
  let m = load_bytes(pt)?;
  let rest = &pt[4 + m.len()..];
  if rest.is_empty() {
    return Some((m.to_vec(), None));
  }
  let a = load_bytes(rest)?;
  Some((m.to_vec(), Some(a.to_vec())))
}

pub fn c01(tier: &str, seed: u64) {
  let mut g = Sm::new(seed, "oracle.C01");
  let n = if quick(tier) { 200 } else { 3000 };
  for case_i in 0..n {
    let t: u32 = match case_i % 8 {
      0 => 1,
      1 => 2,
      2 => g.range(3, 8) as u32,
      3 => g.range(9, 24) as u32,
      4 => g.range(25, if quick(tier) { 64 } else { 96 }) as u32,
      _ => gen_threshold(&mut g, tier),
    };
    let mlen = *g.pick(&[0usize, 1, 23, 24, 25, 161, 162, 163, 164, 165, 166, 167, 20, 32, 4096]);
    let m = g.blob(mlen);
    let e = { let n = if g.chance(1, 4) { 0 } else { g.range(1, 10) as usize }; g.blob(n) };
    let injected = g.chance(1, 2);
    let rnd_o = if injected {
      let mut r = [0u8; 32];
      r.copy_from_slice(&g.bytes(32));
      // distinguished values a randomness server may as well return: all zero, all ones, 0..01
      match case_i % 16 {
        1 => r = [0u8; 32],
        5 => r = [0xff; 32],
        9 => { r = [0u8; 32]; r[31] = 1; }
        13 => { r = [0u8; 32]; r[0] = 1; }
        _ => {}
      }
      Some(r)
    } else {
      None
    };
    let nrep = t as usize + g.below(4) as usize;
    // every 32-byte value is a legitimate shared randomness: a client must be able to report
    if let Some(r) = rnd_o {
      let mg = MessageGenerator::new(SingleMeasurement::new(&m), t, &e);
      if let Err(err) = Message::generate(&mg, &r, None) {
        fail("generate_refused", &[("measurement", hex(&m)), ("epoch", hex(&e)), ("threshold", t.to_string()), ("randomness", hex(&r)), ("error", err.to_string())]);
        case(true);
        continue;
      }
    }
    let mut clients: Vec<Client> = (0..nrep).map(|_| make_client(&m, &e, t, gen_aux(&mut g), rnd_o)).collect();
    // client 0 reuses ONE generator object: it first produced a report under other randomness
    // (and the WASM material), then the report it actually sends
    if case_i % 3 == 0 {
      let mg = MessageGenerator::new(SingleMeasurement::new(&m), t, &e);
      let mut other = [0u8; 32];
      other.copy_from_slice(&g.bytes(32));
      let _ = Message::generate(&mg, &other, None);
      let _ = mg.share_with_local_randomness();
      let mut rnd = [0u8; 32];
      match rnd_o {
        Some(r) => rnd = r,
        None => mg.sample_local_randomness(&mut rnd),
      }
      let aux = clients[0].aux.clone();
      let msg = Message::generate(&mg, &rnd, aux.as_ref().map(|a| sta_rs::AssociatedData::new(a))).expect("generate");
      clients[0] = Client { m: m.clone(), e: e.clone(), t, aux, rnd, msg };
      stat("oracle.C01.generator_reused");
    }
    // through the wire
    let decoded: Vec<Message> = clients
      .iter()
      .map(|c| {
        let b = c.msg.to_bytes();
        match Message::from_bytes(&b) {
          Some(d) => {
            if d != c.msg {
              fail("wire_roundtrip_changed_report", &[("report", hex(&b))]);
            }
            d
          }
          None => {
            fail("wire_roundtrip_rejected", &[("report", hex(&b))]);
            c.msg.clone()
          }
        }
      })
      .collect();
    // selections with exactly / at least t distinct shares
    for sel_i in 0..4 {
      let mut idx: Vec<usize> = (0..nrep).collect();
      g.shuffle(&mut idx);
      match sel_i {
        0 => idx.truncate(t as usize),
        1 => {
          idx.truncate(t as usize);
          let d = idx[g.below(idx.len() as u64) as usize];
          let pos = g.below(idx.len() as u64 + 1) as usize;
          idx.insert(pos, d);
          idx.push(d);
        }
        2 => {}
        _ => {
          idx.truncate(t as usize);
          idx.reverse();
        }
      }
      let shares: Vec<sta_rs::Share> = idx.iter().map(|&i| decoded[i].share.clone()).collect();
      let res = std::panic::catch_unwind(std::panic::AssertUnwindSafe(|| share_recover(&shares).map(|c| c.get_message()).map_err(|e| e.to_string())));
      let desc = |what: &str| {
        vec![
          ("what", what.to_string()),
          ("measurement", hex(&m)),
          ("epoch", hex(&e)),
          ("threshold", t.to_string()),
          ("randomness", if injected { hex(&clients[0].rnd) } else { "local".into() }),
          ("selection", format!("{:?}", idx)),
          ("reports", clients.iter().map(|c| hex(&c.msg.to_bytes())).collect::<Vec<_>>().join(",")),
        ]
      };
      match res {
        Err(_) => fail("recover_panicked", &desc("share_recover panicked").iter().map(|(k, v)| (*k, v.clone())).collect::<Vec<_>>()),
        Ok(Err(_)) => fail("recover_failed_with_t_distinct", &desc("share_recover returned Err").iter().map(|(k, v)| (*k, v.clone())).collect::<Vec<_>>()),
        Ok(Ok(r0)) => {
          let mut key = vec![0u8; 16];
          derive_ske_key(&r0, &e, &mut key);
          for (i, c) in clients.iter().enumerate() {
            let pt = decoded[i].ciphertext.decrypt(&key, "star_encrypt");
            match parse_payload(&pt) {
              Some((mm, aa)) if mm == c.m && aa == c.aux => {}
              other => {
                let mut d = desc("decrypted payload differs from what the client supplied");
                d.push(("client", i.to_string()));
                d.push(("expected_aux", format!("{:?}", c.aux.as_ref().map(|a| hex(a)))));
                d.push(("got", format!("{:?}", other.map(|(a, b)| (hex(&a), b.map(|x| hex(&x)))))));
                fail("wrong_payload", &d.iter().map(|(k, v)| (*k, v.clone())).collect::<Vec<_>>());
              }
            }
          }
        }
      }
      case(true);
    }
    if case_i == 1 {
      sample(&[("threshold", t.to_string()), ("reports", nrep.to_string()), ("measurement_len", mlen.to_string()), ("first_report", hex(&clients[0].msg.to_bytes()))]);
    }
  }
}

pub fn c16(tier: &str, seed: u64) {
  let mut g = Sm::new(seed, "oracle.C16");
  let n = if quick(tier) { 210 } else { 3000 };
  for case_i in 0..n {
    let t: u32 = match case_i % 7 {
      0 => 0,
      1 => 1,
      2 => 2,
      3 => g.range(3, 16) as u32,
      4 => g.range(17, if quick(tier) { 48 } else { 128 }) as u32,
      _ => g.range(1, 12) as u32,
    };
    let big = !quick(tier) && case_i % 40 == 9;
    // JOINT extremes: a large threshold together with large message / coins (each alone is covered
    // by the other cases): total share material of tens of megabytes
    let joint = case_i == 4 || case_i == 11 || (!quick(tier) && case_i % 100 == 18);
    let t = if joint { *g.pick(&[128u32, 127, 84, 42]) } else { t };
    let m = { let n = if joint { *g.pick(&[65_505usize, 65_537, 100_000, 40_000]) } else if big { 100_000 } else { *g.pick(&[0usize, 0, 1, 4, 165, 166, 167, 332, 1000]) }; g.blob(n) };
    let r = { let n = if joint { *g.pick(&[32usize, 40_000, 100_000]) } else if big { 70_000 } else { *g.pick(&[0usize, 1, 4, 32, 166, 500]) }; g.blob(n) };
    if joint {
      stat("oracle.C16.joint_extremes");
    }
    // RELATED message and coins: equal strings, one a prefix of the other, coins all zero
    // machine-size lengths (page multiples, powers of two) for the message, the coins, or both
    let (m, r, t) = if !joint && !big && case_i % 5 == 2 {
      stat("oracle.C16.page_sized_lengths");
      let pmax = if quick(tier) { 32768 } else { 65536 };
      let (ml, rl) = match g.below(4) {
        0 => (crate::s_star::gen_page_len(&mut g, pmax), *g.pick(&[1usize, 32, 166])),
        1 => (*g.pick(&[4096usize, 8192, 4096 * 3]), *g.pick(&[1usize, 32, 4096])),
        2 => (*g.pick(&[0usize, 1, 32]), crate::s_star::gen_page_len(&mut g, pmax)),
        _ => (crate::s_star::gen_page_len(&mut g, pmax), crate::s_star::gen_page_len(&mut g, pmax)),
      };
      (g.blob(ml), g.blob(rl), t.min(12))
    } else {
      (m, r, t)
    };
    let (m, r) = match case_i % 11 {
      3 if !joint && !big => { stat("oracle.C16.coins_equal_message"); let v = if m.is_empty() { vec![7u8, 7] } else { m.clone() }; (v.clone(), v) }
      7 if !joint && !big => { stat("oracle.C16.coins_prefix_of_message"); let mut v = r.clone(); v.extend(&m); (v, r) }
      9 if !joint && !big => { stat("oracle.C16.coins_all_zero"); (m.clone(), vec![0u8; m.len()]) }
      _ => (m, r),
    };
    let c = Commune::new(t, m.clone(), r.clone(), None);
    let cnt = (t as usize + 2).max(2);
    // history: the same (t, M, R) was shared under a custom transcript immediately before
    let preceded = case_i % 2 == 1;
    if preceded {
      let (tr, _) = custom_transcript(&mut g);
      let _ = Commune::new(t, m.clone(), r.clone(), Some(tr)).share();
      stat("oracle.C16.preceded_by_custom_transcript");
    }
    let desc = vec![("threshold", t.to_string()), ("preceded_by_custom_transcript_sharing_of_same_inputs", preceded.to_string()), ("message", hex(&m[..m.len().min(64)])), ("message_len", m.len().to_string()), ("coins_len", r.len().to_string()), ("coins", hex(&r[..r.len().min(64)]))];
    // sharing works for ANY message and coins (equal ones, all-zero ones, one a prefix of the other)
    let shares: Vec<AShare> = match (0..cnt).map(|_| c.clone().share()).collect::<Result<Vec<_>, _>>() {
      Ok(v) => v,
      Err(e) => {
        let mut d = desc.clone();
        d.push(("error", e.to_string()));
        fail("share_refused", &d);
        case(true);
        continue;
      }
    };
    // deterministic except for the Shamir share
    let strip = |s: &AShare| {
      let b = s.to_bytes();
      let sl = u32::from_le_bytes(b[4..8].try_into().unwrap()) as usize;
      let mut v = b[..4].to_vec();
      v.extend(&b[8 + sl..]);
      v
    };
    if shares.iter().any(|s| strip(s) != strip(&shares[0])) {
      fail("share_not_deterministic", &desc);
    }
    // points distinct (OS RNG) - needed for the recovery checks below
    let xs: Vec<Vec<u8>> = shares.iter().map(|s| share_x(&s.to_bytes())).collect();
    let distinct = xs.iter().collect::<std::collections::BTreeSet<_>>().len() == xs.len();
    if t == 0 {
      // any number of shares, in particular exactly one
      for k in 1..=shares.len() {
        if recover(&shares[..k]).is_ok() {
          let mut d = desc.clone();
          d.push(("shares_given", k.to_string()));
          fail("threshold_zero_recovered", &d);
        }
      }
    } else if distinct {
      let mut sel = shares.clone();
      g.shuffle(&mut sel);
      sel.truncate(t as usize);
      match recover(&sel) {
        Ok(rc) => {
          if rc.get_message() != m {
            fail("recovered_wrong_message", &desc);
          }
          // the recovered commune is the original one: its shares combine with the originals
          if t >= 2 {
            let Ok(fresh) = rc.clone().share() else { fail("reshare_refused", &desc); continue; };
            if strip(&fresh) != strip(&shares[0]) {
              fail("reshare_differs", &desc);
            }
            let mut mix: Vec<AShare> = sel[..t as usize - 1].to_vec();
            mix.push(fresh);
            match recover(&mix) {
              Ok(r2) if r2.get_message() == m => {}
              _ => fail("reshare_does_not_combine", &desc),
            }
          }
        }
        Err(_) => fail("recover_failed_with_t_distinct", &desc),
      }
      if t >= 2 && recover(&sel[..t as usize - 1]).is_ok() {
        fail("recovered_below_threshold", &desc);
      }
      // `recover` takes any IntoIterator of share references: lazily filtered, flattened and chained
      // iterators (whose size_hint says little) must give what the slice gives
      if case_i % 4 == 0 {
        let want = recover(&sel).map(|c| c.get_message()).ok();
        let halves: Vec<&[AShare]> = vec![&sel[..sel.len() / 2], &sel[sel.len() / 2..]];
        let shapes: Vec<(&str, Option<Vec<u8>>)> = vec![
          ("iter().filter(..)", recover(sel.iter().filter(|s| s.to_bytes().len() > 0)).map(|c| c.get_message()).ok()),
          ("chunks flattened", recover(halves.iter().flat_map(|h| h.iter())).map(|c| c.get_message()).ok()),
          ("skip_while(..)", recover(sel.iter().skip_while(|_| false)).map(|c| c.get_message()).ok()),
          ("chain", recover(sel[..1].iter().chain(sel[1..].iter())).map(|c| c.get_message()).ok()),
        ];
        for (shape, got) in shapes {
          if got != want {
            let mut d = desc.clone();
            d.push(("iterator_shape", shape.to_string()));
            d.push(("slice_result", format!("{:?}", want.as_ref().map(|v| v.len()))));
            d.push(("iterator_result", format!("{:?}", got.as_ref().map(|v| v.len()))));
            fail("recover_depends_on_iterator_shape", &d);
          }
        }
        stat("oracle.C16.lazy_iterators");
      }
    }
    // custom transcript: rejected by recover (which verifies under the default transcript)
    if t >= 1 && case_i % 3 == 0 {
      let (tr, _) = custom_transcript(&mut g);
      let cc = Commune::new(t, m.clone(), r.clone(), Some(tr));
      let cs: Vec<AShare> = (0..t).map(|_| cc.clone().share().unwrap()).collect();
      if recover(&cs).is_ok() {
        fail("custom_transcript_accepted", &desc);
      }
    }
    case(true);
    if case_i == 2 {
      sample(&[("threshold", t.to_string()), ("message_len", m.len().to_string()), ("share", hex(&shares[0].to_bytes()))]);
    }
  }
}

// ---------------------------------------------------------------------------------------------
// C05: tamper matrix and mixtures; C02: sub-threshold collections, forged thresholds, byte scans,
// coefficient statistics

use num_bigint::BigUint;
use num_traits::{One, Zero};
use strobe_rs::{SecParam, Strobe};

fn fault(g: &mut Sm, b: u8) -> u8 {
  let nb = match g.below(4) {
    0 => b ^ (1 << g.below(8)),
    1 => b.wrapping_add(1),
    2 => 0,
    _ => 0xff,
  };
  if nb == b {
    b ^ 1
  } else {
    nb
  }
}

/// byte ranges of the fields of an encoded adss share
fn share_fields(b: &[u8]) -> Vec<(&'static str, std::ops::Range<usize>)> {
  let f = share_len_fields(b);
  let rd = |o: usize| u32::from_le_bytes(b[o..o + 4].try_into().unwrap()) as usize;
  let s = f[1] + 4;
  let mut v = vec![("threshold", 0..4), ("share_point", s..s + 24)];
  if rd(f[1]) > 24 {
    v.push(("share_value", s + 24..s + rd(f[1])));
  }
  if rd(f[2]) > 0 {
    v.push(("encrypted_message", f[2] + 4..f[2] + 4 + rd(f[2])));
  }
  if rd(f[3]) > 0 {
    v.push(("encrypted_coins", f[3] + 4..f[3] + 4 + rd(f[3])));
  }
  v.push(("tag", b.len() - 64..b.len()));
  v
}

pub fn c05(tier: &str, seed: u64) {
  let mut g = Sm::new(seed, "oracle.C05");
  let n = if quick(tier) { 25 } else { 300 };
  for case_i in 0..n {
    let t = g.range(1, if quick(tier) { 6 } else { 12 }) as u32;
    // message and coins of every size class: empty, short, exactly / just beyond the 32 bytes STAR
    // uses, and beyond one STROBE block (166 bytes) - the MAC must cover all of both
    let m = { let n = *g.pick(&[1usize, 4, 32, 40, 0, 33, 170]); g.blob(n) };
    let r = { let n = *g.pick(&[1usize, 8, 32, 33, 48, 170, 0]); g.blob(n) };
    stat(&format!("oracle.C05.coins_len.{}", r.len()));
    let c = Commune::new(t, m.clone(), r.clone(), None);
    let cnt = t as usize + g.below(3) as usize;
    let shares: Vec<Vec<u8>> = (0..cnt).map(|_| c.clone().share().unwrap().to_bytes()).collect();
    let fields = share_fields(&shares[0]);
    // every field x (every byte position | a sample) x share position
    for pos in 0..cnt {
      for (fname, range) in &fields {
        if range.is_empty() {
          continue;
        }
        let offs: Vec<usize> = if quick(tier) && range.len() > 6 {
          let mut v = vec![range.start, range.end - 1];
          if range.len() > 40 {
            v.extend([range.start + 31, range.start + 32, range.start + 33]);
          }
          for _ in 0..3 {
            v.push(range.start + g.below(range.len() as u64) as usize);
          }
          v
        } else {
          range.clone().collect()
        };
        for off in offs {
          let mut bs = shares.clone();
          bs[pos][off] = fault(&mut g, bs[pos][off]);
          let parsed: Option<Vec<AShare>> = bs.iter().map(|b| AShare::from_bytes(b)).collect();
          let Some(p) = parsed else {
            continue; // does not decode (e.g. out-of-range field element): nothing reaches recover
          };
          let res = std::panic::catch_unwind(std::panic::AssertUnwindSafe(|| recover(&p).map(|c| c.get_message()).map_err(|_| ())));
          let d = vec![
            ("field", fname.to_string()),
            ("share_position", pos.to_string()),
            ("byte_offset", off.to_string()),
            ("threshold", t.to_string()),
            ("shares", hexlist(&bs)),
            ("original_message", hex(&m)),
          ];
          match res {
            Err(_) => fail("recover_panicked", &d),
            Ok(Ok(got)) => {
              if got != m {
                fail("recovered_other_message", &d);
              } else if pos == 0 && !(t == 1 && *fname == "share_point") {
                // (threshold 1: the polynomial is constant, so a share with another point and the
                // same value IS an honest share of the same sharing - Lean: C05_threshold_one_point_free)
                fail("altered_first_share_accepted", &d);
              } else if pos == 0 {
                stat("oracle.threshold1_point_changes_are_honest_shares");
              }
            }
            Ok(Err(())) => {}
          }
          case(true);
        }
      }
    }
    // faults at TWO places of one field with one mask (offsets 8, 16, 32 apart and adjacent): what a
    // word-wise or folded comparison cancels out - the authentication tag above all
    for (fname, range) in &fields {
      if range.len() < 16 {
        continue;
      }
      for _ in 0..(if *fname == "tag" { 12 } else { 3 }) {
        let dist = *g.pick(&[1usize, 8, 16, 32]);
        if range.len() <= dist {
          continue;
        }
        let o1 = range.start + g.below((range.len() - dist) as u64) as usize;
        let mask = *g.pick(&[0x01u8, 0x80, 0xff, 0x10]);
        let mut bs = shares.clone();
        bs[0][o1] ^= mask;
        bs[0][o1 + dist] ^= mask;
        let parsed: Option<Vec<AShare>> = bs.iter().map(|b| AShare::from_bytes(b)).collect();
        let Some(p) = parsed else { continue };
        let res = std::panic::catch_unwind(std::panic::AssertUnwindSafe(|| recover(&p).map(|c| c.get_message()).map_err(|_| ())));
        let d = vec![("field", fname.to_string()), ("two_faults", format!("offsets {} and {} of the share, mask {:02x}", o1, o1 + dist, mask)), ("share_position", "0".into()), ("threshold", t.to_string()), ("shares", hexlist(&bs)), ("original_message", hex(&m))];
        match res {
          Err(_) => fail("recover_panicked", &d),
          Ok(Ok(got)) => {
            if got != m {
              fail("recovered_other_message", &d);
            } else if !(t == 1 && *fname == "share_point") {
              fail("altered_first_share_accepted", &d);
            }
          }
          Ok(Err(())) => {}
        }
        case(true);
        stat("oracle.C05.double_faults");
      }
    }
    // a whole FIELD of one share replaced by a distinguished value (all zero: the field element 0 for
    // the share point / value; all 0xff where that still decodes), in every share position
    for pos in 0..cnt {
      for (fname, range) in &fields {
        if range.is_empty() || *fname == "threshold" {
          continue;
        }
        for fill in [0u8, 0xff] {
          let mut bs = shares.clone();
          if bs[pos][range.clone()].iter().all(|&b| b == fill) {
            continue;
          }
          for o in range.clone() {
            bs[pos][o] = fill;
          }
          let parsed: Option<Vec<AShare>> = bs.iter().map(|b| AShare::from_bytes(b)).collect();
          let Some(p) = parsed else { continue };
          let res = std::panic::catch_unwind(std::panic::AssertUnwindSafe(|| recover(&p).map(|c| c.get_message()).map_err(|_| ())));
          let d = vec![("field", fname.to_string()), ("field_filled_with", format!("{:02x}", fill)), ("share_position", pos.to_string()), ("threshold", t.to_string()), ("shares", hexlist(&bs)), ("original_message", hex(&m))];
          match res {
            Err(_) => fail("recover_panicked", &d),
            Ok(Ok(got)) => {
              if got != m {
                fail("recovered_other_message", &d);
              } else if pos == 0 && !(t == 1 && *fname == "share_point") {
                fail("altered_first_share_accepted", &d);
              }
            }
            Ok(Err(())) => {}
          }
          case(true);
          stat("oracle.C05.whole_field_fills");
        }
      }
    }
    // mixtures of up to 4 sharings, foreign shares in every position relative to the window
    let others: Vec<(Vec<u8>, Vec<Vec<u8>>)> = (0..3)
      .map(|k| {
        let m2 = g.blob(4 + k);
        let t2 = if g.chance(1, 2) { t } else { g.range(1, 6) as u32 };
        let c2 = Commune::new(t2, m2.clone(), g.blob(8), None);
        (m2, (0..cnt).map(|_| c2.clone().share().unwrap().to_bytes()).collect())
      })
      .collect();
    for _ in 0..(if quick(tier) { 10 } else { 60 }) {
      let mut pool: Vec<(usize, Vec<u8>)> = shares.iter().map(|b| (0usize, b.clone())).collect();
      for (k, (_, sh)) in others.iter().enumerate() {
        for b in sh.iter().take(g.below(cnt as u64 + 1) as usize) {
          pool.push((k + 1, b.clone()));
        }
      }
      g.shuffle(&mut pool);
      let keep = g.range(1, pool.len() as u64) as usize;
      pool.truncate(keep);
      // REPEATS inside the mixture: the first share again further back (or at the very end), other
      // shares twice - the first share still decides whose message may come back
      if g.chance(1, 2) {
        stat("oracle.C05.mixtures_with_repeats");
        let first = pool[0].clone();
        match g.below(3) {
          0 => pool.push(first),
          1 => {
            let at = g.range(1, pool.len() as u64) as usize;
            pool.insert(at.min(pool.len()), first);
          }
          _ => {
            let d = g.pick(&pool).clone();
            let at = g.range(1, pool.len() as u64) as usize;
            pool.insert(at.min(pool.len()), d);
          }
        }
      }
      let first_owner = pool[0].0;
      let expect: &Vec<u8> = if first_owner == 0 { &m } else { &others[first_owner - 1].0 };
      let p: Vec<AShare> = pool.iter().map(|(_, b)| AShare::from_bytes(b).unwrap()).collect();
      let res = std::panic::catch_unwind(std::panic::AssertUnwindSafe(|| recover(&p).map(|c| c.get_message()).map_err(|_| ())));
      let d = vec![("owners", format!("{:?}", pool.iter().map(|x| x.0).collect::<Vec<_>>())), ("shares", hexlist(&pool.iter().map(|x| x.1.clone()).collect::<Vec<_>>()))];
      match res {
        Err(_) => fail("recover_panicked", &d),
        Ok(Ok(got)) if &got != expect => fail("mixture_returned_foreign_message", &d),
        _ => {}
      }
      case(true);
    }
    // DIRECTED: the first share (sharing A) repeated later, enough shares of a foreign sharing B of
    // the same threshold around it, a share of B at the very end; and the same with B first
    if t >= 1 && cnt >= 1 {
      let mb = g.blob(6);
      let cb = Commune::new(t, mb.clone(), g.blob(8), None);
      let bsh: Vec<Vec<u8>> = (0..t as usize + 1).map(|_| cb.clone().share().unwrap().to_bytes()).collect();
      let a0 = shares[0].clone();
      let mut layouts: Vec<(&str, Vec<(usize, Vec<u8>)>)> = Vec::new();
      let mut l1 = vec![(0usize, a0.clone())];
      l1.extend(bsh[1..].iter().map(|b| (1usize, b.clone())));
      l1.push((0, a0.clone()));
      l1.push((1, bsh[0].clone()));
      layouts.push(("A0 B1..Bt A0 B0", l1));
      let mut l2 = vec![(0usize, a0.clone())];
      l2.extend(bsh[1..].iter().map(|b| (1usize, b.clone())));
      l2.push((0, a0.clone()));
      l2.extend(shares.iter().skip(1).map(|b| (0usize, b.clone())));
      l2.push((1, bsh[0].clone()));
      layouts.push(("A0 B1..Bt A0 A1.. B0", l2));
      let mut l3 = vec![(0usize, a0.clone()), (0, a0.clone())];
      l3.extend(bsh.iter().map(|b| (1usize, b.clone())));
      layouts.push(("A0 A0 B0..Bt", l3));
      for (name, pool) in layouts {
        let p: Vec<AShare> = pool.iter().map(|(_, b)| AShare::from_bytes(b).unwrap()).collect();
        let res = std::panic::catch_unwind(std::panic::AssertUnwindSafe(|| recover(&p).map(|c| c.get_message()).map_err(|_| ())));
        let d = vec![("layout", name.to_string()), ("threshold", t.to_string()), ("owners", format!("{:?}", pool.iter().map(|x| x.0).collect::<Vec<_>>())), ("shares", hexlist(&pool.iter().map(|x| x.1.clone()).collect::<Vec<_>>())), ("message_of_first_shares_sharing", hex(&m)), ("message_of_foreign_sharing", hex(&mb))];
        match res {
          Err(_) => fail("recover_panicked", &d),
          Ok(Ok(got)) if got != m => fail("mixture_returned_foreign_message", &d),
          _ => {}
        }
        case(true);
      }
      stat("oracle.C05.directed_repeat_layouts");
    }
    if case_i == 0 {
      sample(&[("threshold", t.to_string()), ("fields", format!("{:?}", fields.iter().map(|f| f.0).collect::<Vec<_>>())), ("share", hex(&shares[0]))]);
    }
  }
}

fn contains(hay: &[u8], needle: &[u8]) -> Option<usize> {
  if needle.is_empty() || hay.len() < needle.len() {
    return None;
  }
  (0..=hay.len() - needle.len()).find(|&i| &hay[i..i + needle.len()] == needle)
}

/// coefficients (low to high) of the unique polynomial of degree < n through n points, mod p
fn interpolate_coeffs(pts: &[(BigUint, BigUint)], p: &BigUint) -> Vec<BigUint> {
  let n = pts.len();
  let inv = |a: &BigUint| a.modpow(&(p - 2u32), p);
  let mut res = vec![BigUint::zero(); n];
  for i in 0..n {
    // basis_i = prod_{j != i} (X - x_j) / (x_i - x_j)
    let mut num = vec![BigUint::one()];
    let mut den = BigUint::one();
    for j in 0..n {
      if j == i {
        continue;
      }
      let mut next = vec![BigUint::zero(); num.len() + 1];
      for (k, c) in num.iter().enumerate() {
        next[k + 1] = (&next[k + 1] + c) % p;
        next[k] = (&next[k] + c * ((p - &pts[j].0) % p)) % p;
      }
      num = next;
      den = den * ((&pts[i].0 + p - &pts[j].0) % p) % p;
    }
    let scale = &pts[i].1 * inv(&den) % p;
    for k in 0..n {
      res[k] = (&res[k] + &num[k] * &scale) % p;
    }
  }
  res
}

pub fn c02(tier: &str, seed: u64) {
  let mut g = Sm::new(seed, "oracle.C02");
  let p = crate::o_sharks::modulus();
  // secrets of SEVERAL field elements shared directly through the Shamir layer: every element has
  // its own polynomial, so in a single share the differences of the values say nothing about the
  // differences of the secret elements (equal higher coefficients would make y_i - y_j = s_i - s_j)
  {
    use star_sharks::Sharks;
    let rounds = if quick(tier) { 30 } else { 300 };
    for ri in 0..rounds {
      let t = *g.pick(&[2u32, 2, 3, 5, 16, 64, 65]);
      let k = 2 + (ri % 4) as usize;
      let elems: Vec<num_bigint::BigUint> = (0..k).map(|_| num_bigint::BigUint::from_bytes_le(&g.bytes(16))).collect();
      let mut secret = Vec::new();
      for e in &elems {
        let mut v = e.to_bytes_le();
        v.resize(24, 0);
        secret.extend(v);
      }
      let sharks = Sharks(t);
      let Ok(mut ev) = sharks.dealer(&secret) else {
        fail("dealer_refused_valid_secret", &[("threshold", t.to_string()), ("secret", hex(&secret))]);
        continue;
      };
      let sh = if ri % 2 == 0 { ev.next().unwrap() } else { ev.gen(&mut rand::rngs::OsRng) };
      let ys: Vec<num_bigint::BigUint> = sh.y.iter().map(crate::o_sharks::big).collect();
      for i in 0..k.min(ys.len()) {
        for j in (i + 1)..k.min(ys.len()) {
          let dy = (&ys[i] + &p - &ys[j]) % &p;
          let ds = (&elems[i] + &p - &elems[j]) % &p;
          if dy == ds {
            fail(
              "single_share_reveals_difference_of_secret_elements",
              &[("threshold", t.to_string()), ("elements", format!("{} and {}", i, j)), ("secret", hex(&secret)), ("share", hex(&Vec::from(&sh))), ("y_i_minus_y_j", dy.to_str_radix(16)), ("s_i_minus_s_j", ds.to_str_radix(16))],
            );
          }
        }
      }
      case(true);
    }
    stat("oracle.C02.multi_element_secrets");
  }
  let n = if quick(tier) { 40 } else { 500 };
  let mut all_coeffs: std::collections::BTreeSet<Vec<u8>> = Default::default();
  let mut coeff_total = 0usize;
  for case_i in 0..n {
    let t: u32 = match case_i % 5 {
      0 => 2,
      1 => 3,
      2 => g.range(4, 12) as u32,
      3 => g.range(13, if quick(tier) { 32 } else { 64 }) as u32,
      _ => g.range(2, 20) as u32,
    };
    // measurements of every size class: short, around one cipher block (166), several blocks
    let m = { let n = if case_i % 4 == 1 { *g.pick(&[150usize, 162, 163, 200, 327, 332, 500, 1000]) } else { g.range(8, 40) as usize }; g.bytes(n) };
    let e = g.blob(2);
    let clients: Vec<Client> = (0..t as usize).map(|_| make_client(&m, &e, t, gen_aux(&mut g), None)).collect();
    let shares: Vec<sta_rs::Share> = clients.iter().map(|c| c.msg.share.clone()).collect();
    let r0 = share_recover(&shares).expect("honest recovery").get_message();
    let d = |extra: Vec<(&'static str, String)>| {
      let mut v = vec![("measurement", hex(&m)), ("epoch", hex(&e)), ("threshold", t.to_string())];
      v.extend(extra);
      v
    };
    let check_not_secret = |what: &str, sel: &[sta_rs::Share], extra: Vec<(&'static str, String)>| {
      let res = std::panic::catch_unwind(std::panic::AssertUnwindSafe(|| share_recover(sel).map(|c| c.get_message()).map_err(|_| ())));
      match res {
        Err(_) => fail("recover_panicked", &d(extra)),
        Ok(Ok(got)) => {
          let mut ex = extra;
          ex.push(("what", what.to_string()));
          ex.push(("returned", hex(&got)));
          ex.push(("shares", hexlist(&sel.iter().map(|s| s.to_bytes()).collect::<Vec<_>>())));
          if got == r0 {
            fail("sub_threshold_recovered_secret", &d(ex));
          } else {
            fail("sub_threshold_recovery_did_not_fail", &d(ex));
          }
        }
        Ok(Err(())) => {}
      }
      case(true);
    };
    // every count 1..t-1 (quick: a sample), with duplicate padding up to and beyond t
    for k in 1..t as usize {
      if quick(tier) && t > 6 && !g.chance(1, 4) && k != t as usize - 1 {
        continue;
      }
      let mut sel: Vec<sta_rs::Share> = shares[..k].to_vec();
      check_not_secret("plain sub-threshold subset", &sel, vec![("distinct", k.to_string())]);
      while sel.len() < t as usize + 1 {
        let dup = sel[g.below(k as u64) as usize].clone();
        sel.push(dup);
      }
      g.shuffle(&mut sel);
      check_not_secret("sub-threshold subset padded with duplicates", &sel, vec![("distinct", k.to_string())]);
      // forged threshold on the first share: every value 0..t-1 (sampled when large), t+1, 2^32-1
      let mut forged: Vec<u32> = if t <= 8 || !quick(tier) { (0..t).collect() } else { vec![0, 1, k as u32, t - 1] };
      forged.extend([t + 1, u32::MAX]);
      for ft in forged {
        let mut bs: Vec<Vec<u8>> = shares[..k].iter().map(|s| s.to_bytes()).collect();
        bs[0][..4].copy_from_slice(&ft.to_le_bytes());
        if g.chance(1, 2) {
          for b in bs.iter_mut() {
            b[..4].copy_from_slice(&ft.to_le_bytes());
          }
        }
        let sel: Vec<sta_rs::Share> = bs.iter().map(|b| sta_rs::Share::from_bytes(b).unwrap()).collect();
        check_not_secret("threshold field rewritten", &sel, vec![("distinct", k.to_string()), ("forged_threshold", ft.to_string())]);
      }
    }
    // foreign shares (other measurement / epoch / threshold) mixed into a sub-threshold subset
    let foreign: Vec<Client> = vec![
      make_client(&g.bytes(12), &e, t, None, None),
      make_client(&m, &g.blob(3), t, None, None),
      make_client(&m, &e, t + 1, None, None),
      make_client(&m, &e, (t - 1).max(1), None, None),
    ];
    for _ in 0..3 {
      let k = g.range(1, t as u64 - 1) as usize;
      let mut sel: Vec<sta_rs::Share> = shares[..k].to_vec();
      for f in &foreign {
        if g.chance(2, 3) {
          let pos = g.below(sel.len() as u64 + 1) as usize;
          sel.insert(pos, f.msg.share.clone());
        }
      }
      // no measurement in the collection reaches its threshold (each foreign one has 1 share; k < t)
      let ok_to_check = !(t == 2 && sel.iter().any(|s| s.to_bytes()[..4] == 1u32.to_le_bytes()));
      if ok_to_check {
        check_not_secret("foreign shares mixed in", &sel, vec![("distinct_of_target", k.to_string())]);
      }
    }
    // the SAME client randomness under two DIFFERENT thresholds, shared back to back (what a
    // randomness server that ignores the threshold produces): two unrelated sharings - one report of
    // each never combines, nor do t2 - 1 of the larger with one of the smaller
    {
      let mut rnd = [0u8; 32];
      rnd.copy_from_slice(&g.bytes(32));
      let (t1, t2) = (2u32, t.max(3) + 2);
      let low = make_client(&m, &e, t1, None, Some(rnd));
      let highs: Vec<Client> = (0..t2 - 1).map(|_| make_client(&m, &e, t2, None, Some(rnd))).collect();
      let low2 = make_client(&m, &e, t1, None, Some(rnd));
      for (what, sel) in [
        ("one report under threshold 2 and one under a larger threshold, same client randomness", vec![low.msg.share.clone(), highs[0].msg.share.clone()]),
        ("larger first", vec![highs[0].msg.share.clone(), low.msg.share.clone()]),
        ("t2 - 1 reports under the larger threshold and one under threshold 2", { let mut v: Vec<sta_rs::Share> = highs.iter().map(|c| c.msg.share.clone()).collect(); v.push(low2.msg.share.clone()); v }),
      ] {
        let res = std::panic::catch_unwind(std::panic::AssertUnwindSafe(|| share_recover(&sel).map(|c| c.get_message()).map_err(|_| ())));
        if let Ok(Ok(_)) = res {
          fail("sub_threshold_recovery_did_not_fail", &d(vec![("what", what.to_string()), ("thresholds", format!("{} and {}", t1, t2)), ("randomness", hex(&rnd))]));
        }
      }
      stat("oracle.C02.same_randomness_two_thresholds");
    }
    // measurements RELATED to the target by padding (trailing / leading zero bytes, block padding)
    // are other measurements: t-1 reports of the target plus one report of a relative do not
    // combine, whichever comes first
    {
      let mut rel: Vec<Vec<u8>> = Vec::new();
      for pad in [1usize, 2, 24] {
        let mut v = m.clone();
        v.extend(vec![0u8; pad]);
        rel.push(v);
      }
      let mut v = m.clone();
      v.resize(((m.len() + 24) / 24) * 24, 0);
      rel.push(v);
      let mut v = vec![0u8];
      v.extend(&m);
      rel.push(v);
      if m.last() == Some(&0) {
        rel.push(m[..m.len() - 1].to_vec());
      }
      let r = g.pick(&rel).clone();
      let other = make_client(&r, &e, t, None, None);
      let mut sel: Vec<sta_rs::Share> = shares[..t as usize - 1].to_vec();
      let pos = if g.chance(1, 2) { 0 } else { sel.len() };
      sel.insert(pos, other.msg.share.clone());
      check_not_secret("t-1 reports plus one report of a measurement related by padding", &sel, vec![("related_measurement", hex(&r))]);
      stat("oracle.C02.related_measurement_mixtures");
    }
    // (E) byte scan of each encoded report for the client's secrets
    let rnd = clients[0].rnd;
    let mut r1 = [0u8; 32];
    sta_rs::strobe_digest(&rnd, &[&[1u8]], "star_derive_randoms", &mut r1);
    let mut enc_key = [0u8; 16];
    derive_ske_key(&r0, &e, &mut enc_key);
    let mut tr = Strobe::new(b"adss", SecParam::B128);
    tr.ad(&t.to_le_bytes(), false);
    tr.ad(&r0, false);
    tr.key(&r1, false);
    let mut j = [0u8; 64];
    tr.send_mac(&mut j, false);
    let mut kk = [0u8; 16];
    tr.prf(&mut kk, false);
    let mut k24 = kk.to_vec();
    k24.extend([0u8; 8]);
    for c in &clients {
      let b = c.msg.to_bytes();
      for (name, sec) in [("client randomness", &rnd[..]), ("r0", &r0[..]), ("r1", &r1[..]), ("sharing key K", &kk[..]), ("K as field element", &k24[..]), ("encryption key", &enc_key[..]), ("measurement", &m[..])] {
        if let Some(off) = contains(&b, sec) {
          fail("secret_in_clear_in_report", &d(vec![("secret", name.to_string()), ("offset", off.to_string()), ("report", hex(&b))]));
        }
        stat("oracle.byte_scans");
      }
      // ... and no 16-byte PIECE of the measurement either (a cipher that skips part of the payload)
      if m.len() >= 16 {
        for w in (0..=m.len() - 16).step_by(if m.len() > 400 { 7 } else { 1 }).chain([m.len() - 16]) {
          if let Some(off) = contains(&b, &m[w..w + 16]) {
            fail("secret_in_clear_in_report", &d(vec![("secret", format!("measurement bytes {}..{}", w, w + 16)), ("offset", off.to_string()), ("measurement_len", m.len().to_string()), ("report_len", b.len().to_string())]));
            break;
          }
        }
      }
    }
    // (E) the shares lie on a polynomial of exact degree t-1 with constant term K, whose
    // non-constant coefficients are non-zero and pairwise distinct
    let pts: Vec<(BigUint, BigUint)> = shares
      .iter()
      .map(|s| {
        let b = s.to_bytes();
        (BigUint::from_bytes_le(&b[8..32]), BigUint::from_bytes_le(&b[32..56]))
      })
      .collect();
    if pts.iter().map(|x| x.0.clone()).collect::<std::collections::BTreeSet<_>>().len() == pts.len() {
      let co = interpolate_coeffs(&pts, &p);
      if co[0] != BigUint::from_bytes_le(&kk) {
        fail("constant_term_is_not_the_key", &d(vec![]));
      }
      let nonconst: Vec<&BigUint> = co[1..].iter().collect();
      if nonconst.iter().any(|c| c.is_zero()) {
        fail("zero_coefficient", &d(vec![("coefficients", format!("{:?}", co.iter().map(|c| c.to_str_radix(16)).collect::<Vec<_>>()))]));
      }
      if nonconst.iter().collect::<std::collections::BTreeSet<_>>().len() != nonconst.len() {
        fail("repeated_coefficient", &d(vec![("coefficients", format!("{:?}", co.iter().map(|c| c.to_str_radix(16)).collect::<Vec<_>>()))]));
      }
      for c in nonconst {
        coeff_total += 1;
        if !all_coeffs.insert(c.to_bytes_le()) {
          fail("coefficient_shared_between_measurements", &d(vec![("coefficient", c.to_str_radix(16))]));
        }
      }
    } else {
      stat("oracle.share_point_collision");
    }
    if case_i == 0 {
      sample(&[("threshold", t.to_string()), ("measurement", hex(&m)), ("report", hex(&clients[0].msg.to_bytes()))]);
    }
  }
  stat_n("oracle.coefficients_checked", coeff_total as u64);
  // thresholds at integer-width boundaries: two clients only (far below threshold). Their shares
  // must not recover, must differ in y (non-constant polynomial) and must not carry K
  for &t in &[255u32, 256, 257, 65535, 65536, 65537, 65538] {
    let m = g.bytes(16);
    let e = g.blob(2);
    let cl: Vec<Client> = (0..2).map(|_| make_client(&m, &e, t, None, None)).collect();
    let sb: Vec<Vec<u8>> = cl.iter().map(|c| c.msg.share.to_bytes()).collect();
    let d = vec![("measurement", hex(&m)), ("epoch", hex(&e)), ("threshold", t.to_string()), ("shares", hexlist(&sb))];
    if sb[0][8..32] != sb[1][8..32] && sb[0][32..56] == sb[1][32..56] {
      fail("constant_sharing_polynomial", &d);
    }
    let shares: Vec<sta_rs::Share> = cl.iter().map(|c| c.msg.share.clone()).collect();
    if share_recover(&shares).is_ok() {
      fail("sub_threshold_recovery_did_not_fail", &d);
    }
    // K from the transcript, as above
    let rnd = cl[0].rnd;
    let mut r0 = [0u8; 32];
    sta_rs::strobe_digest(&rnd, &[&[0u8]], "star_derive_randoms", &mut r0);
    let mut r1 = [0u8; 32];
    sta_rs::strobe_digest(&rnd, &[&[1u8]], "star_derive_randoms", &mut r1);
    let mut tr = Strobe::new(b"adss", SecParam::B128);
    tr.ad(&t.to_le_bytes(), false);
    tr.ad(&r0, false);
    tr.key(&r1, false);
    let mut j = [0u8; 64];
    tr.send_mac(&mut j, false);
    let mut kk = [0u8; 16];
    tr.prf(&mut kk, false);
    for b in &sb {
      if let Some(off) = contains(b, &kk) {
        let mut dd = d.clone();
        dd.push(("secret", "sharing key K".into()));
        dd.push(("offset", off.to_string()));
        fail("secret_in_clear_in_report", &dd);
      }
    }
    case(true);
    stat("oracle.boundary_thresholds");
  }
  // ADSS tolerates reused coins: sharings of DIFFERENT messages under the same threshold and the same
  // coins R (adss::Commune directly; sta-rs never does this) still have unrelated polynomials - a
  // shared non-constant coefficient lets one share of A plus a recovered B give A's key
  for round in 0..(if quick(tier) { 6 } else { 60 }) {
    let t = *g.pick(&[2u32, 3, 5]);
    let coins = if round % 2 == 0 { vec![0x5a; 32] } else { g.blob(32) };
    let msgs: Vec<Vec<u8>> = vec![vec![0x11; 32], vec![0x22; 32], { let mut v = vec![0x11; 32]; v[31] ^= 1; v }, g.blob(5)];
    let mut seen: std::collections::BTreeMap<Vec<u8>, usize> = Default::default();
    // under the default transcript and under ONE caller-supplied transcript shared by all sharings
    let custom = if round % 3 == 2 { Some(custom_transcript(&mut g).0) } else { None };
    if custom.is_some() {
      stat("oracle.C02.reused_coins_under_a_custom_transcript");
    }
    for (mi, msg) in msgs.iter().enumerate() {
      // (with a custom transcript also vary the coins: then only the transcript is common)
      let cn = if custom.is_some() && mi % 2 == 1 { g.blob(32) } else { coins.clone() };
      let c = Commune::new(t, msg.clone(), cn, custom.clone());
      let pts: Vec<(BigUint, BigUint)> = (0..t)
        .map(|_| {
          let b = c.clone().share().expect("share").to_bytes();
          (BigUint::from_bytes_le(&b[8..32]), BigUint::from_bytes_le(&b[32..56]))
        })
        .collect();
      if pts.iter().map(|x| x.0.clone()).collect::<std::collections::BTreeSet<_>>().len() != pts.len() {
        continue;
      }
      let co = interpolate_coeffs(&pts, &p);
      for cf in &co[1..] {
        if let Some(prev) = seen.insert(cf.to_bytes_le(), mi) {
          if prev != mi {
            fail(
              "coefficient_shared_between_measurements",
              &[("layer", "adss::Commune, same threshold and coins, different messages".into()), ("threshold", t.to_string()), ("coins", hex(&coins)), ("message_1", hex(&msgs[prev])), ("message_2", hex(msg)), ("coefficient", cf.to_str_radix(16))],
            );
          }
        }
      }
    }
    case(true);
    stat("oracle.C02.reused_coins_sharings");
  }
  // the sharing layer under a random source the CALLER supplies (Evaluator::gen is public API): a
  // single share must not hold the secret, however unlucky the draws - here 1..8 consecutive draws
  // of the zero element (a share at x = 0 is the secret itself)
  for run in 1..=8usize {
    for t in [2u32, 3, 5] {
      use crate::o_sharks::RecRng;
      let secret = crate::s_fp::le24(g.next() as u128 | 1, 0).to_vec();
      let mut drng = RecRng { inner: Sm(g.next()), words: vec![], zero_next: 0, zero_at: vec![] };
      let mut ev = star_sharks::Sharks(t).dealer_rng(&secret, &mut drng).expect("dealer");
      let mut grng = RecRng { inner: Sm(g.next()), words: vec![], zero_next: 3 * run, zero_at: vec![] };
      let sh = ev.gen(&mut grng);
      let b = crate::s_sharks::share_bytes(&sh);
      if b[..24] == [0u8; 24] || b[24..48] == secret[..] {
        fail(
          "secret_in_clear_in_report",
          &[("secret", "the shared secret: Evaluator::gen dealt the share at x = 0".into()), ("threshold", t.to_string()), ("zero_draws_before_a_nonzero_one", run.to_string()), ("share", hex(&b)), ("shared_secret", hex(&secret))],
        );
      }
      case(true);
      stat("oracle.gen_zero_runs");
    }
  }
}

// ---------------------------------------------------------------------------------------------
// C03: associated data below threshold; C04: tags/keys as a function of the triple

use sta_rs::{MessageGenerator, SingleMeasurement};

fn xor(a: &[u8], b: &[u8]) -> Vec<u8> {
  a.iter().zip(b.iter()).map(|(x, y)| x ^ y).collect()
}

pub fn payload_of(m: &[u8], aux: &Option<Vec<u8>>) -> Vec<u8> {
  let mut d = Vec::new();
  sta_rs::store_bytes(m, &mut d);
  if let Some(a) = aux {
    sta_rs::store_bytes(a, &mut d);
  }
  d
}

pub fn c03(tier: &str, seed: u64) {
  let mut g = Sm::new(seed, "oracle.C03");
  // STRUCTURED associated data: aux that is itself an encoded report (nested / layered use), an
  // encoded share, JSON, base64, or report-shaped bytes carrying arbitrary text - it is opaque
  // payload like any other: a single sub-threshold report does not show it
  {
    let inner = make_client(b"inner measurement", b"ep", 3, Some(b"inner aux: the quick brown fox jumps over the lazy dog".to_vec()), None);
    let inner_bytes = inner.msg.to_bytes();
    let mut shaped = Vec::new();
    sta_rs::store_bytes(b"PLAINTEXT carried in the ciphertext field of a report-shaped aux, 0123456789 0123456789", &mut shaped);
    sta_rs::store_bytes(&inner.msg.share.to_bytes(), &mut shaped);
    sta_rs::store_bytes(&[0x5au8; 32], &mut shaped);
    let auxes: Vec<(&str, Vec<u8>)> = vec![
      ("an encoded report", inner_bytes.clone()),
      ("an encoded share", inner.msg.share.to_bytes()),
      ("report-shaped bytes carrying plaintext", shaped),
      ("JSON text", br#"{"key": "k", "share": "c2hhcmU=", "tag": "dGFn", "note": "some longer json text to search for"}"#.to_vec()),
      ("a length-prefixed chunk", { let mut v = Vec::new(); sta_rs::store_bytes(b"length-prefixed chunk content 0123456789abcdef", &mut v); v }),
    ];
    for (what, aux) in &auxes {
      for t in [2u32, 5] {
        let c = make_client(b"outer measurement", b"ep", t, Some(aux.clone()), None);
        let b = c.msg.to_bytes();
        // any 24-byte window of the aux visible in the report?
        let mut leaked = None;
        if aux.len() >= 24 {
          for w in (0..=aux.len() - 24).step_by(8) {
            if let Some(off) = contains(&b, &aux[w..w + 24]) {
              leaked = Some((w, off));
              break;
            }
          }
        }
        if let Some((w, off)) = leaked {
          fail("associated_data_in_clear_in_report", &[("aux_is", what.to_string()), ("threshold", t.to_string()), ("aux", hex(aux)), ("aux_bytes", format!("{}..{}", w, w + 24)), ("found_at_report_offset", off.to_string()), ("report", hex(&b))]);
        }
        // and it still round-trips for a threshold-many cohort
        let cohort: Vec<Client> = (0..t).map(|_| make_client(b"outer measurement", b"ep", t, Some(aux.clone()), None)).collect();
        let shares: Vec<sta_rs::Share> = cohort.iter().map(|c| c.msg.share.clone()).collect();
        let ok = share_recover(&shares).ok().map(|cm| {
          let mut k = vec![0u8; 16];
          derive_ske_key(&cm.get_message(), b"ep", &mut k);
          let pt = cohort[0].msg.ciphertext.decrypt(&k, "star_encrypt");
          pt == payload_of(b"outer measurement", &Some(aux.clone()))
        });
        if ok != Some(true) {
          fail("structured_aux_does_not_round_trip", &[("aux_is", what.to_string()), ("threshold", t.to_string()), ("aux", hex(aux))]);
        }
        case(true);
      }
    }
    stat("oracle.C03.structured_aux");
  }
  // measurements that a text normalisation would identify are DIFFERENT measurements: their
  // encryption keys and tags differ, and lone reports of two of them do not combine
  for (base, t, e) in [(b"https://example.com/a".to_vec(), 2u32, b"ep".to_vec()), ({ let mut v = g.blob(32); v[5] = b'k'; v }, 3, vec![]), (vec![0x80u8; 32], 2, vec![1])] {
    let fam = normalisation_family(&base);
    let mut keys: std::collections::BTreeMap<Vec<u8>, Vec<u8>> = Default::default();
    let mut tags: std::collections::BTreeMap<Vec<u8>, Vec<u8>> = Default::default();
    for f in &fam {
      let w = MessageGenerator::new(SingleMeasurement::new(f), t, &e).share_with_local_randomness().expect("share");
      if let Some(prev) = keys.insert(w.key.to_vec(), f.clone()) {
        fail("encryption_key_degenerate", &[("measurement_1", hex(&prev)), ("measurement_2", hex(f)), ("epoch", hex(&e)), ("threshold", t.to_string()), ("key_1", hex(&w.key)), ("key_2", hex(&w.key))]);
      }
      if let Some(prev) = tags.insert(w.tag.to_vec(), f.clone()) {
        // two lone reports: pooled, they must not open
        let c1 = make_client(&prev, &e, 2, Some(b"aux of the first".to_vec()), None);
        let c2 = make_client(f, &e, 2, Some(b"aux of the second".to_vec()), None);
        let opened = share_recover(&[c1.msg.share.clone(), c2.msg.share.clone()]).is_ok();
        fail("tag_shared_by_different_measurements", &[("measurement_1", hex(&prev)), ("measurement_2", hex(f)), ("epoch", hex(&e)), ("threshold", t.to_string()), ("tag", hex(&w.tag)), ("two_lone_reports_at_threshold_2_recover", opened.to_string())]);
      }
      case(true);
    }
    stat("oracle.C03.normalisation_families");
  }
  let n = if quick(tier) { 40 } else { 500 };
  for case_i in 0..n {
    // thresholds small, and now and then beyond the 8- and 16-bit marks
    let t = match case_i % 20 { 5 => 65_536, 9 => 65_537, 13 => 257, _ => g.range(2, 12) as u32 };
    let m = { let n = g.range(1, 40) as usize; g.blob(n) };
    // epochs of every shape, the empty one included
    let e = match case_i % 5 { 0 => vec![], 1 => vec![0u8], _ => g.blob(2) };
    // a single report does not open under a PUBLIC constant key, and two measurements never share
    // their encryption key
    {
      let c1 = make_client(&m, &e, t, Some(g.bytes(9)), None);
      let m2 = { let mut v = m.clone(); v.push(0x33); v };
      let w1 = MessageGenerator::new(SingleMeasurement::new(&m), t, &e).share_with_local_randomness().expect("share");
      let w2 = MessageGenerator::new(SingleMeasurement::new(&m2), t, &e).share_with_local_randomness().expect("share");
      if w1.key == w2.key || w1.key == [0u8; 16] || w1.key == [0xffu8; 16] {
        fail("encryption_key_degenerate", &[("measurement_1", hex(&m)), ("measurement_2", hex(&m2)), ("epoch", hex(&e)), ("threshold", t.to_string()), ("key_1", hex(&w1.key)), ("key_2", hex(&w2.key))]);
      }
      for k in [[0u8; 16], [0xffu8; 16], { let mut k = [0u8; 16]; k[0] = 1; k }] {
        let pt = c1.msg.ciphertext.decrypt(&k, "star_encrypt");
        if pt == payload_of(&m, &c1.aux) {
          fail("report_decrypts_under_public_constant_key", &[("measurement", hex(&m)), ("epoch", hex(&e)), ("threshold", t.to_string()), ("key", hex(&k)), ("report", hex(&c1.msg.to_bytes()))]);
        }
      }
      case(true);
      stat("oracle.C03.constant_keys");
    }
    // sequences of 2..4 clients with differing associated data of equal length
    let alen = *g.pick(&[1usize, 2, 8, 16, 100, 150, 166, 167, 300, 400, 520, 700, 1100, 1400]);
    let cnt = g.range(2, 4) as usize;
    let clients: Vec<Client> = (0..cnt)
      .map(|_| {
        let a = g.bytes(alen);
        make_client(&m, &e, t, Some(a), None)
      })
      .collect();
    for i in 0..cnt {
      for j in i + 1..cnt {
        let (a, b) = (&clients[i], &clients[j]);
        if a.aux == b.aux {
          continue;
        }
        let (ca, cb) = (a.msg.ciphertext.to_bytes(), b.msg.ciphertext.to_bytes());
        let (pa, pb) = (payload_of(&a.m, &a.aux), payload_of(&b.m, &b.aux));
        let blk = 166.min(ca.len());
        let d = vec![
          ("measurement", hex(&m)),
          ("epoch", hex(&e)),
          ("threshold", t.to_string()),
          ("aux_1", hex(a.aux.as_ref().unwrap())),
          ("aux_2", hex(b.aux.as_ref().unwrap())),
          ("ciphertext_1", hex(&ca)),
          ("ciphertext_2", hex(&cb)),
          ("xor_equal_on_bytes", format!("0..{}", blk)),
        ];
        if xor(&ca[..blk], &cb[..blk]) == xor(&pa[..blk], &pb[..blk]) {
          // the witness of Lean theorem C03_reports_leak_payload_difference, on the real crate
          fail("keystream_reuse", &d);
        }
        // beyond the first block the relation must not hold when the first blocks differ
        // ... nor on ANY later stretch: every 8-byte window from byte 166 on (a cipher that restarts
        // its keystream at some later offset shows there, not necessarily at a block boundary)
        let mut leak_at: Option<usize> = None;
        if ca.len() > 166 + 8 && pa[..166] != pb[..166] {
          for w in 166..ca.len() - 8 {
            if pa[w..w + 8] != pb[w..w + 8] && xor(&ca[w..w + 8], &cb[w..w + 8]) == xor(&pa[w..w + 8], &pb[w..w + 8]) {
              leak_at = Some(w);
              break;
            }
          }
        }
        if let Some(w) = leak_at {
          let mut d = d.clone();
          d.push(("xor_equal_on_window_at", w.to_string()));
          fail("keystream_reuse_beyond_first_block", &d);
        }
        case(true);
      }
    }
    // MIXED thresholds: the same measurement and epoch reported under different thresholds are
    // different sharings with different keys - no keystream in common, and reports that reach a
    // LOW threshold must not open a report made for a higher one
    if case_i % 3 == 0 {
      let (t1, t2) = *g.pick(&[(2u32, 3u32), (2, 50), (3, 259), (2, 65536 + 2)]);
      let al = *g.pick(&[1usize, 8, 33, 100]);
      let lows: Vec<Client> = (0..t1).map(|_| make_client(&m, &e, t1, Some(g.bytes(al)), None)).collect();
      let high = make_client(&m, &e, t2, Some(g.bytes(al)), None);
      let d = vec![("measurement", hex(&m)), ("epoch", hex(&e)), ("threshold_low", t1.to_string()), ("threshold_high", t2.to_string()), ("aux_len", al.to_string())];
      let (ca, cb) = (lows[0].msg.ciphertext.to_bytes(), high.msg.ciphertext.to_bytes());
      let (pa, pb) = (payload_of(&m, &lows[0].aux), payload_of(&m, &high.aux));
      let blk = 166.min(ca.len());
      if lows[0].aux != high.aux && xor(&ca[..blk], &cb[..blk]) == xor(&pa[..blk], &pb[..blk]) {
        fail("keystream_shared_across_thresholds", &d);
      }
      if lows[0].msg.tag == high.msg.tag {
        fail("tag_shared_across_thresholds", &d);
      }
      let shares: Vec<sta_rs::Share> = lows.iter().map(|c| c.msg.share.clone()).collect();
      if let Ok(c) = share_recover(&shares) {
        let mut kk = vec![0u8; 16];
        derive_ske_key(&c.get_message(), &e, &mut kk);
        let pt = high.msg.ciphertext.decrypt(&kk, "star_encrypt");
        if pt == pb {
          fail("report_opened_by_lower_threshold_group", &d);
        }
      }
      case(true);
      stat("oracle.C03.mixed_threshold_populations");
    }
    // the same relation one block further on: a measurement longer than a block is a common prefix
    // of whole blocks, and the block in which the associated data start leaks their difference
    // (Lean: C03_reports_leak_beyond_first_block) - same root cause, same known finding
    if case_i % 5 == 0 {
      let ml = *g.pick(&[162usize, 170, 200, 328, 340]);
      let lm = g.blob(ml);
      let n = ((4 + ml) / 166) * 166;
      let (a1, a2) = (g.bytes(12), g.bytes(12));
      let c1 = make_client(&lm, &e, t, Some(a1.clone()), None);
      let c2 = make_client(&lm, &e, t, Some(a2.clone()), None);
      let (ca, cb) = (c1.msg.ciphertext.to_bytes(), c2.msg.ciphertext.to_bytes());
      let (pa, pb) = (payload_of(&lm, &c1.aux), payload_of(&lm, &c2.aux));
      let end = (n + 166).min(ca.len());
      if a1 != a2 && ca[..n] == cb[..n] && xor(&ca[n..end], &cb[n..end]) == xor(&pa[n..end], &pb[n..end]) {
        fail(
          "keystream_reuse_after_common_prefix",
          &[("measurement_len", ml.to_string()), ("epoch", hex(&e)), ("threshold", t.to_string()), ("aux_1", hex(&a1)), ("aux_2", hex(&a2)), ("ciphertexts_equal_on_bytes", format!("0..{}", n)), ("xor_equal_on_bytes", format!("{}..{}", n, end))],
        );
      }
      case(true);
      stat("oracle.C03.long_measurement_pairs");
    }
    for c in &clients {
      let b = c.msg.to_bytes();
      let a = c.aux.as_ref().unwrap();
      if a.len() >= 8 {
        if let Some(off) = contains(&b, a) {
          fail("aux_in_clear", &[("offset", off.to_string()), ("report", hex(&b))]);
        }
        stat("oracle.aux_scans");
      }
      // the CHAIN through the sharing layer: a 16-byte window of the report taken as the ADSS key K
      // opens the share's encrypted message (r1), from which the payload key follows
      if case_i % 4 == 1 {
        let sb = c.msg.share.to_bytes();
        let f = share_len_fields(&sb);
        let clen = u32::from_le_bytes(sb[f[2]..f[2] + 4].try_into().unwrap()) as usize;
        let cfield = sb[f[2] + 4..f[2] + 4 + clen].to_vec();
        for w in b.windows(16).step_by(if quick(tier) { 2 } else { 1 }) {
          let mut ks = Strobe::new(b"adss encrypt", SecParam::B128);
          ks.key(w, false);
          let mut r1 = cfield.clone();
          ks.recv_enc(&mut r1, false);
          let mut pk = [0u8; 16];
          derive_ske_key(&r1, &c.e, &mut pk);
          let pt = c.msg.ciphertext.decrypt(&pk, "star_encrypt");
          if pt == payload_of(&c.m, &c.aux) {
            fail("report_opened_through_values_it_carries", &[("what", "a 16-byte window of the report is the sharing key: it decrypts the share's encrypted message, which gives the payload key".into()), ("window", hex(w)), ("threshold", c.t.to_string()), ("report_len", b.len().to_string())]);
            break;
          }
          stat("oracle.key_chain_windows");
        }
      }
      // every 16-byte window of the report as decryption key: never a well-framed payload
      if case_i % 4 == 0 {
        for w in b.windows(16).step_by(if quick(tier) { 3 } else { 1 }) {
          let pt = c.msg.ciphertext.decrypt(w, "star_encrypt");
          if let Some((mm, aa)) = parse_payload(&pt) {
            if mm == c.m && aa == c.aux {
              fail("report_window_decrypts_payload", &[("window", hex(w)), ("report", hex(&b))]);
            }
          }
          stat("oracle.key_windows");
        }
      }
    }
    if case_i == 0 {
      // systematic sweep: every associated-data length 1..=136 for a few measurement lengths; the
      // framed aux field and every 8-byte fragment of a random aux must not occur in the report
      for mlen in [1usize, 6, 11, 20, 32] {
        let mm = g.bytes(mlen);
        for alen2 in 1..=(if quick(tier) { 72 } else { 136 }) {
          let a = g.bytes(alen2);
          let c = make_client(&mm, &e, 2, Some(a.clone()), None);
          let b = c.msg.to_bytes();
          let mut leaked = None;
          if alen2 >= 8 {
            for w in a.windows(8) {
              if let Some(off) = contains(&b, w) {
                leaked = Some(off);
                break;
              }
            }
          } else {
            let mut framed = (alen2 as u32).to_le_bytes().to_vec();
            framed.extend(&a);
            leaked = contains(&b, &framed);
          }
          if let Some(off) = leaked {
            fail("aux_in_clear", &[("measurement_len", mlen.to_string()), ("aux_len", alen2.to_string()), ("aux", hex(&a)), ("offset", off.to_string()), ("report", hex(&b))]);
          }
          stat("oracle.aux_scans");
          case(true);
        }
      }
      sample(&[("measurement", hex(&m)), ("aux_len", alen.to_string()), ("ciphertext_1", hex(&clients[0].msg.ciphertext.to_bytes())), ("ciphertext_2", hex(&clients[1].msg.ciphertext.to_bytes()))]);
    }
  }
}

fn triple_outputs(m: &[u8], e: &[u8], t: u32) -> (Vec<u8>, Vec<u8>, Vec<u8>, Vec<u8>) {
  let mg = MessageGenerator::new(SingleMeasurement::new(m), t, e);
  let mut rnd = [0u8; 32];
  mg.sample_local_randomness(&mut rnd);
  if t > 4096 {
    // sharing would sample t-1 coefficients; for huge thresholds derive tag and key the way the
    // client does (public strobe_digest / derive_ske_key) without building the polynomial
    let mut r0 = [0u8; 32];
    sta_rs::strobe_digest(&rnd, &[&[0u8]], "star_derive_randoms", &mut r0);
    let mut tag = [0u8; 32];
    sta_rs::strobe_digest(&rnd, &[&[2u8]], "star_derive_randoms", &mut tag);
    let mut key = [0u8; 16];
    derive_ske_key(&r0, e, &mut key);
    return (rnd.to_vec(), key.to_vec(), tag.to_vec(), vec![]);
  }
  let w = mg.share_with_local_randomness().expect("share");
  (rnd.to_vec(), w.key.to_vec(), w.tag.to_vec(), share_x(&w.share.to_bytes()))
}

pub fn c04(tier: &str, seed: u64) {
  let mut g = Sm::new(seed, "oracle.C04");
  // the enumerated boundary-shift family: all splits of all strings up to length L over {a, b}
  let maxlen = if quick(tier) { 4 } else { 6 };
  let mut seen: std::collections::BTreeMap<Vec<u8>, (Vec<u8>, Vec<u8>, u32)> = Default::default();
  let mut check_distinct = |m: &[u8], e: &[u8], t: u32, seen: &mut std::collections::BTreeMap<Vec<u8>, (Vec<u8>, Vec<u8>, u32)>| {
    let (rnd, key, tag, _) = triple_outputs(m, e, t);
    for (what, v) in [("randomness", rnd), ("key", key), ("tag", tag)] {
      let mut k = what.as_bytes().to_vec();
      k.extend(&v);
      if let Some(prev) = seen.get(&k) {
        if prev != &(m.to_vec(), e.to_vec(), t) {
          fail(
            "different_triples_same_output",
            &[("output", what.to_string()), ("value", hex(&v)), ("triple_1", format!("m={} e={} t={}", hex(&prev.0), hex(&prev.1), prev.2)), ("triple_2", format!("m={} e={} t={}", hex(m), hex(e), t))],
          );
        }
      } else {
        seen.insert(k, (m.to_vec(), e.to_vec(), t));
      }
    }
    case(true);
  };
  for len in 0..=maxlen {
    for bits in 0..(1u32 << len) {
      let s: Vec<u8> = (0..len).map(|i| if bits >> i & 1 == 1 { b'b' } else { b'a' }).collect();
      for split in 0..=len {
        check_distinct(&s[..split], &s[split..], 2, &mut seen);
      }
    }
  }
  stat_n("oracle.boundary_shift_triples", seen.len() as u64 / 3);
  // thresholds differing in each single bit; prefix pairs; empty components
  let m0 = g.blob(9);
  let e0 = g.blob(3);
  // all thresholds differing from a base in exactly one bit, bases 0, 1, 2, 5 and 0x100
  for base in [0u32, 1, 2, 5, 0x100] {
    check_distinct(&m0, &e0, base, &mut seen);
    for bit in 0..32 {
      check_distinct(&m0, &e0, base ^ (1u32 << bit), &mut seen);
    }
  }
  for t in [3u32, 4, 255, 256, 257, 65535, 65536, u32::MAX - 1, u32::MAX] {
    check_distinct(&m0, &e0, t, &mut seen);
  }
  // measurements / epochs RELATED by padding, trimming or case (what a canonicalisation step would
  // identify): trailing and leading zero bytes, spaces, NUL-terminated and block-padded forms
  for base in [b"abc".to_vec(), vec![7u8], m0.clone(), g.blob(23), g.blob(24), vec![]] {
    let mut fam: Vec<Vec<u8>> = vec![base.clone()];
    for pad in [1usize, 2, 21, 24] {
      let mut v = base.clone();
      v.extend(vec![0u8; pad]);
      fam.push(v);
    }
    let mut v = vec![0u8];
    v.extend(&base);
    fam.push(v);
    let mut v = base.clone();
    v.push(b' ');
    fam.push(v);
    fam.push(base.to_ascii_uppercase());
    let mut v = base.clone();
    v.resize(((base.len() + 24) / 24) * 24, 0);
    fam.push(v);
    fam.dedup();
    for f in &fam {
      check_distinct(f, &e0, 3, &mut seen);
      check_distinct(&m0, f, 3, &mut seen);
    }
  }
  // what a text NORMALISATION would identify (byte-order marks, invisible characters, trimming, case,
  // Unicode forms, bytes that only a lossy decoder equates): every byte string is its own measurement
  // and its own epoch
  for base in [b"https://example.com/a".to_vec(), b"abc".to_vec(), vec![], { let mut v = g.blob(31); v.push(0x41); v }] {
    for f in normalisation_family(&base) {
      check_distinct(&f, &e0, 3, &mut seen);
      check_distinct(&m0, &f, 3, &mut seen);
    }
    stat("oracle.C04.normalisation_families");
  }
  // epochs (and measurements) that are not text: bytes >= 0x80, truncated and over-long UTF-8 - every
  // byte string is its own epoch
  {
    let fam: Vec<Vec<u8>> = vec![vec![200], vec![201], vec![0xff], vec![0xfe], vec![0xef, 0xbf, 0xbd], vec![0xe2], vec![0xe2, 0x82], vec![0xe2, 0x82, 0xac], b"week-\xfe".to_vec(), b"week-\xff".to_vec(), vec![0xc0, 0x80], vec![0x00], vec![0x80, 0x80]];
    for f in &fam {
      check_distinct(&m0, f, 3, &mut seen);
      check_distinct(f, &e0, 3, &mut seen);
    }
    stat("oracle.C04.non_utf8_families");
  }
  // the boundary between EPOCH and THRESHOLD: epochs that end in decimal digits next to thresholds
  // whose decimal (or byte) expansion continues them - ("epoch-1", 23) vs ("epoch-12", 3)
  for e_base in [&b"epoch-"[..], b"", b"t", b"2024-0", &[0x31u8][..]] {
    for t in [23u32, 105, 42, 100, 15, 1000, 256, 65536] {
      let dec = t.to_string();
      for cut in 0..dec.len() {
        let (a, b) = dec.split_at(cut);
        if let Ok(t2) = b.parse::<u32>() {
          let mut e2 = e_base.to_vec();
          e2.extend(a.as_bytes());
          check_distinct(&m0, &e2, t2, &mut seen);
        }
      }
      // the same with the little-endian bytes of the threshold moved into the epoch
      let le = t.to_le_bytes();
      for cut in 1..4 {
        let mut e2 = e_base.to_vec();
        e2.extend(&le[..cut]);
        let mut rest = [0u8; 4];
        rest[..4 - cut].copy_from_slice(&le[cut..]);
        check_distinct(&m0, &e2, u32::from_le_bytes(rest), &mut seen);
      }
    }
  }
  stat("oracle.C04.epoch_threshold_boundary_families");
  stat("oracle.C04.related_by_padding_families");
  for l in 0..m0.len() {
    check_distinct(&m0[..l], &e0, 3, &mut seen);
    check_distinct(&m0, &m0[..l], 3, &mut seen);
  }
  // a LONG RUN of clients of one triple served by one thread (a simulation, a batch job): every
  // report still has its own evaluation point, also against the first ones, and any two combine
  {
    let runs = if quick(tier) { 20000usize } else { 200000 };
    let (m, e, t) = (b"long run of one triple".to_vec(), b"ep".to_vec(), 2u32);
    let mg = MessageGenerator::new(SingleMeasurement::new(&m), t, &e);
    let mut seen_x: std::collections::HashMap<Vec<u8>, usize> = Default::default();
    let mut first: Vec<sta_rs::Share> = Vec::new();
    let mut reported = 0;
    for i in 0..runs {
      let Ok(w) = mg.share_with_local_randomness() else {
        fail("share_refused", &[("client", i.to_string())]);
        break;
      };
      let x = share_x(&w.share.to_bytes());
      if let Some(&j) = seen_x.get(&x) {
        if reported < 3 {
          reported += 1;
          let combine = first.get(j).map(|s| share_recover(&[s.clone(), w.share.clone()]).is_ok());
          fail(
            "share_point_repeated_between_clients",
            &[("measurement", hex(&m)), ("epoch", hex(&e)), ("threshold", t.to_string()), ("what", "clients of one triple generated one after the other on one thread".into()), ("clients", format!("{} and {}", j, i)), ("x", hex(&x)), ("the_two_shares_combine", format!("{:?}", combine))],
          );
        }
      } else {
        seen_x.insert(x, i);
      }
      if first.len() < 5000 {
        first.push(w.share.clone());
      }
    }
    stat_n("oracle.C04.long_run_clients", runs as u64);
    case(true);
  }
  // clients of one triple on SEVERAL THREADS of one process (each thread its first, second, ...
  // share): all points pairwise different, and shares made at the same moment combine
  {
    let (m, e, t) = (b"one triple on several threads".to_vec(), b"ep".to_vec(), 2u32);
    let per_thread = 6usize;
    let handles: Vec<_> = (0..6)
      .map(|_| {
        let (m, e) = (m.clone(), e.clone());
        std::thread::spawn(move || {
          let mg = MessageGenerator::new(SingleMeasurement::new(&m), t, &e);
          (0..per_thread).filter_map(|_| mg.share_with_local_randomness().ok().map(|w| w.share.to_bytes())).collect::<Vec<_>>()
        })
      })
      .collect();
    let per: Vec<Vec<Vec<u8>>> = handles.into_iter().map(|h| h.join().unwrap_or_default()).collect();
    let mut seen_x: std::collections::HashMap<Vec<u8>, (usize, usize)> = Default::default();
    let mut reported = 0;
    for (ti, shares) in per.iter().enumerate() {
      for (k, b) in shares.iter().enumerate() {
        let x = share_x(b);
        if let Some(&(tj, kj)) = seen_x.get(&x) {
          if reported < 3 {
            reported += 1;
            let combine = match (sta_rs::Share::from_bytes(&per[tj][kj]), sta_rs::Share::from_bytes(b)) {
              (Some(a), Some(c)) => Some(share_recover(&[a, c]).is_ok()),
              _ => None,
            };
            fail(
              "share_point_repeated_between_clients",
              &[("measurement", hex(&m)), ("epoch", hex(&e)), ("threshold", t.to_string()), ("what", "clients of one triple on several threads of one process".into()), ("clients", format!("thread {} share {} and thread {} share {}", tj, kj, ti, k)), ("x", hex(&x)), ("the_two_shares_combine", format!("{:?}", combine))],
            );
          }
        } else {
          seen_x.insert(x, (ti, k));
        }
      }
    }
    stat("oracle.C04.clients_on_several_threads");
    case(true);
  }
  // equal triples: >= 8 independent clients, any aux => equal tag and key, distinct points, combinable
  let n = if quick(tier) { 25 } else { 300 };
  for case_i in 0..n {
    let t = g.range(1, 8) as u32;
    let m = { let n = g.below(30) as usize; g.blob(n) };
    let e = { let n = g.below(5) as usize; g.blob(n) };
    let k = 8.max(t as usize + 1);
    let clients: Vec<Client> = (0..k).map(|_| make_client(&m, &e, t, gen_aux(&mut g), None)).collect();
    let (rnd, key, tag, _) = triple_outputs(&m, &e, t);
    let mut xs = std::collections::BTreeSet::new();
    for c in &clients {
      if c.msg.tag != tag || c.rnd[..] != rnd[..] {
        fail("equal_triples_different_tag", &[("measurement", hex(&m)), ("epoch", hex(&e)), ("threshold", t.to_string())]);
      }
      if !xs.insert(share_x(&c.msg.share.to_bytes())) {
        fail("share_point_repeated_between_clients", &[("measurement", hex(&m)), ("x", hex(&share_x(&c.msg.share.to_bytes())))]);
      }
    }
    // keys: WASM material of independent calls
    for _ in 0..3 {
      let (_, k2, t2, _) = triple_outputs(&m, &e, t);
      if k2 != key || t2 != tag {
        fail("equal_triples_different_key", &[("measurement", hex(&m)), ("epoch", hex(&e)), ("threshold", t.to_string())]);
      }
    }
    // a generator built for another measurement and re-pointed at `m` through its public field is a
    // client holding the triple (m, e, t): same tag and key as everyone else's, not the old triple's
    {
      let mut other = m.clone();
      other.push(0x5a);
      let mut mg = MessageGenerator::new(SingleMeasurement::new(&other), t, &e);
      mg.x = SingleMeasurement::new(&m);
      let mut r = [0u8; 32];
      mg.sample_local_randomness(&mut r);
      let w = mg.share_with_local_randomness().expect("share");
      if r[..] != rnd[..] || w.tag[..] != tag[..] || w.key[..] != key[..] {
        fail(
          "equal_triples_different_tag_after_field_reassignment",
          &[("built_for", hex(&other)), ("reassigned_to", hex(&m)), ("epoch", hex(&e)), ("threshold", t.to_string()), ("tag", hex(&w.tag)), ("expected_tag", hex(&tag))],
        );
      }
    }
    // the output buffer is the caller's: a client that reuses one buffer from report to report
    // (previous randomness, 0xff fill, another epoch's output) holds the same triple
    {
      let mg = MessageGenerator::new(SingleMeasurement::new(&m), t, &e);
      let mut prev = [0u8; 32];
      MessageGenerator::new(SingleMeasurement::new(&m), t, b"previous epoch").sample_local_randomness(&mut prev);
      for (what, fill) in [("all 0xff", [0xffu8; 32]), ("all 0x01", [1u8; 32]), ("randomness of the previous epoch's report", prev), ("its own earlier output", {
        let mut o = [0u8; 32];
        o.copy_from_slice(&rnd[..32]);
        o
      })] {
        let mut r = fill;
        mg.sample_local_randomness(&mut r);
        if r[..] != rnd[..] {
          fail(
            "equal_triples_different_randomness_with_reused_buffer",
            &[("measurement", hex(&m)), ("epoch", hex(&e)), ("threshold", t.to_string()), ("buffer_held", what.to_string()), ("buffer_before", hex(&fill)), ("randomness", hex(&r)), ("with_fresh_buffer", hex(&rnd))],
          );
        }
        // the public digest helper likewise
        let mut d1 = [0u8; 32];
        let mut d2 = fill;
        sta_rs::strobe_digest(&m, &[&e[..]], "oracle.C04", &mut d1);
        sta_rs::strobe_digest(&m, &[&e[..]], "oracle.C04", &mut d2);
        if d1 != d2 {
          fail("digest_depends_on_output_buffer", &[("key", hex(&m)), ("ad", hex(&e)), ("buffer_held", what.to_string()), ("fresh", hex(&d1)), ("reused", hex(&d2))]);
        }
      }
    }
    // mutually combinable: any t of them recover
    let shares: Vec<sta_rs::Share> = clients.iter().rev().take(t as usize).map(|c| c.msg.share.clone()).collect();
    match share_recover(&shares) {
      Ok(c) => {
        let mut kk = vec![0u8; 16];
        derive_ske_key(&c.get_message(), &e, &mut kk);
        if kk != key {
          fail("recovered_key_differs_from_client_key", &[("measurement", hex(&m))]);
        }
      }
      Err(_) => fail("equal_triples_do_not_combine", &[("measurement", hex(&m)), ("threshold", t.to_string())]),
    }
    case(true);
    if case_i == 0 {
      sample(&[("measurement", hex(&m)), ("epoch", hex(&e)), ("threshold", t.to_string()), ("tag", hex(&tag)), ("key", hex(&key))]);
    }
  }
}
