//! Oracles on the real sta-rs / adss crates: C01 (threshold recovery), C16 (ADSS determinism and
//! recovery).
use crate::oracle::*;
use crate::s_star::*;
use crate::util::*;
use adss::{recover, Commune, Share as AShare};
use sta_rs::{derive_ske_key, load_bytes, share_recover, Message};

/// parse a decrypted payload as a consumer of the documented framing would
pub fn parse_payload(pt: &[u8]) -> Option<(Vec<u8>, Option<Vec<u8>>)> {
  let m = load_bytes(pt)?;
  let rest = &pt[4 + m.len()..];
  if rest.is_empty() {
    return Some((m.to_vec(), None));
  }
  let a = load_bytes(rest)?;
  Some((m.to_vec(), Some(a.to_vec())))
}

pub fn c01(tier: &str, seed: u64) {
  let mut g = Sm::new(seed, "oracle.C01");
  let n = if quick(tier) { 200 } else { 3000 };
  for case_i in 0..n {
    let t: u32 = match case_i % 8 {
      0 => 1,
      1 => 2,
      2 => g.range(3, 8) as u32,
      3 => g.range(9, 24) as u32,
      4 => g.range(25, if quick(tier) { 64 } else { 96 }) as u32,
      _ => gen_threshold(&mut g, tier),
    };
    let mlen = *g.pick(&[0usize, 1, 23, 24, 25, 161, 162, 163, 164, 165, 166, 167, 20, 32, 4096]);
    let m = g.blob(mlen);
    let e = { let n = if g.chance(1, 4) { 0 } else { g.range(1, 10) as usize }; g.blob(n) };
    let injected = g.chance(1, 2);
    let rnd_o = if injected {
      let mut r = [0u8; 32];
      r.copy_from_slice(&g.bytes(32));
      Some(r)
    } else {
      None
    };
    let nrep = t as usize + g.below(4) as usize;
    let clients: Vec<Client> = (0..nrep).map(|_| make_client(&m, &e, t, gen_aux(&mut g), rnd_o)).collect();
    // through the wire
    let decoded: Vec<Message> = clients
      .iter()
      .map(|c| {
        let b = c.msg.to_bytes();
        match Message::from_bytes(&b) {
          Some(d) => {
            if d != c.msg {
              fail("wire_roundtrip_changed_report", &[("report", hex(&b))]);
            }
            d
          }
          None => {
            fail("wire_roundtrip_rejected", &[("report", hex(&b))]);
            c.msg.clone()
          }
        }
      })
      .collect();
    // selections with exactly / at least t distinct shares
    for sel_i in 0..4 {
      let mut idx: Vec<usize> = (0..nrep).collect();
      g.shuffle(&mut idx);
      match sel_i {
        0 => idx.truncate(t as usize),
        1 => {
          idx.truncate(t as usize);
          let d = idx[g.below(idx.len() as u64) as usize];
          let pos = g.below(idx.len() as u64 + 1) as usize;
          idx.insert(pos, d);
          idx.push(d);
        }
        2 => {}
        _ => {
          idx.truncate(t as usize);
          idx.reverse();
        }
      }
      let shares: Vec<sta_rs::Share> = idx.iter().map(|&i| decoded[i].share.clone()).collect();
      let res = std::panic::catch_unwind(std::panic::AssertUnwindSafe(|| share_recover(&shares).map(|c| c.get_message()).map_err(|e| e.to_string())));
      let desc = |what: &str| {
        vec![
          ("what", what.to_string()),
          ("measurement", hex(&m)),
          ("epoch", hex(&e)),
          ("threshold", t.to_string()),
          ("randomness", if injected { hex(&clients[0].rnd) } else { "local".into() }),
          ("selection", format!("{:?}", idx)),
          ("reports", clients.iter().map(|c| hex(&c.msg.to_bytes())).collect::<Vec<_>>().join(",")),
        ]
      };
      match res {
        Err(_) => fail("recover_panicked", &desc("share_recover panicked").iter().map(|(k, v)| (*k, v.clone())).collect::<Vec<_>>()),
        Ok(Err(_)) => fail("recover_failed_with_t_distinct", &desc("share_recover returned Err").iter().map(|(k, v)| (*k, v.clone())).collect::<Vec<_>>()),
        Ok(Ok(r0)) => {
          let mut key = vec![0u8; 16];
          derive_ske_key(&r0, &e, &mut key);
          for (i, c) in clients.iter().enumerate() {
            let pt = decoded[i].ciphertext.decrypt(&key, "star_encrypt");
            match parse_payload(&pt) {
              Some((mm, aa)) if mm == c.m && aa == c.aux => {}
              other => {
                let mut d = desc("decrypted payload differs from what the client supplied");
                d.push(("client", i.to_string()));
                d.push(("expected_aux", format!("{:?}", c.aux.as_ref().map(|a| hex(a)))));
                d.push(("got", format!("{:?}", other.map(|(a, b)| (hex(&a), b.map(|x| hex(&x)))))));
                fail("wrong_payload", &d.iter().map(|(k, v)| (*k, v.clone())).collect::<Vec<_>>());
              }
            }
          }
        }
      }
      case(true);
    }
    if case_i == 1 {
      sample(&[("threshold", t.to_string()), ("reports", nrep.to_string()), ("measurement_len", mlen.to_string()), ("first_report", hex(&clients[0].msg.to_bytes()))]);
    }
  }
}

pub fn c16(tier: &str, seed: u64) {
  let mut g = Sm::new(seed, "oracle.C16");
  let n = if quick(tier) { 210 } else { 3000 };
  for case_i in 0..n {
    let t: u32 = match case_i % 7 {
      0 => 0,
      1 => 1,
      2 => 2,
      3 => g.range(3, 16) as u32,
      4 => g.range(17, if quick(tier) { 48 } else { 128 }) as u32,
      _ => g.range(1, 12) as u32,
    };
    let big = !quick(tier) && case_i % 40 == 9;
    let m = { let n = if big { 100_000 } else { *g.pick(&[0usize, 0, 1, 4, 165, 166, 167, 332, 1000]) }; g.blob(n) };
    let r = { let n = if big { 70_000 } else { *g.pick(&[0usize, 1, 4, 32, 166, 500]) }; g.blob(n) };
    let c = Commune::new(t, m.clone(), r.clone(), None);
    let cnt = (t as usize + 2).max(2);
    let shares: Vec<AShare> = (0..cnt).map(|_| c.clone().share().expect("share")).collect();
    let desc = vec![("threshold", t.to_string()), ("message", hex(&m[..m.len().min(64)])), ("message_len", m.len().to_string()), ("coins_len", r.len().to_string())];
    // deterministic except for the Shamir share
    let strip = |s: &AShare| {
      let b = s.to_bytes();
      let sl = u32::from_le_bytes(b[4..8].try_into().unwrap()) as usize;
      let mut v = b[..4].to_vec();
      v.extend(&b[8 + sl..]);
      v
    };
    if shares.iter().any(|s| strip(s) != strip(&shares[0])) {
      fail("share_not_deterministic", &desc);
    }
    // points distinct (OS RNG) - needed for the recovery checks below
    let xs: Vec<Vec<u8>> = shares.iter().map(|s| share_x(&s.to_bytes())).collect();
    let distinct = xs.iter().collect::<std::collections::BTreeSet<_>>().len() == xs.len();
    if t == 0 {
      if recover(&shares).is_ok() {
        fail("threshold_zero_recovered", &desc);
      }
    } else if distinct {
      let mut sel = shares.clone();
      g.shuffle(&mut sel);
      sel.truncate(t as usize);
      match recover(&sel) {
        Ok(rc) => {
          if rc.get_message() != m {
            fail("recovered_wrong_message", &desc);
          }
          // the recovered commune is the original one: its shares combine with the originals
          if t >= 2 {
            let fresh = rc.clone().share().expect("reshare");
            if strip(&fresh) != strip(&shares[0]) {
              fail("reshare_differs", &desc);
            }
            let mut mix: Vec<AShare> = sel[..t as usize - 1].to_vec();
            mix.push(fresh);
            match recover(&mix) {
              Ok(r2) if r2.get_message() == m => {}
              _ => fail("reshare_does_not_combine", &desc),
            }
          }
        }
        Err(_) => fail("recover_failed_with_t_distinct", &desc),
      }
      if t >= 2 && recover(&sel[..t as usize - 1]).is_ok() {
        fail("recovered_below_threshold", &desc);
      }
    }
    // custom transcript: rejected by recover (which verifies under the default transcript)
    if t >= 1 && case_i % 3 == 0 {
      let (tr, _) = custom_transcript(&mut g);
      let cc = Commune::new(t, m.clone(), r.clone(), Some(tr));
      let cs: Vec<AShare> = (0..t).map(|_| cc.clone().share().unwrap()).collect();
      if recover(&cs).is_ok() {
        fail("custom_transcript_accepted", &desc);
      }
    }
    case(true);
    if case_i == 2 {
      sample(&[("threshold", t.to_string()), ("message_len", m.len().to_string()), ("share", hex(&shares[0].to_bytes()))]);
    }
  }
}
