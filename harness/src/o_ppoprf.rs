//! Oracles for the PPOPRF layer, on the real code only:
//! C12 (blind/eval/unblind is the unblinded function and blinding hides nothing in the result),
//! C13 (DLEQ proofs: completeness, and rejection of every tampered component),
//! C14 (punctures, clones and key export/import over operation histories).
use crate::oracle::*;
use crate::s_ppoprf::*;
use crate::util::*;
use curve25519_dalek::constants::RISTRETTO_BASEPOINT_POINT as BASE;
use curve25519_dalek::ristretto::CompressedRistretto;
use curve25519_dalek::scalar::Scalar;
use ppoprf::ppoprf::{Client, CurveScalar, Evaluation, Point, Server, ServerPublicKey};
use std::collections::{BTreeMap, BTreeSet, HashMap, HashSet};

fn distinct_tags(mds: &[u8]) -> Vec<u8> {
  let s: BTreeSet<u8> = mds.iter().cloned().collect();
  s.into_iter().collect()
}

/// one full client run: (blinded point, r, evaluation output, unblinded point, finalized output)
fn run_once(server: &Server, input: &[u8], md: u8, verifiable: bool) -> Result<(Vec<u8>, Scalar, Vec<u8>, Vec<u8>, [u8; 32]), String> {
  let (bp, cs) = Client::blind(input);
  let r = Scalar::from(cs);
  let ev = server.eval(&bp, md, verifiable).map_err(|e| err_kind(&e))?;
  if verifiable && !Client::verify(&server.get_public_key(), &bp, &ev, md) {
    return Err("honest_proof_rejected".into());
  }
  let u = Client::unblind(&ev.output, &CurveScalar::from(r));
  let mut fin = [0u8; 32];
  Client::finalize(input, md, &u, &mut fin);
  Ok((bp.as_bytes().to_vec(), r, ev.output.as_bytes().to_vec(), u.as_bytes().to_vec(), fin))
}

pub fn c12(tier: &str, seed: u64) {
  let mut g = Sm::new(seed, "oracle.C12");
  let q = quick(tier);
  let nservers = if q { 40 } else { 600 };
  let mut prev: Option<(Server, Vec<u8>)> = None;
  let mut input_no = 0usize;
  for si in 0..nservers {
    let mut mds = gen_tagset(&mut g, 8);
    if mds.is_empty() {
      mds.push(g.below(256) as u8);
    }
    let tags = distinct_tags(&mds);
    let server = match Server::new(mds.clone()) {
      Ok(s) => s,
      Err(e) => {
        fail("server_new", &[("mds", hex(&mds)), ("err", err_kind(&e))]);
        continue;
      }
    };
    for _ in 0..(if q { 4 } else { 6 }) {
      let input = gen_input(&mut g, input_no);
      input_no += 1;
      let md = *g.pick(&tags);
      // >= 3 independent blindings, both modes
      let nruns = g.range(3, 5) as usize;
      let mut runs = Vec::new();
      for i in 0..nruns {
        let verifiable = i % 2 == 1;
        match std::panic::catch_unwind(std::panic::AssertUnwindSafe(|| run_once(&server, &input, md, verifiable))) {
          Err(_) => fail("panic_in_honest_run", &[("input", hex(&input)), ("md", md.to_string()), ("mds", hex(&mds))]),
          Ok(Err(e)) => fail("honest_run_failed", &[("input", hex(&input)), ("md", md.to_string()), ("mds", hex(&mds)), ("err", e)]),
          Ok(Ok(r)) => runs.push(r),
        }
      }
      // the blinding scalar is an OBJECT the client holds: one `CurveScalar` used for several
      // unblindings (the input point, the reply, a retry, replies under another tag or from another
      // server) gives what a fresh copy of the same scalar gives every time
      {
        let (bp, cs0) = Client::blind(&input);
        let r = Scalar::from(cs0);
        let held = CurveScalar::from(r);
        let mut pts: Vec<(String, Point)> = vec![("the blinded request itself".into(), Point::from(&bp.as_bytes()[..]))];
        if let Ok(ev) = server.eval(&bp, md, false) {
          pts.push((format!("reply under tag {}", md), Point::from(&ev.output.as_bytes()[..])));
          pts.push((format!("reply under tag {} again (retry)", md), Point::from(&ev.output.as_bytes()[..])));
        }
        if let Some(&md2) = tags.iter().find(|&&x| x != md) {
          if let Ok(ev) = server.eval(&bp, md2, true) {
            pts.push((format!("reply under tag {}", md2), Point::from(&ev.output.as_bytes()[..])));
          }
        }
        if let Some((ps, ptags)) = &prev {
          if let Ok(ev) = ps.eval(&bp, ptags[0], false) {
            pts.push(("reply of another server".into(), Point::from(&ev.output.as_bytes()[..])));
          }
        }
        pts.push(("the blinded request again".into(), Point::from(&bp.as_bytes()[..])));
        for (k, (what, pt)) in pts.iter().enumerate() {
          let a = std::panic::catch_unwind(std::panic::AssertUnwindSafe(|| Client::unblind(pt, &held).as_bytes().to_vec()));
          let b = Client::unblind(pt, &CurveScalar::from(r)).as_bytes().to_vec();
          match a {
            Err(_) => fail("unblind_panicked", &[("input", hex(&input)), ("use", k.to_string()), ("of", what.clone())]),
            Ok(a) if a != b => fail(
              "unblind_depends_on_earlier_unblindings",
              &[("input", hex(&input)), ("r", sch(&r)), ("use_number", (k + 1).to_string()), ("point_unblinded", format!("{}: {}", what, hex(pt.as_bytes()))), ("with_held_scalar_object", hex(&a)), ("with_fresh_copy_of_the_scalar", hex(&b))],
            ),
            _ => {}
          }
          case(true);
        }
        stat("oracle.C12.held_blinding_scalar");
      }
      if runs.len() < 3 {
        continue;
      }
      // the unblinded function: H(x) = r^{-1} * blind(x), evaluated directly
      let hx = Client::unblind(&Point::from(&runs[0].0[..]), &CurveScalar::from(runs[0].1));
      let direct = match server.eval(&hx, md, false) {
        Ok(ev) => ev.output.as_bytes().to_vec(),
        Err(e) => {
          fail("direct_eval_failed", &[("err", err_kind(&e))]);
          continue;
        }
      };
      // a server holding the SAME key state (export -> bincode -> import into a server that
      // already had its own identity and tags) must give the same output: the output depends only
      // on (server key, tag, input)
      {
        use ppoprf::ppoprf::ServerKeyState;
        let bytes = bincode::serialize(&server.get_private_key()).expect("serialize key state");
        let st: ServerKeyState = bincode::deserialize(&bytes).expect("deserialize key state");
        let mut other = Server::new(mds.clone()).expect("Server::new");
        other.set_private_key(st);
        match other.eval(&hx, md, false) {
          Ok(ev) if ev.output.as_bytes().to_vec() == direct => {}
          Ok(ev) => fail("same_key_state_different_output", &[("input", hex(&input)), ("md", md.to_string()), ("mds", hex(&mds)), ("exporter", hex(&direct)), ("importer", hex(ev.output.as_bytes()))]),
          Err(e) => fail("same_key_state_different_output", &[("input", hex(&input)), ("md", md.to_string()), ("mds", hex(&mds)), ("exporter", hex(&direct)), ("importer", format!("err:{}", err_kind(&e)))]),
        }
      }
      for (i, r) in runs.iter().enumerate() {
        // every run recovers the same H(x)
        let hxi = Client::unblind(&Point::from(&r.0[..]), &CurveScalar::from(r.1));
        if hxi.as_bytes() != hx.as_bytes() {
          fail("hash_to_group_not_deterministic", &[("input", hex(&input)), ("run", i.to_string())]);
        }
        if r.3 != direct {
          fail("unblind_eval_blind_ne_eval", &[("input", hex(&input)), ("md", md.to_string()), ("run", i.to_string()), ("r", sch(&r.1)), ("unblinded", hex(&r.3)), ("direct", hex(&direct))]);
        }
        if r.4 != runs[0].4 {
          fail("finalize_depends_on_blinding", &[("input", hex(&input)), ("md", md.to_string()), ("run", i.to_string()), ("a", hex(&r.4)), ("b", hex(&runs[0].4))]);
        }
        if r.0 == hx.as_bytes().to_vec() {
          fail("blinded_equals_unblinded_input", &[("input", hex(&input)), ("r", sch(&r.1))]);
        }
        if r.1 == Scalar::ZERO || r.1 == Scalar::ONE {
          fail("degenerate_blinding_scalar", &[("r", sch(&r.1))]);
        }
        for (j, r2) in runs.iter().enumerate() {
          if j < i && (r2.0 == r.0 || r2.1 == r.1) {
            fail("blinding_repeated", &[("input", hex(&input)), ("i", i.to_string()), ("j", j.to_string()), ("point", hex(&r.0))]);
          }
          // the server sees different points but they evaluate to different outputs too
          if j < i && r2.2 == r.2 {
            fail("evaluation_outputs_collide", &[("input", hex(&input)), ("i", i.to_string()), ("j", j.to_string())]);
          }
        }
        // evaluation is a function of (point, tag): the other mode gives the same output
        let again = server.eval(&Point::from(&r.0[..]), md, i % 2 == 0).map(|e| e.output.as_bytes().to_vec());
        if again.as_ref().ok() != Some(&r.2) {
          fail("eval_mode_changes_output", &[("input", hex(&input)), ("md", md.to_string())]);
        }
        case(true);
      }
      // ONE blinded point submitted under several tags, in both modes and both orders: each answer
      // must be the one a fresh request for that tag gets (the unblinded result is a function of
      // key, tag and input only - not of what the server was asked before)
      if let Some(&md2) = tags.iter().find(|&&t| t != md) {
        let (bp, cs) = Client::blind(&input);
        let r = Scalar::from(cs);
        let seq: Vec<(u8, bool)> = match g.below(3) {
          0 => vec![(md, true), (md2, false), (md, false)],
          1 => vec![(md, false), (md2, false), (md2, true), (md, false)],
          _ => vec![(md2, false), (md, false)],
        };
        let mut per_tag: HashMap<u8, Vec<u8>> = HashMap::new();
        for (k, (tag, verifiable)) in seq.iter().enumerate() {
          match server.eval(&bp, *tag, *verifiable) {
            Ok(ev) => {
              let u = Client::unblind(&ev.output, &CurveScalar::from(r));
              let want = if *tag == md { runs[0].3.clone() } else { run_once(&server, &input, *tag, false).map(|x| x.3).unwrap_or_default() };
              if u.as_bytes().to_vec() != want {
                fail(
                  "unblind_eval_blind_ne_eval",
                  &[("input", hex(&input)), ("md", tag.to_string()), ("what", format!("request {} of one blinded point sent under tags {:?}", k + 1, seq)), ("unblinded", hex(u.as_bytes())), ("direct", hex(&want))],
                );
              }
              if let Some(prev) = per_tag.insert(*tag, ev.output.as_bytes().to_vec()) {
                if prev != ev.output.as_bytes().to_vec() {
                  fail("eval_mode_changes_output", &[("input", hex(&input)), ("md", tag.to_string())]);
                }
              }
            }
            Err(e) => fail("honest_run_failed", &[("err", err_kind(&e))]),
          }
        }
        case(true);
        stat("c12.one_point_many_tags");
      }
      let fin = runs[0].4;
      // separation: other tag, other input, other server
      if let Some(&md2) = tags.iter().find(|&&t| t != md) {
        match run_once(&server, &input, md2, g.chance(1, 2)) {
          Ok(r) => {
            if r.4 == fin || r.3 == runs[0].3 {
              fail("tags_not_separated", &[("input", hex(&input)), ("md", md.to_string()), ("md2", md2.to_string())]);
            }
          }
          Err(e) => fail("honest_run_failed", &[("err", e)]),
        }
        case(true);
      }
      {
        let mut input2 = input.clone();
        match g.below(3) {
          0 => input2.push(0),
          1 if !input2.is_empty() => {
            let i = g.below(input2.len() as u64) as usize;
            input2[i] ^= 1 << g.below(8);
          }
          _ => input2.insert(0, md),
        }
        match run_once(&server, &input2, md, g.chance(1, 2)) {
          Ok(r) => {
            if r.4 == fin || r.3 == runs[0].3 {
              fail("inputs_not_separated", &[("input", hex(&input)), ("input2", hex(&input2)), ("md", md.to_string())]);
            }
          }
          Err(e) => fail("honest_run_failed", &[("err", e)]),
        }
        case(true);
      }
      if let Some((other, omds)) = prev.as_ref() {
        if omds.contains(&md) {
          match run_once(other, &input, md, g.chance(1, 2)) {
            Ok(r) => {
              if r.4 == fin || r.3 == runs[0].3 {
                fail("servers_not_separated", &[("input", hex(&input)), ("md", md.to_string())]);
              }
            }
            Err(e) => fail("honest_run_failed", &[("err", e)]),
          }
          case(true);
          stat("c12.cross_server");
        }
      }
      if si == 1 && input_no % 4 == 0 {
        sample(&[("input", hex(&input)), ("md", md.to_string()), ("runs", runs.len().to_string()), ("unblinded", hex(&runs[0].3)), ("finalized", hex(&fin))]);
      }
    }
    // MANY requests on one thread (this one, and one spawned for the purpose): hundreds of blindings of
    // one input, all points and scalars distinct - a pool of blinding material must not run in circles
    if si == 1 || (!q && si % 64 == 1) {
      let input = gen_input(&mut g, 4);
      let many = |inp: Vec<u8>| -> Vec<(Vec<u8>, [u8; 32])> {
        (0..600)
          .map(|_| {
            let (bp, cs) = Client::blind(&inp);
            (bp.as_bytes().to_vec(), Scalar::from(cs).to_bytes())
          })
          .collect()
      };
      let here = many(input.clone());
      let inp2 = input.clone();
      let there = std::thread::spawn(move || many(inp2)).join().expect("blinding thread");
      for (name, list) in [("the calling thread", &here), ("a spawned thread", &there)] {
        let mut pts: HashMap<&Vec<u8>, usize> = HashMap::new();
        let mut scs: HashMap<&[u8; 32], usize> = HashMap::new();
        for (i, (p, sc)) in list.iter().enumerate() {
          if let Some(j) = pts.insert(p, i).or(scs.insert(sc, i)) {
            fail("blinding_repeated", &[("input", hex(&input)), ("where", format!("{}: request #{} repeats request #{}", name, i, j)), ("point", hex(p))]);
            break;
          }
        }
      }
      case(true);
      stat("c12.many_requests_on_one_thread");
    }
    // the output for a live tag does not change when OTHER tags are punctured - two and more punctures
    // inside one subtree of the tag space ({0, 2, 6, 10}: puncture 0, puncture 2, evaluate 6 and 10)
    if si % 4 == 1 {
      let base = (g.next() as u8) & 0xf0;
      let set: Vec<u8> = vec![base, base | 2, base | 6, base | 10, base | 1, base | 5];
      if let Ok(mut srv) = Server::new(set.clone()) {
        let vpk = srv.get_public_key();
        let inp = gen_input(&mut g, 5);
        let before: Vec<Option<[u8; 32]>> = set.iter().map(|&t| run_once(&srv, &inp, t, false).ok().map(|r| r.4)).collect();
        let mut gone: Vec<u8> = Vec::new();
        for &p in &[set[0], set[1], set[4]] {
          let _ = srv.puncture(p);
          gone.push(p);
          for (k, &t) in set.iter().enumerate() {
            if gone.contains(&t) {
              continue;
            }
            let now = run_once(&srv, &inp, t, true).ok().map(|r| r.4);
            if now != before[k] {
              fail("answer_changed_after_puncture_of_other_tags", &[("tags", hex(&set)), ("punctured", hex(&gone)), ("md", t.to_string()), ("input", hex(&inp)), ("before", format!("{:?}", before[k].map(|v| hex(&v)))), ("after", format!("{:?}", now.map(|v| hex(&v))))]);
            }
            let (bp, _) = Client::blind(&inp);
            if let Ok(ev) = srv.eval(&bp, t, true) {
              if !Client::verify(&vpk, &bp, &ev, t) {
                fail("honest_run_failed", &[("err", "honest_proof_rejected".into()), ("tags", hex(&set)), ("punctured", hex(&gone)), ("md", t.to_string())]);
              }
            }
          }
        }
        case(true);
        stat("c12.punctures_of_other_tags");
      }
    }
    // finalisation is a pure function of (input, tag, unblinded point): a long input finalised first,
    // then a short one, on ONE thread gives what a fresh thread gives
    if si % 8 == 2 {
      let md = tags[0];
      let long = { let n = g.range(300, 5000) as usize; g.blob(n) };
      let short = { let n = g.range(0, 40) as usize; g.blob(n) };
      let srv = server.clone();
      let (l2, s2) = (long.clone(), short.clone());
      let with_history = std::thread::spawn(move || {
        let a = run_once(&srv, &l2, md, false).map(|r| r.4);
        let b = run_once(&srv, &s2, md, false).map(|r| r.4);
        (a, b)
      })
      .join()
      .expect("thread");
      let srv = server.clone();
      let s3 = short.clone();
      let fresh = std::thread::spawn(move || run_once(&srv, &s3, md, false).map(|r| r.4)).join().expect("thread");
      if with_history.1 != fresh {
        fail("finalize_depends_on_call_history", &[("long_input_len", long.len().to_string()), ("short_input", hex(&short)), ("md", md.to_string()), ("after_long_input", format!("{:?}", with_history.1.as_ref().map(|v| hex(v)))), ("fresh_thread", format!("{:?}", fresh.as_ref().map(|v| hex(v))))]);
      }
      case(true);
      stat("c12.finalize_after_longer_input");
    }
    // freshness across THREADS of one process (clients blind wherever the embedding application runs
    // them): concurrent threads, and threads started one after the other, must not share blindings
    if si % 8 == 0 {
      let input = gen_input(&mut g, input_no);
      let mut all: Vec<(usize, Vec<u8>, [u8; 32])> = Vec::new();
      let spawn_batch = |n: usize, input: &Vec<u8>| -> Vec<(Vec<u8>, [u8; 32])> {
        let hs: Vec<_> = (0..n)
          .map(|_| {
            let inp = input.clone();
            std::thread::spawn(move || {
              (0..3)
                .map(|_| {
                  let (bp, cs) = Client::blind(&inp);
                  (bp.as_bytes().to_vec(), Scalar::from(cs).to_bytes())
                })
                .collect::<Vec<_>>()
            })
          })
          .collect();
        hs.into_iter().flat_map(|h| h.join().expect("blinding thread")).collect()
      };
      for (round, n) in [(0usize, 4usize), (1, 1), (2, 1)] {
        for (p, r) in spawn_batch(n, &input) {
          all.push((round, p, r));
        }
      }
      let (bp, cs) = Client::blind(&input);
      all.push((3, bp.as_bytes().to_vec(), Scalar::from(cs).to_bytes()));
      for i in 0..all.len() {
        for j in 0..i {
          if all[i].1 == all[j].1 || all[i].2 == all[j].2 {
            fail("blinding_repeated", &[("input", hex(&input)), ("where", format!("threads: batch {} item {} and batch {} item {}", all[j].0, j, all[i].0, i)), ("point", hex(&all[i].1))]);
          }
        }
      }
      case(true);
      stat("c12.cross_thread_freshness");
    }
    // the next server shares a tag with this one now and then
    prev = Some((server, mds));
    if g.chance(1, 2) {
      // make sure cross-server cases occur: a server over the same tag set
      let (_, m) = prev.as_ref().unwrap();
      let m = m.clone();
      if let Ok(s2) = Server::new(m.clone()) {
        prev = Some((s2, m));
      }
    }
  }
}

fn dec(b: &[u8]) -> curve25519_dalek::ristretto::RistrettoPoint {
  CompressedRistretto::from_slice(b).unwrap().decompress().unwrap()
}

/// BATCHED proofs (the seeded composite): an honest batch verifies; a batch in which some output is
/// not the evaluation of its input is rejected - outputs handed to the wrong requests, offsets that
/// cancel in the plain sum, a repeated honest value, the identity
fn c13_batches(g: &mut Sm, q: bool) {
  use curve25519_dalek::ristretto::RistrettoPoint;
  use curve25519_dalek::traits::Identity;
  use ppoprf::ppoprf::ProofDLEQ;
  let rounds = if q { 12 } else { 150 };
  for bi in 0..rounds {
    let n = 1 + bi % 6;
    let key = rand_scalar(g);
    let pv = key * BASE;
    let ps: Vec<RistrettoPoint> = (0..n).map(|_| rand_point(g)).collect();
    let qs: Vec<RistrettoPoint> = ps.iter().map(|p| key * p).collect();
    let proof = match std::panic::catch_unwind(std::panic::AssertUnwindSafe(|| ProofDLEQ::verif_new_batch(&key, &pv, &ps, &qs))) {
      Ok(p) => p,
      Err(_) => {
        fail("batch_proof_panicked", &[("n", n.to_string())]);
        continue;
      }
    };
    let show = |v: &[RistrettoPoint]| v.iter().map(pth).collect::<Vec<_>>().join(",");
    let verify = |ps: &[RistrettoPoint], qs: &[RistrettoPoint]| std::panic::catch_unwind(std::panic::AssertUnwindSafe(|| proof.verif_verify_batch(&pv, ps, qs))).unwrap_or(false);
    if !verify(&ps, &qs) {
      fail("honest_batch_rejected", &[("n", n.to_string()), ("key", sch(&key)), ("inputs", show(&ps))]);
    }
    case(true);
    let mut tampers: Vec<(String, Vec<RistrettoPoint>, Vec<RistrettoPoint>)> = Vec::new();
    let d = rand_point(g);
    for i in 0..n {
      for j in (i + 1)..n {
        let mut q2 = qs.clone();
        q2.swap(i, j);
        tampers.push((format!("outputs of requests {} and {} exchanged", i, j), ps.clone(), q2));
        let mut p2 = ps.clone();
        p2.swap(i, j);
        tampers.push((format!("inputs of requests {} and {} exchanged", i, j), p2, qs.clone()));
        let mut q3 = qs.clone();
        q3[i] += d;
        q3[j] -= d;
        tampers.push((format!("output {} + D, output {} - D", i, j), ps.clone(), q3));
        let mut q4 = qs.clone();
        q4[i] += BASE;
        q4[j] -= BASE;
        tampers.push((format!("output {} + G, output {} - G", i, j), ps.clone(), q4));
        let mut q5 = qs.clone();
        q5[j] = qs[i];
        tampers.push((format!("output {} replaced by the honest output {}", j, i), ps.clone(), q5));
        let mut p5 = ps.clone();
        p5[i] += d;
        p5[j] -= d;
        tampers.push((format!("input {} + D, input {} - D", i, j), p5, qs.clone()));
        for k in (j + 1)..n {
          let mut q6 = qs.clone();
          q6[i] += d + d;
          q6[j] -= d;
          q6[k] -= d;
          tampers.push((format!("output {} + 2D, outputs {} and {} - D", i, j, k), ps.clone(), q6));
          let mut q7 = qs.clone();
          let (a, b, c) = (qs[i], qs[j], qs[k]);
          q7[i] = b;
          q7[j] = c;
          q7[k] = a;
          tampers.push((format!("outputs of requests {}, {}, {} rotated", i, j, k), ps.clone(), q7));
        }
      }
      let mut q8 = qs.clone();
      q8[i] = RistrettoPoint::identity();
      tampers.push((format!("output {} replaced by the identity", i), ps.clone(), q8));
      let mut q9 = qs.clone();
      q9[i] += BASE;
      tampers.push((format!("output {} + G", i), ps.clone(), q9));
    }
    for (what, p2, q2) in tampers {
      // only batches in which some output is NOT the evaluation of its input must be rejected
      if p2.iter().zip(q2.iter()).all(|(p, q)| key * p == *q) {
        continue;
      }
      stat("oracle.C13.batch_tampers");
      if verify(&p2, &q2) {
        fail("batch_proof_accepts_wrong_evaluation", &[("batch_size", n.to_string()), ("tamper", what), ("key", sch(&key)), ("public_value", pth(&pv)), ("inputs", show(&p2)), ("outputs", show(&q2)), ("honest_inputs", show(&ps)), ("honest_outputs", show(&qs))]);
      }
      case(true);
    }
  }
}

pub fn c13(tier: &str, seed: u64) {
  let mut g = Sm::new(seed, "oracle.C13");
  let q = quick(tier);
  c13_batches(&mut g, q);
  let nservers = if q { 25 } else { 400 };
  let mut commitments: HashSet<Vec<u8>> = HashSet::new();
  let mut last: Option<Honest> = None;
  let mut xserver: Option<Honest> = None;
  let mut input_no = 0usize;
  for _si in 0..nservers {
    let mut mds = gen_tagset(&mut g, 8);
    if mds.is_empty() {
      mds.push(g.below(256) as u8);
    }
    // tag-set sizes at the top of the range: 255 and all 256 tags (the largest legal public key)
    if _si == 1 {
      mds = (0..=255u8).collect();
    } else if _si == 2 {
      mds = (0..255u8).collect();
    }
    let tags = distinct_tags(&mds);
    let server = Server::new(mds.clone()).expect("Server::new");
    let pk = server.get_public_key();
    let pkb = pk.serialize_to_bincode().unwrap();
    // bincode round trip of the public key
    let pk2 = match ServerPublicKey::load_from_bincode(&pkb) {
      Ok(p) => p,
      Err(_) => {
        fail("pk_roundtrip_load", &[("tags", mds.len().to_string()), ("pk_len", pkb.len().to_string()), ("pk", hex(&pkb[..pkb.len().min(200)]))]);
        continue;
      }
    };
    if pk2 != pk || pk2.serialize_to_bincode().unwrap() != pkb {
      fail("pk_roundtrip_differs", &[("pk", hex(&pkb))]);
    }
    for _ in 0..(if q { 4 } else { 5 }) {
      let input = gen_input(&mut g, input_no);
      input_no += 1;
      let md = *g.pick(&tags);
      let (bp, _cs) = Client::blind(&input);
      let ev = match server.eval(&bp, md, true) {
        Ok(e) => e,
        Err(e) => {
          fail("honest_eval_failed", &[("md", md.to_string()), ("mds", hex(&mds)), ("err", err_kind(&e))]);
          continue;
        }
      };
      // completeness
      let ok = std::panic::catch_unwind(std::panic::AssertUnwindSafe(|| Client::verify(&pk, &bp, &ev, md)));
      if ok.as_ref().ok() != Some(&true) {
        fail("honest_proof_rejected", &[("input", hex(&input)), ("md", md.to_string()), ("mds", hex(&mds)), ("panicked", ok.is_err().to_string())]);
      }
      case(true);
      // completeness in every life-cycle state of a server: a clone, a server that imported this
      // server's key state over its own (its published key is then the exporter's), and the server
      // after punctures of other tags - each verifies against the key IT publishes
      {
        use ppoprf::ppoprf::ServerKeyState;
        let mut variants: Vec<(&str, Server)> = vec![("clone", server.clone())];
        let bytes = bincode::serialize(&server.get_private_key()).expect("serialize key state");
        let st: ServerKeyState = bincode::deserialize(&bytes).expect("deserialize key state");
        let other_mds = if g.chance(1, 2) { mds.clone() } else { vec![1, 2, 3, 200] };
        let mut importer = Server::new(other_mds).expect("Server::new");
        importer.set_private_key(st);
        variants.push(("importer_after_key_sync", importer));
        if let Some(&md2) = tags.iter().find(|&&t| t != md) {
          let mut p = server.clone();
          if p.puncture(md2).is_ok() {
            variants.push(("after_puncture_of_another_tag", p));
          }
        }
        for (what, srv) in variants {
          let vpk = srv.get_public_key();
          let r = std::panic::catch_unwind(std::panic::AssertUnwindSafe(|| {
            let (bp2, _) = Client::blind(&input);
            match srv.eval(&bp2, md, true) {
              Ok(ev2) => (Client::verify(&vpk, &bp2, &ev2, md) && Client::verify(&pk, &bp2, &ev2, md), ev2.proof.as_ref().map(proof_cs)),
              Err(_) => (false, None),
            }
          }));
          if r.as_ref().ok().map(|x| x.0) != Some(true) {
            fail("honest_proof_rejected", &[("server_state", what.to_string()), ("input", hex(&input)), ("md", md.to_string()), ("mds", hex(&mds)), ("panicked", r.is_err().to_string())]);
          }
          // the nonce commitment of a copy's proof is as fresh as any other: a clone or an importer
          // must not continue the original's nonce sequence (a repeated nonce exposes the key)
          if let Ok((_, Some((c2, s2)))) = r {
            if let Some(pos) = pk_entry_pos(&pkb, md) {
              let pkv = dec(&pkb[..32]) + dec(&pkb[pos + 1..pos + 33]);
              let t2 = (s2 * BASE + c2 * pkv).compress().as_bytes().to_vec();
              if !commitments.insert(t2.clone()) {
                fail("proof_nonce_repeated", &[("t2", hex(&t2)), ("server_state", what.to_string()), ("what", "a copy of the server repeated a nonce commitment of the original".into())]);
              }
            }
          }
          case(true);
          stat(&format!("c13.state.{}", what));
        }
      }
      // ... after a JSON round trip of the evaluation and with the reloaded public key
      let js = serde_json::to_string(&ev).unwrap();
      match serde_json::from_str::<Evaluation>(&js) {
        Err(e) => fail("evaluation_json_roundtrip", &[("json", js.clone()), ("err", e.to_string())]),
        Ok(ev2) => {
          if ev2.output != ev.output || !Client::verify(&pk2, &bp, &ev2, md) {
            fail("proof_rejected_after_roundtrip", &[("json", js.clone())]);
          }
        }
      }
      case(true);
      let (c, s) = proof_cs(ev.proof.as_ref().unwrap());
      // the commitment t2 = s*B + c*pk(md) is fresh for every request
      let pos = pk_entry_pos(&pkb, md).unwrap();
      let pkv = dec(&pkb[..32]) + dec(&pkb[pos + 1..pos + 33]);
      let t2 = (s * BASE + c * pkv).compress().as_bytes().to_vec();
      if !commitments.insert(t2.clone()) {
        fail("proof_nonce_repeated", &[("t2", hex(&t2))]);
      }
      if t2 == vec![0u8; 32] {
        fail("proof_nonce_zero", &[]);
      }
      case(true);
      // soundness matrix
      let h = Honest { pkb: pkb.clone(), inp: bp.as_bytes().to_vec(), out: ev.output.as_bytes().to_vec(), c, s, md };
      let mut others: Vec<(&'static str, &Honest)> = Vec::new();
      if let Some(o) = last.as_ref() {
        others.push(("xrequest", o));
      }
      if let Some(o) = xserver.as_ref() {
        others.push(("xserver", o));
      }
      for (label, vpk, vin, vout, vpr, vmd) in tamper_matrix(&mut g, &h, &others, &mds) {
        let a = verify_ans(&vpk, &vin, &vout, &vpr, vmd);
        stat(&format!("c13.tamper.{}", label));
        if a != "ok F" {
          fail(
            if a == "panic" { "verify_panicked" } else { "tampered_proof_accepted" },
            &[("tamper", label), ("pk", hex(&vpk)), ("input_point", hex(&vin)), ("output_point", hex(&vout)), ("proof", vpr.map(|(c, s)| format!("{}:{}", sch(&c), sch(&s))).unwrap_or("none".into())), ("md", vmd.to_string())],
          );
        }
        case(true);
      }
      // completeness holds for EVERY decodable request point, the identity (32 zero bytes) and the
      // base point included - the server answers them, so the client must accept the honest answer
      if input_no % 4 == 1 {
        for (what, pt) in [("the identity element", Point::from(&[0u8; 32][..])), ("the base point", Point::from(&BASE.compress().as_bytes()[..]))] {
          if let Ok(evx) = server.eval(&pt, md, true) {
            let ok = std::panic::catch_unwind(std::panic::AssertUnwindSafe(|| Client::verify(&pk, &pt, &evx, md)));
            if ok.as_ref().ok() != Some(&true) {
              fail("honest_proof_rejected", &[("request_point", what.to_string()), ("md", md.to_string()), ("mds", hex(&mds)), ("panicked", ok.is_err().to_string())]);
            }
            case(true);
            stat("c13.special_request_points");
          }
        }
      }
      // ONE blinded point evaluated verifiably under two tags, and the identical request repeated:
      // every proof has its own nonce commitment
      if let Some(&md2) = tags.iter().find(|&&t| t != md) {
        let mut local: Vec<(u8, Vec<u8>)> = Vec::new();
        for tag in [md, md2, md] {
          if let Ok(evx) = server.eval(&bp, tag, true) {
            let (cx, sx) = proof_cs(evx.proof.as_ref().unwrap());
            if let Some(pos) = pk_entry_pos(&pkb, tag) {
              let pkv = dec(&pkb[..32]) + dec(&pkb[pos + 1..pos + 33]);
              let t2 = (sx * BASE + cx * pkv).compress().as_bytes().to_vec();
              if !commitments.insert(t2.clone()) {
                fail("proof_nonce_repeated", &[("t2", hex(&t2)), ("what", format!("one blinded point evaluated under tags {:?} then {}: a nonce commitment repeats", local.iter().map(|x| x.0).collect::<Vec<_>>(), tag)), ("point", hex(bp.as_bytes()))]);
              }
              local.push((tag, t2));
            }
          }
        }
        case(true);
        stat("c13.one_point_many_tags");
      }
      // tampering at the level of proof BYTES: the same residues in a non-canonical encoding
      // (x + k*l) are different bytes and must not verify (refused at decoding or by verify)
      {
        const ELL: [u8; 32] = [0xed, 0xd3, 0xf5, 0x5c, 0x1a, 0x63, 0x12, 0x58, 0xd6, 0x9c, 0xf7, 0xa2, 0xde, 0xf9, 0xde, 0x14, 0, 0, 0, 0, 0, 0, 0, 0, 0, 0, 0, 0, 0, 0, 0, 0x10];
        let honest = ev.proof.as_ref().unwrap().serialize_to_bincode().unwrap();
        for (which, off) in [("c", 0usize), ("s", 32)] {
          for times in [1usize, 3] {
            let mut b = honest.clone();
            let mut ok = true;
            for _ in 0..times {
              let mut carry = 0u16;
              for i in 0..32 {
                let t = b[off + i] as u16 + ELL[i] as u16 + carry;
                b[off + i] = t as u8;
                carry = t >> 8;
              }
              ok &= carry == 0;
            }
            if !ok {
              continue;
            }
            let accepted = std::panic::catch_unwind(std::panic::AssertUnwindSafe(|| match ppoprf::ppoprf::ProofDLEQ::load_from_bincode(&b) {
              Ok(p2) => Client::verify(&pk, &bp, &Evaluation { output: ev.output.clone(), proof: Some(p2) }, md),
              Err(_) => false,
            }));
            stat("c13.tamper.noncanonical_scalar_bytes");
            if accepted.as_ref().ok() != Some(&false) {
              fail(
                if accepted.is_err() { "verify_panicked" } else { "tampered_proof_accepted" },
                &[("tamper", format!("proof bytes: scalar {} + {}*l (non-canonical encoding)", which, times)), ("proof_bytes", hex(&b)), ("honest_proof_bytes", hex(&honest)), ("md", md.to_string())],
              );
            }
            case(true);
          }
        }
      }
      // a non-verifiable evaluation never verifies
      if let Ok(ev0) = server.eval(&bp, md, false) {
        if ev0.proof.is_some() || verify_ans(&pkb, bp.as_bytes(), ev0.output.as_bytes(), &None, md) != "ok F" {
          fail("unproven_evaluation_accepted", &[]);
        }
        case(true);
      }
      if input_no == 3 {
        sample(&[("json", js), ("md", md.to_string()), ("pk", hex(&pkb))]);
      }
      last = Some(h);
    }
    if let Some(l) = last.as_ref() {
      if l.pkb == pkb {
        xserver = Some(Honest { pkb: l.pkb.clone(), inp: l.inp.clone(), out: l.out.clone(), c: l.c, s: l.s, md: l.md });
      }
    }
  }
  // a LONG run of proofs in one process (thousands: beyond any pool or counter a nonce source might
  // cycle through), all nonce commitments distinct
  {
    let server = Server::new(vec![9]).expect("Server::new");
    let pkb = server.get_public_key().serialize_to_bincode().unwrap();
    let pos = pk_entry_pos(&pkb, 9).unwrap();
    let pkv = dec(&pkb[..32]) + dec(&pkb[pos + 1..pos + 33]);
    let nrun = if q { 2300 } else { 9000 };
    let mut first: HashMap<Vec<u8>, usize> = HashMap::new();
    for i in 0..nrun {
      let (bp, _) = Client::blind(&(i as u32).to_le_bytes());
      let ev = server.eval(&bp, 9, true).expect("eval");
      let (c, s_) = proof_cs(ev.proof.as_ref().unwrap());
      let t2 = (s_ * BASE + c * pkv).compress().as_bytes().to_vec();
      if let Some(j) = first.insert(t2.clone(), i) {
        fail("proof_nonce_repeated", &[("t2", hex(&t2)), ("what", format!("proof #{} of a run of {} on one server repeats the nonce commitment of proof #{}", i, nrun, j))]);
        break;
      }
      if !commitments.insert(t2) {
        fail("proof_nonce_repeated", &[("what", format!("proof #{} of the long run repeats a nonce commitment made earlier in this process", i))]);
        break;
      }
    }
    case(true);
    stat_n("c13.long_run_proofs", nrun as u64);
  }
  // proofs made on several OS threads (unnamed spawn workers, and workers that share one name like a
  // runtime's pool): the k-th proof of every thread has its own nonce
  {
    let server = Server::new(vec![3, 4]).expect("Server::new");
    let pkb = server.get_public_key().serialize_to_bincode().unwrap();
    let pos = pk_entry_pos(&pkb, 3).unwrap();
    let pkv = dec(&pkb[..32]) + dec(&pkb[pos + 1..pos + 33]);
    for named in [false, true] {
      let hs: Vec<_> = (0..4)
        .map(|_| {
          let srv = server.clone();
          let b = std::thread::Builder::new();
          let b = if named { b.name("worker".into()) } else { b };
          b.spawn(move || {
            (0..3)
              .map(|i| {
                let (bp, _) = Client::blind(&[i as u8, 0x55]);
                let ev = srv.eval(&bp, 3, true).expect("eval");
                proof_cs(ev.proof.as_ref().unwrap())
              })
              .collect::<Vec<_>>()
          })
          .expect("spawn")
        })
        .collect();
      let mut seen: HashMap<Vec<u8>, (usize, usize)> = HashMap::new();
      for (ti, h) in hs.into_iter().enumerate() {
        for (k, (c, s_)) in h.join().expect("proof thread").into_iter().enumerate() {
          let t2 = (s_ * BASE + c * pkv).compress().as_bytes().to_vec();
          if let Some((tj, kj)) = seen.insert(t2.clone(), (ti, k)) {
            fail("proof_nonce_repeated", &[("t2", hex(&t2)), ("what", format!("proof #{} of {} thread {} repeats the nonce commitment of proof #{} of thread {}", k, if named { "same-named" } else { "unnamed" }, ti, kj, tj))]);
          }
          if !commitments.insert(t2) {
            fail("proof_nonce_repeated", &[("what", "a proof made on a worker thread repeats an earlier nonce commitment".into())]);
          }
        }
      }
      case(true);
      stat("c13.proofs_on_worker_threads");
    }
  }
  stat_n("c13.commitments", commitments.len() as u64);
}

/// what the oracle tracks about a server slot, independently of the implementation
struct Slot {
  server: Server,
  key_id: usize,
  registered: BTreeSet<u8>,
  punctured: BTreeSet<u8>,
}

fn expected_eval(slot: &Slot, point_ok: bool, md: u8) -> &'static str {
  if !point_ok {
    "err:BadPointEncoding"
  } else if !slot.registered.contains(&md) {
    "err:BadTag"
  } else if slot.punctured.contains(&md) {
    "err:NoPrefixFound"
  } else {
    "ok"
  }
}

pub fn c14(tier: &str, seed: u64) {
  let mut g = Sm::new(seed, "oracle.C14");
  let q = quick(tier);
  let (nh, nops) = if q { (60, 120) } else { (600, 600) };
  const NSLOTS: usize = 5;
  for h in 0..nh {
    let mut slots: Vec<Option<Slot>> = (0..NSLOTS).map(|_| None).collect();
    let mut next_key = 0usize;
    // per key: answers (point, tag) -> output, public key bytes
    let mut answers: HashMap<(usize, Vec<u8>, u8), Vec<u8>> = HashMap::new();
    let mut pks: BTreeMap<usize, Vec<u8>> = BTreeMap::new();
    let mut universe: Vec<u8> = Vec::new();
    let pool: Vec<Vec<u8>> = (0..4).map(|_| rand_point(&mut g).compress().as_bytes().to_vec()).collect();
    let mut trace: Vec<String> = Vec::new();
    // check one evaluation against the abstract state and the answer table
    let check_eval = |slot_i: usize, slot: &Slot, point: &[u8], md: u8, verifiable: bool, answers: &mut HashMap<(usize, Vec<u8>, u8), Vec<u8>>, trace: &Vec<String>, why: &str| {
      let point_ok = CompressedRistretto::from_slice(point).unwrap().decompress().is_some();
      let want = expected_eval(slot, point_ok, md);
      let (a, _, ev) = eval_ans(&slot.server, point, md, verifiable);
      let kind = a.split(' ').next().unwrap().to_string();
      if kind != want {
        fail("eval_outcome", &[("why", why.into()), ("slot", slot_i.to_string()), ("md", md.to_string()), ("want", want.into()), ("got", a.clone()), ("registered", format!("{:?}", slot.registered)), ("punctured", format!("{:?}", slot.punctured)), ("trace", trace.join(" "))]);
      }
      if let Some((out, proof)) = ev {
        let key = (slot.key_id, point.to_vec(), md);
        match answers.get(&key) {
          Some(prev) if *prev != out => {
            fail("answer_changed", &[("why", why.into()), ("slot", slot_i.to_string()), ("md", md.to_string()), ("point", hex(point)), ("before", hex(prev)), ("after", hex(&out)), ("trace", trace.join(" "))]);
          }
          Some(_) => stat("c14.answer_repeated"),
          None => {
            answers.insert(key, out.clone());
          }
        }
        if verifiable {
          let pkb = slot.server.get_public_key().serialize_to_bincode().unwrap();
          if verify_ans(&pkb, point, &out, &proof, md) != "ok T" {
            fail("proof_rejected_in_history", &[("slot", slot_i.to_string()), ("md", md.to_string()), ("trace", trace.join(" "))]);
          }
        }
      }
      case(true);
    };
    let nops = g.range(nops as u64 / 2, nops as u64) as usize;
    for step in 0..nops {
      let live: Vec<usize> = (0..NSLOTS).filter(|&i| slots[i].is_some()).collect();
      let op = if live.is_empty() || step == 0 { 0 } else { g.below(100) };
      if op < 4 {
        let i = g.below(NSLOTS as u64) as usize;
        let mut mds = gen_tagset(&mut g, 8);
        if h % 7 == 3 && step == 0 {
          mds = (0..=255u8).collect(); // every tag registered
        }
        let server = Server::new(mds.clone()).expect("Server::new");
        let pkb = server.get_public_key().serialize_to_bincode().unwrap();
        pks.insert(next_key, pkb);
        universe.extend(mds.iter());
        slots[i] = Some(Slot { server, key_id: next_key, registered: mds.iter().cloned().collect(), punctured: BTreeSet::new() });
        next_key += 1;
        trace.push(format!("new:{}:{}", i, hex(&mds)));
        stat("c14.op.new");
      } else if op < 55 {
        let i = *g.pick(&live);
        let md = match g.below(10) {
          0 => *g.pick(&[0u8, 255]),
          1 => g.below(256) as u8,
          2 if !universe.is_empty() => g.pick(&universe).wrapping_add(1),
          _ if !universe.is_empty() => *g.pick(&universe),
          _ => g.below(4) as u8,
        };
        let point = if g.chance(1, 15) { vec![0xffu8; 32] } else { g.pick(&pool).clone() };
        let v = g.chance(1, 4);
        trace.push(format!("ev:{}:{}", i, md));
        check_eval(i, slots[i].as_ref().unwrap(), &point, md, v, &mut answers, &trace, "eval");
        stat("c14.op.eval");
      } else if op < 78 {
        let i = *g.pick(&live);
        let md = match g.below(6) {
          0 => g.below(256) as u8,
          1 => *g.pick(&[0u8, 255]),
          _ if !universe.is_empty() => *g.pick(&universe),
          _ => g.below(4) as u8,
        };
        trace.push(format!("pu:{}:{}", i, md));
        let slot = slots[i].as_mut().unwrap();
        let want_ok = !slot.punctured.contains(&md);
        let r = slot.server.puncture(md);
        if r.is_ok() != want_ok {
          fail("puncture_outcome", &[("slot", i.to_string()), ("md", md.to_string()), ("want_ok", want_ok.to_string()), ("got", format!("{:?}", r.as_ref().map_err(err_kind))), ("trace", trace.join(" "))]);
        }
        if let Err(e) = r.as_ref() {
          if err_kind(e) != "NoPrefixFound" {
            fail("puncture_error_kind", &[("got", err_kind(e))]);
          }
          stat("c14.puncture.refused");
        } else {
          stat("c14.puncture.ok");
        }
        slot.punctured.insert(md);
        // the punctured tag is gone, every other tag answers as before, the public key is unchanged
        let slot = slots[i].as_ref().unwrap();
        let pt = g.pick(&pool).clone();
        check_eval(i, slot, &pt, md, false, &mut answers, &trace, "after_puncture_same_tag");
        let mut others: Vec<u8> = slot.registered.iter().cloned().filter(|t| *t != md).collect();
        g.shuffle(&mut others);
        for t in others.into_iter().take(if q { 4 } else { 8 }) {
          check_eval(i, slot, &pt, t, false, &mut answers, &trace, "after_puncture_other_tag");
        }
        for t in [md.wrapping_add(1), md.wrapping_sub(1), md ^ 0x80, md ^ 1] {
          check_eval(i, slot, &pt, t, false, &mut answers, &trace, "after_puncture_neighbour_tag");
        }
        if slot.server.get_public_key().serialize_to_bincode().unwrap() != pks[&slot.key_id] {
          fail("public_key_changed", &[("after", "puncture".into()), ("trace", trace.join(" "))]);
        }
        stat("c14.op.puncture");
      } else if op < 94 {
        let (src, dst) = (*g.pick(&live), g.below(NSLOTS as u64) as usize);
        let exported = op >= 86;
        // an import lands in the server already sitting in the destination slot (whatever key, tags
        // and punctures it has), when there is one
        let existing = if exported && dst != src { slots[dst].take().map(|x| x.server) } else { None };
        if existing.is_some() {
          stat("c14.op.import_into_used_server");
        }
        let s = slots[src].as_ref().unwrap();
        let copy = if exported {
          // the exporter's own state must always load (whatever the length of its history)
          match std::panic::catch_unwind(std::panic::AssertUnwindSafe(|| export_import_into(&s.server, existing))) {
            Ok(c) => c,
            Err(_) => {
              let bytes = bincode::serialize(&s.server.get_private_key()).map(|b| b.len()).unwrap_or(0);
              fail("key_state_import_failed", &[("what", "the key state exported by a server could not be imported (serialise / deserialise / set_private_key aborted)".into()), ("punctured_so_far", format!("{:?}", s.punctured)), ("exported_bytes", bytes.to_string()), ("trace", trace.join(" "))]);
              s.server.clone()
            }
          }
        } else {
          s.server.clone()
        };
        trace.push(format!("{}:{}:{}", if exported { "xi" } else { "cl" }, src, dst));
        let new_slot = Slot { server: copy, key_id: s.key_id, registered: s.registered.clone(), punctured: s.punctured.clone() };
        // indistinguishable at the moment of the copy: internal state, public key, every tag
        let (a, b) = (&s.server, &new_slot.server);
        if a.verif_pprf().verif_retained_nodes() != b.verif_pprf().verif_retained_nodes()
          || a.verif_pprf().verif_punctured() != b.verif_pprf().verif_punctured()
          || a.verif_pprf().verif_prg_keys() != b.verif_pprf().verif_prg_keys()
          || a.verif_oprf_key() != b.verif_oprf_key()
          || a.verif_pprf().verif_inp_len() != b.verif_pprf().verif_inp_len()
        {
          fail("copy_state_differs", &[("kind", if exported { "export_import" } else { "clone" }.into()), ("trace", trace.join(" "))]);
        }
        if a.get_public_key() != b.get_public_key() || b.get_public_key().serialize_to_bincode().unwrap() != pks[&s.key_id] {
          fail("public_key_changed", &[("after", "copy".into()), ("trace", trace.join(" "))]);
        }
        let pt = g.pick(&pool).clone();
        let mut probe: Vec<u8> = s.registered.iter().cloned().chain(s.punctured.iter().cloned()).collect();
        probe.push(g.below(256) as u8);
        if probe.len() > 24 {
          g.shuffle(&mut probe);
          probe.truncate(24);
        }
        for t in probe {
          let (x, _, _) = eval_ans(a, &pt, t, false);
          let (y, _, _) = eval_ans(b, &pt, t, false);
          if x != y {
            fail("copy_answers_differ", &[("kind", if exported { "export_import" } else { "clone" }.into()), ("md", t.to_string()), ("source", x), ("copy", y), ("trace", trace.join(" "))]);
          }
          check_eval(dst, &new_slot, &pt, t, false, &mut answers, &trace, "after_copy");
        }
        slots[dst] = Some(new_slot);
        stat(if exported { "c14.op.export_import" } else { "c14.op.clone" });
      } else {
        let i = *g.pick(&live);
        let s = slots[i].as_ref().unwrap();
        if s.server.get_public_key().serialize_to_bincode().unwrap() != pks[&s.key_id] {
          fail("public_key_changed", &[("after", "history".into()), ("trace", trace.join(" "))]);
        }
        case(true);
        stat("c14.op.get_public_key");
      }
    }
    // end of history: every slot against its abstract state, for every tag of the universe
    for i in 0..NSLOTS {
      if let Some(s) = slots[i].as_ref() {
        let pt = g.pick(&pool).clone();
        let mut tags: Vec<u8> = s.registered.iter().cloned().chain(s.punctured.iter().cloned()).collect();
        if tags.len() > 40 {
          g.shuffle(&mut tags);
          tags.truncate(40);
        }
        for t in tags {
          check_eval(i, s, &pt, t, false, &mut answers, &trace, "final_sweep");
        }
      }
    }
    if h == 2 {
      sample(&[("trace", trace.iter().take(30).cloned().collect::<Vec<_>>().join(" ")), ("keys", next_key.to_string()), ("answers", answers.len().to_string())]);
    }
  }
}
