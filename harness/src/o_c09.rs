//! C09 oracle: every function that consumes data from another party is run on malformed and
//! degenerate input under `catch_unwind`; a panic is the failing input.
use crate::oracle::*;
use crate::s_ppoprf::*;
use crate::s_star::*;
use crate::util::*;
use ppoprf::ppoprf::{Client, Evaluation, Point, ProofDLEQ, Server, ServerPublicKey};

fn no_panic<F: FnOnce() + std::panic::UnwindSafe>(entry: &str, input: &[(&str, String)], f: F) {
  if std::panic::catch_unwind(f).is_err() {
    let mut v = vec![("entry_point", entry.to_string())];
    v.extend(input.iter().map(|(k, s)| (*k, s.clone())));
    fail("panic_on_received_data", &v);
  }
  case(true);
  stat(&format!("oracle.entry.{}", entry));
}

pub fn c09(tier: &str, seed: u64) {
  let mut g = Sm::new(seed, "oracle.C09");
  // 1. decoders on the whole `wire` input family
  wire_inputs(tier, seed, &mut |kind, b| {
    let bb = b.to_vec();
    match kind {
      "sharks" => no_panic("star_sharks::Share::try_from", &[("bytes", hex(b))], move || {
        let _ = star_sharks::Share::try_from(&bb[..]);
      }),
      "adss" => no_panic("adss::Share::from_bytes", &[("bytes", hex(b))], move || {
        let _ = adss::Share::from_bytes(&bb);
      }),
      "msg" => no_panic("sta_rs::Message::from_bytes", &[("bytes", hex(b))], move || {
        let _ = sta_rs::Message::from_bytes(&bb);
      }),
      "load_bytes" => no_panic("adss::load_bytes", &[("bytes", hex(b))], move || {
        let _ = adss::load_bytes(&bb);
      }),
      "load_u32" => no_panic("adss::load_u32", &[("bytes", hex(b))], move || {
        let _ = adss::load_u32(&bb);
      }),
      _ => {}
    }
  });
  // every truncation length 0..8 and every length-header class, explicitly
  for l in 0..8usize {
    let b = vec![0xffu8; l];
    let (b1, b2, b3) = (b.clone(), b.clone(), b.clone());
    no_panic("adss::Share::from_bytes", &[("bytes", hex(&b))], move || {
      let _ = adss::Share::from_bytes(&b1);
    });
    no_panic("adss::load_bytes", &[("bytes", hex(&b))], move || {
      let _ = adss::load_bytes(&b2);
    });
    no_panic("sta_rs::Message::from_bytes", &[("bytes", hex(&b))], move || {
      let _ = sta_rs::Message::from_bytes(&b3);
    });
  }
  for hdr in [0u32, 1, 0x7fff_ffff, 0x8000_0000, 0xffff_fffb, 0xffff_fffc, 0xffff_fffd, 0xffff_fffe, 0xffff_ffff] {
    for extra in [0usize, 1, 4, 100] {
      let mut b = hdr.to_le_bytes().to_vec();
      b.extend(vec![7u8; extra]);
      let (b1, b2) = (b.clone(), b.clone());
      no_panic("adss::load_bytes", &[("bytes", hex(&b))], move || {
        let _ = adss::load_bytes(&b1);
      });
      let mut sb = 3u32.to_le_bytes().to_vec();
      sb.extend(&b2);
      no_panic("adss::Share::from_bytes", &[("bytes", hex(&sb))], move || {
        let _ = adss::Share::from_bytes(&sb);
      });
    }
  }
  // 2. share recovery on structurally valid but degenerate shares
  let n = if quick(tier) { 60 } else { 1500 };
  for _ in 0..n {
    let t = g.range(1, 6) as u32;
    let c = make_client(&g.blob(5), &g.blob(2), t, None, None);
    let base = c.msg.share.to_bytes();
    let mut bs: Vec<Vec<u8>> = Vec::new();
    for _ in 0..g.range(1, 4) {
      let mut b = base.clone();
      match g.below(6) {
        0 => {
          // share without y-coordinates
          let s_len = u32::from_le_bytes(b[4..8].try_into().unwrap()) as usize;
          let tail = b.split_off(8 + s_len);
          b.truncate(8 + 24);
          b[4..8].copy_from_slice(&24u32.to_le_bytes());
          b.extend(tail);
        }
        1 => b[..4].copy_from_slice(&0u32.to_le_bytes()),
        2 => b[..4].copy_from_slice(&u32::MAX.to_le_bytes()),
        3 => {
          // two y-coordinates (ragged against the others)
          let s_len = u32::from_le_bytes(b[4..8].try_into().unwrap()) as usize;
          let tail = b.split_off(8 + s_len);
          let y = b[32..56].to_vec();
          b.extend(y);
          b[4..8].copy_from_slice(&((s_len + 24) as u32).to_le_bytes());
          b.extend(tail);
        }
        4 => {
          // empty C and D
          let f = share_len_fields(&b);
          let j = b[b.len() - 64..].to_vec();
          b.truncate(f[2]);
          b.extend(0u32.to_le_bytes());
          b.extend(0u32.to_le_bytes());
          b.extend(j);
        }
        _ => {}
      }
      bs.push(b);
    }
    let parsed: Option<Vec<sta_rs::Share>> = bs.iter().map(|b| sta_rs::Share::from_bytes(b)).collect();
    if let Some(p) = parsed {
      let hs = hexlist(&bs);
      no_panic("sta_rs::share_recover", &[("shares", hs)], move || {
        let _ = sta_rs::share_recover(&p);
      });
    }
  }
  // 2b. well-formed shares whose COORDINATES are extreme but valid field elements (0, 1, p-1, 2^64,
  //     2^128, another share's point) in the first / second / last position: interpolation divides
  //     by differences and products of the points it is given
  {
    use crate::s_fp::le24;
    let special: Vec<[u8; 24]> = vec![le24(0, 0), le24(1, 0), le24(12450, 1), le24(1u128 << 64, 0), le24(0, 1), le24(u128::MAX, 0), le24(2, 0)];
    for round in 0..(if quick(tier) { 40 } else { 600 }) {
      let t = g.range(1, 5) as u32;
      let (m, e) = (g.blob(5), g.blob(2));
      let mut bs: Vec<Vec<u8>> = (0..t + 1).map(|_| make_client(&m, &e, t, None, None).msg.share.to_bytes()).collect();
      let npos = g.range(1, 2) as usize;
      for _ in 0..npos {
        let pos = *g.pick(&[0usize, 1, t as usize]) % bs.len();
        let v = if round % 7 == 3 { bs[(pos + 1) % bs.len()][8..32].to_vec() } else { g.pick(&special).to_vec() };
        // x coordinate, or (less often) the first y coordinate
        let off = if g.chance(3, 4) { 8 } else { 32 };
        bs[pos][off..off + 24].copy_from_slice(&v);
      }
      if g.chance(1, 3) {
        bs.truncate(t as usize);
      }
      let parsed: Option<Vec<sta_rs::Share>> = bs.iter().map(|b| sta_rs::Share::from_bytes(b)).collect();
      if let Some(p) = parsed {
        let hs = hexlist(&bs);
        no_panic("sta_rs::share_recover", &[("shares", hs), ("what", "extreme but valid coordinates".into())], move || {
          let _ = sta_rs::share_recover(&p);
        });
        stat("oracle.recover.extreme_coordinates");
      }
      // the sharks layer directly, points only
      let k = g.range(1, 4) as usize;
      let mut raw: Vec<Vec<u8>> = Vec::new();
      for _ in 0..k {
        let mut b = g.pick(&special).to_vec();
        b.extend(g.pick(&special).to_vec());
        raw.push(b);
      }
      let shs: Vec<star_sharks::Share> = raw.iter().map(|b| star_sharks::Share::try_from(&b[..]).unwrap()).collect();
      let tt = g.range(0, k as u64 + 1) as u32;
      no_panic("star_sharks::Sharks::recover", &[("threshold", tt.to_string()), ("shares", hexlist(&raw))], move || {
        let _ = star_sharks::Sharks(tt).recover(&shs);
      });
    }
  }
  // 2c. EXACTLY threshold-many shares (and threshold + 1) of which one has another number of
  //     y-coordinates (none / one too many), in every position: the count gate and the length gate
  //     must agree about which shares count
  for t in 1..=4u32 {
    for extra in 0..2usize {
      for pos in 0..(t as usize + extra) {
        for kind in 0..2 {
          let (m, e) = (g.blob(4), g.blob(1));
          let mut bs: Vec<Vec<u8>> = (0..t as usize + extra).map(|_| make_client(&m, &e, t, None, None).msg.share.to_bytes()).collect();
          let b = &mut bs[pos];
          let s_len = u32::from_le_bytes(b[4..8].try_into().unwrap()) as usize;
          let tail = b.split_off(8 + s_len);
          if kind == 0 {
            b.truncate(8 + 24);
            b[4..8].copy_from_slice(&24u32.to_le_bytes());
          } else {
            let y = b[32..56].to_vec();
            b.extend(y);
            b[4..8].copy_from_slice(&((s_len + 24) as u32).to_le_bytes());
          }
          b.extend(tail);
          let parsed: Option<Vec<sta_rs::Share>> = bs.iter().map(|b| sta_rs::Share::from_bytes(b)).collect();
          if let Some(p) = parsed {
            let hs = hexlist(&bs);
            no_panic("sta_rs::share_recover", &[("shares", hs), ("what", format!("threshold {} with {} shares, share {} has {}", t, t as usize + extra, pos, if kind == 0 { "no y-coordinate" } else { "one y-coordinate too many" }))], move || {
              let _ = sta_rs::share_recover(&p);
            });
            stat("oracle.recover.one_stray_length_at_the_count_boundary");
          }
        }
      }
    }
  }
  no_panic("sta_rs::share_recover", &[("shares", "(empty)".into())], || {
    let _ = sta_rs::share_recover(&[]);
  });
  // 3. public keys and proofs
  let server = Server::new(vec![0, 1, 7, 255]).unwrap();
  let pkb = server.get_public_key().serialize_to_bincode().unwrap();
  let m = if quick(tier) { 300 } else { 6000 };
  for i in 0..m {
    let b: Vec<u8> = match i % 5 {
      0 => pkb[..g.below(pkb.len() as u64 + 1) as usize].to_vec(),
      1 => {
        let mut b = pkb.clone();
        let o = g.below(b.len() as u64) as usize;
        b[o] = g.next() as u8;
        b
      }
      2 => {
        let mut b = pkb.clone();
        b[32..40].copy_from_slice(&[0xff; 8][..]);
        if g.chance(1, 2) {
          b[32..40].copy_from_slice(&(g.next() % 100000).to_le_bytes());
        }
        b
      }
      3 => { let n = *g.pick(&[0usize, 1, 31, 32, 39, 40, 41, 73, 16384, 16385]); g.bytes(n) }
      _ => { let n = g.below(200) as usize; g.bytes(n) }
    };
    let (b1, b2) = (b.clone(), b.clone());
    no_panic("ServerPublicKey::load_from_bincode", &[("bytes", hex(&b[..b.len().min(120)])), ("len", b.len().to_string())], move || {
      let _ = ServerPublicKey::load_from_bincode(&b1);
    });
    no_panic("ProofDLEQ::load_from_bincode", &[("bytes", hex(&b[..b.len().min(120)])), ("len", b.len().to_string())], move || {
      let _ = ProofDLEQ::load_from_bincode(&b2);
    });
  }
  // 4. evaluation of a blinded point: arbitrary 32-byte strings as points, any tag, both modes
  for _ in 0..(if quick(tier) { 200 } else { 4000 }) {
    let pt: Vec<u8> = match g.below(4) {
      0 => vec![0u8; 32],
      1 => vec![0xff; 32],
      2 => Client::blind(&g.bytes(4)).0.as_bytes().to_vec(),
      _ => g.bytes(32),
    };
    let md = *g.pick(&[0u8, 1, 2, 7, 8, 254, 255]);
    let v = g.chance(1, 2);
    let srv = server.clone();
    let p = Point::from(&pt[..]);
    no_panic("Server::eval", &[("point", hex(&pt)), ("md", md.to_string()), ("verifiable", v.to_string())], move || {
      let _ = srv.eval(&p, md, v);
    });
  }
  // 4b. ... and on a server with a HISTORY: registered tags that were punctured (still listed in the
  //     public key), punctured twice, unregistered tags punctured - every request is answered or
  //     refused through the result
  {
    let mut srv = Server::new(vec![0, 1, 7, 8, 255]).unwrap();
    let mut log = String::from("new:0001070 8ff");
    for (i, md) in [7u8, 7, 200, 255, 0].iter().enumerate() {
      let s2 = std::panic::AssertUnwindSafe(&mut srv);
      if std::panic::catch_unwind(move || { let s2 = s2; let _ = s2.0.puncture(*md); }).is_err() {
        fail("panic_on_received_data", &[("entry_point", "Server::puncture".into()), ("history", log.clone()), ("md", md.to_string())]);
      }
      log.push_str(&format!(" pu:{}", md));
      for q in [0u8, 1, 7, 8, 200, 255] {
        for v in [false, true] {
          let p = if (i + q as usize) % 3 == 0 { Point::from(&[0xffu8; 32][..]) } else { Client::blind(&[q]).0 };
          let s3 = srv.clone();
          no_panic("Server::eval", &[("history", log.clone()), ("md", q.to_string()), ("verifiable", v.to_string())], move || {
            let _ = s3.eval(&p, q, v);
          });
        }
      }
    }
  }
  // 5. verification: undecodable group elements in every position of evaluation / public key,
  //    missing proofs
  let (blinded, _r) = Client::blind(b"input");
  let honest = server.eval(&blinded, 7, true).unwrap();
  let (hc, hs) = proof_cs(honest.proof.as_ref().unwrap());
  let bad_points: Vec<Vec<u8>> = vec![vec![0xff; 32], { let mut b = vec![0u8; 32]; b[0] = 1; b }, g.bytes(32), vec![0x80; 32]];
  for bp in &bad_points {
    // position: output, input, base_pk, each md_pk
    let mut variants: Vec<(String, Vec<u8>, Vec<u8>, Vec<u8>, bool)> = vec![
      ("output".into(), pkb.clone(), blinded.as_bytes().to_vec(), bp.clone(), true),
      ("input".into(), pkb.clone(), bp.clone(), honest.output.as_bytes().to_vec(), true),
      ("missing_proof".into(), pkb.clone(), blinded.as_bytes().to_vec(), honest.output.as_bytes().to_vec(), false),
    ];
    let mut pk_base = pkb.clone();
    pk_base[..32].copy_from_slice(bp);
    variants.push(("base_pk".into(), pk_base, blinded.as_bytes().to_vec(), honest.output.as_bytes().to_vec(), true));
    for md in [0u8, 1, 7, 255] {
      if let Some(pos) = pk_entry_pos(&pkb, md) {
        let mut b = pkb.clone();
        b[pos..pos + 32].copy_from_slice(bp);
        variants.push((format!("md_pk[{}]", md), b, blinded.as_bytes().to_vec(), honest.output.as_bytes().to_vec(), true));
      }
    }
    for (what, pkv, inp, out, with_proof) in variants {
      if let Ok(pk) = ServerPublicKey::load_from_bincode(&pkv) {
        for md in [0u8, 7, 9] {
          let ev = Evaluation { output: Point::from(&out[..]), proof: if with_proof { Some(make_proof(&hc, &hs)) } else { None } };
          let ip = Point::from(&inp[..]);
          let pk2 = pk.clone();
          no_panic("Client::verify", &[("bad_position", what.clone()), ("bad_bytes", hex(bp)), ("md", md.to_string())], move || {
            let _ = Client::verify(&pk2, &ip, &ev, md);
          });
        }
      }
    }
  }
  // 6. the WASM grouping call
  let c = make_client(b"m", b"e", 2, None, None);
  use base64::{engine::Engine as _, prelude::BASE64_STANDARD};
  let good = BASE64_STANDARD.encode(c.msg.share.to_bytes());
  let mut junk: Vec<String> = vec![
    "".into(),
    "\n".into(),
    "!!!not base64!!!".into(),
    "AAAA".into(),
    "AA==".into(),
    format!("{}\n", good),
    format!("{}\n{}", good, "===="),
    format!("{}\r\n{}", good, good),
    BASE64_STANDARD.encode([1u8, 2, 3]),
    BASE64_STANDARD.encode(vec![0u8; 200]),
    good[..good.len() - 3].to_string(),
  ];
  // a share without y-coordinates, base64-encoded
  {
    let mut b = c.msg.share.to_bytes();
    let s_len = u32::from_le_bytes(b[4..8].try_into().unwrap()) as usize;
    let tail = b.split_off(8 + s_len);
    b.truncate(8 + 24);
    b[4..8].copy_from_slice(&24u32.to_le_bytes());
    b.extend(tail);
    junk.push(BASE64_STANDARD.encode(&b));
  }
  for _ in 0..(if quick(tier) { 40 } else { 800 }) {
    let n = g.below(60) as usize;
    junk.push(String::from_utf8_lossy(&g.blob(n)).to_string());
  }
  // valid ADSS share sets (recovery succeeds, MAC verifies) with messages and coins of any length:
  // what the grouping call does AFTER a successful recovery must not assume a STAR client's sizes
  for ml in [0usize, 1, 16, 31, 32, 33, 64, 200] {
    for rl in [0usize, 32, 33] {
      let t = g.range(1, 3) as u32;
      let c = adss::Commune::new(t, g.blob(ml), g.blob(rl), None);
      let v: Vec<String> = (0..t + 1).map(|_| BASE64_STANDARD.encode(c.clone().share().expect("share").to_bytes())).collect();
      junk.push(v.join("\n"));
      stat("oracle.group_shares.valid_adss_sets_of_other_sizes");
    }
  }
  // lines of DIFFERENT lengths after a well-formed first line: a share with bytes after its MAC, a run
  // of 'A's, 260+ characters of anything, and a short well-formed share (empty C and D) in front
  {
    let mut longer = c.msg.share.to_bytes();
    longer.extend([0u8; 6]);
    let short_first = adss::Commune::new(2, vec![], vec![], None).share().expect("share").to_bytes();
    for later in [BASE64_STANDARD.encode(&longer), "A".repeat(260), "A".repeat(256), "!".repeat(300), BASE64_STANDARD.encode(vec![0xffu8; 400])] {
      junk.push(format!("{}\n{}", good, later));
      junk.push(format!("{}\n{}\n{}", good, good, later));
    }
    junk.push(format!("{}\n{}\n{}", BASE64_STANDARD.encode(&short_first), good, good));
    stat("oracle.group_shares.lines_of_different_lengths");
  }
  for s in junk {
    let s2 = s.clone();
    no_panic("star_wasm::group_shares", &[("serialized_shares", s.clone())], move || {
      let _ = star_wasm::group_shares(&s2, "e");
    });
  }
  sample(&[("entry_points", "try_from, from_bytes x3, load_bytes, load_u32, share_recover, pk/proof load_from_bincode, Server::eval, Client::verify, group_shares".into())]);
}
