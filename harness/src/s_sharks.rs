//! `sharks` stream: dealer / evaluator / recovery through the public API with a scripted RNG.
use crate::s_fp::{fp_of, lattice, le24};
use crate::util::*;
use star_sharks::{Share, Sharks};
use std::convert::TryFrom;

/// `RngCore` over the harness' SplitMix64 (mirrored in the Lean driver)
pub struct SmRng(pub Sm);
impl rand_core::RngCore for SmRng {
  fn next_u32(&mut self) -> u32 {
    self.0.next() as u32
  }
  fn next_u64(&mut self) -> u64 {
    self.0.next()
  }
  fn fill_bytes(&mut self, d: &mut [u8]) {
    rand_core::impls::fill_bytes_via_next(self, d)
  }
  fn try_fill_bytes(&mut self, d: &mut [u8]) -> Result<(), rand_core::Error> {
    self.fill_bytes(d);
    Ok(())
  }
}

pub fn share_bytes(s: &Share) -> Vec<u8> {
  Vec::from(s)
}

fn secret_elem(g: &mut Sm, lat: &[[u8; 24]]) -> Vec<u8> {
  match g.below(4) {
    0 => lat[g.below(lat.len() as u64) as usize].to_vec(),
    1 => le24(12451 + g.below(2) as u128, 1).to_vec(), // p, p+1: out of range
    _ => {
      let mut b = g.bytes(24);
      for k in 17..24 {
        b[k] = 0;
      }
      b[16] &= 1;
      b
    }
  }
}

pub fn recover_ans(t: u32, shares: &[Share]) -> String {
  guarded(|| match Sharks(t).recover(shares) {
    Ok(v) => format!("ok {}", hex(&v)),
    Err(_) => "err".into(),
  })
}

pub fn run(tier: &str, seed: u64) {
  let mut g = Sm::new(seed, "sharks");
  let lat: Vec<[u8; 24]> = lattice().into_iter().filter(|b| fp_of(b).is_some()).collect();
  let n = if quick(tier) { 60 } else { 1200 };
  for case in 0..n {
    let t: u32 = match case % 8 {
      0 => 0,
      1 => 1,
      2 => 2,
      3 => g.range(3, 8) as u32,
      4 => g.range(9, 40) as u32,
      5 if !quick(tier) => g.range(100, 600) as u32,
      _ => g.range(1, 20) as u32,
    };
    let k = g.below(if quick(tier) { 4 } else { 17 }) as usize;
    let mut secret = Vec::new();
    let bad = g.chance(1, 8);
    for _ in 0..k {
      let mut e = secret_elem(&mut g, &lat);
      if !bad && fp_of(<&[u8; 24]>::try_from(&e[..]).unwrap()).is_none() {
        e = le24(g.next() as u128, 0).to_vec();
      }
      secret.extend(e);
    }
    // trailing partial chunk (ignored by the dealer)
    let extra = *g.pick(&[0usize, 0, 1, 8, 23]);
    let e_ = g.bytes(extra);
    secret.extend(e_);
    // script: some candidates rejected, zero draws for gen
    let mut script = Vec::new();
    if g.chance(1, 3) {
      script.extend([g.next() | 12451, g.next() | 1, g.next() | 1]);
    }
    // a coefficient draw that IS the zero element, at a chosen position (the leading coefficient of
    // the first polynomial, of a later one, or any other): dealt as drawn, never replaced
    if g.chance(1, 3) && t >= 2 && k >= 1 {
      let per = t as u64 - 1;
      let pos = match g.below(3) {
        0 => 0,
        1 => per * g.below(k as u64),
        _ => g.below((per * k as u64).min(64)),
      };
      if pos < 64 {
        script.clear();
        for j in 0..=pos {
          if j == pos {
            script.extend([0, 0, g.next() << 1]);
          } else {
            script.extend([g.next(), g.next(), g.next() & !1]);
          }
        }
        stat("sharks.deal.zero_coefficient_draw");
      }
    }
    let mut rng = ScriptRng::new(script, g.next());
    let nnext = g.range(0, (t as u64 + 2).min(if quick(tier) { 12 } else { 40 })) as usize;
    let ngen = g.range(0, 3) as usize;
    let sharks_ = Sharks(t);
    let res = sharks_.dealer_rng(&secret, &mut rng);
    let (ans, shares) = match res {
      Err(_) => {
        stat("sharks.deal.refused");
        ("err".to_string(), vec![])
      }
      Ok(mut ev) => {
        let mut shares: Vec<Share> = Vec::new();
        for _ in 0..nnext {
          shares.push(ev.next().unwrap());
        }
        // make gen face zero draws: a RUN of 1..8 consecutive zero candidates (raw limbs (0, 0, even):
        // the top limb is masked to one bit) - gen must keep resampling however long the run is
        if g.chance(1, 2) {
          rng.script.truncate(rng.used);
          for _ in 0..g.range(1, 8) {
            rng.script.extend([0, 0, g.next() << 1]);
          }
          stat("sharks.gen.zero_runs");
        }
        for _ in 0..ngen {
          shares.push(ev.gen(&mut rng));
        }
        stat("sharks.deal.ok");
        let hs: Vec<String> = shares.iter().map(|s| hex(&share_bytes(s))).collect();
        (format!("ok {}", if hs.is_empty() { "-".to_string() } else { hs.join(",") }), shares)
      }
    };
    emit(&format!("sharks.deal {} {} {} {} {}", t, hex(&secret), rng.words_hex(), nnext, ngen), &ans);
    stat(&format!("sharks.threshold_bucket.{}", if t < 2 { "0-1" } else if t < 10 { "2-9" } else if t < 100 { "10-99" } else { "100+" }));

    // recovery from selections of those shares: subsets, permutations, duplicates, surplus
    if !shares.is_empty() {
      for _ in 0..3 {
        let mut sel: Vec<Share> = Vec::new();
        let cnt = g.range(0, shares.len() as u64 + 2) as usize;
        for _ in 0..cnt {
          sel.push(g.pick(&shares).clone());
        }
        if g.chance(1, 2) {
          sel = shares.clone();
          g.shuffle(&mut sel);
          if g.chance(1, 2) && !sel.is_empty() {
            let d = sel[0].clone();
            sel.insert(g.below(sel.len() as u64) as usize, d);
          }
        }
        // a share of another length now and then
        if g.chance(1, 6) {
          let mut odd = g.pick(&shares).clone();
          odd.y.push(odd.x);
          let pos = g.below(sel.len() as u64 + 1) as usize;
          sel.insert(pos, odd);
        }
        let tt = if g.chance(1, 5) { g.range(0, t as u64 + 2) as u32 } else { t };
        let hs: Vec<String> = sel.iter().map(|s| hex(&share_bytes(s))).collect();
        let ans = recover_ans(tt, &sel);
        stat(if ans.starts_with("ok") { "sharks.recover.ok" } else { "sharks.recover.err" });
        emit(&format!("sharks.recover {} {}", tt, if hs.is_empty() { "".to_string() } else { hs.join(",") }), &ans);
      }
    }
  }
  // the Evaluator through the whole Iterator API (nth / skip / step_by / take), also on a dealer
  // that has already handed out shares: the k-th item must be the point after the previous one
  for _ in 0..(if quick(tier) { 40 } else { 600 }) {
    let t = g.range(1, 6) as u32;
    let sd = g.next();
    let mut rng = SmRng(Sm(sd));
    let secret = le24(g.next() as u128, 0).to_vec();
    let sharks_ = Sharks(t);
    let mut ev = sharks_.dealer_rng(&secret, &mut rng).unwrap();
    let mut toks = Vec::new();
    let mut shares: Vec<Share> = Vec::new();
    for _ in 0..g.range(1, 4) {
      match g.below(5) {
        0 => {
          toks.push("next".to_string());
          shares.push(ev.next().unwrap());
        }
        1 => {
          let n = g.below(4) as usize;
          toks.push(format!("nth:{}", n));
          shares.push(ev.nth(n).unwrap());
        }
        2 => {
          let (n, c) = (g.below(4) as usize, g.range(1, 3) as usize);
          toks.push(format!("skip:{}:{}", n, c));
          shares.extend(ev.by_ref().skip(n).take(c));
        }
        3 => {
          let (st, c) = (g.range(1, 3) as usize, g.range(1, 3) as usize);
          toks.push(format!("step:{}:{}", st, c));
          shares.extend(ev.by_ref().step_by(st).take(c));
        }
        _ => {
          let c = g.range(1, 3) as usize;
          toks.push(format!("take:{}", c));
          shares.extend(ev.by_ref().take(c));
        }
      }
    }
    let hs: Vec<String> = shares.iter().map(|s| hex(&share_bytes(s))).collect();
    emit(&format!("sharks.iter {} {} {} {}", t, hex(&secret), sd, toks.join(",")), &format!("ok {}", hs.join(",")));
    stat("sharks.iterator_api");
  }
  // the public free functions: interpolate (raw: no dedup, no length check), random_polynomial,
  // get_evaluator
  {
    let special: Vec<[u8; 24]> = vec![le24(0, 0), le24(1, 0), le24(2, 0), le24(12450, 1), le24(1u128 << 64, 0), le24(0, 1)];
    for _ in 0..(if quick(tier) { 60 } else { 1500 }) {
      let cnt = g.range(0, 5) as usize;
      let ylen = g.range(0, 3) as usize;
      let mut raw: Vec<Vec<u8>> = Vec::new();
      for i in 0..cnt {
        let mut b = Vec::new();
        b.extend(if g.chance(1, 2) { g.pick(&special).to_vec() } else { le24(g.next() as u128 | ((g.next() as u128) << 64), 0).to_vec() });
        // ragged now and then: a later share shorter / longer than the first
        let yl = if i > 0 && g.chance(1, 8) { if g.chance(1, 2) { ylen.saturating_sub(1) } else { ylen + 1 } } else { ylen };
        for _ in 0..yl {
          b.extend(if g.chance(1, 3) { g.pick(&special).to_vec() } else { le24(g.next() as u128 | ((g.next() as u128) << 64), 0).to_vec() });
        }
        raw.push(b);
      }
      if cnt > 1 && g.chance(1, 4) {
        raw[1] = raw[0].clone();
      }
      let shs: Vec<Share> = raw.iter().map(|b| Share::try_from(&b[..]).unwrap()).collect();
      let ans = match std::panic::catch_unwind(std::panic::AssertUnwindSafe(|| star_sharks::interpolate(&shs))) {
        Err(_) => "panic".to_string(),
        Ok(Err(_)) => "err".to_string(),
        Ok(Ok(v)) => format!("ok {}", if v.is_empty() { "-".to_string() } else { hex(&v) }),
      };
      stat(&format!("sharks.interpolate.{}", ans.split(' ').next().unwrap()));
      let hs: Vec<String> = raw.iter().map(|b| hex(b)).collect();
      emit(format!("sharks.interp {}", hs.join(",")).trim_end(), &ans);
    }
    for i in 0..(if quick(tier) { 20 } else { 300 }) {
      let k = *g.pick(&[0u32, 1, 2, 3, 5, 17]);
      let sd = g.next();
      let s = if i % 3 == 0 { *g.pick(&special) } else { le24(g.next() as u128, 0) };
      let mut rng = SmRng(Sm(sd));
      let poly = star_sharks::random_polynomial(fp_of(&s).unwrap(), k, &mut rng);
      let cs: Vec<String> = poly.iter().map(|c| hex(&crate::s_fp::repr(c))).collect();
      emit(&format!("sharks.rpoly {} {} {}", hex(&s), k, sd), &format!("ok {}", cs.join(",")));
      stat("sharks.random_polynomial");
      // get_evaluator on caller-made polynomials (any degree, also unequal degrees and empty ones)
      let np = g.range(1, 3) as usize;
      let mut polys: Vec<Vec<star_sharks::Fp>> = Vec::new();
      let mut toks: Vec<String> = Vec::new();
      for _ in 0..np {
        let deg = g.range(1, 4) as usize;
        let cs: Vec<[u8; 24]> = (0..deg).map(|_| if g.chance(1, 3) { *g.pick(&special) } else { le24(g.next() as u128 | ((g.next() as u128) << 64), 0) }).collect();
        toks.push(cs.iter().map(|c| hex(c)).collect::<Vec<_>>().join(","));
        polys.push(cs.iter().map(|c| fp_of(c).unwrap()).collect());
      }
      let mut ev = star_sharks::get_evaluator(polys);
      let n = g.range(1, 4) as usize;
      let shares: Vec<Share> = (0..n).map(|_| ev.next().unwrap()).collect();
      let hs: Vec<String> = shares.iter().map(|s| hex(&share_bytes(s))).collect();
      emit(&format!("sharks.geteval {} {}", toks.join("|"), n), &format!("ok {}", hs.join(",")));
      stat("sharks.get_evaluator");
    }
  }
  // thresholds at integer-width boundaries (2^8, 2^16): the RNG is a SplitMix64 stream identified by
  // its seed (the driver runs the same generator), so no word list has to be transmitted
  let bounds: &[u32] = if quick(tier) { &[255, 256, 257, 65535, 65536, 65537] } else { &[255, 256, 257, 1023, 1024, 4095, 4096, 65535, 65536, 65537, 65538, 131072, 131073] };
  for &t in bounds {
    let sd = g.next();
    let mut rng = SmRng(Sm(sd));
    let secret = le24(g.next() as u128, 0).to_vec();
    let sharks_ = Sharks(t);
    let mut ev = sharks_.dealer_rng(&secret, &mut rng).unwrap();
    let shares: Vec<Share> = (0..3).map(|_| ev.next().unwrap()).collect();
    let hs: Vec<String> = shares.iter().map(|s| hex(&share_bytes(s))).collect();
    emit(&format!("sharks.dealsm {} {} {} 3", t, hex(&secret), sd), &format!("ok {}", hs.join(",")));
    stat("sharks.boundary_thresholds");
  }
  // recover on hand-made shares (arbitrary points, not on any polynomial). The x-coordinates come
  // mostly from a small pool of RELATED values (equal modulo 2^64 / 2^128, adjacent, negatives of
  // each other) so that any dedup / comparison shortcut on a truncated or transformed key shows.
  let mut pool: Vec<[u8; 24]> = vec![le24(0, 0)]; // x = 0 is a decodable share point
  for d in 1..4u128 {
    pool.push(le24(d, 0));
    pool.push(le24(d, 1)); // d + 2^128
    pool.push(le24((1u128 << 64) + d, 0));
    pool.push(le24((1u128 << 127) + d, 0));
    pool.push(le24(12451 - d, 1)); // p - d
    pool.push(le24(d << 64, 0));
  }
  for _ in 0..(if quick(tier) { 120 } else { 3000 }) {
    let cnt = g.range(0, 6) as usize;
    let ylen = g.range(0, 3) as usize;
    let mut sel = Vec::new();
    for _ in 0..cnt {
      let mut b = Vec::new();
      let yl = if g.chance(1, 8) { ylen + 1 } else { ylen };
      // x
      b.extend(if g.chance(2, 3) { g.pick(&pool).to_vec() } else if g.chance(1, 2) { g.pick(&lat).to_vec() } else { le24(g.next() as u128 | ((g.next() as u128) << 64), 0).to_vec() });
      for _ in 0..yl {
        b.extend(if g.chance(1, 3) { g.pick(&lat).to_vec() } else { le24(g.next() as u128 | ((g.next() as u128) << 64), 0).to_vec() });
      }
      sel.push(Share::try_from(&b[..]).unwrap());
    }
    if cnt > 1 && g.chance(1, 3) {
      sel[1] = sel[0].clone();
    }
    let distinct = sel.iter().map(|s| share_bytes(s)[..24].to_vec()).collect::<std::collections::BTreeSet<_>>().len();
    // thresholds around the number of distinct points: exactly-enough is where a wrong dedup shows
    let t = if g.chance(2, 3) { distinct as u32 } else { g.range(0, cnt as u64 + 1) as u32 };
    let hs: Vec<String> = sel.iter().map(|s| hex(&share_bytes(s))).collect();
    stat(if distinct < cnt { "sharks.handmade.with_repeats" } else { "sharks.handmade.all_distinct" });
    emit(&format!("sharks.recover {} {}", t, hs.join(",")), &recover_ans(t, &sel));
  }
}
