//! `wire`, `adss`, `star` streams: codecs, ADSS sharing/recovery and report generation.
use crate::util::*;
use adss::{recover, Commune, Share as AShare};
use sta_rs::{derive_ske_key, share_recover, AssociatedData, Ciphertext, Message, MessageGenerator, SingleMeasurement};
use strobe_rs::{SecParam, Strobe};

pub const LENS: &[usize] = &[0, 1, 2, 15, 16, 17, 23, 24, 25, 31, 32, 33, 161, 162, 165, 166, 167, 200, 331, 332, 333];

/// machine-size lengths: powers of two and multiples of a 4 KiB page (streaming / chunked /
/// buffered code paths change behaviour exactly there), each also one below and one above
pub const PAGE_LENS: &[usize] = &[255, 256, 257, 512, 1024, 2048, 4095, 4096, 4097, 8192, 12288, 16384, 32768, 65536];

pub fn gen_page_len(g: &mut Sm, max: usize) -> usize {
  let mut l = *g.pick(PAGE_LENS);
  while l > max {
    l /= 2;
  }
  l
}

pub fn gen_len(g: &mut Sm, max: usize) -> usize {
  let l = if g.chance(2, 3) { *g.pick(LENS) } else { g.below(300) as usize };
  l.min(max)
}

pub fn gen_threshold(g: &mut Sm, tier: &str) -> u32 {
  match g.below(10) {
    0 => 1,
    1 => 2,
    2 | 3 => g.range(3, 6) as u32,
    4 | 5 => g.range(7, 20) as u32,
    6 => g.range(21, if quick(tier) { 40 } else { 96 }) as u32,
    _ => g.range(1, 10) as u32,
  }
}

/// the share point of an adss share, read from its documented layout: thr(4) | len(4) | x(24) ...
pub fn share_x(bytes: &[u8]) -> Vec<u8> {
  bytes[8..32].to_vec()
}

pub fn custom_transcript(g: &mut Sm) -> (Strobe, String) {
  let proto = { let n = g.range(1, 12) as usize; g.blob(n) };
  let mut s = Strobe::new(&proto, SecParam::B128);
  let mut toks = vec![hex(&proto)];
  for _ in 0..g.range(0, 3) {
    let d = { let n = gen_len(g, 200); g.blob(n) };
    match g.below(3) {
      0 => {
        s.ad(&d, false);
        toks.push(format!("ad:{}", hex(&d)));
      }
      1 => {
        s.key(&d, false);
        toks.push(format!("key:{}", hex(&d)));
      }
      _ => {
        s.meta_ad(&d, false);
        toks.push(format!("mad:{}", hex(&d)));
      }
    }
  }
  (s, toks.join("|"))
}

pub fn adss_recover_ans(shares: &[AShare]) -> String {
  guarded(|| match recover(shares) {
    Ok(c) => format!("ok {}", hex(&c.get_message())),
    Err(_) => "err".into(),
  })
}

pub fn hexlist(v: &[Vec<u8>]) -> String {
  v.iter().map(|b| hex(b)).collect::<Vec<_>>().join(",")
}

pub fn adss(tier: &str, seed: u64) {
  let mut g = Sm::new(seed, "adss");
  let n = if quick(tier) { 40 } else { 700 };
  for case in 0..n {
    let t = if case % 9 == 0 { 0 } else if case % 13 == 5 { *g.pick(&[255u32, 256, 257]) } else if !quick(tier) && case % 97 == 11 { *g.pick(&[65535u32, 65536, 65537]) } else { gen_threshold(&mut g, tier) };
    let big = !quick(tier) && case % 50 == 7;
    // machine-size message / coins (page multiples, powers of two), each with short and with
    // page-sized companions
    let page_m = !big && case % 8 == 3;
    let page_r = !big && case % 8 == 6;
    let pmax = if quick(tier) { 16384 } else { 65536 };
    let t = if (page_m || page_r) && t > 40 { 3 } else { t };
    let m = { let n = if big { 100_000 } else if page_m { stat("adss.page_sized_message"); gen_page_len(&mut g, pmax) } else { gen_len(&mut g, 400) }; g.blob(n) };
    let r = { let n = if page_r { stat("adss.page_sized_coins"); gen_page_len(&mut g, pmax) } else if page_m && g.chance(1, 3) { 4096 } else { gen_len(&mut g, 400) }; g.blob(n) };
    let custom = g.chance(1, 5);
    let (tr, trs) = if custom {
      let (s, d) = custom_transcript(&mut g);
      (Some(s), d)
    } else {
      (None, "-".to_string())
    };
    let c = Commune::new(t, m.clone(), r.clone(), tr);
    let cnt = if t > 200 { 1 } else { g.range(1, (t as u64 + 2).min(if quick(tier) { 8 } else { 30 })) as usize };
    let mut shares = Vec::new();
    for _ in 0..cnt {
      // sharing never fails for a threshold >= 1... whatever the message and coins are; a refusal is
      // an answer the model does not give
      let sh = match c.clone().share() {
        Ok(s) => s,
        Err(_) => {
          emit(&format!("adss.share {} {} {} {} {}", t, hex(&m), hex(&r), trs, hex(&[0u8; 24])), "err:refused");
          continue;
        }
      };
      let b = sh.to_bytes();
      emit(&format!("adss.share {} {} {} {} {}", t, hex(&m), hex(&r), trs, hex(&share_x(&b))), &format!("ok {}", hex(&b)));
      shares.push(sh);
    }
    stat(if custom { "adss.share.custom_transcript" } else { "adss.share.default_transcript" });
    // the SAME (t, M, R) shared under another transcript right before / after: sharing must not
    // depend on what was shared earlier (no hidden state between calls)
    if case % 3 == 1 {
      let (tr2, trs2) = custom_transcript(&mut g);
      let order: &[bool] = if custom { &[false, true, false] } else { &[true, false, true, false] };
      for &use_custom in order {
        let cc = Commune::new(t, m.clone(), r.clone(), if use_custom { Some(tr2.clone()) } else { None });
        let Ok(sh2) = cc.share() else {
          emit(&format!("adss.share {} {} {} {} {}", t, hex(&m), hex(&r), if use_custom { trs2.as_str() } else { "-" }, hex(&[0u8; 24])), "err:refused");
          continue;
        };
        let b = sh2.to_bytes();
        emit(
          &format!("adss.share {} {} {} {} {}", t, hex(&m), hex(&r), if use_custom { trs2.as_str() } else { "-" }, hex(&share_x(&b))),
          &format!("ok {}", hex(&b)),
        );
        stat("adss.share.interleaved_transcripts");
      }
    }
    // honest recovery from selections
    for _ in 0..2 {
      let mut sel = shares.clone();
      g.shuffle(&mut sel);
      if g.chance(1, 2) {
        let keep = g.range(0, sel.len() as u64) as usize;
        sel.truncate(keep);
      }
      if g.chance(1, 3) && !sel.is_empty() {
        let d = sel[0].clone();
        sel.push(d);
      }
      let ans = adss_recover_ans(&sel);
      stat(if ans.starts_with("ok") { "adss.recover.ok" } else { "adss.recover.err" });
      let hs: Vec<Vec<u8>> = sel.iter().map(|s| s.to_bytes()).collect();
      emit(&format!("adss.recover {}", hexlist(&hs)), &ans);
    }
    // forged / mixed collections
    if !shares.is_empty() {
      let mut bs: Vec<Vec<u8>> = shares.iter().map(|s| s.to_bytes()).collect();
      let kind = g.below(5);
      match kind {
        0 => {
          // rewrite the threshold of the first share
          let nt = if g.chance(1, 2) { g.below(t as u64 + 2) as u32 } else { u32::MAX - g.below(2) as u32 };
          bs[0][..4].copy_from_slice(&nt.to_le_bytes());
          stat("adss.forged.threshold");
        }
        1 => {
          // flip one bit somewhere in one share
          let i = g.below(bs.len() as u64) as usize;
          let off = g.below(bs[i].len() as u64) as usize;
          // keep length fields intact so it still decodes (structural faults live in `wire`)
          bs[i][off] ^= 1 << g.below(8);
          stat("adss.forged.bitflip");
        }
        2 => {
          // foreign share from another sharing in a random position
          let c2 = Commune::new(t.max(1), g.blob(8), g.blob(8), None);
          let (m2, r2) = (c2.get_message(), Vec::<u8>::new());
          match c2.share() {
            Ok(s) => {
              let f = s.to_bytes();
              let pos = g.below(bs.len() as u64 + 1) as usize;
              bs.insert(pos, f);
            }
            Err(_) => emit(&format!("adss.share {} {} {} - {}", t.max(1), hex(&m2), hex(&r2), hex(&[0u8; 24])), "err:refused"),
          }
          stat("adss.forged.foreign");
        }
        3 => {
          // duplicate padding
          let d = bs[0].clone();
          for _ in 0..g.range(1, 4) {
            bs.push(d.clone());
          }
          stat("adss.forged.dup_padding");
        }
        _ => {
          // y-less share first
          let mut b = bs[0].clone();
          let s_len = u32::from_le_bytes(b[4..8].try_into().unwrap()) as usize;
          let tail = b.split_off(8 + s_len);
          b.truncate(8 + 24);
          b[4..8].copy_from_slice(&24u32.to_le_bytes());
          b.extend(tail);
          bs[0] = b;
          if bs.len() > 1 && g.chance(1, 2) {
            bs.truncate(1);
          }
          stat("adss.forged.yless");
        }
      }
      let parsed: Option<Vec<AShare>> = bs.iter().map(|b| AShare::from_bytes(b)).collect();
      if let Some(p) = parsed {
        emit(&format!("adss.recover {}", hexlist(&bs)), &adss_recover_ans(&p));
      }
    }
  }
}

pub struct Client {
  pub m: Vec<u8>,
  pub e: Vec<u8>,
  pub t: u32,
  pub aux: Option<Vec<u8>>,
  pub rnd: [u8; 32],
  pub msg: Message,
}

pub fn gen_aux(g: &mut Sm) -> Option<Vec<u8>> {
  match g.below(5) {
    0 => None,
    1 => Some(vec![]),
    2 => Some(g.blob(1)),
    3 => Some({ let n = *g.pick(&[166usize, 167, 400, 700]); g.blob(n) }),
    _ => Some({ let n = gen_len(g, 300); g.blob(n) }),
  }
}

pub fn make_client(m: &[u8], e: &[u8], t: u32, aux: Option<Vec<u8>>, rnd_override: Option<[u8; 32]>) -> Client {
  let mg = MessageGenerator::new(SingleMeasurement::new(m), t, e);
  let mut rnd = [0u8; 32];
  match rnd_override {
    Some(r) => rnd = r,
    None => mg.sample_local_randomness(&mut rnd),
  }
  let msg = Message::generate(&mg, &rnd, aux.as_ref().map(|a| AssociatedData::new(a))).expect("generate");
  Client { m: m.to_vec(), e: e.to_vec(), t, aux, rnd, msg }
}

pub fn aux_tok(a: &Option<Vec<u8>>) -> String {
  match a {
    None => "none".into(),
    Some(v) => format!("some:{}", hex(v)),
  }
}

pub fn star_recover_ans(msgs: &[Message], epoch: &[u8]) -> String {
  guarded(|| {
    let shares: Vec<sta_rs::Share> = msgs.iter().map(|m| m.share.clone()).collect();
    match share_recover(&shares) {
      Err(_) => "err".into(),
      Ok(c) => {
        let r0 = c.get_message();
        let mut key = vec![0u8; 16];
        derive_ske_key(&r0, epoch, &mut key);
        let pts: Vec<Vec<u8>> = msgs.iter().map(|m| m.ciphertext.decrypt(&key, "star_encrypt")).collect();
        format!("ok {} {}", hex(&r0), hexlist(&pts))
      }
    }
  })
}

pub fn star(tier: &str, seed: u64) {
  let mut g = Sm::new(seed, "star");
  let n = if quick(tier) { 30 } else { 500 };
  for case in 0..n {
    // threshold 0 is a legal (if degenerate) parameter: reports are generated, never recovered
    let t = if case % 11 == 4 { 0 } else { gen_threshold(&mut g, tier) };
    let m = { let n = if case % 10 == 3 { 4096 } else if case % 10 == 7 { *g.pick(&[255usize, 256, 257, 65535, 65536, 65537]) } else { gen_len(&mut g, 400) }; g.blob(n) };
    let e = { let n = if g.chance(1, 4) { 0 } else if case % 17 == 2 { *g.pick(&[255usize, 256, 300]) } else { g.range(1, 12) as usize }; g.blob(n) };
    let mg = MessageGenerator::new(SingleMeasurement::new(&m), t, &e);
    let mut rnd = [0u8; 32];
    mg.sample_local_randomness(&mut rnd);
    emit(&format!("star.local {} {} {}", hex(&m), hex(&e), t), &format!("ok {}", hex(&rnd)));
    // randomness-server mode: arbitrary shared 32 bytes
    let injected = g.chance(1, 3);
    let rnd_o = if injected {
      let mut r = [0u8; 32];
      r.copy_from_slice(&g.bytes(32));
      match case % 12 {
        1 => r = [0u8; 32],
        4 => r = [0xff; 32],
        7 => { r = [0u8; 32]; r[31] = 1; }
        _ => {}
      }
      Some(r)
    } else {
      None
    };
    stat(if injected { "star.randomness.injected" } else { "star.randomness.local" });
    let cnt = g.range(1, (t as u64 + 2).min(if quick(tier) { 6 } else { 20 })) as usize;
    let mut clients = Vec::new();
    for _ in 0..cnt {
      let aux = gen_aux(&mut g);
      stat(&format!("star.aux.{}", match &aux { None => "none", Some(v) if v.is_empty() => "empty", Some(v) if v.len() > 160 => "multi_block", _ => "short" }));
      let c = make_client(&m, &e, t, aux, rnd_o);
      let b = c.msg.to_bytes();
      let x = share_x(&c.msg.share.to_bytes());
      emit(
        &format!("star.generate {} {} {} {} {} {}", hex(&m), hex(&e), t, hex(&c.rnd), aux_tok(&c.aux), hex(&x)),
        &format!("ok {}", hex(&b)),
      );
      clients.push(c);
    }
    // recovery through the wire form
    let wire: Vec<Vec<u8>> = clients.iter().map(|c| c.msg.to_bytes()).collect();
    let mut sel: Vec<Vec<u8>> = wire.clone();
    g.shuffle(&mut sel);
    if g.chance(1, 3) && !sel.is_empty() {
      let d = sel[0].clone();
      sel.push(d);
    }
    if g.chance(1, 4) && !sel.is_empty() {
      sel.truncate(g.range(1, sel.len() as u64) as usize);
    }
    let msgs: Vec<Message> = sel.iter().map(|b| Message::from_bytes(b).unwrap()).collect();
    let ans = star_recover_ans(&msgs, &e);
    stat(if ans.starts_with("ok") { "star.recover.ok" } else { "star.recover.err" });
    emit(&format!("star.recover {} {}", hex(&e), hexlist(&sel)), &ans);

    // one generator object reused across calls: different randomness (local, then two server
    // values), different aux, and the WASM material in between - a generator must be stateless
    {
      let mg2 = MessageGenerator::new(SingleMeasurement::new(&m), t, &e);
      let mut rnds: Vec<[u8; 32]> = vec![rnd];
      for _ in 0..2 {
        let mut r = [0u8; 32];
        r.copy_from_slice(&g.bytes(32));
        rnds.push(r);
      }
      rnds.push(rnd);
      for (k, r) in rnds.iter().enumerate() {
        let aux = gen_aux(&mut g);
        let msg = Message::generate(&mg2, r, aux.as_ref().map(|a| AssociatedData::new(a))).expect("generate");
        let b = msg.to_bytes();
        let x = share_x(&msg.share.to_bytes());
        emit(
          &format!("star.generate {} {} {} {} {} {}", hex(&m), hex(&e), t, hex(r), aux_tok(&aux), hex(&x)),
          &format!("ok {}", hex(&b)),
        );
        if k == 1 {
          let w2 = mg2.share_with_local_randomness().expect("swlr");
          let sb2 = w2.share.to_bytes();
          emit(
            &format!("star.swlr {} {} {} {}", hex(&m), hex(&e), t, hex(&share_x(&sb2))),
            &format!("ok {},{},{}", hex(&w2.key), hex(&sb2), hex(&w2.tag)),
          );
        }
        stat("star.generator_reused");
      }
    }
    // construct, MUTATE, use: `x` is a public field, so a generator built for one measurement can be
    // pointed at another; everything derived afterwards must belong to the measurement it holds now
    {
      let mut mg3 = MessageGenerator::new(SingleMeasurement::new(&m), t, &e);
      let m2 = if g.chance(1, 2) { let mut v = m.clone(); v.push(1); v } else { let n = gen_len(&mut g, 80); g.blob(n) };
      mg3.x = SingleMeasurement::new(&m2);
      let mut r3 = [0u8; 32];
      mg3.sample_local_randomness(&mut r3);
      emit(&format!("star.local {} {} {}", hex(&m2), hex(&e), t), &format!("ok {}", hex(&r3)));
      let w3 = mg3.share_with_local_randomness().expect("swlr");
      let sb3 = w3.share.to_bytes();
      emit(
        &format!("star.swlr {} {} {} {}", hex(&m2), hex(&e), t, hex(&share_x(&sb3))),
        &format!("ok {},{},{}", hex(&w3.key), hex(&sb3), hex(&w3.tag)),
      );
      stat("star.generator_field_reassigned");
    }
    // WASM-style material
    let w = mg.share_with_local_randomness().expect("swlr");
    let sb = w.share.to_bytes();
    emit(
      &format!("star.swlr {} {} {} {}", hex(&m), hex(&e), t, hex(&share_x(&sb))),
      &format!("ok {},{},{}", hex(&w.key), hex(&sb), hex(&w.tag)),
    );
    let mut key = [0u8; 16];
    let r1 = g.blob(32);
    derive_ske_key(&r1, &e, &mut key);
    emit(&format!("star.ske {} {}", hex(&r1), hex(&e)), &format!("ok {}", hex(&key)));
    // Ciphertext::new / decrypt with arbitrary key, data, label
    let k = { let n = *g.pick(&[0usize, 1, 16, 32, 200]); g.blob(n) };
    let d = { let n = gen_len(&mut g, 400); g.blob(n) };
    let ct = Ciphertext::new(&k, &d, "star_encrypt");
    emit(&format!("star.encrypt {} {}", hex(&k), hex(&d)), &format!("ok {}", hex(&ct.to_bytes())));
    let ct2 = Ciphertext::from_bytes(&d);
    emit(&format!("star.decrypt {} {}", hex(&k), hex(&d)), &format!("ok {}", hex(&ct2.decrypt(&k, "star_encrypt"))));
  }
}

// ---------------------------------------------------------------------------------------------
// wire: decoders on honest, truncated, faulted, spliced and random strings

fn wire_case(kind: &str, b: &[u8]) {
  let ans = guarded(|| match kind {
    "sharks" => match star_sharks::Share::try_from(b) {
      Ok(s) => format!("ok {}", hex(&Vec::from(&s))),
      Err(_) => "err".into(),
    },
    "adss" => match AShare::from_bytes(b) {
      Some(s) => format!("ok {}", hex(&s.to_bytes())),
      None => "err".into(),
    },
    "msg" => match Message::from_bytes(b) {
      Some(s) => format!("ok {}", hex(&s.to_bytes())),
      None => "err".into(),
    },
    "load_bytes" => match adss::load_bytes(b) {
      Some(s) => format!("ok {}", hex(s)),
      None => "err".into(),
    },
    "load_u32" => match adss::load_u32(b) {
      Some(s) => format!("ok {}", s),
      None => "err".into(),
    },
    "store_bytes" => {
      let mut out = Vec::new();
      adss::store_bytes(b, &mut out);
      format!("ok {}", hex(&out))
    }
    _ => unreachable!(),
  });
  stat(&format!("wire.{}.{}", kind, ans.split(' ').next().unwrap()));
  emit(&format!("wire.{} {}", kind, hex(b)), &ans);
}

/// offsets of every 4-byte length/threshold field of a report encoding
pub fn msg_len_fields(b: &[u8]) -> Vec<usize> {
  let rd = |o: usize| u32::from_le_bytes(b[o..o + 4].try_into().unwrap()) as usize;
  let mut v = vec![0];
  let ct = rd(0);
  let sh = 4 + ct;
  v.push(sh);
  v.extend(share_len_fields(&b[sh + 4..sh + 4 + rd(sh)]).into_iter().map(|o| o + sh + 4));
  v.push(sh + 4 + rd(sh));
  v
}

pub fn share_len_fields(b: &[u8]) -> Vec<usize> {
  let rd = |o: usize| u32::from_le_bytes(b[o..o + 4].try_into().unwrap()) as usize;
  let s = 4;
  let c = s + 4 + rd(s);
  let d = c + 4 + rd(c);
  vec![0, s, c, d]
}

const BOUNDARY: &[u32] = &[0, 1, 23, 24, 25, 48, 63, 64, 65, 0x7fff_ffff, 0x8000_0000, 0xffff_fffb, 0xffff_fffc, 0xffff_fffd, 0xffff_fffe, 0xffff_ffff];

pub fn wire(tier: &str, seed: u64) {
  wire_inputs(tier, seed, &mut |k, b| wire_case(k, b));
}

/// the generator of the `wire` stream, shared with the C08/C09 oracles
pub fn wire_inputs(tier: &str, seed: u64, wire_case: &mut dyn FnMut(&str, &[u8])) {
  let mut g = Sm::new(seed, "wire");
  let q = quick(tier);
  let rounds = if q { 3 } else { 25 };
  for round in 0..rounds {
    let t = gen_threshold(&mut g, tier);
    let m = { let n = gen_len(&mut g, 200); g.blob(n) };
    let e = g.blob(3);
    let c = make_client(&m, &e, t, gen_aux(&mut g).map(|a| a.into_iter().take(40).collect()), None);
    let mb = c.msg.to_bytes();
    let sb = c.msg.share.to_bytes();
    let s_len = u32::from_le_bytes(sb[4..8].try_into().unwrap()) as usize;
    let kb = sb[8..8 + s_len].to_vec();
    // a sharks share with several y values
    let mut kb3 = kb.clone();
    kb3.extend(&kb[24..]);
    kb3.extend(&kb[..24]);
    for (kind, base) in [("msg", &mb), ("adss", &sb), ("sharks", &kb3)] {
      wire_case(kind, base);
      // every prefix (thorough) / every 3rd prefix + all short ones (quick)
      for l in 0..base.len() {
        if !q || l < 40 || l % 3 == round % 3 || l + 70 > base.len() {
          wire_case(kind, &base[..l]);
          stat("wire.gen.prefix");
        }
      }
      // appended bytes
      for extra in [1usize, 7, 24] {
        let mut b = base.clone();
        let x = g.bytes(extra);
        b.extend(x);
        wire_case(kind, &b);
        stat("wire.gen.suffix");
      }
      // byte/bit faults at every offset (quick: a third of them)
      for off in 0..base.len() {
        if q && off % 3 != round % 3 {
          continue;
        }
        let mut b = base.clone();
        match g.below(4) {
          0 => b[off] ^= 1 << g.below(8),
          1 => b[off] = b[off].wrapping_add(1),
          2 => b[off] = 0,
          _ => b[off] = 0xff,
        }
        wire_case(kind, &b);
        stat("wire.gen.fault");
      }
    }
    // every length field at each boundary value, and at len-1 / len+1
    for (kind, base, fields) in [("msg", &mb, msg_len_fields(&mb)), ("adss", &sb, share_len_fields(&sb))] {
      for &f in &fields {
        let cur = u32::from_le_bytes(base[f..f + 4].try_into().unwrap());
        let mut vals: Vec<u32> = BOUNDARY.to_vec();
        vals.extend([cur.wrapping_sub(1), cur.wrapping_add(1), cur.wrapping_add(24), cur.wrapping_sub(24)]);
        for v in vals {
          let mut b = base.clone();
          b[f..f + 4].copy_from_slice(&v.to_le_bytes());
          wire_case(kind, &b);
          stat("wire.gen.length_field");
        }
      }
    }
    // out-of-range field elements inside an otherwise valid share / report
    for elem in 0..(s_len / 24) {
      let mut b = sb.clone();
      let o = 8 + 24 * elem;
      b[o..o + 24].copy_from_slice(&crate::s_fp::le24(12451 + g.below(3) as u128, 1));
      wire_case("adss", &b);
      let mut b2 = kb.clone();
      b2[24 * elem..24 * elem + 24].copy_from_slice(&[0xff; 24]);
      wire_case("sharks", &b2);
      stat("wire.gen.bad_element");
    }
    // VALID extreme field elements (0, 1, 2^64, 2^128-1, 2^128 .. p-1) in every element position of a
    // share and of a report: must be accepted and re-encoded identically
    for elem in 0..(s_len / 24) {
      for v in [
        crate::s_fp::le24(0, 0),
        crate::s_fp::le24(1, 0),
        crate::s_fp::le24(1u128 << 64, 0),
        crate::s_fp::le24(u128::MAX, 0),
        crate::s_fp::le24(0, 1),
        crate::s_fp::le24(g.below(12451) as u128, 1),
        crate::s_fp::le24(12450, 1),
      ] {
        let mut b = sb.clone();
        let o = 8 + 24 * elem;
        b[o..o + 24].copy_from_slice(&v);
        wire_case("adss", &b);
        let mut b2 = kb3.clone();
        b2[24 * elem..24 * elem + 24].copy_from_slice(&v);
        wire_case("sharks", &b2);
        let mut mm = mb.clone();
        // the share sits after the ciphertext chunk: 4 + |ct| + 4
        let so = 4 + c.msg.ciphertext.to_bytes().len() + 4;
        mm[so + o..so + o + 24].copy_from_slice(&v);
        wire_case("msg", &mm);
        stat("wire.gen.valid_extreme_element");
      }
    }
    // partial trailing field element inside S (canonicalised on re-encoding)
    for extra in [1usize, 12, 23] {
      let mut b = sb[..8 + s_len].to_vec();
      b.extend(g.bytes(extra));
      b.extend(&sb[8 + s_len..]);
      b[4..8].copy_from_slice(&((s_len + extra) as u32).to_le_bytes());
      wire_case("adss", &b);
      let mut mm = Vec::new();
      adss::store_bytes(&c.msg.ciphertext.to_bytes(), &mut mm);
      adss::store_bytes(&b, &mut mm);
      adss::store_bytes(&c.msg.tag, &mut mm);
      mm.extend(g.bytes(extra)); // trailing bytes after the tag chunk
      wire_case("msg", &mm);
      stat("wire.gen.partial_element");
    }
    // splices of two valid encodings
    let c2 = make_client(&g.blob(5), &e, t, None, None);
    let mb2 = c2.msg.to_bytes();
    for _ in 0..(if q { 6 } else { 40 }) {
      let i = g.below(mb.len() as u64) as usize;
      let j = g.below(mb2.len() as u64) as usize;
      let mut b = mb[..i].to_vec();
      b.extend(&mb2[j..]);
      wire_case("msg", &b);
      stat("wire.gen.splice");
    }
  }
  // random strings and the chunk helpers
  for _ in 0..(if q { 150 } else { 5000 }) {
    let n = match g.below(4) {
      0 => g.below(8) as usize,
      1 => g.range(60, 80) as usize,
      _ => g.below(300) as usize,
    };
    let mut b = g.bytes(n);
    if g.chance(1, 2) && n >= 4 {
      // plausible small length header
      let l = g.below(n as u64 + 3) as u32;
      b[..4].copy_from_slice(&l.to_le_bytes());
    }
    if g.chance(1, 8) && n >= 4 {
      b[..4].copy_from_slice(&BOUNDARY[g.below(BOUNDARY.len() as u64) as usize].to_le_bytes());
    }
    let kind = *g.pick(&["sharks", "adss", "msg", "load_bytes", "load_u32", "store_bytes"]);
    wire_case(kind, &b);
    stat("wire.gen.random");
  }
}
