//! Shared helpers: hex, deterministic PRNG, scripted RNG, panic capture, output lines.
use std::cell::RefCell;
use std::collections::BTreeMap;
use std::panic::{catch_unwind, AssertUnwindSafe};

pub fn hex(b: &[u8]) -> String {
  if b.is_empty() {
    return "-".to_string();
  }
  let mut s = String::with_capacity(b.len() * 2);
  for x in b {
    s.push_str(&format!("{:02x}", x));
  }
  s
}

pub fn unhex(s: &str) -> Vec<u8> {
  if s == "-" {
    return vec![];
  }
  (0..s.len() / 2)
    .map(|i| u8::from_str_radix(&s[2 * i..2 * i + 2], 16).unwrap())
    .collect()
}

/// SplitMix64: every random choice of the harness derives from one state seeded by VERIF_SEED.
#[derive(Clone)]
pub struct Sm(pub u64);
impl Sm {
  pub fn new(seed: u64, stream: &str) -> Sm {
    let mut s = Sm(seed ^ 0x9e3779b97f4a7c15);
    for b in stream.bytes() {
      s.0 = s.0.wrapping_mul(0x100000001b3) ^ (b as u64);
      s.next();
    }
    s
  }
  pub fn next(&mut self) -> u64 {
    self.0 = self.0.wrapping_add(0x9e3779b97f4a7c15);
    let mut z = self.0;
    z = (z ^ (z >> 30)).wrapping_mul(0xbf58476d1ce4e5b9);
    z = (z ^ (z >> 27)).wrapping_mul(0x94d049bb133111eb);
    z ^ (z >> 31)
  }
  pub fn below(&mut self, n: u64) -> u64 {
    if n == 0 {
      0
    } else {
      self.next() % n
    }
  }
  pub fn range(&mut self, lo: u64, hi: u64) -> u64 {
    lo + self.below(hi - lo + 1)
  }
  pub fn chance(&mut self, num: u64, den: u64) -> bool {
    self.below(den) < num
  }
  pub fn bytes(&mut self, n: usize) -> Vec<u8> {
    let mut v = Vec::with_capacity(n);
    while v.len() < n {
      let x = self.next().to_le_bytes();
      for b in x {
        if v.len() < n {
          v.push(b);
        }
      }
    }
    v
  }
  /// byte strings with some structure: random, constant, ascii, sparse
  pub fn blob(&mut self, n: usize) -> Vec<u8> {
    match self.below(6) {
      0 => vec![0u8; n],
      1 => vec![0xffu8; n],
      2 => (0..n).map(|_| b'a' + (self.below(26) as u8)).collect(),
      _ => self.bytes(n),
    }
  }
  pub fn pick<'a, T>(&mut self, v: &'a [T]) -> &'a T {
    &v[self.below(v.len() as u64) as usize]
  }
  pub fn shuffle<T>(&mut self, v: &mut [T]) {
    for i in (1..v.len()).rev() {
      let j = self.below(i as u64 + 1) as usize;
      v.swap(i, j);
    }
  }
}

/// An RNG that replays a script of `u64` words (and records how many were consumed). When the
/// script is exhausted it continues with a SplitMix64 tail whose words are appended to the script,
/// so the model can be handed exactly the words the implementation saw.
pub struct ScriptRng {
  pub script: Vec<u64>,
  pub used: usize,
  tail: Sm,
}
impl ScriptRng {
  pub fn new(script: Vec<u64>, tail_seed: u64) -> Self {
    ScriptRng { script, used: 0, tail: Sm(tail_seed) }
  }
  pub fn words_hex(&self) -> String {
    if self.used == 0 {
      return "-".into();
    }
    self.script[..self.used].iter().map(|w| format!("{:x}", w)).collect::<Vec<_>>().join(",")
  }
}
impl rand_core::RngCore for ScriptRng {
  fn next_u32(&mut self) -> u32 {
    self.next_u64() as u32
  }
  fn next_u64(&mut self) -> u64 {
    if self.used >= self.script.len() {
      let w = self.tail.next();
      self.script.push(w);
    }
    let w = self.script[self.used];
    self.used += 1;
    w
  }
  fn fill_bytes(&mut self, dest: &mut [u8]) {
    rand_core::impls::fill_bytes_via_next(self, dest)
  }
  fn try_fill_bytes(&mut self, dest: &mut [u8]) -> Result<(), rand_core::Error> {
    self.fill_bytes(dest);
    Ok(())
  }
}

/// Run `f`, mapping a panic to the canonical answer `panic`.
pub fn guarded<F: FnOnce() -> String>(f: F) -> String {
  match catch_unwind(AssertUnwindSafe(f)) {
    Ok(s) => s,
    Err(_) => "panic".to_string(),
  }
}

pub fn did_panic<F: FnOnce()>(f: F) -> bool {
  catch_unwind(AssertUnwindSafe(f)).is_err()
}

thread_local! {
  static STATS: RefCell<BTreeMap<String, u64>> = RefCell::new(BTreeMap::new());
}
pub fn stat(key: &str) {
  stat_n(key, 1)
}
pub fn stat_n(key: &str, n: u64) {
  STATS.with(|s| *s.borrow_mut().entry(key.to_string()).or_insert(0) += n);
}
pub fn dump_stats() {
  STATS.with(|s| {
    for (k, v) in s.borrow().iter() {
      println!("#stat {} {}", k, v);
    }
  });
}

/// one correspondence case: the request line for the model and the implementation's answer
pub fn emit(req: &str, ans: &str) {
  debug_assert!(!req.contains('\t') && !req.contains('\n'));
  println!("{}\t{}", req, ans);
  let kind = ans.split(' ').next().unwrap_or("");
  stat(&format!("answers.{}", kind));
  stat(&format!("op.{}", req.split(' ').next().unwrap_or("")));
}

pub fn quick(tier: &str) -> bool {
  tier != "thorough"
}

/// Byte strings that a text-normalisation step (BOM stripping, trimming, NUL padding, case folding,
/// Unicode normalisation, lossy UTF-8 decoding, percent-decoding, leading zeros) would identify with
/// `base` although they are different byte strings. The base itself comes first. All members are
/// pairwise different.
pub fn normalisation_family(base: &[u8]) -> Vec<Vec<u8>> {
  let mut fam: Vec<Vec<u8>> = vec![base.to_vec()];
  let pre = |p: &[u8]| {
    let mut v = p.to_vec();
    v.extend_from_slice(base);
    v
  };
  let suf = |p: &[u8]| {
    let mut v = base.to_vec();
    v.extend_from_slice(p);
    v
  };
  // byte-order marks and invisible characters in front
  for p in [&[0xefu8, 0xbb, 0xbf][..], &[0xfe, 0xff], &[0xff, 0xfe], &[0xe2, 0x80, 0x8b], &[0xc2, 0xa0], b" ", b"\t", b"\n", b"\r\n", &[0u8], b"0", b"+", b"/", b"0x"] {
    fam.push(pre(p));
  }
  // the same behind
  for p in [b" ".as_slice(), b"\t", b"\n", b"\r\n", &[0u8], &[0, 0, 0, 0], b"/", b".", &[0xef, 0xbb, 0xbf], &[0xe2, 0x80, 0x8b], &[0x80], &[0xff]] {
    fam.push(suf(p));
  }
  // the prefix alone (a measurement that IS the mark)
  fam.push(vec![0xef, 0xbb, 0xbf]);
  fam.push(vec![0xfe, 0xff]);
  // case
  fam.push(base.to_ascii_uppercase());
  fam.push(base.to_ascii_lowercase());
  // Unicode forms of one text: composed / decomposed, and an over-long / invalid rendering
  fam.push(suf(&[0xc3, 0xa9]));
  fam.push(suf(&[0x65, 0xcc, 0x81]));
  fam.push(suf(b"%C3%A9"));
  // strings that differ only inside invalid UTF-8 (a lossy decoder maps each to U+FFFD)
  for b in [0xffu8, 0xfe, 0x80, 0xbf, 0xf8, 0xc0] {
    fam.push(suf(&[b]));
    let mut v = base.to_vec();
    v.insert(base.len() / 2, b);
    fam.push(v);
  }
  fam.push(suf(&[0xef, 0xbf, 0xbd]));
  let mut seen = std::collections::BTreeSet::new();
  fam.retain(|v| seen.insert(v.clone()));
  fam
}
