//! Oracles on the real star-wasm string API (C17) and the real reference aggregation server (C18).
use crate::oracle::*;
use crate::s_agg::*;
use crate::s_star::*;
use crate::util::*;
use base64::{engine::Engine as _, prelude::BASE64_STANDARD};
use sta_rs::{Message, MessageGenerator, SingleMeasurement};
use std::collections::BTreeMap;
use std::panic::{catch_unwind, AssertUnwindSafe};

/// an encoded adss share without its Shamir part: threshold, C, D, J (what is deterministic)
fn strip_point(b: &[u8]) -> Vec<u8> {
  let sl = u32::from_le_bytes(b[4..8].try_into().unwrap()) as usize;
  let mut v = b[..4].to_vec();
  v.extend(&(sl as u32).to_le_bytes());
  v.extend(&b[8 + sl..]);
  v
}

struct Created {
  text: String,
  key_b64: String,
  share_b64: String,
}

/// call `create_share` and check everything C17 says about its result; `None` if unusable
fn checked_create(m: &[u8], t: u32, epoch: &str) -> Option<Created> {
  let desc = |what: &str, text: &str| {
    vec![("what", what.to_string()), ("measurement", hex(m)), ("threshold", t.to_string()), ("epoch", epoch.to_string()), ("returned", text.to_string())]
  };
  let text = match catch_unwind(AssertUnwindSafe(|| star_wasm::create_share(m, t, epoch))) {
    Ok(s) => s,
    Err(_) => {
      fail("create_share_panicked", &desc("create_share panicked", ""));
      return None;
    }
  };
  if text.is_empty() {
    fail("create_share_returned_empty", &desc("create_share returned the empty string", ""));
    return None;
  }
  let v: serde_json::Value = match serde_json::from_str(&text) {
    Ok(v) => v,
    Err(e) => {
      fail("create_share_not_json", &desc(&format!("not JSON: {}", e), &text));
      return None;
    }
  };
  let obj = match v.as_object() {
    Some(o) if o.len() == 3 => o,
    _ => {
      fail("create_share_wrong_shape", &desc("not an object with three members", &text));
      return None;
    }
  };
  let mut f = Vec::new();
  for name in ["key", "share", "tag"] {
    match obj.get(name).and_then(|x| x.as_str()) {
      Some(s) => f.push(s.to_string()),
      None => {
        fail("create_share_wrong_shape", &desc(&format!("member {} missing or not a string", name), &text));
        return None;
      }
    }
  }
  // the text is literally the documented format
  let lit = format!("{{\"key\": \"{}\", \"share\": \"{}\", \"tag\": \"{}\"}}", f[0], f[1], f[2]);
  if lit != text {
    fail("create_share_text_format", &desc("text differs from the documented literal format", &text));
  }
  let dec: Vec<Option<Vec<u8>>> = f.iter().map(|s| BASE64_STANDARD.decode(s).ok()).collect();
  if dec.iter().any(|d| d.is_none()) {
    fail("create_share_bad_base64", &desc("a member is not standard base64", &text));
    return None;
  }
  let (key, share, tag) = (dec[0].clone().unwrap(), dec[1].clone().unwrap(), dec[2].clone().unwrap());
  if key.len() != 16 {
    fail("create_share_key_length", &desc(&format!("key has {} bytes", key.len()), &text));
  }
  if tag.len() != 32 {
    fail("create_share_tag_length", &desc(&format!("tag has {} bytes", tag.len()), &text));
  }
  match sta_rs::Share::from_bytes(&share) {
    None => fail("create_share_share_rejected", &desc("share rejected by Share::from_bytes", &text)),
    Some(s) => {
      if s.to_bytes() != share {
        fail("create_share_share_not_canonical", &desc("share does not re-encode to itself", &text));
      }
    }
  }
  // what the core library derives for the same measurement, threshold, epoch
  let mg = MessageGenerator::new(SingleMeasurement::new(m), t, epoch.as_bytes());
  match mg.share_with_local_randomness() {
    Err(_) => fail("core_library_failed", &desc("share_with_local_randomness failed", &text)),
    Ok(w) => {
      if w.key[..] != key[..] {
        fail("create_share_key_differs", &desc("key differs from the core library's", &text));
      }
      if w.tag[..] != tag[..] {
        fail("create_share_tag_differs", &desc("tag differs from the core library's", &text));
      }
      let wb = w.share.to_bytes();
      if share.len() < 32 || strip_point(&wb) != strip_point(&share) {
        fail("create_share_share_differs", &desc("share differs from the core library's beyond the share point", &text));
      }
    }
  }
  Some(Created { text, key_b64: f[0].clone(), share_b64: f[1].clone() })
}

fn group_guarded(ser: &str, epoch: &str) -> Result<Option<String>, ()> {
  catch_unwind(AssertUnwindSafe(|| star_wasm::group_shares(ser, epoch))).map_err(|_| ())
}

pub fn c17(tier: &str, seed: u64) {
  let mut g = Sm::new(seed, "oracle.C17");
  // create_share alone at thresholds around the 16-bit mark (grouping that many shares is out of
  // reach, the comparison with the core derivation is not)
  for t in [65_535u32, 65_536, 65_537, 70_000, 100_000] {
    let m = { let n = g.range(0, 20) as usize; g.blob(n) };
    let epoch = gen_epoch(&mut g);
    let _ = checked_create(&m, t, &epoch);
    case(true);
    stat("oracle.C17.create_share_thresholds_beyond_16_bits");
  }
  // CONCURRENT callers (native embedders call from several threads): while one thread groups a large
  // bucket, others group small ones - every call with threshold-many distinct shares gets the key
  {
    let mk = |m: &[u8], t: u32, ep: &str| -> Option<(Vec<String>, String)> {
      let made: Vec<Created> = (0..t).filter_map(|_| checked_create(m, t, ep)).collect();
      if made.len() != t as usize {
        return None;
      }
      Some((made.iter().map(|c| c.share_b64.clone()).collect(), made[0].key_b64.clone()))
    };
    if let (Some((big, bigk)), Some((small, smallk))) = (mk(b"large bucket", 160, "ep"), mk(b"small bucket", 3, "ep")) {
      let big_ser = big.join("\n");
      let small_ser = small.join("\n");
      let stop = std::sync::Arc::new(std::sync::atomic::AtomicBool::new(false));
      let (s2, bs, bk) = (stop.clone(), big_ser.clone(), bigk.clone());
      let worker = std::thread::spawn(move || {
        let mut bad = 0usize;
        let mut calls = 0usize;
        while !s2.load(std::sync::atomic::Ordering::Relaxed) && calls < 200 {
          if group_guarded(&bs, "ep").ok().flatten().as_deref() != Some(&bk) {
            bad += 1;
          }
          calls += 1;
        }
        (bad, calls)
      });
      let others: Vec<_> = (0..3)
        .map(|_| {
          let (ss, sk) = (small_ser.clone(), smallk.clone());
          std::thread::spawn(move || (0..40).filter(|_| group_guarded(&ss, "ep").ok().flatten().as_deref() != Some(&sk)).count())
        })
        .collect();
      let small_bad: usize = others.into_iter().map(|h| h.join().expect("thread")).sum();
      stop.store(true, std::sync::atomic::Ordering::Relaxed);
      let (big_bad, big_calls) = worker.join().expect("thread");
      if small_bad > 0 || big_bad > 0 {
        fail("group_shares_missed_key", &[("what", "concurrent calls from several threads".into()), ("small_bucket_calls_without_the_key", format!("{} of 120", small_bad)), ("large_bucket_calls_without_the_key", format!("{} of {}", big_bad, big_calls)), ("thresholds", "160 and 3".into())]);
      }
      case(true);
      stat("oracle.C17.concurrent_callers");
    }
  }
  // PARTIAL COLLISIONS between honest shares (birthday search over fresh create_share outputs):
  // two distinct shares of one measurement that agree on a window of their bytes - the low or high
  // bytes of the evaluation point, of the value, the leading or trailing base64 characters - are
  // still two distinct shares, and threshold-many of them recover
  {
    use rayon::prelude::*;
    let draws: usize = if quick(tier) { 250_000 } else { 800_000 };
    let m = b"partial share collisions".to_vec();
    let made: Vec<(String, String, Vec<u8>)> = (0..draws)
      .into_par_iter()
      .filter_map(|_| {
        let text = catch_unwind(AssertUnwindSafe(|| star_wasm::create_share(&m, 2, "ep"))).ok()?;
        let v: serde_json::Value = serde_json::from_str(&text).ok()?;
        let sh = v.get("share")?.as_str()?.to_string();
        let key = v.get("key")?.as_str()?.to_string();
        let raw = BASE64_STANDARD.decode(sh.as_bytes()).ok()?;
        Some((sh, key, raw))
      })
      .collect();
    stat_n("oracle.C17.partial_collision_draws", made.len() as u64);
    // windows: (name, extractor)
    let windows: Vec<(&str, Box<dyn Fn(&(String, String, Vec<u8>)) -> Option<Vec<u8>>>)> = vec![
      ("first 16 base64 characters (header and the low 4 bytes of the point)", Box::new(|c| c.0.as_bytes().get(..16).map(|x| x.to_vec()))),
      ("low 4 bytes of the evaluation point", Box::new(|c| c.2.get(8..12).map(|x| x.to_vec()))),
      ("bytes 4..8 of the evaluation point", Box::new(|c| c.2.get(12..16).map(|x| x.to_vec()))),
      ("bytes 12..16 of the evaluation point", Box::new(|c| c.2.get(20..24).map(|x| x.to_vec()))),
      ("low 4 bytes of the first value", Box::new(|c| c.2.get(32..36).map(|x| x.to_vec()))),
      ("last 4 bytes of the share", Box::new(|c| c.2.len().checked_sub(4).and_then(|i| c.2.get(i..)).map(|x| x.to_vec()))),
      ("last 6 base64 characters", Box::new(|c| c.0.len().checked_sub(6).and_then(|i| c.0.as_bytes().get(i..)).map(|x| x.to_vec()))),
    ];
    for (name, f) in &windows {
      let mut seen: std::collections::HashMap<Vec<u8>, usize> = Default::default();
      let mut pairs = 0usize;
      for (i, c) in made.iter().enumerate() {
        let Some(k) = f(c) else { continue };
        if let Some(&j) = seen.get(&k) {
          if made[j].0 != c.0 && pairs < 4 {
            pairs += 1;
            stat("oracle.C17.partial_collision_pairs");
            for (a, b) in [(j, i), (i, j)] {
              let ser = format!("{}\n{}", made[a].0, made[b].0);
              let got = group_guarded(&ser, "ep").ok().flatten();
              if got.as_deref() != Some(made[a].1.as_str()) {
                fail(
                  "group_shares_missed_key",
                  &[("what", format!("two distinct shares of one measurement (threshold 2) that agree on the {}", name)), ("serialized_shares", ser.clone()), ("epoch", "ep".into()), ("clients_key", made[a].1.clone()), ("returned", format!("{:?}", got))],
                );
              }
              case(true);
            }
          }
        } else {
          seen.insert(k, i);
        }
      }
    }
  }
  // measurements that a text NORMALISATION would identify (byte-order mark, invisible characters,
  // trimming, case, Unicode forms): each is its own measurement - the wrapper derives for it what
  // the core derives, tags are pairwise different, and one share of each never yields a key
  for base in [b"https://example.com/a".to_vec(), b"abc".to_vec(), vec![], { let mut v = g.blob(20); v.push(b'q'); v }] {
    let fam = normalisation_family(&base);
    let mut made: Vec<(Vec<u8>, Created, String)> = Vec::new();
    for f in &fam {
      if let Some(c) = checked_create(f, 2, "ep") {
        let tag = json_field(&c.text, "tag").unwrap_or_default();
        made.push((f.clone(), c, tag));
      }
      case(true);
    }
    for i in 0..made.len() {
      for j in (i + 1)..made.len() {
        if made[i].2 == made[j].2 {
          fail("different_measurements_same_tag", &[("measurement_1", hex(&made[i].0)), ("measurement_2", hex(&made[j].0)), ("threshold", "2".into()), ("epoch", "ep".into()), ("tag", made[i].2.clone())]);
        }
      }
      if i > 0 {
        let ser = format!("{}\n{}", made[0].1.share_b64, made[i].1.share_b64);
        let got = group_guarded(&ser, "ep").ok().flatten();
        if got.is_some() {
          fail("group_shares_key_below_threshold", &[("what", "one share each of two different measurements (threshold 2)".into()), ("measurement_1", hex(&made[0].0)), ("measurement_2", hex(&made[i].0)), ("serialized_shares", ser), ("returned", format!("{:?}", got))]);
        }
      }
    }
    stat("oracle.C17.normalisation_families");
  }
  let n = if quick(tier) { 1500 } else { 15000 };
  for case_i in 0..n {
    let t: u32 = match case_i % 8 {
      0 => 1,
      1 => 2,
      2 => g.range(3, 8) as u32,
      3 => g.range(9, 20) as u32,
      4 => 0,
      _ => g.range(1, 12) as u32,
    };
    // LARGE thresholds (hundreds of shares, share lists of 64 KiB and more): integer-width and
    // input-size boundaries of the string interface
    let t = if case_i == 6 || case_i == 13 || (!quick(tier) && case_i % 1500 == 21) { stat("oracle.C17.large_thresholds"); *g.pick(&[255u32, 256, 257, 300, 520]) } else { t };
    let m = { let n = *g.pick(&[0usize, 0, 1, 5, 31, 32, 33, 166, 300]); g.blob(n) };
    let epoch = gen_epoch(&mut g);
    if t == 0 {
      checked_create(&m, t, &epoch);
      case(true);
      continue;
    }
    let tu = t as usize;
    let made: Vec<Created> = (0..tu + 1).filter_map(|_| checked_create(&m, t, &epoch)).collect();
    if made.len() != tu + 1 {
      continue;
    }
    let key = made[0].key_b64.clone();
    if made.iter().any(|c| c.key_b64 != key) {
      fail("clients_hold_different_keys", &[("measurement", hex(&m)), ("threshold", t.to_string()), ("epoch", epoch.clone())]);
    }
    let shares: Vec<String> = made.iter().map(|c| c.share_b64.clone()).collect();
    let distinct = shares.iter().collect::<std::collections::BTreeSet<_>>().len() == shares.len();
    let desc = |what: &str, ser: &str, ep: &str, got: &Option<String>| {
      vec![("what", what.to_string()), ("measurement", hex(&m)), ("threshold", t.to_string()), ("clients_epoch", epoch.clone()), ("epoch_given", ep.to_string()), ("serialized_shares", ser.to_string()), ("clients_key", key.clone()), ("returned", format!("{:?}", got))]
    };
    let mut check = |what: &str, sel: &[String], ep: &str, expect_key: Option<bool>| {
      let ser = sel.join("\n");
      match group_guarded(&ser, ep) {
        Err(()) => fail("group_shares_panicked", &desc(what, &ser, ep, &None)),
        Ok(got) => match expect_key {
          Some(true) => {
            if got.as_deref() != Some(&key) {
              fail("group_shares_missed_key", &desc(what, &ser, ep, &got));
            }
          }
          Some(false) => {
            if got.is_some() {
              fail("group_shares_below_threshold_returned", &desc(what, &ser, ep, &got));
            }
          }
          None => {
            if got.as_deref() == Some(&key) {
              fail("group_shares_wrong_epoch_same_key", &desc(what, &ser, ep, &got));
            }
          }
        },
      }
    };
    if distinct {
      // at / above the threshold, any order, with repeats
      check("exactly threshold shares", &shares[..tu], &epoch, Some(true));
      check("threshold + 1 shares", &shares, &epoch, Some(true));
      let mut sh = shares.clone();
      g.shuffle(&mut sh);
      sh.truncate(tu);
      sh.push(sh[0].clone());
      g.shuffle(&mut sh);
      check("shuffled with a repeat", &sh, &epoch, Some(true));
      // below
      if tu >= 2 {
        check("threshold - 1 shares", &shares[..tu - 1], &epoch, Some(false));
        let mut d: Vec<String> = shares[..tu - 1].to_vec();
        for _ in 0..g.range(1, 3) {
          d.push(shares[g.below(tu as u64 - 1) as usize].clone());
        }
        g.shuffle(&mut d);
        check("threshold - 1 distinct shares padded with repeats", &d, &epoch, Some(false));
      }
      // wrong epoch
      let other = loop {
        let e = gen_epoch(&mut g);
        if e != epoch {
          break e;
        }
      };
      check("wrong epoch", &shares[..tu], &other, None);
      // RELATED wrong epochs: the clients' epoch extended, or cut (at a machine-size length)
      for _ in 0..2 {
        if let Some(rel) = related_epoch(&mut g, &epoch) {
          stat("oracle.C17.related_wrong_epoch");
          check("wrong epoch (extension / truncation of the clients' epoch)", &shares[..tu], &rel, None);
        }
      }
      // mixed measurements, none reaches its threshold
      if tu >= 2 {
        let m2 = { let mut v = m.clone(); v.push(7); v };
        let m3 = { let mut v = m.clone(); v.push(8); v };
        let mut mix: Vec<String> = shares[..tu - 1].to_vec();
        for mm in [&m2, &m3] {
          for _ in 0..tu - 1 {
            mix.push(json_field(&star_wasm::create_share(mm, t, &epoch), "share").unwrap());
          }
        }
        if g.chance(2, 3) {
          g.shuffle(&mut mix);
        }
        check("mixed measurements, none reaches its threshold", &mix, &epoch, Some(false));
      }
    } else {
      stat("oracle.C17.share_point_collision");
    }
    // malformed input never panics
    let sb = BASE64_STANDARD.decode(&shares[0]).unwrap();
    for _ in 0..(if quick(tier) { 6 } else { 12 }) {
      let chunk: String = match g.below(9) {
        0 => String::from_utf8_lossy(&{ let n = g.below(60) as usize; g.bytes(n) }).into_owned(),
        1 => BASE64_STANDARD.encode({ let n = g.below(300) as usize; g.bytes(n) }),
        2 => { let mut x = sb.clone(); let o = g.below(x.len() as u64) as usize; x[o] ^= 1 << g.below(8); BASE64_STANDARD.encode(x) }
        3 => BASE64_STANDARD.encode(&sb[..g.below(sb.len() as u64) as usize]),
        4 => BASE64_STANDARD.encode(yless(&sb)),
        5 => { let mut x = sb.clone(); let o = *g.pick(&[0usize, 4, 8 + 48, 8 + 48 + 4 + 32]); x[o..o + 4].copy_from_slice(&g.pick(&[0u32, 1, 23, 24, 0x7fff_ffff, 0xffff_fffb, 0xffff_fffc, 0xffff_ffff]).to_le_bytes()); BASE64_STANDARD.encode(x) }
        6 => { let s = &shares[0]; s[..g.below(s.len() as u64) as usize].to_string() }
        7 => String::new(),
        _ => { let s = &shares[0]; let mut c: Vec<char> = s.chars().collect(); let o = g.below(c.len() as u64) as usize; c[o] = *g.pick(&['*', '=', ' ', '\r', '-', '_', 'é']); c.into_iter().collect() }
      };
      let mut v: Vec<String> = shares[..g.range(0, tu as u64) as usize].to_vec();
      v.insert(g.below(v.len() as u64 + 1) as usize, chunk);
      let sep = *g.pick(&["\n", "\n", "\r\n", "\n\n"]);
      let ser = format!("{}{}", v.join(sep), if g.chance(1, 4) { "\n" } else { "" });
      let ep = if g.chance(1, 3) { gen_epoch(&mut g) } else { epoch.clone() };
      if group_guarded(&ser, &ep).is_err() {
        fail("group_shares_panicked", &desc("malformed input", &ser, &ep, &None));
      }
      stat("oracle.C17.malformed_inputs");
    }
    case(distinct);
    if case_i == 1 {
      sample(&[("threshold", t.to_string()), ("epoch", epoch.clone()), ("create_share", made[0].text.clone()), ("group_shares", format!("{:?}", star_wasm::group_shares(&shares[..tu].join("\n"), &epoch)))]);
    }
  }
}

// ---------------------------------------------------------------------------------------------

type Bag = BTreeMap<Vec<u8>, Vec<Vec<Option<Vec<u8>>>>>;

/// outputs as measurement ↦ list of sorted aux lists (one per output carrying that measurement)
fn bag(outs: &Canon) -> Bag {
  let mut b: Bag = BTreeMap::new();
  for (m, auxes) in outs {
    let mut a = auxes.clone();
    a.sort();
    b.entry(m.clone()).or_default().push(a);
  }
  for v in b.values_mut() {
    v.sort();
  }
  b
}

fn show_bag(b: &Bag) -> String {
  b.iter()
    .map(|(m, ls)| format!("{}={}", hex(m), ls.iter().map(|l| l.iter().map(aux_tok).collect::<Vec<_>>().join(",")).collect::<Vec<_>>().join("|")))
    .collect::<Vec<_>>()
    .join(";")
}

fn all_permutations(n: usize) -> Vec<Vec<usize>> {
  fn rec(cur: &mut Vec<usize>, used: &mut Vec<bool>, out: &mut Vec<Vec<usize>>) {
    if cur.len() == used.len() {
      out.push(cur.clone());
      return;
    }
    for i in 0..used.len() {
      if !used[i] {
        used[i] = true;
        cur.push(i);
        rec(cur, used, out);
        cur.pop();
        used[i] = false;
      }
    }
  }
  let mut out = Vec::new();
  rec(&mut Vec::new(), &mut vec![false; n], &mut out);
  out
}

/// PARTIAL TAG COLLISIONS: measurements whose 32-byte tags agree on their first (or last) four bytes,
/// found by a birthday search, reported in interleaved order - a bucketing that keys, sorts or
/// hashes on part of the tag splits or merges exactly these groups
fn c18_partial_tag_collisions(g: &mut Sm, q: bool) {
  use std::collections::HashMap;
  let t = 3u32;
  let epoch = "t";
  let tag_of = |m: &[u8]| -> [u8; 32] {
    let mg = MessageGenerator::new(SingleMeasurement::new(m), t, epoch.as_bytes());
    let mut rnd = [0u8; 32];
    mg.sample_local_randomness(&mut rnd);
    let mut tag = [0u8; 32];
    sta_rs::strobe_digest(&rnd, &[&[2u8]], "star_derive_randoms", &mut tag);
    tag
  };
  let n = if q { 200_000u32 } else { 600_000 };
  let base = g.next();
  for (what, take) in [("first four bytes", 0usize), ("last four bytes", 28usize)] {
    let mut seen: HashMap<[u8; 4], u32> = HashMap::new();
    let mut pairs: Vec<(Vec<u8>, Vec<u8>)> = Vec::new();
    for i in 0..n {
      let m = format!("pc-{}-{}", base, i).into_bytes();
      let tg = tag_of(&m);
      let key: [u8; 4] = tg[take..take + 4].try_into().unwrap();
      if let Some(j) = seen.insert(key, i) {
        pairs.push((format!("pc-{}-{}", base, j).into_bytes(), m));
        if pairs.len() >= 3 {
          break;
        }
      }
    }
    stat_n(&format!("oracle.C18.partial_tag_collisions.{}", if take == 0 { "prefix" } else { "suffix" }), pairs.len() as u64);
    for (a, b) in pairs {
      // t + 1 reports each, interleaved A B A B ..., then grouped, on pools of 1 and 4 threads
      let mut inter: Vec<(Vec<u8>, Option<Vec<u8>>)> = Vec::new();
      for k in 0..(t + 1) {
        inter.push((a.clone(), Some(vec![k as u8; 3])));
        inter.push((b.clone(), if k % 2 == 0 { None } else { Some(vec![0x80 | k as u8; 2]) }));
      }
      let mut grouped = inter.clone();
      grouped.sort_by(|x, y| x.0.cmp(&y.0));
      for (order_name, clients) in [("interleaved", &inter), ("grouped", &grouped)] {
        let msgs: Vec<Message> = clients.iter().map(|(m, aux)| make_client(m, epoch.as_bytes(), t, aux.clone(), None).msg).collect();
        let mut want: Bag = BTreeMap::new();
        for (m, aux) in clients.iter() {
          want.entry(m.clone()).or_insert_with(|| vec![vec![]])[0].push(aux.clone());
        }
        for v in want.values_mut() {
          v[0].sort();
        }
        for threads in [1usize, 4] {
          let d = |got: &str| {
            vec![("what", format!("two measurements whose tags agree on their {}, reports {}", what, order_name)), ("measurement_1", hex(&a)), ("measurement_2", hex(&b)), ("threshold", t.to_string()), ("epoch", epoch.to_string()), ("threads", threads.to_string()), ("expected", show_bag(&want)), ("got", got.to_string())]
          };
          match run_server(t, epoch, &msgs, threads) {
            None => fail("server_panicked", &d("")),
            Some(outs) => {
              let got = bag(&outs);
              if got != want {
                let kind = if got.values().any(|v| v.len() > 1) { "measurement_output_twice" } else if want.keys().any(|k| !got.contains_key(k)) { "measurement_missing" } else { "wrong_associated_data" };
                fail(kind, &d(&show_bag(&got)));
              }
            }
          }
          case(true);
        }
      }
    }
  }
}

/// BOUNDARY TAG BYTES: measurements whose tag begins or ends with 0x00, 0x01, 0x7f, 0x80, 0xfe, 0xff
/// (found by scanning), all reported in one batch - a bucketing that shards, indexes or ranges on a
/// tag byte meets every edge of the byte range
fn c18_boundary_tag_bytes(g: &mut Sm) {
  let t = 2u32;
  let epoch = "edge";
  let base = g.next();
  let edges = [0x00u8, 0x01, 0x7f, 0x80, 0xfe, 0xff];
  let mut found: BTreeMap<(usize, u8), Vec<u8>> = BTreeMap::new();
  for i in 0..20_000u32 {
    if found.len() == 2 * edges.len() {
      break;
    }
    let m = format!("edge-{}-{}", base, i).into_bytes();
    let mg = MessageGenerator::new(SingleMeasurement::new(&m), t, epoch.as_bytes());
    let mut rnd = [0u8; 32];
    mg.sample_local_randomness(&mut rnd);
    let mut tag = [0u8; 32];
    sta_rs::strobe_digest(&rnd, &[&[2u8]], "star_derive_randoms", &mut tag);
    for pos in [0usize, 31] {
      if edges.contains(&tag[pos]) {
        found.entry((pos, tag[pos])).or_insert_with(|| m.clone());
      }
    }
  }
  stat_n("oracle.C18.boundary_tag_bytes.measurements", found.len() as u64);
  let mut clients: Vec<(Vec<u8>, Option<Vec<u8>>)> = Vec::new();
  for (k, m) in found.values().enumerate() {
    for i in 0..(t as usize + k % 2) {
      clients.push((m.clone(), if (i + k) % 3 == 0 { None } else { Some(vec![k as u8, i as u8]) }));
    }
  }
  g.shuffle(&mut clients);
  let msgs: Vec<Message> = clients.iter().map(|(m, a)| make_client(m, epoch.as_bytes(), t, a.clone(), None).msg).collect();
  let mut want: Bag = BTreeMap::new();
  for (m, a) in clients.iter() {
    want.entry(m.clone()).or_insert_with(|| vec![vec![]])[0].push(a.clone());
  }
  for v in want.values_mut() {
    v[0].sort();
  }
  for threads in [1usize, 4] {
    let d = |got: &str| {
      let which: Vec<String> = found.iter().map(|((pos, b), m)| format!("tag[{}]={:02x}:{}", pos, b, hex(m))).collect();
      vec![("what", "measurements whose tags begin or end with a boundary byte, one batch".to_string()), ("measurements", which.join(" ")), ("threshold", t.to_string()), ("epoch", epoch.to_string()), ("threads", threads.to_string()), ("expected", show_bag(&want)), ("got", got.to_string())]
    };
    match run_server(t, epoch, &msgs, threads) {
      None => fail("server_panicked", &d("")),
      Some(outs) => {
        let got = bag(&outs);
        if got != want {
          let kind = if got.values().any(|v| v.len() > 1) { "measurement_output_twice" } else if want.keys().any(|k| !got.contains_key(k)) { "measurement_missing" } else { "wrong_associated_data" };
          fail(kind, &d(&show_bag(&got)));
        }
      }
    }
    case(true);
  }
}

pub fn c18(tier: &str, seed: u64) {
  let mut g = Sm::new(seed, "oracle.C18");
  let q = quick(tier);
  c18_partial_tag_collisions(&mut g, q);
  c18_boundary_tag_bytes(&mut g);
  // HIGH thresholds with LARGE buckets (a bucket cut into jobs must still count as one): thresholds
  // above 32 with one measurement of 65..200 reports, next to groups at / just below the threshold
  for (t, big) in [(33u32, 65usize), (40, 70), (65, 129), (33, 200), (100, 101)] {
    let epoch = "hi";
    let mut clients: Vec<(Vec<u8>, Option<Vec<u8>>)> = Vec::new();
    for (name, cnt) in [("popular", big), ("exact", t as usize), ("short", t as usize - 1)] {
      for i in 0..cnt {
        clients.push((name.as_bytes().to_vec(), if i % 3 == 0 { None } else { Some(vec![(i % 251) as u8, (i / 251) as u8, 9]) }));
      }
    }
    g.shuffle(&mut clients);
    let msgs: Vec<Message> = clients.iter().map(|(m, a)| make_client(m, epoch.as_bytes(), t, a.clone(), None).msg).collect();
    let mut want: Bag = BTreeMap::new();
    for (m, a) in clients.iter().filter(|(m, _)| m != b"short") {
      want.entry(m.clone()).or_insert_with(|| vec![vec![]])[0].push(a.clone());
    }
    for v in want.values_mut() {
      v[0].sort();
    }
    for threads in [1usize, 8] {
      let d = |got: &str| vec![("what", format!("threshold {} with groups of {} / {} / {} reports", t, big, t, t - 1)), ("threshold", t.to_string()), ("epoch", epoch.to_string()), ("threads", threads.to_string()), ("expected", show_bag(&want).chars().take(600).collect()), ("got", got.chars().take(600).collect())];
      match run_server(t, epoch, &msgs, threads) {
        None => fail("server_panicked", &d("")),
        Some(outs) => {
          let got = bag(&outs);
          if got != want {
            let kind = if got.values().any(|v| v.len() > 1) { "measurement_output_twice" } else if want.keys().any(|k| !got.contains_key(k)) { "measurement_missing" } else if got.keys().any(|k| !want.contains_key(k)) { "below_threshold_measurement_output" } else { "wrong_associated_data" };
            fail(kind, &d(&show_bag(&got)));
          }
        }
      }
      case(true);
      stat("oracle.C18.high_thresholds_large_buckets");
    }
  }
  let n = if q { 500 } else { 4000 };
  for case_i in 0..n {
    let t = match case_i % 6 {
      0 => 1,
      1 => 2,
      _ => g.range(1, 8) as u32,
    };
    let epoch = gen_epoch(&mut g);
    let e = epoch.as_bytes();
    let small = case_i % 4 == 3; // small enough to try ALL orders
    // large batches (thousands of reports, mostly below-threshold filler): internal batching /
    // splitting thresholds of a parallel implementation only show beyond a few thousand reports
    let huge = case_i == 2 || (!q && case_i % 400 == 2);
    let ngroups = if huge {
      if q { 8000 } else { 22000 }
    } else if small {
      g.range(1, 2) as usize
    } else if !q && case_i % 25 == 0 {
      g.range(100, 300) as usize
    } else {
      g.range(0, if q { 10 } else { 30 }) as usize
    };
    // ONE POPULAR measurement: a group whose size sits at a counter width (8 / 16 bits), at it plus
    // less than the threshold, and at multiples of it
    let popular = !huge && !small && case_i % 9 == 4;
    let ngroups = if popular { ngroups.max(2) } else { ngroups };
    let popular_size = if popular {
      stat("oracle.C18.popular_measurement_counter_width");
      let tt = t as usize;
      if !q && case_i % 360 == 4 { *g.pick(&[65535usize, 65536, 65537]) } else { *g.pick(&[255usize, 256, 257, 258, 255 + tt, 256 + tt, 511, 512, 513, 768]) }
    } else {
      0
    };
    // the clients
    let mut clients: Vec<(Vec<u8>, Option<Vec<u8>>)> = Vec::new();
    for gi in 0..ngroups {
      let mut m = { let n = g.below(40) as usize; g.blob(n) };
      m.extend((gi as u32).to_le_bytes());
      let size = if popular && gi == 1 {
        popular_size
      } else if huge {
        // a few groups at/above the threshold whose reports end up far apart after shuffling
        if gi % 1000 == 7 { t as usize + (gi / 1000) % 3 } else { g.range(1, 2) as usize }
      } else if small {
        g.range(1, 3) as usize
      } else {
        match g.below(4) {
          0 => t.max(2) as usize - 1,
          1 => t as usize,
          _ => g.range(1, 2 * t as u64) as usize,
        }
      };
      for _ in 0..size {
        let aux = match g.below(4) {
          0 => None,
          1 => Some(vec![]),
          // now and then long associated data (payloads beyond one and two cipher blocks), different
          // for every client of the group
          _ if !huge && gi % 3 == 1 => Some({ let n = *g.pick(&[120usize, 127, 160, 200, 340, 400]); g.bytes(n) }),
          _ => Some({ let n = g.range(1, 24) as usize; g.blob(n) }),
        };
        clients.push((m.clone(), aux));
      }
    }
    let t = if small { t.min(2) } else { t };
    let msgs: Vec<Message> = clients.iter().map(|(m, a)| make_client(m, e, t, a.clone(), None).msg).collect();
    // specification: measurement ↦ multiset of attached data, for groups of at least t clients
    let mut spec: BTreeMap<Vec<u8>, Vec<Option<Vec<u8>>>> = BTreeMap::new();
    for (m, a) in &clients {
      spec.entry(m.clone()).or_default().push(a.clone());
    }
    spec.retain(|_, v| v.len() >= t as usize);
    let strict: Bag = spec.iter().map(|(m, v)| { let mut a = v.clone(); a.sort(); (m.clone(), vec![a]) }).collect();
    let normalised: Bag = spec
      .iter()
      .map(|(m, v)| {
        let mut a: Vec<Option<Vec<u8>>> = v.iter().map(|x| match x { Some(d) if d.is_empty() => None, o => o.clone() }).collect();
        a.sort();
        (m.clone(), vec![a])
      })
      .collect();
    let desc = |what: &str, order: &[usize], threads: usize, got: &str| {
      vec![
        ("what", what.to_string()),
        ("threshold", t.to_string()),
        ("epoch", epoch.clone()),
        ("threads", threads.to_string()),
        ("clients", clients.iter().take(40).map(|(m, a)| format!("{}:{}", hex(m), aux_tok(a))).collect::<Vec<_>>().join(" ")),
        ("client_count", clients.len().to_string()),
        ("order", format!("{:?}", &order[..order.len().min(60)])),
        ("expected", show_bag(&strict).chars().take(2000).collect()),
        ("got", got.chars().take(2000).collect()),
      ]
    };
    // orders: all of them for small inputs, a seeded sample otherwise; pools of 1..16 threads
    let orders: Vec<Vec<usize>> = if msgs.len() <= 5 {
      all_permutations(msgs.len())
    } else {
      (0..(if q { 4 } else { 8 }))
        .map(|i| {
          let mut o: Vec<usize> = (0..msgs.len()).collect();
          if i > 0 {
            g.shuffle(&mut o);
          }
          o
        })
        .collect()
    };
    let mut first: Option<Bag> = None;
    let mut reported_empty = false;
    for (oi, order) in orders.iter().enumerate() {
      let sel: Vec<Message> = order.iter().map(|&i| msgs[i].clone()).collect();
      let threads = if oi == 0 { 1 } else { g.range(1, 16) as usize };
      stat(&format!("oracle.C18.threads.{}", threads));
      match run_server(t, &epoch, &sel, threads) {
        None => fail("server_panicked", &desc("retrieve_outputs panicked on honest reports", order, threads, "")),
        Some(outs) => {
          let b = bag(&outs);
          if b != strict {
            if b == normalised {
              if !reported_empty {
                fail("empty_aux_reported_as_none", &desc("a client that attached Some(vec![]) is reported with None", order, threads, &show_bag(&b)));
                reported_empty = true;
              }
            } else if b.values().any(|v| v.len() > 1) {
              fail("measurement_output_twice", &desc("a measurement appears in more than one output", order, threads, &show_bag(&b)));
            } else if b.keys().any(|k| !strict.contains_key(k)) {
              fail("below_threshold_measurement_output", &desc("a measurement reported by fewer than threshold clients was output", order, threads, &show_bag(&b)));
            } else if strict.keys().any(|k| !b.contains_key(k)) {
              fail("measurement_missing", &desc("a measurement reported by at least threshold clients is missing", order, threads, &show_bag(&b)));
            } else {
              fail("wrong_associated_data", &desc("the associated data of a measurement differ from what its clients attached", order, threads, &show_bag(&b)));
            }
          }
          match &first {
            None => first = Some(b),
            Some(f) => {
              if *f != b {
                fail("order_or_thread_dependent", &desc(&format!("output differs from the one for the first order: {}", show_bag(f)), order, threads, &show_bag(&b)));
              }
            }
          }
        }
      }
      stat("oracle.C18.runs");
    }
    // HISTORY: a long-lived server polled with several batches. Second batch: every measurement cut
    // down to at most t-1 reports except a few kept whole; third batch: everything again. Each
    // answer must be the one a fresh server gives for that batch alone.
    if !huge && case_i % 3 != 2 && !clients.is_empty() {
      let mut count: BTreeMap<Vec<u8>, usize> = BTreeMap::new();
      let mut keep_whole: BTreeMap<Vec<u8>, bool> = BTreeMap::new();
      let mut cut_idx: Vec<usize> = Vec::new();
      for (i, (m, _)) in clients.iter().enumerate() {
        let whole = *keep_whole.entry(m.clone()).or_insert_with(|| g.chance(1, 4));
        let c = count.entry(m.clone()).or_insert(0);
        *c += 1;
        if whole || *c < t as usize {
          cut_idx.push(i);
        }
      }
      let all_idx: Vec<usize> = (0..clients.len()).collect();
      let idx_batches = vec![all_idx.clone(), cut_idx, all_idx];
      let batches: Vec<Vec<Message>> = idx_batches.iter().map(|ix| ix.iter().map(|&i| msgs[i].clone()).collect()).collect();
      let threads = g.range(1, 8) as usize;
      let outs = run_server_history(t, &epoch, &batches, threads);
      for (bi, (ix, o)) in idx_batches.iter().zip(outs).enumerate() {
        let mut sp: BTreeMap<Vec<u8>, Vec<Option<Vec<u8>>>> = BTreeMap::new();
        for &i in ix {
          sp.entry(clients[i].0.clone()).or_default().push(clients[i].1.clone());
        }
        sp.retain(|_, v| v.len() >= t as usize);
        let norm = |x: &Option<Vec<u8>>| match x { Some(d) if d.is_empty() => None, o => o.clone() };
        let want: Bag = sp.iter().map(|(m, v)| { let mut a: Vec<_> = v.iter().map(norm).collect(); a.sort(); (m.clone(), vec![a]) }).collect();
        let what = format!("one server object, batch {} of 3 (all reports / measurements cut below the threshold / all reports)", bi + 1);
        match o {
          None => fail("server_panicked", &desc(&what, ix, threads, "")),
          Some(outs) => {
            let got: Bag = bag(&outs).into_iter().map(|(m, vs)| (m, vs.into_iter().map(|v| { let mut a: Vec<_> = v.iter().map(norm).collect(); a.sort(); a }).collect())).collect();
            if got != want {
              let kind = if got.keys().any(|k| !want.contains_key(k)) { "below_threshold_measurement_output" } else if want.keys().any(|k| !got.contains_key(k)) { "measurement_missing" } else { "wrong_associated_data" };
              let mut d = desc(&what, ix, threads, &show_bag(&got));
              d.push(("expected_for_this_batch", show_bag(&want).chars().take(2000).collect()));
              fail(kind, &d);
            }
          }
        }
        stat("oracle.C18.server_reused_across_batches");
      }
    }
    case(!spec.is_empty());
    stat_n("oracle.C18.groups", ngroups as u64);
    if case_i == 2 {
      sample(&[("threshold", t.to_string()), ("clients", clients.len().to_string()), ("groups", ngroups.to_string()), ("output", first.as_ref().map(show_bag).unwrap_or_default().chars().take(400).collect())]);
    }
  }
}
