//! Third-party specification streams: keccak-f[1600], strobe-rs operation sequences, StrobeRng.
use crate::util::*;
use strobe_rs::{SecParam, Strobe};

const LENS: &[usize] = &[0, 1, 2, 7, 8, 16, 32, 64, 163, 164, 165, 166, 167, 168, 331, 332, 333, 500];

pub fn keccak(tier: &str, seed: u64) {
  let mut g = Sm::new(seed, "keccak");
  let n = if quick(tier) { 24 } else { 400 };
  for i in 0..n {
    let st: Vec<u8> = match i {
      0 => vec![0u8; 200],
      1 => vec![0xff; 200],
      2 => (0..200).map(|k| k as u8).collect(),
      _ => g.bytes(200),
    };
    let mut lanes = [0u64; 25];
    for k in 0..25 {
      lanes[k] = u64::from_le_bytes(st[8 * k..8 * k + 8].try_into().unwrap());
    }
    keccak::f1600(&mut lanes);
    let out: Vec<u8> = lanes.iter().flat_map(|l| l.to_le_bytes()).collect();
    emit(&format!("keccak {}", hex(&st)), &format!("ok {}", hex(&out)));
  }
}

fn gen_len(g: &mut Sm) -> usize {
  if g.chance(2, 3) {
    *g.pick(LENS)
  } else {
    g.below(400) as usize
  }
}

/// random operation sequences through the real `strobe-rs`, including block-boundary lengths
pub fn strobe(tier: &str, seed: u64) {
  let mut g = Sm::new(seed, "strobe");
  let n = if quick(tier) { 150 } else { 4000 };
  for case in 0..n {
    let proto_len = if case % 7 == 0 { gen_len(&mut g) } else { g.range(0, 24) as usize };
    let proto = g.blob(proto_len);
    let mut s = Strobe::new(&proto, SecParam::B128);
    let nops = g.range(1, if quick(tier) { 8 } else { 14 }) as usize;
    let mut toks = Vec::new();
    let mut outs = Vec::new();
    // direction is fixed by the first transport op: keep the sequence valid for one role
    let mut role: Option<bool> = None;
    for _ in 0..nops {
      let len = gen_len(&mut g);
      let kind = g.below(8);
      match kind {
        0 => {
          let d = g.blob(len);
          s.ad(&d, false);
          toks.push(format!("ad:{}", hex(&d)));
          outs.push("-".to_string());
          stat("strobe.op.ad");
        }
        1 => {
          let d = g.blob(len % 40);
          s.meta_ad(&d, false);
          toks.push(format!("mad:{}", hex(&d)));
          outs.push("-".to_string());
          stat("strobe.op.meta_ad");
        }
        2 => {
          let d = g.blob(len);
          s.key(&d, false);
          toks.push(format!("key:{}", hex(&d)));
          outs.push("-".to_string());
          stat("strobe.op.key");
        }
        3 => {
          let mut d = vec![0u8; len];
          s.prf(&mut d, false);
          toks.push(format!("prf:{}", len));
          outs.push(hex(&d));
          stat("strobe.op.prf");
        }
        4 | 5 => {
          // both enc directions are legal in one role (is_receiver only toggles the I bit)
          let send = if role.is_none() { kind == 4 } else { g.chance(1, 2) };
          role.get_or_insert(!send);
          let mut d = g.blob(len);
          if send {
            toks.push(format!("senc:{}", hex(&d)));
            s.send_enc(&mut d, false);
            stat("strobe.op.send_enc");
          } else {
            toks.push(format!("renc:{}", hex(&d)));
            s.recv_enc(&mut d, false);
            stat("strobe.op.recv_enc");
          }
          outs.push(hex(&d));
        }
        6 => {
          role.get_or_insert(false);
          let mut d = vec![0u8; 64.min(len.max(1))];
          s.send_mac(&mut d, false);
          toks.push(format!("smac:{}", d.len()));
          outs.push(hex(&d));
          stat("strobe.op.send_mac");
        }
        _ => {
          role.get_or_insert(true);
          // random MACs here (rejected); accepted MACs are covered by the sender/receiver pairs below
          let mut mac = [0u8; 16];
          mac.copy_from_slice(&g.bytes(16));
          let ok = s.recv_mac(&mac).is_ok();
          toks.push(format!("rmac:{}", hex(&mac)));
          outs.push(if ok { "T".into() } else { "F".into() });
          stat("strobe.op.recv_mac");
        }
      }
      if len >= 166 {
        stat("strobe.multi_block_ops");
      }
    }
    emit(&format!("strobe {} {}", hex(&proto), toks.join(" ")), &format!("ok {}", outs.join(",")));
  }
  // sender/receiver pairs: send_mac on one side verified by recv_mac on the other
  let m = if quick(tier) { 40 } else { 600 };
  for _ in 0..m {
    let proto = { let n_ = g.range(1, 12) as usize; g.blob(n_) };
    let k = { let n_ = gen_len(&mut g) % 200; g.blob(n_) };
    let msg = { let n_ = gen_len(&mut g); g.blob(n_) };
    let mut tx = Strobe::new(&proto, SecParam::B128);
    tx.key(&k, false);
    let mut c = msg.clone();
    tx.send_enc(&mut c, false);
    let mut mac = [0u8; 32];
    tx.send_mac(&mut mac, false);
    let tamper = g.chance(1, 3);
    if tamper {
      let i = g.below(32) as usize;
      mac[i] ^= 1 << g.below(8);
    }
    let mut rx = Strobe::new(&proto, SecParam::B128);
    rx.key(&k, false);
    let mut p = c.clone();
    rx.recv_enc(&mut p, false);
    let ok = rx.recv_mac(&mac).is_ok();
    assert_eq!(p, msg);
    emit(
      &format!("strobe {} key:{} renc:{} rmac:{}", hex(&proto), hex(&k), hex(&c), hex(&mac)),
      &format!("ok -,{},{}", hex(&p), if ok { "T" } else { "F" }),
    );
    stat(if ok { "strobe.pair.mac_ok" } else { "strobe.pair.mac_rejected" });
  }
}

pub fn strobe_rng(tier: &str, seed: u64) {
  use rand_core::RngCore;
  let mut g = Sm::new(seed, "strobe_rng");
  let n = if quick(tier) { 60 } else { 1500 };
  for _ in 0..n {
    let proto = { let n_ = g.range(1, 20) as usize; g.blob(n_) };
    let k = { let n_ = gen_len(&mut g) % 100; g.blob(n_) };
    // the repository's StrobeRng copies are private; this is their body, verbatim
    let mut t = Strobe::new(&proto, SecParam::B128);
    t.key(&k, false);
    let mut sizes = Vec::new();
    let mut outs = Vec::new();
    for _ in 0..g.range(1, 6) {
      let sz = if g.chance(1, 2) { 8 } else { gen_len(&mut g) };
      let mut d = vec![0u8; sz];
      let dl = (d.len() as u32).to_le_bytes();
      t.meta_ad(&dl, false);
      t.prf(&mut d, false);
      sizes.push(sz.to_string());
      outs.push(hex(&d));
    }
    emit(&format!("rng {} {} {}", hex(&proto), hex(&k), sizes.join(",")), &format!("ok {}", outs.join(",")));
  }
  // and through the public API that wraps the private copy: sta_rs::strobe_digest
  for _ in 0..n {
    let key = { let n_ = gen_len(&mut g) % 200; g.blob(n_) };
    let nad = g.range(1, 3) as usize;
    let ads: Vec<Vec<u8>> = (0..nad).map(|_| { let n_ = gen_len(&mut g) % 64; g.blob(n_) }).collect();
    let refs: Vec<&[u8]> = ads.iter().map(|v| v.as_slice()).collect();
    let label = ["star_sample_local", "star_derive_randoms", "star_derive_ske_key", "x"][g.below(4) as usize];
    let mut out = [0u8; 32];
    sta_rs::strobe_digest(&key, &refs, label, &mut out);
    let adh: Vec<String> = ads.iter().map(|a| hex(a)).collect();
    emit(&format!("digest {} {} {}", hex(label.as_bytes()), hex(&key), adh.join(",")), &format!("ok {}", hex(&out)));
  }
  let _ = ScriptRng::new(vec![], 0).next_u64();
}
