//! `scalar`, `ristretto`, `ppoprf`, `server` streams: curve25519-dalek scalars and ristretto255
//! points, and the PPOPRF protocol layer (`ppoprf::ppoprf`) through its public API plus the
//! `verif-hooks` inspection hooks. Values the implementation draws from `OsRng` (blinding
//! scalar, DLEQ nonce, server key material) are read back and handed to the model.
use crate::util::*;
use curve25519_dalek::constants::RISTRETTO_BASEPOINT_POINT as BASE;
use curve25519_dalek::ristretto::{CompressedRistretto, RistrettoPoint};
use curve25519_dalek::scalar::Scalar;
use curve25519_dalek::traits::Identity;
use num_bigint::BigUint;
use num_traits::One;
use ppoprf::ppoprf::{Client, CurveScalar, Evaluation, Point, ProofDLEQ, Server, ServerKeyState, ServerPublicKey};
use ppoprf::PPRF;

// ---------------------------------------------------------------------------------------------
// helpers
// ---------------------------------------------------------------------------------------------

pub fn ell() -> BigUint {
  (BigUint::one() << 252) + BigUint::parse_bytes(b"27742317777372353535851937790883648493", 10).unwrap()
}

pub fn field_p() -> BigUint {
  (BigUint::one() << 255) - BigUint::from(19u32)
}

pub fn le_n(n: &BigUint, len: usize) -> Vec<u8> {
  let mut v = n.to_bytes_le();
  v.resize(len, 0);
  v.truncate(len);
  v
}

pub fn arr32(v: &[u8]) -> [u8; 32] {
  let mut a = [0u8; 32];
  a.copy_from_slice(&v[..32]);
  a
}

pub fn arr64(v: &[u8]) -> [u8; 64] {
  let mut a = [0u8; 64];
  a.copy_from_slice(&v[..64]);
  a
}

pub fn scalar_of_big(n: &BigUint) -> Scalar {
  Scalar::from_bytes_mod_order(arr32(&le_n(&(n % ell()), 32)))
}

pub fn rand_scalar(g: &mut Sm) -> Scalar {
  Scalar::from_bytes_mod_order_wide(&arr64(&g.bytes(64)))
}

pub fn sch(s: &Scalar) -> String {
  hex(&s.to_bytes())
}

pub fn pth(p: &RistrettoPoint) -> String {
  hex(p.compress().as_bytes())
}

pub fn boundary_scalars() -> Vec<Scalar> {
  let l = ell();
  let one = BigUint::one();
  let mut v: Vec<BigUint> = vec![
    BigUint::from(0u32),
    one.clone(),
    BigUint::from(2u32),
    BigUint::from(3u32),
    BigUint::from(8u32),
    &l - &one,
    &l - BigUint::from(2u32),
    &l - BigUint::from(8u32),
    (&l - &one) >> 1,
    (&l + &one) >> 1,
    &one << 252,
    (&one << 252) - &one,
    &one << 128,
    (&one << 128) - &one,
    &one << 64,
    (&one << 64) - &one,
    &one << 251,
    BigUint::from(27742317777372353535851937790883648493u128),
  ];
  v.push(&l - (&one << 128));
  v.into_iter().map(|n| scalar_of_big(&n)).collect()
}

pub fn gen_scalar(g: &mut Sm, bnd: &[Scalar]) -> Scalar {
  match g.below(5) {
    0 | 1 => *g.pick(bnd),
    2 => Scalar::from(g.next() >> g.below(64)),
    _ => rand_scalar(g),
  }
}

// ---------------------------------------------------------------------------------------------
// scalar stream
// ---------------------------------------------------------------------------------------------

pub fn scalar(tier: &str, seed: u64) {
  let mut g = Sm::new(seed, "scalar");
  let bnd = boundary_scalars();
  let l = ell();
  let one = BigUint::one();
  // all boundary pairs once
  for a in bnd.iter() {
    emit(&format!("sc.un neg {}", sch(a)), &format!("ok {}", sch(&-a)));
    emit(&format!("sc.un invert {}", sch(a)), &format!("ok {}", sch(&a.invert())));
    if *a == Scalar::ZERO {
      stat("scalar.invert_zero");
    }
  }
  for a in bnd.iter().take(8) {
    for b in bnd.iter().take(8) {
      emit(&format!("sc.bin add {} {}", sch(a), sch(b)), &format!("ok {}", sch(&(a + b))));
      emit(&format!("sc.bin sub {} {}", sch(a), sch(b)), &format!("ok {}", sch(&(a - b))));
      emit(&format!("sc.bin mul {} {}", sch(a), sch(b)), &format!("ok {}", sch(&(a * b))));
    }
  }
  let n = if quick(tier) { 300 } else { 20000 };
  for i in 0..n {
    let a = gen_scalar(&mut g, &bnd);
    let b = gen_scalar(&mut g, &bnd);
    emit(&format!("sc.bin add {} {}", sch(&a), sch(&b)), &format!("ok {}", sch(&(a + b))));
    emit(&format!("sc.bin sub {} {}", sch(&a), sch(&b)), &format!("ok {}", sch(&(a - b))));
    emit(&format!("sc.bin mul {} {}", sch(&a), sch(&b)), &format!("ok {}", sch(&(a * b))));
    emit(&format!("sc.un neg {}", sch(&a)), &format!("ok {}", sch(&-a)));
    if i % 4 == 0 {
      emit(&format!("sc.un invert {}", sch(&a)), &format!("ok {}", sch(&a.invert())));
    }
  }
  // from_bytes_mod_order on arbitrary 32 bytes
  let mut raw32: Vec<Vec<u8>> = vec![
    vec![0u8; 32],
    vec![0xffu8; 32],
    le_n(&l, 32),
    le_n(&(&l + &one), 32),
    le_n(&(&l - &one), 32),
    le_n(&(&l * 2u32), 32),
    le_n(&(&l * 2u32 - &one), 32),
    le_n(&(&l * 8u32), 32),
    le_n(&(&l * 15u32), 32),
    le_n(&(&l * 16u32 - &one), 32),
    le_n(&(&one << 255), 32),
    le_n(&((&one << 255) - &one), 32),
    le_n(&((&one << 256) - &one), 32),
    le_n(&(&one << 252), 32),
    le_n(&((&one << 253) - &one), 32),
    le_n(&field_p(), 32),
  ];
  for _ in 0..(if quick(tier) { 200 } else { 10000 }) {
    let mut b = g.blob(32);
    match g.below(4) {
      0 => b[31] |= 0xf0,
      1 => b[31] &= 0x0f,
      2 => {
        // just around a multiple of ell
        let k = g.below(16) as u32;
        let d = g.below(5);
        let v = &l * k + BigUint::from(d);
        let v = if g.chance(1, 2) && k > 0 { v - BigUint::from(2 * d) } else { v };
        b = le_n(&v, 32);
      }
      _ => {}
    }
    raw32.push(b);
  }
  for b in raw32.iter() {
    let big = BigUint::from_bytes_le(b);
    stat(if big >= l { "scalar.fbmo.ge_ell" } else { "scalar.fbmo.lt_ell" });
    let s = Scalar::from_bytes_mod_order(arr32(b));
    emit(&format!("sc.fbmo {}", hex(b)), &format!("ok {}", sch(&s)));
    let c: Option<Scalar> = Option::from(Scalar::from_canonical_bytes(arr32(b)));
    stat(if c.is_some() { "scalar.canon.accept" } else { "scalar.canon.reject" });
    emit(&format!("sc.canon {}", hex(b)), &match c {
      Some(s) => format!("ok {}", sch(&s)),
      None => "err".into(),
    });
  }
  // canonical encodings are accepted
  for _ in 0..(if quick(tier) { 50 } else { 2000 }) {
    let a = gen_scalar(&mut g, &bnd);
    let c: Option<Scalar> = Option::from(Scalar::from_canonical_bytes(a.to_bytes()));
    stat(if c.is_some() { "scalar.canon.accept" } else { "scalar.canon.reject" });
    emit(&format!("sc.canon {}", sch(&a)), &match c {
      Some(s) => format!("ok {}", sch(&s)),
      None => "err".into(),
    });
  }
  // from_bytes_mod_order_wide on 64 bytes
  let mut raw64: Vec<Vec<u8>> = vec![
    vec![0u8; 64],
    vec![0xffu8; 64],
    le_n(&l, 64),
    le_n(&(&l - &one), 64),
    le_n(&(&l * &l), 64),
    le_n(&(&l * &l - &one), 64),
    le_n(&(&one << 256), 64),
    le_n(&((&one << 256) - &one), 64),
    le_n(&(&one << 511), 64),
    le_n(&(&l << 256), 64),
    le_n(&((&l << 259) - &one), 64),
  ];
  for _ in 0..(if quick(tier) { 200 } else { 10000 }) {
    let mut b = g.blob(64);
    if g.chance(1, 4) {
      let k = BigUint::from_bytes_le(&g.bytes(32));
      b = le_n(&(&l * k + BigUint::from(g.below(3))), 64);
    }
    raw64.push(b);
  }
  for b in raw64.iter() {
    let s = Scalar::from_bytes_mod_order_wide(&arr64(b));
    emit(&format!("sc.wide {}", hex(b)), &format!("ok {}", sch(&s)));
  }
}

// ---------------------------------------------------------------------------------------------
// ristretto stream
// ---------------------------------------------------------------------------------------------

fn dec_ans(b: &[u8]) -> String {
  match CompressedRistretto::from_slice(b).unwrap().decompress() {
    Some(p) => format!("ok {}", pth(&p)),
    None => "err".into(),
  }
}

/// why an encoding is refused, from the outside: non-canonical, negative, or off the curve /
/// wrong sign (the remaining checks of step 2)
fn dec_class(b: &[u8]) -> &'static str {
  let v = BigUint::from_bytes_le(b);
  if v >= field_p() {
    "noncanonical"
  } else if b[0] & 1 == 1 {
    "negative"
  } else {
    "step2"
  }
}

pub fn rand_point(g: &mut Sm) -> RistrettoPoint {
  match g.below(4) {
    0 => rand_scalar(g) * BASE,
    1 => Scalar::from(g.below(20)) * BASE,
    _ => RistrettoPoint::from_uniform_bytes(&arr64(&g.bytes(64))),
  }
}

pub fn ristretto(tier: &str, seed: u64) {
  let mut g = Sm::new(seed, "ristretto");
  let bnd = boundary_scalars();
  let l = ell();
  let p = field_p();
  let one = BigUint::one();
  emit("ris.id", &format!("ok {}", pth(&RistrettoPoint::identity())));
  emit(&format!("ris.dec {}", hex(&[0u8; 32])), &dec_ans(&[0u8; 32]));
  // small multiples of the base point
  for k in 0..17u64 {
    emit(&format!("ris.base {}", sch(&Scalar::from(k))), &format!("ok {}", pth(&(Scalar::from(k) * BASE))));
  }
  for k in bnd.iter() {
    emit(&format!("ris.base {}", sch(k)), &format!("ok {}", pth(&(k * BASE))));
  }
  let q = quick(tier);
  // decompression
  let mut encs: Vec<Vec<u8>> = Vec::new();
  // the field-level corner cases: s = 1, s = p-1 (y = 0), p .. p+18 (non-canonical), 2^255-1, all ones
  encs.push(le_n(&one, 32));
  encs.push(le_n(&(&p - &one), 32));
  for d in 0..19u32 {
    encs.push(le_n(&(&p + BigUint::from(d)), 32));
  }
  encs.push(vec![0xffu8; 32]);
  encs.push(le_n(&((&one << 255) - &one), 32));
  encs.push(le_n(&(&one << 255), 32)); // identity with the ignored top bit set
  for _ in 0..(if q { 120 } else { 6000 }) {
    let pt = rand_point(&mut g);
    let c = pt.compress().as_bytes().to_vec();
    match g.below(8) {
      0 | 1 | 2 => encs.push(c),
      3 => {
        // negative: p - s
        let s = BigUint::from_bytes_le(&c);
        encs.push(le_n(&((&p - s) % &p), 32));
      }
      4 => {
        // top bit set on a valid encoding
        let mut c = c;
        c[31] |= 0x80;
        encs.push(c);
      }
      5 => {
        // single bit flip
        let mut c = c;
        let i = g.below(256) as usize;
        c[i / 8] ^= 1 << (i % 8);
        encs.push(c);
      }
      6 => {
        // s + 2: even neighbour, canonical, nonnegative: fails (or not) in step 2 only
        let s = BigUint::from_bytes_le(&c);
        encs.push(le_n(&((s + BigUint::from(2u32)) % &p), 32));
      }
      _ => {
        let mut b = g.bytes(32);
        if g.chance(2, 3) {
          b[0] &= 0xfe;
          b[31] &= 0x7f;
        }
        encs.push(b);
      }
    }
  }
  for b in encs.iter() {
    let a = dec_ans(b);
    if a == "err" {
      stat(&format!("ristretto.dec.reject.{}", dec_class(b)));
    } else {
      stat("ristretto.dec.accept");
    }
    emit(&format!("ris.dec {}", hex(b)), &a);
  }
  // group operations on decompressed representatives
  let n = if q { 60 } else { 3000 };
  for i in 0..n {
    let a = rand_point(&mut g);
    let b = if g.chance(1, 6) { a } else if g.chance(1, 6) { -a } else { rand_point(&mut g) };
    emit(&format!("ris.add {} {}", pth(&a), pth(&b)), &format!("ok {}", pth(&(a + b))));
    emit(&format!("ris.sub {} {}", pth(&a), pth(&b)), &format!("ok {}", pth(&(a - b))));
    emit(&format!("ris.neg {}", pth(&a)), &format!("ok {}", pth(&-a)));
    emit(&format!("ris.dbl {}", pth(&a)), &format!("ok {}", pth(&(a + a))));
    emit(&format!("ris.eq {} {}", pth(&a), pth(&b)), &format!("ok {}", if a == b { "T" } else { "F" }));
    stat(if a == b { "ristretto.eq.T" } else { "ristretto.eq.F" });
    let k = gen_scalar(&mut g, &bnd);
    emit(&format!("ris.mul {} {}", sch(&k), pth(&a)), &format!("ok {}", pth(&(k * a))));
    if i % 3 == 0 {
      let k2 = gen_scalar(&mut g, &bnd);
      emit(&format!("ris.lin {} {} {} {}", sch(&k), pth(&a), sch(&k2), pth(&b)), &format!("ok {}", pth(&(k * a + k2 * b))));
      emit(&format!("ris.base {}", sch(&k2)), &format!("ok {}", pth(&(k2 * BASE))));
    }
  }
  // scalars given as raw bytes reduced by from_bytes_mod_order: ell, ell-1, ell+1, 2^256-1, ...
  let raws: Vec<Vec<u8>> = vec![
    le_n(&l, 32),
    le_n(&(&l - &one), 32),
    le_n(&(&l + &one), 32),
    le_n(&(&l * 2u32), 32),
    vec![0xffu8; 32],
    vec![0u8; 32],
    le_n(&one, 32),
  ];
  for r in raws.iter() {
    for _ in 0..(if q { 1 } else { 10 }) {
      let a = rand_point(&mut g);
      let k = Scalar::from_bytes_mod_order(arr32(r));
      emit(&format!("ris.mulb {} {}", hex(r), pth(&a)), &format!("ok {}", pth(&(k * a))));
    }
  }
  for _ in 0..(if q { 10 } else { 400 }) {
    let r = g.bytes(32);
    let a = rand_point(&mut g);
    let k = Scalar::from_bytes_mod_order(arr32(&r));
    emit(&format!("ris.mulb {} {}", hex(&r), pth(&a)), &format!("ok {}", pth(&(k * a))));
  }
  // the one-way map
  let mut unis: Vec<Vec<u8>> = vec![vec![0u8; 64], vec![0xffu8; 64]];
  {
    let mut b = vec![0u8; 64];
    b[0] = 1;
    unis.push(b.clone());
    b[32] = 1;
    unis.push(b);
    // both halves non-canonical field encodings / top bits set
    let mut c = le_n(&(&p + BigUint::from(3u32)), 32);
    c.extend(le_n(&((&one << 255) + BigUint::from(3u32)), 32));
    unis.push(c);
  }
  for _ in 0..(if q { 60 } else { 4000 }) {
    let mut b = g.blob(64);
    if g.chance(1, 8) {
      let h = b[..32].to_vec();
      b[32..].copy_from_slice(&h);
    }
    unis.push(b);
  }
  for (i, b) in unis.iter().enumerate() {
    let pt = RistrettoPoint::from_uniform_bytes(&arr64(b));
    emit(&format!("ris.uni {}", hex(b)), &format!("ok {}", pth(&pt)));
    if i % 3 == 0 {
      // arithmetic and equality on representatives that never went through decompress
      let k = gen_scalar(&mut g, &bnd);
      emit(&format!("ris.unimul {} {}", hex(b), sch(&k)), &format!("ok {}", pth(&(k * pt))));
      let b2 = if g.chance(1, 4) { b.clone() } else { g.bytes(64) };
      let k2 = if g.chance(1, 3) { Scalar::ONE } else { gen_scalar(&mut g, &bnd) };
      let pp = k2 * pt;
      let qq = RistrettoPoint::from_uniform_bytes(&arr64(&b2));
      let rr = (pp + qq) - qq;
      emit(
        &format!("ris.unieq {} {} {}", hex(b), hex(&b2), sch(&k2)),
        &format!("ok {} {}", if pp == rr { "T" } else { "F" }, if pp == qq { "T" } else { "F" }),
      );
    }
  }
}

// ---------------------------------------------------------------------------------------------
// ppoprf stream
// ---------------------------------------------------------------------------------------------

pub fn err_kind(e: &ppoprf::PPRFError) -> String {
  let d = format!("{:?}", e);
  d.split(|c: char| !c.is_ascii_alphanumeric()).next().unwrap_or("").to_string()
}

/// the material `Server::new` sampled, as the model's `Server.new` takes it:
/// `key:k0:k1:s0:s1:mds`. Only meaningful right after creation (no punctures yet).
pub fn server_spec(server: &Server, mds: &[u8]) -> String {
  let keys = server.verif_pprf().verif_prg_keys();
  let nodes = server.verif_pprf().verif_retained_nodes();
  assert!(keys.len() == 2 && nodes.len() == 2 && nodes[0].0 == vec![false] && nodes[1].0 == vec![true]);
  format!(
    "{}:{}:{}:{}:{}:{}",
    hex(&server.verif_oprf_key()),
    hex(&keys[0]),
    hex(&keys[1]),
    hex(&nodes[0].1),
    hex(&nodes[1].1),
    hex(mds)
  )
}

pub fn oprf_key(server: &Server) -> Scalar {
  Option::<Scalar>::from(Scalar::from_canonical_bytes(server.verif_oprf_key())).expect("canonical key")
}

/// `oprf_key + ts` for a tag, `None` when the tag is punctured
pub fn tagged_key(server: &Server, md: u8) -> Option<Scalar> {
  let mut tag = [0u8; 32];
  server.verif_pprf().eval(&[md], &mut tag).ok()?;
  Some(oprf_key(server) + Scalar::from_bytes_mod_order(tag))
}

pub fn proof_cs(p: &ProofDLEQ) -> (Scalar, Scalar) {
  let b = p.serialize_to_bincode().unwrap();
  assert_eq!(b.len(), 64);
  (
    Option::<Scalar>::from(Scalar::from_canonical_bytes(arr32(&b[..32]))).unwrap(),
    Option::<Scalar>::from(Scalar::from_canonical_bytes(arr32(&b[32..]))).unwrap(),
  )
}

pub fn make_proof(c: &Scalar, s: &Scalar) -> ProofDLEQ {
  let mut b = c.to_bytes().to_vec();
  b.extend_from_slice(&s.to_bytes());
  ProofDLEQ::load_from_bincode(&b).unwrap()
}

/// evaluate and describe the answer; for verifiable evaluations also recover the nonce
/// `r = s + c·k`. Returns (answer, nonce token, evaluation).
pub fn eval_ans(server: &Server, point: &[u8], md: u8, verifiable: bool) -> (String, String, Option<(Vec<u8>, Option<(Scalar, Scalar)>)>) {
  let res = std::panic::catch_unwind(std::panic::AssertUnwindSafe(|| server.eval(&Point::from(point), md, verifiable)));
  match res {
    Err(_) => ("panic".into(), "-".into(), None),
    Ok(Err(e)) => (format!("err:{}", err_kind(&e)), "-".into(), None),
    Ok(Ok(ev)) => {
      let out = ev.output.as_bytes().to_vec();
      match ev.proof.as_ref() {
        None => (format!("ok {}", hex(&out)), "-".into(), Some((out, None))),
        Some(pr) => {
          let (c, s) = proof_cs(pr);
          let k = tagged_key(server, md).expect("evaluated tag");
          let r = s + c * k;
          (format!("ok {} {} {}", hex(&out), sch(&c), sch(&s)), sch(&r), Some((out, Some((c, s)))))
        }
      }
    }
  }
}

pub fn gen_tagset(g: &mut Sm, max: usize) -> Vec<u8> {
  let n = match g.below(8) {
    0 => 0,
    1 => 1,
    _ => g.range(1, max as u64) as usize,
  };
  let mut v: Vec<u8> = Vec::new();
  while v.len() < n {
    match g.below(8) {
      0 => v.push(0),
      1 => v.push(255),
      2 => {
        // adjacent pair
        let x = g.below(255) as u8;
        v.push(x);
        v.push(x + 1);
      }
      3 if !v.is_empty() => {
        // duplicate
        let x = *g.pick(&v);
        v.push(x);
      }
      4 => v.push(1 << g.below(8)),
      _ => v.push(g.below(256) as u8),
    }
  }
  v
}

/// a tag to query: mostly registered, else adjacent to a registered one, extreme or random
pub fn gen_query_tag(g: &mut Sm, mds: &[u8]) -> u8 {
  if mds.is_empty() {
    return *g.pick(&[0u8, 255, 7]);
  }
  match g.below(10) {
    0 => g.pick(mds).wrapping_add(1),
    1 => g.pick(mds).wrapping_sub(1),
    2 => *g.pick(&[0u8, 255]),
    3 => g.below(256) as u8,
    _ => *g.pick(mds),
  }
}

pub fn gen_input(g: &mut Sm, i: usize) -> Vec<u8> {
  match i % 7 {
    0 => vec![],
    1 => {
      // long inputs: around 1 KiB, around the 4 KiB and 64 KiB marks, beyond
      let n = match (i / 7) % 4 {
        0 => g.range(1000, 1100) as usize,
        1 => *g.pick(&[4063usize, 4064, 4095, 4096, 4097, 5000]),
        2 => *g.pick(&[65535usize, 65536, 65537]),
        _ => g.range(8000, 20000) as usize,
      };
      g.blob(n)
    }
    2 => vec![g.below(256) as u8],
    3 => {
      let n = *g.pick(&[165usize, 166, 167, 332]);
      g.blob(n)
    }
    _ => {
      let n = g.range(1, 64) as usize;
      g.blob(n)
    }
  }
}

fn pk_with_base(pkb: &[u8], base: &[u8]) -> Vec<u8> {
  let mut v = pkb.to_vec();
  v[..32].copy_from_slice(base);
  v
}

/// position of the entry for `md` in a bincode-encoded public key
pub fn pk_entry_pos(pkb: &[u8], md: u8) -> Option<usize> {
  let n = u64::from_le_bytes(pkb[32..40].try_into().unwrap()) as usize;
  (0..n).map(|i| 40 + 33 * i).find(|&pos| pkb[pos] == md)
}

fn pk_with_md(pkb: &[u8], md: u8, pt: &[u8]) -> Vec<u8> {
  let mut v = pkb.to_vec();
  let pos = pk_entry_pos(pkb, md).expect("registered tag");
  v[pos + 1..pos + 33].copy_from_slice(pt);
  v
}

fn proof_tok(p: &Option<(Scalar, Scalar)>) -> String {
  match p {
    None => "none".into(),
    Some((c, s)) => format!("{}:{}", sch(c), sch(s)),
  }
}

/// `Client::verify` through the public API on arbitrary (possibly tampered) material
pub fn verify_ans(pkb: &[u8], inp: &[u8], out: &[u8], proof: &Option<(Scalar, Scalar)>, md: u8) -> String {
  guarded(|| {
    let pk = ServerPublicKey::load_from_bincode(pkb).expect("well-formed pk");
    let ev = Evaluation { output: Point::from(out), proof: proof.as_ref().map(|(c, s)| make_proof(c, s)) };
    if Client::verify(&pk, &Point::from(inp), &ev, md) { "ok T".into() } else { "ok F".into() }
  })
}

fn emit_verify(label: &str, pkb: &[u8], inp: &[u8], out: &[u8], proof: &Option<(Scalar, Scalar)>, md: u8) -> String {
  let a = verify_ans(pkb, inp, out, proof, md);
  stat(&format!("ppoprf.verify.{}.{}", label, a.replace(' ', "_")));
  emit(&format!("pp.verify {} {} {} {} {}", hex(pkb), hex(inp), hex(out), proof_tok(proof), md), &a);
  a
}

fn flip_bit(g: &mut Sm, b: &[u8]) -> Vec<u8> {
  let mut v = b.to_vec();
  let i = g.below(8 * v.len() as u64) as usize;
  v[i / 8] ^= 1 << (i % 8);
  v
}

/// encodings that do not decompress
fn undecodable(g: &mut Sm) -> Vec<u8> {
  loop {
    let b = match g.below(4) {
      0 => vec![0xffu8; 32],
      1 => {
        let mut b = vec![0u8; 32];
        b[0] = 1;
        b
      }
      2 => le_n(&field_p(), 32),
      _ => g.bytes(32),
    };
    if CompressedRistretto::from_slice(&b).unwrap().decompress().is_none() {
      return b;
    }
  }
}

/// what one honest verifiable evaluation looks like to the client
pub struct Honest {
  pub pkb: Vec<u8>,
  pub inp: Vec<u8>,
  pub out: Vec<u8>,
  pub c: Scalar,
  pub s: Scalar,
  pub md: u8,
}

/// the tamper matrix: every component replaced by another honest value, a neighbour, the
/// neutral value, a value from another server / tag, undecodable bytes; proof = None.
/// Returns the (label, pk, input, output, proof, tag) variants.
pub fn tamper_matrix(g: &mut Sm, h: &Honest, others: &[(&'static str, &Honest)], mds: &[u8]) -> Vec<(String, Vec<u8>, Vec<u8>, Vec<u8>, Option<(Scalar, Scalar)>, u8)> {
  let mut out: Vec<(String, Vec<u8>, Vec<u8>, Vec<u8>, Option<(Scalar, Scalar)>, u8)> = Vec::new();
  let pr = Some((h.c, h.s));
  let zero_pt = vec![0u8; 32];
  let dec = |b: &[u8]| CompressedRistretto::from_slice(b).unwrap().decompress().unwrap();
  let pos = pk_entry_pos(&h.pkb, h.md).expect("registered");
  let base = h.pkb[..32].to_vec();
  let mdpt = h.pkb[pos + 1..pos + 33].to_vec();
  // point-valued components: (name, current bytes, rebuild)
  for comp in ["base", "mdpt", "inp", "out"] {
    let cur: Vec<u8> = match comp {
      "base" => base.clone(),
      "mdpt" => mdpt.clone(),
      "inp" => h.inp.clone(),
      _ => h.out.clone(),
    };
    let mut reps: Vec<(&str, Vec<u8>)> = Vec::new();
    reps.push(("other", rand_point(g).compress().as_bytes().to_vec()));
    reps.push(("plus1", (dec(&cur) + BASE).compress().as_bytes().to_vec()));
    reps.push(("minus1", (dec(&cur) - BASE).compress().as_bytes().to_vec()));
    reps.push(("neg", (-dec(&cur)).compress().as_bytes().to_vec()));
    reps.push(("bitflip", flip_bit(g, &cur)));
    reps.push(("zero", zero_pt.clone()));
    reps.push(("undecodable", undecodable(g)));
    for (olabel, o) in others.iter() {
      let opos = pk_entry_pos(&o.pkb, o.md).unwrap();
      let ov: Vec<u8> = match comp {
        "base" => o.pkb[..32].to_vec(),
        "mdpt" => o.pkb[opos + 1..opos + 33].to_vec(),
        "inp" => o.inp.clone(),
        _ => o.out.clone(),
      };
      reps.push((olabel, ov));
    }
    // swap roles: input <-> output, base <-> md point
    match comp {
      "inp" => reps.push(("swap", h.out.clone())),
      "out" => reps.push(("swap", h.inp.clone())),
      "base" => reps.push(("swap", mdpt.clone())),
      _ => reps.push(("swap", base.clone())),
    }
    for (kind, v) in reps {
      if v == cur {
        continue; // not a change (e.g. the same server's base point)
      }
      let label = format!("{}.{}", comp, kind);
      match comp {
        "base" => out.push((label, pk_with_base(&h.pkb, &v), h.inp.clone(), h.out.clone(), pr, h.md)),
        "mdpt" => out.push((label, pk_with_md(&h.pkb, h.md, &v), h.inp.clone(), h.out.clone(), pr, h.md)),
        "inp" => out.push((label, h.pkb.clone(), v, h.out.clone(), pr, h.md)),
        _ => out.push((label, h.pkb.clone(), h.inp.clone(), v, pr, h.md)),
      }
    }
  }
  // the tag
  let mut tags: Vec<(&str, u8)> = vec![("plus1", h.md.wrapping_add(1)), ("minus1", h.md.wrapping_sub(1)), ("bitflip", h.md ^ (1 << g.below(8))), ("zero", 0), ("max", 255)];
  if let Some(&t) = mds.iter().find(|&&t| t != h.md) {
    tags.push(("other_registered", t));
  }
  for (kind, t) in tags {
    if t != h.md {
      out.push((format!("tag.{}", kind), h.pkb.clone(), h.inp.clone(), h.out.clone(), pr, t));
    }
  }
  // the scalars of the proof
  for comp in ["c", "s"] {
    let cur = if comp == "c" { h.c } else { h.s };
    let mut reps: Vec<(&str, Scalar)> = vec![
      ("other", rand_scalar(g)),
      ("plus1", cur + Scalar::ONE),
      ("minus1", cur - Scalar::ONE),
      ("neg", -cur),
      ("zero", Scalar::ZERO),
      ("bitflip", Scalar::from_bytes_mod_order(arr32(&flip_bit(g, &cur.to_bytes())))),
      ("swap", if comp == "c" { h.s } else { h.c }),
    ];
    for (olabel, o) in others.iter() {
      reps.push((olabel, if comp == "c" { o.c } else { o.s }));
    }
    for (kind, v) in reps {
      if v == cur {
        continue;
      }
      let p = if comp == "c" { Some((v, h.s)) } else { Some((h.c, v)) };
      out.push((format!("{}.{}", comp, kind), h.pkb.clone(), h.inp.clone(), h.out.clone(), p, h.md));
    }
  }
  for (olabel, o) in others.iter() {
    out.push((format!("proof.{}", olabel), h.pkb.clone(), h.inp.clone(), h.out.clone(), Some((o.c, o.s)), h.md));
    if o.pkb != h.pkb {
      out.push((format!("pk.{}", olabel), o.pkb.clone(), h.inp.clone(), h.out.clone(), pr, h.md));
    }
  }
  out.push(("proof.none".into(), h.pkb.clone(), h.inp.clone(), h.out.clone(), None, h.md));
  out
}

fn pts_tok(v: &[RistrettoPoint]) -> String {
  if v.is_empty() {
    "-".into()
  } else {
    v.iter().map(pth).collect::<Vec<_>>().join(",")
  }
}

pub fn ppoprf(tier: &str, seed: u64) {
  let mut g = Sm::new(seed, "ppoprf");
  let q = quick(tier);
  let nservers = if q { 10 } else { 200 };
  let mut last: Option<Honest> = None; // the previous honest evaluation (any server)
  let mut xserver: Option<Honest> = None; // an honest evaluation of an earlier server
  let mut input_no = 0usize;
  for si in 0..nservers {
    // server 1: the full tag space (largest legal public key); server 2: 255 tags
    let mds = if si == 0 { vec![0u8] } else if si == 1 { (0..=255u8).collect() } else if si == 2 { (0..255u8).collect() } else { gen_tagset(&mut g, if q { 4 } else { 12 }) };
    let server = Server::new(mds.clone()).expect("Server::new");
    let spec = server_spec(&server, &mds);
    let pkb = server.get_public_key().serialize_to_bincode().unwrap();
    emit(&format!("pp.new {}", spec), &format!("ok {}", hex(&pkb)));
    stat(&format!("ppoprf.tagset_size.{}", mds.len().min(8)));
    for _ in 0..(if q { 3 } else { 4 }) {
      let input = gen_input(&mut g, input_no);
      input_no += 1;
      stat(&format!("ppoprf.input_len.{}", if input.is_empty() { "0" } else if input.len() < 100 { "1-99" } else if input.len() < 1000 { "100-999" } else { "1000+" }));
      // blind: read r back
      let (bp, cs) = Client::blind(&input);
      let r: Scalar = Scalar::from(cs);
      let bpb = bp.as_bytes().to_vec();
      emit(&format!("pp.blind {} {}", hex(&input), sch(&r)), &format!("ok {}", hex(&bpb)));
      let md = gen_query_tag(&mut g, &mds);
      stat(if mds.contains(&md) { "ppoprf.tag.registered" } else { "ppoprf.tag.unregistered" });
      let mut honest_out: Option<Vec<u8>> = None;
      for verifiable in [false, true] {
        let (ans, nonce, ev) = eval_ans(&server, &bpb, md, verifiable);
        stat(&format!("ppoprf.eval.{}", ans.split(' ').next().unwrap()));
        emit(&format!("pp.eval {} {} {} {} {}", spec, hex(&bpb), md, verifiable as u8, nonce), &ans);
        if let Some((out, proof)) = ev {
          honest_out = Some(out.clone());
          // a non-verifiable evaluation never verifies
          if proof.is_none() {
            emit_verify("noproof", &pkb, &bpb, &out, &None, md);
            continue;
          }
          let (c, s) = proof.unwrap();
          let a = emit_verify("honest", &pkb, &bpb, &out, &proof, md);
          if a != "ok T" {
            stat("ppoprf.HONEST_REJECTED");
          }
          let h = Honest { pkb: pkb.clone(), inp: bpb.clone(), out: out.clone(), c, s, md };
          let full = !q || input_no % 3 == 0;
          let mut others: Vec<(&'static str, &Honest)> = Vec::new();
          if let Some(o) = last.as_ref() {
            others.push(("xrequest", o));
          }
          if let Some(o) = xserver.as_ref() {
            others.push(("xserver", o));
          }
          let mut variants = tamper_matrix(&mut g, &h, &others, &mds);
          if !full {
            g.shuffle(&mut variants);
            variants.truncate(6);
          }
          for (label, vpk, vin, vout, vpr, vmd) in variants {
            let a = emit_verify(&format!("tamper.{}", label), &vpk, &vin, &vout, &vpr, vmd);
            if a == "ok T" {
              stat("ppoprf.tamper.ACCEPTED");
            }
          }
          last = Some(h);
        }
      }
      // bad point encodings, alone and together with a bad tag (error order)
      if g.chance(1, 2) {
        let bad = undecodable(&mut g);
        let t = if g.chance(1, 2) { md } else { md.wrapping_add(g.range(1, 255) as u8) };
        let v = g.chance(1, 2);
        let (ans, nonce, _) = eval_ans(&server, &bad, t, v);
        stat(&format!("ppoprf.eval.{}", ans.split(' ').next().unwrap()));
        emit(&format!("pp.eval {} {} {} {} {}", spec, hex(&bad), t, v as u8, nonce), &ans);
      }
      // unblind + finalize
      let cs = CurveScalar::from(r);
      if let Some(out) = honest_out {
        let u = Client::unblind(&Point::from(&out[..]), &cs);
        emit(&format!("pp.unblind {} {}", hex(&out), sch(&r)), &format!("ok {}", hex(u.as_bytes())));
        let mut fin = [0u8; 32];
        Client::finalize(&input, md, &u, &mut fin);
        emit(&format!("pp.finalize {} {} {}", hex(&input), md, hex(u.as_bytes())), &format!("ok {}", hex(&fin)));
      } else {
        // finalize does not care where the point came from
        let u = rand_point(&mut g).compress().as_bytes().to_vec();
        let mut fin = [0u8; 32];
        Client::finalize(&input, md, &Point::from(&u[..]), &mut fin);
        emit(&format!("pp.finalize {} {} {}", hex(&input), md, hex(&u)), &format!("ok {}", hex(&fin)));
      }
      // unblind on undecodable bytes panics; boundary blinding scalars
      if g.chance(1, 3) {
        let bad = undecodable(&mut g);
        let a = guarded(|| format!("ok {}", hex(Client::unblind(&Point::from(&bad[..]), &cs).as_bytes())));
        emit(&format!("pp.unblind {} {}", hex(&bad), sch(&r)), &a);
      }
      if g.chance(1, 3) {
        let r2 = *g.pick(&boundary_scalars());
        let pt = rand_point(&mut g).compress().as_bytes().to_vec();
        let a = guarded(|| format!("ok {}", hex(Client::unblind(&Point::from(&pt[..]), &CurveScalar::from(r2)).as_bytes())));
        emit(&format!("pp.unblind {} {}", hex(&pt), sch(&r2)), &a);
      }
    }
    if let Some(l) = last.as_ref() {
      if l.pkb == pkb {
        xserver = Some(Honest { pkb: l.pkb.clone(), inp: l.inp.clone(), out: l.out.clone(), c: l.c, s: l.s, md: l.md });
      }
    }
  }
  // batch proofs through the hooks
  let nb = if q { 16 } else { 400 };
  for bi in 0..nb {
    let key = if bi % 9 == 8 { *g.pick(&boundary_scalars()) } else { rand_scalar(&mut g) };
    let pv = key * BASE;
    let n = match bi % 8 { 0 => 0, 7 => g.range(5, 9) as usize, _ => g.range(1, 4) as usize };
    let honest = g.chance(3, 4);
    let mut ps: Vec<RistrettoPoint> = Vec::new();
    let mut qs: Vec<RistrettoPoint> = Vec::new();
    for _ in 0..n {
      let p = rand_point(&mut g);
      ps.push(p);
      qs.push(if honest { key * p } else { rand_point(&mut g) });
    }
    if g.chance(1, 6) && n > 1 {
      let d = ps[0];
      ps[1] = d;
      let d = qs[0];
      qs[1] = d;
    }
    let mismatch = g.chance(1, 8);
    if mismatch {
      if g.chance(1, 2) || qs.is_empty() { qs.push(rand_point(&mut g)); } else { qs.pop(); }
    }
    stat(&format!("ppoprf.batch.n{}.{}", n.min(5), if mismatch { "mismatch" } else if honest { "honest" } else { "unrelated" }));
    let res = std::panic::catch_unwind(std::panic::AssertUnwindSafe(|| ProofDLEQ::verif_new_batch(&key, &pv, &ps, &qs)));
    match res {
      Err(_) => {
        emit(&format!("pp.batch {} {} {} {} {}", sch(&key), pth(&pv), pts_tok(&ps), pts_tok(&qs), sch(&Scalar::ZERO)), "panic");
        let (c, s) = (rand_scalar(&mut g), rand_scalar(&mut g));
        let a = guarded(|| if make_proof(&c, &s).verif_verify_batch(&pv, &ps, &qs) { "ok T".into() } else { "ok F".into() });
        emit(&format!("pp.vbatch {} {} {} {} {}", sch(&c), sch(&s), pth(&pv), pts_tok(&ps), pts_tok(&qs)), &a);
      }
      Ok(proof) => {
        let (c, s) = proof_cs(&proof);
        let r = s + c * key;
        emit(&format!("pp.batch {} {} {} {} {}", sch(&key), pth(&pv), pts_tok(&ps), pts_tok(&qs), sch(&r)), &format!("ok {} {}", sch(&c), sch(&s)));
        let vb = |c: &Scalar, s: &Scalar, pv: &RistrettoPoint, ps: &[RistrettoPoint], qs: &[RistrettoPoint], label: &str| {
          let a = guarded(|| if make_proof(c, s).verif_verify_batch(pv, ps, qs) { "ok T".into() } else { "ok F".into() });
          stat(&format!("ppoprf.vbatch.{}.{}", label, a.replace(' ', "_")));
          emit(&format!("pp.vbatch {} {} {} {} {}", sch(c), sch(s), pth(pv), pts_tok(ps), pts_tok(qs)), &a);
        };
        vb(&c, &s, &pv, &ps, &qs, if honest { "honest" } else { "unrelated" });
        if n >= 2 {
          // order matters
          let mut ps2 = ps.clone();
          ps2.swap(0, 1);
          vb(&c, &s, &pv, &ps2, &qs, "swapped_p");
          let mut qs2 = qs.clone();
          let mut ps3 = ps.clone();
          qs2.swap(0, 1);
          ps3.swap(0, 1);
          vb(&c, &s, &pv, &ps3, &qs2, "swapped_both");
          // a proper sub-batch
          vb(&c, &s, &pv, &ps[..n - 1], &qs[..n - 1], "prefix");
        }
        vb(&c, &s, &(pv + BASE), &ps, &qs, "other_pv");
        vb(&(c + Scalar::ONE), &s, &pv, &ps, &qs, "c_plus1");
        if n >= 1 {
          vb(&c, &s, &pv, &qs, &ps, "p_q_exchanged");
          vb(&c, &s, &pv, &ps, &qs[..n - 1], "mismatch");
        }
      }
    }
  }
  // the proof codec on exactly 64 bytes
  for i in 0..(if q { 20 } else { 500 }) {
    let mut b = if i % 2 == 0 {
      let mut v = gen_scalar(&mut g, &boundary_scalars()).to_bytes().to_vec();
      v.extend_from_slice(&gen_scalar(&mut g, &boundary_scalars()).to_bytes());
      v
    } else {
      g.blob(64)
    };
    match g.below(6) {
      0 => b[31] |= 0x80,
      1 => b[63] |= 0x10,
      2 => b[..32].copy_from_slice(&le_n(&ell(), 32)),
      3 => b[32..].copy_from_slice(&le_n(&ell(), 32)),
      _ => {}
    }
    let a = match ProofDLEQ::load_from_bincode(&b) {
      Ok(p) => format!("ok {}", hex(&p.serialize_to_bincode().unwrap())),
      Err(_) => "err".into(),
    };
    stat(&format!("ppoprf.proofload.{}", &a[..2]));
    emit(&format!("pp.proofload {}", hex(&b)), &a);
  }
}

// ---------------------------------------------------------------------------------------------
// server stream: operation histories over several server slots, one request per history
// ---------------------------------------------------------------------------------------------

pub fn export_import(src: &Server) -> Server {
  export_import_into(src, None)
}

/// export `src`, send the state through bincode, import it into `dst` - a server that already has
/// an identity and a history of its own (key, tags, punctures, earlier imports): everything of it
/// must be replaced by the imported state
pub fn export_import_into(src: &Server, dst: Option<Server>) -> Server {
  let bytes = bincode::serialize(&src.get_private_key()).expect("serialize key state");
  let st: ServerKeyState = bincode::deserialize(&bytes).expect("deserialize key state");
  let mut importer = match dst {
    Some(d) => d,
    None => Server::new(vec![1, 2, 3, 200]).expect("Server::new"),
  };
  importer.set_private_key(st);
  importer
}

pub fn server(tier: &str, seed: u64) {
  let mut g = Sm::new(seed, "server");
  let q = quick(tier);
  let (nh, nops) = if q { (30, 40) } else { (300, 400) };
  const NSLOTS: usize = 5;
  for _h in 0..nh {
    let mut slots: Vec<Option<Server>> = (0..NSLOTS).map(|_| None).collect();
    let mut toks: Vec<String> = Vec::new();
    let mut ans: Vec<String> = Vec::new();
    let mut universe: Vec<u8> = Vec::new(); // every tag registered anywhere in this history
    // a pool of points: mostly decodable
    let mut pool: Vec<Vec<u8>> = (0..4).map(|_| rand_point(&mut g).compress().as_bytes().to_vec()).collect();
    pool.push(vec![0u8; 32]);
    let nops = g.range(nops as u64 / 2, nops as u64 * 3 / 2) as usize;
    for step in 0..nops {
      let live: Vec<usize> = (0..NSLOTS).filter(|&i| slots[i].is_some()).collect();
      let op = if live.is_empty() || step == 0 { 0 } else { g.below(100) };
      if op < 4 {
        // new
        let slot = g.below(NSLOTS as u64) as usize;
        let mds = gen_tagset(&mut g, if q { 5 } else { 10 });
        let s = Server::new(mds.clone()).expect("Server::new");
        toks.push(format!("new:{}:{}", slot, server_spec(&s, &mds)));
        ans.push("n".into());
        universe.extend(mds.iter());
        slots[slot] = Some(s);
        stat("server.op.new");
      } else if op < 60 {
        // eval
        let slot = *g.pick(&live);
        let srv = slots[slot].as_ref().unwrap();
        let md = match g.below(10) {
          0 => *g.pick(&[0u8, 255]),
          1 => g.below(256) as u8,
          2 if !universe.is_empty() => g.pick(&universe).wrapping_add(1),
          3 if !universe.is_empty() => g.pick(&universe).wrapping_sub(1),
          _ if !universe.is_empty() => *g.pick(&universe),
          _ => g.below(4) as u8,
        };
        let point = if g.chance(1, 12) { undecodable(&mut g) } else if g.chance(1, 6) { rand_point(&mut g).compress().as_bytes().to_vec() } else { g.pick(&pool).clone() };
        let v = g.chance(1, 4);
        let (a, nonce, _) = eval_ans(srv, &point, md, v);
        toks.push(format!("ev:{}:{}:{}:{}:{}", slot, md, hex(&point), v as u8, nonce));
        let a2 = if a == "panic" {
          a.clone()
        } else if let Some(k) = a.strip_prefix("err:") {
          format!("e:{}", k)
        } else {
          a[3..].replace(' ', "/")
        };
        stat(&format!("server.eval.{}", if a.starts_with("ok") { if v { "ok_verifiable" } else { "ok_plain" } } else { &a }));
        ans.push(a2);
        stat("server.op.eval");
      } else if op < 80 {
        // puncture
        let slot = *g.pick(&live);
        let md = match g.below(6) {
          0 => g.below(256) as u8,
          1 => *g.pick(&[0u8, 255]),
          _ if !universe.is_empty() => *g.pick(&universe),
          _ => g.below(4) as u8,
        };
        let r = slots[slot].as_mut().unwrap().puncture(md);
        toks.push(format!("pu:{}:{}", slot, md));
        match r {
          Ok(()) => {
            stat("server.puncture.ok");
            ans.push("k".into());
          }
          Err(e) => {
            stat(&format!("server.puncture.err:{}", err_kind(&e)));
            ans.push(format!("e:{}", err_kind(&e)));
          }
        }
        stat("server.op.puncture");
      } else if op < 87 {
        let (src, dst) = (*g.pick(&live), g.below(NSLOTS as u64) as usize);
        let c = slots[src].as_ref().unwrap().clone();
        slots[dst] = Some(c);
        toks.push(format!("cl:{}:{}", src, dst));
        ans.push("c".into());
        stat("server.op.clone");
      } else if op < 94 {
        let (src, dst) = (*g.pick(&live), g.below(NSLOTS as u64) as usize);
        // the importer is the server already sitting in the destination slot, when there is one
        let existing = if dst != src { slots[dst].take() } else { None };
        if existing.is_some() {
          stat("server.op.import_into_used_server");
        }
        let c = export_import_into(slots[src].as_ref().unwrap(), existing);
        slots[dst] = Some(c);
        toks.push(format!("xi:{}:{}", src, dst));
        ans.push("x".into());
        stat("server.op.export_import");
      } else {
        let slot = *g.pick(&live);
        let pkb = slots[slot].as_ref().unwrap().get_public_key().serialize_to_bincode().unwrap();
        toks.push(format!("pk:{}", slot));
        ans.push(hex(&pkb));
        stat("server.op.get_public_key");
      }
    }
    emit(&format!("srv.hist {}", toks.join(" ")), &format!("ok {}", ans.join(",")));
  }
}
