//! `fp` stream: the ff_derive output for `star_sharks::Fp` against the specification model.
use crate::util::*;
use ff::{Field, PrimeField};
use star_sharks::{Fp, FpRepr};

pub const P: u128 = 12451; // p = 2^128 + 12451

pub fn le24(lo: u128, hi: u8) -> [u8; 24] {
  let mut b = [0u8; 24];
  b[..16].copy_from_slice(&lo.to_le_bytes());
  b[16] = hi;
  b
}

pub fn fp_of(b: &[u8; 24]) -> Option<Fp> {
  Option::from(Fp::from_repr(FpRepr(*b)))
}

pub fn repr(f: &Fp) -> Vec<u8> {
  f.to_repr().as_ref().to_vec()
}

/// boundary lattice: values adjacent to 0, 2^64, 2^128, (p-1)/2, p
pub fn lattice() -> Vec<[u8; 24]> {
  let mut v = Vec::new();
  for d in 0..3u128 {
    v.push(le24(d, 0)); // 0,1,2
    v.push(le24((1u128 << 64) - 1 + d, 0)); // 2^64-1 .. 2^64+1
    v.push(le24(u128::MAX - d, 0)); // 2^128-1 ..
    v.push(le24(d, 1)); // 2^128 + d
    v.push(le24(P - 1 - d, 1)); // p-1, p-2, p-3
    v.push(le24((1u128 << 127) + P / 2 + d, 0)); // around (p-1)/2 = 2^127 + 6225
    v.push(le24((1u128 << 127) + P / 2 - 1 - d, 0));
  }
  v.push(le24((1u128 << 127) - 1, 0));
  v.push(le24(3, 0));
  v
}

/// every combination of boundary values per 64-bit LIMB (low, middle) with top limb 0, 1, 2: the
/// shapes a limb-wise comparison, carry or borrow can get wrong
pub fn limb_lattice() -> Vec<[u8; 24]> {
  let lv: [u64; 8] = [0, 1, 5, 12450, 12451, 12452, 1u64 << 63, u64::MAX];
  let mut v = Vec::new();
  for top in 0..3u8 {
    for &l1 in &lv {
      for &l0 in &lv {
        v.push(le24((l0 as u128) | ((l1 as u128) << 64), top));
      }
    }
  }
  v
}

/// elements whose INTERNAL (Montgomery) representation x*2^192 mod p has the limb pattern `m`
pub fn mont_lattice() -> Vec<[u8; 24]> {
  use num_bigint::BigUint;
  use num_traits::One;
  let p = (BigUint::one() << 128) + BigUint::from(12451u32);
  let r192: BigUint = BigUint::one() << 192;
  let rinv = r192.modpow(&(&p - BigUint::from(2u32)), &p);
  let mut v = Vec::new();
  for m in limb_lattice() {
    let mi = BigUint::from_bytes_le(&m);
    if mi < p {
      let x = (mi * &rinv) % &p;
      let mut b = x.to_bytes_le();
      b.resize(24, 0);
      let mut a = [0u8; 24];
      a.copy_from_slice(&b);
      v.push(a);
    }
  }
  v
}

/// two operations in a row on the REAL values (the intermediate is not re-decoded): the request
/// names the canonical encoding of the intermediate, the answer comes from the value itself
fn chain(op1: &str, a: &[u8; 24], b: &[u8; 24], c: &[u8; 24]) {
  let (x, y, z) = (fp_of(a).unwrap(), fp_of(b).unwrap(), fp_of(c).unwrap());
  let s = match op1 {
    "add" => x + y,
    "double" => x.double(),
    "mul" => x * y,
    "sub" => x - y,
    _ => unreachable!(),
  };
  let mut sr = [0u8; 24];
  sr.copy_from_slice(&repr(&s));
  emit(&format!("fp.un neg {}", hex(&sr)), &format!("ok {}", hex(&repr(&(-s)))));
  emit(&format!("fp.bin sub {} {}", hex(c), hex(&sr)), &format!("ok {}", hex(&repr(&(z - s)))));
  emit(&format!("fp.bin sub {} {}", hex(&sr), hex(c)), &format!("ok {}", hex(&repr(&(s - z)))));
  emit(&format!("fp.bin add {} {}", hex(&sr), hex(c)), &format!("ok {}", hex(&repr(&(s + z)))));
  emit(&format!("fp.un double {}", hex(&sr)), &format!("ok {}", hex(&repr(&s.double()))));
  emit(&format!("fp.bin mul {} {}", hex(&sr), hex(c)), &format!("ok {}", hex(&repr(&(s * z)))));
  emit(&format!("fp.un invert {}", hex(&sr)), &match Option::<Fp>::from(s.invert()) { Some(r) => format!("ok {}", hex(&repr(&r))), None => "err".into() });
  stat("fp.chains");
}

fn rand_elem(g: &mut Sm) -> [u8; 24] {
  loop {
    let lo = (g.next() as u128) | ((g.next() as u128) << 64);
    let hi = (g.next() & 1) as u8;
    let b = le24(lo, hi);
    if fp_of(&b).is_some() {
      return b;
    }
  }
}

fn un(name: &str, a: &[u8; 24]) {
  let x = fp_of(a).unwrap();
  let ans = guarded(|| match name {
    "neg" => format!("ok {}", hex(&repr(&(-x)))),
    "double" => format!("ok {}", hex(&repr(&x.double()))),
    "square" => format!("ok {}", hex(&repr(&x.square()))),
    "invert" => match Option::<Fp>::from(x.invert()) {
      Some(r) => format!("ok {}", hex(&repr(&r))),
      None => "err".into(),
    },
    "sqrt" => match Option::<Fp>::from(x.sqrt()) {
      Some(r) => format!("ok {}", hex(&repr(&r))),
      None => "err".into(),
    },
    _ => unreachable!(),
  });
  emit(&format!("fp.un {} {}", name, hex(a)), &ans);
}

fn bin(name: &str, a: &[u8; 24], b: &[u8; 24]) {
  let x = fp_of(a).unwrap();
  let y = if name == "pow" { x } else { fp_of(b).unwrap() };
  let ans = guarded(|| match name {
    "add" => format!("ok {}", hex(&repr(&(x + y)))),
    "sub" => format!("ok {}", hex(&repr(&(x - y)))),
    "mul" => format!("ok {}", hex(&repr(&(x * y)))),
    "sqrt_ratio" => {
      let (c, r) = Fp::sqrt_ratio(&x, &y);
      format!("ok {} {}", if bool::from(c) { 1 } else { 0 }, hex(&repr(&r)))
    }
    "pow" => {
      let e: Vec<u64> = (0..3).map(|i| u64::from_le_bytes(b[8 * i..8 * i + 8].try_into().unwrap())).collect();
      format!("ok {}", hex(&repr(&x.pow_vartime(&e))))
    }
    _ => unreachable!(),
  });
  emit(&format!("fp.bin {} {} {}", name, hex(a), hex(b)), &ans);
}

pub fn run(tier: &str, seed: u64) {
  let mut g = Sm::new(seed, "fp");
  let lat = lattice();
  stat_n("fp.lattice_points", lat.len() as u64);
  // constants
  let consts: Vec<(&str, String)> = vec![
    ("MODULUS", Fp::MODULUS.trim_start_matches("0x").trim_start_matches('0').to_string()),
    ("NUM_BITS", Fp::NUM_BITS.to_string()),
    ("CAPACITY", Fp::CAPACITY.to_string()),
    ("S", Fp::S.to_string()),
    ("ZERO", hex(&repr(&Fp::ZERO))),
    ("ONE", hex(&repr(&Fp::ONE))),
    ("TWO_INV", hex(&repr(&Fp::TWO_INV))),
    ("MULTIPLICATIVE_GENERATOR", hex(&repr(&Fp::MULTIPLICATIVE_GENERATOR))),
    ("ROOT_OF_UNITY", hex(&repr(&Fp::ROOT_OF_UNITY))),
    ("ROOT_OF_UNITY_INV", hex(&repr(&Fp::ROOT_OF_UNITY_INV))),
    ("DELTA", hex(&repr(&Fp::DELTA))),
    ("FIELD_ELEMENT_LEN", star_sharks::FIELD_ELEMENT_LEN.to_string()),
  ];
  for (n, v) in consts {
    emit(&format!("fp.const {}", n), &format!("ok {}", v));
  }
  // unary on the whole lattice
  for a in &lat {
    for op in ["neg", "double", "square", "invert", "sqrt"] {
      un(op, a);
    }
  }
  // binary: lattice x lattice (thorough) or a seeded sample of it (quick)
  for a in &lat {
    for b in &lat {
      if quick(tier) && !g.chance(1, 6) {
        continue;
      }
      for op in ["add", "sub", "mul"] {
        bin(op, a, b);
      }
      stat("fp.lattice_pairs");
    }
  }
  let n = if quick(tier) { 60 } else { 3000 };
  for _ in 0..n {
    let (a, b) = (rand_elem(&mut g), rand_elem(&mut g));
    for op in ["add", "sub", "mul"] {
      bin(op, &a, &b);
    }
    for op in ["neg", "double", "square", "invert", "sqrt"] {
      un(op, &a);
    }
    // a guaranteed square
    let sq = fp_of(&a).unwrap().square();
    let mut sb = [0u8; 24];
    sb.copy_from_slice(&repr(&sq));
    un("sqrt", &sb);
    stat("fp.uniform_pairs");
  }
  // operands on the Montgomery-domain limb lattice, two operations in a row (an intermediate that
  // is left unreduced or mis-carried only shows in what is computed FROM it)
  let ml = mont_lattice();
  stat_n("fp.mont_lattice_points", ml.len() as u64);
  for a in &ml {
    for b in &ml {
      if !g.chance(1, if quick(tier) { 40 } else { 3 }) {
        continue;
      }
      let c = if g.chance(1, 2) { *g.pick(&ml) } else { *g.pick(&lat) };
      for op in ["add", "mul", "sub"] {
        bin(op, a, b);
        chain(op, a, b, &c);
      }
      chain("double", a, b, &c);
    }
  }
  let m = if quick(tier) { 25 } else { 600 };
  for i in 0..m {
    let a = if i % 3 == 0 { *g.pick(&lat) } else { rand_elem(&mut g) };
    let b = if i % 4 == 0 { *g.pick(&lat) } else { rand_elem(&mut g) };
    bin("sqrt_ratio", &a, &b);
    // exponent: arbitrary 192-bit limbs, and boundary exponents
    let mut e = [0u8; 24];
    match i % 5 {
      0 => e.copy_from_slice(&g.bytes(24)),
      1 => e = *g.pick(&lat),
      2 => e = le24(g.below(5) as u128, 0),
      3 => e = le24(P - 1 - (g.below(3) as u128), 1),
      _ => e[..8].copy_from_slice(&g.bytes(8)),
    }
    bin("pow", &a, &e);
  }
  // decoding of 24-byte strings: canonical, >= p, high limb set
  let mut dec: Vec<[u8; 24]> = lat.clone();
  for d in 0..4u128 {
    dec.push(le24(P + d, 1)); // p, p+1 ...
  }
  dec.push([0xff; 24]);
  let mut hi = [0u8; 24];
  hi[17] = 1;
  dec.push(hi);
  hi[17] = 0;
  hi[23] = 0x80;
  dec.push(hi);
  dec.push(le24(0, 2));
  dec.push(le24(u128::MAX, 1));
  dec.extend(limb_lattice());
  stat_n("fp.decode.limb_lattice", limb_lattice().len() as u64);
  for _ in 0..(if quick(tier) { 40 } else { 2000 }) {
    let mut b = [0u8; 24];
    b.copy_from_slice(&g.bytes(24));
    match g.below(4) {
      0 => {
        for k in 17..24 {
          b[k] = 0;
        }
      }
      1 => {
        for k in 17..24 {
          b[k] = 0;
        }
        b[16] &= 1;
      }
      _ => {}
    }
    dec.push(b);
  }
  for b in &dec {
    let ans = match fp_of(b) {
      Some(f) => {
        stat("fp.decode.accepted");
        format!("ok {}", hex(&repr(&f)))
      }
      None => {
        stat("fp.decode.rejected");
        "err".into()
      }
    };
    emit(&format!("fp.from_repr {}", hex(b)), &ans);
  }
  // Fp::random from scripted limb streams, including rejected candidates
  for i in 0..(if quick(tier) { 40 } else { 1500 }) {
    let mut script = Vec::new();
    let rejects = if i % 2 == 0 { 0 } else { g.below(4) };
    for r in 0..rejects {
      // candidate >= p after masking: top bit set, middle limb nonzero or low limb >= 12451
      if r % 2 == 0 {
        script.push(g.next() | 12451);
        script.push(g.next() | 1);
      } else {
        // ... low limb BELOW 12451 and only the middle limb making it too large
        script.push(g.below(12451));
        script.push(*g.pick(&[1u64, 1 << 63, u64::MAX]));
      }
      script.push(g.next() | 1);
    }
    match i % 6 {
      0 => script.extend([0, 0, 0]),
      1 => script.extend([12450, 0, 0xffff_ffff_ffff_ffff]),
      2 => script.extend([u64::MAX, u64::MAX, 0xffff_ffff_ffff_fffe]),
      _ => script.extend([g.next(), g.next(), g.next() & !1]),
    }
    let mut r = ScriptRng::new(script, g.next());
    let f = Fp::random(&mut r);
    stat_n("fp.random.words", r.used as u64);
    emit(&format!("fp.random {}", r.words_hex()), &format!("ok {} {}", hex(&repr(&f)), r.used));
  }
  for _ in 0..(if quick(tier) { 10 } else { 200 }) {
    let v = match g.below(3) {
      0 => g.below(4),
      1 => u64::MAX - g.below(3),
      _ => g.next(),
    };
    emit(&format!("fp.from_u64 {}", v), &format!("ok {}", hex(&repr(&Fp::from(v)))));
  }
}
