//! Oracle for C15 (serialisation layer of `ppoprf`), on the real code only: a restored public key
//! equals the original and is interchangeable in `Client::verify` (also after the proof went
//! through bincode and the evaluation through JSON); oversize inputs are refused; every
//! truncation of a valid encoding is an `Err` (never a panic, never `Ok`); key sizes 0..256 tags.
use crate::oracle::*;
use crate::s_codec::codec_err_kind;
use crate::s_ppoprf::*;
use crate::util::*;
use ppoprf::ppoprf::{Client, Evaluation, Point, ProofDLEQ, Server, ServerPublicKey, MAX_SERIALIZED_PK_SIZE, MAX_SERIALIZED_PROOF_SIZE};
use std::panic::{catch_unwind, AssertUnwindSafe};

/// `Some(Ok(()))` accepted, `Some(Err(kind))` refused, `None` panicked
fn try_pk(b: &[u8]) -> Option<Result<ServerPublicKey, String>> {
  catch_unwind(AssertUnwindSafe(|| ServerPublicKey::load_from_bincode(b).map_err(|e| codec_err_kind(&e)))).ok()
}

fn try_proof(b: &[u8]) -> Option<Result<ProofDLEQ, String>> {
  catch_unwind(AssertUnwindSafe(|| ProofDLEQ::load_from_bincode(b).map_err(|e| codec_err_kind(&e)))).ok()
}

fn try_eval_json(s: &str) -> Option<Result<Evaluation, String>> {
  catch_unwind(AssertUnwindSafe(|| serde_json::from_str::<Evaluation>(s).map_err(|e| e.to_string()))).ok()
}

fn try_point_json(s: &str) -> Option<Result<Point, String>> {
  catch_unwind(AssertUnwindSafe(|| serde_json::from_str::<Point>(s).map_err(|e| e.to_string()))).ok()
}

fn verify_guarded(pk: &ServerPublicKey, inp: &Point, ev: &Evaluation, md: u8) -> Option<bool> {
  catch_unwind(AssertUnwindSafe(|| Client::verify(pk, inp, ev, md))).ok()
}

pub fn c15(tier: &str, seed: u64) {
  let mut g = Sm::new(seed, "oracle.C15");
  let q = quick(tier);
  let mut sampled = 0;
  for n in 0..=256usize {
    let mut all: Vec<u8> = (0..=255u8).collect();
    g.shuffle(&mut all);
    let mds: Vec<u8> = all[..n].to_vec();
    let ctx = |extra: &str| vec![("n", n.to_string()), ("mds", hex(&mds)), ("what", extra.to_string())];
    let server = match Server::new(mds.clone()) {
      Ok(s) => s,
      Err(e) => {
        fail("server_new", &[("n", n.to_string()), ("err", err_kind(&e))]);
        continue;
      }
    };
    let pk = server.get_public_key();
    let bytes = match pk.serialize_to_bincode() {
      Ok(b) => b,
      Err(e) => {
        fail("pk_serialize", &[("n", n.to_string()), ("err", err_kind(&e))]);
        continue;
      }
    };
    case(n > 0);
    if bytes.len() != 40 + 33 * n || bytes.len() > MAX_SERIALIZED_PK_SIZE {
      fail("pk_size", &[("n", n.to_string()), ("len", bytes.len().to_string())]);
    }
    // restored == original, re-serialises to the same bytes
    let restored = match try_pk(&bytes) {
      Some(Ok(r)) => r,
      Some(Err(k)) => {
        fail("pk_roundtrip_refused", &[("n", n.to_string()), ("err", k), ("bytes", hex(&bytes))]);
        continue;
      }
      None => {
        fail("pk_roundtrip_panic", &[("n", n.to_string()), ("bytes", hex(&bytes))]);
        continue;
      }
    };
    if restored != pk {
      fail("pk_roundtrip_differs", &[("n", n.to_string()), ("bytes", hex(&bytes))]);
    }
    if restored.serialize_to_bincode().ok().as_deref() != Some(&bytes[..]) {
      fail("pk_reserialise_differs", &[("n", n.to_string()), ("bytes", hex(&bytes))]);
    }
    // decoding is a function of the BYTES GIVEN, not of what was decoded before: right after this
    // successful load, encodings of the same length with the same base key but other entries (two
    // points exchanged, one tag renamed, one more entry announced than present) decode on their own
    if n >= 2 && (n <= 6 || n % 32 == 1 || !q) {
      let ent = |i: usize| 40 + 33 * i;
      let mut variants: Vec<(&str, Vec<u8>, bool)> = Vec::new();
      let mut v = bytes.clone();
      let (a, b) = (ent(0) + 1, ent(1) + 1);
      for k in 0..32 {
        v.swap(a + k, b + k);
      }
      variants.push(("points of the first two tags exchanged", v, true));
      if let Some(unused) = (0..=255u8).find(|x| !mds.contains(x)) {
        let mut v = bytes.clone();
        v[ent(n - 1)] = unused;
        variants.push(("tag of the last entry renamed to an unused tag", v, true));
      }
      let mut v = bytes.clone();
      v[32..40].copy_from_slice(&((n as u64) + 1).to_le_bytes());
      variants.push(("one more entry announced than present", v, false));
      let unrelated = Server::new(vec![1]).ok().and_then(|s| s.get_public_key().serialize_to_bincode().ok()).unwrap_or_default();
      for (what, v, valid) in variants {
        // reference: the variant decoded right after an UNRELATED key (another base key and length)
        let _ = try_pk(&unrelated);
        let reference = try_pk(&v);
        // then: the honest encoding of the same length and base key loaded immediately before, as a
        // verifying client that reloads keys would
        let _ = try_pk(&bytes);
        let got = try_pk(&v);
        let hist = "the honest encoding of the same length and base key was loaded immediately before";
        match (&reference, &got) {
          (None, _) | (_, None) => fail("pk_load_panic", &ctx(what)),
          (Some(Ok(a)), Some(Ok(b))) => {
            if a != b {
              fail("pk_load_depends_on_history", &[("n", n.to_string()), ("what", what.to_string()), ("history", hist.into()), ("bytes", hex(&v)), ("loaded_key_reserialises_to", b.serialize_to_bincode().map(|x| hex(&x)).unwrap_or_default()), ("without_that_history", a.serialize_to_bincode().map(|x| hex(&x)).unwrap_or_default())]);
            }
            if !valid {
              fail("pk_undecodable_accepted", &[("n", n.to_string()), ("what", what.to_string()), ("bytes", hex(&v))]);
            }
          }
          (Some(Err(_)), Some(Ok(_))) => fail("pk_undecodable_accepted", &[("n", n.to_string()), ("what", what.to_string()), ("history", hist.into()), ("bytes", hex(&v))]),
          (Some(Ok(_)), Some(Err(_))) => fail("pk_load_depends_on_history", &[("n", n.to_string()), ("what", what.to_string()), ("history", hist.into()), ("bytes", hex(&v)), ("loaded", "refused".into()), ("without_that_history", "accepted".into())]),
          (Some(Err(_)), Some(Err(_))) => {}
        }
        // the variant with exchanged points is not the honest key
        if what.starts_with("points") {
          if let Some(Ok(b)) = &got {
            if *b == pk {
              fail("pk_load_depends_on_history", &[("n", n.to_string()), ("what", what.to_string()), ("history", hist.into()), ("bytes", hex(&v)), ("loaded", "the honest key, whose points for these tags differ".into())]);
            }
          }
        }
        let _ = valid;
        case(true);
      }
      stat("oracle.C15.same_length_same_base_variants");
    }
    // trailing bytes up to the limit are ignored, one more byte is refused
    if n % 16 == 0 || n == 255 || !q {
      for (total, want_ok) in [(MAX_SERIALIZED_PK_SIZE - 1, true), (MAX_SERIALIZED_PK_SIZE, true), (MAX_SERIALIZED_PK_SIZE + 1, false), (MAX_SERIALIZED_PK_SIZE + 1000, false)] {
        let mut v = bytes.clone();
        v.resize(total, g.below(256) as u8);
        case(true);
        match (try_pk(&v), want_ok) {
          (Some(Ok(r)), true) => {
            if r != pk {
              fail("pk_trailing_changes_value", &ctx(&total.to_string()));
            }
          }
          (Some(Err(k)), false) => {
            if k != "TooBig" {
              fail("pk_oversize_wrong_error", &[("n", n.to_string()), ("total", total.to_string()), ("err", k)]);
            }
          }
          (Some(Ok(_)), false) => fail("pk_oversize_accepted", &ctx(&total.to_string())),
          (Some(Err(k)), true) => fail("pk_within_limit_refused", &[("n", n.to_string()), ("total", total.to_string()), ("err", k)]),
          (None, _) => fail("pk_load_panic", &ctx(&total.to_string())),
        }
      }
    }
    // every truncation is an error
    let cuts: Vec<usize> = if !q || n <= 24 || n == 256 {
      (0..bytes.len()).collect()
    } else {
      let mut c: Vec<usize> = vec![0, 1, 31, 32, 33, 39, 40, 41, 72, 73, 74, bytes.len() - 1, bytes.len() - 32, bytes.len() - 33, bytes.len() - 34];
      for _ in 0..40 {
        c.push(g.below(bytes.len() as u64) as usize);
      }
      c
    };
    for k in cuts {
      case(true);
      match try_pk(&bytes[..k]) {
        Some(Err(kind)) => {
          if kind != "Bincode" {
            fail("pk_truncation_wrong_error", &[("n", n.to_string()), ("cut", k.to_string()), ("err", kind)]);
          }
        }
        Some(Ok(_)) => fail("pk_truncation_accepted", &[("n", n.to_string()), ("cut", k.to_string()), ("bytes", hex(&bytes[..k]))]),
        None => fail("pk_truncation_panic", &[("n", n.to_string()), ("cut", k.to_string()), ("bytes", hex(&bytes[..k]))]),
      }
    }
    if n == 0 {
      continue;
    }
    // interchangeable in Client::verify
    let rounds = if q { 1 } else { 3 };
    for round in 0..rounds {
      let md = *g.pick(&mds);
      let input = gen_input(&mut g, n + round);
      let (bp, _r) = Client::blind(&input);
      let ev = match server.eval(&bp, md, true) {
        Ok(ev) => ev,
        Err(e) => {
          fail("eval", &[("n", n.to_string()), ("md", md.to_string()), ("err", err_kind(&e))]);
          continue;
        }
      };
      case(true);
      let v0 = verify_guarded(&pk, &bp, &ev, md);
      let v1 = verify_guarded(&restored, &bp, &ev, md);
      if v0 != Some(true) || v1 != Some(true) {
        fail("verify_with_restored_pk", &[("n", n.to_string()), ("md", md.to_string()), ("orig", format!("{:?}", v0)), ("restored", format!("{:?}", v1)), ("pk", hex(&bytes))]);
      }
      // proof through bincode
      let pb = ev.proof.as_ref().unwrap().serialize_to_bincode().unwrap();
      if pb.len() != MAX_SERIALIZED_PROOF_SIZE {
        fail("proof_size", &[("len", pb.len().to_string())]);
      }
      match try_proof(&pb) {
        Some(Ok(p2)) => {
          if p2.serialize_to_bincode().ok().as_deref() != Some(&pb[..]) {
            fail("proof_reserialise_differs", &[("proof", hex(&pb))]);
          }
          let ev2 = Evaluation { output: ev.output.clone(), proof: Some(p2) };
          if verify_guarded(&restored, &bp, &ev2, md) != Some(true) {
            fail("verify_after_proof_roundtrip", &[("n", n.to_string()), ("md", md.to_string()), ("proof", hex(&pb))]);
          }
        }
        Some(Err(k)) => fail("proof_roundtrip_refused", &[("proof", hex(&pb)), ("err", k)]),
        None => fail("proof_roundtrip_panic", &[("proof", hex(&pb))]),
      }
      // a decoded value re-encodes to the bytes it was read from: proof bytes that are NOT the
      // canonical encoding of their scalars (x + k*l, still below 2^256) must be refused - accepting
      // them makes the proof bytes malleable
      {
        // l = 2^252 + 27742317777372353535851937790883648493, little-endian
        const ELL: [u8; 32] = [0xed, 0xd3, 0xf5, 0x5c, 0x1a, 0x63, 0x12, 0x58, 0xd6, 0x9c, 0xf7, 0xa2, 0xde, 0xf9, 0xde, 0x14, 0, 0, 0, 0, 0, 0, 0, 0, 0, 0, 0, 0, 0, 0, 0, 0x10];
        let add_l = |x: &[u8], times: usize| -> Option<Vec<u8>> {
          let mut v = x.to_vec();
          for _ in 0..times {
            let mut carry = 0u16;
            for i in 0..32 {
              let t = v[i] as u16 + ELL[i] as u16 + carry;
              v[i] = t as u8;
              carry = t >> 8;
            }
            if carry != 0 {
              return None;
            }
          }
          Some(v)
        };
        for (which, off) in [("c", 0usize), ("s", 32), ("both", 0)] {
          for times in [1usize, 2, 7] {
            let mut b = pb.clone();
            let Some(nc) = add_l(&pb[off..off + 32], times) else { continue };
            b[off..off + 32].copy_from_slice(&nc);
            if which == "both" {
              let Some(ns) = add_l(&pb[32..64], times) else { continue };
              b[32..64].copy_from_slice(&ns);
            }
            case(true);
            stat("oracle.C15.noncanonical_proof_scalars");
            match try_proof(&b) {
              Some(Err(_)) => {}
              Some(Ok(p2)) => {
                let re = p2.serialize_to_bincode().ok();
                let ev2 = Evaluation { output: ev.output.clone(), proof: Some(p2) };
                fail(
                  "proof_noncanonical_accepted",
                  &[("scalar", which.to_string()), ("plus_multiples_of_group_order", times.to_string()), ("bytes", hex(&b)), ("honest_bytes", hex(&pb)), ("reencodes_to", re.map(|r| hex(&r)).unwrap_or_default()), ("verifies", format!("{:?}", verify_guarded(&restored, &bp, &ev2, md)))],
                );
              }
              None => fail("proof_roundtrip_panic", &[("proof", hex(&b))]),
            }
          }
        }
      }
      for k in 0..pb.len() {
        case(true);
        match try_proof(&pb[..k]) {
          Some(Err(kind)) => {
            if kind != "Bincode" {
              fail("proof_truncation_wrong_error", &[("cut", k.to_string()), ("err", kind)]);
            }
          }
          Some(Ok(_)) => fail("proof_truncation_accepted", &[("cut", k.to_string()), ("proof", hex(&pb))]),
          None => fail("proof_truncation_panic", &[("cut", k.to_string()), ("proof", hex(&pb))]),
        }
      }
      for extra in [1usize, 2, 64, 10000] {
        let mut v = pb.clone();
        v.resize(pb.len() + extra, 0);
        case(true);
        match try_proof(&v) {
          Some(Err(kind)) if kind == "TooBig" => {}
          Some(Err(kind)) => fail("proof_oversize_wrong_error", &[("extra", extra.to_string()), ("err", kind)]),
          Some(Ok(_)) => fail("proof_oversize_accepted", &[("extra", extra.to_string())]),
          None => fail("proof_oversize_panic", &[("extra", extra.to_string())]),
        }
      }
      // evaluation through JSON (proof present and absent)
      for verifiable in [true, false] {
        let evx = if verifiable { Evaluation { output: ev.output.clone(), proof: Some(ProofDLEQ::load_from_bincode(&pb).unwrap()) } } else { server.eval(&bp, md, false).unwrap() };
        let text = serde_json::to_string(&evx).unwrap();
        case(true);
        match try_eval_json(&text) {
          Some(Ok(ev3)) => {
            if serde_json::to_string(&ev3).unwrap() != text || ev3.output != evx.output || ev3.proof.is_some() != verifiable {
              fail("eval_json_roundtrip_differs", &[("text", text.clone())]);
            }
            let v = verify_guarded(&restored, &bp, &ev3, md);
            if v != Some(verifiable) {
              fail("verify_after_json_roundtrip", &[("n", n.to_string()), ("md", md.to_string()), ("text", text.clone()), ("got", format!("{:?}", v))]);
            }
          }
          Some(Err(e)) => fail("eval_json_roundtrip_refused", &[("text", text.clone()), ("err", e)]),
          None => fail("eval_json_roundtrip_panic", &[("text", text.clone())]),
        }
        // an `output` string that is well-formed base64 of FEWER (or more) than 32 bytes is not a
        // point: every prefix length 0..31 and 33 must be an error, never a zero-padded value
        if n % 4 == 1 || !q {
          use base64::{engine::Engine as _, prelude::BASE64_STANDARD};
          let full = BASE64_STANDARD.encode(evx.output.as_bytes());
          for k in (0..32usize).chain([33usize]) {
            let mut bytes = evx.output.as_bytes().to_vec();
            bytes.push(0);
            let short = BASE64_STANDARD.encode(&bytes[..k]);
            let t2 = text.replacen(&full, &short, 1);
            if t2 == text {
              continue;
            }
            case(true);
            stat("oracle.C15.eval_json_wrong_length_output");
            match try_eval_json(&t2) {
              Some(Err(_)) => {}
              Some(Ok(e2)) => fail("eval_json_partial_point_accepted", &[("decoded_bytes", k.to_string()), ("text", t2.clone()), ("point", hex(e2.output.as_bytes()))]),
              None => fail("eval_json_roundtrip_panic", &[("text", t2.clone())]),
            }
          }
        }
        if n % 8 == 1 || !q {
          for k in 0..text.len() {
            case(true);
            match try_eval_json(&text[..k]) {
              Some(Err(_)) => {}
              Some(Ok(_)) => fail("eval_json_truncation_accepted", &[("cut", k.to_string()), ("text", text.clone())]),
              None => fail("eval_json_truncation_panic", &[("cut", k.to_string()), ("text", text.clone())]),
            }
          }
        }
      }
      // the server answers ANY decodable point - the identity (32 zero bytes) included - and what it
      // answers must load back from its own JSON
      if n % 16 == 1 || !q {
        let idp = Point::from(&[0u8; 32][..]);
        for verifiable in [true, false] {
          if let Ok(evi) = server.eval(&idp, md, verifiable) {
            let text = serde_json::to_string(&evi).unwrap();
            case(true);
            stat("oracle.C15.identity_requests");
            match try_eval_json(&text) {
              Some(Ok(e3)) => {
                if e3.output != evi.output || serde_json::to_string(&e3).unwrap() != text {
                  fail("eval_json_roundtrip_differs", &[("text", text.clone())]);
                }
                if verifiable && verify_guarded(&restored, &idp, &e3, md) != verify_guarded(&restored, &idp, &evi, md) {
                  fail("verify_after_json_roundtrip", &[("n", n.to_string()), ("md", md.to_string()), ("text", text.clone())]);
                }
              }
              Some(Err(e)) => fail("eval_json_roundtrip_refused", &[("text", text.clone()), ("err", e), ("request", "the identity element (32 zero bytes)".into())]),
              None => fail("eval_json_roundtrip_panic", &[("text", text.clone())]),
            }
          }
        }
      }
      // the point type on its own
      let ptext = serde_json::to_string(&ev.output).unwrap();
      case(true);
      match try_point_json(&ptext) {
        Some(Ok(p)) => {
          if p != ev.output {
            fail("point_json_roundtrip_differs", &[("text", ptext.clone())]);
          }
        }
        Some(Err(e)) => fail("point_json_roundtrip_refused", &[("text", ptext.clone()), ("err", e)]),
        None => fail("point_json_roundtrip_panic", &[("text", ptext.clone())]),
      }
      if n % 8 == 1 || !q {
        for k in 0..ptext.len() {
          case(true);
          match try_point_json(&ptext[..k]) {
            Some(Err(_)) => {}
            Some(Ok(_)) => fail("point_json_truncation_accepted", &[("cut", k.to_string()), ("text", ptext.clone())]),
            None => fail("point_json_truncation_panic", &[("cut", k.to_string()), ("text", ptext.clone())]),
          }
        }
      }
      // the restored key is not more permissive: a foreign evaluation is rejected by both
      let other = Server::new(mds.clone()).unwrap();
      let ev_other = other.eval(&bp, md, true).unwrap();
      case(true);
      let w0 = verify_guarded(&pk, &bp, &ev_other, md);
      let w1 = verify_guarded(&restored, &bp, &ev_other, md);
      if w0 != Some(false) || w1 != Some(false) {
        fail("foreign_evaluation_verdicts", &[("n", n.to_string()), ("orig", format!("{:?}", w0)), ("restored", format!("{:?}", w1))]);
      }
      if sampled < 3 && n > 2 {
        sampled += 1;
        sample(&[("n", n.to_string()), ("md", md.to_string()), ("pk_len", bytes.len().to_string()), ("eval_json", serde_json::to_string(&ev).unwrap())]);
      }
    }
  }
}
