//! `wasm` and `agg` streams: the string API of star-wasm (called natively) and the reference
//! aggregation server of star-test-utils (inside rayon pools of 1..16 threads).
use crate::s_star::*;
use crate::util::*;
use base64::{engine::Engine as _, prelude::BASE64_STANDARD};
use sta_rs::Message;
use star_test_utils::AggregationServer;

pub const EPOCHS: &[&str] = &["", "e", "epoch-1", "épocas", "日本", "a\"b", "back\\slash", "two words", "q\"\\\"", "2026-09", "ünï\u{1F600}", "epoch-7\n", " 2024-09-28", "t ", "\t", "\u{feff}e"];

/// machine-size epoch lengths in UTF-8 bytes (fixed buffers, length bytes, hash block sizes)
pub const EPOCH_LENS: &[usize] = &[63, 64, 65, 127, 128, 129, 135, 136, 137, 166, 255, 256, 257, 1024, 4096];

/// a long epoch of exactly `n` UTF-8 bytes: ASCII, or with multi-byte characters mixed in
pub fn long_epoch(g: &mut Sm, n: usize) -> String {
  let mut e = String::new();
  let multi = g.chance(1, 3);
  while e.len() < n {
    let left = n - e.len();
    if multi && left >= 3 && g.chance(1, 4) {
      e.push(*g.pick(&['日', '€']));
    } else if multi && left >= 2 && g.chance(1, 4) {
      e.push('é');
    } else {
      e.push((b'a' + g.below(26) as u8) as char);
    }
  }
  e
}

/// epochs RELATED to `e`: extended by one or many bytes, cut by one byte, cut at a machine-size
/// length; never equal to `e` (None when no such epoch exists)
pub fn related_epoch(g: &mut Sm, e: &str) -> Option<String> {
  let cut = |n: usize| -> Option<String> { if n < e.len() && e.is_char_boundary(n) { Some(e[..n].to_string()) } else { None } };
  let r = match g.below(4) {
    0 => Some(format!("{}x", e)),
    1 => Some(format!("{}{}", e, long_epoch(g, 200))),
    2 => if e.is_empty() { None } else { let mut n = e.len() - 1; while !e.is_char_boundary(n) { n -= 1; } cut(n) },
    _ => EPOCH_LENS.iter().rev().find_map(|&n| cut(n)),
  };
  r.filter(|x| x != e)
}

pub fn gen_epoch(g: &mut Sm) -> String {
  if g.chance(1, 7) {
    stat("epoch.machine_size_length");
    let n = *g.pick(EPOCH_LENS);
    return long_epoch(g, n);
  }
  if g.chance(3, 4) {
    g.pick(EPOCHS).to_string()
  } else {
    let n = g.range(1, 12) as usize;
    (0..n).map(|_| *g.pick(&['a', 'Z', '0', '"', '\\', 'é', '日', ' ', '/', '+', '=', '{', '}', ':', ','])).collect()
  }
}

/// the value of a `"name": "<value>"` field of the text `create_share` returns, by plain string search
pub fn json_field(s: &str, name: &str) -> Option<String> {
  let pat = format!("\"{}\": \"", name);
  let i = s.find(&pat)? + pat.len();
  let j = s[i..].find('"')? + i;
  Some(s[i..j].to_string())
}

pub fn group_ans(ser: &str, epoch: &str) -> String {
  guarded(|| match star_wasm::group_shares(ser, epoch) {
    Some(k) => format!("ok {}", hex(k.as_bytes())),
    None => "none".into(),
  })
}

fn emit_group(ser: &str, epoch: &str, what: &str) {
  let ans = group_ans(ser, epoch);
  stat(&format!("wasm.group.{}.{}", what, ans.split(' ').next().unwrap()));
  emit(&format!("wasm.group {} {}", hex(ser.as_bytes()), hex(epoch.as_bytes())), &ans);
}

/// one `create_share` call, emitted as a case; returns the base64 share
fn create(m: &[u8], t: u32, epoch: &str) -> String {
  let out = star_wasm::create_share(m, t, epoch);
  let share_b64 = json_field(&out, "share").expect("share field");
  let sb = BASE64_STANDARD.decode(&share_b64).expect("share base64");
  emit(
    &format!("wasm.create {} {} {} {}", hex(m), t, hex(epoch.as_bytes()), hex(&share_x(&sb))),
    &format!("ok {}", hex(out.as_bytes())),
  );
  share_b64
}

/// the encoding of a share with its y-coordinates removed
pub fn yless(sb: &[u8]) -> Vec<u8> {
  let mut b = sb.to_vec();
  let s_len = u32::from_le_bytes(b[4..8].try_into().unwrap()) as usize;
  let tail = b.split_off(8 + s_len);
  b.truncate(8 + 24);
  b[4..8].copy_from_slice(&24u32.to_le_bytes());
  b.extend(tail);
  b
}

pub fn wasm(tier: &str, seed: u64) {
  let mut g = Sm::new(seed, "wasm");
  let n = if quick(tier) { 14 } else { 220 };
  for case in 0..n {
    let t = if case % 7 == 0 { 1 } else { g.range(1, 20) as u32 };
    let m = { let n = if case % 5 == 0 { 0 } else { gen_len(&mut g, 300) }; g.blob(n) };
    let epoch = gen_epoch(&mut g);
    let other_epoch = loop {
      let e = gen_epoch(&mut g);
      if e != epoch {
        break e;
      }
    };
    let shares: Vec<String> = (0..t + 1).map(|_| create(&m, t, &epoch)).collect();
    let tu = t as usize;
    // counts around the threshold
    if tu >= 2 {
      emit_group(&shares[..tu - 1].join("\n"), &epoch, "below");
    }
    emit_group(&shares[..tu].join("\n"), &epoch, "exact");
    emit_group(&shares.join("\n"), &epoch, "above");
    // any order
    let mut sh = shares.clone();
    g.shuffle(&mut sh);
    sh.truncate(tu);
    emit_group(&sh.join("\n"), &epoch, "shuffled");
    // duplicates: t entries but fewer distinct shares; and t distinct plus repeats
    if tu >= 2 {
      let mut d: Vec<String> = shares[..tu - 1].to_vec();
      d.push(shares[0].clone());
      g.shuffle(&mut d);
      emit_group(&d.join("\n"), &epoch, "dup_below");
    }
    let mut d: Vec<String> = shares[..tu].to_vec();
    d.insert(g.below(tu as u64 + 1) as usize, shares[g.below(tu as u64) as usize].clone());
    emit_group(&d.join("\n"), &epoch, "dup_above");
    // wrong epoch
    emit_group(&shares[..tu].join("\n"), &other_epoch, "wrong_epoch");
    // mixed measurements: none reaches its threshold / one does
    let m2 = { let mut v = m.clone(); v.push(1); v };
    let foreign: Vec<String> = (0..tu).map(|_| create(&m2, t, &epoch)).collect();
    if tu >= 2 {
      let mut mix: Vec<String> = shares[..tu - 1].to_vec();
      mix.extend(foreign[..tu - 1].iter().cloned());
      if g.chance(1, 2) {
        g.shuffle(&mut mix);
      }
      emit_group(&mix.join("\n"), &epoch, "mixed_none_reaches");
    }
    let mut mix: Vec<String> = shares[..tu].to_vec();
    mix.insert(g.below(tu as u64 + 1) as usize, foreign[0].clone());
    emit_group(&mix.join("\n"), &epoch, "mixed_one_reaches");
    // shares made for another threshold / epoch under the same measurement
    let alien = create(&m, t + 1, &epoch);
    let mut mix: Vec<String> = shares[..tu].to_vec();
    mix.insert(g.below(tu as u64 + 1) as usize, alien);
    emit_group(&mix.join("\n"), &epoch, "mixed_threshold");
    // separators
    emit_group(&format!("{}\n", shares[..tu].join("\n")), &epoch, "trailing_newline");
    emit_group(&format!("\n{}", shares[..tu].join("\n")), &epoch, "leading_newline");
    emit_group(&shares[..tu].join("\n\n"), &epoch, "double_newline");
    emit_group(&shares[..tu].join("\r\n"), &epoch, "crlf");
    emit_group(&shares.join("\r\n"), &epoch, "crlf_above");
    emit_group(&shares[..tu].join(","), &epoch, "comma");
    // VALID ADSS share sets that no STAR client made: any threshold-many shares of a sharing whose
    // message is not the 32 bytes a client shares (0, 1, 31, 33, 200 bytes) and whose coins have any
    // length - recovery succeeds and authenticates, the grouping call must answer like the core does
    {
      let ml = *g.pick(&[0usize, 1, 31, 32, 33, 200]);
      let rl = *g.pick(&[0usize, 1, 32, 33, 100]);
      let (am, ar) = (g.blob(ml), g.blob(rl));
      let c = adss::Commune::new(t, am, ar, None);
      let n = tu + g.below(2) as usize;
      let v: Vec<String> = (0..n).map(|_| BASE64_STANDARD.encode(c.clone().share().expect("share").to_bytes())).collect();
      emit_group(&v.join("\n"), &epoch, "valid_adss_set_other_message_length");
      if tu >= 2 {
        emit_group(&v[..tu - 1].join("\n"), &epoch, "valid_adss_set_below_threshold");
      }
    }
    // undecodable base64
    let bad: Vec<String> = {
      let s = &shares[0];
      vec![
        s[..s.len() - 1].to_string(),
        format!("{}=", s),
        format!(" {}", s),
        s.replacen(|c: char| c.is_ascii_alphanumeric(), "*", 1),
        s.replace('=', ""),
        s.replace('+', "-").replace('/', "_"),
        "日本".to_string(),
        "=".to_string(),
        "A".to_string(),
        "AB".to_string(),
        "AB==".to_string(),
        "AR==".to_string(),
      ]
    };
    let b = g.pick(&bad).clone();
    let mut v: Vec<String> = shares[..tu].to_vec();
    v.insert(g.below(tu as u64 + 1) as usize, b);
    emit_group(&v.join("\n"), &epoch, "bad_base64");
    // valid base64 of something that is not a share
    let sb = BASE64_STANDARD.decode(&shares[0]).unwrap();
    let junk: Vec<u8> = match g.below(6) {
      0 => vec![],
      1 => sb[..g.below(sb.len() as u64) as usize].to_vec(),
      2 => { let mut x = sb.clone(); x.push(0); x }
      3 => { let n = g.below(200) as usize; g.bytes(n) }
      4 => { let mut x = sb.clone(); x[8..32].copy_from_slice(&[0xff; 24]); x }
      _ => { let mut x = sb.clone(); x[4] ^= 1; x }
    };
    let mut v: Vec<String> = shares[..tu].to_vec();
    v.insert(g.below(tu as u64 + 1) as usize, BASE64_STANDARD.encode(&junk));
    emit_group(&v.join("\n"), &epoch, "bad_share");
    // a share without y-coordinates: first / somewhere / alone
    let yl = BASE64_STANDARD.encode(yless(&sb));
    let mut v: Vec<String> = shares[..tu].to_vec();
    v.insert(0, yl.clone());
    emit_group(&v.join("\n"), &epoch, "yless_first");
    let mut v: Vec<String> = shares[..tu].to_vec();
    v.insert(g.range(1, tu as u64) as usize, yl.clone());
    emit_group(&v.join("\n"), &epoch, "yless_inside");
    emit_group(&yl, &epoch, "yless_alone");
    // faulted share content that still decodes (rewritten threshold, bit flips in C/D/J/y)
    let mut x = sb.clone();
    match g.below(3) {
      0 => x[..4].copy_from_slice(&(g.below(t as u64 + 2) as u32).to_le_bytes()),
      1 => { let o = x.len() - 1 - g.below(64) as usize; x[o] ^= 1 << g.below(8); }
      _ => x[32] ^= 1,
    }
    let mut v: Vec<String> = shares[1..tu + 1].to_vec();
    v.insert(0, BASE64_STANDARD.encode(&x));
    emit_group(&v.join("\n"), &epoch, "faulted_first");
    if case == 0 {
      emit_group("", &epoch, "empty");
      emit_group("\n", &epoch, "newline_only");
      emit_group("", "", "empty_empty");
    }
  }
}

// ---------------------------------------------------------------------------------------------

pub type Canon = Vec<(Vec<u8>, Vec<Option<Vec<u8>>>)>;

/// run the real server on `msgs` inside a pool of `threads` workers; `None` = it panicked
pub fn run_server(t: u32, epoch: &str, msgs: &[Message], threads: usize) -> Option<Canon> {
  let pool = rayon::ThreadPoolBuilder::new().num_threads(threads).build().unwrap();
  let res = std::panic::catch_unwind(std::panic::AssertUnwindSafe(|| {
    pool.install(|| {
      let srv = AggregationServer::new(t, epoch);
      srv
        .retrieve_outputs(msgs)
        .into_iter()
        .map(|o| (o.x.as_vec(), o.aux.iter().map(|a| a.as_ref().map(|d| d.as_vec())).collect::<Vec<_>>()))
        .collect::<Canon>()
    })
  }));
  res.ok()
}

/// ONE server object serving several batches one after the other (a long-lived aggregator that is
/// polled repeatedly); every batch in its own pool. `None` = that call panicked
pub fn run_server_history(t: u32, epoch: &str, batches: &[Vec<Message>], threads: usize) -> Vec<Option<Canon>> {
  let srv = AggregationServer::new(t, epoch);
  batches
    .iter()
    .map(|msgs| {
      let pool = rayon::ThreadPoolBuilder::new().num_threads(threads).build().unwrap();
      std::panic::catch_unwind(std::panic::AssertUnwindSafe(|| {
        pool.install(|| {
          srv
            .retrieve_outputs(msgs)
            .into_iter()
            .map(|o| (o.x.as_vec(), o.aux.iter().map(|a| a.as_ref().map(|d| d.as_vec())).collect::<Vec<_>>()))
            .collect::<Canon>()
        })
      }))
      .ok()
    })
    .collect()
}

pub fn render(outs: &Canon) -> String {
  if outs.is_empty() {
    return "ok -".into();
  }
  let mut items: Vec<String> = outs
    .iter()
    .map(|(m, auxes)| format!("{}={}", hex(m), auxes.iter().map(aux_tok).collect::<Vec<_>>().join(",")))
    .collect();
  items.sort();
  format!("ok {}", items.join(";"))
}

fn agg_aux(g: &mut Sm) -> Option<Vec<u8>> {
  match g.below(4) {
    0 => None,
    1 => Some(vec![]),
    2 => Some({ let n = g.range(1, 40) as usize; g.blob(n) }),
    _ => gen_aux(g).map(|a| a.into_iter().take(200).collect()),
  }
}

fn emit_agg(t: u32, epoch: &str, msgs: &[Message], threads: usize, what: &str) {
  let ans = match run_server(t, epoch, msgs, threads) {
    Some(o) => render(&o),
    None => "panic".into(),
  };
  stat(&format!("agg.{}.{}", what, ans.split(' ').next().unwrap()));
  stat(&format!("agg.threads.{}", threads));
  let wire: Vec<Vec<u8>> = msgs.iter().map(|m| m.to_bytes()).collect();
  let req = format!("agg.run {} {} {}", t, hex(epoch.as_bytes()), hexlist(&wire));
  emit(req.trim_end(), &ans);
}

pub fn agg(tier: &str, seed: u64) {
  let mut g = Sm::new(seed, "agg");
  let n = if quick(tier) { 16 } else { 200 };
  for case in 0..n {
    let t = if case % 6 == 0 { 1 } else { g.range(1, 8) as u32 };
    let epoch = gen_epoch(&mut g);
    let e = epoch.as_bytes();
    let ngroups = g.range(if case == 1 { 0 } else { 1 }, if quick(tier) { 4 } else { 7 }) as usize;
    let mut msgs: Vec<Message> = Vec::new();
    let mut firsts: Vec<Message> = Vec::new();
    for gi in 0..ngroups {
      let m = { let n = if g.chance(1, 8) { 0 } else { gen_len(&mut g, 80) }; let mut v = g.blob(n); v.push(gi as u8); v };
      let m = if gi == 0 && g.chance(1, 4) { vec![] } else { m };
      let size = match g.below(5) {
        0 => t as u64 - 1,
        1 => t as u64,
        2 => t as u64 + 1,
        _ => g.range(0, 2 * t as u64),
      } as usize;
      for i in 0..size {
        let c = make_client(&m, e, t, agg_aux(&mut g), None);
        if i == 0 {
          firsts.push(c.msg.clone());
        }
        msgs.push(c.msg);
      }
    }
    g.shuffle(&mut msgs);
    let threads = g.range(1, 16) as usize;
    emit_agg(t, &epoch, &msgs, threads, "honest");
    // same multiset, other order, other pool
    g.shuffle(&mut msgs);
    emit_agg(t, &epoch, &msgs, g.range(1, 16) as usize, "honest_reordered");
    // HISTORY: one server object polled with three batches - everything, then a batch in which each
    // measurement is cut down to fewer reports (many now below the threshold), then everything
    // again; the model is stateless, so each answer must be the one for that batch alone
    {
      let mut seen: std::collections::HashMap<Vec<u8>, usize> = Default::default();
      let cut: Vec<Message> = msgs
        .iter()
        .filter(|m| {
          let c = seen.entry(m.tag.clone()).or_insert(0);
          *c += 1;
          *c < t as usize || (*c == t as usize && m.tag[0] & 1 == 1)
        })
        .cloned()
        .collect();
      let batches = vec![msgs.clone(), cut, msgs.clone()];
      let outs = run_server_history(t, &epoch, &batches, threads);
      for (b, o) in batches.iter().zip(outs) {
        let ans = match o {
          Some(o) => render(&o),
          None => "panic".into(),
        };
        let wire: Vec<Vec<u8>> = b.iter().map(|m| m.to_bytes()).collect();
        let req = format!("agg.run {} {} {}", t, hex(epoch.as_bytes()), hexlist(&wire));
        emit(req.trim_end(), &ans);
        stat("agg.server_reused_across_batches");
      }
    }
    // server threshold above the clients'
    emit_agg(t + 1 + g.below(3) as u32, &epoch, &msgs, threads, "server_threshold_above");
    // malformed multisets
    match case % 5 {
      0 => {
        // two measurements under one tag
        let a = make_client(b"measurement A", e, t, agg_aux(&mut g), None);
        let mut bad: Vec<Message> = (0..t).map(|_| make_client(b"measurement A", e, t, agg_aux(&mut g), None).msg).collect();
        let mut b = make_client(b"measurement B", e, t, agg_aux(&mut g), None).msg;
        b.tag = a.msg.tag.clone();
        bad.insert(g.below(bad.len() as u64 + 1) as usize, b);
        let mut all = msgs.clone();
        all.extend(bad);
        if g.chance(1, 2) {
          g.shuffle(&mut all);
        }
        emit_agg(t, &epoch, &all, threads, "two_measurements_one_tag");
      }
      1 => {
        // a bucket that reaches the threshold with copies of ONE report
        let one = make_client(b"lonely", e, t.max(2), agg_aux(&mut g), None).msg;
        let mut all = msgs.clone();
        for _ in 0..t.max(2) {
          all.insert(g.below(all.len() as u64 + 1) as usize, one.clone());
        }
        emit_agg(t.max(2), &epoch, &all, threads, "copies_of_one_report");
      }
      2 => {
        // the server's threshold below the clients': buckets pass the filter but do not recover
        if t >= 2 && !msgs.is_empty() {
          emit_agg(t - 1, &epoch, &msgs, threads, "server_threshold_below");
        }
      }
      3 => {
        // the server runs another epoch
        let other = format!("{}x", epoch);
        emit_agg(t, &other, &msgs, threads, "server_other_epoch");
      }
      _ => {
        // a report whose ciphertext was replaced / truncated inside a recovering bucket
        if let Some(f) = firsts.first() {
          let mut all = msgs.clone();
          let mut forged = f.clone();
          let ctb = forged.ciphertext.to_bytes();
          let cut = g.below(ctb.len() as u64 + 1) as usize;
          forged.ciphertext = sta_rs::Ciphertext::from_bytes(&ctb[..cut]);
          all.push(forged);
          emit_agg(t, &epoch, &all, threads, "truncated_ciphertext");
        }
      }
    }
  }
}
