//! `ggm` stream: whole eval/puncture histories on a fresh `GGM::setup()` through the public
//! `PPRF` API; the final key state is read through the `verif-hooks` inspection hooks.
//!
//! request: `ggm.hist <k0> <k1> <s0> <s1> <ops>`  (ops: `e:<hex>` / `p:<hex>`, `-` = empty input)
//! answer:  `ok <r1>;...;<rn>;<nodes>#<punctured>`
use crate::util::*;
use ppoprf::ggm::GGM;
use ppoprf::{PPRFError, PPRF};

pub fn err_kind(e: &PPRFError) -> &'static str {
  match e {
    PPRFError::NoPrefixFound => "NoPrefixFound",
    PPRFError::AlreadyPunctured => "AlreadyPunctured",
    PPRFError::BadInputLength { .. } => "BadInputLength",
    PPRFError::UnexpectedEndOfBv => "UnexpectedEndOfBv",
    _ => "other",
  }
}

pub fn bits_str(b: &[bool]) -> String {
  b.iter().map(|x| if *x { '1' } else { '0' }).collect()
}

/// canonical dump of the key state: retained nodes in storage order, `#`, punctured list
pub fn dump(ggm: &GGM) -> String {
  let nodes: Vec<String> =
    ggm.verif_retained_nodes().iter().map(|(b, s)| format!("{}:{}", bits_str(b), hex(s))).collect();
  let punct: Vec<String> = ggm.verif_punctured().iter().map(|b| bits_str(b)).collect();
  format!("{}#{}", nodes.join("|"), punct.join("|"))
}

#[derive(Clone, Debug)]
pub enum Op {
  Eval(Vec<u8>),
  Punct(Vec<u8>),
}

pub fn op_str(op: &Op) -> String {
  match op {
    Op::Eval(i) => format!("e:{}", hex(i)),
    Op::Punct(i) => format!("p:{}", hex(i)),
  }
}

/// run one op on the real implementation, canonical result string
pub fn run_op(ggm: &mut GGM, op: &Op) -> String {
  match op {
    Op::Eval(i) => {
      let mut out = [0u8; 32];
      match ggm.eval(i, &mut out) {
        Ok(()) => format!("ok:{}", hex(&out)),
        Err(e) => format!("err:{}", err_kind(&e)),
      }
    }
    Op::Punct(i) => match ggm.puncture(i) {
      Ok(()) => "ok".to_string(),
      Err(e) => format!("err:{}", err_kind(&e)),
    },
  }
}

/// one whole history on a fresh key; emits one line
pub fn run_history(ops: &[Op], tag: &str) {
  let line = guarded(|| {
    let mut ggm = GGM::setup();
    let keys = ggm.verif_prg_keys();
    let nodes = ggm.verif_retained_nodes();
    assert!(keys.len() == 2 && nodes.len() == 2 && ggm.verif_inp_len() == 1);
    let mut res: Vec<String> = Vec::new();
    for op in ops {
      let r = run_op(&mut ggm, op);
      let kind = match op {
        Op::Eval(_) => "eval",
        Op::Punct(_) => "puncture",
      };
      stat(&format!("ggm.{}.{}", kind, if r.starts_with("ok") { "ok" } else { &r[4..] }));
      res.push(r);
    }
    res.push(dump(&ggm));
    stat_n("ggm.ops", ops.len() as u64);
    stat_n("ggm.final.retained", ggm.verif_retained_nodes().len() as u64);
    stat_n("ggm.final.punctured", ggm.verif_punctured().len() as u64);
    let opss: Vec<String> = ops.iter().map(op_str).collect();
    format!(
      "ggm.hist {} {} {} {} {}\tok {}",
      hex(&keys[0]),
      hex(&keys[1]),
      hex(&nodes[0].1),
      hex(&nodes[1].1),
      if opss.is_empty() { "-".to_string() } else { opss.join(",") },
      res.join(";")
    )
  });
  stat(&format!("ggm.hist.{}", tag));
  stat(&format!("ggm.len_bucket.{}", match ops.len() { 0..=9 => "0-9", 10..=49 => "10-49", 50..=149 => "50-149", _ => "150+" }));
  match line.split_once('\t') {
    Some((req, ans)) => emit(req, ans),
    None => emit("ggm.hist - - - - -", "panic"),
  }
}

/// an input: mostly one byte (often from a small pool so repeats/collisions happen), sometimes of
/// a wrong length
pub fn gen_input(g: &mut Sm, pool: &[u8]) -> Vec<u8> {
  match g.below(20) {
    0 => vec![],
    1 => g.bytes(2),
    2 => {
      let n = g.range(3, 5) as usize;
      g.bytes(n)
    }
    3..=11 => vec![*g.pick(pool)],
    _ => vec![g.next() as u8],
  }
}

fn random_history(g: &mut Sm, max_ops: usize) -> Vec<Op> {
  let n = g.range(0, max_ops as u64) as usize;
  let pool: Vec<u8> = { let k = g.range(1, 12) as usize; g.bytes(k) };
  let p_punct = g.range(1, 9);
  (0..n)
    .map(|_| {
      let i = gen_input(g, &pool);
      if g.chance(p_punct, 10) { Op::Punct(i) } else { Op::Eval(i) }
    })
    .collect()
}

/// the sibling of leaf `x` at tree depth `d` (1..=8); bit `d-1` of the Lsb0 bit string is bit
/// `d-1` of the byte
pub fn flip(x: u8, d: u32) -> u8 {
  x ^ (1u8 << (d - 1))
}

fn adversarial(g: &mut Sm, which: u64, max_ops: usize) -> Vec<Op> {
  let mut ops = Vec::new();
  let x = g.next() as u8;
  match which {
    // sibling first: the leaf, its deepest sibling, then siblings of shallower levels
    0 => {
      ops.push(Op::Punct(vec![x]));
      for d in (1..=8).rev() {
        ops.push(Op::Punct(vec![flip(x, d)]));
        ops.push(Op::Eval(vec![x]));
        ops.push(Op::Eval(vec![flip(x, d)]));
      }
    }
    // subtree last: all leaves below a depth-`d` node but one, evaluating the survivor
    1 => {
      let d = g.range(3, 6) as u32; // node depth, subtree has 2^(8-d) leaves
      let mask: u8 = ((1u16 << d) - 1) as u8; // low d bits = first d bits of the path
      let mut leaves: Vec<u8> = (0..=255u8).filter(|y| y & mask == x & mask).collect();
      g.shuffle(&mut leaves);
      let last = leaves.pop().unwrap();
      for y in leaves {
        ops.push(Op::Punct(vec![y]));
        ops.push(Op::Eval(vec![last]));
      }
      ops.push(Op::Punct(vec![last]));
      ops.push(Op::Eval(vec![last]));
      ops.push(Op::Punct(vec![last]));
    }
    // ascending / descending runs
    2 | 3 => {
      let n = g.range(2, (max_ops as u64 / 2).min(256)) as usize;
      let start = g.next() as u8;
      for k in 0..n {
        let y = if which == 2 { start.wrapping_add(k as u8) } else { start.wrapping_sub(k as u8) };
        ops.push(Op::Punct(vec![y]));
        if g.chance(1, 2) {
          ops.push(Op::Eval(vec![y.wrapping_add(g.below(3) as u8)]));
        }
      }
    }
    // repeated punctures of one input, evals of punctured inputs
    4 => {
      for _ in 0..g.range(2, 6) {
        ops.push(Op::Punct(vec![x]));
        ops.push(Op::Eval(vec![x]));
      }
      let y = g.next() as u8;
      ops.push(Op::Punct(vec![y]));
      ops.push(Op::Punct(vec![x]));
      ops.push(Op::Punct(vec![y]));
      ops.push(Op::Eval(vec![y]));
    }
    // wrong lengths around valid operations
    _ => {
      for i in [vec![], vec![x, x], vec![x, 0], vec![0, x], g.bytes(3), g.bytes(32)] {
        ops.push(Op::Eval(i.clone()));
        ops.push(Op::Punct(i));
        ops.push(Op::Punct(vec![g.next() as u8]));
        ops.push(Op::Eval(vec![x]));
      }
    }
  }
  ops.truncate(max_ops.max(40));
  ops
}

/// every one of the 256 inputs punctured (random / ascending / bit-reversed order), with evals
fn complete(g: &mut Sm, order: u64) -> Vec<Op> {
  let mut xs: Vec<u8> = (0..=255u8).collect();
  match order {
    0 => g.shuffle(&mut xs),
    1 => {}
    2 => xs.reverse(),
    _ => xs = xs.iter().map(|x| x.reverse_bits()).collect(),
  }
  let mut ops = Vec::new();
  for (k, x) in xs.iter().enumerate() {
    ops.push(Op::Punct(vec![*x]));
    if k % 8 == 0 {
      ops.push(Op::Eval(vec![g.next() as u8]));
    }
  }
  ops.push(Op::Eval(vec![xs[0]]));
  ops.push(Op::Punct(vec![xs[255]]));
  ops
}

pub fn ggm(tier: &str, seed: u64) {
  let mut g = Sm::new(seed, "ggm");
  let (n, max_ops) = if quick(tier) { (60, 40) } else { (1500, 300) };
  // fixed small histories first (also the empty history)
  run_history(&[], "fixed");
  run_history(&[Op::Eval(vec![0])], "fixed");
  run_history(&[Op::Punct(vec![0]), Op::Punct(vec![1]), Op::Eval(vec![2]), Op::Eval(vec![0])], "fixed");
  run_history(&[Op::Punct(vec![8]), Op::Eval(vec![8]), Op::Punct(vec![8])], "fixed");
  for case in 0..n {
    match case % 10 {
      0..=5 => {
        // most random histories are short, some use the whole budget
        let m = if g.chance(1, 4) { max_ops } else { (max_ops / 5).max(10) };
        let h = random_history(&mut g, m);
        run_history(&h, "random")
      }
      6 => {
        let mut h = adversarial(&mut g, case as u64 / 10 % 6, max_ops);
        // followed by a random tail
        let tail = random_history(&mut g, 8);
        h.extend(tail);
        run_history(&h, "adversarial")
      }
      7 => {
        let w = g.below(6);
        let h = adversarial(&mut g, w, max_ops);
        run_history(&h, "adversarial")
      }
      8 => {
        // long puncture-heavy run over distinct inputs: deep co-paths and large key states
        let mut xs: Vec<u8> = (0..=255u8).collect();
        g.shuffle(&mut xs);
        let k = g.range(1, (max_ops as u64).min(256)) as usize;
        let mut h: Vec<Op> = Vec::new();
        for x in &xs[..k] {
          h.push(Op::Punct(vec![*x]));
          if g.chance(1, 6) {
            h.push(Op::Eval(vec![*g.pick(&xs)]));
          }
        }
        h.truncate(max_ops);
        run_history(&h, "distinct")
      }
      _ => {
        if !quick(tier) && case % 100 == 9 {
          let h = complete(&mut g, (case as u64 / 100) % 4);
          run_history(&h, "complete")
        } else {
          let h = random_history(&mut g, max_ops / 2);
          run_history(&h, "random")
        }
      }
    }
  }
}
