//! Oracles for C10 (puncturing removes exactly the punctured inputs and changes nothing else) and
//! C11 (the retained key material is off every punctured path) on the REAL `ppoprf::ggm::GGM`
//! only — no model involved. The key state is observed through the `verif-hooks` inspection hooks;
//! the expected seeds of the whole tree are re-derived independently with `strobe-rs` from the two
//! PRG keys and the two first-level seeds.
use crate::oracle::*;
use crate::s_ggm::{bits_str, err_kind};
use crate::util::*;
use ppoprf::ggm::GGM;
use ppoprf::PPRF;
use std::collections::HashMap;
use std::time::Instant;
use strobe_rs::{SecParam, Strobe};

type Nodes = Vec<(Vec<bool>, Vec<u8>)>;

/// one fresh key with everything recorded before any puncture
struct Ctx {
  fresh: GGM,
  /// the 256 values before any puncture
  vals: Vec<Vec<u8>>,
  /// independently derived seed of every tree node, keyed by (depth, path bits as an Lsb0 number)
  tree: HashMap<(u8, u8), Vec<u8>>,
}

/// `GGMPseudorandomGenerator::eval` re-done with strobe-rs directly (StrobeRng::fill_bytes is
/// `meta_ad(le32(len)); prf(len)`)
fn prg(key: &[u8; 32], inp: &[u8]) -> Vec<u8> {
  let mut t = Strobe::new(b"ggm eval (ppoprf)", SecParam::B128);
  t.key(key, false);
  t.ad(inp, false);
  let mut out = vec![0u8; 32];
  t.meta_ad(&(out.len() as u32).to_le_bytes(), false);
  t.prf(&mut out, false);
  out
}

fn node_id(bits: &[bool]) -> (u8, u8) {
  let mut v = 0u8;
  for (i, b) in bits.iter().enumerate().take(8) {
    if *b {
      v |= 1 << i;
    }
  }
  (bits.len() as u8, v)
}

/// is the node (len, v) an ancestor-or-self of leaf x
fn covers(id: (u8, u8), x: u8) -> bool {
  let (l, v) = id;
  l >= 1 && l <= 8 && (if l == 8 { x } else { x & ((1u8 << l) - 1) }) == v
}

fn bits_of(x: u8) -> Vec<bool> {
  (0..8).map(|i| (x >> i) & 1 == 1).collect()
}

fn state(g: &GGM) -> (Nodes, Vec<Vec<bool>>) {
  (g.verif_retained_nodes(), g.verif_punctured())
}

fn seq_hex(order: &[u8]) -> String {
  hex(order)
}

fn new_ctx(pid: &str) -> Option<Ctx> {
  let fresh = GGM::setup();
  let keys = fresh.verif_prg_keys();
  let nodes = fresh.verif_retained_nodes();
  if keys.len() != 2 || fresh.verif_inp_len() != 1 {
    fail("setup_shape", &[("prgs", keys.len().to_string()), ("inp_len", fresh.verif_inp_len().to_string())]);
    return None;
  }
  // the fresh key stores exactly the two depth-1 nodes, nothing punctured
  if nodes.len() != 2 || nodes[0].0 != vec![false] || nodes[1].0 != vec![true] || !fresh.verif_punctured().is_empty() {
    fail("fresh_key_shape", &[("nodes", nodes.iter().map(|n| bits_str(&n.0)).collect::<Vec<_>>().join("|"))]);
    return None;
  }
  let mut tree: HashMap<(u8, u8), Vec<u8>> = HashMap::new();
  tree.insert((1, 0), nodes[0].1.clone());
  tree.insert((1, 1), nodes[1].1.clone());
  for l in 1u8..8 {
    for v in 0u16..(1u16 << l) {
      let parent = tree[&(l, v as u8)].clone();
      for b in 0..2u16 {
        tree.insert((l + 1, (v | (b << l)) as u8), prg(&keys[b as usize], &parent));
      }
    }
  }
  let mut vals = Vec::with_capacity(256);
  for x in 0..=255u8 {
    let mut out = [0u8; 32];
    match fresh.eval(&[x], &mut out) {
      Ok(()) => vals.push(out.to_vec()),
      Err(e) => {
        fail("fresh_eval_failed", &[("input", hex(&[x])), ("err", err_kind(&e).into())]);
        return None;
      }
    }
    // value before any puncture = independently derived leaf seed
    if vals[x as usize] != tree[&(8, x)] {
      fail("fresh_value_not_ggm_tree_value", &[("input", hex(&[x])), ("impl", hex(&vals[x as usize])), ("rederived", hex(&tree[&(8, x)]))]);
    }
  }
  // all 256 recorded values pairwise distinct
  if pid == "C10" {
    let mut sorted: Vec<(&Vec<u8>, usize)> = vals.iter().zip(0..).collect();
    sorted.sort();
    for w in sorted.windows(2) {
      if w[0].0 == w[1].0 {
        fail("values_collide", &[("a", format!("{:02x}", w[0].1)), ("b", format!("{:02x}", w[1].1)), ("value", hex(w[0].0))]);
      }
    }
    case(true);
  }
  // liveness self-test of the oracle itself (never set by the check runner): corrupt the recorded
  // expectations, every run must then report FAIL lines
  if std::env::var("VERIF_GGM_SELFTEST").is_ok() {
    vals[5][0] ^= 1;
    tree.get_mut(&(2, 1)).unwrap()[0] ^= 1;
  }
  Some(Ctx { fresh, vals, tree })
}

const WRONG: &[&[u8]] = &[&[], &[0, 0], &[7, 7, 7], &[1; 32]];

/// C10 checks on the state reached by successfully puncturing `order` (in this order); `scope` =
/// the inputs examined individually
fn check_c10(ctx: &Ctx, g: &GGM, order: &[u8], scope: &[u8], k: &mut Sm) {
  let mut is_p = [false; 256];
  for x in order {
    is_p[*x as usize] = true;
  }
  let st = state(g);
  // the recorded punctured list is exactly the successful punctures, in order
  let want: Vec<Vec<bool>> = order.iter().map(|x| bits_of(*x)).collect();
  if st.1 != want {
    fail("punctured_list_mismatch", &[("order", seq_hex(order)), ("impl", st.1.iter().map(|b| bits_str(b)).collect::<Vec<_>>().join("|"))]);
  }
  for &x in scope {
    let mut out = [0u8; 32];
    let r = g.eval(&[x], &mut out);
    if is_p[x as usize] {
      match r {
        Err(ppoprf::PPRFError::NoPrefixFound) => {}
        Ok(()) => fail("punctured_input_still_evaluates", &[("order", seq_hex(order)), ("input", hex(&[x])), ("value", hex(&out)), ("recorded", hex(&ctx.vals[x as usize]))]),
        Err(e) => fail("punctured_eval_other_error", &[("order", seq_hex(order)), ("input", hex(&[x])), ("err", err_kind(&e).into())]),
      }
      // puncturing again fails and leaves the state unchanged
      let mut c = g.clone();
      match c.puncture(&[x]) {
        Ok(()) => fail("repuncture_succeeded", &[("order", seq_hex(order)), ("input", hex(&[x]))]),
        Err(ppoprf::PPRFError::NoPrefixFound) => {}
        Err(e) => {
          stat(&format!("c10.repuncture_err.{}", err_kind(&e)));
          if !matches!(e, ppoprf::PPRFError::AlreadyPunctured) {
            fail("repuncture_unexpected_error", &[("order", seq_hex(order)), ("input", hex(&[x])), ("err", err_kind(&e).into())]);
          }
        }
      }
      if state(&c) != st {
        fail("failed_puncture_changed_state", &[("order", seq_hex(order)), ("input", hex(&[x]))]);
      }
      stat("c10.checked.punctured");
    } else {
      match r {
        Ok(()) => {
          if out.to_vec() != ctx.vals[x as usize] {
            fail("unpunctured_value_changed", &[("order", seq_hex(order)), ("input", hex(&[x])), ("now", hex(&out)), ("recorded", hex(&ctx.vals[x as usize]))]);
          }
        }
        Err(e) => fail("unpunctured_input_refused", &[("order", seq_hex(order)), ("input", hex(&[x])), ("err", err_kind(&e).into())]),
      }
      stat("c10.checked.unpunctured");
    }
  }
  // wrong lengths: refused with BadInputLength by both calls, state unchanged
  let w = WRONG[k.below(WRONG.len() as u64) as usize];
  let mut out = [0u8; 32];
  let mut c = g.clone();
  let re = c.eval(w, &mut out);
  let rp = c.puncture(w);
  let ok_e = matches!(re, Err(ppoprf::PPRFError::BadInputLength { actual, expected }) if actual == w.len() && expected == 1);
  let ok_p = matches!(rp, Err(ppoprf::PPRFError::BadInputLength { actual, expected }) if actual == w.len() && expected == 1);
  if !ok_e || !ok_p || state(&c) != st {
    fail("wrong_length_not_refused_cleanly", &[("order", seq_hex(order)), ("input", hex(w)), ("eval_refused", ok_e.to_string()), ("puncture_refused", ok_p.to_string()), ("state_unchanged", (state(&c) == st).to_string())]);
  }
  case(!order.is_empty());
}

/// C11 checks on the state reached by puncturing `order`
fn check_c11(ctx: &Ctx, g: &GGM, order: &[u8], scope: &[u8]) {
  let (nodes, punct) = state(g);
  let ids: Vec<(u8, u8)> = nodes.iter().map(|n| node_id(&n.0)).collect();
  let mut is_p = [false; 256];
  for x in order {
    is_p[*x as usize] = true;
  }
  if punct.len() != order.len() || punct.iter().zip(order).any(|(b, x)| *b != bits_of(*x)) {
    fail("punctured_list_mismatch", &[("order", seq_hex(order))]);
  }
  for (n, id) in nodes.iter().zip(&ids) {
    // the root seed (empty prefix) is never stored; depth within 1..=8
    if n.0.is_empty() || n.0.len() > 8 {
      fail("bad_prefix_length", &[("order", seq_hex(order)), ("prefix", bits_str(&n.0))]);
      continue;
    }
    // no retained node on the path to a punctured input (the leaf itself included)
    for x in order {
      if covers(*id, *x) {
        fail("node_on_punctured_path_retained", &[("order", seq_hex(order)), ("prefix", bits_str(&n.0)), ("punctured", hex(&[*x])), ("seed", hex(&n.1))]);
      }
    }
    // the retained seed is the GGM-tree seed of its node (independent re-derivation)
    if ctx.tree.get(id) != Some(&n.1) {
      fail("retained_seed_not_node_seed", &[("order", seq_hex(order)), ("prefix", bits_str(&n.0)), ("seed", hex(&n.1))]);
    }
    if n.0.len() == 8 && n.1 != ctx.vals[id.1 as usize] {
      fail("retained_leaf_not_recorded_value", &[("order", seq_hex(order)), ("prefix", bits_str(&n.0))]);
    }
  }
  // the seeds on the punctured paths (every ancestor and the leaf value) are not among the
  // retained material, byte for byte
  for x in order {
    for l in 1u8..=8 {
      let id = (l, if l == 8 { *x } else { *x & ((1u8 << l) - 1) });
      let s = &ctx.tree[&id];
      if nodes.iter().any(|n| &n.1 == s) {
        fail("punctured_path_seed_retained", &[("order", seq_hex(order)), ("punctured", hex(&[*x])), ("depth", l.to_string())]);
      }
    }
  }
  // every unpunctured input has exactly one retained ancestor, every punctured one none
  for x in 0..=255u8 {
    let c = ids.iter().filter(|id| covers(**id, x)).count();
    let want = if is_p[x as usize] { 0 } else { 1 };
    if c != want {
      fail("cover_count", &[("order", seq_hex(order)), ("input", hex(&[x])), ("retained_ancestors", c.to_string()), ("want", want.to_string())]);
    }
  }
  // descending from the retained seeds through the public eval gives the recorded values
  for &x in scope {
    if !is_p[x as usize] {
      let mut out = [0u8; 32];
      match g.eval(&[x], &mut out) {
        Ok(()) if out.to_vec() == ctx.vals[x as usize] => {}
        _ => fail("retained_seed_descends_wrongly", &[("order", seq_hex(order)), ("input", hex(&[x]))]),
      }
    }
  }
  stat_n("c11.retained_nodes_seen", nodes.len() as u64);
  case(!order.is_empty());
}

struct Run<'a> {
  pid: &'a str,
  g: Sm,
  /// probability denominator of a full 256-input scope at a DFS node
  full_every: u64,
  deadline: Instant,
  budget_hit: bool,
}

impl<'a> Run<'a> {
  fn check(&mut self, ctx: &Ctx, ggm: &GGM, order: &[u8], dom: &[u8], force_full: bool) {
    let full = force_full || self.g.below(self.full_every) == 0;
    let scope: Vec<u8> = if full {
      stat("scope.full");
      (0..=255u8).collect()
    } else {
      stat("scope.domain");
      let mut s = dom.to_vec();
      for _ in 0..4 {
        s.push(self.g.next() as u8);
      }
      s
    };
    if self.pid == "C10" {
      check_c10(ctx, ggm, order, &scope, &mut self.g)
    } else {
      check_c11(ctx, ggm, order, &scope)
    }
  }

  /// puncture `x` (not yet punctured): must succeed
  fn punct(&mut self, ggm: &mut GGM, order: &[u8], x: u8) -> bool {
    match ggm.puncture(&[x]) {
      Ok(()) => true,
      Err(e) => {
        fail("puncture_of_unpunctured_refused", &[("order", seq_hex(order)), ("input", hex(&[x])), ("err", err_kind(&e).into())]);
        false
      }
    }
  }

  /// every order of every subset of `dom` (each DFS node = one reachable state)
  fn all_orders(&mut self, ctx: &Ctx, ggm: &GGM, dom: &[u8], order: &mut Vec<u8>) {
    if Instant::now() > self.deadline {
      self.budget_hit = true;
      return;
    }
    for &x in dom {
      if order.contains(&x) {
        continue;
      }
      let mut c = ggm.clone();
      if !self.punct(&mut c, order, x) {
        continue;
      }
      order.push(x);
      stat("states.all_orders");
      self.check(ctx, &c, order, dom, false);
      self.all_orders(ctx, &c, dom, order);
      order.pop();
    }
  }

  /// every subset of `dom`, reached in the order `dom` lists its elements
  fn all_subsets(&mut self, ctx: &Ctx, ggm: &GGM, dom: &[u8], from: usize, order: &mut Vec<u8>) {
    if Instant::now() > self.deadline {
      self.budget_hit = true;
      return;
    }
    for i in from..dom.len() {
      let mut c = ggm.clone();
      if !self.punct(&mut c, order, dom[i]) {
        continue;
      }
      order.push(dom[i]);
      stat("states.all_subsets");
      self.check(ctx, &c, order, dom, false);
      self.all_subsets(ctx, &c, dom, i + 1, order);
      order.pop();
    }
  }

  /// a long sequence, full scope after every step
  fn sequence(&mut self, ctx: &Ctx, seq: &[u8], tag: &str) {
    let mut ggm = ctx.fresh.clone();
    let mut order: Vec<u8> = Vec::new();
    self.check(ctx, &ggm, &order, &[], true);
    for &x in seq {
      if order.contains(&x) {
        // a repeated puncture inside the sequence: must fail, state unchanged (checked by C10 scope)
        let before = state(&ggm);
        if ggm.puncture(&[x]).is_ok() || state(&ggm) != before {
          fail("repeated_puncture_in_sequence", &[("order", seq_hex(&order)), ("input", hex(&[x]))]);
          return;
        }
        stat("sequence.repeat_refused");
        continue;
      }
      if !self.punct(&mut ggm, &order, x) {
        return;
      }
      order.push(x);
      stat(&format!("states.sequence.{}", tag));
      self.check(ctx, &ggm, &order, &[], true);
    }
    if order.len() == 256 {
      stat("sequence.complete_puncturing");
      if !ggm.verif_retained_nodes().is_empty() {
        fail("nodes_left_after_complete_puncturing", &[("count", ggm.verif_retained_nodes().len().to_string())]);
      }
    }
  }
}

/// leaves at tree-order positions `a .. a+m` (tree order = path bits read as a big-endian number,
/// i.e. the byte bit-reversed); aligned (one whole subtree) iff `a % m == 0` for `m` a power of two
fn tree_range(a: usize, m: usize) -> Vec<u8> {
  (a..a + m).map(|t| ((t % 256) as u8).reverse_bits()).collect()
}

fn drive(pid: &str, tier: &str, seed: u64) {
  let q = quick(tier);
  let t0 = Instant::now();
  let secs = if q { 14 } else { 400 };
  let mut r = Run { pid, g: Sm::new(seed, &format!("oracle.{}", pid)), full_every: if q { 16 } else { 48 }, deadline: t0 + std::time::Duration::from_secs(secs), budget_hit: false };

  // 1. small sub-domains exhaustively
  let (m_orders, m_subsets) = if q { (5usize, 8usize) } else { (8, 16) };
  let mut doms: Vec<(String, Vec<u8>, bool)> = Vec::new(); // (tag, leaves, all orders?)
  let a_al = (r.g.below(256 / m_orders.next_power_of_two() as u64) as usize) * m_orders.next_power_of_two();
  doms.push(("orders.aligned".into(), tree_range(a_al, m_orders), true));
  doms.push(("orders.unaligned".into(), tree_range(a_al + m_orders.next_power_of_two() / 2 + 1, m_orders), true));
  let c0 = r.g.next() as u8;
  doms.push(("orders.numeric_run".into(), (0..(m_orders - 1) as u8).map(|i| c0.wrapping_add(i)).collect(), true));
  let b_al = (r.g.below(256 / m_subsets as u64) as usize) * m_subsets;
  doms.push(("subsets.aligned".into(), tree_range(b_al, m_subsets), false));
  doms.push(("subsets.unaligned".into(), tree_range(b_al + m_subsets / 2 - 1, m_subsets), false));
  {
    // the same unaligned window taken in a shuffled order
    let mut d = tree_range(b_al + 3, m_subsets);
    r.g.shuffle(&mut d);
    doms.push(("subsets.shuffled".into(), d, false));
  }
  for (tag, dom, orders) in &doms {
    let ctx = match new_ctx(pid) {
      Some(c) => c,
      None => return,
    };
    stat(&format!("domains.{}", tag));
    let mut order = Vec::new();
    r.check(&ctx, &ctx.fresh, &order, dom, true);
    if *orders {
      r.all_orders(&ctx, &ctx.fresh, dom, &mut order);
    } else {
      r.all_subsets(&ctx, &ctx.fresh, dom, 0, &mut order);
    }
  }

  // 2. ordered pairs over the full domain (thorough: all 256*255; quick: 12 partners each)
  {
    let ctx = match new_ctx(pid) {
      Some(c) => c,
      None => return,
    };
    for a in 0..=255u8 {
      if Instant::now() > r.deadline {
        r.budget_hit = true;
        break;
      }
      let mut g1 = ctx.fresh.clone();
      if !r.punct(&mut g1, &[], a) {
        continue;
      }
      r.check(&ctx, &g1, &[a], &[a], a % 16 == 0);
      let partners: Vec<u8> = if q {
        let mut p: Vec<u8> = (1..=8).map(|d| a ^ (1u8 << (d - 1))).collect(); // the 8 siblings
        for _ in 0..4 {
          p.push(r.g.next() as u8);
        }
        p
      } else {
        (0..=255u8).collect()
      };
      for b in partners {
        if b == a {
          continue;
        }
        let mut g2 = g1.clone();
        if !r.punct(&mut g2, &[a], b) {
          continue;
        }
        stat("states.pairs");
        r.check(&ctx, &g2, &[a, b], &[a, b], false);
      }
    }
  }

  // 2b. CALL HISTORIES on one object, no full sweep in between: eval(x); puncture(y); eval(x);
  //     puncture(x); eval(x) - the value of x must not change while x is unpunctured, and x must stay
  //     refused afterwards, whatever was evaluated last before each puncture
  if pid == "C10" {
    let ctx = match new_ctx(pid) {
      Some(c) => c,
      None => return,
    };
    let ntr = if q { 400 } else { 20000 };
    let mut g1 = ctx.fresh.clone();
    let mut punctured: Vec<u8> = Vec::new();
    for i in 0..ntr {
      if punctured.len() > 200 || i % 50 == 0 {
        g1 = ctx.fresh.clone();
        punctured.clear();
      }
      let x = r.g.next() as u8;
      let y = match r.g.below(4) {
        0 => x ^ (1u8 << r.g.below(8)),
        1 => x.wrapping_sub(1),
        _ => r.g.next() as u8,
      };
      let ev = |gg: &GGM, x: u8| -> Result<Vec<u8>, String> {
        let mut out = [0u8; 32];
        gg.eval(&[x], &mut out).map(|_| out.to_vec()).map_err(|e| err_kind(&e).to_string())
      };
      let want = |p: &Vec<u8>, x: u8| -> Result<Vec<u8>, String> { if p.contains(&x) { Err("NoPrefixFound".into()) } else { Ok(ctx.vals[x as usize].clone()) } };
      let mut trace = format!("punctured_before={} eval({})", hex(&punctured), x);
      let mut step = |what: &str, got: Result<Vec<u8>, String>, wanted: Result<Vec<u8>, String>, trace: &str| {
        if got != wanted {
          fail("call_history_changes_answer", &[("history", trace.to_string()), ("step", what.to_string()), ("got", format!("{:?}", got.as_ref().map(|v| hex(v)))), ("want", format!("{:?}", wanted.as_ref().map(|v| hex(v))))]);
        }
      };
      step("first eval(x)", ev(&g1, x), want(&punctured, x), &trace);
      if g1.puncture(&[y]).is_ok() && !punctured.contains(&y) {
        punctured.push(y);
      }
      trace.push_str(&format!(" puncture({}) eval({})", y, x));
      step("eval(x) after puncture(y)", ev(&g1, x), want(&punctured, x), &trace);
      if r.g.chance(1, 2) {
        if g1.puncture(&[x]).is_ok() && !punctured.contains(&x) {
          punctured.push(x);
        }
        trace.push_str(&format!(" puncture({}) eval({})", x, x));
        step("eval(x) after puncture(x)", ev(&g1, x), want(&punctured, x), &trace);
      }
      case(true);
      stat("states.call_triples");
    }
  }

  // 2c. COLLAPSE histories: everything outside one aligned subtree is punctured first (the retained
  //     set shrinks to a single inner node), then inputs inside it - checked in full only at the end
  //     of each phase, so the whole history is cheap enough for the quick tier
  for (what, mask) in [("half tree", 0x01u8), ("4-leaf subtree", 0x3f), ("8-leaf subtree", 0x1f), ("2-leaf subtree", 0x7f)] {
    if Instant::now() > r.deadline {
      r.budget_hit = true;
      break;
    }
    let ctx = match new_ctx(pid) {
      Some(c) => c,
      None => return,
    };
    let c = r.g.next() as u8 & mask;
    let mut g1 = ctx.fresh.clone();
    let mut order: Vec<u8> = Vec::new();
    let mut outside: Vec<u8> = (0..=255u8).filter(|x| x & mask != c).collect();
    r.g.shuffle(&mut outside);
    let mut ok = true;
    for x in outside {
      if !r.punct(&mut g1, &order, x) {
        ok = false;
        break;
      }
      order.push(x);
    }
    if !ok {
      continue;
    }
    stat(&format!("states.collapse.{}", what.replace(' ', "_")));
    r.check(&ctx, &g1, &order, &[], true);
    let mut inside: Vec<u8> = (0..=255u8).filter(|x| x & mask == c).collect();
    r.g.shuffle(&mut inside);
    for x in inside {
      if !r.punct(&mut g1, &order, x) {
        break;
      }
      order.push(x);
      r.check(&ctx, &g1, &order, &[], true);
    }
  }

  // 3. long sequences up to complete puncturing
  let nseq = if q { 6 } else { 48 };
  for i in 0..nseq {
    if Instant::now() > r.deadline {
      r.budget_hit = true;
      break;
    }
    let ctx = match new_ctx(pid) {
      Some(c) => c,
      None => return,
    };
    let mut seq: Vec<u8> = (0..=255u8).collect();
    let tag = match i % 6 {
      0 => {
        r.g.shuffle(&mut seq);
        "random"
      }
      1 => "ascending",
      2 => {
        seq.reverse();
        "descending"
      }
      3 => {
        // tree order: left to right, every subtree completed before the next
        seq = tree_range(0, 256);
        "tree_order"
      }
      4 => {
        // sibling first: x, then its sibling at every level from the deepest, then the rest
        let x = r.g.next() as u8;
        let mut s = vec![x];
        for d in (1..=8).rev() {
          s.push(x ^ (1u8 << (d - 1)));
        }
        let mut rest: Vec<u8> = (0..=255u8).filter(|y| !s.contains(y)).collect();
        r.g.shuffle(&mut rest);
        s.extend(rest);
        seq = s;
        "sibling_first"
      }
      _ => {
        // subtree last: everything outside a depth-3 subtree first, with repeats sprinkled in
        let x = r.g.next() as u8;
        let (mut inside, mut outside): (Vec<u8>, Vec<u8>) = (0..=255u8).partition(|y| y & 7 == x & 7);
        r.g.shuffle(&mut outside);
        r.g.shuffle(&mut inside);
        let mut s = Vec::new();
        for (j, y) in outside.iter().enumerate() {
          s.push(*y);
          if j % 9 == 4 {
            s.push(outside[r.g.below(j as u64 + 1) as usize]); // repeat of an earlier one
          }
        }
        s.extend(inside);
        seq = s;
        "subtree_last"
      }
    };
    // quick tier: the first sequences run to completion, later ones stop early
    if q && i >= 3 {
      seq.truncate(96);
    }
    r.sequence(&ctx, &seq, tag);
    if i == 0 {
      sample(&[("property", pid.into()), ("history", format!("complete puncturing, {} order", tag)), ("first_inputs", seq_hex(&seq[..8])), ("value_of_input_00_before", hex(&ctx.vals[0]))]);
    }
  }
  if r.budget_hit {
    stat("oracle.time_budget_hit");
  }
  stat_n("oracle.elapsed_ms", t0.elapsed().as_millis() as u64);
}

pub fn c10(tier: &str, seed: u64) {
  drive("C10", tier, seed)
}

/// C11 at the level of the key HOLDER (`Server`) and of the state it exports: after every
/// `Server::puncture(tag)` that reports success - registered tag or not, first puncture or repeat -
/// neither the server's puncturable key nor the key state exported, serialised and imported into
/// another server retains a node on the path to `tag`, and the retained nodes cannot evaluate it.
fn c11_server(tier: &str, seed: u64) {
  use ppoprf::ppoprf::{Server, ServerKeyState};
  let mut g = Sm::new(seed, "oracle.C11.server");
  let n = if quick(tier) { 12 } else { 150 };
  for si in 0..n {
    let mds: Vec<u8> = match si % 4 {
      0 => vec![0, 1, 1, 2, 3, 3, 3], // a tag list may name a tag more than once
      1 => (0..g.range(1, 6)).map(|_| g.next() as u8).collect(),
      2 => vec![0, 128, 255],
      _ => (0..=255u8).step_by(g.range(1, 9) as usize).collect(),
    };
    let mut server = match Server::new(mds.clone()) {
      Ok(s) => s,
      Err(_) => continue,
    };
    let mut done: Vec<u8> = Vec::new();
    let mut trace = format!("new:{}", hex(&mds));
    // a long-lived FOLLOWER (odd cases): it imports every exported state over whatever it holds at
    // that moment - the previous import plus punctures of its own, possibly more than the leader's
    let mut follower: Option<Server> = if si % 2 == 1 { Some(Server::new(vec![9, 8, 7]).expect("Server::new")) } else { None };
    for step in 0..g.range(2, 7) {
      // registered tags, unregistered ones, extremes, siblings of earlier punctures, repeats
      let md = match g.below(6) {
        0 => *g.pick(&mds),
        1 => *g.pick(&[0u8, 255, 128, 127, 200]),
        2 if !done.is_empty() => *g.pick(&done) ^ (1u8 << g.below(8)),
        3 if !done.is_empty() => *g.pick(&done),
        _ => g.next() as u8,
      };
      let res = server.puncture(md);
      trace.push_str(&format!(" pu:{}:{}", md, if res.is_ok() { "ok" } else { "err" }));
      if res.is_ok() && !done.contains(&md) {
        done.push(md);
      }
      // the exported state, through bincode, into a server with its own identity
      let bytes = bincode::serialize(&server.get_private_key()).expect("serialize key state");
      let st: ServerKeyState = bincode::deserialize(&bytes).expect("deserialize key state");
      let mut importer = match follower.take() {
        Some(mut f) => {
          // local punctures of the follower before the next sync (any tags, often several)
          for _ in 0..g.below(4) {
            let x = g.next() as u8;
            let r = f.puncture(x);
            trace.push_str(&format!(" follower-pu:{}:{}", x, if r.is_ok() { "ok" } else { "err" }));
          }
          stat("oracle.C11.imports_into_a_used_follower");
          f
        }
        None => Server::new(vec![9, 8, 7]).expect("Server::new"),
      };
      importer.set_private_key(st);
      trace.push_str(" import");
      // whole-state replacement: the importer holds exactly the exporter's nodes
      {
        let (a, b) = (server.verif_pprf().verif_retained_nodes(), importer.verif_pprf().verif_retained_nodes());
        if a != b || server.verif_pprf().verif_punctured() != importer.verif_pprf().verif_punctured() {
          fail("imported_key_state_differs_from_exported", &[("registered_tags", hex(&mds)), ("trace", trace.clone()), ("exporter_nodes", a.len().to_string()), ("importer_nodes", b.len().to_string())]);
        }
      }
      for (holder, srv) in [("key holder", &server), ("importer of the exported key state", &importer)] {
        let nodes = srv.verif_pprf().verif_retained_nodes();
        for &x in &done {
          for nd in &nodes {
            if covers(node_id(&nd.0), x) {
              fail(
                "node_on_punctured_path_retained",
                &[("where", holder.to_string()), ("registered_tags", hex(&mds)), ("trace", trace.clone()), ("punctured", x.to_string()), ("registered", mds.contains(&x).to_string()), ("prefix", bits_str(&nd.0)), ("seed", hex(&nd.1))],
              );
            }
          }
          let mut out = [0u8; 32];
          if srv.verif_pprf().eval(&[x], &mut out).is_ok() {
            fail("punctured_input_still_evaluates", &[("where", holder.to_string()), ("registered_tags", hex(&mds)), ("trace", trace.clone()), ("input", x.to_string()), ("value", hex(&out))]);
          }
          // ... and nothing else the server keeps (tables, caches) answers for the tag either
          let (bp, _) = ppoprf::ppoprf::Client::blind(b"c11");
          for verifiable in [false, true] {
            if let Ok(ev) = srv.eval(&bp, x, verifiable) {
              fail("punctured_input_still_evaluates", &[("where", format!("{}: Server::eval(verifiable = {})", holder, verifiable)), ("registered_tags", hex(&mds)), ("trace", trace.clone()), ("input", x.to_string()), ("value", hex(ev.output.as_bytes()))]);
            }
          }
        }
        // every input not punctured is still covered by exactly one retained node
        if step == 0 || g.chance(1, 3) {
          for x in 0..=255u8 {
            if !done.contains(&x) {
              let c = nodes.iter().filter(|nd| covers(node_id(&nd.0), x)).count();
              if c != 1 {
                fail("cover_count", &[("where", holder.to_string()), ("trace", trace.clone()), ("input", x.to_string()), ("retained_ancestors", c.to_string()), ("want", "1".into())]);
              }
            }
          }
        }
      }
      // RELAY: the importer punctures a tag of its own and exports; what it exports is its CURRENT
      // key - a third server importing that state holds nothing on the path of any tag punctured so
      // far, including the importer's own one
      if step % 2 == 0 || g.chance(1, 2) {
        let y = { let mut y = g.below(256) as u8; if mds.contains(&y) && g.chance(1, 2) { y = *g.pick(&mds); } y };
        let r = importer.puncture(y);
        trace.push_str(&format!(" importer-pu:{}:{}", y, if r.is_ok() { "ok" } else { "err" }));
        let mut gone: Vec<u8> = done.clone();
        gone.push(y);
        match bincode::serialize(&importer.get_private_key()).ok().and_then(|b| bincode::deserialize::<ServerKeyState>(&b).ok()) {
          None => fail("key_state_relay_failed", &[("trace", trace.clone())]),
          Some(st) => {
            let mut third = Server::new(vec![1, 2, 3]).expect("Server::new");
            third.set_private_key(st);
            trace.push_str(" relay-export third-import");
            let nodes = third.verif_pprf().verif_retained_nodes();
            for &x in &gone {
              for nd in &nodes {
                if covers(node_id(&nd.0), x) {
                  fail(
                    "node_on_punctured_path_retained",
                    &[("where", "state exported by an importer after a puncture of its own, as held by a third server".into()), ("registered_tags", hex(&mds)), ("trace", trace.clone()), ("punctured", x.to_string()), ("prefix", bits_str(&nd.0)), ("seed", hex(&nd.1))],
                  );
                }
              }
              let mut out = [0u8; 32];
              if third.verif_pprf().eval(&[x], &mut out).is_ok() {
                fail("punctured_input_still_evaluates", &[("where", "third server holding the state an importer exported after a puncture of its own".into()), ("registered_tags", hex(&mds)), ("trace", trace.clone()), ("input", x.to_string()), ("value", hex(&out))]);
              }
            }
            if nodes != importer.verif_pprf().verif_retained_nodes() {
              fail("imported_key_state_differs_from_exported", &[("where", "relay: importer -> third server".into()), ("registered_tags", hex(&mds)), ("trace", trace.clone())]);
            }
          }
        }
        stat("oracle.C11.relayed_exports");
      }
      case(true);
      stat("oracle.C11.server_states");
      if si % 2 == 1 {
        follower = Some(importer);
      }
    }
  }
}

pub fn c11(tier: &str, seed: u64) {
  c11_server(tier, seed);
  drive("C11", tier, seed)
}
