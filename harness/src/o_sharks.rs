//! Oracles for C06 (textbook Shamir against an independent big-integer implementation) and
//! C07 (field arithmetic against num-bigint).
use crate::oracle::*;
use crate::s_fp::{fp_of, lattice, le24, repr};
use crate::s_sharks::share_bytes;
use crate::util::*;
use ff::{Field, PrimeField};
use num_bigint::BigUint;
use num_traits::{One, Zero};
use star_sharks::{Fp, Share, Sharks};

pub fn modulus() -> BigUint {
  (BigUint::one() << 128) + BigUint::from(12451u32)
}

pub fn big(f: &Fp) -> BigUint {
  BigUint::from_bytes_le(&repr(f))
}

pub fn fp_from_big(b: &BigUint) -> Fp {
  let mut v = b.to_bytes_le();
  v.resize(24, 0);
  let mut a = [0u8; 24];
  a.copy_from_slice(&v);
  fp_of(&a).expect("canonical")
}

fn rand_big(g: &mut Sm, lat: &[[u8; 24]]) -> BigUint {
  if g.chance(1, 3) {
    BigUint::from_bytes_le(&g.pick(lat)[..])
  } else {
    BigUint::from_bytes_le(&g.bytes(17)) % modulus()
  }
}

pub fn c07(tier: &str, seed: u64) {
  let mut g = Sm::new(seed, "oracle.C07");
  let p = modulus();
  let lat: Vec<[u8; 24]> = lattice().into_iter().filter(|b| fp_of(b).is_some()).collect();
  let n = if quick(tier) { 1500 } else { 60000 };
  let chk = |name: &str, a: &BigUint, b: &BigUint, got: &Fp, want: BigUint| {
    if big(got) != want {
      fail("field_op", &[("op", name.into()), ("a", a.to_str_radix(16)), ("b", b.to_str_radix(16)), ("got", big(got).to_str_radix(16)), ("want", want.to_str_radix(16))]);
    }
  };
  for i in 0..n {
    let a = rand_big(&mut g, &lat);
    let b = rand_big(&mut g, &lat);
    let (x, y) = (fp_from_big(&a), fp_from_big(&b));
    chk("add", &a, &b, &(x + y), (&a + &b) % &p);
    chk("sub", &a, &b, &(x - y), (&a + &p - &b) % &p);
    chk("neg", &a, &b, &(-x), (&p - &a) % &p);
    chk("double", &a, &b, &x.double(), (&a + &a) % &p);
    chk("mul", &a, &b, &(x * y), (&a * &b) % &p);
    chk("square", &a, &b, &x.square(), (&a * &a) % &p);
    if i % 16 == 0 {
      let e = BigUint::from_bytes_le(&g.bytes(24));
      let limbs: Vec<u64> = {
        let mut v = e.to_bytes_le();
        v.resize(24, 0);
        (0..3).map(|k| u64::from_le_bytes(v[8 * k..8 * k + 8].try_into().unwrap())).collect()
      };
      chk("pow", &a, &e, &x.pow_vartime(&limbs), a.modpow(&e, &p));
      match Option::<Fp>::from(x.invert()) {
        None => {
          if !a.is_zero() {
            fail("field_op", &[("op", "invert-none-on-nonzero".into()), ("a", a.to_str_radix(16))]);
          }
        }
        Some(r) => {
          if a.is_zero() || (big(&r) * &a) % &p != BigUint::one() {
            fail("field_op", &[("op", "invert".into()), ("a", a.to_str_radix(16)), ("got", big(&r).to_str_radix(16))]);
          }
        }
      }
      // sqrt: Euler criterion decides whether a root must exist
      let is_sq = a.is_zero() || a.modpow(&((&p - 1u32) / 2u32), &p) == BigUint::one();
      match Option::<Fp>::from(x.sqrt()) {
        Some(r) => {
          if (big(&r) * big(&r)) % &p != a {
            fail("field_op", &[("op", "sqrt-wrong".into()), ("a", a.to_str_radix(16))]);
          }
        }
        None => {
          if is_sq {
            fail("field_op", &[("op", "sqrt-missing".into()), ("a", a.to_str_radix(16))]);
          }
        }
      }
      if did_panic(|| {
        let _ = Fp::sqrt_ratio(&x, &y);
      }) {
        fail("sqrt_ratio_panic", &[("num", a.to_str_radix(16)), ("div", b.to_str_radix(16))]);
      }
    }
    case(true);
    if i == 7 {
      sample(&[("op", "mul".into()), ("a", a.to_str_radix(16)), ("b", b.to_str_radix(16)), ("impl", big(&(x * y)).to_str_radix(16))]);
    }
  }
  // encodings: every 24-byte string decodes iff its value is < p, and re-encodes to itself
  let m = if quick(tier) { 2000 } else { 100000 };
  for i in 0..m {
    let mut b = [0u8; 24];
    b.copy_from_slice(&g.bytes(24));
    match i % 4 {
      0 => b[17..].fill(0),
      1 => {
        b[17..].fill(0);
        b[16] &= 1;
      }
      2 => b = le24(12451u128.wrapping_add(g.below(7) as u128).wrapping_sub(3), 1),
      _ => {}
    }
    let v = BigUint::from_bytes_le(&b);
    match fp_of(&b) {
      Some(f) => {
        if v >= p || repr(&f) != b.to_vec() {
          fail("encoding", &[("bytes", hex(&b)), ("why", "accepted non-canonical or re-encoded differently".into())]);
        }
      }
      None => {
        if v < p {
          fail("encoding", &[("bytes", hex(&b)), ("why", "canonical encoding rejected".into())]);
        }
      }
    }
    // the same decision through the public decoding surface (Share::try_from): as the x coordinate
    // and as a y coordinate; an accepted share re-encodes to the bytes it was read from
    for as_y in [false, true] {
      let mut sb = Vec::new();
      if as_y {
        sb.extend(le24(1, 0));
      }
      sb.extend(b);
      let r = Share::try_from(&sb[..]);
      match r {
        Ok(sh) => {
          if v >= p || share_bytes(&sh) != sb {
            fail("encoding", &[("bytes", hex(&b)), ("why", format!("Share::try_from accepted a non-canonical {} or re-encoded it differently", if as_y { "y" } else { "x" }))]);
          }
        }
        Err(_) => {
          if v < p {
            fail("encoding", &[("bytes", hex(&b)), ("why", format!("Share::try_from rejected a canonical {} coordinate", if as_y { "y" } else { "x" }))]);
          }
        }
      }
    }
    case(true);
  }
  // the limb-product lattice as encodings, and Montgomery-lattice operands with a second operation
  for b in crate::s_fp::limb_lattice() {
    let v = BigUint::from_bytes_le(&b);
    match fp_of(&b) {
      Some(f) => {
        if v >= p || repr(&f) != b.to_vec() {
          fail("encoding", &[("bytes", hex(&b)), ("why", "accepted non-canonical or re-encoded differently (limb lattice)".into())]);
        }
      }
      None => {
        if v < p {
          fail("encoding", &[("bytes", hex(&b)), ("why", "canonical encoding rejected (limb lattice)".into())]);
        }
      }
    }
    case(true);
  }
  {
    let ml: Vec<Fp> = crate::s_fp::mont_lattice().iter().map(|b| fp_of(b).unwrap()).collect();
    let every = if quick(tier) { 9 } else { 1 };
    let mut cnt = 0usize;
    for x in &ml {
      for y in &ml {
        cnt += 1;
        if cnt % every != 0 {
          continue;
        }
        let (a, b) = (big(x), big(y));
        let s = *x + *y;
        let sb = (&a + &b) % &p;
        chk("neg-after-add", &a, &b, &(-s), (&p - &sb) % &p);
        chk("sub-from-zero-after-add", &a, &b, &(Fp::ZERO - s), (&p - &sb) % &p);
        let d = x.double();
        chk("neg-after-double", &a, &a, &(-d), (&p - (&a + &a) % &p) % &p);
        let m = *x * *y;
        chk("neg-after-mul", &a, &b, &(-m), (&p - (&a * &b) % &p) % &p);
        chk("add-after-mul", &a, &b, &(m + *y), ((&a * &b) + &b) % &p);
        case(true);
      }
    }
    stat_n("oracle.C07.mont_lattice_points", ml.len() as u64);
  }
  // published constants
  let gch = |name: &str, ok: bool| {
    if !ok {
      fail("constant", &[("name", name.into())]);
    }
    case(true);
  };
  let gen = big(&Fp::MULTIPLICATIVE_GENERATOR);
  let pm1 = &p - 1u32;
  gch("MODULUS", BigUint::parse_bytes(Fp::MODULUS.trim_start_matches("0x").as_bytes(), 16) == Some(p.clone()));
  gch("NUM_BITS", Fp::NUM_BITS as u64 == p.bits());
  gch("CAPACITY", Fp::CAPACITY == Fp::NUM_BITS - 1);
  gch("S", (&pm1 >> (Fp::S as usize)) << (Fp::S as usize) == pm1 && ((&pm1 >> (Fp::S as usize)) & BigUint::one()) == BigUint::one());
  gch("TWO_INV", (big(&Fp::TWO_INV) * 2u32) % &p == BigUint::one());
  // a generator must not be killed by any (p-1)/q, q prime factor of p-1 = 2 * q0
  let q0 = BigUint::parse_bytes(b"170141183460469231731687303715884111953", 10).unwrap();
  gch("MULTIPLICATIVE_GENERATOR(order)", gen.modpow(&pm1, &p).is_one() && !gen.modpow(&q0, &p).is_one() && !gen.modpow(&BigUint::from(2u32), &p).is_one());
  gch("MULTIPLICATIVE_GENERATOR(non-residue)", gen.modpow(&(&pm1 / 2u32), &p) == pm1);
  let t = &pm1 >> (Fp::S as usize);
  gch("ROOT_OF_UNITY", big(&Fp::ROOT_OF_UNITY) == gen.modpow(&t, &p));
  gch("ROOT_OF_UNITY(primitive)", big(&Fp::ROOT_OF_UNITY).modpow(&(BigUint::one() << (Fp::S as usize)), &p).is_one() && !big(&Fp::ROOT_OF_UNITY).modpow(&(BigUint::one() << (Fp::S as usize - 1)), &p).is_one());
  gch("ROOT_OF_UNITY_INV", (big(&Fp::ROOT_OF_UNITY) * big(&Fp::ROOT_OF_UNITY_INV)) % &p == BigUint::one());
  gch("DELTA", big(&Fp::DELTA) == gen.modpow(&(BigUint::one() << (Fp::S as usize)), &p));
  gch("FIELD_ELEMENT_LEN", star_sharks::FIELD_ELEMENT_LEN == 24 && std::mem::size_of::<Fp>() == 24);
}

// ---------------------------------------------------------------------------------------------

fn eval_big(coeffs_high_first: &[BigUint], x: &BigUint, p: &BigUint) -> BigUint {
  let mut acc = BigUint::zero();
  for c in coeffs_high_first {
    acc = (acc * x + c) % p;
  }
  acc
}

fn inv_big(a: &BigUint, p: &BigUint) -> BigUint {
  a.modpow(&(p - 2u32), p)
}

/// independent Lagrange interpolation at zero
fn lagrange0(pts: &[(BigUint, BigUint)], p: &BigUint) -> BigUint {
  let mut acc = BigUint::zero();
  for (i, (xi, yi)) in pts.iter().enumerate() {
    let mut num = BigUint::one();
    let mut den = BigUint::one();
    for (j, (xj, _)) in pts.iter().enumerate() {
      if i != j {
        num = num * xj % p;
        den = den * ((xj + p - xi) % p) % p;
      }
    }
    acc = (acc + yi * num % p * inv_big(&den, p)) % p;
  }
  acc
}

/// RNG that records every word it hands out
pub struct RecRng {
  pub inner: Sm,
  pub words: Vec<u64>,
  pub zero_next: usize,
  /// word positions (counted from the first word handed out) that are forced to zero
  pub zero_at: Vec<usize>,
}
impl rand_core::RngCore for RecRng {
  fn next_u32(&mut self) -> u32 {
    self.next_u64() as u32
  }
  fn next_u64(&mut self) -> u64 {
    let w = if self.zero_next > 0 {
      self.zero_next -= 1;
      0
    } else if self.zero_at.contains(&self.words.len()) {
      self.inner.next();
      0
    } else {
      self.inner.next()
    };
    self.words.push(w);
    w
  }
  fn fill_bytes(&mut self, d: &mut [u8]) {
    rand_core::impls::fill_bytes_via_next(self, d)
  }
  fn try_fill_bytes(&mut self, d: &mut [u8]) -> Result<(), rand_core::Error> {
    self.fill_bytes(d);
    Ok(())
  }
}

/// the draws an independent reading of the word stream yields: 3 words per candidate, top limb
/// masked to 1 bit, accepted when < p, value = raw * 2^-192 mod p
fn draws_from_words(words: &[u64], p: &BigUint) -> Vec<BigUint> {
  let rinv = inv_big(&((BigUint::one() << 192) % p), p);
  let mut out = Vec::new();
  for c in words.chunks(3) {
    if c.len() < 3 {
      break;
    }
    let raw = BigUint::from(c[0]) + (BigUint::from(c[1]) << 64) + (BigUint::from(c[2] & 1) << 128);
    if &raw < p {
      out.push(raw * &rinv % p);
    }
  }
  out
}

pub fn c06(tier: &str, seed: u64) {
  let mut g = Sm::new(seed, "oracle.C06");
  let p = modulus();
  let lat: Vec<[u8; 24]> = lattice().into_iter().filter(|b| fp_of(b).is_some()).collect();
  let n = if quick(tier) { 120 } else { 1500 };
  for case_i in 0..n {
    let t: u32 = match case_i % 6 {
      0 if case_i % 30 == 0 => *g.pick(&[255u32, 256, 257, 65535, 65536, 65537]),
      0 => 1,
      1 => 2,
      2 => g.range(3, 12) as u32,
      3 => g.range(13, 64) as u32,
      4 if case_i % 24 == 4 => g.range(100, 600) as u32,
      _ => g.range(1, 30) as u32,
    };
    // cost of the independent interpolation is O(k t^2): keep k small for large thresholds
    let k = if t > 1000 { 1 } else if t >= 100 { g.range(1, 2) as usize } else if t >= 30 { g.below(5) as usize } else { g.below(if quick(tier) { 5 } else { 17 }) as usize };
    let elems: Vec<BigUint> = (0..k).map(|_| rand_big(&mut g, &lat)).collect();
    let mut secret = Vec::new();
    for e in &elems {
      let mut v = e.to_bytes_le();
      v.resize(24, 0);
      secret.extend(v);
    }
    let extra = *g.pick(&[0usize, 0, 5, 23]);
    secret.extend(g.bytes(extra));
    // now and then one coefficient draw IS the zero element: the leading coefficient of the first
    // polynomial, of a later one, or any other - the dealt polynomial must carry it as drawn
    let mut zero_at = Vec::new();
    if t >= 2 && k >= 1 && g.chance(1, 3) {
      let per = t as usize - 1;
      let d = match g.below(3) {
        0 => 0,
        1 => per * g.below(k as u64) as usize,
        _ => g.below((per * k) as u64) as usize,
      };
      zero_at = vec![3 * d, 3 * d + 1, 3 * d + 2];
      stat("oracle.C06.zero_coefficient_draw");
    }
    let mut rng = RecRng { inner: Sm(g.next()), words: vec![], zero_next: 0, zero_at };
    let sharks = Sharks(t);
    let mut ev = match sharks.dealer_rng(&secret, &mut rng) {
      Ok(e) => e,
      Err(_) => {
        fail("dealer_refused_valid_secret", &[("t", t.to_string()), ("secret", hex(&secret))]);
        continue;
      }
    };
    // expected polynomials from the recorded draws
    let draws = draws_from_words(&rng.words, &p);
    let per = (t as usize).saturating_sub(1);
    if draws.len() != per * k {
      fail("draw_count", &[("t", t.to_string()), ("k", k.to_string()), ("draws", draws.len().to_string())]);
      continue;
    }
    let polys: Vec<Vec<BigUint>> = (0..k)
      .map(|j| {
        let mut c: Vec<BigUint> = draws[j * per..(j + 1) * per].to_vec();
        c.push(elems[j].clone());
        c
      })
      .collect();
    // shares from both sources
    let mut shares: Vec<Share> = Vec::new();
    let nnext = if t > 1000 { 3 } else { g.range(1, (t as u64 + 3).min(40)) as usize };
    // the dealer is an Iterator: through `next` and through the std adaptors (nth, skip, step_by)
    // the n-th item consumed is the share at x = n; a fresh dealer never hands out x = 0
    let mut pos = 0u64;
    for i in 0..nnext {
      let (how, s) = match if i < 2 || g.chance(1, 3) { g.below(4) } else { 0 } {
        1 => {
          let n = g.below(3);
          pos += n + 1;
          (format!("nth({})", n), ev.nth(n as usize).unwrap())
        }
        2 => {
          let n = g.below(3);
          pos += n + 1;
          (format!("skip({}).next()", n), ev.by_ref().skip(n as usize).next().unwrap())
        }
        3 => {
          let st = g.range(1, 3);
          pos += 1;
          (format!("step_by({}).next()", st), ev.by_ref().step_by(st as usize).next().unwrap())
        }
        _ => {
          pos += 1;
          ("next()".to_string(), ev.next().unwrap())
        }
      };
      if big(&s.x) != BigUint::from(pos) % &p {
        fail("iterator_point", &[("call", how), ("items_consumed", pos.to_string()), ("x", big(&s.x).to_str_radix(16)), ("t", t.to_string()), ("secret", hex(&secret))]);
      }
      shares.push(s);
    }
    let mut grng = RecRng { inner: Sm(g.next()), words: vec![], zero_next: if g.chance(1, 3) { 3 * g.range(1, 8) as usize } else { 0 }, zero_at: vec![] };
    let ngen = if t > 1000 { 1 } else { (t as usize + 2).saturating_sub(nnext).max(2) };
    for _ in 0..ngen {
      shares.push(ev.gen(&mut grng));
    }
    for s in &shares {
      if bool::from(s.x.is_zero()) {
        fail("share_at_zero", &[("t", t.to_string()), ("secret", hex(&secret)), ("rng_words", format!("{:?}", &grng.words[..grng.words.len().min(9)]))]);
      }
      if s.y.len() != k {
        fail("share_shape", &[("k", k.to_string()), ("ylen", s.y.len().to_string())]);
        continue;
      }
      let x = big(&s.x);
      for j in 0..k {
        let want = eval_big(&polys[j], &x, &p);
        if big(&s.y[j]) != want {
          fail("share_not_on_polynomial", &[("t", t.to_string()), ("elem", j.to_string()), ("x", x.to_str_radix(16)), ("got", big(&s.y[j]).to_str_radix(16)), ("want", want.to_str_radix(16))]);
        }
      }
    }
    // recovery from selections with exactly >= t distinct x
    let mut distinct: Vec<Share> = Vec::new();
    for s in &shares {
      if !distinct.iter().any(|d| d.x == s.x) {
        distinct.push(s.clone());
      }
    }
    // RECEIVED points need not come from this dealer: any point of the polynomials with an x not yet
    // present is a share - including x = 0 (the secret itself), p - 1 and the limb boundaries
    let mut crafted: Vec<Fp> = Vec::new();
    if k >= 1 && t <= 100 && g.chance(1, 2) {
      stat("oracle.C06.crafted_points");
      let one = BigUint::from(1u8);
      let specials = [BigUint::from(0u8), &p - &one, &one << 64, &one << 128, (&one << 64) - &one, BigUint::from(2u8)];
      let mk = |v: &BigUint| {
        let mut b = v.to_bytes_le();
        b.resize(24, 0);
        let a: [u8; 24] = b.try_into().unwrap();
        fp_of(&a).unwrap()
      };
      for i in 0..g.range(1, 3) {
        let x = if i == 0 && g.chance(1, 2) { specials[0].clone() } else { g.pick(&specials).clone() };
        let sh = Share { x: mk(&x), y: (0..k).map(|j| mk(&eval_big(&polys[j], &x, &p))).collect() };
        if !distinct.iter().any(|d| d.x == sh.x) {
          crafted.push(sh.x);
          distinct.push(sh);
        }
      }
    }
    let want: Vec<u8> = secret[..24 * k].to_vec();
    for rep in 0..3 {
      let mut sel = distinct.clone();
      g.shuffle(&mut sel);
      // a crafted point among the first threshold-many (they are the ones interpolated)
      if rep < 2 {
        if let Some(cx) = crafted.get(rep) {
          let i = sel.iter().position(|d| &d.x == cx).unwrap();
          let to = g.below((t as u64).min(sel.len() as u64).max(1)) as usize;
          sel.swap(i, to);
        }
      }
      let enough = sel.len() >= t as usize;
      if enough && g.chance(1, 2) {
        sel.truncate(t as usize);
      }
      // duplicates and surplus anywhere
      for _ in 0..g.below(3) {
        let d = g.pick(&sel).clone();
        let pos = g.below(sel.len() as u64 + 1) as usize;
        sel.insert(pos, d);
      }
      // a FORGED repeat: same x, same number of values, other values, somewhere BEHIND the genuine
      // share - it is a repeated x, not a further distinct share (the first occurrence counts)
      if k >= 1 && !sel.is_empty() && g.chance(1, 3) {
        stat("oracle.C06.forged_repeats");
        let i = g.below(sel.len() as u64) as usize;
        let mut f = sel[i].clone();
        let j = g.below(f.y.len() as u64) as usize;
        f.y[j] += Fp::ONE;
        let at = g.range(i as u64 + 1, sel.len() as u64) as usize;
        sel.insert(at.min(sel.len()), f);
      }
      let res = std::panic::catch_unwind(std::panic::AssertUnwindSafe(|| sharks.recover(&sel).map_err(|e| e.to_string())));
      match res {
        Err(_) => fail("recover_panic", &[("t", t.to_string()), ("secret", hex(&want)), ("shares", sel.iter().map(|s| hex(&Vec::from(s))).collect::<Vec<_>>().join(","))]),
        Ok(Ok(v)) => {
          // independent interpolation over the first t distinct points
          let mut first: Vec<&Share> = Vec::new();
          for s in &sel {
            if first.len() < t as usize && !first.iter().any(|d| d.x == s.x) {
              first.push(s);
            }
          }
          let mut indep = Vec::new();
          for j in 0..k {
            let pts: Vec<(BigUint, BigUint)> = first.iter().map(|s| (big(&s.x), big(&s.y[j]))).collect();
            let mut b = lagrange0(&pts, &p).to_bytes_le();
            b.resize(24, 0);
            indep.extend(b);
          }
          if !enough || v != want || v != indep {
            fail("recover_wrong", &[("t", t.to_string()), ("secret", hex(&want)), ("got", hex(&v)), ("independent", hex(&indep)), ("distinct", distinct.len().to_string()), ("distinct_x_given", first.len().to_string()), ("shares", sel.iter().map(|s| hex(&Vec::from(s))).collect::<Vec<_>>().join(","))]);
          }
        }
        Ok(Err(_)) => {
          if enough && t >= 1 {
            fail("recover_refused", &[("t", t.to_string()), ("distinct_given", sel.len().to_string())]);
          }
        }
      }
      case(true);
    }
    // a share that REPEATS an x already in the collection but has another number of y values is
    // still a share of unequal length: refused, wherever it stands after the first share
    if k >= 1 && distinct.len() >= t as usize && t >= 1 {
      let mut sel = distinct.clone();
      let mut odd = sel[g.below(sel.len() as u64) as usize].clone();
      match g.below(3) {
        0 => { odd.y.pop(); }
        1 => odd.y.clear(),
        _ => { let e = odd.y[0]; odd.y.push(e); }
      }
      let pos = g.range(1, sel.len() as u64) as usize;
      sel.insert(pos, odd);
      match std::panic::catch_unwind(std::panic::AssertUnwindSafe(|| sharks.recover(&sel).map_err(|e| e.to_string()))) {
        Err(_) => fail("recover_panic", &[("t", t.to_string()), ("what", "repeated x with another y-length".into())]),
        Ok(Ok(v)) => fail("unequal_length_share_accepted", &[("t", t.to_string()), ("k", k.to_string()), ("position_of_odd_share", pos.to_string()), ("shares", sel.iter().map(|s| hex(&share_bytes(s))).collect::<Vec<_>>().join(",")), ("returned", hex(&v))]),
        Ok(Err(_)) => {}
      }
      case(true);
      stat("oracle.C06.repeated_x_other_length");
    }
    // a list that STARTS with shares without y values (24-byte encodings) followed by the real ones
    // has shares of unequal length: refused (and the other way round)
    if k >= 1 && distinct.len() >= t as usize {
      let mut sel = distinct.clone();
      let mut empty = sel[0].clone();
      empty.y.clear();
      empty.x = fp_from_big(&BigUint::from(7_000_000u32 + case_i as u32));
      let front = g.chance(1, 2);
      if front {
        sel.insert(0, empty);
      } else {
        sel.push(empty);
      }
      match std::panic::catch_unwind(std::panic::AssertUnwindSafe(|| sharks.recover(&sel).map_err(|e| e.to_string()))) {
        Err(_) => fail("recover_panic", &[("t", t.to_string()), ("what", "a share without y values among shares with y values".into())]),
        Ok(Ok(v)) => fail("unequal_length_share_accepted", &[("t", t.to_string()), ("k", k.to_string()), ("what", format!("a share without y values {} {} shares with {} y values", if front { "before" } else { "after" }, sel.len() - 1, k)), ("returned", hex(&v))]),
        Ok(Err(_)) => {}
      }
      case(true);
      stat("oracle.C06.empty_share_among_full_ones");
    }
    // shares at CHOSEN points (related values: equal modulo 2^64 / 2^128, adjacent, negatives),
    // built with the independent evaluation: exactly t distinct of them must recover
    if k >= 1 && t >= 2 && t <= 12 {
      let mut cand: Vec<BigUint> = Vec::new();
      for d in 1..5u32 {
        cand.push(BigUint::from(d));
        cand.push((BigUint::one() << 128) + d);
        cand.push((BigUint::one() << 64) + d);
        cand.push(&p - d);
      }
      g.shuffle(&mut cand);
      // make sure a related pair is inside the window
      let d0 = BigUint::from(1 + g.below(4) as u32);
      let mut xs: Vec<BigUint> = vec![d0.clone(), (BigUint::one() << 128) + &d0];
      for c in cand {
        if xs.len() < t as usize && !xs.contains(&c) {
          xs.push(c);
        }
      }
      if xs.len() == t as usize {
        g.shuffle(&mut xs);
        let sel: Vec<Share> = xs
          .iter()
          .map(|x| Share { x: fp_from_big(x), y: polys.iter().map(|pl| fp_from_big(&eval_big(pl, x, &p))).collect() })
          .collect();
        match sharks.recover(&sel) {
          Ok(v) if v == want => {}
          other => fail(
            "recover_failed_on_chosen_distinct_points",
            &[("t", t.to_string()), ("xs", format!("{:?}", xs.iter().map(|x| x.to_str_radix(16)).collect::<Vec<_>>())), ("secret", hex(&want)), ("got", format!("{:?}", other.map(|v| hex(&v))))],
          ),
        }
        case(true);
      }
    }
    // fewer than t distinct => refused
    if t >= 2 {
      let mut sel: Vec<Share> = distinct[..(t as usize - 1).min(distinct.len())].to_vec();
      let d = sel[0].clone();
      sel.push(d.clone());
      sel.push(d);
      if sharks.recover(&sel).is_ok() {
        fail("recover_below_threshold", &[("t", t.to_string()), ("distinct", (t - 1).to_string())]);
      }
      case(true);
    }
    // unequal lengths => refused
    if k >= 1 && distinct.len() >= 2 {
      let mut sel = distinct.clone();
      sel[1].y.pop();
      if sharks.recover(&sel).is_ok() {
        fail("recover_ragged", &[("t", t.to_string())]);
      }
      case(true);
    }
    if case_i == 3 {
      sample(&[("t", t.to_string()), ("k", k.to_string()), ("shares", shares.len().to_string()), ("first_share", hex(&Vec::from(&shares[0])))]);
    }
  }
  // out-of-range secrets are refused, threshold 0 never recovers
  for d in 0..3u128 {
    let mut secret = le24(1, 0).to_vec();
    secret.extend(le24(12451 + d, 1));
    let mut rng = RecRng { inner: Sm(1), words: vec![], zero_next: 0, zero_at: vec![] };
    if Sharks(3).dealer_rng(&secret, &mut rng).is_ok() {
      fail("dealer_accepted_out_of_range", &[("secret", hex(&secret))]);
    }
    case(true);
  }
  let mut rng = RecRng { inner: Sm(5), words: vec![], zero_next: 0, zero_at: vec![] };
  let s0 = Sharks(0);
  let shares: Vec<Share> = s0.dealer_rng(&le24(7, 0), &mut rng).unwrap().take(3).collect();
  if s0.recover(&shares).is_ok() {
    fail("threshold_zero_recovers", &[]);
  }
  case(true);
}
