//! Implementation-level oracles: search the real code for a concrete input on which a property
//! fails. Output: `FAIL <kind> <json>` per failing input, `#sample <json>`, `#stat ...`.
use crate::util::*;

pub fn jstr(s: &str) -> String {
  let mut o = String::with_capacity(s.len() + 2);
  o.push('"');
  for c in s.chars() {
    match c {
      '\\' => o.push_str("\\\\"),
      '"' => o.push_str("\\\""),
      '\n' => o.push_str("\\n"),
      '\r' => o.push_str("\\r"),
      '\t' => o.push_str("\\t"),
      c if (c as u32) < 0x20 => o.push_str(&format!("\\u{:04x}", c as u32)),
      c => o.push(c),
    }
  }
  o.push('"');
  o
}

pub fn fail(kind: &str, fields: &[(&str, String)]) {
  let body: Vec<String> = fields.iter().map(|(k, v)| format!("{}:{}", jstr(k), jstr(v))).collect();
  println!("FAIL {} {{{}}}", kind, body.join(","));
  stat("oracle.failures");
}

pub fn sample(fields: &[(&str, String)]) {
  let body: Vec<String> = fields.iter().map(|(k, v)| format!("{}:{}", jstr(k), jstr(v))).collect();
  println!("#sample {{{}}}", body.join(","));
}

pub fn case(nontrivial: bool) {
  stat("oracle.cases");
  if nontrivial {
    stat("oracle.nontrivial");
  }
}

pub fn run(pid: &str, tier: &str, seed: u64) {
  match pid {
    "C01" => crate::o_star::c01(tier, seed),
    "C02" => crate::o_star::c02(tier, seed),
    "C03" => crate::o_star::c03(tier, seed),
    "C04" => crate::o_star::c04(tier, seed),
    "C05" => crate::o_star::c05(tier, seed),
    "C09" => crate::o_c09::c09(tier, seed),
    "C10" => crate::o_ggm::c10(tier, seed),
    "C11" => crate::o_ggm::c11(tier, seed),
    "C12" => crate::o_ppoprf::c12(tier, seed),
    "C13" => crate::o_ppoprf::c13(tier, seed),
    "C14" => crate::o_ppoprf::c14(tier, seed),
    "C15" => crate::o_codec::c15(tier, seed),
    "C16" => crate::o_star::c16(tier, seed),
    "C06" => crate::o_sharks::c06(tier, seed),
    "C07" => crate::o_sharks::c07(tier, seed),
    "C08" => crate::o_wire::c08(tier, seed),
    "C17" => crate::o_agg::c17(tier, seed),
    "C18" => crate::o_agg::c18(tier, seed),
    _ => {
      eprintln!("no oracle for {}", pid);
      std::process::exit(2);
    }
  }
}
