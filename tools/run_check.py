#!/usr/bin/env python3
"""Entry point of every registered check: ./check Cxx [--tier quick|thorough] [--replay PATH]

  1. regenerate lean/StarModel/Params.lean from /repo (tie, part a)
  2. lake build the property's theorem module + the driver (proof obligations)
  3. axiom / sorry audit of every property theorem
  4. cargo build the harness against /repo's working tree (hooks on)
  5. corpus + generated cases: implementation vs model, byte for byte (tie, part b)
  6. implementation-level oracle of the property (search for a concrete failing input)
  7. verdict, evidence/Cxx.json, replay file + VIOLATION line if anything is wrong
"""
import fcntl, hashlib, json, os, re, subprocess, sys, time

ROOT = os.path.dirname(os.path.dirname(os.path.abspath(__file__)))
LEAN = os.path.join(ROOT, "lean")
HARNESS = os.path.join(ROOT, "harness")
DRIVER = os.path.join(LEAN, ".lake", "build", "bin", "stardriver")
HBIN = os.path.join(HARNESS, "target", "debug", "verif-harness")
# the same harness built with debug assertions and overflow checks off (profile.release)
HBIN_REL = os.path.join(HARNESS, "target", "release", "verif-harness")
ALLOWED_AXIOMS = {"propext", "Classical.choice", "Quot.sound"}
ENV = dict(os.environ, CARGO_NET_OFFLINE="true", CARGO_TARGET_DIR=os.path.join(HARNESS, "target"))

sys.path.insert(0, os.path.join(ROOT, "tools"))
from properties import PROPS  # noqa: E402


def sh(cmd, cwd=None, timeout=None, inp=None, env=None):
    p = subprocess.run(cmd, cwd=cwd, input=inp, capture_output=True, text=True, timeout=timeout, env=env or ENV)
    return p.returncode, p.stdout, p.stderr


class Lock:
    def __enter__(self):
        self.f = open(os.path.join(ROOT, ".build.lock"), "w")
        fcntl.flock(self.f, fcntl.LOCK_EX)

    def __exit__(self, *a):
        fcntl.flock(self.f, fcntl.LOCK_UN)
        self.f.close()


def extract_params():
    rc, out, err = sh([sys.executable, os.path.join(ROOT, "tools", "extract_params.py")])
    try:
        return json.loads(out)
    except Exception:
        return {"changed": False, "misses": ["extractor failed: " + err[-300:]], "values": {}}


def lake_build(targets):
    rc, out, err = sh(["lake", "build"] + targets, cwd=LEAN, timeout=3600)
    return rc, out + err


def theorem_names(pid):
    """property theorems = every `theorem` declared in Props/Cxx.lean"""
    path = os.path.join(LEAN, "StarModel", "Props", pid + ".lean")
    if not os.path.exists(path):
        return []
    src = open(path).read()
    src = re.sub(r"/-.*?-/", "", src, flags=re.S)
    src = re.sub(r"--[^\n]*", "", src)
    ns = re.findall(r"^namespace\s+(\S+)", src, flags=re.M)
    prefix = (ns[0] + ".") if ns else ""
    return [prefix + n for n in re.findall(r"^(?:protected\s+)?theorem\s+(\S+)", src, flags=re.M)]


def lean_sources_hash():
    h = hashlib.sha256()
    for d, _, fs in sorted(os.walk(os.path.join(LEAN, "StarModel"))):
        for f in sorted(fs):
            if f.endswith(".lean"):
                h.update(f.encode())
                h.update(open(os.path.join(d, f), "rb").read())
    return h.hexdigest()


FORBIDDEN = re.compile(r"\b(sorry|admit|native_decide|bv_decide|implemented_by|unsafe)\b|^\s*axiom\s|maxHeartbeats\s+0", re.M)


def grep_forbidden():
    hits = []
    for d, _, fs in os.walk(os.path.join(LEAN, "StarModel")):
        for f in fs:
            if not f.endswith(".lean"):
                continue
            src = open(os.path.join(d, f)).read()
            src2 = re.sub(r"/-.*?-/", lambda m: "\n" * m.group(0).count("\n"), src, flags=re.S)
            src2 = re.sub(r"--[^\n]*", "", src2)
            for m in FORBIDDEN.finditer(src2):
                hits.append("%s: %s" % (f, m.group(0).strip()))
    return hits


def audit_axioms(pid, names):
    """#print axioms on every property theorem; cached by source hash"""
    cache_dir = os.path.join(LEAN, ".lake", "audit-cache")
    os.makedirs(cache_dir, exist_ok=True)
    key = hashlib.sha256((lean_sources_hash() + pid + ",".join(names)).encode()).hexdigest()[:24]
    cpath = os.path.join(cache_dir, pid + "-" + key + ".json")
    if os.path.exists(cpath):
        return json.load(open(cpath))
    src = "import StarModel.Props.%s\n" % pid + "".join("#print axioms %s\n" % n for n in names)
    apath = os.path.join(cache_dir, "Audit_%s.lean" % pid)
    open(apath, "w").write(src)
    rc, out, err = sh(["lake", "env", "lean", apath], cwd=LEAN, timeout=1800)
    res = {}
    text = out + err
    for n in names:
        m = re.search(r"'%s' depends on axioms: \[([^\]]*)\]" % re.escape(n), text, flags=re.S)
        if m:
            res[n] = sorted(a.strip() for a in m.group(1).replace("\n", " ").split(",") if a.strip())
        elif re.search(r"'%s' does not depend on any axioms" % re.escape(n), text):
            res[n] = []
        else:
            res[n] = None  # not found: theorem missing or file failed
    if rc == 0:
        json.dump(res, open(cpath, "w"))
    return res


def cargo_build():
    lock = os.path.join(HARNESS, "Cargo.lock")
    if not os.path.exists(lock):
        try:
            open(lock, "w").write(open("/repo/Cargo.lock").read())
        except OSError:
            pass
    rc, out, err = sh(["cargo", "build", "--offline"], cwd=HARNESS, timeout=3600)
    if rc == 0:
        rc, out, err = sh(["cargo", "build", "--offline", "--release"], cwd=HARNESS, timeout=3600)
    return rc, (out + err)[-4000:]


def run_harness(what, tier, seed, timeout, binary=None):
    rc, out, err = sh([binary or HBIN, what, tier, str(seed)], timeout=timeout)
    cases, stats, other = [], {}, []
    for line in out.splitlines():
        if line.startswith("#stat "):
            _, k, v = line.split(" ", 2)
            stats[k] = stats.get(k, 0) + int(v)
        elif "\t" in line:
            req, ans = line.split("\t", 1)
            cases.append((req, ans))
        elif line.strip():
            other.append(line)
    return rc, cases, stats, other, err[-2000:]


def run_driver(reqs, timeout):
    inp = "\n".join(reqs) + "\n"
    p = subprocess.run(["bash", "-c", "ulimit -s unlimited 2>/dev/null; exec " + DRIVER], input=inp, capture_output=True, text=True, timeout=timeout)
    return p.returncode, p.stdout.splitlines(), p.stderr[-2000:]


def corpus_seeds(stream):
    """seeds that exposed a disagreement in the past: they run first, on every check"""
    path = os.path.join(ROOT, "corpus", "seeds.json")
    try:
        return list(json.load(open(path)).get("streams", {}).get(stream, []))
    except Exception:
        return []


def short(s, n=220):
    return s if len(s) <= n else s[:n] + "...(%d chars)" % len(s)


def main():
    args = sys.argv[1:]
    if "--setup" in args:
        return setup()
    pid = args[0]
    tier = os.environ.get("VERIF_TIER", "quick")
    if "--tier" in args:
        tier = args[args.index("--tier") + 1]
    seed = int(os.environ.get("VERIF_SEED", "20260927") or 0)
    replay = args[args.index("--replay") + 1] if "--replay" in args else None
    if replay:
        rp = json.load(open(replay))
        seed, tier = rp.get("seed", seed), rp.get("tier", tier)
    t0 = time.time()
    prop = PROPS[pid]
    problems = []  # (kind, detail) : things that break the proof/tie
    tlimit = 900 if tier == "quick" else 7200

    with Lock():
        params = extract_params()
        names = theorem_names(pid)
        rc, log = lake_build(["StarModel.Props." + pid, "stardriver"])
        build_ok = rc == 0
        if not build_ok:
            bad = sorted(set(re.findall(r"error: (?:\./)?(\S+\.lean):(\d+)", log)))
            problems.append(("proof", "lake build StarModel.Props.%s failed: %s" % (pid, "; ".join("%s:%s" % b for b in bad[:8]) or short(log[-600:]))))
            # the driver may still be buildable on its own (model files only)
            rc2, log2 = lake_build(["stardriver"])
            if rc2 != 0:
                problems.append(("model", "driver does not build: " + short(log2[-600:])))
        axioms = audit_axioms(pid, names) if build_ok else {n: None for n in names}
        forbidden = grep_forbidden()
        if forbidden:
            problems.append(("audit", "forbidden constructs: " + "; ".join(forbidden[:6])))
        for n, ax in axioms.items():
            if ax is None and build_ok:
                problems.append(("audit", "axioms of %s could not be determined" % n))
            elif ax is not None and not set(ax) <= ALLOWED_AXIOMS:
                problems.append(("audit", "%s depends on %s" % (n, ax)))
        # thorough tier: independent re-check of the compiled theorem module
        leancheck = None
        if tier == "thorough" and build_ok:
            rcl, outl, errl = sh(["lake", "env", "leanchecker", "StarModel.Props." + pid], cwd=LEAN, timeout=3600)
            leancheck = rcl == 0
            if rcl != 0:
                problems.append(("audit", "leanchecker rejected StarModel.Props.%s: %s" % (pid, short((outl + errl)[-400:], 400))))
        rc, clog = cargo_build()
        harness_ok = rc == 0
        if not harness_ok:
            problems.append(("correspondence", "harness does not build against /repo: " + short(clog[-800:], 800)))

    discharged = sum(1 for n in names if build_ok and axioms.get(n) is not None and set(axioms[n]) <= ALLOWED_AXIOMS) if not forbidden else 0

    # --- correspondence streams -------------------------------------------------------------
    stream_info, total_cases, distinct = {}, 0, set()
    samples, disagreements = [], []
    if harness_ok and os.path.exists(DRIVER):
        for stream in prop["streams"]:
            corp = corpus_seeds(stream)
            rc, cases, stats, other, err = run_harness(stream, tier, seed, tlimit)
            if rc != 0:
                problems.append(("correspondence", "stream %s: harness exited %d: %s" % (stream, rc, short(err))))
                continue
            for cs in corp:
                if cs == seed:
                    continue
                rc_c, cases_c, stats_c, _, _ = run_harness(stream, "quick", cs, tlimit)
                if rc_c == 0:
                    cases = cases_c + cases
                    for k, v in stats_c.items():
                        stats[k] = stats.get(k, 0) + v
            # the same stream (quick size) against the implementation built without debug assertions
            # and overflow checks; the requests carry a marker only in the reports
            rc_r, cases_r, stats_r, _, err_r = run_harness(stream, "quick", seed, tlimit, HBIN_REL)
            n_release, release_from = 0, len(cases)
            if rc_r != 0:
                problems.append(("correspondence", "stream %s (release profile): harness exited %d: %s" % (stream, rc_r, short(err_r))))
            else:
                n_release = len(cases_r)
                release_from = len(cases)
                cases = cases + cases_r
                stats["release_profile.cases"] = n_release
            # corpus lines are requests only: re-ask the implementation through the replay op
            reqs = [c[0] for c in cases]
            rc, answers, derr = run_driver(reqs, tlimit)
            if rc != 0 or len(answers) != len(reqs):
                problems.append(("correspondence", "stream %s: driver rc=%d produced %d/%d answers %s" % (stream, rc, len(answers), len(reqs), short(derr))))
                continue
            bad = [((("[release profile] " + r) if (n_release and i >= release_from) else r), a, m) for i, ((r, a), m) in enumerate(zip(cases, answers)) if a != m]
            for r, a, m in bad[:3]:
                disagreements.append({"stream": stream, "request": r, "implementation": a, "model": m})
            if bad:
                problems.append(("correspondence", "stream %s: %d of %d cases disagree; first: %s impl=%s model=%s" % (stream, len(bad), len(cases), short(bad[0][0], 160), short(bad[0][1], 80), short(bad[0][2], 80))))
            total_cases += len(cases)
            for r, _ in cases:
                distinct.add(hashlib.sha1(r.encode()).digest()[:10])
            if cases:
                samples.append({"stream": stream, "request": short(cases[len(cases) // 2][0], 300), "answer": short(cases[len(cases) // 2][1], 200)})
            stream_info[stream] = {"cases": len(cases), "disagreements": len(bad), "corpus_seeds": corp, "distribution": stats}

    # --- implementation-level oracle ---------------------------------------------------------
    oracle = {"ran": False}
    fails, known_hit = [], []
    if harness_ok:
        otier = tier
        rc, cases, stats, other, err = run_harness("oracle:" + pid, otier, seed, tlimit)
        if problems and not any(l.startswith("FAIL ") for l in other) and tier == "quick":
            # proof or tie broken and nothing found yet: search harder for a concrete failing input
            rc, cases, stats, other, err = run_harness("oracle:" + pid, "thorough", seed, 7200)
            otier = "thorough(search)"
        oracle = {"ran": True, "tier": otier, "rc": rc, "stats": stats}
        if rc != 0:
            problems.append(("oracle", "oracle exited %d: %s" % (rc, short(err))))
        # the oracle again (quick size) on the build without debug assertions and overflow checks
        rc_r, _, stats_r, other_r, err_r = run_harness("oracle:" + pid, "quick", seed, tlimit, HBIN_REL)
        oracle["release_profile"] = {"rc": rc_r, "stats": stats_r}
        if rc_r != 0:
            problems.append(("oracle", "oracle (release profile) exited %d: %s" % (rc_r, short(err_r))))
        seen_fail = set(l for l in other if l.startswith("FAIL "))
        for l in other_r:
            if l.startswith("FAIL ") and l not in seen_fail:
                parts = l.split(" ", 2)
                if len(parts) == 3 and parts[2].startswith("{"):
                    l = "%s %s {\"build_profile\": \"release (debug assertions and overflow checks off)\", %s" % (parts[0], parts[1], parts[2][1:])
                other.append(l)
        stats["oracle.cases"] = stats.get("oracle.cases", 0) + stats_r.get("oracle.cases", 0)
        known = json.load(open(os.path.join(ROOT, "known_findings.json")))
        open_findings = [k for k in known.get("findings", []) if k.get("status") == "open" and k.get("property") == pid]
        for line in other:
            if line.startswith("FAIL "):
                _, kind, payload = line.split(" ", 2)
                try:
                    payload = json.loads(payload)
                except Exception:
                    payload = {"raw": payload}
                match = [k for k in open_findings if kind in (k.get("matcher") if isinstance(k.get("matcher"), list) else [k.get("matcher")])]
                if match:
                    known_hit.append((match[0], payload))
                else:
                    fails.append({"kind": kind, "input": payload})
            elif line.startswith("#sample "):
                try:
                    samples.append({"oracle": json.loads(line[8:])})
                except Exception:
                    pass
        total_cases += stats.get("oracle.cases", 0)
    for k, payload in {k["id"]: (k, p) for k, p in known_hit}.values():
        print("KNOWN-FINDING: property=%s %s" % (pid, k["what"]))

    # --- verdict ------------------------------------------------------------------------------
    violation = bool(problems or fails)
    wall = time.time() - t0
    os.makedirs(os.path.join(ROOT, "evidence"), exist_ok=True)
    os.makedirs(os.path.join(ROOT, "replays"), exist_ok=True)
    trusted = [
        "Lean 4 kernel (lake build; thorough tier re-checks with leanchecker)",
        "axioms used by the property theorems: " + ", ".join(sorted({a for v in axioms.values() if v for a in v}) or ["none"]),
        "no sorry/admit/axiom/native_decide/bv_decide in StarModel (grep + #print axioms on every property theorem)",
        "tools/extract_params.py (regenerates Params.lean from /repo on every run)",
        "correspondence harness (harness/, Rust, calls the real crates) + compiled Lean driver: validates that the hand-written model is a model of this tree",
        "third-party crates modelled at specification level and validated differentially only: ff_derive limb code, keccak, strobe-rs, curve25519-dalek, bincode, base64, serde_json",
    ] + prop.get("trusted", [])
    ev = {
        "property_id": pid,
        "tier": tier,
        "seed": seed,
        "level": "proof",
        "coverage": {
            "obligations": max(len(names), 1),
            "discharged": discharged,
            "checker_cmd": "cd lean && lake build StarModel.Props.%s stardriver && lake env lean .lake/audit-cache/Audit_%s.lean  (# print axioms of every theorem)" % (pid, pid),
            "trusted_base": trusted,
            "theorems": [{"name": n, "axioms": axioms.get(n)} for n in names],
            "clauses": prop.get("clauses", {}),
            "leanchecker_ok": leancheck,
            "params_from_source": {"regenerated": True, "changed_this_run": params.get("changed"), "misses": params.get("misses")},
            "evaluations": total_cases,
            "distinct_nontrivial": len(distinct) + oracle.get("stats", {}).get("oracle.nontrivial", 0),
            "rule": "correspondence cases are generated from the repo's own types by a SplitMix64 stream seeded with VERIF_SEED (structured, mostly valid, plus a malformed stream); distinct = distinct request lines (sha1), all of which exercise model and implementation on the same input; oracle.nontrivial as counted by the oracle (" + prop.get("nontrivial", "cases whose precondition held") + ")",
            "samples": samples[:12],
            "traces_validated_against_impl": total_cases,
            "streams": stream_info,
            "oracle": oracle,
            "disagreements": disagreements,
            "known_findings_hit": [k["id"] for k, _ in known_hit],
            "broken": [{"kind": k, "detail": d} for k, d in problems],
        },
        "assumptions": prop.get("assumptions", []),
        "wall_s": round(wall, 2),
        "violations": len(fails) + (1 if problems else 0),
    }
    json.dump(ev, open(os.path.join(ROOT, "evidence", pid + ".json"), "w"), indent=1)

    if violation:
        h = hashlib.sha1(json.dumps([fails[:1], problems], sort_keys=True).encode()).hexdigest()[:10]
        rpath = os.path.join(ROOT, "replays", "%s-%s.json" % (pid, h))
        rp = {
            "property": pid,
            "seed": seed,
            "tier": tier,
            "failing_inputs": fails[:10],
            "broken_obligations": [{"kind": k, "detail": d} for k, d in problems],
            "first_disagreements": disagreements[:5],
            "how_to_replay": "cd /verif && ./check %s --replay %s   (re-runs the oracle and the streams with the recorded seed/tier against /repo)" % (pid, os.path.relpath(rpath, ROOT)),
        }
        json.dump(rp, open(rpath, "w"), indent=1)
        for k, d in problems:
            print("BROKEN[%s]: %s" % (k, d))
        for f in fails[:5]:
            print("FAILING-INPUT: %s %s" % (f["kind"], short(json.dumps(f["input"]), 400)))
        tail = "" if fails else " no-failing-input-found"
        print("VIOLATION property=%s replay=%s%s" % (pid, rpath, tail))
        return 1
    print("OK property=%s theorems=%d/%d cases=%d wall=%.1fs" % (pid, discharged, len(names), total_cases, wall))
    return 0


def setup():
    with Lock():
        extract_params()
        rc, log = lake_build(["StarModel", "stardriver", "StarModel.AllProps"])
        if rc != 0:
            print(log[-3000:])
            # keep going: individual checks report their own broken obligations
        rc2, clog = cargo_build()
        if rc2 != 0:
            print(clog)
    return 0 if rc2 == 0 else 1


if __name__ == "__main__":
    sys.exit(main())
