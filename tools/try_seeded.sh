#!/bin/sh
# tools/try_seeded.sh <seeded-id> [check ids...]
# Applies seeded/<id>/patch.diff to /repo's working tree, runs the given checks (default: the
# property recorded in meta.json), prints their verdict lines, and ALWAYS reverts /repo afterwards.
set -u
cd "$(dirname "$0")/.."
# /repo's working tree is shared with any other check run (e.g. a thorough sweep started with
# tools/sweep.sh): hold the repo lock while the patch is applied
if [ -z "${VERIF_REPO_LOCKED:-}" ]; then
  export VERIF_REPO_LOCKED=1
  exec flock "$PWD/.repo.lock" "$0" "$@"
fi
id="$1"; shift
dir="seeded/$id"
[ -f "$dir/patch.diff" ] || { echo "no $dir/patch.diff"; exit 2; }
if [ -n "$(git -C /repo status --porcelain)" ]; then echo "/repo working tree is not clean"; exit 2; fi
checks="$*"
[ -n "$checks" ] || checks=$(python3 -c "import json;print(json.load(open('$dir/meta.json'))['property'])")
git -C /repo apply "$PWD/$dir/patch.diff" || { echo "patch does not apply"; exit 2; }
trap 'git -C /repo checkout -- . ; git -C /repo clean -fdq -- . 2>/dev/null' EXIT
rc_all=0
for c in $checks; do
  [ -f evidence/$c.json ] && cp evidence/$c.json /tmp/evidence-$c.json.saved
  out=$(./check "$c" 2>&1); rc=$?
  [ -f /tmp/evidence-$c.json.saved ] && mv /tmp/evidence-$c.json.saved evidence/$c.json
  echo "== $id / $c : exit $rc"
  echo "$out" | grep -E "^(VIOLATION|OK|KNOWN-FINDING|BROKEN|FAILING-INPUT)" | cut -c1-400 | head -8
  [ $rc -ne 0 ] && rc_all=1
done
exit $rc_all
