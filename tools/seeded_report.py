#!/usr/bin/env python3
"""Print the table of seeded defects (DESIGN.md section 12.5) from seeded/*/meta.json."""
import glob, json, os
ROOT = os.path.dirname(os.path.dirname(os.path.abspath(__file__)))
rows = []
for f in sorted(glob.glob(os.path.join(ROOT, "seeded", "*", "meta.json"))):
    m = json.load(open(f))
    caught = "; ".join("%s: %s" % (k, ", ".join(v)) for k, v in m.get("caught_by", {}).items()) or "NOT CAUGHT"
    rows.append("| %s | %s | %s | %s | %s |" % (m["id"], m["property"], m["needs"].replace("|", "/"), caught.replace("|", "/"), "missed at first — " + m.get("strengthening", "") if m.get("missed_initially") else "caught as built"))
table = "| id | property | needs to manifest | caught by | history |\n|---|---|---|---|---|\n" + "\n".join(rows)
import sys
if "--update-design" in sys.argv:
    import re
    d = os.path.join(ROOT, "DESIGN.md")
    s = open(d).read()
    s = re.sub(r"<!-- SEEDED-TABLE-BEGIN -->.*<!-- SEEDED-TABLE-END -->", lambda _: "<!-- SEEDED-TABLE-BEGIN -->\n" + table + "\n<!-- SEEDED-TABLE-END -->", s, flags=re.S)
    open(d, "w").write(s)
else:
    print(table)
