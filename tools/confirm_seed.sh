#!/bin/sh
# tools/confirm_seed.sh <agent-worktree> <seed-id> <crate-dir (e.g. star, adss, sharks, ppoprf)> [cargo feature args...]
# Stores the agent's uncommitted change and demonstration under seeded/<seed-id>/ and confirms, in a
# FRESH scratch worktree made from the stored patch: (1) the unedited suite passes with the patch,
# (2) the demonstration fails with the patch, (3) the demonstration passes without it.
# The scratch worktree and its build output are removed at the end. Prints CONFIRMED or NOT-CONFIRMED.
set -u
cd "$(dirname "$0")/.."
wt="$1"; id="$2"; crate="$3"; shift 3
feat="$*"
dir="seeded/$id"; mkdir -p "$dir"
git -C "$wt" diff -- . ':(exclude)demo' > "$dir/patch.diff"
[ -s "$dir/patch.diff" ] || { echo "empty patch"; exit 2; }
demo=$(ls "$wt"/demo/*.rs | head -1); cp "$demo" "$dir/"; dn=$(basename "$demo" .rs)
conf=/tmp/conf-$id
case "$crate" in sharks) pkg=star-sharks;; star) pkg=sta-rs;; star/test-utils) pkg=star-test-utils;; *) pkg=$crate;; esac
git -C /repo worktree add --detach "$conf" HEAD >/dev/null 2>&1 || { echo "cannot create $conf"; exit 2; }
trap 'git -C /repo worktree remove --force "$conf" >/dev/null 2>&1; rm -rf "$conf"' EXIT
export CARGO_TARGET_DIR=$conf/target CARGO_NET_OFFLINE=true
cd "$conf"
mkdir -p "$crate/tests"
cp "$OLDPWD/$dir/$dn.rs" "$crate/tests/$dn.rs"
cargo test --offline -p "$pkg" $feat --test "$dn" >/tmp/conf-$id.without.log 2>&1; without=$?
rm "$crate/tests/$dn.rs"
git apply "$OLDPWD/$dir/patch.diff" || { echo "patch does not apply"; exit 2; }
cargo test --workspace --no-fail-fast --offline >/tmp/conf-$id.suite.log 2>&1; suite=$?
passed=$(grep '^test result' /tmp/conf-$id.suite.log | awk '{p+=$4; f+=$6} END {print p" passed, "f" failed"}')
cp "$OLDPWD/$dir/$dn.rs" "$crate/tests/$dn.rs"
cargo test --offline -p "$pkg" $feat --test "$dn" >/tmp/conf-$id.with.log 2>&1; with=$?
echo "suite_with_patch: exit $suite ($passed)   demo_without_patch: exit $without   demo_with_patch: exit $with"
if [ $suite -eq 0 ] && [ $without -eq 0 ] && [ $with -ne 0 ]; then echo "CONFIRMED $id"; else echo "NOT-CONFIRMED $id (logs /tmp/conf-$id.*.log)"; fi
