#!/usr/bin/env python3
"""Write the prompt for a seeding sub-agent: ONLY the property text, a scratch worktree and the
list of mechanisms already used for that property (so that a new one is found). Nothing about the
verification machinery goes in.  usage: seed_prompt.py <prop> <worktree-suffix>  -> /tmp/agentprompts/<prop>.txt"""
import glob, json, os, sys
ROOT = os.path.dirname(os.path.dirname(os.path.abspath(__file__)))
pid, wt = sys.argv[1], sys.argv[2]
p = {json.loads(l)["id"]: json.loads(l) for l in open(os.path.join(ROOT, "properties.jsonl"))}[pid]
done = []
for f in sorted(glob.glob(os.path.join(ROOT, "seeded", "S-%s-*" % pid, "meta.json"))):
    m = json.load(open(f))
    done.append("- %s (%s)" % (m["needs"], m["site"]))
txt = f"""You are helping to evaluate a verification tool. You have your OWN scratch git worktree of the Rust workspace brave/sta-rs at /tmp/mut-{wt} (work ONLY inside that directory; never read or touch /repo or /verif; the machine is offline: always pass --offline to cargo and set CARGO_TARGET_DIR=/tmp/mut-{wt}/target).

Here is a semantic property that the code base is supposed to satisfy:

TITLE: {p['title']}
STATEMENT: {p['statement']}
QUANTIFIER: {p['quantifier']['text']}
CODE ANCHORS: {json.dumps(p['anchors'])}

YOUR TASK: make ONE realistic change to the source code in your worktree (the kind of change a real developer could make in a refactoring, optimisation, 'hardening' or feature commit - not sabotage that looks absurd) such that:
 1. the workspace still compiles and the ENTIRE existing test suite still passes: run `cargo test --workspace --no-fail-fast --offline` in your worktree and check that every 'test result' line says 0 failed (57 tests pass on the unmodified tree, doctests included);
 2. the property above is now violated on the changed code;
 3. the violation is SUBTLE: it needs something specific to manifest - a particular input shape, length, value, boundary, operation order, history of calls, feature flag, thread count or configuration - so that naive random testing over typical inputs would be unlikely to hit it. Changes that break the property for almost every input are of no use.
 4. it must use a DIFFERENT mechanism and a DIFFERENT trigger from these, which have been done already:
{chr(10).join(done) if done else '- (none yet)'}
Do not edit tests, Cargo manifests' dependency lists, or anything outside the crates' src directories (and star/test-utils/src for the aggregation server). Do not add new dependencies.

DELIVERABLES (all inside /tmp/mut-{wt}):
 - the source change left UNCOMMITTED in the worktree (so that `git diff` shows it);
 - a demonstration: a Rust integration test file in /tmp/mut-{wt}/demo/demo_{wt.lower()}.rs (create the demo directory) which, when copied into the appropriate crate's tests/ directory, FAILS on your changed code and PASSES on the unchanged code (check both. Do NOT use `git stash` - the stash is shared by all worktrees of the repository and other agents work in parallel; instead save your change with `git diff > /tmp/mut-{wt}/my.patch`, undo it with `git apply -R /tmp/mut-{wt}/my.patch`, run the demonstration, then restore it with `git apply /tmp/mut-{wt}/my.patch` and delete the patch file). It must only use public APIs of the crates (cargo features of the crate may be enabled; say which). Remove the copy from tests/ afterwards, so the worktree contains only your source change plus the demo directory.
 - finally reply with: (a) which file/function you changed and the idea, (b) exactly what is needed for the violation to manifest, (c) which crate's tests/ directory the demo belongs in and the cargo command (with features) to run it, (d) the confirmation outputs (suite passes with change; demo fails with change, passes without).
Delete /tmp/mut-{wt}/target when you are done to save disk space."""
os.makedirs("/tmp/agentprompts", exist_ok=True)
open("/tmp/agentprompts/%s.txt" % pid, "w").write(txt)
print("/tmp/agentprompts/%s.txt" % pid)
