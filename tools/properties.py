"""Per-property configuration: correspondence streams, clause kinds, notes for manifest/evidence."""

BASE = ["keccak", "strobe", "strobe_rng"]

STAR = BASE + ["fp", "sharks", "wire", "adss", "star"]
TB_STROBE = ["theorems hold for EVERY permutation F plugged into the STROBE duplex; the driver instantiates F with Keccak-f[1600] (keccak/strobe streams validate the duplex model against strobe-rs 0.10)"]

PROPS = {
    "C01": {
        "streams": STAR,
        "technique": "Lean 4 proof for every STROBE permutation F (recv_enc inverts send_enc, recv_mac accepts send_mac, Lagrange-at-zero over ZMod p, payload framing) + byte-exact correspondence of whole reports and recoveries",
        "level_text": "Unconditional Lean theorem C01_recover_and_decrypt: for every F, measurement, epoch, threshold t>=1, client randomness, per-client associated data and share points, from EVERY selection of reports (any order, repeats, surplus) holding t distinct share points share_recover returns (t, r0, r1) and EVERY report decrypts under derive_ske_key(r0, epoch) to a payload parsing to exactly (measurement, aux) with None / empty / longer data distinguished; C01_wire_roundtrip: every generated report survives to_bytes/from_bytes. The model is tied to the crates by the star stream: Message::generate output compared byte for byte (all ~240+ bytes) given the share point read off the implementation's output, plus recovery+decryption of wire-decoded reports.",
        "level_note": "Hypothesis 'generate returned a report' = rejection sampling of Fp::random terminated (unbounded loop in Rust, fuel in the model). Share points are universally quantified, so their OS-RNG origin is irrelevant to the theorem; that t reports actually carry t distinct points is an OS-RNG event (measured by the oracle, probability of collision ~ n^2/2^129).",
        "design_ref": "DESIGN.md section 6, C01",
        "clauses": {"recovery from any selection with t distinct shares": "U (for all F)", "every report decrypts to (measurement, aux)": "U (for all F)", "wire round trip": "U", "distinctness of OS-random share points": "E (measured)"},
        "nontrivial": "each case is one selection (subset/permutation/duplication with >= t distinct shares) recovered and all reports decrypted on the real crates",
        "assumptions": ["Fp::random terminates", "OS RNG yields distinct share points (measured)"],
        "trusted": TB_STROBE,
    },
    "C16": {
        "streams": BASE + ["fp", "sharks", "adss"],
        "technique": "Lean 4 proof for every STROBE permutation F (determinism of J, K, C, D and the polynomial; honest recovery; MAC-collision reduction for foreign transcripts) + byte-exact correspondence of adss::Commune::share / recover",
        "level_text": "Lean theorems for every F, threshold, message and coins of any length: C16_deterministic (everything in a share except the evaluation point is one dealing d determined by (T, t, M, R); share never errs or panics), C16_recover (any collection from independent share() calls with t>=1 distinct points recovers exactly (t, M, R)), C16_reshare, C16_threshold_zero, and the reduction C16_transcript_separation (acceptance of shares made under a custom transcript exhibits equal MACs of two different STROBE transcripts). Tied to the crate by the adss stream (share bytes given the observed share point; recovery outcomes on honest, forged and mixed collections, thresholds 0..128, lengths up to 100k in the thorough tier).",
        "level_note": "C16_transcript_separation is a reduction: rejection of foreign-transcript shares holds unless STROBE/Keccak produces a MAC collision between distinct transcripts (the residual cryptographic assumption); everything else is unconditional.",
        "design_ref": "DESIGN.md section 6, C16",
        "clauses": {"determinism": "U", "recovery": "U", "reshare": "U", "threshold 0": "U", "foreign transcript rejected": "R (MAC collision)"},
        "nontrivial": "each case shares one (t, M, R) several times and recovers / reshares / tries a custom transcript on the real crate",
        "assumptions": ["STROBE MAC collision resistance on distinct transcripts (only for the (R) clause)"],
        "trusted": TB_STROBE,
    },
    "C06": {
        "streams": ["fp", "sharks"],
        "technique": "Lean 4 proof (Horner = polynomial evaluation, Lagrange-at-zero via Mathlib over ZMod p, dealer/recover structure) + byte-exact model/implementation correspondence",
        "level_text": "Unconditional Lean theorems about the executable model of star-sharks (dealer structure, share = point on the dealt polynomials, x != 0, recovery from any collection with >= t distinct points, refusal otherwise), for all thresholds, secrets and RNG streams; the model is tied to the compiled crate by the fp and sharks correspondence streams (scripted RNG, every dealt share and every recovery compared byte for byte) and by an independent num-bigint oracle.",
        "level_note": "Trusted: Lean kernel + Mathlib, extractor, harness/driver; ff_derive limb arithmetic is validated differentially (fp stream), not modelled. Rejection sampling is modelled with fuel (512 attempts; exhaustion probability < 2^-512).",
        "design_ref": "DESIGN.md section 6, C06",
        "clauses": {"dealer structure / share is a point / x != 0 / recover": "U", "independent big-integer agreement": "U (Lean Nat model) + oracle (num-bigint)"},
        "nontrivial": "each case deals a secret and checks every share / recovery against num-bigint",
        "assumptions": ["Fp::random terminates (rejection sampling) — modelled with fuel"],
    },
    "C08": {
        "streams": ["fp", "wire"],
        "technique": "Lean 4 proof (decoder = declarative layout parser for all byte strings; round trip; canonical re-encoding) + byte-exact correspondence of decoders/encoders on prefixes, boundary length fields, faults, splices, random strings",
        "level_text": "Unconditional Lean theorems about the statement-by-statement models of star_sharks::Share::try_from / Vec<u8>::from, adss::Share::{from,to}_bytes, sta_rs::Message::{from,to}_bytes and load_bytes/store_bytes: for ALL byte strings a decoder accepts iff the string has the documented layout (accept-iff theorems), decode(encode v) = v for every representable value, and the re-encoding of any accepted string is its canonical form (partial trailing element in S dropped and S's prefix adjusted, bytes after the tag chunk dropped, nothing else changed). Tied to the code by the wire stream (model and implementation agree on accept/reject and on the re-encoding of every accepted string) and an independent Rust layout parser as oracle.",
        "level_note": "Trusted: Lean kernel, extractor (element length, MAC length, access-structure length come from the source), harness/driver. Sizes are unbounded Nat in the model with explicit < 2^32 guards where Rust narrows with `as u32`; strings >= 4 GiB are not exercised by the correspondence.",
        "design_ref": "DESIGN.md section 6, C08",
        "clauses": {"round trip": "U", "layout": "U", "accept iff well-formed (all byte strings)": "U", "canonical re-encoding": "U"},
        "nontrivial": "each case is one byte string decided by an independent layout parser and by the decoder",
        "assumptions": [],
    },
    "C07": {
        "streams": ["fp"],
        "technique": "Lean 4 proof (Pratt certificate with kernel-evaluated modular powers, ZMod p correspondence, canonical-encoding lemmas) + correspondence of the compiled ff_derive field against the model",
        "level_text": "Unconditional Lean theorems: the modulus read from the source is the prime 2^128+12451; all field operations of the model equal arithmetic in ZMod p for all operands; inversion/sqrt characterised; exactly one 24-byte LE encoding per element; every published constant has its ff::PrimeField meaning (generator of order p-1 and non-residue, primitive 2^S-th root of unity, ...); sqrt_ratio never panics. The theorems are re-checked against the attributes extracted from share_ff.rs on every run, and the fp stream (boundary lattice x itself, uniform operands, all decode classes, constants, Fp::random from scripted limbs) ties the model to the compiled derive output.",
        "level_note": "Trusted: Lean kernel + Mathlib, extractor, harness/driver. The ff_derive-generated Montgomery limb code is not modelled; its agreement with the specification the theorems are about is validated differentially by the fp stream and the num-bigint oracle.",
        "design_ref": "DESIGN.md section 6, C07",
        "clauses": {"arithmetic = ZMod p": "U", "canonical encoding": "U", "constants": "U", "agreement of compiled limb code with the model": "validated differentially"},
        "nontrivial": "each case compares one operand pair / byte string / constant against num-bigint",
        "assumptions": [],
    },
}
