#!/usr/bin/env python3
"""Regenerate lean/StarModel/Params.lean from the Rust sources under /repo.

A tolerant extractor keyed by the names of the enclosing items. If an item cannot be located the
committed default is kept and the miss is reported (the correspondence check then decides).
The file is rewritten only when its content changes, so an unchanged tree costs no Lean rebuild.
"""
import json, os, re, sys

REPO = os.environ.get("VERIF_REPO", "/repo")
OUT = os.path.join(os.path.dirname(os.path.abspath(__file__)), "..", "lean", "StarModel", "Params.lean")

def read(p):
    try:
        return open(os.path.join(REPO, p), encoding="utf-8").read()
    except OSError:
        return ""

def strip_comments(s):
    s = re.sub(r"//[^\n]*", "", s)
    return re.sub(r"/\*.*?\*/", "", s, flags=re.S)

def fn_body(src, name):
    """text of `fn name ... { ... }` (brace matched)"""
    m = re.search(r"\bfn\s+%s\b" % re.escape(name), src)
    if not m:
        return None
    i = src.find("{", m.end())
    if i < 0:
        return None
    depth, j = 0, i
    while j < len(src):
        if src[j] == "{":
            depth += 1
        elif src[j] == "}":
            depth -= 1
            if depth == 0:
                return src[i : j + 1]
        j += 1
    return None

misses = []
vals = {}

def put(key, kind, value, default):
    if value is None:
        misses.append(key)
        value = default
    vals[key] = (kind, value)

def rx(src, pattern, conv=lambda x: x, flags=re.S):
    if src is None:
        return None
    m = re.search(pattern, src, flags)
    return conv(m.group(1)) if m else None

def const_expr(src, name):
    """value of `const NAME: usize = <expr>;` where <expr> is built from integer literals, other
    usize constants of the same file, size_of::<uN>(), uN::MAX and + - * / ( ) — else None"""
    m = re.search(r"const\s+%s\s*:\s*usize\s*=\s*([^;]+);" % re.escape(name), src or "")
    if not m:
        return None
    e = m.group(1)
    e = re.sub(r"(?:std|core)::mem::size_of::<\s*[ui](\d+)\s*>\(\)", lambda k: str(int(k.group(1)) // 8), e)
    e = re.sub(r"\bu(\d+)::MAX\b", lambda k: str(2 ** int(k.group(1)) - 1), e)
    e = re.sub(r"\bas\s+(?:usize|u\d+)\b", "", e)
    e = re.sub(r"(\d)_(?=\d)", r"\1", e)
    for _ in range(8):
        ids = set(re.findall(r"\b[A-Z][A-Z0-9_]*\b", e))
        if not ids:
            break
        for i in ids:
            if i == name:
                return None
            v = const_expr(src, i)
            if v is None:
                return None
            e = re.sub(r"\b%s\b" % i, "(%d)" % v, e)
    if not re.fullmatch(r"[0-9+\-*/() \t\n]+", e):
        return None
    try:
        return int(eval(" ".join(e.split()).replace("/", "//"), {"__builtins__": {}}))
    except Exception:
        return None

def unescape(s):
    return s  # labels are plain ASCII literals in this code base

share_ff = strip_comments(read("sharks/src/share_ff.rs"))
adss = strip_comments(read("adss/src/lib.rs"))
star = strip_comments(read("star/src/lib.rs"))
ggm = strip_comments(read("ppoprf/src/ggm.rs"))
ppoprf = strip_comments(read("ppoprf/src/ppoprf.rs"))

# sharks
put("modulus", "nat", rx(share_ff, r'PrimeFieldModulus\s*=\s*"(\d+)"', int), 340282366920938463463374607431768223907)
put("generator", "nat", rx(share_ff, r'PrimeFieldGenerator\s*=\s*"(\d+)"', int), 2)
put("reprLittleEndian", "bool", rx(share_ff, r'PrimeFieldReprEndianness\s*=\s*"(\w+)"', lambda s: s == "little"), True)
put("fieldElementLen", "nat", const_expr(share_ff, "FIELD_ELEMENT_LEN"), 24)

# adss
put("accessStructureLength", "nat", const_expr(adss, "ACCESS_STRUCTURE_LENGTH"), 4)
put("macLength", "nat", const_expr(adss, "MAC_LENGTH"), 64)
share_fn = fn_body(adss, "share")
put("adssKeyLen", "nat", rx(share_fn, r"let\s+mut\s+K\s*=\s*\[0u8;\s*(\d+)\]", int), 16)
put("adssKeyPadLen", "nat", rx(share_fn, r"K_vec\.extend\(vec!\[0u8;\s*(\d+)\]\)", int), 16)
put("adssProto", "str", rx(share_fn, r'Strobe::new\(b"([^"]*)",\s*SecParam::B128\)\)', unescape), "adss")
put("adssEncryptProto", "str", rx(share_fn, r'let\s+mut\s+key\s*=\s*Strobe::new\(b"([^"]*)"', unescape), "adss encrypt")
# the verifying side must use the same protocol strings: extracted separately and compared in Lean
ver_fn = fn_body(adss, "verify")
put("adssVerifyProto", "str", rx(ver_fn, r'Strobe::new\(b"([^"]*)"', unescape), "adss")
rec_fn = fn_body(adss, "recover")
put("adssRecoverEncryptProto", "str", rx(rec_fn, r'Strobe::new\(b"([^"]*)"', unescape), "adss encrypt")
put("adssRecoverKeyLen", "nat", rx(rec_fn, r"key\[\.\.(\d+)\]", int), 16)

# star
put("starDigestLen", "nat", const_expr(star, "DIGEST_LEN"), 32)
ske = fn_body(star, "derive_ske_key")
put("starSkeKeyLen", "nat", rx(ske, r"to_fill\[\.\.(\d+)\]", int), 16)
put("starDeriveSkeKeyLabel", "str", rx(ske, r'"([^"]*)"'), "star_derive_ske_key")
gen = fn_body(star, "generate")
put("starEncryptLabel", "str", rx(gen, r'Ciphertext::new\([^;]*?"([^"]*)"\)'), "star_encrypt")
drv = fn_body(star, "derive_random_values")
put("starDeriveRandomsLabel", "str", rx(drv, r'"([^"]*)"'), "star_derive_randoms")
put("starDeriveCount", "nat", rx(drv, r"for\s+i\s+in\s+0\.\.(\d+)", int), 3)
loc = fn_body(star, "sample_local_randomness")
put("starSampleLocalLabel", "str", rx(loc, r'strobe_digest\([^;]*?"([^"]*)"', ), "star_sample_local")

# ggm
setup = fn_body(ggm, "setup")
put("ggmKeyGenLabel", "str", rx(setup, r'Strobe::new\(b"([^"]*)"'), "ggm key gen (ppoprf)")
m = re.search(r"impl\s+GGMPseudorandomGenerator\s*\{", ggm)
prg_eval = fn_body(ggm[m.end():], "eval") if m else None
put("ggmEvalLabel", "str", rx(prg_eval, r'Strobe::new\(b"([^"]*)"'), "ggm eval (ppoprf)")
put("ggmInpLen", "nat", rx(ggm, r"GGM\s*\{\s*inp_len:\s*(\d+)", int), 1)
put("ggmSeedLen", "nat", rx(fn_body(ggm, "sample_secret"), r"vec!\[0u8;\s*(\d+)\]", int), 32)

# ppoprf
put("compressedPointLen", "nat", const_expr(ppoprf, "COMPRESSED_POINT_LEN"), 32)
put("ppoprfDigestLen", "nat", const_expr(ppoprf, "DIGEST_LEN"), 64)
put("maxSerializedPkSize", "nat", const_expr(ppoprf, "MAX_SERIALIZED_PK_SIZE"), 16384)
put("maxSerializedProofSize", "nat", const_expr(ppoprf, "MAX_SERIALIZED_PROOF_SIZE"), 64)
put("clientInputLabel", "str", rx(fn_body(ppoprf, "blind"), r'strobe_hash\([^;]*?"([^"]*)"'), "ppoprf_derive_client_input")
fin = fn_body(ppoprf, "finalize")
put("finalizeLabel", "str", rx(fin, r'strobe_hash\([^;]*?"([^"]*)"'), "ppoprf_finalize")
put("finalizeOutLen", "nat", rx(fin, r"untruncated\[\.\.(\d+)\]", int), 32)
comp = fn_body(ppoprf, "compute_composites")
put("dleqSeedLabel", "str", rx(comp, r'strobe_hash\(&seed_transcript,\s*"([^"]*)"'), "Seed")
put("dleqCompositeLabel", "str", rx(comp, r'hash_to_scalar\(&composite_transcript,\s*"([^"]*)"'), "Composite")
put("dleqChallengeLabel", "str", rx(fn_body(ppoprf, "new_batch"), r'hash_to_scalar\(&challenge_transcript,\s*"([^"]*)"'), "Challenge")
put("dleqVerifyChallengeLabel", "str", rx(fn_body(ppoprf, "verify_batch"), r'hash_to_scalar\(&challenge_transcript,\s*"([^"]*)"'), "Challenge")
def ctx(s):
    m = re.search(r'format!\(\s*"\{\}-\{\}-\{\}"\s*,\s*"([^"]*)"\s*,\s*(0x[0-9a-fA-F]+|\d+)\s*,\s*"([^"]*)"\s*\)', s or "")
    return "%s-%d-%s" % (m.group(1), int(m.group(2), 0), m.group(3)) if m else None
put("dleqContextString", "str", ctx(comp), "PPOPRFv1-3-ristretto255-strobe")

# --- STROBE call skeletons: the ordered list of Strobe constructor / method calls in each function
# that builds a transcript. The Lean side (Lemmas/Skeleton.lean) proves that these are the
# operation sequences the hand-written model implements, so a reordered, dropped, merged or
# streamed (`more = true`) operation breaks a proof obligation, not only the correspondence.
def skeleton(body):
    if body is None:
        return None
    toks = []
    for m in re.finditer(r'Strobe::new\(\s*(?:b"([^"]*)"|([A-Za-z_][A-Za-z0-9_.]*(?:\(\))?))|\.(ad|meta_ad|key|prf|send_enc|recv_enc|send_mac|recv_mac|send_clr|recv_clr|ratchet|meta_key|meta_prf|meta_send_enc|meta_recv_enc|meta_send_mac|meta_recv_mac)\(([^;]*?)\)\s*[;.?)]', body, re.S):
        if m.group(3) is None:
            toks.append("new(%s)" % (m.group(1) if m.group(1) is not None else "<" + m.group(2).split(".")[0] + ">"))
        else:
            args = m.group(4)
            more = ":more" if re.search(r",\s*true\s*$", args.strip()) else ""
            first = re.sub(r",\s*(?:true|false)\s*$", "", args.strip())
            first = re.sub(r"&\s*mut\s+|&|\s+", "", first)
            # names of local buffers carry no meaning (renaming them is harmless): keep the argument
            # only when it says WHAT is absorbed (a field / method of self, a call)
            if not ("self." in first or "(" in first):
                first = "_"
            toks.append("%s(%s)%s" % (m.group(3), first, more))
    return toks

def digest_call(body):
    """normalised arguments of the `strobe_digest(key, &[ads…], label, out)` call inside a function"""
    if body is None:
        return None
    m = re.search(r"strobe_digest\(\s*(.*?)\s*,\s*&\[(.*?)\]\s*,\s*\"([^\"]*)\"\s*,", body, re.S)
    if not m:
        return None
    norm = lambda t: re.sub(r"&\s*mut\s+|&|\s+", "", t)
    return [norm(m.group(1))] + [norm(a) for a in m.group(2).split(",") if a.strip()] + ["label:" + m.group(3)]

def impl_fn_body(src, impl_pat, fn):
    m = re.search(impl_pat, src)
    return fn_body(src[m.end():], fn) if m else None

strobe_rng = strip_comments(read("star/src/strobe_rng.rs"))
skels = {
    "skelAdssShare": skeleton(share_fn),
    "skelAdssVerify": skeleton(ver_fn),
    "skelAdssRecover": skeleton(rec_fn),
    "skelStarDigest": skeleton(fn_body(star, "strobe_digest")),
    "skelStarEncrypt": skeleton(impl_fn_body(star, r"impl\s+Ciphertext\s*\{", "new")),
    "skelStarDecrypt": skeleton(fn_body(star, "decrypt")),
    "skelRngFill": skeleton(fn_body(strobe_rng, "fill_bytes")),
    "skelRngFillAdss": skeleton(fn_body(strip_comments(read("adss/src/strobe_rng.rs")), "fill_bytes")),
    "skelRngFillPpoprf": skeleton(fn_body(strip_comments(read("ppoprf/src/strobe_rng.rs")), "fill_bytes")),
    "skelGgmPrgSetup": skeleton(setup),
    "skelGgmPrgEval": skeleton(prg_eval),
    "skelPpoprfHash": skeleton(fn_body(ppoprf, "strobe_hash")),
    "callSampleLocal": digest_call(loc),
    "callDeriveRandoms": digest_call(drv),
    "callDeriveSkeKey": digest_call(ske),
}
for k, v in skels.items():
    if v is None:
        misses.append(k)
        v = ["<not found>"]
    vals[k] = ("strlist", v)

def lean_val(kind, v):
    if kind == "strlist":
        return "List String", "[" + ", ".join('"%s"' % x.replace("\\", "\\\\").replace('"', '\\"') for x in v) + "]"
    if kind == "nat":
        return "Nat", str(v)
    if kind == "bool":
        return "Bool", "true" if v else "false"
    esc = v.replace("\\", "\\\\").replace('"', '\\"')
    return "String", '"%s"' % esc

lines = [
    "/-",
    "GENERATED by tools/extract_params.py from the Rust sources under /repo -- do not edit.",
    "Constants, attributes and STROBE labels as the code states them now; every theorem that",
    "depends on one of these values is re-checked against what the code says.",
    "-/",
    "namespace StarModel.Params",
    "",
]
for k, (kind, v) in vals.items():
    ty, lv = lean_val(kind, v)
    lines.append("def %s : %s := %s" % (k, ty, lv))
lines += ["", "end StarModel.Params", ""]
text = "\n".join(lines)
changed = True
try:
    changed = open(OUT).read() != text
except OSError:
    pass
if changed and "--dry" not in sys.argv:
    open(OUT, "w").write(text)
print(json.dumps({"changed": changed, "misses": misses, "values": {k: v for k, (_, v) in vals.items()}}))
