#!/bin/sh
# tools/sweep.sh [tier] [ids...] : run checks one after the other on /repo's working tree, each under
# the repo lock (so that tools/try_seeded.sh can interleave at check granularity); verdict lines go
# to stdout, full output to /verif/replays/sweep-<id>-<tier>.log
cd "$(dirname "$0")/.."
tier="${1:-thorough}"; [ $# -gt 0 ] && shift
ids="$*"; [ -n "$ids" ] || ids="C01 C02 C03 C04 C05 C06 C07 C08 C09 C10 C11 C12 C13 C14 C15 C16 C17 C18"
mkdir -p replays
for c in $ids; do
  t0=$(date +%s)
  flock "$PWD/.repo.lock" sh -c "git -C /repo status --porcelain | grep -q . && echo 'DIRTY /repo' ; ./check $c --tier $tier" > replays/sweep-$c-$tier.log 2>&1
  rc=$?
  echo "$c $tier exit=$rc $(( $(date +%s) - t0 ))s :: $(grep -E '^(OK|VIOLATION|BROKEN|DIRTY)' replays/sweep-$c-$tier.log | head -3 | cut -c1-200 | tr '\n' '|')"
done
