#!/usr/bin/env python3
"""Write MANIFEST.json from tools/properties.py: a property is claimed iff its theorem module exists."""
import json, os, subprocess, sys
ROOT = os.path.dirname(os.path.dirname(os.path.abspath(__file__)))
sys.path.insert(0, os.path.join(ROOT, "tools"))
from properties import PROPS
ids = [json.loads(l)["id"] for l in open(os.path.join(ROOT, "properties.jsonl"))]
NA = json.load(open(os.path.join(ROOT, "tools", "not_applicable.json")))
commits = subprocess.run(["git", "-C", "/repo", "log", "--format=%H %s"], capture_output=True, text=True).stdout.splitlines()
hook_commits = [c.split()[0] for c in commits if "verif hooks" in c]
checks, na = [], []
for i in ids:
    have = i in PROPS and os.path.exists(os.path.join(ROOT, "lean", "StarModel", "Props", i + ".lean"))
    if not have:
        na.append({"property_id": i, "reason": NA.get(i, "check not built yet (work in progress; plan in DESIGN.md section 6)")})
        continue
    p = PROPS[i]
    checks.append({
        "property_id": i,
        "quick_cmd": "./check %s --tier quick" % i,
        "thorough_cmd": "./check %s --tier thorough" % i,
        "evidence_file": "evidence/%s.json" % i,
        "replay_cmd_template": "./check %s --replay {path}" % i,
        "engine": "lean4-model+correspondence",
        "level_claimed": {"category": "proof", "text": p["level_text"], "design_ref": p["design_ref"]},
        "level_note": p["level_note"],
        "technique": p["technique"],
    })
m = {
    "version": 1,
    "setup_cmd": "./setup.sh",
    "hooks": {
        "guard": "cargo feature `verif-hooks` of crate ppoprf (off by default)",
        "enable": "the harness (harness/Cargo.toml) depends on /repo/ppoprf with features key-sync,verif-hooks; all other crates are used unmodified",
        "baseline_off_cmd": "cd /repo && cargo test --workspace --no-fail-fast --offline",
        "source_commits": hook_commits,
        "add_only": True,
    },
    "engines": [{
        "name": "lean4-model+correspondence",
        "path": "lean/ (model, lemmas, Props/Cxx.lean theorems, Driver.lean), harness/ (Rust correspondence harness + oracles), tools/run_check.py",
        "serves_properties": [c["property_id"] for c in checks],
        "kind_free_text": "hand-written executable Lean 4 model of the workspace; property theorems proved in Lean (kernel-checked, axioms audited); model tied to /repo by parameter regeneration + byte-exact differential correspondence; implementation-level oracles search for concrete failing inputs",
    }],
    "checks": checks,
    "notes": "Every check regenerates Params.lean from /repo, rebuilds the theorem module and the driver, audits axioms, rebuilds the harness against /repo's working tree and runs the property's correspondence streams and oracle. See DESIGN.md.",
    "not_applicable": na,
}
json.dump(m, open(os.path.join(ROOT, "MANIFEST.json"), "w"), indent=1)
print("claimed:", [c["property_id"] for c in checks])
