#!/bin/sh
# Build the Lean model + proofs + driver and the Rust correspondence harness, offline.
set -e
cd "$(dirname "$0")"
exec python3 tools/run_check.py --setup
