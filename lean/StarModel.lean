-- This module serves as the root of the `StarModel` library.
-- Import modules here that should be built as part of the library.
import StarModel.Basic
