import StarModel.Bytes
import StarModel.Params
import StarModel.Keccak
import StarModel.Strobe
import StarModel.Fp
import StarModel.Sharks
import StarModel.Adss
import StarModel.Star
