/-
`star-wasm` (star-wasm/src/lib.rs): the string API `create_share` / `group_shares`, statement by
statement; parametric in the STROBE permutation `F`. Epochs are `&str`, used as their UTF-8 bytes.
-/
import StarModel.Star
import StarModel.Base64
namespace StarModel.Wasm
open StarModel

/-- `epoch.as_bytes()` -/
def epochBytes (epoch : String) : Bytes := Bytes.ofString epoch

/-- `format!(r#"{{"key": "{key_b64}", "share": "{share_b64}", "tag": "{tag_b64}"}}"#)` -/
def formatJson (keyB64 shareB64 tagB64 : String) : String :=
  "{\"key\": \"" ++ keyB64 ++ "\", \"share\": \"" ++ shareB64 ++ "\", \"tag\": \"" ++ tagB64 ++ "\"}"

/-- `create_share` with the OS-random share point `x` explicit. `share_with_local_randomness`
returning `Err` makes the Rust code return `""`; a panic below stays a panic; the outer `none` is
exhaustion of the sampling fuel of the model (no counterpart in the code). -/
def createShareOutcome (F : Perm) (fuel : Nat) (measurement : Bytes) (threshold : Nat) (epoch : String)
    (x : Nat) : Option (Outcome String) :=
  match Star.shareWithLocalRandomness F fuel measurement (epochBytes epoch) threshold x with
  | none => none
  | some (.err _) => some (.ok "")
  | some (.panic w) => some (.panic w)
  | some (.ok (key, share, tag)) =>
    some (.ok (formatJson (Base64.encode key) (Base64.encode share.toBytes) (Base64.encode tag)))

/-- `create_share` as a function to `Option String`: `none` = fuel exhausted (a panic is
impossible, see `C17_create_share_total`) -/
def createShare (F : Perm) (fuel : Nat) (measurement : Bytes) (threshold : Nat) (epoch : String)
    (x : Nat) : Option String :=
  match createShareOutcome F fuel measurement threshold epoch x with
  | some (.ok s) => some s
  | _ => none

/-- `str::split('\n')` on the characters of the string: the empty input yields ONE empty chunk, a
trailing newline yields a trailing empty chunk -/
def splitNL : List Char → List (List Char)
  | [] => [[]]
  | c :: cs =>
    if c = '\n' then [] :: splitNL cs
    else
      match splitNL cs with
      | h :: t => (c :: h) :: t
      | [] => [[c]]

/-- the closure of step 1: `Share::from_bytes(&BASE64_STANDARD.decode(chunk).ok()?)` -/
def decodeChunk (chunk : List Char) : Outcome (Option Adss.Share) :=
  match Base64.decodeChars chunk with
  | none => .ok none
  | some bs =>
    match Adss.Share.fromBytes bs with
    | .ok sh => .ok (some sh)
    | .err _ => .ok none
    | .panic w => .panic w

/-- `.map(..).collect::<Option<Vec<Share>>>()`: stops at the first `None` -/
def decodeChunks : List (List Char) → Outcome (Option (List Adss.Share))
  | [] => .ok (some [])
  | c :: cs =>
    match decodeChunk c with
    | .panic w => .panic w
    | .err k => .err k
    | .ok none => .ok none
    | .ok (some sh) =>
      match decodeChunks cs with
      | .ok (some l) => .ok (some (sh :: l))
      | o => o

/-- `group_shares` -/
def groupShares (F : Perm) (serializedShares epoch : String) : Outcome (Option String) :=
  match decodeChunks (splitNL serializedShares.toList) with
  | .panic w => .panic w
  | .err k => .err k
  | .ok none => .ok none
  | .ok (some shares) =>
    match Star.shareRecover F shares with
    | .err _ => .ok none
    | .panic w => .panic w
    | .ok c => .ok (some (Base64.encode (Star.deriveSkeKey F c.M (epochBytes epoch))))

end StarModel.Wasm
