/-
The share field of `star-sharks`: `#[derive(PrimeField)] struct Fp([u64; 3])` with the modulus,
generator and endianness of `StarModel.Params`. Elements are modelled by their canonical value
`< p` (the `ff_derive` limb/Montgomery code is validated differentially, not modelled).
-/
import StarModel.Bytes
import StarModel.Params
namespace StarModel.Fp

def p : Nat := Params.modulus

/-- square-and-multiply, structurally recursive on the fuel so the kernel can evaluate it -/
def powModFuel : Nat → Nat → Nat → Nat → Nat
  | 0, _, _, m => 1 % m
  | f + 1, b, e, m =>
    if e = 0 then 1 % m
    else
      let h := powModFuel f (b * b % m) (e / 2) m
      if e % 2 = 1 then b * h % m else h

def powMod (b e m : Nat) : Nat := powModFuel (e.log2 + 1) b e m

def add (a b : Nat) : Nat := (a + b) % p
def sub (a b : Nat) : Nat := (a + (p - b % p)) % p
def neg (a : Nat) : Nat := (p - a % p) % p
def double (a : Nat) : Nat := (a + a) % p
def mul (a b : Nat) : Nat := (a * b) % p
def square (a : Nat) : Nat := (a * a) % p
def pow (a e : Nat) : Nat := powMod a e p

/-- `Field::invert`: `None` on zero, else `a^(p-2)` -/
def invert (a : Nat) : Option Nat := if a % p = 0 then none else some (pow a (p - 2))

/-- derived `sqrt` for `p ≡ 3 (mod 4)`: candidate `a^((p+1)/4)`, returned only if it squares to `a` -/
def sqrt (a : Nat) : Option Nat :=
  let r := pow a ((p + 1) / 4)
  if square r = a % p then some r else none

-- published constants (`PrimeField` associated constants), by their defining formulas in ff_derive
def numBits : Nat := p.log2 + 1
def capacity : Nat := numBits - 1
/-- number of 64-bit limbs: smallest count that leaves one spare bit -/
def limbs : Nat := (numBits + 1 + 63) / 64
def reprShaveBits : Nat := 64 * limbs - numBits
/-- `S`: `p - 1 = 2^S * T`, `T` odd -/
def twoAdicity : Nat := Id.run do
  let mut s := 0
  let mut t := p - 1
  for _ in [0:numBits] do
    if t % 2 = 0 ∧ t ≠ 0 then
      t := t / 2
      s := s + 1
  return s
def tOdd : Nat := (p - 1) / 2 ^ twoAdicity
def twoInv : Nat := pow 2 (p - 2)
def multiplicativeGenerator : Nat := Params.generator % p
def rootOfUnity : Nat := pow Params.generator tOdd
def rootOfUnityInv : Nat := pow rootOfUnity (p - 2)
def delta : Nat := pow Params.generator (2 ^ twoAdicity)

/-- `ff::helpers::sqrt_ratio_generic`; `none` models its `assert!` failing (a panic) -/
def sqrtRatio (num div : Nat) : Option (Bool × Nat) :=
  let a := mul ((invert div).getD 0) num
  let b := mul a rootOfUnity
  let sa := sqrt a
  let sb := sqrt b
  let numZ := num % p = 0
  let divZ := div % p = 0
  if numZ ∨ divZ ∨ (sa.isSome != sb.isSome) then
    match (if sa.isSome then sa else sb) with
    | some r => some (sa.isSome && (decide numZ || !decide divZ), r)
    | none => none
  else none

def reprLen : Nat := 8 * limbs

/-- `to_repr` (little-endian per `PrimeFieldReprEndianness`) -/
def toRepr (a : Nat) : Bytes :=
  if Params.reprLittleEndian then Bytes.ofNatLE reprLen a else (Bytes.ofNatLE reprLen a).reverse

/-- `from_repr`: exactly `reprLen` bytes whose integer value is below the modulus -/
def fromRepr (bs : Bytes) : Option Nat :=
  if bs.length ≠ reprLen then none
  else
    let v := Bytes.toNatLE (if Params.reprLittleEndian then bs else bs.reverse)
    if v < p then some v else none

/-- `R⁻¹` for `R = 2^(64·limbs)`: `Fp::random` stores the sampled limbs as the *Montgomery* form. -/
def montRInv : Nat := pow (2 ^ (64 * limbs)) (p - 2)

def limbsValue : List Nat → Nat
  | [] => 0
  | l :: ls => l % 2 ^ 64 + 2 ^ 64 * limbsValue ls

/-- one attempt of `Fp::random`: read `limbs` words, mask the top one, accept if below `p` -/
def randomAttempt (ws : List Nat) : Option Nat :=
  let raw := limbsValue ws % 2 ^ (64 * limbs - reprShaveBits)
  if raw < p then some (mul raw montRInv) else none

/-- draw `n` words from a generic RNG -/
def drawWords {σ : Type} (next : σ → σ × Nat) : Nat → σ → σ × List Nat
  | 0, s => (s, [])
  | n + 1, s =>
    let r := next s
    let r2 := drawWords next n r.1
    (r2.1, r.2 :: r2.2)

/-- `Fp::random`: rejection sampling; the loop is unbounded in Rust, here it takes fuel and
returns `none` on exhaustion (probability `< 2^-fuel`). -/
def random {σ : Type} (next : σ → σ × Nat) : Nat → σ → Option (σ × Nat)
  | 0, _ => none
  | fuel + 1, s =>
    let r := drawWords next limbs s
    match randomAttempt r.2 with
    | some v => some (r.1, v)
    | none => random next fuel r.1

end StarModel.Fp
