/-
Keccak-f[1600] (FIPS 202), used only to *instantiate* the permutation parameter `F` of the
STROBE model in the driver. No theorem depends on it.
-/
import StarModel.Bytes
namespace StarModel.Keccak

def rc : Array UInt64 := #[
  0x0000000000000001, 0x0000000000008082, 0x800000000000808a, 0x8000000080008000,
  0x000000000000808b, 0x0000000080000001, 0x8000000080008081, 0x8000000000008009,
  0x000000000000008a, 0x0000000000000088, 0x0000000080008009, 0x000000008000000a,
  0x000000008000808b, 0x800000000000008b, 0x8000000000008089, 0x8000000000008003,
  0x8000000000008002, 0x8000000000000080, 0x000000000000800a, 0x800000008000000a,
  0x8000000080008081, 0x8000000000008080, 0x0000000080000001, 0x8000000080008008]

def rotc : Array UInt64 := #[1,3,6,10,15,21,28,36,45,55,2,14,27,41,56,8,25,43,62,18,39,61,20,44]
def piln : Array Nat := #[10,7,11,17,18,3,5,16,8,21,24,4,15,23,19,13,12,2,20,14,22,9,6,1]

@[inline] def rotl (x : UInt64) (n : UInt64) : UInt64 := (x <<< n) ||| (x >>> (64 - n))

def round (a : Array UInt64) (r : Nat) : Array UInt64 := Id.run do
  let mut a := a
  -- theta
  let mut bc : Array UInt64 := Array.replicate 5 0
  for i in [0:5] do
    bc := bc.set! i (a[i]! ^^^ a[i+5]! ^^^ a[i+10]! ^^^ a[i+15]! ^^^ a[i+20]!)
  for i in [0:5] do
    let t := bc[(i + 4) % 5]! ^^^ rotl bc[(i + 1) % 5]! 1
    for j in [0:5] do
      a := a.set! (5*j + i) (a[5*j + i]! ^^^ t)
  -- rho, pi
  let mut t := a[1]!
  for i in [0:24] do
    let j := piln[i]!
    let b := a[j]!
    a := a.set! j (rotl t rotc[i]!)
    t := b
  -- chi
  for j in [0:5] do
    let b0 := a[5*j]!; let b1 := a[5*j+1]!; let b2 := a[5*j+2]!; let b3 := a[5*j+3]!; let b4 := a[5*j+4]!
    a := a.set! (5*j)   (b0 ^^^ ((~~~ b1) &&& b2))
    a := a.set! (5*j+1) (b1 ^^^ ((~~~ b2) &&& b3))
    a := a.set! (5*j+2) (b2 ^^^ ((~~~ b3) &&& b4))
    a := a.set! (5*j+3) (b3 ^^^ ((~~~ b4) &&& b0))
    a := a.set! (5*j+4) (b4 ^^^ ((~~~ b0) &&& b1))
  -- iota
  a := a.set! 0 (a[0]! ^^^ rc[r]!)
  return a

def f1600 (a : Array UInt64) : Array UInt64 := Id.run do
  let mut a := a
  for r in [0:24] do
    a := round a r
  return a

def lanesOfBytes (bs : Bytes) : Array UInt64 := Id.run do
  let arr := bs.toArray
  let mut out : Array UInt64 := Array.replicate 25 0
  for i in [0:25] do
    let mut w : UInt64 := 0
    for k in [0:8] do
      w := w ||| ((arr.getD (8*i + k) 0).toUInt64 <<< (8 * k).toUInt64)
    out := out.set! i w
  return out

def bytesOfLanes (a : Array UInt64) : Bytes := Id.run do
  let mut out : Array UInt8 := Array.emptyWithCapacity 200
  for i in [0:25] do
    let w := a[i]!
    for k in [0:8] do
      out := out.push (w >>> (8 * k).toUInt64).toUInt8
  return out.toList

/-- Keccak-f[1600] on a 200-byte state (little-endian lanes), as `strobe_rs::keccak::keccakf_u8`. -/
def keccakF (st : Bytes) : Bytes := bytesOfLanes (f1600 (lanesOfBytes st))

end StarModel.Keccak
