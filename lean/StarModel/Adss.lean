/-
`adss`: length-prefixed chunks, share codec, `Commune::share`, `recover`, MAC verification
(adss/src/lib.rs), statement by statement; parametric in the STROBE permutation `F`.
-/
import StarModel.Strobe
import StarModel.Sharks
namespace StarModel.Adss
open StarModel

/-- `store_bytes`: the length is narrowed with `as u32` -/
def storeBytes (s : Bytes) : Bytes := Bytes.le32 (s.length % 2 ^ 32) ++ s

/-- `load_u32` -/
def loadU32 (bs : Bytes) : Option Nat := if bs.length ≠ 4 then none else some (Bytes.toNatLE bs)

/-- `load_bytes` -/
def loadBytes (bs : Bytes) : Outcome Bytes :=
  if bs.length < 4 then .err "none"
  else
    let len := Bytes.toNatLE (bs.take 4)
    if bs.length < 4 + len then .err "none"
    else .ok ((bs.drop 4).take len)

structure Share where
  thr : Nat
  S : Sharks.Share
  C : Bytes
  D : Bytes
  J : Bytes
  deriving DecidableEq, Repr

def Share.toBytes (s : Share) : Bytes :=
  Bytes.le32 s.thr ++ storeBytes (Sharks.shareToBytes s.S) ++ storeBytes s.C ++ storeBytes s.D ++ s.J

/-- `Share::from_bytes` -/
def Share.fromBytes (bs : Bytes) : Outcome Share :=
  if bs.length < Params.accessStructureLength then .err "none"
  else
    let thr := Bytes.toNatLE (bs.take Params.accessStructureLength)
    let sl := bs.drop Params.accessStructureLength
    match loadBytes sl with
    | .err k => .err k
    | .panic w => .panic w
    | .ok sb =>
      let sl := sl.drop (4 + sb.length)
      match loadBytes sl with
      | .err k => .err k
      | .panic w => .panic w
      | .ok c =>
        let sl := sl.drop (4 + c.length)
        match loadBytes sl with
        | .err k => .err k
        | .panic w => .panic w
        | .ok d =>
          let sl := sl.drop (4 + d.length)
          if sl.length ≠ Params.macLength then .err "none"
          else
            match Sharks.shareFromBytes sb with
            | none => .err "none"
            | some s => .ok ⟨thr, s, c, d, sl⟩

/-- the transcript `H(A, M, R, T)` after absorbing `A`, `M`, `R` -/
def macTranscript (F : Perm) (T : Option Strobe) (thr : Nat) (M R : Bytes) : Strobe :=
  let t0 := T.getD (Strobe.new F (Bytes.ofString Params.adssProto))
  Strobe.key F (Strobe.ad F (Strobe.ad F t0 (Bytes.le32 thr)) M) R

def encKey (F : Perm) (K : Bytes) : Strobe :=
  Strobe.key F (Strobe.new F (Bytes.ofString Params.adssEncryptProto)) K

/-- everything `Commune::share` computes before the share point is drawn -/
structure Dealt where
  J : Bytes
  K : Bytes
  C : Bytes
  D : Bytes
  polys : List (List Nat)

def rngNext (F : Perm) (g : StrobeRng) : StrobeRng × Nat := StrobeRng.nextU64 F g

/-- `Commune::share` up to the polynomial; `none` = sampling fuel exhausted -/
def deal (F : Perm) (fuel : Nat) (T : Option Strobe) (thr : Nat) (M R : Bytes) :
    Option (Outcome Dealt) :=
  let tr := macTranscript F T thr M R
  let j := Strobe.sendMac F tr Params.macLength
  let k := Strobe.prf F j.1 Params.adssKeyLen
  let L : StrobeRng := ⟨k.1⟩
  let key := encKey F k.2
  let c := Strobe.sendEnc F key M
  let d := Strobe.sendEnc F c.1 R
  let kvec := k.2 ++ Bytes.zeros Params.adssKeyPadLen
  match Sharks.dealerRng (rngNext F) fuel thr kvec L with
  | none => none
  | some (.err e) => some (.err e)
  | some (.panic w) => some (.panic w)
  | some (.ok (_, polys)) => some (.ok ⟨j.2, k.2, c.2, d.2, polys⟩)

/-- `Commune::share` with the OS-random share point `x` made explicit -/
def share (F : Perm) (fuel : Nat) (T : Option Strobe) (thr : Nat) (M R : Bytes) (x : Nat) :
    Option (Outcome Share) :=
  match deal F fuel T thr M R with
  | none => none
  | some (.err e) => some (.err e)
  | some (.panic w) => some (.panic w)
  | some (.ok d) => some (.ok ⟨thr, Sharks.evaluate d.polys x, d.C, d.D, d.J⟩)

structure Commune where
  thr : Nat
  M : Bytes
  R : Bytes
  deriving DecidableEq, Repr

/-- `Commune::verify(J, K)` (default transcript, as `recover` builds the commune with `T: None`):
the MAC must verify, and the interpolated key `K` must be the key this transcript derives (the PRF
output that follows the MAC) -/
def verify (F : Perm) (c : Commune) (J K : Bytes) : Bool :=
  let r := Strobe.recvMac F (macTranscript F none c.thr c.M c.R) J
  if r.2 then (Strobe.prf F r.1 Params.adssKeyLen).2 == K else false

/-- `adss::recover` -/
def recover (F : Perm) (shares : List Share) : Outcome Commune :=
  match shares with
  | [] => .err "no shares"
  | s :: _ =>
    match Sharks.recover s.thr (shares.map (·.S)) with
    | .err k => .err k
    | .panic w => .panic w
    | .ok key =>
      if key.length < Params.adssKeyLen then .err "short key"
      else
        let ks := encKey F (key.take Params.adssKeyLen)
        let m := Strobe.recvEnc F ks s.C
        let r := Strobe.recvEnc F m.1 s.D
        let c : Commune := ⟨s.thr, m.2, r.2⟩
        if verify F c s.J (key.take Params.adssKeyLen) then .ok c else .err "mac"

end StarModel.Adss
