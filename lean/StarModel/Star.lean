/-
`sta-rs` (star/src/lib.rs): randomness derivation, report generation, report codec, payload
encryption; parametric in the STROBE permutation `F`.
-/
import StarModel.Adss
namespace StarModel.Star
open StarModel

/-- `strobe_digest(key, ad, label, out)` with `out.len() = 32` -/
def strobeDigest (F : Perm) (key : Bytes) (ads : List Bytes) (label : String) : Bytes :=
  let t := Strobe.key F (Strobe.new F (Bytes.ofString label)) key
  let t := ads.foldl (Strobe.ad F) t
  (StrobeRng.fillBytes F ⟨t⟩ Params.starDigestLen).2

/-- `MessageGenerator::sample_local_randomness` -/
def sampleLocalRandomness (F : Perm) (m e : Bytes) (t : Nat) : Bytes :=
  strobeDigest F m [e, Bytes.le32 t] Params.starSampleLocalLabel

/-- `derive_random_values`: index `i` as a single byte -/
def deriveRandom (F : Perm) (rnd : Bytes) (i : Nat) : Bytes :=
  strobeDigest F rnd [[UInt8.ofNat i]] Params.starDeriveRandomsLabel

/-- `derive_ske_key` -/
def deriveSkeKey (F : Perm) (r1 epoch : Bytes) : Bytes :=
  (strobeDigest F r1 [epoch] Params.starDeriveSkeKeyLabel).take Params.starSkeKeyLen

/-- `Ciphertext::new` -/
def encrypt (F : Perm) (key data : Bytes) (label : String) : Bytes :=
  (Strobe.sendEnc F (Strobe.key F (Strobe.new F (Bytes.ofString label)) key) data).2

/-- `Ciphertext::decrypt` -/
def decrypt (F : Perm) (key ct : Bytes) (label : String) : Bytes :=
  (Strobe.recvEnc F (Strobe.key F (Strobe.new F (Bytes.ofString label)) key) ct).2

structure Message where
  ciphertext : Bytes
  share : Adss.Share
  tag : Bytes
  deriving DecidableEq, Repr

/-- the plaintext payload of a report -/
def payload (m : Bytes) (aux : Option Bytes) : Bytes :=
  Adss.storeBytes m ++ (match aux with | some a => Adss.storeBytes a | none => [])

/-- `Message::generate` with the OS-random share point `x` explicit -/
def generate (F : Perm) (fuel : Nat) (m e : Bytes) (t : Nat) (rnd : Bytes) (aux : Option Bytes)
    (x : Nat) : Option (Outcome Message) :=
  let r0 := deriveRandom F rnd 0
  let r1 := deriveRandom F rnd 1
  let r2 := deriveRandom F rnd 2
  let key := deriveSkeKey F r0 e
  match Adss.share F fuel none t r0 r1 x with
  | none => none
  | some (.err k) => some (.err k)
  | some (.panic w) => some (.panic w)
  | some (.ok sh) => some (.ok ⟨encrypt F key (payload m aux) Params.starEncryptLabel, sh, r2⟩)

def Message.toBytes (msg : Message) : Bytes :=
  Adss.storeBytes msg.ciphertext ++ Adss.storeBytes msg.share.toBytes ++ Adss.storeBytes msg.tag

/-- `Message::from_bytes` -/
def Message.fromBytes (bs : Bytes) : Outcome Message :=
  match Adss.loadBytes bs with
  | .err k => .err k
  | .panic w => .panic w
  | .ok cb =>
    let sl := bs.drop (4 + cb.length)
    match Adss.loadBytes sl with
    | .err k => .err k
    | .panic w => .panic w
    | .ok sb =>
      match Adss.Share.fromBytes sb with
      | .err k => .err k
      | .panic w => .panic w
      | .ok sh =>
        let sl := sl.drop (4 + sb.length)
        match Adss.loadBytes sl with
        | .err k => .err k
        | .panic w => .panic w
        | .ok tag => .ok ⟨cb, sh, tag⟩

/-- `share_with_local_randomness`: (key, share, tag) -/
def shareWithLocalRandomness (F : Perm) (fuel : Nat) (m e : Bytes) (t : Nat) (x : Nat) :
    Option (Outcome (Bytes × Adss.Share × Bytes)) :=
  let rnd := sampleLocalRandomness F m e t
  let r0 := deriveRandom F rnd 0
  let r1 := deriveRandom F rnd 1
  let r2 := deriveRandom F rnd 2
  match Adss.share F fuel none t r0 r1 x with
  | none => none
  | some (.err k) => some (.err k)
  | some (.panic w) => some (.panic w)
  | some (.ok sh) => some (.ok (deriveSkeKey F r0 e, sh, r2))

/-- `share_recover` -/
def shareRecover (F : Perm) (shares : List Adss.Share) : Outcome Adss.Commune := Adss.recover F shares

/-- split a decrypted payload as the aggregation server does; `none` where it would panic -/
def parsePayload (pt : Bytes) : Option (Bytes × Option Bytes) :=
  match Adss.loadBytes pt with
  | .ok m =>
    let rest := pt.drop (4 + m.length)
    if rest.isEmpty then some (m, none)
    else
      match Adss.loadBytes rest with
      | .ok a => some (m, some a)
      | _ => none
  | _ => none

end StarModel.Star
