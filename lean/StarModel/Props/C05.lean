/-
C05 — Authenticated recovery: the result is the shared message or an error, never else.
For every STROBE permutation `F` and ARBITRARY collections of shares.
Clause kinds: (U) unconditional; (R) reduction to an explicit MAC collision of the default-transcript
MAC `macOf F none (t, M, R)` on two distinct triples.
-/
import StarModel.Lemmas.Skeleton
import StarModel.Lemmas.Adss

namespace StarModel.Props.C05
open StarModel StarModel.Adss

/-- an explicit collision of the ADSS MAC on two different `(threshold, message, coins)` triples -/
def MacCollision (F : Perm) (a b : Nat × Bytes × Bytes) : Prop :=
  a ≠ b ∧ macOf F none a.1 a.2.1 a.2.2 = macOf F none b.1 b.2.1 b.2.2

/-- (U) **Acceptance implies the MAC relation.** For any collection whatsoever: if `recover`
returns a commune `c`, then `c` carries the FIRST share's threshold, its message and coins are the
decryptions of the FIRST share's `C`, `D` under the key interpolated from the collection, and the
first share's tag IS the MAC of `(c.thr, c.M, c.R)`; and `recover` never panics. -/
theorem C05_accept_implies_mac (F : Perm) (s0 : Adss.Share) (rest : List Adss.Share) (c : Commune)
    (h : Adss.recover F (s0 :: rest) = .ok c) :
    c.thr = s0.thr ∧ s0.J = (Strobe.sendMac F (macTranscript F none c.thr c.M c.R) s0.J.length).2 ∧
    ∃ key, Sharks.recover s0.thr ((s0 :: rest).map (·.S)) = .ok key ∧ Params.adssKeyLen ≤ key.length ∧
      c.M = (Strobe.recvEnc F (encKey F (key.take Params.adssKeyLen)) s0.C).2 ∧
      c.R = (Strobe.recvEnc F (Strobe.recvEnc F (encKey F (key.take Params.adssKeyLen)) s0.C).1 s0.D).2 ∧
      key.take Params.adssKeyLen = keyAfterMac F c.thr c.M c.R s0.J.length :=
  recover_ok_mac F s0 rest c h

theorem C05_never_panics (F : Perm) (shares : List Adss.Share) (w : String) :
    Adss.recover F shares ≠ .panic w := recover_not_panic F shares w

/-- (R) **The shared message or a collision.** If the first share of the collection carries the
honest tag and threshold of the sharing `(t, M, R)` — whatever else was altered in it or in any
other share, whatever foreign shares are mixed in, in whatever order — then the outcome is an
error, or exactly `(t, M, R)`, or it exhibits a MAC collision. -/
theorem C05_message_or_collision (F : Perm) (t : Nat) (M R : Bytes) (s0 : Adss.Share) (rest : List Adss.Share)
    (hthr : s0.thr = t) (hJ : s0.J = macOf F none t M R) (c : Commune)
    (h : Adss.recover F (s0 :: rest) = .ok c) :
    c = ⟨t, M, R⟩ ∨ MacCollision F (c.thr, c.M, c.R) (t, M, R) := by
  obtain ⟨hct, hmac, _⟩ := recover_ok_mac F s0 rest c h
  have hl : s0.J.length = Params.macLength := by rw [hJ, macOf_length]; rfl
  rw [hl] at hmac
  by_cases heq : (c.thr, c.M, c.R) = (t, M, R)
  · left
    injection heq with h1 h2; injection h2 with h2 h3
    cases c; simp_all
  · right
    exact ⟨heq, by show macOf F none c.thr c.M c.R = macOf F none t M R; unfold macOf; rw [← hmac, hJ]; rfl⟩

/-- (R) the same with an ALTERED tag `J'`: acceptance means the MAC of the recovered triple hit the
attacker-chosen string `J'` (a forgery) -/
theorem C05_altered_tag_is_forgery (F : Perm) (s0 : Adss.Share) (rest : List Adss.Share) (c : Commune)
    (hl : s0.J.length = 64) (h : Adss.recover F (s0 :: rest) = .ok c) :
    macOf F none c.thr c.M c.R = s0.J := by
  obtain ⟨_, hmac, _⟩ := recover_ok_mac F s0 rest c h
  rw [hl] at hmac
  exact hmac.symm

/-- (U) **An altered tag on the share that supplies the ciphertext is always rejected**: the honest
collection of one sharing with only the first share's tag replaced by any other string. -/
theorem C05_tag_tamper_rejected (F : Perm) (fuel : Nat) (t : Nat) (ht : 1 ≤ t) (M R : Bytes) (d : Dealt)
    (hd : deal F fuel none t M R = some (.ok d))
    (x0 : Nat) (xr : List Nat) (hx : ∀ x ∈ x0 :: xr, x < Fp.p) (hc : t ≤ (x0 :: xr).toFinset.card)
    (J' : Bytes) (hJ' : J' ≠ d.J) (hl : J'.length = 64) :
    Adss.recover F ((⟨t, Sharks.evaluate d.polys x0, d.C, d.D, J'⟩ : Adss.Share) ::
      xr.map fun x => (⟨t, Sharks.evaluate d.polys x, d.C, d.D, d.J⟩ : Adss.Share)) = .err "mac" := by
  obtain ⟨hJ, hK, hC, hD, _⟩ := deal_ok F fuel none t M R d hd
  have hKl : d.K.length = 16 := by rw [hK]; exact keyOf_length F none t M R
  have hk : Sharks.recover t (((⟨t, Sharks.evaluate d.polys x0, d.C, d.D, J'⟩ : Adss.Share) ::
      xr.map fun x => (⟨t, Sharks.evaluate d.polys x, d.C, d.D, d.J⟩ : Adss.Share)).map (·.S)) =
      .ok (d.K ++ Bytes.zeros 8) := by
    have := sharks_recover_dealt F fuel t ht M R d hd (x0 :: xr) hx hc
    simpa [List.map_map, Function.comp_def] using this
  rw [recover_of_key F _ _ d.K M R hKl hk hC hD]
  simp only
  rw [if_neg]
  intro hcon
  apply hJ'
  rw [hcon.1, hl, hJ]; rfl

/-- (U) **The interpolated key is bound too.** Whatever the collection: if `recover` accepts, the key
its shares interpolate to IS the key the transcript of the returned `(threshold, M, R)` derives
(`Commune::verify` compares them since the repair recorded in known_findings.json). -/
theorem C05_accept_binds_key (F : Perm) (s0 : Adss.Share) (rest : List Adss.Share) (c : Commune)
    (hl : s0.J.length = 64) (h : Adss.recover F (s0 :: rest) = .ok c) :
    ∃ key, Sharks.recover s0.thr ((s0 :: rest).map (·.S)) = .ok key ∧
      key.take Params.adssKeyLen = keyOf F none c.thr c.M c.R := by
  obtain ⟨_, _, key, hk, _, _, _, hkey⟩ := recover_ok_mac F s0 rest c h
  refine ⟨key, hk, ?_⟩
  rw [hkey, hl]; rfl

/-- (R) altered Shamir shares: if the first share carries the honest tag and threshold of `(t, M, R)`
but the collection interpolates to ANOTHER key than that sharing's, acceptance is a MAC collision -
the shared triple itself can no longer come back -/
theorem C05_wrong_key_rejected_or_collision (F : Perm) (t : Nat) (M R : Bytes) (s0 : Adss.Share)
    (rest : List Adss.Share) (hthr : s0.thr = t) (hJ : s0.J = macOf F none t M R) (key : Bytes)
    (hk : Sharks.recover s0.thr ((s0 :: rest).map (·.S)) = .ok key)
    (hne : key.take Params.adssKeyLen ≠ keyOf F none t M R) (c : Commune)
    (h : Adss.recover F (s0 :: rest) = .ok c) :
    c ≠ ⟨t, M, R⟩ ∧ MacCollision F (c.thr, c.M, c.R) (t, M, R) := by
  have hl : s0.J.length = 64 := by rw [hJ]; exact macOf_length F none t M R
  obtain ⟨key', hk', hkey⟩ := C05_accept_binds_key F s0 rest c hl h
  rw [hk] at hk'; injection hk' with hk'; subst hk'
  have hc : c ≠ ⟨t, M, R⟩ := by
    intro he; subst he; exact hne hkey
  rcases C05_message_or_collision F t M R s0 rest hthr hJ c h with h1 | h1
  · exact absurd h1 hc
  · exact ⟨hc, h1⟩

/-- (U) **nothing to decrypt, still bound**: with EMPTY encrypted message and coins (a sharing of the
empty message with empty coins) the key is used for nothing, and before the repair any alteration
of the Shamir shares was accepted; now a collection that interpolates to another key than the
sharing's is rejected unconditionally -/
theorem C05_empty_sharing_wrong_key_rejected (F : Perm) (t : Nat) (s0 : Adss.Share) (rest : List Adss.Share)
    (hthr : s0.thr = t) (hC : s0.C = []) (hD : s0.D = []) (hJ : s0.J = macOf F none t [] []) (key : Bytes)
    (hk : Sharks.recover s0.thr ((s0 :: rest).map (·.S)) = .ok key)
    (hne : key.take Params.adssKeyLen ≠ keyOf F none t [] []) (c : Commune) :
    Adss.recover F (s0 :: rest) ≠ .ok c := by
  intro h
  obtain ⟨hct, _, key', hk', _, hM, hR, _⟩ := recover_ok_mac F s0 rest c h
  have hl : s0.J.length = 64 := by rw [hJ]; exact macOf_length F none t [] []
  obtain ⟨key'', hk'', hkey⟩ := C05_accept_binds_key F s0 rest c hl h
  rw [hk] at hk''; injection hk'' with hk''; subst hk''
  have hM' : c.M = [] := by
    rw [hM, hC]
    have := Strobe.recvEnc_length F (encKey F (key'.take Params.adssKeyLen)) []
    exact List.eq_nil_of_length_eq_zero this
  have hR' : c.R = [] := by
    rw [hR, hD]
    have := Strobe.recvEnc_length F (Strobe.recvEnc F (encKey F (key'.take Params.adssKeyLen)) s0.C).1 []
    exact List.eq_nil_of_length_eq_zero this
  rw [hct, hthr, hM', hR'] at hkey
  exact hne hkey

/-- `recv_enc` is injective in the ciphertext: different ciphertexts decrypt to different messages -/
theorem recvEnc_injective (F : Perm) (s : Strobe) (c c' : Bytes)
    (h : (Strobe.recvEnc F s c).2 = (Strobe.recvEnc F s c').2) : c = c' := by
  unfold Strobe.recvEnc Strobe.operate at h
  simp only at h
  generalize Strobe.beginOp F (Strobe.tFlag s true 14).1 (Strobe.tFlag s true 14).2 true = s1 at h
  have hlen : c.length = c'.length := by
    have := congrArg List.length h
    rwa [Strobe.duplex_length, Strobe.duplex_length] at this
  induction c generalizing c' s1 with
  | nil => cases c' with
    | nil => rfl
    | cons _ _ => simp at hlen
  | cons b bs ih =>
    cases c' with
    | nil => simp at hlen
    | cons b' bs' =>
      simp only [Strobe.duplex, List.cons.injEq] at h
      obtain ⟨h1, h2⟩ := h
      have hb : b = b' := by
        have e1 : (Strobe.stepByte F Strobe.mExchange s1 b).2 = b ^^^ s1.st.getD s1.pos 0 := rfl
        have e2 : (Strobe.stepByte F Strobe.mExchange s1 b').2 = b' ^^^ s1.st.getD s1.pos 0 := rfl
        rw [e1, e2] at h1
        have := congrArg (· ^^^ s1.st.getD s1.pos 0) h1
        simpa [UInt8.xor_assoc] using this
      subst hb
      exact congrArg _ (ih _ _ h2 (by simpa using hlen))

/-- (U) **An altered encrypted message on the share that supplies the ciphertext changes the
decrypted message**, so by `C05_message_or_collision` acceptance is a MAC collision. -/
theorem C05_ct_tamper_changes_message (F : Perm) (s0 : Adss.Share) (rest : List Adss.Share) (c c' : Commune) (C' : Bytes)
    (hC : C' ≠ s0.C)
    (h : Adss.recover F (s0 :: rest) = .ok c)
    (h' : Adss.recover F ({ s0 with C := C' } :: rest) = .ok c') : c'.M ≠ c.M := by
  obtain ⟨_, _, key, hk, _, hM, _⟩ := recover_ok_mac F s0 rest c h
  obtain ⟨_, _, key', hk', _, hM', _⟩ := recover_ok_mac F { s0 with C := C' } rest c' h'
  have : key' = key := by
    have e : (({ s0 with C := C' } : Adss.Share) :: rest).map (·.S) = (s0 :: rest).map (·.S) := rfl
    simp only at hk'
    rw [e] at hk'
    rw [hk] at hk'; injection hk' with hk'; exact hk'.symm
  subst this
  intro heq
  rw [hM, hM'] at heq
  exact hC (recvEnc_injective F _ _ _ heq)

/-- (U) a threshold raised above the number of distinct points is rejected -/
theorem C05_raised_threshold_rejected (F : Perm) (s0 : Adss.Share) (rest : List Adss.Share)
    (h : ((s0 :: rest).map (·.S.x)).toFinset.card < s0.thr) : ∃ k, Adss.recover F (s0 :: rest) = .err k := by
  cases hr : Adss.recover F (s0 :: rest) with
  | err k => exact ⟨k, rfl⟩
  | panic w => exact absurd hr (recover_not_panic F _ w)
  | ok c =>
    obtain ⟨_, _, key, hk, _⟩ := recover_ok_mac F s0 rest c hr
    have := (Sharks.recover_ok_count _ _ _ hk).2
    rw [List.map_map] at this
    exact absurd this (by simpa [Function.comp_def] using Nat.not_le.mpr h)

/-- (U) **Threshold 1: the share point is free.** With threshold 1 the dealt polynomial is the
constant `K`, so changing the share point of a share yields exactly the honest share at the other
point: such an "alteration" is not a forgery and cannot be rejected (this is why the tamper oracle
does not demand rejection of point changes at threshold 1). -/
theorem C05_threshold_one_point_free (F : Perm) (fuel : Nat) (T : Option Strobe) (M R : Bytes) (d : Dealt)
    (hd : deal F fuel T 1 M R = some (.ok d)) (x x' : Nat) :
    (Sharks.evaluate d.polys x).y = (Sharks.evaluate d.polys x').y := by
  obtain ⟨_, _, _, _, g', hdf⟩ := deal_ok F fuel T 1 M R d hd
  obtain ⟨cs, hpolys, hdraw⟩ := hdf.singleton
  have hcs : cs = [] := by
    have := (Sharks.drawFp_spec _ _ _ _ _ _ hdraw).1
    simpa using this
  rw [hpolys, hcs]
  simp [Sharks.evaluate, Sharks.evalPoly, Fp.mul, Fp.add]

-- non-vacuity (identity permutation): an honest pair of shares recovers; flipping one tag byte of
-- the first share is rejected
example : (match share id 8 none 2 [4] [1] 3, share id 8 none 2 [4] [1] 5 with
    | some (.ok a), some (.ok b) =>
      some (Adss.recover id [a, b], Adss.recover id [{ a with J := a.J.set 0 (a.J.getD 0 0 + 1) }, b])
    | _, _ => none) = some (.ok ⟨2, [4], [1]⟩, .err "mac") := by decide +kernel

end StarModel.Props.C05
