/-
C02 — Sub-threshold confidentiality: fewer than t distinct shares never yield key or message.

Clause kinds. (U): the count gate of the recovery interface, perfect secrecy of Shamir sharing
below the threshold (every candidate secret is consistent with any k < t shares; uniquely for
k = t-1), and the structure of the dealt polynomial (t-1 separate draws + the key). (R): a
rewritten threshold is accepted only with a MAC collision. (E): statistical statements about the
sampled coefficients / absence of secrets in the report bytes are measured by the oracle on the
implementation and reported as evidence, not as theorems.
-/
import StarModel.Lemmas.Skeleton
import StarModel.Lemmas.Adss
import StarModel.Props.C05

open Polynomial

namespace StarModel.Props.C02
open StarModel StarModel.Adss

/-- (U) **Count gate.** Whatever the shares contain: if the recovery interface returns a commune
then the threshold recorded in the FIRST share is ≥ 1 and the collection holds at least that many
DISTINCT share points — repeated shares never count. -/
theorem C02_count_gate (F : Perm) (s0 : Adss.Share) (rest : List Adss.Share) (c : Commune)
    (h : Adss.recover F (s0 :: rest) = .ok c) :
    1 ≤ s0.thr ∧ s0.thr ≤ ((s0 :: rest).map (·.S.x)).toFinset.card := by
  obtain ⟨_, _, key, hk, _⟩ := recover_ok_mac F s0 rest c h
  have := Sharks.recover_ok_count _ _ _ hk
  rw [List.map_map] at this
  exact this

/-- (U) hence an honest collection that holds fewer than `t` distinct shares — padded with
duplicates or not — fails outright -/
theorem C02_below_threshold_fails (F : Perm) (s0 : Adss.Share) (rest : List Adss.Share)
    (h : ((s0 :: rest).map (·.S.x)).toFinset.card < s0.thr) : ∃ k, Adss.recover F (s0 :: rest) = .err k :=
  C05.C05_raised_threshold_rejected F s0 rest h

/-- (R) **Rewritten threshold.** Shares of the sharing `(t, M, R)`; the threshold field of the
first share rewritten to `t' ≠ t` (smaller, to make a sub-threshold collection pass the count gate,
or larger). If recovery accepts, the MAC collides on two distinct triples. -/
theorem C02_forged_threshold (F : Perm) (t t' : Nat) (M R : Bytes) (s0 : Adss.Share) (rest : List Adss.Share)
    (hne : t' ≠ t) (hthr : s0.thr = t') (hJ : s0.J = macOf F none t M R) (c : Commune)
    (h : Adss.recover F (s0 :: rest) = .ok c) :
    C05.MacCollision F (c.thr, c.M, c.R) (t, M, R) := by
  obtain ⟨hct, hmac, _⟩ := recover_ok_mac F s0 rest c h
  have hl : s0.J.length = Params.macLength := by rw [hJ, macOf_length]; rfl
  rw [hl] at hmac
  refine ⟨?_, by show macOf F none c.thr c.M c.R = macOf F none t M R; unfold macOf; rw [← hmac, hJ]; rfl⟩
  intro heq
  injection heq with h1 _
  exact hne (by rw [← hthr, ← hct, h1])

/-- (U) **Perfect secrecy below the threshold.** For `t ≥ 1`, any set `xs` of fewer than `t`
non-zero points with any values `ys`, and ANY candidate secret `s`, some polynomial of degree `< t`
has constant term `s` and passes through all the points: `k < t` shares are consistent with every
secret. -/
theorem C02_shamir_secrecy (t : Nat) (xs : Finset Sharks.K) (ys : Sharks.K → Sharks.K)
    (hk : xs.card < t) (h0 : (0 : Sharks.K) ∉ xs) (s : Sharks.K) :
    ∃ f : Sharks.K[X], f.degree < t ∧ f.eval 0 = s ∧ ∀ x ∈ xs, f.eval x = ys x := by
  classical
  let nodes : Finset Sharks.K := insert 0 xs
  let r : Sharks.K → Sharks.K := fun x => if x = 0 then s else ys x
  have hinj : Set.InjOn (id : Sharks.K → Sharks.K) nodes := fun _ _ _ _ h => h
  refine ⟨Lagrange.interpolate nodes id r, ?_, ?_, ?_⟩
  · refine lt_of_lt_of_le (Lagrange.degree_interpolate_lt r hinj) ?_
    have : nodes.card = xs.card + 1 := Finset.card_insert_of_notMem h0
    rw [this]; exact_mod_cast hk
  · have := Lagrange.eval_interpolate_at_node r hinj (Finset.mem_insert_self 0 xs)
    simpa [r] using this
  · intro x hx
    have hx0 : x ≠ 0 := fun h => h0 (h ▸ hx)
    have := Lagrange.eval_interpolate_at_node r hinj (Finset.mem_insert_of_mem hx)
    simpa [r, hx0] using this

/-- (U) with exactly `t - 1` points the consistent polynomial is unique for each candidate secret:
the shares together with the secret determine the polynomial, nothing less does -/
theorem C02_shamir_unique (t : Nat) (xs : Finset Sharks.K) (hk : xs.card + 1 = t) (h0 : (0 : Sharks.K) ∉ xs)
    (f g : Sharks.K[X]) (hf : f.degree < t) (hg : g.degree < t) (hs : f.eval 0 = g.eval 0)
    (hx : ∀ x ∈ xs, f.eval x = g.eval x) : f = g := by
  classical
  have hc : (insert 0 xs).card = t := by rw [Finset.card_insert_of_notMem h0, hk]
  apply Polynomial.eq_of_degrees_lt_of_eval_finset_eq (insert 0 xs) (by rw [hc]; exact hf) (by rw [hc]; exact hg)
  intro x hx'
  rcases Finset.mem_insert.mp hx' with rfl | hx'
  · exact hs
  · exact hx x hx'

/-- (U) **Structure of the sharing polynomial.** What `Commune::share` deals is ONE polynomial
`(t-1 consecutive Fp::random draws of the transcript-seeded RNG) ++ [K]`: degree ≤ t-1, the
non-constant coefficients are `t-1` separate draws (canonical field elements), the constant term is
the zero-padded 16-byte key, and every share is a point on it. -/
theorem C02_poly_structure (F : Perm) (fuel : Nat) (T : Option Strobe) (t : Nat) (ht : 1 ≤ t) (M R : Bytes)
    (d : Dealt) (hd : deal F fuel T t M R = some (.ok d)) :
    ∃ cs g', d.polys = [cs ++ [Bytes.toNatLE d.K]] ∧ d.K = keyOf F T t M R ∧
      Sharks.drawFp (rngNext F) fuel (t - 1)
        ⟨(Strobe.prf F (Strobe.sendMac F (macTranscript F T t M R) Params.macLength).1 Params.adssKeyLen).1⟩ =
        some (g', cs) ∧
      cs.length = t - 1 ∧ (∀ c ∈ cs, c < Fp.p) ∧ Bytes.toNatLE d.K < 2 ^ 128 ∧
      (Sharks.polyOf (cs ++ [Bytes.toNatLE d.K])).degree < t := by
  obtain ⟨_, hK, _, _, g', hdf⟩ := deal_ok F fuel T t M R d hd
  have hKl : d.K.length = 16 := by rw [hK]; exact keyOf_length F T t M R
  obtain ⟨cs, hpolys, hdraw⟩ := hdf.singleton
  obtain ⟨hl, hlt⟩ := Sharks.drawFp_spec _ _ _ _ _ _ hdraw
  refine ⟨cs, g', hpolys, hK, hdraw, hl, hlt, ?_, ?_⟩
  · have := Bytes.toNatLE_lt d.K; rw [hKl] at this
    have h2 : (256 : Nat) ^ 16 = 2 ^ 128 := by norm_num
    omega
  · have := Sharks.polyOf_degree_lt (cs ++ [Bytes.toNatLE d.K])
    rw [List.length_append, hl] at this
    simp only [List.length_singleton] at this
    have h1 : t - 1 + 1 = t := by omega
    rwa [h1] at this

-- non-vacuity: a concrete sub-threshold collection (two copies of one share, t = 2) is refused
example : (match share id 8 none 2 [4] [1] 3 with
    | some (.ok a) => some (Adss.recover id [a, a, a])
    | _ => none) = some (.err "few") := by decide +kernel

end StarModel.Props.C02
