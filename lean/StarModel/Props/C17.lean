/-
C17 — The WASM string API: `create_share` returns well-formed JSON carrying exactly what the core
library derives; `group_shares` returns the clients' key from ≥ threshold distinct shares of one
measurement and nothing from fewer; a different epoch never yields the clients' key.

Clause kinds. (U): well-formedness and content of the JSON, recovery at/above the threshold, refusal
below it, totality (no panic on ANY pair of strings). (R): "a different epoch yields a different
key" reduces to a STROBE collision on the two key-derivation transcripts.
The base64 codec is the specification-level model `StarModel.Base64` of the third-party crate; its
round trip `decodeChars (encodeChars bs) = some bs` is the theorem `hb64` below (proved in Lemmas/Codec.lean)
(proved separately as `C15_base64_roundtrip`).
-/
import StarModel.Lemmas.Skeleton
import StarModel.Lemmas.Agg
import StarModel.Lemmas.Codec
import StarModel.Props.C02
import StarModel.Props.C04

namespace StarModel.Props.C17
open StarModel StarModel.Star StarModel.Wasm

/-- the base64 round trip (proved for all byte strings in `Lemmas/Codec.lean`) -/
theorem hb64 : ∀ bs, Base64.decodeChars (Base64.encodeChars bs) = some bs := Base64.decodeChars_encodeChars

/-- (U) **`group_shares` never panics**, whatever the two strings contain. -/
theorem C17_group_never_panics (F : Perm) (serializedShares epoch : String) (w : String) :
    groupShares F serializedShares epoch ≠ .panic w := by
  unfold groupShares
  cases h : decodeChunks (splitNL serializedShares.toList) with
  | panic w' => exact absurd h (decodeChunks_not_panic _ w')
  | err k => simp
  | ok o =>
    cases o with
    | none => simp
    | some shares =>
      simp only
      cases h2 : shareRecover F shares with
      | err k => simp
      | panic w' => exact absurd h2 (Adss.recover_not_panic F shares w')
      | ok c => simp

/-- (U) `create_share` neither panics nor takes its `""` error path: the model's `none` is
exhaustion of the sampling fuel and nothing else. -/
theorem C17_create_share_total (F : Perm) (fuel : Nat) (m : Bytes) (t : Nat) (epoch : String) (x : Nat) :
    (∀ w, createShareOutcome F fuel m t epoch x ≠ some (.panic w)) ∧
    createShareOutcome F fuel m t epoch x ≠ some (.ok "") ∧
    (createShare F fuel m t epoch x = none ↔
      shareWithLocalRandomness F fuel m (epochBytes epoch) t x = none) := by
  obtain ⟨h1, h2⟩ := swlr_not_err F fuel m (epochBytes epoch) t x
  unfold createShare createShareOutcome
  cases h : shareWithLocalRandomness F fuel m (epochBytes epoch) t x with
  | none => simp
  | some o =>
    cases o with
    | err k => exact absurd h (h1 k)
    | panic w => exact absurd h (h2 w)
    | ok r =>
      obtain ⟨k, sh, tag⟩ := r
      refine ⟨by simp, ?_, by simp⟩
      simp only [formatJson]
      intro he
      injection he with he; injection he with he
      have := congrArg String.length he
      simp [String.length_append] at this

/-- (U) **Well-formed JSON with the library's values.** Whenever `create_share` returns, the
returned text is literally `{"key": "K", "share": "S", "tag": "T"}` where `K`, `S`, `T` are the
base64 encodings of the key, the encoded share and the tag that `share_with_local_randomness`
derives for the same measurement, threshold, epoch bytes and share point; the key has 16 bytes, the
tag 32, the share bytes are accepted by `Share::from_bytes` and decode to the same share; and the
three base64 texts consist of alphabet symbols and `=` only — in particular they contain neither
`"` nor `\`, so the text is a JSON object with exactly these three string members. -/
theorem C17_create_share_wellformed (F : Perm) (fuel : Nat) (m : Bytes) (t : Nat) (ht32 : t < 2 ^ 32)
    (epoch : String) (x : Nat) (hx : x < Fp.p) (s : String)
    (h : createShare F fuel m t epoch x = some s) :
    ∃ key share tag,
      shareWithLocalRandomness F fuel m (epochBytes epoch) t x = some (.ok (key, share, tag)) ∧
      s = "{\"key\": \"" ++ Base64.encode key ++ "\", \"share\": \"" ++ Base64.encode share.toBytes ++
          "\", \"tag\": \"" ++ Base64.encode tag ++ "\"}" ∧
      key.length = 16 ∧ tag.length = 32 ∧
      Adss.Share.fromBytes share.toBytes = .ok share ∧
      (∀ b ∈ [key, share.toBytes, tag], ∀ c ∈ (Base64.encode b).toList,
        Base64.Sym.IsSymbol c ∧ c ≠ '"' ∧ c ≠ '\\' ∧ c ≠ '\n') := by
  unfold createShare createShareOutcome at h
  cases hs : shareWithLocalRandomness F fuel m (epochBytes epoch) t x with
  | none => rw [hs] at h; cases h
  | some o =>
    rw [hs] at h
    cases o with
    | err k => exact absurd hs ((swlr_not_err F fuel m _ t x).1 k)
    | panic w => cases h
    | ok r =>
      obtain ⟨key, share, tag⟩ := r
      simp only at h
      injection h with h
      obtain ⟨d, hd, hsh, hk, htag⟩ := swlr_ok F fuel m _ t x key tag share hs
      refine ⟨key, share, tag, rfl, ?_, ?_, ?_, ?_, ?_⟩
      · rw [← h]; rfl
      · rw [hk]; exact deriveSkeKey_length F _ _
      · rw [htag]; exact strobeDigest_length F _ _ _
      · apply C08.C08_adss_roundtrip
        rw [hsh]
        exact dealt_share_valid F fuel t ht32 _ _
          (by unfold deriveRandom; rw [strobeDigest_length]; norm_num)
          (by unfold deriveRandom; rw [strobeDigest_length]; norm_num) d hd x hx
      · intro b _ c hc
        unfold Base64.encode at hc
        rw [String.toList_ofList] at hc
        have := Base64.Sym.encodeChars_symbols b c hc
        exact ⟨this, this.ne⟩

/-- (U) **The fields decode.** With the base64 round trip `hb64`: the three members of the returned
object decode (`BASE64_STANDARD.decode`) to the library's 16-byte key, to bytes that
`Share::from_bytes` accepts as the library's share, and to the library's 32-byte tag. -/
theorem C17_create_share_fields_decode (F : Perm) (fuel : Nat)
    (m : Bytes) (t : Nat) (ht32 : t < 2 ^ 32) (epoch : String) (x : Nat) (hx : x < Fp.p) (s : String)
    (h : createShare F fuel m t epoch x = some s) :
    ∃ K S T key share tag, s = formatJson K S T ∧
      shareWithLocalRandomness F fuel m (epochBytes epoch) t x = some (.ok (key, share, tag)) ∧
      Base64.decode K = some key ∧ key.length = 16 ∧
      (∃ sb, Base64.decode S = some sb ∧ Adss.Share.fromBytes sb = .ok share) ∧
      Base64.decode T = some tag ∧ tag.length = 32 := by
  obtain ⟨key, share, tag, hs, hfmt, hk, htag, hrt, _⟩ :=
    C17_create_share_wellformed F fuel m t ht32 epoch x hx s h
  have hdec : ∀ b, Base64.decode (Base64.encode b) = some b := by
    intro b; unfold Base64.decode Base64.encode; rw [String.toList_ofList]; exact hb64 b
  exact ⟨_, _, _, key, share, tag, hfmt, hs, hdec key, hk, ⟨_, hdec _, hrt⟩, hdec tag, htag⟩

/-- clients of one `(measurement, epoch, threshold)`: what the client with share point `x` obtains
from `share_with_local_randomness` (equivalently, by `C17_create_share_wellformed`, what the three
base64 fields of its `create_share` text decode to) -/
def Clients (F : Perm) (fuel : Nat) (m : Bytes) (epoch : String) (t : Nat) (xs : List Nat)
    (key : Nat → Bytes) (share : Nat → Adss.Share) (tag : Nat → Bytes) : Prop :=
  ∀ x ∈ xs, shareWithLocalRandomness F fuel m (epochBytes epoch) t x = some (.ok (key x, share x, tag x))

/-- the text handed to `group_shares`: the clients' base64 `share` fields joined by newlines -/
def joined (share : Nat → Adss.Share) (xs : List Nat) : String :=
  "\n".intercalate (xs.map fun x => Base64.encode (share x).toBytes)

/-- all clients of a non-empty group hold one dealing and one key -/
theorem C17_clients_dealing (F : Perm) (fuel : Nat) (m : Bytes) (epoch : String) (t : Nat) (xs : List Nat)
    (key : Nat → Bytes) (share : Nat → Adss.Share) (tag : Nat → Bytes)
    (hcl : Clients F fuel m epoch t xs key share tag) (hne : xs ≠ []) :
    ∃ d, Adss.deal F fuel none t (deriveRandom F (sampleLocalRandomness F m (epochBytes epoch) t) 0)
        (deriveRandom F (sampleLocalRandomness F m (epochBytes epoch) t) 1) = some (.ok d) ∧
      ∀ x ∈ xs, share x = ⟨t, Sharks.evaluate d.polys x, d.C, d.D, d.J⟩ ∧
        key x = deriveSkeKey F (deriveRandom F (sampleLocalRandomness F m (epochBytes epoch) t) 0) (epochBytes epoch) := by
  obtain ⟨x0, hx0⟩ := List.exists_mem_of_ne_nil xs hne
  obtain ⟨d, hd, _, _, _⟩ := swlr_ok F fuel m _ t x0 _ _ _ (hcl x0 hx0)
  refine ⟨d, hd, ?_⟩
  intro x hx
  obtain ⟨d', hd', hs, hk, _⟩ := swlr_ok F fuel m _ t x _ _ _ (hcl x hx)
  rw [hd] at hd'; injection hd' with hd'; injection hd' with hd'; subst hd'
  exact ⟨hs, hk⟩

/-- `group_shares` on the clients' joined shares, for ANY epoch string given to it: recovery on the
clients' shares followed by the key derivation under that epoch -/
theorem C17_group_joined (F : Perm) (fuel : Nat)
    (m : Bytes) (t : Nat) (ht32 : t < 2 ^ 32) (epoch epoch' : String)
    (xs : List Nat) (hx : ∀ x ∈ xs, x < Fp.p) (hne : xs ≠ [])
    (key : Nat → Bytes) (share : Nat → Adss.Share) (tag : Nat → Bytes)
    (hcl : Clients F fuel m epoch t xs key share tag) :
    groupShares F (joined share xs) epoch' =
      match shareRecover F (xs.map share) with
      | .err _ => .ok none
      | .panic w => .panic w
      | .ok c => .ok (some (Base64.encode (deriveSkeKey F c.M (epochBytes epoch')))) := by
  obtain ⟨d, hd, hsh⟩ := C17_clients_dealing F fuel m epoch t xs key share tag hcl hne
  have hmap : (xs.map fun x => Base64.encode (share x).toBytes) =
      (xs.map share).map fun s => Base64.encode s.toBytes := by rw [List.map_map]; rfl
  unfold joined
  rw [hmap]
  apply groupShares_encoded F hb64 _ (by simpa using hne)
  intro s hs
  obtain ⟨x, hxs, rfl⟩ := List.mem_map.mp hs
  apply C08.C08_adss_roundtrip
  rw [(hsh x hxs).1]
  exact dealt_share_valid F fuel t ht32 _ _
    (by unfold deriveRandom; rw [strobeDigest_length]; norm_num)
    (by unfold deriveRandom; rw [strobeDigest_length]; norm_num) d hd x (hx x hxs)

/-- (U) **At or above the threshold.** Clients of one `(measurement, epoch, threshold)` with share
points `xs` — any order, repeats allowed — among which at least `threshold` are distinct: on their
base64 shares joined by newlines and the clients' epoch, `group_shares` returns the base64 of the
16-byte key EVERY contributing client holds. -/
theorem C17_group_ok (F : Perm) (fuel : Nat)
    (m : Bytes) (t : Nat) (ht : 1 ≤ t) (ht32 : t < 2 ^ 32) (epoch : String)
    (xs : List Nat) (hx : ∀ x ∈ xs, x < Fp.p) (hc : t ≤ xs.toFinset.card)
    (key : Nat → Bytes) (share : Nat → Adss.Share) (tag : Nat → Bytes)
    (hcl : Clients F fuel m epoch t xs key share tag) :
    ∀ x ∈ xs, groupShares F (joined share xs) epoch = .ok (some (Base64.encode (key x))) := by
  have hne : xs ≠ [] := by intro h; rw [h] at hc; simp at hc; omega
  obtain ⟨d, hd, hsh⟩ := C17_clients_dealing F fuel m epoch t xs key share tag hcl hne
  intro x hxs
  rw [C17_group_joined F fuel m t ht32 epoch epoch xs hx hne key share tag hcl]
  have heq : xs.map share = xs.map fun x => (⟨t, Sharks.evaluate d.polys x, d.C, d.D, d.J⟩ : Adss.Share) :=
    List.map_congr_left fun y hy => (hsh y hy).1
  have := Adss.recover_honest F fuel t ht _ _ d hd xs hx hc
  unfold shareRecover
  rw [heq, this, (hsh x hxs).2]

/-- (U) **Below the threshold.** The same clients, but fewer than `threshold` distinct share points
(an empty collection and collections padded with repeats included): `group_shares` returns
nothing. -/
theorem C17_group_below (F : Perm) (fuel : Nat)
    (m : Bytes) (t : Nat) (ht32 : t < 2 ^ 32) (epoch epoch' : String)
    (xs : List Nat) (hx : ∀ x ∈ xs, x < Fp.p) (hc : xs.toFinset.card < t)
    (key : Nat → Bytes) (share : Nat → Adss.Share) (tag : Nat → Bytes)
    (hcl : Clients F fuel m epoch t xs key share tag) :
    groupShares F (joined share xs) epoch' = .ok none := by
  by_cases hne : xs = []
  · subst hne; exact groupShares_empty F epoch'
  · obtain ⟨d, hd, hsh⟩ := C17_clients_dealing F fuel m epoch t xs key share tag hcl hne
    rw [C17_group_joined F fuel m t ht32 epoch epoch' xs hx hne key share tag hcl]
    obtain ⟨x0, xr, rfl⟩ := List.exists_cons_of_ne_nil hne
    have hxs : ((share x0 :: xr.map share).map (·.S.x)) = x0 :: xr := by
      have : ∀ y ∈ x0 :: xr, (share y).S.x = y := fun y hy => by rw [(hsh y hy).1]; rfl
      rw [← List.map_cons (f := share), List.map_map]
      conv_rhs => rw [← List.map_id (x0 :: xr)]
      exact List.map_congr_left fun y hy => this y hy
    obtain ⟨k, hk⟩ := C02.C02_below_threshold_fails F (share x0) (xr.map share) (by
      rw [hxs, (hsh x0 List.mem_cons_self).1]; exact hc)
    unfold shareRecover
    rw [List.map_cons, hk]

/-- two different STROBE operation lists whose final outputs agree on their first `n` bytes: the
event a `n`-byte key collision amounts to (for `n = 32`, the whole digest, this is
`Strobe.Collision`) -/
def TruncatedCollision (F : Perm) (n : Nat) (ops ops' : List Strobe.Op) : Prop :=
  ops ≠ ops' ∧ ((Strobe.runOps F (Strobe.init F) ops).2.getLastD []).take n =
    ((Strobe.runOps F (Strobe.init F) ops').2.getLastD []).take n

theorem C17_encode_injective
    (a b : Bytes) (h : Base64.encode a = Base64.encode b) : a = b := by
  unfold Base64.encode at h
  have := congrArg String.toList h
  rw [String.toList_ofList, String.toList_ofList] at this
  have h2 := hb64 a
  rw [this, hb64 b] at h2
  injection h2 with h2
  exact h2.symm

/-- (R) **A different epoch.** The clients' shares (at least `threshold` distinct) handed to
`group_shares` together with ANY other epoch string: the call returns
the base64 of `k' = derive_ske_key(r₀, epoch')`; if that text equals the key text of ANY client,
then the two key-derivation transcripts — different operation lists — collide on the 16 bytes that
make the key. -/
theorem C17_group_wrong_epoch (F : Perm) (fuel : Nat)
    (m : Bytes) (t : Nat) (ht : 1 ≤ t) (ht32 : t < 2 ^ 32) (epoch epoch' : String)
    (hep : epoch' ≠ epoch)
    (xs : List Nat) (hx : ∀ x ∈ xs, x < Fp.p) (hc : t ≤ xs.toFinset.card)
    (key : Nat → Bytes) (share : Nat → Adss.Share) (tag : Nat → Bytes)
    (hcl : Clients F fuel m epoch t xs key share tag) :
    groupShares F (joined share xs) epoch' = .ok (some (Base64.encode (deriveSkeKey F
      (deriveRandom F (sampleLocalRandomness F m (epochBytes epoch) t) 0) (epochBytes epoch')))) ∧
    ∀ x ∈ xs, Base64.encode (deriveSkeKey F
        (deriveRandom F (sampleLocalRandomness F m (epochBytes epoch) t) 0) (epochBytes epoch')) =
        Base64.encode (key x) →
      TruncatedCollision F Params.starSkeKeyLen
        (skeOps (deriveRandom F (sampleLocalRandomness F m (epochBytes epoch) t) 0) (epochBytes epoch'))
        (skeOps (deriveRandom F (sampleLocalRandomness F m (epochBytes epoch) t) 0) (epochBytes epoch)) := by
  have hne : xs ≠ [] := by intro h; rw [h] at hc; simp at hc; omega
  obtain ⟨d, hd, hsh⟩ := C17_clients_dealing F fuel m epoch t xs key share tag hcl hne
  constructor
  · rw [C17_group_joined F fuel m t ht32 epoch epoch' xs hx hne key share tag hcl]
    have heq : xs.map share = xs.map fun x => (⟨t, Sharks.evaluate d.polys x, d.C, d.D, d.J⟩ : Adss.Share) :=
      List.map_congr_left fun y hy => (hsh y hy).1
    have := Adss.recover_honest F fuel t ht _ _ d hd xs hx hc
    unfold shareRecover
    rw [heq, this]
  · intro x hxs he
    have hk := C17_encode_injective _ _ he
    rw [(hsh x hxs).2] at hk
    refine ⟨fun h => hep (epochBytes_injective _ _ (skeOps_injective _ _ _ _ h).2), ?_⟩
    unfold deriveSkeKey at hk
    rw [strobeDigest_eq_runOps, strobeDigest_eq_runOps] at hk
    exact hk

/-- (R) in particular: no collision on the full 32-byte pre-keys' first half ⇒ the returned key
text differs from every client's -/
theorem C17_group_wrong_epoch_differs (F : Perm) (fuel : Nat)
    (m : Bytes) (t : Nat) (ht : 1 ≤ t) (ht32 : t < 2 ^ 32) (epoch epoch' : String)
    (hep : epoch' ≠ epoch)
    (xs : List Nat) (hx : ∀ x ∈ xs, x < Fp.p) (hc : t ≤ xs.toFinset.card)
    (key : Nat → Bytes) (share : Nat → Adss.Share) (tag : Nat → Bytes)
    (hcl : Clients F fuel m epoch t xs key share tag)
    (hnc : ¬ TruncatedCollision F Params.starSkeKeyLen
        (skeOps (deriveRandom F (sampleLocalRandomness F m (epochBytes epoch) t) 0) (epochBytes epoch'))
        (skeOps (deriveRandom F (sampleLocalRandomness F m (epochBytes epoch) t) 0) (epochBytes epoch))) :
    ∀ x ∈ xs, groupShares F (joined share xs) epoch' ≠ .ok (some (Base64.encode (key x))) := by
  obtain ⟨h1, h2⟩ := C17_group_wrong_epoch F fuel m t ht ht32 epoch epoch' hep xs hx hc key share tag hcl
  intro x hxs he
  rw [h1] at he
  injection he with he; injection he with he
  exact hnc (h2 x hxs he)

/-- (U) **Whatever `group_shares` returns came through the count gate.** For EVERY pair of strings:
if a key text is returned then every newline-separated chunk is base64 of an accepted share, the
collection recovers to a commune `c`, the text is the base64 of `derive_ske_key(c.M, epoch)`, and
the collection holds at least `thr ≥ 1` DISTINCT share points where `thr` is the threshold recorded
in the first share. So a collection — of one measurement or mixed — with fewer distinct points than
that threshold yields nothing. -/
theorem C17_group_some_count_gate (F : Perm) (text epoch k : String)
    (h : groupShares F text epoch = .ok (some k)) :
    ∃ s0 rest c,
      List.Forall₂ (fun chunk s => ∃ bs, Base64.decodeChars chunk = some bs ∧ Adss.Share.fromBytes bs = .ok s)
        (splitNL text.toList) (s0 :: rest) ∧
      Adss.recover F (s0 :: rest) = .ok c ∧
      k = Base64.encode (deriveSkeKey F c.M (epochBytes epoch)) ∧
      1 ≤ s0.thr ∧ s0.thr ≤ ((s0 :: rest).map (·.S.x)).toFinset.card := by
  unfold groupShares at h
  cases hd : decodeChunks (splitNL text.toList) with
  | panic w => rw [hd] at h; cases h
  | err k' => rw [hd] at h; cases h
  | ok o =>
    rw [hd] at h
    cases o with
    | none => cases h
    | some shares =>
      simp only at h
      cases hr : shareRecover F shares with
      | err k' => rw [hr] at h; cases h
      | panic w => rw [hr] at h; cases h
      | ok c =>
        rw [hr] at h
        simp only at h
        injection h with h; injection h with h
        cases shares with
        | nil => unfold shareRecover Adss.recover at hr; cases hr
        | cons s0 rest =>
          obtain ⟨h1, h2⟩ := C02.C02_count_gate F s0 rest c hr
          exact ⟨s0, rest, c, decodeChunks_some _ _ hd, hr, h.symm, h1, h2⟩

/-- (R) **Mixed collections.** Any text whatsoever whose FIRST chunk is the share of a client of
`(measurement, epoch, threshold)` — followed by shares of other measurements, thresholds, epochs,
altered shares, in any number: whatever `group_shares` returns is the key of that first client's
measurement under the given epoch, or the collection exhibits a collision of the ADSS MAC on two
different `(threshold, message, coins)` triples. Together with the count gate above: a collection
in which no measurement reaches its threshold yields nothing, the key of the first share's
measurement (only possible when the foreign points interpolate to its 128-bit sharing key — an
event whose frequency the oracle measures on the implementation), or a MAC collision. -/
theorem C17_group_mixed (F : Perm) (fuel : Nat) (m : Bytes) (t : Nat) (epoch epoch' : String) (x0 : Nat)
    (key0 tag0 : Bytes) (share0 : Adss.Share)
    (hcl : shareWithLocalRandomness F fuel m (epochBytes epoch) t x0 = some (.ok (key0, share0, tag0)))
    (text k : String) (bs0 : Bytes) (chunks : List (List Char))
    (hsplit : splitNL text.toList = chunks) (hne : chunks.head? = some (Base64.encodeChars bs0))
    (hb0 : Base64.decodeChars (Base64.encodeChars bs0) = some bs0)
    (hs0 : Adss.Share.fromBytes bs0 = .ok share0)
    (h : groupShares F text epoch' = .ok (some k)) :
    k = Base64.encode (deriveSkeKey F (deriveRandom F (sampleLocalRandomness F m (epochBytes epoch) t) 0)
      (epochBytes epoch')) ∨
    ∃ c : Adss.Commune, C05.MacCollision F (c.thr, c.M, c.R)
      (t, deriveRandom F (sampleLocalRandomness F m (epochBytes epoch) t) 0,
        deriveRandom F (sampleLocalRandomness F m (epochBytes epoch) t) 1) := by
  obtain ⟨s0, rest, c, hf, hr, hk, _, _⟩ := C17_group_some_count_gate F text epoch' k h
  rw [hsplit] at hf
  cases hf with
  | cons hhead _ =>
    simp only [List.head?_cons, Option.some.injEq] at hne
    obtain ⟨bs, hbs, hfb⟩ := hhead
    rw [hne, hb0] at hbs
    injection hbs with hbs; subst hbs
    rw [hs0] at hfb
    injection hfb with hfb; subst hfb
    obtain ⟨d, hd, hsh, _, _⟩ := swlr_ok F fuel m _ t x0 key0 tag0 share0 hcl
    obtain ⟨hJ, _⟩ := Adss.deal_ok F fuel none t _ _ d hd
    rcases C05.C05_message_or_collision F t _ _ share0 rest (by rw [hsh]) (by rw [hsh]; exact hJ) c hr with hc | hc
    · left; rw [hk, hc]
    · right; exact ⟨c, hc⟩

/-! ### non-vacuity: identity permutation, fuel 8 -/

-- the exact text `create_share` returns for the empty measurement, threshold 1, epoch "", point 1
example : createShare id 8 [] 1 "" 1 = some
    "{\"key\": \"AbhzdmESDCcwMBIpE25LWA==\", \"share\": \"AQAAADAAAAABAAAAAAAAAAAAAAAAAAAAAAAAAAAAAAABuHN2YRIMJzAwEikTbktYAAAAAAAAAAAgAAAAAAAAAAAAAAAAAAAAAAAAAGNvfQUGFAQAAAAAAAAAAAAgAAAAAbhzdmESDCcwMBIpE25LWCE4EQQAAAAAAAAAAAAAAAABuHN2YRIMJzAwEikTbktYQldsAQYUBAAAAAAAAAAAAGwNJxAEAAAAAAAAAAAADQYvBAAAAAAAAAAAAAAAAAAA\", \"tag\": \"AbhzdmESDCcwMBIpE25LWEJXbAEGFAQAAAAAAAAAAAA=\"}" := by
  decide +kernel

/-- the material of the client with share point `x` for measurement `[5]`, epoch "e", threshold 2 -/
def matId (x : Nat) : Bytes × Adss.Share × Bytes :=
  match shareWithLocalRandomness id 8 [5] (epochBytes "e") 2 x with
  | some (.ok r) => r
  | _ => ([], ⟨0, ⟨0, []⟩, [], [], []⟩, [])

-- the hypotheses of `C17_group_ok` / `C17_group_below` are satisfiable (three entries, two distinct)
example : Clients id 8 [5] "e" 2 [3, 4, 3] (fun x => (matId x).1) (fun x => (matId x).2.1) (fun x => (matId x).2.2) := by
  intro x hx
  simp only [List.mem_cons, List.not_mem_nil, or_false] at hx
  rcases hx with rfl | rfl | rfl <;> decide +kernel

-- two distinct shares recover the clients' key; two copies of one share do not; chunking and decoding
-- of the joined text (character level)
example : (match shareWithLocalRandomness id 8 [5] (epochBytes "e") 2 3,
      shareWithLocalRandomness id 8 [5] (epochBytes "e") 2 4 with
    | some (.ok (k, a, _)), some (.ok (_, b, _)) =>
      some (decide (decodeChunks (splitNL (Base64.encodeChars b.toBytes ++ '\n' :: Base64.encodeChars a.toBytes)) =
          .ok (some [b, a])),
        (match shareRecover id [b, a] with | .ok c => decide (deriveSkeKey id c.M (epochBytes "e") = k) | _ => false),
        (match shareRecover id [a, a] with | .err _ => true | _ => false))
    | _, _ => none) = some (true, true, true) := by decide +kernel

-- string level, threshold 1: `group_shares` on a client's `share` field returns its `key` field
example : (match shareWithLocalRandomness id 8 [5] (epochBytes "e") 1 3 with
    | some (.ok (k, a, _)) =>
      some (decide (groupShares id (Base64.encode a.toBytes) "e" = .ok (some (Base64.encode k))))
    | _ => none) = some true := by decide +kernel

-- `split('\n')`: empty input is one empty chunk, a trailing newline yields a trailing empty chunk
example : splitNL [] = [[]] ∧ splitNL "ab\n".toList = [['a', 'b'], []] ∧
    splitNL "a\r\n\nb".toList = [['a', '\r'], [], ['b']] := by decide +kernel
-- undecodable chunks yield `None`, never a panic
example : groupShares id "" "e" = .ok none ∧ groupShares id "AB==\n*" "e" = .ok none ∧
    groupShares id "AAAA" "" = .ok none := by decide +kernel
-- the (R) clause is sharp: under the IDENTITY permutation the epoch does not reach the key bytes,
-- so a truncated collision exists and the "wrong" epoch yields the same key
example : deriveSkeKey id (List.replicate 32 1) (epochBytes "e") =
    deriveSkeKey id (List.replicate 32 1) (epochBytes "f") := by decide +kernel

end StarModel.Props.C17
