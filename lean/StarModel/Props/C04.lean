/-
C04 — Tags and keys are a function of exactly (measurement, epoch, threshold).

(U) determinism and transcript-encoding injectivity, for every permutation `F`;
(R) "different triples give different randomness / tags / keys" reduces to an explicit `Collision`
of STROBE on two different operation lists (random-oracle assumption on STROBE over Keccak-f);
(E) share points of independent clients are pairwise distinct (OS RNG) — measured by the oracle.
-/
import StarModel.Lemmas.Skeleton
import StarModel.Lemmas.Transcript
import StarModel.Lemmas.Star
import StarModel.Props.C01

namespace StarModel.Props.C04
open StarModel StarModel.Star StarModel.Strobe

/-- (U) **Determinism.** With locally derived randomness, everything a client sends or keeps
except the share's evaluation point is a function of `(measurement, epoch, threshold)` only: one
key, one tag and one dealing `d`, whatever associated data is attached and whichever client runs. -/
theorem C04_deterministic (F : Perm) (fuel : Nat) (m e : Bytes) (t : Nat) (x0 : Nat) (k0 tag0 : Bytes)
    (sh0 : Adss.Share) (h0 : shareWithLocalRandomness F fuel m e t x0 = some (.ok (k0, sh0, tag0))) :
    ∃ d : Adss.Dealt,
      (∀ x, shareWithLocalRandomness F fuel m e t x =
        some (.ok (k0, ⟨t, Sharks.evaluate d.polys x, d.C, d.D, d.J⟩, tag0))) ∧
      (∀ x aux, ∃ ct, generate F fuel m e t (sampleLocalRandomness F m e t) aux x =
        some (.ok ⟨ct, ⟨t, Sharks.evaluate d.polys x, d.C, d.D, d.J⟩, tag0⟩)) ∧
      k0 = deriveSkeKey F (deriveRandom F (sampleLocalRandomness F m e t) 0) e ∧
      tag0 = deriveRandom F (sampleLocalRandomness F m e t) 2 := by
  unfold shareWithLocalRandomness at h0
  simp only at h0
  unfold Adss.share at h0
  cases hd : Adss.deal F fuel none t (deriveRandom F (sampleLocalRandomness F m e t) 0)
      (deriveRandom F (sampleLocalRandomness F m e t) 1) with
  | none => rw [hd] at h0; cases h0
  | some o =>
    rw [hd] at h0
    cases o with
    | err k => cases h0
    | panic w => cases h0
    | ok d =>
      simp only at h0
      injection h0 with h0; injection h0 with h0
      injection h0 with hk h0; injection h0 with hs htag
      refine ⟨d, ?_, ?_, hk.symm, htag.symm⟩
      · intro x
        unfold shareWithLocalRandomness Adss.share
        simp only
        rw [hd, hk, htag]
      · intro x aux
        unfold generate Adss.share
        simp only
        rw [hd, htag]
        exact ⟨_, rfl⟩

/-- (U) equal triples ⇒ equal tags and keys AND mutually combinable shares: any `t` clients with
distinct points recover (instance of C01 with local randomness). -/
theorem C04_equal_triples_combine (F : Perm) (fuel : Nat) (m e : Bytes) (t : Nat) (ht : 1 ≤ t)
    (xs : List Nat) (hx : ∀ x ∈ xs, x < Fp.p) (hc : t ≤ xs.toFinset.card)
    (d : Adss.Dealt)
    (hd : Adss.deal F fuel none t (deriveRandom F (sampleLocalRandomness F m e t) 0)
      (deriveRandom F (sampleLocalRandomness F m e t) 1) = some (.ok d)) :
    shareRecover F (xs.map fun x => (⟨t, Sharks.evaluate d.polys x, d.C, d.D, d.J⟩ : Adss.Share)) =
      .ok ⟨t, deriveRandom F (sampleLocalRandomness F m e t) 0, deriveRandom F (sampleLocalRandomness F m e t) 1⟩ :=
  Adss.recover_honest F fuel t ht _ _ d hd xs hx hc

/-- (U) **Transcript injectivity.** The STROBE operation lists that produce the client randomness,
the three derived values (key seed, coins, tag) and the encryption key determine their inputs:
measurement, epoch and threshold are three separately framed operations. -/
theorem C04_transcript_injective :
    (∀ m e m' e' t t', t < 2 ^ 32 → t' < 2 ^ 32 → localOps m e t = localOps m' e' t' → m = m' ∧ e = e' ∧ t = t') ∧
    (∀ rnd rnd' i j, i < 256 → j < 256 → deriveOps rnd i = deriveOps rnd' j → rnd = rnd' ∧ i = j) ∧
    (∀ r r' e e', skeOps r e = skeOps r' e' → r = r' ∧ e = e') :=
  ⟨fun m e m' e' t t' => localOps_injective m e m' e' t t', fun r r' i j => deriveOps_injective r r' i j,
   fun r r' e e' => skeOps_injective r r' e e'⟩

/-- the labels that separate the four uses of `strobe_digest`/encryption are pairwise distinct
(values regenerated from star/src/lib.rs) -/
theorem C04_labels_distinct :
    [Params.starSampleLocalLabel, Params.starDeriveRandomsLabel, Params.starDeriveSkeKeyLabel,
      Params.starEncryptLabel, Params.adssProto, Params.adssEncryptProto].Nodup ∧
    Params.starDeriveCount = 3 := by decide

/-- (R) **Different triples ⇒ different randomness, or a STROBE collision.** -/
theorem C04_distinct_randomness (F : Perm) (m e m' e' : Bytes) (t t' : Nat) (ht : t < 2 ^ 32) (ht' : t' < 2 ^ 32)
    (hne : (m, e, t) ≠ (m', e', t'))
    (heq : sampleLocalRandomness F m e t = sampleLocalRandomness F m' e' t') :
    Collision F (localOps m e t) (localOps m' e' t') := by
  refine ⟨?_, by rw [← sampleLocal_eq_runOps, ← sampleLocal_eq_runOps]; exact heq⟩
  intro h
  obtain ⟨h1, h2, h3⟩ := localOps_injective m e m' e' t t' ht ht' h
  exact hne (by rw [h1, h2, h3])

/-- (R) different randomness ⇒ different key seed / coins / tag, or a collision; and the three
values derived from one randomness are pairwise separated by their index -/
theorem C04_distinct_derived (F : Perm) (rnd rnd' : Bytes) (i j : Nat) (hi : i < 3) (hj : j < 3)
    (hne : (rnd, i) ≠ (rnd', j)) (heq : deriveRandom F rnd i = deriveRandom F rnd' j) :
    Collision F (deriveOps rnd i) (deriveOps rnd' j) := by
  refine ⟨?_, ?_⟩
  · intro h
    obtain ⟨h1, h2⟩ := deriveOps_injective rnd rnd' i j (by omega) (by omega) h
    exact hne (by rw [h1, h2])
  · unfold deriveRandom at heq
    rw [strobeDigest_eq_runOps, strobeDigest_eq_runOps] at heq
    exact heq

/-- (R) different `(r₀, epoch)` ⇒ different 32-byte pre-key, or a collision (the encryption key is
its first 16 bytes) -/
theorem C04_distinct_key (F : Perm) (r r' e e' : Bytes) (hne : (r, e) ≠ (r', e'))
    (heq : strobeDigest F r [e] Params.starDeriveSkeKeyLabel = strobeDigest F r' [e'] Params.starDeriveSkeKeyLabel) :
    Collision F (skeOps r e) (skeOps r' e') := by
  refine ⟨?_, ?_⟩
  · intro h
    obtain ⟨h1, h2⟩ := skeOps_injective r r' e e' h
    exact hne (by rw [h1, h2])
  · rw [strobeDigest_eq_runOps, strobeDigest_eq_runOps] at heq
    exact heq

-- non-vacuity: a boundary-shifted pair (m‖e equal as a concatenation) has different operation lists
example : localOps [1, 2] [3] 5 ≠ localOps [1] [2, 3] 5 := fun h => by
  have := (localOps_injective _ _ _ _ _ _ (by norm_num) (by norm_num) h).1; simp at this
example : localOps [1] [] 2 ≠ localOps [1] [] 3 := fun h => by
  have := (localOps_injective _ _ _ _ _ _ (by norm_num) (by norm_num) h).2.2; omega

end StarModel.Props.C04
