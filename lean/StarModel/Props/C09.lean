/-
C09 — Data from other parties never crashes the receiver.

Every modelled entry point returns `Outcome α = ok | err | panic`, where `panic` is reached
exactly where the Rust code would panic (slice index, `unwrap`/`expect`, `panic!`, checked
arithmetic). The theorems say the `panic` constructor is unreachable for ALL inputs. The model
follows the CURRENT tree, i.e. after the five `fix:` commits listed in known_findings.json (before
them `load_bytes`, `Share::from_bytes`, `recover`, `Client::verify` and `group_shares` did panic);
the malformed correspondence streams run the real functions under `catch_unwind`, so a regression
shows up as `panic` (implementation) vs `err` (model).
-/
import StarModel.Props.C08
import StarModel.Lemmas.Adss
import StarModel.Lemmas.Ppoprf
import StarModel.Props.C15
import StarModel.Props.C17

namespace StarModel.Props.C09
open StarModel StarModel.Ppoprf

/-- (U) the decoders of shares and reports and the chunk helper, for every byte string -/
theorem C09_decoders (bs : Bytes) :
    (∀ w, Adss.loadBytes bs ≠ .panic w) ∧ (∀ w, Adss.Share.fromBytes bs ≠ .panic w) ∧
    (∀ w, Star.Message.fromBytes bs ≠ .panic w) ∧
    (Sharks.shareFromBytes bs = none ∨ ∃ s, Sharks.shareFromBytes bs = some s) :=
  ⟨(C08.C08_decoders_total bs).1, (C08.C08_decoders_total bs).2.1, (C08.C08_decoders_total bs).2.2,
    by cases h : Sharks.shareFromBytes bs with
       | none => exact Or.inl rfl
       | some s => exact Or.inr ⟨s, rfl⟩⟩

/-- (U) share recovery on ARBITRARY shares — any thresholds (0, 2³²−1), shares without
y-coordinates, ragged, duplicated, empty collections — for every permutation `F` -/
theorem C09_recovery (F : Perm) (t : Nat) (sh : List Sharks.Share) (shares : List Adss.Share) (w : String) :
    Sharks.recover t sh ≠ .panic w ∧ Adss.recover F shares ≠ .panic w ∧ Star.shareRecover F shares ≠ .panic w :=
  ⟨Sharks.recover_not_panic t sh w, Adss.recover_not_panic F shares w, Adss.recover_not_panic F shares w⟩

/-- (U) the loaders of public keys and proofs (size guard, then bincode) and the WASM grouping call
(newline-separated base64 shares + epoch): for every byte string / every pair of strings the
outcome is a value or the function's own failure, never a panic -/
theorem C09_loaders_and_wasm (F : Perm) (bs : Bytes) (serializedShares epoch : String) :
    (∀ w, Codec.pkFromBincode bs ≠ .panic w) ∧ (∀ w, Codec.proofFromBincodeFull bs ≠ .panic w) ∧
    (∀ w, Wasm.groupShares F serializedShares epoch ≠ .panic w) := by
  refine ⟨?_, ?_, fun w => C17.C17_group_never_panics F serializedShares epoch w⟩
  · intro w h
    rcases (C15.C15_pk_decode_total bs).1 with ⟨v, hv⟩ | ⟨k, hk⟩
    · rw [hv] at h; cases h
    · rw [hk] at h; cases h
  · intro w h
    rcases C15.C15_proof_total bs with ⟨p, hp⟩ | hp | hp
    · rw [hp] at h; cases h
    · rw [hp] at h; cases h
    · rw [hp] at h; cases h

theorem i2osp2_small (n : Nat) (h : n < 65536) : i2osp2 n = .ok (Bytes.be16 n) := by
  unfold i2osp2; rw [if_pos h]

theorem contextString_small : contextString.length < 65536 := by decide +kernel

variable {G : Type} {ops : GroupOps G}

theorem seedTranscript_ok (b : G) : ∃ st, seedTranscript ops b = .ok st := by
  unfold seedTranscript
  rw [i2osp2_small _ (by decide), i2osp2_small _ contextString_small]
  exact ⟨_, rfl⟩

theorem strobeHash_length (F : Perm) (input : Bytes) (label : String) : (strobeHash F input label).length = 64 := by
  unfold strobeHash StrobeRng.fillBytes
  simp only
  rw [Strobe.prf_length]; rfl

/-- the DLEQ routines on a batch of ONE element never panic -/
theorem computeComposites_single (F : Perm) (key : Option Nat) (b c d : G) :
    ∃ m z, computeComposites ops F key b [c] [d] = .ok (m, z) := by
  unfold computeComposites
  simp only [List.length_singleton, ne_eq, not_true_eq_false, if_false]
  obtain ⟨st, hst⟩ := seedTranscript_ok (ops := ops) b
  rw [hst]
  simp only
  have hct : ∃ tr, compositeTranscript ops (strobeHash F st Params.dleqSeedLabel) 0 c d = .ok tr := by
    unfold compositeTranscript
    rw [strobeHash_length, i2osp2_small _ (by decide), i2osp2_small _ (by decide), i2osp2_small _ (by decide)]
    exact ⟨_, rfl⟩
  obtain ⟨tr, htr⟩ := hct
  simp only [compositesLoop, htr]
  cases key with
  | none => exact ⟨_, _, rfl⟩
  | some k => exact ⟨_, _, rfl⟩

theorem challengeTranscript_ok (pv m z t2 t3 : G) : ∃ tr, challengeTranscript ops pv m z t2 t3 = .ok tr := by
  unfold challengeTranscript
  rw [i2osp2_small _ (by decide)]
  exact ⟨_, rfl⟩

theorem newBatch_single (F : Perm) (key : Nat) (pv c d : G) (r : Nat) :
    ∃ p, newBatch ops F key pv [c] [d] r = .ok p := by
  unfold newBatch
  obtain ⟨m, z, h⟩ := computeComposites_single (ops := ops) F (some key) pv c d
  rw [h]
  simp only [bind_ok]
  obtain ⟨tr, htr⟩ := challengeTranscript_ok (ops := ops) pv m z (ops.smul r ops.base) (ops.smul r m)
  rw [htr]
  exact ⟨_, rfl⟩

theorem verifyBatch_single (F : Perm) (cc s : Nat) (pv c d : G) :
    ∃ b, verifyBatch ops F cc s pv [c] [d] = .ok b := by
  unfold verifyBatch
  obtain ⟨m, z, h⟩ := computeComposites_single (ops := ops) F none pv c d
  rw [h]
  simp only [bind_ok]
  obtain ⟨tr, htr⟩ := challengeTranscript_ok (ops := ops) pv m z
    (ops.add (ops.smul s ops.base) (ops.smul cc pv)) (ops.add (ops.smul s m) (ops.smul cc z))
  rw [htr]
  exact ⟨_, rfl⟩

theorem getCombinedPkValue_not_panic (pk : PublicKey) (md : UInt8) (w : String) :
    getCombinedPkValue ops pk md ≠ .panic w := by
  unfold getCombinedPkValue
  cases pk.get md with
  | none => simp
  | some mdPk =>
    simp only
    cases ops.decompress pk.basePk with
    | none => simp
    | some b =>
      simp only
      cases ops.decompress mdPk <;> simp

theorem getCombinedPkValue_ok_decodes (hdc : ∀ P, ops.decompress (ops.compress P) = some P)
    (pk : PublicKey) (md : UInt8) (pvb : Bytes) (h : getCombinedPkValue ops pk md = .ok pvb) :
    ∃ pv, pointInto ops pvb = .ok pv := by
  unfold getCombinedPkValue at h
  cases hg : pk.get md with
  | none => rw [hg] at h; cases h
  | some mdPk =>
    rw [hg] at h
    simp only at h
    cases hb : ops.decompress pk.basePk with
    | none => rw [hb] at h; cases h
    | some b =>
      rw [hb] at h
      simp only at h
      cases hm : ops.decompress mdPk with
      | none => rw [hm] at h; cases h
      | some m =>
        rw [hm] at h
        injection h with h
        subst h
        unfold pointInto
        rw [hdc]
        exact ⟨_, rfl⟩

/-- (U) **evaluation of a blinded point** (any bytes as the point, any tag, both modes): never a
panic. The only property of the group used: a compressed point decompresses. -/
theorem C09_server_eval (hdc : ∀ P, ops.decompress (ops.compress P) = some P) (F : Perm) (srv : Server)
    (pb : Bytes) (md : UInt8) (v : Bool) (n : Nat) (w : String) :
    Server.eval ops F srv pb md v n ≠ .panic w := by
  unfold Server.eval
  cases ops.decompress pb with
  | none => simp
  | some pt =>
    simp only
    by_cases hr : (srv.publicKey.get md).isNone = true
    · rw [if_pos hr]; simp
    · rw [if_neg hr]
      cases hts : tagScalar F srv.prgKey0 srv.prgKey1 srv.ggm md with
      | err k => simp
      | panic w' =>
        exfalso
        unfold tagScalar ofGgm at hts
        cases h : Ggm.eval (Ggm.strobeG F srv.prgKey0 srv.prgKey1) Params.ggmInpLen srv.ggm [md] <;>
          rw [h] at hts <;> simp at hts
      | ok ts =>
        simp only [bind_ok]
        cases v with
        | false => simp
        | true =>
          simp only [if_true]
          cases hpv : getCombinedPkValue ops srv.publicKey md with
          | err k => simp
          | panic w' => exact absurd hpv (getCombinedPkValue_not_panic _ _ _)
          | ok pvb =>
            simp only [bind_ok]
            obtain ⟨pv, hpi⟩ := getCombinedPkValue_ok_decodes hdc _ _ _ hpv
            rw [hpi]
            simp only [bind_ok]
            obtain ⟨p, hp⟩ := newBatch_single (ops := ops) F (Scalar25519.add srv.oprfKey ts) pv
              (ops.smul (Scalar25519.invert (Scalar25519.add srv.oprfKey ts)) pt) pt n
            rw [hp]
            simp

/-- (U) **verification of an evaluation proof**: any public key bytes (points undecodable in any
position), any input/output point bytes, proof present or missing, any tag — the result is
`true` or `false`, never a panic. -/
theorem C09_client_verify (hdc : ∀ P, ops.decompress (ops.compress P) = some P) (F : Perm) (pk : PublicKey)
    (inp : Bytes) (ev : Bytes × Option (Nat × Nat)) (md : UInt8) :
    ∃ b, Client.verify ops F pk inp ev md = .ok b := by
  unfold Client.verify
  cases hpv : getCombinedPkValue ops pk md with
  | err k => exact ⟨false, rfl⟩
  | panic w => exact absurd hpv (getCombinedPkValue_not_panic _ _ _)
  | ok pvb =>
    simp only
    obtain ⟨pv, hpi⟩ := getCombinedPkValue_ok_decodes hdc _ _ _ hpv
    cases ev.2 with
    | none => exact ⟨false, rfl⟩
    | some cs =>
      obtain ⟨c, s⟩ := cs
      cases ops.decompress ev.1 with
      | none => exact ⟨false, rfl⟩
      | some out =>
        cases ops.decompress inp with
        | none => exact ⟨false, rfl⟩
        | some i =>
          simp only
          rw [hpi]
          simp only
          exact verifyBatch_single (ops := ops) F c s pv out i

end StarModel.Props.C09
