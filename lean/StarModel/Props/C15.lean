/-
C15 — The serialisation layer of `ppoprf` (bincode of `ServerPublicKey` and `ProofDLEQ` behind the
size guards of `load_from_bincode`, the base64 adapters, the `serde_json` text of `Point` and
`Evaluation`) round-trips, accepts exactly the well-formed encodings and never panics.

`StarModel.Codec` mirrors what bincode 1.3.3, serde's derived visitors, serde_json 1.0.151,
base64 0.22.1 and curve25519-dalek's serde impls do on these types (validated byte for byte by the
`codec` correspondence stream); the theorems below hold for ALL inputs of the model:

* base64: decoding inverts encoding and accepts only the canonical encoding;
* public key: every well-formed key (sorted distinct tags, 32-byte points, 0..256 tags) encodes to
  `40 + 33·n ≤ 8488 ≤ MAX_SERIALIZED_PK_SIZE` bytes and loads back to itself; longer inputs are
  refused with `TooBig`; loading is total (ok or err, never a panic) and an accepted input is
  `base ‖ u64 n ‖ n entries ‖ ignored tail` with the entries inserted one by one into a sorted map
  (so the value re-encodes to the consumed prefix exactly when the tags were strictly increasing);
* proof: accepted iff exactly 64 bytes whose two halves are canonical scalars;
* JSON: the reader inverts the emitters for `Point` and for `Evaluation` (proof present / absent),
  and whatever text it accepts yields a 32-byte point and canonical scalars.
* key state (feature `key-sync`): the exported state imports back to itself (partial: bit vectors
  of at most 64 bits stored from bit 0, which is all the GGM code produces).
What the stream alone validates: that the emitters are `serde_json::to_string`, and the reader's
behaviour on non-canonical text (whitespace, field order, unknown / duplicate / missing fields,
array form, escapes, malformed numbers) — see `harness/src/s_codec.rs`.
-/
import StarModel.Lemmas.Codec

namespace StarModel.Props.C15
open StarModel StarModel.Codec

/-! ### base64 (`BASE64_STANDARD`) -/

/-- **Round trip**, every byte string. -/
theorem C15_base64_roundtrip (bs : Bytes) : Base64.decodeChars (Base64.encodeChars bs) = some bs :=
  Base64.decodeChars_encodeChars bs

/-- **Canonical decoding**: the only text that decodes to `bs` is `encode bs` (padding required,
no symbols outside the alphabet, no whitespace, zero trailing bits). -/
theorem C15_base64_decode_canonical (cs : List Char) (bs : Bytes) :
    Base64.decodeChars cs = some bs → Base64.encodeChars bs = cs :=
  Base64.encodeChars_of_decodeChars cs bs

/-- accepted ⇔ canonical -/
theorem C15_base64_accept_iff (cs : List Char) (bs : Bytes) :
    Base64.decodeChars cs = some bs ↔ cs = Base64.encodeChars bs :=
  ⟨fun h => (C15_base64_decode_canonical cs bs h).symm, fun h => h ▸ C15_base64_roundtrip bs⟩

/-- the `String`-level functions -/
theorem C15_base64_string_roundtrip (bs : Bytes) : Base64.decode (Base64.encode bs) = some bs := by
  simp [Base64.decode, Base64.encode, C15_base64_roundtrip]

/-! ### `ServerPublicKey` -/

/-- the values a `ServerPublicKey` can hold: a 32-byte base point and a `BTreeMap<u8, Point>`,
i.e. strictly increasing tags with 32-byte points -/
def PkWellFormed (pk : Ppoprf.PublicKey) : Prop :=
  pk.basePk.length = 32 ∧ StrictTags pk.mdPks ∧ ∀ e ∈ pk.mdPks, e.2.length = 32

/-- **Size bound**: a well-formed key has at most 256 tags and encodes to `40 + 33·n ≤ 8488`
bytes, below the limit of `load_from_bincode` (`Params.maxSerializedPkSize`, read from the
source). -/
theorem C15_pk_size_bound (pk : Ppoprf.PublicKey) (h : PkWellFormed pk) :
    pk.mdPks.length ≤ 256 ∧ pk.toBincode.length = 40 + 33 * pk.mdPks.length ∧
      pk.toBincode.length ≤ 8488 ∧ 8488 ≤ Params.maxSerializedPkSize := by
  obtain ⟨h1, h2, h3⟩ := h
  have hn := strictTags_length _ h2
  have hl : pk.toBincode.length = 40 + 33 * pk.mdPks.length := pkLayout_length _ _ h1 h3
  refine ⟨hn, hl, by omega, by decide⟩

/-- **Round trip**: every well-formed key, of any size 0..256, loads back to itself. -/
theorem C15_pk_roundtrip (pk : Ppoprf.PublicKey) (h : PkWellFormed pk) :
    pkFromBincode pk.toBincode = .ok pk := by
  obtain ⟨hn, _, hle, hmax⟩ := C15_pk_size_bound pk h
  obtain ⟨h1, h2, h3⟩ := h
  unfold pkFromBincode
  rw [if_neg (by omega)]
  have := pkDecode_layout pk.basePk pk.mdPks [] h1 h3 (by omega)
  rw [List.append_nil] at this
  rw [show pk.toBincode = pkLayout pk.basePk pk.mdPks from rfl, this, insertAll_sorted _ h2]

/-- **Size guard**: anything longer than the limit is refused before decoding. -/
theorem C15_pk_size_guard (bs : Bytes) (h : bs.length > Params.maxSerializedPkSize) :
    pkFromBincode bs = .err "TooBig" := by
  unfold pkFromBincode; rw [if_pos h]

/-- **Accept ⇔ well-formed**, every byte string: within the size limit and of the shape
`base(32) ‖ u64 n ‖ n × (tag, point(32)) ‖ tail`; the value is the base point with the entries
inserted in sequence into a sorted map (later duplicates replace earlier ones). -/
theorem C15_pk_accept_iff (bs : Bytes) (v : Ppoprf.PublicKey) :
    pkFromBincode bs = .ok v ↔
      bs.length ≤ Params.maxSerializedPkSize ∧
      ∃ es tail, bs = pkLayout v.basePk es ++ tail ∧ v.basePk.length = 32 ∧
        (∀ e ∈ es, e.2.length = 32) ∧ v.mdPks = insertAll es := by
  constructor
  · intro h
    unfold pkFromBincode at h
    split at h
    · cases h
    · rename_i hl
      split at h
      · rename_i pk hd
        injection h with h; subst h
        obtain ⟨es, rest, h1, h2, h3, _, h5⟩ := pkDecode_some bs pk hd
        exact ⟨by omega, es, rest, h1, h2, h3, h5⟩
      · cases h
  · rintro ⟨hl, es, tail, h1, h2, h3, h4⟩
    unfold pkFromBincode
    rw [if_neg (by omega)]
    have hn : es.length < 2 ^ 64 := by
      have hlen := congrArg List.length h1
      rw [List.length_append, pkLayout_length _ _ h2 h3] at hlen
      have : Params.maxSerializedPkSize = 16384 := rfl
      omega
    rw [h1, pkDecode_layout v.basePk es tail h2 h3 hn]
    obtain ⟨b, m⟩ := v
    simp only at h4
    rw [h4]

/-- **Totality and determinacy**: loading yields a value or an error, never a panic; an accepted
value is a well-formed key determined by the consumed prefix `base ‖ n ‖ entries` of the input
(the tail is ignored), and it re-encodes to exactly that prefix when the tags of the input were
strictly increasing (otherwise to the sorted, de-duplicated map). -/
theorem C15_pk_decode_total (bs : Bytes) :
    ((∃ v, pkFromBincode bs = .ok v) ∨ (∃ k, pkFromBincode bs = .err k)) ∧
    ∀ v, pkFromBincode bs = .ok v →
      PkWellFormed v ∧
      ∃ es tail, bs = pkLayout v.basePk es ++ tail ∧ v.mdPks = insertAll es ∧
        (StrictTags es → v.toBincode = pkLayout v.basePk es ∧
          v.toBincode = bs.take (40 + 33 * es.length)) := by
  constructor
  · unfold pkFromBincode
    split
    · exact Or.inr ⟨_, rfl⟩
    · split
      · exact Or.inl ⟨_, rfl⟩
      · exact Or.inr ⟨_, rfl⟩
  · intro v h
    obtain ⟨_, es, tail, h1, h2, h3, h4⟩ := (C15_pk_accept_iff bs v).mp h
    have hmem : ∀ e ∈ insertAll es, e.2.length = 32 := by
      intro e he
      exact insertAll_mem es (fun p => p.length = 32) h3 e he
    refine ⟨⟨h2, h4 ▸ insertAll_strict es, h4 ▸ hmem⟩, es, tail, h1, h4, ?_⟩
    intro hs
    have e1 : v.toBincode = pkLayout v.basePk es := by
      rw [show v.toBincode = pkLayout v.basePk v.mdPks from rfl, h4, insertAll_sorted es hs]
    refine ⟨e1, ?_⟩
    rw [e1, h1, ← pkLayout_length v.basePk es h2 h3, List.take_left']
    rfl

/-! ### `ProofDLEQ` -/

/-- **Round trip**: canonical scalars. -/
theorem C15_proof_roundtrip (c s : Nat) (hc : c < Scalar25519.ell) (hs : s < Scalar25519.ell) :
    proofFromBincodeFull (Ppoprf.proofToBincode c s) = .ok (c, s) := by
  unfold proofFromBincodeFull
  rw [if_neg (by rw [proofToBincode_length]; decide)]
  have := proofDecode_encode c s hc hs []
  rw [List.append_nil] at this
  rw [this]

/-- **Size guard** -/
theorem C15_proof_size_guard (bs : Bytes) (h : bs.length > Params.maxSerializedProofSize) :
    proofFromBincodeFull bs = .err "TooBig" := by
  unfold proofFromBincodeFull; rw [if_pos h]

/-- **Accept ⇔ well-formed**, every byte string: exactly 64 bytes, the canonical encodings of two
scalars below `ℓ`. -/
theorem C15_proof_accept_iff (bs : Bytes) (c s : Nat) :
    proofFromBincodeFull bs = .ok (c, s) ↔
      bs.length = 64 ∧ c < Scalar25519.ell ∧ s < Scalar25519.ell ∧ bs = Ppoprf.proofToBincode c s := by
  have hmax : Params.maxSerializedProofSize = 64 := rfl
  constructor
  · intro h
    unfold proofFromBincodeFull at h
    split at h
    · cases h
    · rename_i hl
      split at h
      · rename_i p hd
        injection h with h; subst h
        obtain ⟨h1, h2, h3, h4, _, _⟩ := proofDecode_some bs c s hd
        have hlen : bs.length = 64 := by omega
        refine ⟨hlen, h2, h3, ?_⟩
        rw [← h4, List.take_of_length_le (by omega)]
      · cases h
  · rintro ⟨_, hc, hs, rfl⟩
    exact C15_proof_roundtrip c s hc hs

/-- the same, in terms of the input alone: accepted iff 64 bytes whose halves are below `ℓ`;
shorter inputs and non-canonical scalars are `Bincode` errors, longer ones `TooBig`; never a
panic -/
theorem C15_proof_accept_iff_bytes (bs : Bytes) :
    (∃ p, proofFromBincodeFull bs = .ok p) ↔
      bs.length = 64 ∧ Bytes.toNatLE (bs.take 32) < Scalar25519.ell ∧
        Bytes.toNatLE (bs.drop 32) < Scalar25519.ell := by
  constructor
  · rintro ⟨⟨c, s⟩, h⟩
    have hmax : Params.maxSerializedProofSize = 64 := rfl
    unfold proofFromBincodeFull at h
    split at h
    · cases h
    · rename_i hl
      split at h
      · rename_i p hd
        injection h with h; subst h
        obtain ⟨h1, h2, h3, _, h5, h6⟩ := proofDecode_some bs c s hd
        have hlen : bs.length = 64 := by omega
        refine ⟨hlen, h5 ▸ h2, ?_⟩
        rw [List.take_of_length_le (by simp; omega)] at h6
        exact h6 ▸ h3
      · cases h
  · rintro ⟨hl, hc, hs⟩
    refine ⟨(Bytes.toNatLE (bs.take 32), Bytes.toNatLE (bs.drop 32)), ?_⟩
    rw [C15_proof_accept_iff]
    refine ⟨hl, hc, hs, ?_⟩
    have h1 : (bs.take 32).length = 32 := by simp; omega
    have h2 : (bs.drop 32).length = 32 := by simp; omega
    rw [Ppoprf.proofToBincode, Scalar25519.toBytes, Scalar25519.toBytes]
    have e1 := Bytes.ofNatLE_toNatLE (bs.take 32)
    have e2 := Bytes.ofNatLE_toNatLE (bs.drop 32)
    rw [h1] at e1; rw [h2] at e2
    rw [e1, e2, List.take_append_drop]

theorem C15_proof_total (bs : Bytes) :
    (∃ p, proofFromBincodeFull bs = .ok p) ∨ proofFromBincodeFull bs = .err "TooBig" ∨
      proofFromBincodeFull bs = .err "Bincode" := by
  unfold proofFromBincodeFull
  split
  · exact Or.inr (Or.inl rfl)
  · split
    · exact Or.inl ⟨_, rfl⟩
    · exact Or.inr (Or.inr rfl)

/-- the guarded loader agrees with `Ppoprf.proofFromBincode` (the decoder the C13 theorems use) -/
theorem C15_proof_agrees (bs : Bytes) (p : Nat × Nat) :
    proofFromBincodeFull bs = .ok p ↔ Ppoprf.proofFromBincode bs = some p := by
  obtain ⟨c, s⟩ := p
  rw [C15_proof_accept_iff]
  have hmax : Params.maxSerializedProofSize = 64 := rfl
  constructor
  · rintro ⟨hl, hc, hs, rfl⟩
    unfold Ppoprf.proofFromBincode
    rw [if_neg (by rw [hmax]; simp [hl])]
    have h1 : (Ppoprf.proofToBincode c s).take 32 = Scalar25519.toBytes c := by
      rw [Ppoprf.proofToBincode, List.take_left' (toBytes_length c)]
    have h2 : (Ppoprf.proofToBincode c s).drop 32 = Scalar25519.toBytes s := by
      rw [Ppoprf.proofToBincode, List.drop_left' (toBytes_length c)]
    rw [h1, h2, fromCanonicalBytes_toBytes c hc, fromCanonicalBytes_toBytes s hs]
  · intro h
    unfold Ppoprf.proofFromBincode at h
    split at h
    · cases h
    · rename_i hl
      have hl : bs.length = 64 := by rw [hmax] at hl; simpa using hl
      split at h
      · rename_i c' s' h1 h2
        injection h with h
        injection h with e1 e2
        subst e1; subst e2
        obtain ⟨_, a2, _, a4⟩ := fromCanonicalBytes_some _ _ h1
        obtain ⟨_, b2, _, b4⟩ := fromCanonicalBytes_some _ _ h2
        refine ⟨hl, a2, b2, ?_⟩
        rw [Ppoprf.proofToBincode, a4, b4, List.take_append_drop]
      · cases h

/-! ### JSON (`serde_json`) -/

/-- **Round trip, `Point`**: `from_str(to_string(p)) = p` for every 32-byte value. -/
theorem C15_point_json_roundtrip (pt : Bytes) (h : pt.length = 32) :
    pointFromJsonChars (pointToJsonChars pt) = some pt :=
  pointFromJson_emit pt h

/-- **Round trip, `Evaluation`**, proof absent or present (canonical scalars). -/
theorem C15_evaluation_json_roundtrip (out : Bytes) (proof : Option (Nat × Nat)) (ho : out.length = 32)
    (hp : ProofValid proof) :
    evaluationFromJsonChars (evaluationToJsonChars out proof) = some (out, proof) :=
  evaluationFromJson_emit out proof ho hp

/-- the two instances spelled out -/
theorem C15_evaluation_json_roundtrip_cases (out : Bytes) (ho : out.length = 32) :
    evaluationFromJsonChars (evaluationToJsonChars out none) = some (out, none) ∧
    ∀ c s, c < Scalar25519.ell → s < Scalar25519.ell →
      evaluationFromJsonChars (evaluationToJsonChars out (some (c, s))) = some (out, some (c, s)) :=
  ⟨C15_evaluation_json_roundtrip out none ho trivial,
   fun c s hc hs => C15_evaluation_json_roundtrip out (some (c, s)) ho ⟨hc, hs⟩⟩

/-- the `String`-level functions the driver answers with -/
theorem C15_json_string_roundtrip (out : Bytes) (proof : Option (Nat × Nat)) (ho : out.length = 32)
    (hp : ProofValid proof) :
    pointFromJson (pointToJson out) = some out ∧
    evaluationFromJson (evaluationToJson out proof) = some (out, proof) := by
  simp [pointFromJson, pointToJson, evaluationFromJson, evaluationToJson,
    C15_point_json_roundtrip out ho, C15_evaluation_json_roundtrip out proof ho hp]

/-- **Accepted ⇒ well-formed**, every text: whatever `from_str` accepts is a 32-byte point,
resp. a 32-byte output with canonical proof scalars — so it is a value the emitters round-trip:
re-serialising an accepted text and reading it again gives the same value (the canonical form the
stream compares). -/
theorem C15_json_accept_wellformed (cs : List Char) :
    (∀ pt, pointFromJsonChars cs = some pt →
      pt.length = 32 ∧ pointFromJsonChars (pointToJsonChars pt) = some pt) ∧
    (∀ out proof, evaluationFromJsonChars cs = some (out, proof) →
      out.length = 32 ∧ ProofValid proof ∧
      evaluationFromJsonChars (evaluationToJsonChars out proof) = some (out, proof)) := by
  constructor
  · intro pt h
    obtain ⟨r, hr⟩ := atEnd_some _ _ h
    have hl := parseByteArray_length 32 (by decide) _ _ _ hr
    exact ⟨hl, C15_point_json_roundtrip pt hl⟩
  · intro out proof h
    obtain ⟨r, hr⟩ := atEnd_some _ _ h
    obtain ⟨h1, h2⟩ := parseEvaluation_valid _ _ _ _ hr
    exact ⟨h1, h2, C15_evaluation_json_roundtrip out proof h1 h2⟩

/-! ### key state (`ServerKeyStateRef` / `ServerKeyState`, feature `key-sync`) -/

/-- **Round trip of the exported key state** (partial: bit strings of at most 64 bits stored from
bit 0 of their buffer, which is all `ggm.rs` produces — its tree has depth 8; what the importer
does with other head indices, spare elements and dead bits is validated by the stream only):
`bincode::deserialize::<ServerKeyState>(bincode::serialize(&server.get_private_key()))` restores
the OPRF key, the public key, the PRG keys, every retained node and the punctured list; trailing
bytes are ignored. -/
theorem C15_keystate_roundtrip_partial (ks : KeyState) (h : KeyStateValid ks) (tail : Bytes) :
    keyStateFromBincode (keyStateToBincode ks ++ tail) = some ks :=
  keyStateFromBincode_emit ks h tail

/-- the transport format of one `BitVec<usize, Lsb0>` of at most 64 bits -/
theorem C15_bitvec_roundtrip_partial (bits : Ggm.Bits) (h : bits.length ≤ 64) (tail : Bytes) :
    rdBitVec (bitvecToBincode bits ++ tail) = some (bits, tail) :=
  rdBitVec_emit bits h tail

/-! ### non-vacuity -/

/-- a two-tag key and its 106-byte encoding -/
def exPk : Ppoprf.PublicKey :=
  ⟨List.replicate 32 7, [(3, List.replicate 32 1), (200, List.replicate 32 2)]⟩

example : PkWellFormed exPk := by
  refine ⟨by decide, ?_, by decide⟩
  show List.Pairwise _ _
  decide
example : exPk.toBincode.length = 106 := by decide
example : pkFromBincode exPk.toBincode = .ok exPk := by decide
-- trailing bytes are ignored, truncations are refused
example : pkFromBincode (exPk.toBincode ++ [9, 9, 9]) = .ok exPk := by decide
example : pkFromBincode (exPk.toBincode.take 105) = .err "Bincode" := by decide
example : pkFromBincode [] = .err "Bincode" := by decide
-- unsorted input with a duplicate tag: the later entry wins and the map is sorted
set_option maxRecDepth 4096 in
example : pkFromBincode (pkLayout (List.replicate 32 7)
    [(200, List.replicate 32 5), (3, List.replicate 32 1), (200, List.replicate 32 2)]) = .ok exPk := by decide
-- a length prefix of 2^64 - 1 with no entries
example : pkFromBincode (List.replicate 32 0 ++ List.replicate 8 255) = .err "Bincode" := by rfl
-- the empty key
example : pkFromBincode (List.replicate 40 0) = .ok ⟨List.replicate 32 0, []⟩ := by decide
example : proofFromBincodeFull (Ppoprf.proofToBincode 5 7) = .ok (5, 7) := by decide
example : proofFromBincodeFull (List.replicate 64 255) = .err "Bincode" := by decide
example : proofFromBincodeFull (List.replicate 63 0) = .err "Bincode" := by decide
example : proofFromBincodeFull (List.replicate 65 0) = .err "TooBig" := by decide
example : Base64.encodeChars [0, 255, 16] = "AP8Q".toList := by decide
example : Base64.decodeChars "AP8=".toList = some [0, 255] := by decide
example : Base64.decodeChars "AP9=".toList = none := by decide
example : Base64.decodeChars "AP8".toList = none := by decide
example : pointFromJsonChars (pointToJsonChars (List.replicate 32 200)) = some (List.replicate 32 200) := by decide
example : evaluationToJsonChars (List.replicate 32 0) none =
    "{\"output\":\"AAAAAAAAAAAAAAAAAAAAAAAAAAAAAAAAAAAAAAAAAAA=\",\"proof\":null}".toList := by decide
-- field order, whitespace, an unknown field and a missing `proof` are accepted
example : evaluationFromJsonChars
    " { \"x\" : [1, {\"y\":\"\\n\"}] ,\"output\":\"AAAAAAAAAAAAAAAAAAAAAAAAAAAAAAAAAAAAAAAAAAA=\"}\n".toList =
    some (List.replicate 32 0, none) := by decide
-- duplicate field, trailing characters, escaped value
example : evaluationFromJsonChars
    "{\"proof\":null,\"proof\":null,\"output\":\"AAAAAAAAAAAAAAAAAAAAAAAAAAAAAAAAAAAAAAAAAAA=\"}".toList = none := by decide
example : evaluationFromJsonChars
    "{\"output\":\"AAAAAAAAAAAAAAAAAAAAAAAAAAAAAAAAAAAAAAAAAAA=\"}x".toList = none := by decide
example : evaluationFromJsonChars
    "{\"output\":\"\\u0041AAAAAAAAAAAAAAAAAAAAAAAAAAAAAAAAAAAAAAAAAA=\"}".toList = none := by decide

-- a bit vector `101` stored from bit 0: 19-byte name, width 64, head 0, 3 bits, one element 5
example : bitvecToBincode [true, false, true] =
    Bytes.le64 19 ++ orderName ++ [64, 0] ++ Bytes.le64 3 ++ Bytes.le64 1 ++ Bytes.le64 5 := by decide
-- the same bits transported with head index 2 inside a 2-element buffer with dead bits set
example : rdBitVec (Bytes.le64 19 ++ orderName ++ [64, 2] ++ Bytes.le64 3 ++ Bytes.le64 2
    ++ Bytes.le64 (5 * 4 + 3 + 32) ++ Bytes.le64 77) = some ([true, false, true], []) := by decide
example : rdBitVec (Bytes.le64 19 ++ orderName ++ [32, 0] ++ Bytes.le64 0 ++ Bytes.le64 0) = none := by decide

end StarModel.Props.C15

