/-
C18 — The reference aggregation server outputs exactly the measurements reported by ≥ threshold
clients, each once, with exactly the associated data those clients attached, independent of the
order of the reports and of the number of worker threads.

Clause kinds. (U): the characterisation of `retrieve_outputs` on every multiset of honest reports,
for every permutation `F`; invariance under reordering. (W): a client attaching EMPTY associated
data is reported as having attached none — the recorded deviation from "exactly the data those
clients attached" (known finding `empty_aux_reported_as_none`); every statement below is exact
about it through `normAux`.

The model has no threads: `retrieve_outputs` is `into_par_iter().map().map().collect()`, an
order-preserving map of a pure function over the buckets, so its value is a function of the input
list alone; the only scheduling-like freedom in the Rust code is the iteration order of the
`HashMap` of buckets, which the theorems quantify away by stating the output up to permutation.
The `agg` correspondence stream and the C18 oracle run the real server in pools of 1..16 threads.
-/
import StarModel.Lemmas.Skeleton
import StarModel.Lemmas.Agg
import StarModel.Props.C01
import Mathlib.Data.Multiset.Basic

namespace StarModel.Props.C18
open StarModel StarModel.Star StarModel.Agg

/-- a client: its measurement, its associated data (or absence) and the share point its OS RNG drew -/
structure Client where
  m : Bytes
  aux : Option Bytes
  x : Nat
  deriving DecidableEq

/-- the tag all clients of measurement `m` send -/
def tagOf (F : Perm) (epoch : String) (t : Nat) (m : Bytes) : Bytes :=
  deriveRandom F (sampleLocalRandomness F m (Bytes.ofString epoch) t) 2

/-- the clients that reported `m`, in arrival order -/
def group (clients : List Client) (m : Bytes) : List Client := clients.filter fun c => c.m = m

/-- the specified output, in order of first appearance of the measurements: every measurement
reported by at least `t` clients, once, with the (normalised) associated data of exactly its
clients in arrival order -/
def expected (t : Nat) (clients : List Client) : List (Bytes × List (Option Bytes)) :=
  ((firstKeys (clients.map (·.m))).filter fun m => t ≤ (group clients m).length).map fun m =>
    (m, (group clients m).map fun c => normAux c.aux)

/-- honest reports of one epoch and threshold: `rep c` is the report client `c` generates with
locally derived randomness; (H1) share points within one measurement group are pairwise distinct
(OS RNG; measured by the C04 oracle); (H2) the tag map is injective on the measurements present
(else: a STROBE collision, `C04_distinct_randomness` / `C04_distinct_derived`); (H3) sizes fit
the `u32` length prefixes and share points are canonical field elements -/
structure Honest (F : Perm) (fuel : Nat) (epoch : String) (t : Nat) (clients : List Client)
    (rep : Client → Message) : Prop where
  gen : ∀ c ∈ clients, generate F fuel c.m (Bytes.ofString epoch) t
    (sampleLocalRandomness F c.m (Bytes.ofString epoch) t) c.aux c.x = some (.ok (rep c))
  distinct : ∀ m, ((group clients m).map (·.x)).Nodup
  tagInj : ∀ c ∈ clients, ∀ c' ∈ clients, tagOf F epoch t c.m = tagOf F epoch t c'.m → c.m = c'.m
  sizes : ∀ c ∈ clients, c.m.length < 2 ^ 32 ∧ (∀ a, c.aux = some a → a.length < 2 ^ 32) ∧ c.x < Fp.p

theorem C18_mem_group {clients : List Client} {m : Bytes} {c : Client} :
    c ∈ group clients m ↔ c ∈ clients ∧ c.m = m := by
  unfold group; simp

/-- one bucket: all reports of a measurement with at least `t` clients -/
theorem C18_bucket (F : Perm) (fuel : Nat) (epoch : String) (t : Nat) (ht : 1 ≤ t)
    (clients : List Client) (rep : Client → Message) (h : Honest F fuel epoch t clients rep)
    (m : Bytes) (hlen : t ≤ (group clients m).length) :
    recoverMeasurements F epoch ((group clients m).map rep) =
      .ok (m, (group clients m).map fun c => normAux c.aux) := by
  let cl : List C01.Client := (group clients m).map fun c => (c.aux, c.x)
  let rep' : C01.Client → Message := fun p => rep ⟨m, p.1, p.2⟩
  have hrep : ∀ c ∈ group clients m, rep' (c.aux, c.x) = rep c := by
    intro c hc
    have hm := (C18_mem_group.mp hc).2
    show rep ⟨m, c.aux, c.x⟩ = rep c
    rw [← hm]
  have hmem : ∀ p ∈ cl, ∃ c ∈ group clients m, p = (c.aux, c.x) := by
    intro p hp
    obtain ⟨c, hc, rfl⟩ := List.mem_map.mp hp
    exact ⟨c, hc, rfl⟩
  have hC01 := C01.C01_recover_and_decrypt F fuel m (Bytes.ofString epoch) t ht
    (sampleLocalRandomness F m (Bytes.ofString epoch) t) cl rep'
    (by
      intro p hp
      obtain ⟨c, hc, rfl⟩ := hmem p hp
      obtain ⟨hcc, hcm⟩ := C18_mem_group.mp hc
      rw [hrep c hc]
      have := h.gen c hcc
      rw [hcm] at this
      exact this)
    (by
      intro p hp
      obtain ⟨c, hc, rfl⟩ := hmem p hp
      exact (h.sizes c (C18_mem_group.mp hc).1).2.2)
    (by
      obtain ⟨c0, hc0⟩ : ∃ c0, c0 ∈ group clients m := by
        cases hg : group clients m with
        | nil => rw [hg] at hlen; simp at hlen; omega
        | cons c0 _ => exact ⟨c0, List.mem_cons_self⟩
      obtain ⟨hcc, hcm⟩ := C18_mem_group.mp hc0
      rw [← hcm]; exact (h.sizes c0 hcc).1)
    (by
      intro p hp a ha
      obtain ⟨c, hc, rfl⟩ := hmem p hp
      exact (h.sizes c (C18_mem_group.mp hc).1).2.1 a ha)
    cl (fun _ hc => hc)
    (by
      have : cl.map (·.2) = (group clients m).map (·.x) := by
        simp only [cl, List.map_map]; rfl
      rw [this, List.toFinset_card_of_nodup (h.distinct m), List.length_map]
      exact hlen)
  obtain ⟨hrec, hdec⟩ := hC01
  have hshares : ((group clients m).map rep).map (·.share) = cl.map fun c => (rep' c).share := by
    simp only [cl, List.map_map]
    apply List.map_congr_left
    intro c hc
    simp only [Function.comp]
    rw [hrep c hc]
  unfold recoverMeasurements keyRecover
  rw [hshares, hrec]
  simp only
  rw [List.map_map, mapOutcome_map_map_ok splitPayload _ (fun c : Client => (m, normAux c.aux))]
  · simp only
    cases hg : group clients m with
    | nil => rw [hg] at hlen; simp at hlen; omega
    | cons c0 rest =>
      simp only [List.map_cons, List.map_map]
      rw [if_pos]
      · rfl
      · simp
  · intro c hc
    simp only [Function.comp]
    have := hdec (c.aux, c.x) (List.mem_map_of_mem (f := fun c : Client => (c.aux, c.x)) hc)
    rw [hrep c hc] at this
    exact splitPayload_of_parse _ _ _ this

/-- the buckets `collect_messages` builds from honest reports: one per measurement, in order of
first appearance, holding exactly that measurement's reports in arrival order -/
theorem C18_collect_honest (F : Perm) (fuel : Nat) (epoch : String) (t : Nat)
    (clients : List Client) (rep : Client → Message) (h : Honest F fuel epoch t clients rep) :
    collectMessages (clients.map rep) =
      (firstKeys (clients.map (·.m))).map fun m => (group clients m).map rep := by
  have htag : ∀ c ∈ clients, (rep c).tag = tagOf F epoch t c.m := by
    intro c hc
    obtain ⟨_, _, _, ht, _⟩ := generate_ok F fuel _ _ t _ _ _ _ (h.gen c hc)
    exact ht
  unfold collectMessages
  rw [collectBy_spec, List.map_map]
  have htags : (clients.map rep).map (·.tag) = (clients.map (·.m)).map (tagOf F epoch t) := by
    rw [List.map_map, List.map_map]
    exact List.map_congr_left fun c hc => htag c hc
  rw [htags, firstKeys_map_injOn (tagOf F epoch t) (clients.map (·.m)) (by
    intro a ha b hb hab
    obtain ⟨c, hc, rfl⟩ := List.mem_map.mp ha
    obtain ⟨c', hc', rfl⟩ := List.mem_map.mp hb
    exact h.tagInj c hc c' hc' hab), List.map_map]
  apply List.map_congr_left
  intro m hm
  simp only [Function.comp]
  rw [List.filter_map]
  congr 1
  unfold group
  apply List.filter_congr
  intro c hc
  simp only [Function.comp, decide_eq_decide]
  rw [htag c hc]
  obtain ⟨c', hc', hm'⟩ := List.mem_map.mp ((mem_firstKeys _ _).mp hm)
  constructor
  · intro he
    rw [← hm'] at he ⊢
    exact h.tagInj c hc c' hc' he
  · intro he; rw [he]

/-- (U) **Characterisation, exact form.** On honest reports the model server (which yields buckets
in order of first appearance) returns exactly `expected`. -/
theorem C18_exact (F : Perm) (fuel : Nat) (epoch : String) (t : Nat) (ht : 1 ≤ t)
    (clients : List Client) (rep : Client → Message) (h : Honest F fuel epoch t clients rep) :
    retrieveOutputs F t epoch (clients.map rep) = .ok (expected t clients) := by
  unfold retrieveOutputs filterMessages expected
  rw [C18_collect_honest F fuel epoch t clients rep h, List.filter_map]
  have hf : (firstKeys (clients.map (·.m))).filter ((fun bucket : List Message => decide (t ≤ bucket.length)) ∘
      fun m => (group clients m).map rep) =
      (firstKeys (clients.map (·.m))).filter fun m => t ≤ (group clients m).length := by
    apply List.filter_congr
    intro m _
    simp [Function.comp]
  rw [hf]
  apply mapOutcome_map_map_ok
  intro m hm
  have hlen : t ≤ (group clients m).length := by
    have := (List.mem_filter.mp hm).2
    simpa using this
  rw [C18_bucket F fuel epoch t ht clients rep h m hlen]

theorem C18_mem_expected {t : Nat} (ht : 1 ≤ t) {clients : List Client} {o : Bytes × List (Option Bytes)} :
    o ∈ expected t clients ↔
      t ≤ (group clients o.1).length ∧ o.2 = (group clients o.1).map fun c => normAux c.aux := by
  unfold expected
  simp only [List.mem_map, List.mem_filter, decide_eq_true_eq]
  constructor
  · rintro ⟨m, ⟨_, hl⟩, rfl⟩
    exact ⟨hl, rfl⟩
  · rintro ⟨hl, ho⟩
    refine ⟨o.1, ⟨?_, hl⟩, ?_⟩
    · rw [mem_firstKeys]
      cases hg : group clients o.1 with
      | nil => rw [hg] at hl; simp at hl; omega
      | cons c0 _ =>
        have : c0 ∈ group clients o.1 := by rw [hg]; exact List.mem_cons_self
        obtain ⟨hc, hm⟩ := C18_mem_group.mp this
        rw [← hm]; exact List.mem_map_of_mem hc
    · rw [← ho]

theorem C18_expected_keys_nodup (t : Nat) (clients : List Client) : ((expected t clients).map (·.1)).Nodup := by
  unfold expected
  rw [List.map_map]
  have : ((fun o : Bytes × List (Option Bytes) => o.1) ∘ fun m => (m, (group clients m).map fun c => normAux c.aux)) = id := rfl
  rw [this, List.map_id]
  exact (firstKeys_nodup _).filter _

/-- (U) **Characterisation.** Given ANY list of honest reports for one epoch and threshold `t ≥ 1`
(hypotheses H1–H3 of `Honest`), `retrieve_outputs` does not panic and returns `outs`, a permutation
of the specified output `expected` — the order of `outs` is the `HashMap` iteration order in the
code and is left unspecified — such that: every measurement occurs at most once; a measurement
occurs iff at least `t` clients reported it (nothing for smaller groups); and its entry lists the
associated data of exactly its clients, in arrival order, through `normAux` (`some []` ↦ `none`). -/
theorem C18_characterisation (F : Perm) (fuel : Nat) (epoch : String) (t : Nat) (ht : 1 ≤ t)
    (clients : List Client) (rep : Client → Message) (h : Honest F fuel epoch t clients rep) :
    ∃ outs, retrieveOutputs F t epoch (clients.map rep) = .ok outs ∧
      outs.Perm (expected t clients) ∧
      (outs.map (·.1)).Nodup ∧
      (∀ m, m ∈ outs.map (·.1) ↔ t ≤ (clients.filter fun c => c.m = m).length) ∧
      (∀ o ∈ outs, o.2 = (clients.filter fun c => c.m = o.1).map fun c => normAux c.aux) := by
  refine ⟨expected t clients, C18_exact F fuel epoch t ht clients rep h, List.Perm.refl _,
    C18_expected_keys_nodup t clients, ?_, ?_⟩
  · intro m
    constructor
    · intro hm
      obtain ⟨o, ho, rfl⟩ := List.mem_map.mp hm
      exact ((C18_mem_expected ht).mp ho).1
    · intro hl
      exact List.mem_map.mpr ⟨(m, (group clients m).map fun c => normAux c.aux),
        (C18_mem_expected ht).mpr ⟨hl, rfl⟩, rfl⟩
  · intro o ho
    exact ((C18_mem_expected ht).mp ho).2

theorem C18_honest_perm {F : Perm} {fuel : Nat} {epoch : String} {t : Nat} {clients clients' : List Client}
    {rep : Client → Message} (h : Honest F fuel epoch t clients rep) (hp : clients'.Perm clients) :
    Honest F fuel epoch t clients' rep where
  gen := fun c hc => h.gen c (hp.mem_iff.mp hc)
  distinct := fun m => ((hp.filter _).map _).nodup_iff.mpr (h.distinct m)
  tagInj := fun c hc c' hc' => h.tagInj c (hp.mem_iff.mp hc) c' (hp.mem_iff.mp hc')
  sizes := fun c hc => h.sizes c (hp.mem_iff.mp hc)

/-- the output as a multiset of (measurement, multiset of associated data) -/
def canon (outs : List (Bytes × List (Option Bytes))) : Multiset (Bytes × Multiset (Option Bytes)) :=
  ((outs.map fun o => (o.1, (o.2 : Multiset (Option Bytes)))) : List _)

theorem C18_canon_expected_perm (t : Nat) (clients clients' : List Client) (hp : clients'.Perm clients) :
    canon (expected t clients') = canon (expected t clients) := by
  unfold canon expected
  rw [List.map_map, List.map_map]
  apply Quotient.sound
  have hg : ∀ m, (group clients' m).Perm (group clients m) := fun m => hp.filter _
  have hkeys : (firstKeys (clients'.map (·.m))).Perm (firstKeys (clients.map (·.m))) := by
    rw [List.perm_ext_iff_of_nodup (firstKeys_nodup _) (firstKeys_nodup _)]
    intro m
    rw [mem_firstKeys, mem_firstKeys]
    exact (hp.map _).mem_iff
  have hfilt : ((firstKeys (clients'.map (·.m))).filter fun m => t ≤ (group clients' m).length) =
      (firstKeys (clients'.map (·.m))).filter fun m => t ≤ (group clients m).length := by
    apply List.filter_congr
    intro m _
    rw [(hg m).length_eq]
  rw [hfilt]
  have hmap : ∀ m, ((fun o : Bytes × List (Option Bytes) => (o.1, (o.2 : Multiset (Option Bytes)))) ∘
      fun m => (m, (group clients' m).map fun c => normAux c.aux)) m =
      ((fun o : Bytes × List (Option Bytes) => (o.1, (o.2 : Multiset (Option Bytes)))) ∘
      fun m => (m, (group clients m).map fun c => normAux c.aux)) m := by
    intro m
    simp only [Function.comp]
    congr 1
    exact Quotient.sound ((hg m).map _)
  rw [List.map_congr_left fun m _ => hmap m]
  exact (hkeys.filter _).map _

/-- (U) **Order and scheduling independence.** Feeding the server ANY permutation `reports'` of
the honest reports yields (without panic) an output equal to the original one as a multiset of
`(measurement, multiset of associated data)` pairs — multiset equality at both levels. The result
is thus a function of the input multiset only. The model has no threads: `retrieve_outputs` maps a
pure function over the buckets (`into_par_iter().map().map().collect()` preserves order), so the
number of rayon workers cannot enter; the `agg` stream and the C18 oracle confirm this on the real
code with pools of 1..16 threads. -/
theorem C18_perm_invariant (F : Perm) (fuel : Nat) (epoch : String) (t : Nat) (ht : 1 ≤ t)
    (clients : List Client) (rep : Client → Message) (h : Honest F fuel epoch t clients rep)
    (reports' : List Message) (hp : reports'.Perm (clients.map rep)) :
    ∃ outs outs', retrieveOutputs F t epoch (clients.map rep) = .ok outs ∧
      retrieveOutputs F t epoch reports' = .ok outs' ∧ canon outs' = canon outs := by
  have := congrFun (congrFun (List.eq_map_comp_perm rep) reports') clients
  obtain ⟨clients', hr, hpc⟩ := this.mpr hp
  subst hr
  exact ⟨_, _, C18_exact F fuel epoch t ht clients rep h,
    C18_exact F fuel epoch t ht clients' rep (C18_honest_perm h hpc),
    C18_canon_expected_perm t clients clients' hpc⟩

/-- (W) **Empty associated data is reported as absent** (known finding
`empty_aux_reported_as_none`): a client that attaches `Some(vec![])` to a measurement that reaches
the threshold appears in the output with `None` at its position — indistinguishable from a client
that attached nothing. -/
theorem C18_empty_aux_reported_absent (F : Perm) (fuel : Nat) (epoch : String) (t : Nat) (ht : 1 ≤ t)
    (clients : List Client) (rep : Client → Message) (h : Honest F fuel epoch t clients rep)
    (c : Client) (hc : c ∈ clients) (haux : c.aux = some [])
    (hlen : t ≤ (clients.filter fun c' => c'.m = c.m).length) :
    ∃ outs o, ∃ i : Nat, retrieveOutputs F t epoch (clients.map rep) = .ok outs ∧ o ∈ outs ∧ o.1 = c.m ∧
      (clients.filter fun c' => c'.m = c.m)[i]? = some c ∧ o.2[i]? = some none := by
  have hcg : c ∈ group clients c.m := C18_mem_group.mpr ⟨hc, rfl⟩
  obtain ⟨i, hi⟩ := List.getElem?_of_mem hcg
  refine ⟨expected t clients, (c.m, (group clients c.m).map fun c => normAux c.aux), i,
    C18_exact F fuel epoch t ht clients rep h, (C18_mem_expected ht).mpr ⟨hlen, rfl⟩, rfl, hi, ?_⟩
  simp only [List.getElem?_map]
  rw [hi]
  simp [haux, normAux]

/-- H1 from pairwise distinct `(measurement, share point)` pairs -/
theorem C18_distinct_of_nodup_pairs (clients : List Client) (h : (clients.map fun c => (c.m, c.x)).Nodup) (m : Bytes) :
    ((group clients m).map (·.x)).Nodup := by
  have h1 : ((group clients m).map fun c => (c.m, c.x)).Nodup :=
    h.sublist (List.Sublist.map _ List.filter_sublist)
  have h2 : ((group clients m).map fun c => (c.m, c.x)) = ((group clients m).map (·.x)).map fun x => (m, x) := by
    rw [List.map_map]
    apply List.map_congr_left
    intro c hc
    simp only [Function.comp, (C18_mem_group.mp hc).2]
  rw [h2] at h1
  exact List.Nodup.of_map _ h1

/-! ### non-vacuity: identity permutation, threshold 2, epoch "" -/

/-- the report of a client under the identity permutation (fuel 8) -/
def repId (c : Client) : Message :=
  match generate id 8 c.m (Bytes.ofString "") 2 (sampleLocalRandomness id c.m (Bytes.ofString "") 2) c.aux c.x with
  | some (.ok r) => r
  | _ => ⟨[], ⟨0, ⟨0, []⟩, [], [], []⟩, []⟩

theorem C18_repId_gen (c : Client)
    (h : (match generate id 8 c.m (Bytes.ofString "") 2 (sampleLocalRandomness id c.m (Bytes.ofString "") 2) c.aux c.x with
      | some (.ok _) => true
      | _ => false) = true) :
    generate id 8 c.m (Bytes.ofString "") 2 (sampleLocalRandomness id c.m (Bytes.ofString "") 2) c.aux c.x =
      some (.ok (repId c)) := by
  unfold repId
  split at h
  · rename_i r hr; rw [hr]
  · cases h

def sampleClients : List Client :=
  [⟨[5], some [], 4⟩, ⟨[6], some [7], 3⟩, ⟨[5], none, 3⟩, ⟨[6], some [8, 9], 9⟩, ⟨[7], some [1], 3⟩]

/-- the hypotheses of the characterisation are satisfiable: five clients, three measurements -/
example : Honest id 8 "" 2 sampleClients repId where
  gen := by
    intro c hc
    simp only [sampleClients, List.mem_cons, List.not_mem_nil, or_false] at hc
    rcases hc with rfl | rfl | rfl | rfl | rfl <;> exact C18_repId_gen _ (by decide +kernel)
  distinct := C18_distinct_of_nodup_pairs _ (by decide)
  tagInj := by unfold tagOf; decide +kernel
  sizes := by
    intro c hc
    simp only [sampleClients, List.mem_cons, List.not_mem_nil, or_false] at hc
    rcases hc with rfl | rfl | rfl | rfl | rfl <;>
      exact ⟨by decide, by intro a ha; cases ha <;> decide, by decide +kernel⟩

-- on them the model server returns the two measurements with ≥ 2 clients, `some []` shown as `none`
example : retrieveOutputs id 2 "" (sampleClients.map repId) =
    .ok [([5], [none, none]), ([6], [some [7], some [8, 9]])] := by decide +kernel
example : expected 2 sampleClients = [([5], [none, none]), ([6], [some [7], some [8, 9]])] := by decide +kernel
-- the deviation on the smallest input: threshold 1, one client attaching `Some(vec![])`
example : (match generate id 8 [5] (Bytes.ofString "e") 1 (sampleLocalRandomness id [5] (Bytes.ofString "e") 1) (some []) 3 with
    | some (.ok r) => some (retrieveOutputs id 1 "e" [r])
    | _ => none) = some (.ok [([5], [none])]) := by decide +kernel
-- panics of the real server are reproduced: `t` copies of ONE report pass the filter and do not recover
example : (retrieveOutputs id 2 "" ([(⟨[5], none, 3⟩ : Client), ⟨[5], none, 3⟩].map repId)).isPanic = true := by
  decide +kernel

end StarModel.Props.C18
