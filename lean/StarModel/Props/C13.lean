/-
C13 — Evaluation proofs are complete, sound against tampering, and never reuse a nonce.

(U) for every `F`, every hash-to-scalar behaviour it induces, every lawful group: completeness of
the batched DLEQ proof; special soundness (two accepting transcripts with the same commitments and
different challenges determine the key: the statement is then TRUE); injectivity of the challenge
transcript encoding (every field is read). (R) acceptance of a tampered tuple then means the
Fiat–Shamir hash hit the unique admissible challenge (forgery) or a transcript collision — the
random-oracle assumption of the VOPRF draft. (E) nonces/commitments of different requests are
distinct: OS RNG, measured by the oracle.
-/
import StarModel.Lemmas.Skeleton
import StarModel.Lemmas.Ppoprf

namespace StarModel.Props.C13
open StarModel StarModel.Ppoprf StarModel.Scalar25519

variable {G : Type} [AddCommGroup G] [Module S G] {ops : GroupOps G}

/-- the composite loop with and without a known key: the same batching coefficients and the same
`m`; without a key, `z` accumulates `Σ dᵢ • qᵢ`, which is `k • (Σ dᵢ • pᵢ)` when `qᵢ = k • pᵢ` -/
theorem compositesLoop_key (hl : Lawful ops) (F : Perm) (seed : Bytes) (k : S) (cs : List G) :
    ∀ (i : Nat) (m z z0 : G),
      (∃ m', compositesLoop ops F false seed i cs (cs.map (k • ·)) m z0 = .ok (m', z0) ∧
        compositesLoop ops F true seed i cs (cs.map (k • ·)) m z = .ok (m', z + k • (m' - m))) ∨
      ((∃ w, compositesLoop ops F false seed i cs (cs.map (k • ·)) m z0 = .panic w) ∧
        (∃ w, compositesLoop ops F true seed i cs (cs.map (k • ·)) m z = .panic w)) ∨
      ((∃ e, compositesLoop ops F false seed i cs (cs.map (k • ·)) m z0 = .err e) ∧
        (∃ e, compositesLoop ops F true seed i cs (cs.map (k • ·)) m z = .err e)) := by
  induction cs with
  | nil =>
    intro i m z z0
    left
    exact ⟨m, rfl, by simp [compositesLoop]⟩
  | cons c cs ih =>
    intro i m z z0
    simp only [List.map_cons, compositesLoop]
    cases htr : compositeTranscript ops seed i c (k • c) with
    | err e => right; right; exact ⟨⟨e, rfl⟩, ⟨e, rfl⟩⟩
    | panic w => right; left; exact ⟨⟨w, rfl⟩, ⟨w, rfl⟩⟩
    | ok tr =>
      simp only [Bool.false_eq_true, if_false, if_true]
      rcases ih (i + 1) (ops.add (ops.smul (hashToScalar F tr Params.dleqCompositeLabel) c) m)
          (ops.add (ops.smul (hashToScalar F tr Params.dleqCompositeLabel) (k • c)) z) z0 with
        ⟨m', h1, h2⟩ | h | h
      · left
        refine ⟨m', h1, ?_⟩
        rw [h2]
        congr 1
        rw [hl.add_eq, hl.add_eq, hl.smul_eq, hl.smul_eq]
        rw [smul_sub, smul_sub, smul_add, smul_comm]
        abel
      · right; left; exact h
      · right; right; exact h

theorem dleq_alg (B : G) (r c k : S) : (r - c * k) • B + c • (k • B) = r • B := by
  rw [smul_smul, ← add_smul]; congr 1; ring

/-- (U) **Completeness.** For every key `k`, nonce `r`, batch `ps` and public value `k • B`:
the proof `new_batch` produces for `qᵢ = k • pᵢ` is accepted by `verify_batch`. -/
theorem C13_complete (hl : Lawful ops) (F : Perm) (k r : Nat) (ps : List G) (c s : Nat)
    (h : newBatch ops F k (ops.smul k ops.base) ps (ps.map (((k : S)) • ·)) r = .ok (c, s)) :
    verifyBatch ops F c s (ops.smul k ops.base) ps (ps.map (((k : S)) • ·)) = .ok true := by
  have hlab : Params.dleqVerifyChallengeLabel = Params.dleqChallengeLabel := by decide
  unfold newBatch at h
  unfold verifyBatch
  unfold computeComposites at h ⊢
  have hlen : ¬ (ps.length ≠ (ps.map (((k : S)) • ·)).length) := by simp
  rw [if_neg hlen] at h ⊢
  cases hst : seedTranscript ops (ops.smul k ops.base) with
  | err e => rw [hst] at h; simp at h
  | panic w => rw [hst] at h; simp at h
  | ok st =>
    rw [hst] at h
    simp only [Option.isNone_some, Option.isNone_none] at h ⊢
    rcases compositesLoop_key hl F (strobeHash F st Params.dleqSeedLabel) (k : S) ps 0
        ops.identity ops.identity ops.identity with ⟨m, h1, h2⟩ | ⟨⟨w, h1⟩, _⟩ | ⟨⟨e, h1⟩, _⟩
    · rw [h1] at h
      rw [h2]
      simp only [bind_ok] at h ⊢
      cases htr : challengeTranscript ops (ops.smul k ops.base) m (ops.smul k m) (ops.smul r ops.base)
          (ops.smul r m) with
      | err e => rw [htr] at h; cases h
      | panic w => rw [htr] at h; cases h
      | ok tr =>
        rw [htr] at h
        simp only [bind_ok, pure_eq] at h
        have hp := Outcome.ok.inj h
        rw [Prod.mk.injEq] at hp
        obtain ⟨hc, hs⟩ := hp
        rw [hc] at hs
        have hz : ops.identity + (k : S) • (m - ops.identity) = ops.smul k m := by
          rw [hl.identity_eq, hl.smul_eq]; simp
        rw [hz]
        have hsS : ((s : Nat) : S) = (r : S) - (c : S) * (k : S) := by
          have := congrArg (Nat.cast (R := S)) hs
          rw [sub_cast, mul_cast] at this
          exact this.symm
        have ht2 : ops.add (ops.smul s ops.base) (ops.smul c (ops.smul k ops.base)) = ops.smul r ops.base := by
          rw [hl.add_eq, hl.smul_eq, hl.smul_eq, hl.smul_eq, hl.smul_eq, hsS]
          exact dleq_alg _ _ _ _
        have ht3 : ops.add (ops.smul s m) (ops.smul c (ops.smul k m)) = ops.smul r m := by
          rw [hl.add_eq, hl.smul_eq, hl.smul_eq, hl.smul_eq, hl.smul_eq, hsS]
          exact dleq_alg _ _ _ _
        rw [ht2, ht3, htr]
        show Outcome.ok (c == hashToScalar F tr Params.dleqVerifyChallengeLabel) = Outcome.ok true
        rw [hlab, hc, beq_self_eq_true]
    · rw [h1] at h; cases h
    · rw [h1] at h; cases h

/-- (U) **Special soundness.** Two accepting responses `(c, s) ≠ (c', s')`, `c ≠ c'`, for the SAME
commitments `t₂, t₃` force the statement to be true: there is `k` with `pk = k • B` and `z = k • m`.
Equivalently: if the statement is false, at most ONE challenge value can be answered. -/
theorem C13_special_soundness (B pk m z t2 t3 : G) (c s c' s' : S) (hc : c ≠ c')
    (h2 : t2 = s • B + c • pk) (h3 : t3 = s • m + c • z)
    (h2' : t2 = s' • B + c' • pk) (h3' : t3 = s' • m + c' • z) :
    ∃ k : S, pk = k • B ∧ z = k • m := by
  have hcc : c - c' ≠ 0 := sub_ne_zero.mpr hc
  refine ⟨(s' - s) * (c - c')⁻¹, ?_, ?_⟩
  · have e : (c - c') • pk = (s' - s) • B := by
      rw [sub_smul, sub_smul]
      have := h2.symm.trans h2'
      -- s•B + c•pk = s'•B + c'•pk
      have h' : c • pk - c' • pk = s' • B - s • B := by
        rw [sub_eq_sub_iff_add_eq_add, add_comm (c • pk)]
        exact this
      exact h'
    calc pk = (c - c')⁻¹ • ((c - c') • pk) := by rw [smul_smul, inv_mul_cancel₀ hcc, one_smul]
      _ = ((s' - s) * (c - c')⁻¹) • B := by rw [e, smul_smul, mul_comm]
  · have e : (c - c') • z = (s' - s) • m := by
      rw [sub_smul, sub_smul]
      have := h3.symm.trans h3'
      have h' : c • z - c' • z = s' • m - s • m := by
        rw [sub_eq_sub_iff_add_eq_add, add_comm (c • z)]
        exact this
      exact h'
    calc z = (c - c')⁻¹ • ((c - c') • z) := by rw [smul_smul, inv_mul_cancel₀ hcc, one_smul]
      _ = ((s' - s) * (c - c')⁻¹) • m := by rw [e, smul_smul, mul_comm]

/-- (U) **The challenge transcript reads every field**: it determines the public value, both
composites and both commitments (fixed-length `I2OSP`-prefixed encodings, injective `compress`) -/
theorem C13_challenge_transcript_injective (hl : Lawful ops) (pv m z t2 t3 pv' m' z' t2' t3' : G) (tr : Bytes)
    (h : challengeTranscript ops pv m z t2 t3 = .ok tr)
    (h' : challengeTranscript ops pv' m' z' t2' t3' = .ok tr) :
    pv = pv' ∧ m = m' ∧ z = z' ∧ t2 = t2' ∧ t3 = t3' := by
  unfold challengeTranscript at h h'
  have hi : i2osp2 Params.compressedPointLen = .ok (Bytes.be16 32) := by decide
  rw [hi] at h h'
  simp only [bind_ok, pure_eq] at h h'
  injection h with h; injection h' with h'
  have e := h.trans h'.symm
  have l := fun P => hl.compress_length P
  have l2 : (Bytes.be16 32).length = 2 := rfl
  -- peel the ten fixed-length fields from the right
  have a1 := List.append_inj_right' e (by first | rfl | rw [l, l])
  have e1 := List.append_inj_left' e (by first | rfl | rw [l, l])
  have e2 := List.append_inj_left' e1 (by first | rfl | rw [l, l])
  have a2 := List.append_inj_right' e2 (by first | rfl | rw [l, l])
  have e3 := List.append_inj_left' e2 (by first | rfl | rw [l, l])
  have e4 := List.append_inj_left' e3 (by first | rfl | rw [l, l])
  have a3 := List.append_inj_right' e4 (by first | rfl | rw [l, l])
  have e5 := List.append_inj_left' e4 (by first | rfl | rw [l, l])
  have e6 := List.append_inj_left' e5 (by first | rfl | rw [l, l])
  have a4 := List.append_inj_right' e6 (by first | rfl | rw [l, l])
  have e7 := List.append_inj_left' e6 (by first | rfl | rw [l, l])
  have e8 := List.append_inj_left' e7 (by first | rfl | rw [l, l])
  have a5 := List.append_inj_right' e8 (by first | rfl | rw [l, l])
  exact ⟨hl.compress_injective a5, hl.compress_injective a4, hl.compress_injective a3,
    hl.compress_injective a2, hl.compress_injective a1⟩

/-- (U) what acceptance means: the proof's challenge is the hash of the transcript over the
public value, the composites and the commitments RECOMPUTED from `(c, s)` -/
theorem C13_verify_iff (F : Perm) (c s : Nat) (pv : G) (ps qs : List G) (m z : G)
    (hc : computeComposites ops F none pv ps qs = .ok (m, z)) (tr : Bytes)
    (htr : challengeTranscript ops pv m z (ops.add (ops.smul s ops.base) (ops.smul c pv))
      (ops.add (ops.smul s m) (ops.smul c z)) = .ok tr) :
    verifyBatch ops F c s pv ps qs = .ok (c == hashToScalar F tr Params.dleqVerifyChallengeLabel) := by
  unfold verifyBatch
  rw [hc]
  simp only [bind_ok]
  rw [htr]
  rfl

/-- (U) **the largest legal public key loads**: a server registered with all 256 tags serialises
to `32 + 8 + 256·33 = 8488` bytes, which is within the size limit read from the source — so
restoring an honest public key never fails on the size guard (completeness after serialisation) -/
theorem C13_full_tag_key_within_limit :
    Params.compressedPointLen + 8 + 256 * (1 + Params.compressedPointLen) ≤ Params.maxSerializedPkSize ∧
    2 * 32 ≤ Params.maxSerializedProofSize := by decide

end StarModel.Props.C13
