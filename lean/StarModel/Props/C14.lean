/-
C14 — Randomness server answers iff tag registered and unpunctured, under any history.

The model's `Server` is a value; a history is a sequence of `eval` (pure) and `puncture` calls on
slots holding servers, with `clone` and `export+import` copying the value (the byte-level key-state
codec is exercised by the `server` correspondence stream). The theorems lift the GGM refinement
(C10) through `Server::{new, eval, puncture}`: for EVERY history, every `F` and every group
dictionary.
-/
import StarModel.Lemmas.Ppoprf
import StarModel.Lemmas.KeyState
import StarModel.Props.C10

namespace StarModel.Props.C14
open StarModel StarModel.Ppoprf StarModel.Ggm

/-- `server.puncture(md)` as the caller experiences it: on `Err` the server is unchanged -/
def applyPuncture (F : Perm) (srv : Server) (md : UInt8) : Server :=
  match Server.puncture F srv md with
  | .ok s => s
  | _ => srv

/-- the server after a history of puncture calls (evaluations do not change it) -/
def afterPunctures (F : Perm) (srv : Server) (mds : List UInt8) : Server := mds.foldl (applyPuncture F) srv

theorem applyPuncture_fields (F : Perm) (srv : Server) (md : UInt8) :
    (applyPuncture F srv md).oprfKey = srv.oprfKey ∧ (applyPuncture F srv md).publicKey = srv.publicKey ∧
    (applyPuncture F srv md).prgKey0 = srv.prgKey0 ∧ (applyPuncture F srv md).prgKey1 = srv.prgKey1 ∧
    (applyPuncture F srv md).ggm = (Ggm.step (srv.g F) Params.ggmInpLen srv.ggm (.puncture [md])).1 := by
  have hstep : (Ggm.step (srv.g F) Params.ggmInpLen srv.ggm (.puncture [md])).1 =
      match Ggm.puncture (srv.g F) Params.ggmInpLen srv.ggm [md] with
      | .ok k' => k'
      | .error _ => srv.ggm := by
    simp only [Ggm.step]
    cases Ggm.puncture (srv.g F) Params.ggmInpLen srv.ggm [md] <;> rfl
  rw [hstep]
  unfold applyPuncture Server.puncture
  cases Ggm.puncture (srv.g F) Params.ggmInpLen srv.ggm [md] with
  | ok k => exact ⟨rfl, rfl, rfl, rfl, rfl⟩
  | error e => exact ⟨rfl, rfl, rfl, rfl, rfl⟩

/-- (U) **Puncturing never changes the OPRF key, the public key or the PRG keys**, and the GGM key
evolves exactly as the GGM state machine of C10 -/
theorem C14_frame (F : Perm) (srv : Server) (mds : List UInt8) :
    (afterPunctures F srv mds).oprfKey = srv.oprfKey ∧ (afterPunctures F srv mds).publicKey = srv.publicKey ∧
    (afterPunctures F srv mds).prgKey0 = srv.prgKey0 ∧ (afterPunctures F srv mds).prgKey1 = srv.prgKey1 ∧
    (afterPunctures F srv mds).ggm =
      (Ggm.run (srv.g F) Params.ggmInpLen srv.ggm (mds.map fun md => Ggm.Op.puncture [md])).1 := by
  induction mds generalizing srv with
  | nil => exact ⟨rfl, rfl, rfl, rfl, rfl⟩
  | cons md mds ih =>
    obtain ⟨h1, h2, h3, h4, h5⟩ := applyPuncture_fields F srv md
    obtain ⟨i1, i2, i3, i4, i5⟩ := ih (applyPuncture F srv md)
    have hg : (applyPuncture F srv md).g F = srv.g F := by unfold Server.g; rw [h3, h4]
    refine ⟨by simp only [afterPunctures, List.foldl_cons] at i1 ⊢; rw [i1, h1],
      by simp only [afterPunctures, List.foldl_cons] at i2 ⊢; rw [i2, h2],
      by simp only [afterPunctures, List.foldl_cons] at i3 ⊢; rw [i3, h3],
      by simp only [afterPunctures, List.foldl_cons] at i4 ⊢; rw [i4, h4], ?_⟩
    simp only [afterPunctures, List.foldl_cons] at i5 ⊢
    rw [i5, hg, h5]
    simp only [List.map_cons, Ggm.run]

/-- which inputs the ideal machine has punctured after a puncture-only history of one-byte inputs -/
theorem mem_specRun_punctures {Seed : Type} (g : Bool → Seed → Seed) (s0 s1 : Seed) (P0 : List Bits)
    (mds : List UInt8) (md : UInt8) :
    inputBits [md] ∈ (specRun g 1 s0 s1 P0 (mds.map fun m => Ggm.Op.puncture [m])).1 ↔
      inputBits [md] ∈ P0 ∨ md ∈ mds := by
  induction mds generalizing P0 with
  | nil => simp [specRun]
  | cons m mds ih =>
    simp only [List.map_cons, specRun, List.mem_cons]
    rw [ih]
    unfold specStep
    simp only [List.length_singleton, true_and]
    by_cases hm : inputBits [m] ∉ P0
    · rw [if_pos hm, List.mem_append, List.mem_singleton]
      constructor
      · rintro ((h | h) | h)
        · exact Or.inl h
        · exact Or.inr (Or.inl (by
            have := inputBits_injective h
            simpa using this))
        · exact Or.inr (Or.inr h)
      · rintro (h | h | h)
        · exact Or.inl (Or.inl h)
        · exact Or.inl (Or.inr (by rw [h]))
        · exact Or.inr h
    · rw [if_neg hm]
      have hm' : inputBits [m] ∈ P0 := by simpa using hm
      constructor
      · rintro (h | h)
        · exact Or.inl h
        · exact Or.inr (Or.inr h)
      · rintro (h | h | h)
        · exact Or.inl h
        · exact Or.inl (by rw [h]; exact hm')
        · exact Or.inr h

variable {G : Type} {ops : GroupOps G}

/-- the tag scalar of an unpunctured registered tag: a function of the initial seeds only -/
noncomputable def idealTagScalar (F : Perm) (k0 k1 s0 s1 : Bytes) (md : UInt8) : Nat :=
  Scalar25519.fromBytesModOrder (ideal (Ggm.strobeG F k0 k1) s0 s1 (inputBits [md]))

/-- (U) the GGM part: after ANY puncture history on a server whose tree started from `(s0, s1)`,
the tag scalar of `md` is available iff `md` was not punctured, and then it is the ideal one —
the same value as before any puncturing -/
theorem tagScalar_after (F : Perm) (srv0 : Server) (s0 s1 : Bytes) (hg : srv0.ggm = initKey s0 s1)
    (mds : List UInt8) (md : UInt8) :
    tagScalar F (afterPunctures F srv0 mds).prgKey0 (afterPunctures F srv0 mds).prgKey1
        (afterPunctures F srv0 mds).ggm md =
      if md ∈ mds then .err "NoPrefixFound"
      else .ok (idealTagScalar F srv0.prgKey0 srv0.prgKey1 s0 s1 md) := by
  obtain ⟨_, _, h3, h4, h5⟩ := C14_frame F srv0 mds
  rw [h3, h4, h5, hg]
  have hlen : Params.ggmInpLen = 1 := rfl
  obtain ⟨_, _, _, hP, heval, _⟩ := C10.C10_history (srv0.g F) 1 (le_refl 1) s0 s1
    (mds.map fun m => Ggm.Op.puncture [m])
  unfold tagScalar
  rw [hlen]
  have hgdef : Ggm.strobeG F srv0.prgKey0 srv0.prgKey1 = srv0.g F := rfl
  have := heval [md]
  simp only [C10.keyAfter] at this
  unfold idealTagScalar
  rw [hgdef, this]
  simp only [List.length_singleton, ne_eq, not_true_eq_false, if_false]
  have hin : inputBits [md] ∈ C10.puncturedAfter (srv0.g F) 1 s0 s1 (mds.map fun m => Ggm.Op.puncture [m]) ↔
      md ∈ mds := by
    rw [hP, mem_specRun_punctures]; simp
  by_cases hm : md ∈ mds
  · rw [if_pos (hin.mpr hm), if_pos hm]; rfl
  · rw [if_neg (fun h => hm (hin.mp h)), if_neg hm]; rfl

/-- (U) **Answers iff registered and unpunctured; the answer never changes.** For a server whose
GGM tree started from `(s0, s1)`, after ANY history of punctures `mds` (repeats and failures
included), a non-verifiable evaluation is: `BadPointEncoding` for an undecodable point, else
`BadTag` for an unregistered tag, else `NoPrefixFound` for a punctured tag, else the point
`(k + ts(md))⁻¹ • P` with `ts(md)` fixed at key creation — independent of the history. -/
theorem C14_eval_characterisation (F : Perm) (srv0 : Server) (s0 s1 : Bytes) (hg : srv0.ggm = initKey s0 s1)
    (mds : List UInt8) (pb : Bytes) (md : UInt8) (n : Nat) :
    Server.eval ops F (afterPunctures F srv0 mds) pb md false n =
      match ops.decompress pb with
      | none => .err "BadPointEncoding"
      | some pt =>
        if (srv0.publicKey.get md).isNone then .err "BadTag"
        else if md ∈ mds then .err "NoPrefixFound"
        else .ok (ops.compress (evalPoint ops srv0.oprfKey
          (idealTagScalar F srv0.prgKey0 srv0.prgKey1 s0 s1 md) pt), none) := by
  obtain ⟨h1, h2, _, _, _⟩ := C14_frame F srv0 mds
  have hts := tagScalar_after F srv0 s0 s1 hg mds md
  unfold Server.eval
  rw [h2, hts, h1]
  cases ops.decompress pb with
  | none => rfl
  | some pt =>
    simp only
    by_cases hr : (srv0.publicKey.get md).isNone = true
    · rw [if_pos hr, if_pos hr]
    · rw [if_neg hr, if_neg hr]
      by_cases hm : md ∈ mds
      · rw [if_pos hm, if_pos hm]; rfl
      · rw [if_neg hm, if_neg hm]; rfl

/-- (U) in either mode, a successful answer after any history is that same point -/
theorem C14_answer_constant (F : Perm) (srv0 : Server) (s0 s1 : Bytes) (hg : srv0.ggm = initKey s0 s1)
    (mds : List UInt8) (pb : Bytes) (md : UInt8) (v : Bool) (n : Nat) (out : Bytes) (pr : Option (Nat × Nat))
    (h : Server.eval ops F (afterPunctures F srv0 mds) pb md v n = .ok (out, pr)) :
    md ∉ mds ∧ (srv0.publicKey.get md).isSome = true ∧
    ∃ pt, ops.decompress pb = some pt ∧
      out = ops.compress (evalPoint ops srv0.oprfKey (idealTagScalar F srv0.prgKey0 srv0.prgKey1 s0 s1 md) pt) := by
  obtain ⟨pt, ts, hd, hreg, hts, hout⟩ := eval_ok F _ pb md v n out pr h
  obtain ⟨h1, h2, _, _, _⟩ := C14_frame F srv0 mds
  rw [tagScalar_after F srv0 s0 s1 hg mds md] at hts
  by_cases hm : md ∈ mds
  · rw [if_pos hm] at hts; cases hts
  · rw [if_neg hm] at hts
    injection hts with hts
    refine ⟨hm, by rw [← h2]; exact hreg, pt, hd, ?_⟩
    rw [hout, h1, hts]

/-- lookups after `BTreeMap::insert` -/
theorem find_mdInsert (md md' : UInt8) (pt : Bytes) (l : List (UInt8 × Bytes)) :
    ((mdInsert md pt l).find? fun e => e.1 == md').map (·.2) =
      if md' = md then some pt else (l.find? fun e => e.1 == md').map (·.2) := by
  induction l with
  | nil =>
    simp only [mdInsert, List.find?_cons, List.find?_nil]
    by_cases h : md' = md
    · simp [h]
    · have : (md == md') = false := by simpa using fun e => h e.symm
      simp [h, this]
  | cons kv rest ih =>
    obtain ⟨k, v⟩ := kv
    simp only [mdInsert]
    by_cases h1 : md < k
    · rw [if_pos h1]
      simp only [List.find?_cons]
      by_cases h : md' = md
      · simp [h]
      · have : (md == md') = false := by simpa using fun e => h e.symm
        simp [h, this]
    · rw [if_neg h1]
      by_cases h2 : md = k
      · rw [if_pos h2]
        simp only [List.find?_cons]
        by_cases h : md' = md
        · simp [h]
        · have hk : (k == md') = false := by rw [← h2]; simpa using fun e => h e.symm
          have hmd : (md == md') = false := by simpa using fun e => h e.symm
          simp [h, hk, hmd]
      · rw [if_neg h2]
        simp only [List.find?_cons]
        by_cases hk : (k == md') = true
        · have hkm : k = md' := by simpa using hk
          have : md' ≠ md := by rw [← hkm]; exact fun e => h2 e.symm
          simp [hkm, this]
        · have hk' : (k == md') = false := by simpa using hk
          simp only [hk', Bool.false_eq_true, if_false]
          exact ih

/-- (U) **registered = the tags given at key creation** -/
theorem C14_registered_iff (F : Perm) (key : Nat) (k0 k1 s0 s1 : Bytes) (mds0 : List UInt8) (srv0 : Server)
    (h : Server.new ops F key k0 k1 s0 s1 mds0 = .ok srv0) (md : UInt8) :
    (srv0.publicKey.get md).isSome = true ↔ md ∈ mds0 := by
  unfold Server.new at h
  simp only at h
  cases hn : newMdPks ops F k0 k1 (initKey s0 s1) mds0 [] with
  | err e => rw [hn] at h; cases h
  | panic w => rw [hn] at h; cases h
  | ok pks =>
    rw [hn] at h
    injection h with h
    subst h
    unfold PublicKey.get
    simp only
    have key : ∀ (l : List UInt8) (acc res : List (UInt8 × Bytes)),
        newMdPks ops F k0 k1 (initKey s0 s1) l acc = .ok res →
        (((res.find? fun e => e.1 == md).map (·.2)).isSome = true ↔
          md ∈ l ∨ ((acc.find? fun e => e.1 == md).map (·.2)).isSome = true) := by
      intro l
      induction l with
      | nil => intro acc res hr; unfold newMdPks at hr; injection hr with hr; subst hr; simp
      | cons m ms ih =>
        intro acc res hr
        unfold newMdPks at hr
        cases hts : tagScalar F k0 k1 (initKey s0 s1) m with
        | err e => rw [hts] at hr; cases hr
        | panic w => rw [hts] at hr; cases hr
        | ok ts =>
          rw [hts] at hr
          simp only at hr
          rw [ih _ _ hr, find_mdInsert, List.mem_cons]
          by_cases hm : md = m
          · simp [hm]
          · simp [hm]
    have := key mds0 [] pks hn
    simpa using this

/-- (U) clones and restored copies are the same value: what one does to a copy afterwards cannot
affect the original — slots are independent in the value model -/
theorem C14_slots_independent (F : Perm) (slots : List Server) (i j : Nat) (hij : i ≠ j) (md : UInt8)
    (hi : i < slots.length) :
    (slots.set i (applyPuncture F slots[i] md))[j]? = slots[j]? := by
  rw [List.getElem?_set_ne hij]

/-! ### export + import at the level of BYTES (feature `key-sync`) -/

/-- what `Server::get_private_key` hands to the serialiser: OPRF key, public key, and the
puncturable key (its two PRG keys, retained nodes, punctured list) -/
def exportState (srv : Server) : Codec.KeyState :=
  ⟨srv.oprfKey, srv.publicKey, [srv.prgKey0, srv.prgKey1], srv.ggm⟩

/-- `bincode::serialize(&server.get_private_key())` -/
def exportBytes (srv : Server) : Bytes := Codec.keyStateToBincode (exportState srv)

/-- `Server::set_private_key(bincode::deserialize(bytes)?)`: whole-state replacement - nothing of the
importing server survives (a GGM key with other than two PRG keys cannot be evaluated; it is not a
server value of this model) -/
def importBytes (_dst : Server) (bs : Bytes) : Option Server :=
  match Codec.keyStateFromBincode bs with
  | some ⟨k, pk, [k0, k1], ggm⟩ => some ⟨k, pk, k0, k1, ggm⟩
  | _ => none

/-- the servers `Server::new` creates (and every server reached from one): canonical OPRF key,
32-byte group elements in a strictly ordered tag map, 32-byte PRG keys -/
structure ServerValid (srv : Server) : Prop where
  key : srv.oprfKey < Scalar25519.ell
  base : srv.publicKey.basePk.length = 32
  tags : Codec.StrictTags srv.publicKey.mdPks
  entries : ∀ e ∈ srv.publicKey.mdPks, e.2.length = 32
  prg0 : srv.prgKey0.length = 32
  prg1 : srv.prgKey1.length = 32

/-- (U) **A server restored from exported state is the exporter at the moment of export — at the
level of bytes.** For a valid server whose GGM tree started from `(s0, s1)`, after ANY history of
punctures, serialising its key state with bincode (bitvec layout included) and importing those bytes
(followed by any trailing bytes) into ANY other server yields exactly the exporter's value: same OPRF
key, public key, PRG keys, retained nodes and punctured list. With `C14_eval_characterisation` this
makes the restored server answer every request as the exporter does, every puncture made so far
included. (bincode / bitvec formats are modelled, see `Codec.lean`, and tied to the crates by the
`codec` and `server` streams.) -/
theorem C14_export_import_bytes (F : Perm) (srv0 : Server) (s0 s1 : Bytes) (hg : srv0.ggm = initKey s0 s1)
    (hv : ServerValid srv0) (hs0 : s0.length = 32) (hs1 : s1.length = 32)
    (mds : List UInt8) (dst : Server) (tail : Bytes) :
    importBytes dst (exportBytes (afterPunctures F srv0 mds) ++ tail) = some (afterPunctures F srv0 mds) := by
  obtain ⟨h1, h2, h3, h4, h5⟩ := C14_frame F srv0 mds
  have hlen : Params.ggmInpLen = 1 := rfl
  obtain ⟨hinv, _, hP⟩ := C10.C10_reachable_inv (srv0.g F) 1 (le_refl 1) s0 s1
    (mds.map fun m => Ggm.Op.puncture [m])
  have hkey : (afterPunctures F srv0 mds).ggm =
      C10.keyAfter (srv0.g F) 1 s0 s1 (mds.map fun m => Ggm.Op.puncture [m]) := by
    rw [h5, hg, hlen]; rfl
  have hvalid : Codec.KeyStateValid (exportState (afterPunctures F srv0 mds)) := by
    unfold Codec.KeyStateValid exportState
    simp only
    rw [h1, h2, h3, h4, hkey]
    refine ⟨hv.key, hv.base, hv.tags, hv.entries, ?_, by simp, ?_, ?_, ?_, ?_⟩
    · intro p hp
      simp only [List.mem_cons, List.not_mem_nil, or_false] at hp
      rcases hp with rfl | rfl
      · exact hv.prg0
      · exact hv.prg1
    · -- fewer than 2^9 retained nodes
      have hnd := KeyStateLemmas.nodup_of_prefixFree _ hinv.prefixFree
      have hb : ∀ p ∈ (C10.keyAfter (srv0.g F) 1 s0 s1 (mds.map fun m => Ggm.Op.puncture [m])).prefixes.map Prod.fst,
          p.length ≤ 8 := by
        intro p hp
        obtain ⟨ps, hps, rfl⟩ := List.mem_map.1 hp
        exact (hinv.bounds ps hps).2
      have := KeyStateLemmas.nodup_bits_length_lt _ 8 hnd hb
      rw [List.length_map] at this
      exact Nat.lt_trans this (by decide)
    · intro p hp
      refine ⟨Nat.le_trans (hinv.bounds p hp).2 (by decide), ?_⟩
      rw [hinv.seeds p hp]
      obtain ⟨hne, _⟩ := hinv.bounds p hp
      cases hp1 : p.1 with
      | nil => exact absurd hp1 hne
      | cons b rest =>
        rw [ideal_cons]
        show (bitEval (Ggm.strobeG F srv0.prgKey0 srv0.prgKey1) rest _).length < 2 ^ 64
        rw [KeyStateLemmas.bitEval_length]
        cases b <;> split <;> simp [hs0, hs1, Params.ggmSeedLen]
    · -- at most 2^9 punctured inputs (in fact at most 256)
      rw [hinv.punct]
      have hnd : (C10.puncturedAfter (srv0.g F) 1 s0 s1 (mds.map fun m => Ggm.Op.puncture [m])).Nodup := by
        rw [hP]; exact KeyStateLemmas.specRun_nodup _ _ _ _ _ _ List.nodup_nil
      have := KeyStateLemmas.nodup_bits_length_lt _ 8 hnd (fun x hx => Nat.le_of_eq (hinv.full x hx))
      exact Nat.lt_trans this (by decide)
    · intro b hb
      rw [hinv.punct] at hb
      rw [hinv.full b hb]; decide
  unfold importBytes exportBytes
  rw [Codec.keyStateFromBincode_emit _ hvalid]
  rfl

/-- `ServerValid` holds for what `Server::new` creates over a lawful group, and punctures keep it -/
theorem serverValid_afterPunctures (F : Perm) (srv0 : Server) (hv : ServerValid srv0) (mds : List UInt8) :
    ServerValid (afterPunctures F srv0 mds) := by
  obtain ⟨h1, h2, h3, h4, _⟩ := C14_frame F srv0 mds
  exact ⟨by rw [h1]; exact hv.key, by rw [h2]; exact hv.base, by rw [h2]; exact hv.tags,
    by rw [h2]; exact hv.entries, by rw [h3]; exact hv.prg0, by rw [h4]; exact hv.prg1⟩

/-- `BTreeMap::insert` keeps the tag map strictly ordered and its values 32 bytes long -/
theorem mdInsert_valid (md : UInt8) (pt : Bytes) (hpt : pt.length = 32) (l : List (UInt8 × Bytes))
    (hs : Codec.StrictTags l) (he : ∀ e ∈ l, e.2.length = 32) :
    Codec.StrictTags (mdInsert md pt l) ∧ (∀ e ∈ mdInsert md pt l, e.2.length = 32) ∧
    (∀ e ∈ mdInsert md pt l, e.1 = md ∨ e ∈ l) := by
  induction l with
  | nil =>
    refine ⟨by simp [mdInsert, Codec.StrictTags], ?_, ?_⟩ <;>
    · intro e h; simp only [mdInsert, List.mem_singleton] at h; subst h; simp [hpt]
  | cons kv rest ih =>
    obtain ⟨k, v⟩ := kv
    unfold Codec.StrictTags at hs
    rw [List.pairwise_cons] at hs
    obtain ⟨hk, hrest⟩ := hs
    simp only [mdInsert]
    by_cases h1 : md < k
    · rw [if_pos h1]
      refine ⟨?_, ?_, ?_⟩
      · unfold Codec.StrictTags
        rw [List.pairwise_cons]
        refine ⟨?_, List.pairwise_cons.2 ⟨hk, hrest⟩⟩
        intro e hm
        rw [List.mem_cons] at hm
        rcases hm with rfl | hm
        · exact h1
        · exact UInt8.lt_trans h1 (hk e hm)
      · intro e hm
        rw [List.mem_cons] at hm
        rcases hm with rfl | hm
        · exact hpt
        · exact he e hm
      · intro e hm
        rw [List.mem_cons] at hm
        rcases hm with rfl | hm
        · exact Or.inl rfl
        · exact Or.inr hm
    · rw [if_neg h1]
      by_cases h2 : md = k
      · rw [if_pos h2]
        refine ⟨?_, ?_, ?_⟩
        · unfold Codec.StrictTags
          rw [List.pairwise_cons]
          exact ⟨fun e hm => by rw [h2]; exact hk e hm, hrest⟩
        · intro e hm
          rw [List.mem_cons] at hm
          rcases hm with rfl | hm
          · exact hpt
          · exact he e (List.mem_cons_of_mem _ hm)
        · intro e hm
          rw [List.mem_cons] at hm
          rcases hm with rfl | hm
          · exact Or.inl rfl
          · exact Or.inr (List.mem_cons_of_mem _ hm)
      · rw [if_neg h2]
        obtain ⟨i1, i2, i3⟩ := ih hrest (fun e hm => he e (List.mem_cons_of_mem _ hm))
        have hlt : k < md := by
          have a1 : ¬ md.toNat < k.toNat := fun h => h1 (UInt8.lt_iff_toNat_lt.2 h)
          have a2 : md.toNat ≠ k.toNat := fun h => h2 (UInt8.toNat_inj.1 h)
          exact UInt8.lt_iff_toNat_lt.2 (by omega)
        refine ⟨?_, ?_, ?_⟩
        · unfold Codec.StrictTags
          rw [List.pairwise_cons]
          refine ⟨?_, i1⟩
          intro e hm
          rcases i3 e hm with h | h
          · rw [h]; exact hlt
          · exact hk e h
        · intro e hm
          rw [List.mem_cons] at hm
          rcases hm with rfl | hm
          · exact he _ (List.mem_cons_self ..)
          · exact i2 e hm
        · intro e hm
          rw [List.mem_cons] at hm
          rcases hm with rfl | hm
          · exact Or.inr (List.mem_cons_self ..)
          · rcases i3 e hm with h | h
            · exact Or.inl h
            · exact Or.inr (List.mem_cons_of_mem _ h)

/-- (U) what `Server::new` creates over a group with 32-byte encodings is a valid server: together
with `C14_export_import_bytes` and `serverValid_afterPunctures`, every server of every history can
be exported and restored byte-exactly -/
theorem serverValid_new (hcl : ∀ P : G, (ops.compress P).length = 32) (F : Perm) (key : Nat)
    (hkey : key < Scalar25519.ell) (k0 k1 s0 s1 : Bytes) (hk0 : k0.length = 32) (hk1 : k1.length = 32)
    (mds0 : List UInt8) (srv0 : Server) (h : Server.new ops F key k0 k1 s0 s1 mds0 = .ok srv0) :
    ServerValid srv0 ∧ srv0.ggm = initKey s0 s1 := by
  unfold Server.new at h
  simp only at h
  cases hn : newMdPks ops F k0 k1 (initKey s0 s1) mds0 [] with
  | err e => rw [hn] at h; cases h
  | panic w => rw [hn] at h; cases h
  | ok pks =>
    rw [hn] at h
    injection h with h
    subst h
    have key' : ∀ (l : List UInt8) (acc res : List (UInt8 × Bytes)),
        newMdPks ops F k0 k1 (initKey s0 s1) l acc = .ok res →
        Codec.StrictTags acc → (∀ e ∈ acc, e.2.length = 32) →
        Codec.StrictTags res ∧ ∀ e ∈ res, e.2.length = 32 := by
      intro l
      induction l with
      | nil => intro acc res hr h1 h2; unfold newMdPks at hr; injection hr with hr; subst hr; exact ⟨h1, h2⟩
      | cons m ms ih =>
        intro acc res hr h1 h2
        unfold newMdPks at hr
        cases hts : tagScalar F k0 k1 (initKey s0 s1) m with
        | err e => rw [hts] at hr; cases hr
        | panic w => rw [hts] at hr; cases hr
        | ok ts =>
          rw [hts] at hr
          simp only at hr
          obtain ⟨i1, i2, _⟩ := mdInsert_valid m _ (hcl _) acc h1 h2
          exact ih _ _ hr i1 i2
    obtain ⟨t1, t2⟩ := key' mds0 [] pks hn (by simp [Codec.StrictTags]) (by simp)
    exact ⟨⟨hkey, hcl _, t1, t2, hk0, hk1⟩, rfl⟩

end StarModel.Props.C14
