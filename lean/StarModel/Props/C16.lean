/-
C16 — ADSS sharing is deterministic up to the share point; recovery rebuilds it.
For every STROBE permutation `F`, every threshold, message and coin strings of any length.
"Sampling returned some" (`share … = some _`) is the only hypothesis: the rejection sampling of
`Fp::random` is unbounded in Rust and fuel-bounded in the model.
-/
import StarModel.Lemmas.Skeleton
import StarModel.Lemmas.Adss

namespace StarModel.Props.C16
open StarModel StarModel.Adss

/-- **Deterministic up to the share point.** If any invocation of `share` succeeds there is one
dealing `d`, a function of `(T, threshold, M, R)` only, such that EVERY invocation at point `x`
returns `(threshold, d.poly(x), d.C, d.D, d.J)`; `J`, `C`, `D` are the transcript MAC and the
encryptions under the transcript key. Sharing never fails with an error or a panic. -/
theorem C16_deterministic (F : Perm) (fuel : Nat) (T : Option Strobe) (thr : Nat) (M R : Bytes) :
    (∀ x sh, share F fuel T thr M R x = some (.ok sh) →
      ∃ d, deal F fuel T thr M R = some (.ok d) ∧
        (∀ x', share F fuel T thr M R x' = some (.ok ⟨thr, Sharks.evaluate d.polys x', d.C, d.D, d.J⟩)) ∧
        d.J = macOf F T thr M R ∧ d.K = keyOf F T thr M R ∧
        d.C = (Strobe.sendEnc F (encKey F d.K) M).2 ∧
        d.D = (Strobe.sendEnc F (Strobe.sendEnc F (encKey F d.K) M).1 R).2 ∧
        d.C.length = M.length ∧ d.D.length = R.length) ∧
    (∀ x k, share F fuel T thr M R x ≠ some (.err k)) ∧
    (∀ x w, share F fuel T thr M R x ≠ some (.panic w)) := by
  refine ⟨?_, ?_, ?_⟩
  · intro x sh h
    unfold share at h
    cases hd : deal F fuel T thr M R with
    | none => rw [hd] at h; cases h
    | some o =>
      cases o with
      | err k => rw [hd] at h; cases h
      | panic w => rw [hd] at h; cases h
      | ok d =>
        obtain ⟨hJ, hK, hC, hD, _⟩ := deal_ok F fuel T thr M R d hd
        refine ⟨d, rfl, ?_, hJ, hK, hC, hD, ?_, ?_⟩
        · intro x'; unfold share; rw [hd]
        · rw [hC, Strobe.sendEnc_length]
        · rw [hD, Strobe.sendEnc_length]
  · intro x k h
    unfold share at h
    cases hd : deal F fuel T thr M R with
    | none => rw [hd] at h; cases h
    | some o =>
      cases o with
      | err k' => exact (deal_not_err F fuel T thr M R).1 k' hd
      | panic w => rw [hd] at h; cases h
      | ok d => rw [hd] at h; cases h
  · intro x w h
    unfold share at h
    cases hd : deal F fuel T thr M R with
    | none => rw [hd] at h; cases h
    | some o =>
      cases o with
      | err k' => rw [hd] at h; cases h
      | panic w' => exact (deal_not_err F fuel T thr M R).2 w' hd
      | ok d => rw [hd] at h; cases h

/-- **Recovery.** For every threshold `t ≥ 1`, message and coins of any length (including empty):
any collection of shares produced by independent invocations of one sharing (default transcript)
that holds `t` distinct points — any order, duplicates, surplus — recovers exactly `(t, M, R)`. -/
theorem C16_recover (F : Perm) (fuel : Nat) (thr : Nat) (ht : 1 ≤ thr) (M R : Bytes)
    (xs : List Nat) (hx : ∀ x ∈ xs, x < Fp.p) (hc : thr ≤ xs.toFinset.card)
    (shares : List Adss.Share) (hlen : shares.length = xs.length)
    (hsh : ∀ i (h1 : i < xs.length) (h2 : i < shares.length),
      share F fuel none thr M R xs[i] = some (.ok shares[i])) :
    recover F shares = .ok ⟨thr, M, R⟩ := by
  have hne : xs ≠ [] := by intro h; rw [h] at hc; simp at hc; omega
  have h0 : 0 < xs.length := List.length_pos_iff.mpr hne
  obtain ⟨d, hd, hall, _⟩ := (C16_deterministic F fuel none thr M R).1 xs[0] shares[0] (hsh 0 h0 (by omega))
  have heq : shares = xs.map fun x => (⟨thr, Sharks.evaluate d.polys x, d.C, d.D, d.J⟩ : Adss.Share) := by
    apply List.ext_getElem (by simp [hlen])
    intro i h1 h2
    have h3 : i < xs.length := by simpa using h2
    have := hsh i h3 h1
    rw [hall xs[i]] at this
    injection this with this; injection this with this
    simp [this]
  rw [heq]
  exact recover_honest F fuel thr ht M R d hd xs hx hc

/-- **The recovered sharing is the original one**: the recovered commune deals exactly the original
dealing, so shares produced from it lie on the same polynomial and combine with the originals. -/
theorem C16_reshare (F : Perm) (fuel : Nat) (thr : Nat) (M R : Bytes) (shares : List Adss.Share) (c : Commune)
    (h : recover F shares = .ok c) (horig : c = ⟨thr, M, R⟩) :
    deal F fuel none c.thr c.M c.R = deal F fuel none thr M R ∧
    ∀ x, share F fuel none c.thr c.M c.R x = share F fuel none thr M R x := by
  subst horig; exact ⟨rfl, fun _ => rfl⟩

/-- **Shares of the recovered sharing combine with the originals** (the statement above without the
`horig` hypothesis, and for actual share collections). Recover `c` from any qualifying collection
`shares0` of honest shares of `(thr, M, R)`. Then EVERY collection in which each share is produced
either by the original sharing or by a new sharing of the RECOVERED commune `c` (chosen per share
by `fromRecovered`), at points holding `thr` distinct values — for example `thr - 1` originals and
one new share — recovers `c` again. -/
theorem C16_reshare_combines (F : Perm) (fuel : Nat) (thr : Nat) (ht : 1 ≤ thr) (M R : Bytes)
    (xs0 : List Nat) (hx0 : ∀ x ∈ xs0, x < Fp.p) (hc0 : thr ≤ xs0.toFinset.card)
    (shares0 : List Adss.Share) (hlen0 : shares0.length = xs0.length)
    (hsh0 : ∀ i (h1 : i < xs0.length) (h2 : i < shares0.length),
      share F fuel none thr M R xs0[i] = some (.ok shares0[i]))
    (c : Commune) (hrec : recover F shares0 = .ok c)
    (xs : List Nat) (hx : ∀ x ∈ xs, x < Fp.p) (hc : thr ≤ xs.toFinset.card)
    (fromRecovered : Nat → Bool)
    (shares : List Adss.Share) (hlen : shares.length = xs.length)
    (hsh : ∀ i (h1 : i < xs.length) (h2 : i < shares.length),
      (if fromRecovered i then share F fuel none c.thr c.M c.R xs[i]
       else share F fuel none thr M R xs[i]) = some (.ok shares[i])) :
    c = ⟨thr, M, R⟩ ∧ recover F shares = .ok c := by
  have h0 := C16_recover F fuel thr ht M R xs0 hx0 hc0 shares0 hlen0 hsh0
  rw [h0] at hrec
  injection hrec with hrec
  subst hrec
  refine ⟨rfl, C16_recover F fuel thr ht M R xs hx hc shares hlen ?_⟩
  intro i h1 h2
  have := hsh i h1 h2
  simpa using this

/-- **Threshold 0 never recovers**, whatever the shares are. -/
theorem C16_threshold_zero (F : Perm) (s0 : Adss.Share) (rest : List Adss.Share) (h0 : s0.thr = 0) :
    ∃ k, recover F (s0 :: rest) = .err k := by
  unfold Adss.recover
  simp only
  rw [h0]
  obtain ⟨k, hk⟩ := Sharks.recover_threshold_zero ((s0 :: rest).map (·.S))
  rw [hk]; exact ⟨k, rfl⟩

/-- **Transcript separation (reduction).** `recover` re-verifies under the default transcript.
If a collection whose first share was created under a custom transcript `T` is accepted, then the
MAC of `(thr, M, R)` under `T` equals the MAC of the recovered `(c.thr, c.M, c.R)` under the default
transcript — an explicit collision between two different STROBE transcripts. -/
theorem C16_transcript_separation (F : Perm) (fuel : Nat) (T : Strobe) (thr : Nat) (M R : Bytes) (x : Nat)
    (s0 : Adss.Share) (rest : List Adss.Share) (c : Commune)
    (hs0 : share F fuel (some T) thr M R x = some (.ok s0))
    (h : recover F (s0 :: rest) = .ok c) :
    macOf F (some T) thr M R = macOf F none c.thr c.M c.R := by
  obtain ⟨d, _, hall, hJ, _⟩ := (C16_deterministic F fuel (some T) thr M R).1 x s0 hs0
  have hs : s0 = ⟨thr, Sharks.evaluate d.polys x, d.C, d.D, d.J⟩ := by
    have := hall x; rw [hs0] at this; injection this with this; injection this with this
  obtain ⟨_, hmac, _⟩ := recover_ok_mac F s0 rest c h
  have hJl : s0.J.length = Params.macLength := by rw [hs]; simp only; rw [hJ, macOf_length]; rfl
  rw [hJl] at hmac
  rw [← hJ]; rw [hs] at hmac; exact hmac

-- non-vacuity: with the identity permutation, a threshold-2 sharing of an empty message recovers
-- from the selection [x=3, x=1, x=3] (a duplicate and a permutation)
example : (match share id 8 none 2 [] [1] 3, share id 8 none 2 [] [1] 1 with
    | some (.ok a), some (.ok b) => some (recover id [a, b, a])
    | _, _ => none) = some (.ok ⟨2, [], [1]⟩) := by decide +kernel

end StarModel.Props.C16
