/-
C07 — The share field is the integers mod 2^128+12451 with one canonical encoding.

Every statement is about `StarModel.Fp` (value-level model of `star_sharks::Fp`), whose modulus,
generator, endianness and element length are regenerated from sharks/src/share_ff.rs on every run.
The `fp` correspondence stream ties the model to the compiled `ff_derive` output.
-/
import StarModel.Lemmas.Field
import StarModel.Lemmas.Bytes
import Mathlib.NumberTheory.LegendreSymbol.Basic

namespace StarModel.Props.C07
open StarModel StarModel.Fp

/-- the configured modulus is the prime 2^128 + 12451 -/
theorem C07_modulus : Fp.p = 2 ^ 128 + 12451 ∧ Nat.Prime Fp.p :=
  ⟨by decide +kernel, modulus_prime⟩

/-- `+ - neg double * square pow` return canonical values and agree with arithmetic in `ZMod p`,
for all operands -/
theorem C07_ring_ops (a b e : Nat) :
    (add a b < p ∧ ((add a b : Nat) : ZMod p) = a + b) ∧
    (sub a b < p ∧ ((sub a b : Nat) : ZMod p) = a - b) ∧
    (neg a < p ∧ ((neg a : Nat) : ZMod p) = -a) ∧
    (double a < p ∧ ((double a : Nat) : ZMod p) = 2 * a) ∧
    (mul a b < p ∧ ((mul a b : Nat) : ZMod p) = a * b) ∧
    (square a < p ∧ ((square a : Nat) : ZMod p) = (a : ZMod p) ^ 2) ∧
    (pow a e < p ∧ ((pow a e : Nat) : ZMod p) = (a : ZMod p) ^ e) :=
  ⟨⟨add_lt _ _, add_cast _ _⟩, ⟨sub_lt _ _, sub_cast _ _⟩, ⟨neg_lt _, neg_cast _⟩,
   ⟨double_lt _, double_cast _⟩, ⟨mul_lt _ _, mul_cast _ _⟩, ⟨square_lt _, square_cast _⟩,
   ⟨pow_lt _ _, pow_cast _ _⟩⟩

/-- big-integer reading: the operations are literally `(a ∘ b) mod p` on canonical operands -/
theorem C07_bigint (a b e : Nat) (ha : a < p) (hb : b < p) :
    add a b = (a + b) % p ∧ sub a b = (a + p - b) % p ∧ neg a = (p - a) % p ∧
    double a = (2 * a) % p ∧ mul a b = (a * b) % p ∧ square a = (a * a) % p ∧ pow a e = a ^ e % p := by
  refine ⟨rfl, ?_, ?_, ?_, rfl, rfl, powMod_eq _ _ _⟩
  · unfold sub; rw [Nat.mod_eq_of_lt hb]; congr 1; omega
  · unfold neg; rw [Nat.mod_eq_of_lt ha]
  · unfold double; congr 1; omega

/-- inversion: `None` exactly on zero, otherwise the canonical multiplicative inverse -/
theorem C07_invert (a : Nat) :
    (invert a = none ↔ (a : ZMod p) = 0) ∧
    ((a : ZMod p) ≠ 0 → ∃ r, invert a = some r ∧ r < p ∧ (r : ZMod p) * a = 1) := by
  refine ⟨invert_none_iff a, fun h => ?_⟩
  obtain ⟨r, hr, hlt, hc⟩ := invert_some a h
  exact ⟨r, hr, hlt, by rw [hc]; exact inv_mul_cancel₀ h⟩

/-- square roots: a returned value is a canonical root, and a root is returned iff one exists -/
theorem C07_sqrt (a : Nat) :
    (∀ r, sqrt a = some r → r < p ∧ (r : ZMod p) ^ 2 = a) ∧
    ((sqrt a).isSome ↔ IsSquare (a : ZMod p)) := by
  refine ⟨fun r h => sqrt_sound a r h, ⟨fun h => ?_, sqrt_complete a⟩⟩
  obtain ⟨r, hr⟩ := Option.isSome_iff_exists.mp h
  exact ⟨r, by rw [← (sqrt_sound a r hr).2]; ring⟩

/-- exactly one 24-byte little-endian encoding per element; everything else is rejected -/
theorem C07_canonical_encoding :
    Params.reprLittleEndian = true ∧ reprLen = 24 ∧ Params.fieldElementLen = 24 ∧
    (∀ a, (toRepr a).length = 24) ∧
    (∀ a, a < p → fromRepr (toRepr a) = some a) ∧
    (∀ bs a, fromRepr bs = some a ↔ bs.length = 24 ∧ Bytes.toNatLE bs < p ∧ Bytes.toNatLE bs = a) ∧
    (∀ bs a, fromRepr bs = some a → toRepr a = bs) ∧
    (∀ a b, a < p → b < p → toRepr a = toRepr b → a = b) := by
  have hLE : Params.reprLittleEndian = true := rfl
  have hlen : reprLen = 24 := by decide +kernel
  have hp : p < 256 ^ 24 := by decide +kernel
  have hiff : ∀ bs a, fromRepr bs = some a ↔ bs.length = 24 ∧ Bytes.toNatLE bs < p ∧ Bytes.toNatLE bs = a := by
    intro bs a
    unfold fromRepr
    simp only [hLE, hlen, if_true]
    by_cases h1 : bs.length = 24
    · by_cases h2 : Bytes.toNatLE bs < p <;> simp [h1, h2]
    · simp [h1]
  have hto : ∀ a, toRepr a = Bytes.ofNatLE 24 a := by intro a; simp [toRepr, hLE, hlen]
  refine ⟨hLE, hlen, rfl, ?_, ?_, hiff, ?_, ?_⟩
  · intro a; simp [hto]
  · intro a ha
    rw [hiff, hto]
    have : Bytes.toNatLE (Bytes.ofNatLE 24 a) = a := by
      rw [Bytes.toNatLE_ofNatLE]; exact Nat.mod_eq_of_lt (by omega)
    simp [this, ha]
  · intro bs a h
    obtain ⟨h1, _, h3⟩ := (hiff bs a).mp h
    rw [hto, ← h3, ← h1, Bytes.ofNatLE_toNatLE]
  · intro a b ha hb h
    rw [hto, hto] at h
    exact Bytes.ofNatLE_injective (by omega) (by omega) h

theorem numBits_eq : numBits = 129 := by
  unfold numBits
  have : Fp.p.log2 = 128 := by
    rw [Nat.log2_eq_log_two]
    exact (Nat.log_eq_iff (by norm_num)).mpr ⟨by decide +kernel, by decide +kernel⟩
  rw [this]

/-- the configured generator has order `p - 1` (it generates the multiplicative group) -/
theorem generator_order : orderOf ((Params.generator : Nat) : ZMod p) = p - 1 := by
  apply orderOf_eq_of_pow_and_pow_div_prime (by have := p_gt_one; omega)
  · rw [← pow_cast]
    have : pow Params.generator (p - 1) = 1 := by decide +kernel
    rw [this]; simp
  · intro q hq hd
    rw [← pm1Factors_prod] at hd
    obtain ⟨x, hx, hdx⟩ := (Prime.dvd_prod_iff hq.prime).mp hd
    obtain ⟨qe, hqe, rfl⟩ := List.mem_map.mp hx
    have hqeq : q = qe.1 :=
      (Nat.prime_dvd_prime_iff_eq hq (pm1Factors_prime qe hqe)).mp (hq.dvd_of_dvd_pow hdx)
    subst hqeq
    have hall : ∀ qe ∈ pm1Factors, pow Params.generator ((p - 1) / qe.1) ≠ 1 := by decide +kernel
    intro hc
    rw [← pow_cast] at hc
    apply hall qe hqe
    apply eq_of_cast_eq (pow_lt _ _) p_gt_one
    rw [hc]; simp

/-- the published constants have the meaning `ff::PrimeField` assigns to them -/
theorem C07_constants :
    numBits = 129 ∧ capacity = 128 ∧ twoAdicity = 1 ∧ p - 1 = 2 ^ twoAdicity * tOdd ∧ tOdd % 2 = 1 ∧
    (twoInv < p ∧ (2 : ZMod p) * (twoInv : Nat) = 1) ∧
    (multiplicativeGenerator < p ∧ orderOf ((multiplicativeGenerator : Nat) : ZMod p) = p - 1 ∧
      ¬ IsSquare ((multiplicativeGenerator : Nat) : ZMod p)) ∧
    (rootOfUnity < p ∧ ((rootOfUnity : Nat) : ZMod p) = ((multiplicativeGenerator : Nat) : ZMod p) ^ tOdd ∧
      ((rootOfUnity : Nat) : ZMod p) ^ 2 ^ twoAdicity = 1 ∧
      ((rootOfUnity : Nat) : ZMod p) ^ 2 ^ (twoAdicity - 1) ≠ 1) ∧
    (rootOfUnityInv < p ∧ ((rootOfUnity : Nat) : ZMod p) * (rootOfUnityInv : Nat) = 1) ∧
    (delta < p ∧ ((delta : Nat) : ZMod p) = ((multiplicativeGenerator : Nat) : ZMod p) ^ 2 ^ twoAdicity) := by
  have hS : twoAdicity = 1 := by decide +kernel
  have hgen : ((multiplicativeGenerator : Nat) : ZMod p) = ((Params.generator : Nat) : ZMod p) := by
    unfold multiplicativeGenerator; rw [cast_mod]
  have hg0 : ((Params.generator : Nat) : ZMod p) ≠ 0 := by
    intro h
    have := generator_order
    rw [h, orderOf_zero] at this
    have := p_gt_one; omega
  have hroot : rootOfUnity = p - 1 := by decide +kernel
  have hrootc : ((rootOfUnity : Nat) : ZMod p) = -1 := by
    rw [hroot, Nat.cast_sub p_gt_one.le]; simp
  refine ⟨numBits_eq, by unfold capacity; rw [numBits_eq], hS, by decide +kernel, by decide +kernel, ⟨pow_lt _ _, ?_⟩,
    ⟨Nat.mod_lt _ p_pos, by rw [hgen]; exact generator_order, ?_⟩, ⟨pow_lt _ _, ?_, ?_, ?_⟩,
    ⟨pow_lt _ _, ?_⟩, ⟨pow_lt _ _, ?_⟩⟩
  · have : mul 2 twoInv = 1 := by decide +kernel
    have h2 := congrArg (Nat.cast (R := ZMod p)) this
    rw [mul_cast, Nat.cast_one, Nat.cast_ofNat] at h2; exact h2
  · -- non-residue: g^((p-1)/2) = rootOfUnity = -1 ≠ 1
    rw [hgen, ZMod.euler_criterion p hg0]
    have h12 : p / 2 = tOdd := by decide +kernel
    have hr : ((Params.generator : Nat) : ZMod p) ^ tOdd = -1 := by rw [← pow_cast]; exact hrootc
    rw [h12, hr]
    intro h
    have h2 : (2 : ZMod p) = 0 := by linear_combination -h
    have : ((2 : Nat) : ZMod p) = 0 := by exact_mod_cast h2
    rw [ZMod.natCast_eq_zero_iff] at this
    have := Nat.le_of_dvd (by norm_num) this
    have hp3 : 3 ≤ p := by decide +kernel
    omega
  · rw [hgen]; unfold rootOfUnity; rw [pow_cast]
  · rw [hrootc, hS]; norm_num
  · rw [hrootc, hS]
    intro h
    have h2 : (2 : ZMod p) = 0 := by
      have : (-1 : ZMod p) = 1 := by simpa using h
      linear_combination -this
    have : ((2 : Nat) : ZMod p) = 0 := by exact_mod_cast h2
    rw [ZMod.natCast_eq_zero_iff] at this
    have := Nat.le_of_dvd (by norm_num) this
    have hp3 : 3 ≤ p := by decide +kernel
    omega
  · have : mul rootOfUnity rootOfUnityInv = 1 := by decide +kernel
    have h2 := congrArg (Nat.cast (R := ZMod p)) this
    rw [mul_cast, Nat.cast_one] at h2; exact h2
  · rw [hgen]; unfold delta; rw [pow_cast]

/-- `sqrt_ratio` never trips the assertion of `ff::helpers::sqrt_ratio_generic` (it did with the
residue generator 3: the model returned `none` = panic for `sqrt_ratio(1, 1)`). -/
theorem C07_sqrtRatio_total (num div : Nat) : (sqrtRatio num div).isSome := by
  have hroot : rootOfUnity = p - 1 := by decide +kernel
  have hrootc : ((rootOfUnity : Nat) : ZMod p) = -1 := by
    rw [hroot, Nat.cast_sub p_gt_one.le]; simp
  have hneg1 : ¬ IsSquare (-1 : ZMod p) := by
    rw [ZMod.exists_sq_eq_neg_one_iff]; simp [p_mod_four]
  unfold sqrtRatio
  simp only
  generalize ha : mul ((invert div).getD 0) num = a
  by_cases hz : num % p = 0 ∨ div % p = 0
  · -- a = 0, both candidates are roots of 0
    have ha0 : (a : ZMod p) = 0 := by
      rw [← ha, mul_cast, invert_getD_cast]
      rcases hz with h | h
      · rw [(cast_eq_zero_iff num).mpr h, mul_zero]
      · rw [(cast_eq_zero_iff div).mpr h, inv_zero, zero_mul]
    have hsa : (sqrt a).isSome := sqrt_complete a (by rw [ha0]; exact ⟨0, by simp⟩)
    obtain ⟨r, hr⟩ := Option.isSome_iff_exists.mp hsa
    have hcond : (num % p = 0 ∨ div % p = 0 ∨ ((sqrt a).isSome != (sqrt (mul a rootOfUnity)).isSome) = true) := by
      rcases hz with h | h
      · exact Or.inl h
      · exact Or.inr (Or.inl h)
    rw [if_pos hcond]
    simp [hr]
  · rw [not_or] at hz
    have hn : (num : ZMod p) ≠ 0 := fun h => hz.1 ((cast_eq_zero_iff num).mp h)
    have hd : (div : ZMod p) ≠ 0 := fun h => hz.2 ((cast_eq_zero_iff div).mp h)
    have ha0 : (a : ZMod p) ≠ 0 := by
      rw [← ha, mul_cast, invert_getD_cast]
      exact mul_ne_zero (inv_ne_zero hd) hn
    have hb : ((mul a rootOfUnity : Nat) : ZMod p) = -(a : ZMod p) := by rw [mul_cast, hrootc]; ring
    have hxor : (sqrt a).isSome ≠ (sqrt (mul a rootOfUnity)).isSome := by
      have h1 := (C07_sqrt a).2
      have h2 := (C07_sqrt (mul a rootOfUnity)).2
      rw [hb] at h2
      by_cases hs : IsSquare (a : ZMod p)
      · have hns : ¬ IsSquare (-(a : ZMod p)) := by
          intro hc
          obtain ⟨x, hx⟩ := hs
          obtain ⟨y, hy⟩ := hc
          have hx0 : x ≠ 0 := by rintro rfl; simp at hx; exact ha0 hx
          apply hneg1
          refine ⟨y / x, ?_⟩
          rw [div_mul_div_comm, ← hy, ← hx, neg_div, div_self ha0]
        have e1 : (sqrt a).isSome = true := h1.mpr hs
        have e2 : (sqrt (mul a rootOfUnity)).isSome = false := by
          cases h : (sqrt (mul a rootOfUnity)).isSome
          · rfl
          · exact absurd (h2.mp h) hns
        rw [e1, e2]; simp
      · have hsq : IsSquare (-(a : ZMod p)) := by
          have ha0' : -(a : ZMod p) ≠ 0 := neg_ne_zero.mpr ha0
          rw [ZMod.euler_criterion p ha0']
          rcases ZMod.pow_div_two_eq_neg_one_or_one p ha0 with h | h
          · exact absurd ((ZMod.euler_criterion p ha0).mpr h) hs
          · have hodd : Odd (p / 2) := by
              have := p_mod_four
              exact ⟨p / 4, by omega⟩
            rw [neg_pow, hodd.neg_one_pow, h]; ring
        have e1 : (sqrt a).isSome = false := by
          cases h : (sqrt a).isSome
          · rfl
          · exact absurd (h1.mp h) hs
        have e2 : (sqrt (mul a rootOfUnity)).isSome = true := h2.mpr hsq
        rw [e1, e2]; simp
    have hcond : (num % p = 0 ∨ div % p = 0 ∨ ((sqrt a).isSome != (sqrt (mul a rootOfUnity)).isSome) = true) :=
      Or.inr (Or.inr (by simpa using hxor))
    rw [if_pos hcond]
    cases hsa : sqrt a with
    | some r => simp
    | none =>
      have : (sqrt (mul a rootOfUnity)).isSome = true := by
        rw [hsa] at hxor
        cases h : (sqrt (mul a rootOfUnity)).isSome
        · simp [h] at hxor
        · rfl
      obtain ⟨r, hr⟩ := Option.isSome_iff_exists.mp this
      simp [hr]

-- non-vacuity: concrete operands meet the hypotheses; a concrete non-canonical string is rejected
example : (2 ^ 128 + 12450 : Nat) < p ∧ add (2 ^ 128 + 12450) 1 = 0 := by decide +kernel
example : fromRepr (Bytes.ofNatLE 24 p) = none := by decide +kernel
example : fromRepr (Bytes.ofNatLE 24 (p - 1)) = some (p - 1) := by decide +kernel
example : sqrtRatio 1 1 = some (true, 1) := by decide +kernel

end StarModel.Props.C07
