/-
C10 — Puncturing removes exactly the punctured inputs and changes nothing else.

All statements are about `StarModel.Ggm` (the statement-by-statement model of ppoprf/src/ggm.rs;
the `ggm` correspondence stream ties it to the compiled crate), generic in the seed type, in the PRG
`g`, in the first-level seeds `s0 s1` and in the input length `inpLen ≥ 1` (tree depth `8 * inpLen`),
and hold for every history of `eval` / `puncture` calls of any length.
-/
import StarModel.Lemmas.Skeleton
import StarModel.Lemmas.Ggm

namespace StarModel.Props.C10
open StarModel StarModel.Ggm

variable {Seed : Type}

/-- the key a caller holds after the history `hist` on a fresh key -/
def keyAfter (g : Bool → Seed → Seed) (inpLen : Nat) (s0 s1 : Seed) (hist : List Op) : Key Seed :=
  (run g inpLen (initKey s0 s1) hist).1

/-- the answers the caller saw -/
def outsAfter (g : Bool → Seed → Seed) (inpLen : Nat) (s0 s1 : Seed) (hist : List Op) :
    List (Out Seed) :=
  (run g inpLen (initKey s0 s1) hist).2

/-- `P`: the inputs (as bit strings) of the `puncture` calls of `hist` that returned `Ok(())`, in
order -/
def puncturedAfter (g : Bool → Seed → Seed) (inpLen : Nat) (s0 s1 : Seed) (hist : List Op) :
    List Bits :=
  successes hist (outsAfter g inpLen s0 s1 hist)

/-! ### the invariant -/

/-- `Inv` holds for the fresh key with nothing punctured -/
theorem C10_inv_init (g : Bool → Seed → Seed) (inpLen : Nat) (hpos : 1 ≤ inpLen) (s0 s1 : Seed) :
    Inv g (8 * inpLen) s0 s1 (initKey s0 s1) [] :=
  inv_init g _ (by omega) s0 s1

/-- a `puncture` that succeeds was applied to a correct-length, not yet punctured input -/
theorem C10_puncture_ok_pre {g : Bool → Seed → Seed} {inpLen : Nat} {s0 s1 : Seed} {k k' : Key Seed}
    {P : List Bits} (h : Inv g (8 * inpLen) s0 s1 k P) {input : Bytes}
    (hok : puncture g inpLen k input = .ok k') :
    input.length = inpLen ∧ inputBits input ∉ P := by
  by_cases hl : input.length = inpLen
  · refine ⟨hl, fun hx => ?_⟩
    rw [puncture_of_mem h hl hx] at hok
    cases hok
  · rw [puncture_bad_length g inpLen k hl] at hok
    cases hok

/-- `Inv` is preserved by every successful `puncture`; `P` becomes `P ++ [inputBits input]` -/
theorem C10_inv_puncture {g : Bool → Seed → Seed} {inpLen : Nat} {s0 s1 : Seed} {k k' : Key Seed}
    {P : List Bits} (h : Inv g (8 * inpLen) s0 s1 k P) {input : Bytes}
    (hok : puncture g inpLen k input = .ok k') :
    Inv g (8 * inpLen) s0 s1 k' (P ++ [inputBits input]) := by
  obtain ⟨hl, hx⟩ := C10_puncture_ok_pre h hok
  obtain ⟨k'', hk'', hinv⟩ := puncture_of_not_mem h hl hx
  rw [hok] at hk''
  cases hk''
  exact hinv

/-- any `eval` and any failing `puncture` leave the caller's key unchanged (no invariant needed) -/
theorem C10_key_unchanged (g : Bool → Seed → Seed) (inpLen : Nat) (k : Key Seed) (input : Bytes) :
    (step g inpLen k (.eval input)).1 = k ∧
    (∀ e, puncture g inpLen k input = .error e → (step g inpLen k (.puncture input)).1 = k) := by
  refine ⟨rfl, fun e he => ?_⟩
  simp [step, he]

/-- every reachable key satisfies the invariant with `P` = the successful punctures in order -/
theorem C10_reachable_inv (g : Bool → Seed → Seed) (inpLen : Nat) (hpos : 1 ≤ inpLen) (s0 s1 : Seed)
    (hist : List Op) :
    Inv g (8 * inpLen) s0 s1 (keyAfter g inpLen s0 s1 hist) (puncturedAfter g inpLen s0 s1 hist) ∧
    outsAfter g inpLen s0 s1 hist = (specRun g inpLen s0 s1 [] hist).2 ∧
    puncturedAfter g inpLen s0 s1 hist = (specRun g inpLen s0 s1 [] hist).1 := by
  obtain ⟨h1, h2⟩ := run_spec (g := g) hist (C10_inv_init g inpLen hpos s0 s1)
  have h3 := specRun_successes g inpLen s0 s1 hist []
  have h4 : puncturedAfter g inpLen s0 s1 hist = (specRun g inpLen s0 s1 [] hist).1 := by
    rw [h3, List.nil_append]
    simp only [puncturedAfter, outsAfter]
    rw [h1]
  exact ⟨by rw [h4]; exact h2, h1, h4⟩

/-! ### the property, at every reachable state -/

/-- appending one call to a history -/
theorem C10_keyAfter_snoc (g : Bool → Seed → Seed) (inpLen : Nat) (s0 s1 : Seed) (hist : List Op)
    (op : Op) :
    keyAfter g inpLen s0 s1 (hist ++ [op]) = (step g inpLen (keyAfter g inpLen s0 s1 hist) op).1 := by
  have hrun : ∀ (h : List Op) (k : Key Seed),
      (run g inpLen k (h ++ [op])).1 = (step g inpLen (run g inpLen k h).1 op).1 := by
    intro h
    induction h with
    | nil => intro k; rfl
    | cons o os ih => intro k; simp only [List.cons_append, run]; exact ih _
  exact hrun hist _

/-- an input that was not punctured still evaluates, to the value it had before ANY puncturing
(the ideal value, which is also what the fresh key returns) -/
theorem C10_eval_unpunctured (g : Bool → Seed → Seed) (inpLen : Nat) (hpos : 1 ≤ inpLen)
    (s0 s1 : Seed) (hist : List Op) (input : Bytes) (hl : input.length = inpLen)
    (hx : inputBits input ∉ puncturedAfter g inpLen s0 s1 hist) :
    eval g inpLen (keyAfter g inpLen s0 s1 hist) input = .ok (ideal g s0 s1 (inputBits input)) ∧
    eval g inpLen (keyAfter g inpLen s0 s1 hist) input = eval g inpLen (initKey s0 s1) input := by
  have h1 := eval_of_not_mem (C10_reachable_inv g inpLen hpos s0 s1 hist).1 hl hx
  have h2 := eval_of_not_mem (C10_inv_init g inpLen hpos s0 s1) hl (by simp)
  exact ⟨h1, by rw [h1, h2]⟩

/-- a punctured input no longer evaluates, and puncturing it again fails and leaves the key
unchanged -/
theorem C10_eval_punctured (g : Bool → Seed → Seed) (inpLen : Nat) (hpos : 1 ≤ inpLen)
    (s0 s1 : Seed) (hist : List Op) (input : Bytes) (hl : input.length = inpLen)
    (hx : inputBits input ∈ puncturedAfter g inpLen s0 s1 hist) :
    eval g inpLen (keyAfter g inpLen s0 s1 hist) input = .error .noPrefixFound ∧
    puncture g inpLen (keyAfter g inpLen s0 s1 hist) input = .error .noPrefixFound ∧
    keyAfter g inpLen s0 s1 (hist ++ [.puncture input]) = keyAfter g inpLen s0 s1 hist := by
  have hinv := (C10_reachable_inv g inpLen hpos s0 s1 hist).1
  have hp := puncture_of_mem hinv hl hx
  refine ⟨eval_of_mem hinv hl hx, hp, ?_⟩
  rw [C10_keyAfter_snoc]
  simp [step, hp]

/-- puncturing a correct-length, not yet punctured input `x` succeeds, makes `P' = P ++ [x]`, and
every other input (of any length) evaluates exactly as before -/
theorem C10_puncture_adds_exactly (g : Bool → Seed → Seed) (inpLen : Nat) (hpos : 1 ≤ inpLen)
    (s0 s1 : Seed) (hist : List Op) (input : Bytes) (hl : input.length = inpLen)
    (hx : inputBits input ∉ puncturedAfter g inpLen s0 s1 hist) :
    ∃ k', puncture g inpLen (keyAfter g inpLen s0 s1 hist) input = .ok k' ∧
      keyAfter g inpLen s0 s1 (hist ++ [.puncture input]) = k' ∧
      puncturedAfter g inpLen s0 s1 (hist ++ [.puncture input]) =
        puncturedAfter g inpLen s0 s1 hist ++ [inputBits input] ∧
      k'.punctured = puncturedAfter g inpLen s0 s1 hist ++ [inputBits input] ∧
      eval g inpLen k' input = .error .noPrefixFound ∧
      ∀ y : Bytes, y ≠ input →
        eval g inpLen k' y = eval g inpLen (keyAfter g inpLen s0 s1 hist) y := by
  have hinv := (C10_reachable_inv g inpLen hpos s0 s1 hist).1
  obtain ⟨k', hk', hinv'⟩ := puncture_of_not_mem hinv hl hx
  have hkey : keyAfter g inpLen s0 s1 (hist ++ [.puncture input]) = k' := by
    rw [C10_keyAfter_snoc]; simp [step, hk']
  -- `P` after the longer history, through the ideal machine
  have hP : puncturedAfter g inpLen s0 s1 (hist ++ [.puncture input]) =
      puncturedAfter g inpLen s0 s1 hist ++ [inputBits input] := by
    have hspec : ∀ (h : List Op) (P : List Bits) (op : Op),
        (specRun g inpLen s0 s1 P (h ++ [op])).1 =
          specStep inpLen (specRun g inpLen s0 s1 P h).1 op := by
      intro h
      induction h with
      | nil => intro P op; rfl
      | cons o os ih => intro P op; simp only [List.cons_append, specRun]; exact ih _ _
    rw [(C10_reachable_inv g inpLen hpos s0 s1 _).2.2, hspec,
      ← (C10_reachable_inv g inpLen hpos s0 s1 hist).2.2]
    simp [specStep, hl, hx]
  refine ⟨k', hk', hkey, hP, hinv'.punct, eval_of_mem hinv' hl (by simp), ?_⟩
  intro y hy
  by_cases hyl : y.length = inpLen
  · have hyb : inputBits y ≠ inputBits input := fun h => hy (inputBits_injective h)
    by_cases hyP : inputBits y ∈ puncturedAfter g inpLen s0 s1 hist
    · rw [eval_of_mem hinv hyl hyP, eval_of_mem hinv' hyl (by simp [hyP])]
    · rw [eval_of_not_mem hinv hyl hyP, eval_of_not_mem hinv' hyl (by simp [hyP, hyb])]
  · rw [eval_bad_length g inpLen _ hyl, eval_bad_length g inpLen _ hyl]

/-- a wrong-length input is refused by `eval` and by `puncture` with `BadInputLength`, on any key,
and the key is unchanged -/
theorem C10_wrong_length (g : Bool → Seed → Seed) (inpLen : Nat) (k : Key Seed) (input : Bytes)
    (hl : input.length ≠ inpLen) :
    eval g inpLen k input = .error .badInputLength ∧
    puncture g inpLen k input = .error .badInputLength ∧
    (step g inpLen k (.eval input)).1 = k ∧ (step g inpLen k (.puncture input)).1 = k := by
  refine ⟨eval_bad_length g inpLen k hl, puncture_bad_length g inpLen k hl, rfl, ?_⟩
  simp [step, puncture_bad_length g inpLen k hl]

/-- `puncture` of a correct-length input succeeds iff the input was not punctured before; the
only errors `puncture` can return at a reachable state are `BadInputLength` and `NoPrefixFound`
(`AlreadyPunctured` and `UnexpectedEndOfBv` are unreachable) -/
theorem C10_puncture_succeeds_iff (g : Bool → Seed → Seed) (inpLen : Nat) (hpos : 1 ≤ inpLen)
    (s0 s1 : Seed) (hist : List Op) (input : Bytes) :
    (input.length = inpLen →
      ((∃ k', puncture g inpLen (keyAfter g inpLen s0 s1 hist) input = .ok k') ↔
        inputBits input ∉ puncturedAfter g inpLen s0 s1 hist)) ∧
    puncture g inpLen (keyAfter g inpLen s0 s1 hist) input ≠ .error .alreadyPunctured ∧
    puncture g inpLen (keyAfter g inpLen s0 s1 hist) input ≠ .error .unexpectedEndOfBv := by
  have hinv := (C10_reachable_inv g inpLen hpos s0 s1 hist).1
  refine ⟨fun hl => ⟨fun ⟨k', hk'⟩ => (C10_puncture_ok_pre hinv hk').2, fun hx => ?_⟩, ?_, ?_⟩
  · obtain ⟨k', hk', _⟩ := puncture_of_not_mem hinv hl hx
    exact ⟨k', hk'⟩
  all_goals
    by_cases hl : input.length = inpLen
    · by_cases hx : inputBits input ∈ puncturedAfter g inpLen s0 s1 hist
      · rw [puncture_of_mem hinv hl hx]; simp
      · obtain ⟨k', hk', _⟩ := puncture_of_not_mem hinv hl hx
        rw [hk']; simp
    · rw [puncture_bad_length g inpLen _ hl]; simp

/-- the lifted statement over arbitrary histories: at every reachable state the key satisfies the
invariant with `P` = the successfully punctured inputs in order, the key's own record equals `P`,
the answers seen so far are those of the ideal machine (which only keeps `P`), and `eval` /
`puncture` on the current key are completely determined by `P` and `ideal` -/
theorem C10_history (g : Bool → Seed → Seed) (inpLen : Nat) (hpos : 1 ≤ inpLen) (s0 s1 : Seed)
    (hist : List Op) :
    let k := keyAfter g inpLen s0 s1 hist
    let P := puncturedAfter g inpLen s0 s1 hist
    Inv g (8 * inpLen) s0 s1 k P ∧
    k.punctured = P ∧
    outsAfter g inpLen s0 s1 hist = (specRun g inpLen s0 s1 [] hist).2 ∧
    P = (specRun g inpLen s0 s1 [] hist).1 ∧
    (∀ input : Bytes,
      eval g inpLen k input =
        (if input.length ≠ inpLen then .error .badInputLength
         else if inputBits input ∈ P then .error .noPrefixFound
         else .ok (ideal g s0 s1 (inputBits input)))) ∧
    (∀ input : Bytes,
      (step g inpLen k (.puncture input)).2 = specOut g inpLen s0 s1 P (.puncture input) ∧
      (step g inpLen k (.puncture input)).1.punctured =
        (if input.length = inpLen ∧ inputBits input ∉ P then P ++ [inputBits input] else P) ∧
      (¬ (input.length = inpLen ∧ inputBits input ∉ P) → (step g inpLen k (.puncture input)).1 = k)) := by
  intro k P
  obtain ⟨hinv, houts, hP⟩ := C10_reachable_inv g inpLen hpos s0 s1 hist
  refine ⟨hinv, hinv.punct, houts, hP, ?_, ?_⟩
  · intro input
    have := (step_spec hinv (.eval input)).1
    simp only [step, specOut, Out.evalRes.injEq] at this
    exact this
  · intro input
    obtain ⟨h1, h2, h3⟩ := step_spec hinv (.puncture input)
    refine ⟨h1, ?_, ?_⟩
    · rw [h2.punct]; rfl
    · intro hn
      apply h3
      simp only [specStep]
      rw [if_neg hn]

/-- reduction: two different inputs of the same length `≥ 1` with the same ideal value exhibit an
explicit collision — either the two first-level seeds coincide (`s0 = s1`, the inputs differing in
their first bit), or at some depth `i ≥ 1` two different (bit, seed) pairs on the two paths are
mapped by the PRG `g` to the same seed -/
theorem C10_distinct_values (g : Bool → Seed → Seed) (s0 s1 : Seed) (x y : Bits)
    (hlen : x.length = y.length) (hpos : 1 ≤ x.length) (hne : x ≠ y)
    (heq : ideal g s0 s1 x = ideal g s0 s1 y) :
    (s0 = s1 ∧ x.getD 0 false ≠ y.getD 0 false) ∨
    ∃ i, 1 ≤ i ∧ i < x.length ∧
      (x.getD i false, ideal g s0 s1 (x.take i)) ≠ (y.getD i false, ideal g s0 s1 (y.take i)) ∧
      g (x.getD i false) (ideal g s0 s1 (x.take i)) = g (y.getD i false) (ideal g s0 s1 (y.take i)) := by
  cases x with
  | nil => simp at hpos
  | cons a r =>
    cases y with
    | nil => simp at hlen
    | cons c r' =>
      have hl' : r.length = r'.length := by simpa using hlen
      rw [ideal_cons, ideal_cons] at heq
      rcases bitEval_collision g r r' _ _ hl' heq with ⟨hr, hs⟩ | ⟨i, hi, hne', hg⟩
      · left
        have hac : a ≠ c := fun h => hne (by rw [h, hr])
        refine ⟨?_, by simpa using hac⟩
        cases a <;> cases c <;> simp_all
      · right
        refine ⟨i + 1, by omega, by simp; omega, ?_, ?_⟩
        · simpa [ideal_cons] using hne'
        · simpa [ideal_cons] using hg

/-- consequence for reachable states: whenever two distinct unpunctured inputs evaluate to the same
output on ANY reachable key, the collision of `C10_distinct_values` exists -/
theorem C10_distinct_outputs (g : Bool → Seed → Seed) (inpLen : Nat) (hpos : 1 ≤ inpLen)
    (s0 s1 : Seed) (hist : List Op) (a b : Bytes) (v : Seed) (hab : a ≠ b)
    (ha : eval g inpLen (keyAfter g inpLen s0 s1 hist) a = .ok v)
    (hb : eval g inpLen (keyAfter g inpLen s0 s1 hist) b = .ok v) :
    let x := inputBits a
    let y := inputBits b
    (s0 = s1 ∧ x.getD 0 false ≠ y.getD 0 false) ∨
    ∃ i, 1 ≤ i ∧ i < x.length ∧
      (x.getD i false, ideal g s0 s1 (x.take i)) ≠ (y.getD i false, ideal g s0 s1 (y.take i)) ∧
      g (x.getD i false) (ideal g s0 s1 (x.take i)) = g (y.getD i false) (ideal g s0 s1 (y.take i)) := by
  intro x y
  have hch := (C10_history g inpLen hpos s0 s1 hist).2.2.2.2.1
  have ha' := hch a
  have hb' := hch b
  rw [ha] at ha'
  rw [hb] at hb'
  by_cases hla : a.length = inpLen
  · by_cases hlb : b.length = inpLen
    · by_cases hPa : inputBits a ∈ puncturedAfter g inpLen s0 s1 hist
      · simp [hla, hPa] at ha'
      · by_cases hPb : inputBits b ∈ puncturedAfter g inpLen s0 s1 hist
        · simp [hlb, hPb] at hb'
        · simp only [hla, hlb, hPa, hPb, ne_eq, not_true_eq_false, if_false, Except.ok.injEq] at ha' hb'
          refine C10_distinct_values g s0 s1 x y ?_ ?_ ?_ ?_
          · simp only [x, y]; rw [inputBits_length, inputBits_length, hla, hlb]
          · simp only [x]; rw [inputBits_length, hla]; omega
          · exact fun h => hab (inputBits_injective h)
          · simp only [x, y]; rw [← ha', ← hb']
    · simp [hlb] at hb'
  · simp [hla] at ha'

/-! ### non-vacuity on a concrete instance: `Seed := Nat`, `g b s = 2 s + b`, one-byte inputs -/

/-- a toy injective PRG -/
def gN (b : Bool) (s : Nat) : Nat := 2 * s + (if b then 1 else 0)

/-- `puncture [0]; puncture [1]; eval [2]; eval [0]; puncture [0]; eval [2,2]` -/
def demoHist : List Op :=
  [.puncture [0], .puncture [1], .eval [2], .eval [0], .puncture [0], .eval [2, 2]]

example : puncturedAfter gN 1 2 3 demoHist = [inputBits [0], inputBits [1]] := by decide
example : (keyAfter gN 1 2 3 demoHist).punctured = [inputBits [0], inputBits [1]] := by decide
-- input 2 still evaluates to its pre-puncture value; input 0 fails; wrong length refused
example : eval gN 1 (keyAfter gN 1 2 3 demoHist) [2] = eval gN 1 (initKey 2 3) [2] := rfl
example : eval gN 1 (keyAfter gN 1 2 3 demoHist) [2] = .ok (ideal gN 2 3 (inputBits [2])) := rfl
example : eval gN 1 (keyAfter gN 1 2 3 demoHist) [2] = .ok 320 := rfl
example : eval gN 1 (keyAfter gN 1 2 3 demoHist) [0] = .error .noPrefixFound := rfl
example : eval gN 1 (keyAfter gN 1 2 3 demoHist) [1] = .error .noPrefixFound := rfl
example : puncture gN 1 (keyAfter gN 1 2 3 demoHist) [2, 2] = .error .badInputLength := by
  exact (C10_wrong_length gN 1 _ [2, 2] (by decide)).2.1
-- the hypotheses of the theorems are satisfiable: an unpunctured and a punctured input exist
example : inputBits [2] ∉ puncturedAfter gN 1 2 3 demoHist := by decide
example : inputBits [0] ∈ puncturedAfter gN 1 2 3 demoHist := by decide
-- the stored nodes after the history: both first-level nodes replaced by their 7 co-path siblings
example : (keyAfter gN 1 2 3 demoHist).prefixes.map (·.1.length) =
    [8, 7, 6, 5, 4, 3, 2, 8, 7, 6, 5, 4, 3, 2] := by decide
-- the collision alternative of `C10_distinct_values` is not vacuous either: a constant PRG collides
example : ideal (fun _ _ => (0 : Nat)) 2 3 (inputBits [0]) = ideal (fun _ _ => (0 : Nat)) 2 3 (inputBits [1]) := by
  decide

end StarModel.Props.C10
