/-
C08 — Wire encodings of shares and reports round-trip and reject malformed input.

`decode` functions of the model mirror the Rust control flow and slicing
(`star_sharks::Share::try_from`, `adss::Share::from_bytes`, `sta_rs::Message::from_bytes`,
`load_bytes`); the `layout` / `msgLayout` definitions are the independent declarative description
of the documented layout. The theorems say: decoders accept *exactly* the strings of that layout
(for all byte strings), decoding inverts encoding, and re-encoding an accepted string yields its
canonical form (partial trailing field element inside S dropped with the S length prefix adjusted,
bytes after the tag chunk dropped, nothing else changed).
-/
import StarModel.Lemmas.Wire

namespace StarModel.Props.C08
open StarModel

/-- canonical form of an encoded Shamir share: complete 24-byte elements only -/
def canonSharks (sb : Bytes) : Bytes := sb.take (24 * (sb.length / 24))

/-- a share value the encoder can represent: canonical field elements, sizes that fit `u32` -/
def AdssValid (v : Adss.Share) : Prop :=
  v.thr < 2 ^ 32 ∧ v.S.Valid ∧ 24 * (v.S.y.length + 1) < 2 ^ 32 ∧ v.C.length < 2 ^ 32 ∧
  v.D.length < 2 ^ 32 ∧ v.J.length = 64

def MsgValid (m : Star.Message) : Prop :=
  m.ciphertext.length < 2 ^ 32 ∧ AdssValid m.share ∧ m.share.toBytes.length < 2 ^ 32 ∧ m.tag.length < 2 ^ 32

/-- **Layout.** Encoders are literally the documented concatenations: 24-byte little-endian
elements; 4-byte LE threshold and length prefixes; 64-byte tag; ciphertext/share/tag chunks. -/
theorem C08_layout (s : Sharks.Share) (v : Adss.Share) (m : Star.Message) :
    Sharks.shareToBytes s = Bytes.ofNatLE 24 s.x ++ (s.y.map (Bytes.ofNatLE 24)).flatten ∧
    v.toBytes = Bytes.le32 v.thr ++ Adss.storeBytes (Sharks.shareToBytes v.S) ++ Adss.storeBytes v.C ++
      Adss.storeBytes v.D ++ v.J ∧
    m.toBytes = Adss.storeBytes m.ciphertext ++ Adss.storeBytes m.share.toBytes ++ Adss.storeBytes m.tag ∧
    (∀ x : Bytes, x.length < 2 ^ 32 → Adss.storeBytes x = Bytes.ofNatLE 4 x.length ++ x) := by
  refine ⟨?_, rfl, rfl, fun x hx => Adss.storeBytes_eq x hx⟩
  unfold Sharks.shareToBytes
  rw [Sharks.toRepr_eq]
  congr 2

/-- **Round trip, Shamir share** -/
theorem C08_sharks_roundtrip (s : Sharks.Share) (h : s.Valid) :
    Sharks.shareFromBytes (Sharks.shareToBytes s) = some s :=
  Sharks.shareFromBytes_toBytes s h

/-- **Accept ⇔ well-formed, Shamir share**, for every byte string: accepted iff at least one
element is present and every complete 24-byte chunk is a canonical field element; the value
re-encodes to the canonical form of the input. -/
theorem C08_sharks_accept_iff (bs : Bytes) (s : Sharks.Share) :
    Sharks.shareFromBytes bs = some s ↔
      24 ≤ bs.length ∧ s.Valid ∧ Sharks.shareToBytes s = canonSharks bs := by
  constructor
  · intro h
    obtain ⟨h1, h2, _, h4⟩ := Sharks.shareFromBytes_some bs s h
    exact ⟨h1, h2, h4⟩
  · rintro ⟨h1, h2, h3⟩
    -- decoding only looks at the complete chunks, so it agrees on `bs` and `canonSharks bs`
    have hrt := Sharks.shareFromBytes_toBytes s h2
    rw [h3] at hrt
    have hfe : Params.fieldElementLen = 24 := rfl
    have hcl : (canonSharks bs).length = 24 * (bs.length / 24) := by
      unfold canonSharks; rw [List.length_take]; omega
    unfold Sharks.shareFromBytes at hrt ⊢
    rw [hfe] at hrt ⊢
    have hn1 : ¬ bs.length < 24 := by omega
    have hn2 : ¬ (canonSharks bs).length < 24 := by rw [hcl]; omega
    simp only [hn1, hn2, if_false] at hrt ⊢
    have htk : (canonSharks bs).take 24 = bs.take 24 := by
      unfold canonSharks; rw [List.take_take]; congr 1; omega
    rw [htk] at hrt
    cases hx : Fp.fromRepr (bs.take 24) with
    | none => rw [hx] at hrt; cases hrt
    | some x =>
      rw [hx] at hrt
      simp only at hrt ⊢
      have hdl : ((canonSharks bs).drop 24).length / 24 = (bs.drop 24).length / 24 := by
        simp [hcl]; omega
      rw [hdl] at hrt
      -- decodeElems reads only the first 24*n bytes
      have hde : ∀ n (a b : Bytes), a.take (24 * n) = b.take (24 * n) →
          Sharks.decodeElems n a = Sharks.decodeElems n b := by
        intro n
        induction n with
        | zero => intros; rfl
        | succ n ih =>
          intro a b hab
          unfold Sharks.decodeElems
          rw [hfe]
          have h24 : a.take 24 = b.take 24 := by
            have := congrArg (List.take 24) hab
            rw [List.take_take, List.take_take] at this
            have hm : min 24 (24 * (n + 1)) = 24 := by omega
            rwa [hm] at this
          have hd : (a.drop 24).take (24 * n) = (b.drop 24).take (24 * n) := by
            have := congrArg (List.drop 24) hab
            rw [List.drop_take, List.drop_take] at this
            have hm : 24 * (n + 1) - 24 = 24 * n := by omega
            rwa [hm] at this
          rw [h24, ih _ _ hd]
      have hdrop : ((canonSharks bs).drop 24).take (24 * ((bs.drop 24).length / 24)) =
          (bs.drop 24).take (24 * ((bs.drop 24).length / 24)) := by
        unfold canonSharks
        rw [List.drop_take, List.take_take]
        congr 1
        simp; omega
      rw [hde _ _ _ hdrop] at hrt
      exact hrt

theorem adssValid_sizes (v : Adss.Share) (h : AdssValid v) :
    (Sharks.shareToBytes v.S).length < 2 ^ 32 := by
  rw [Sharks.shareToBytes_length]; exact h.2.2.1

/-- **Round trip, ADSS share** -/
theorem C08_adss_roundtrip (v : Adss.Share) (h : AdssValid v) :
    Adss.Share.fromBytes v.toBytes = .ok v := by
  obtain ⟨ht, hS, hs, hc, hd, hj⟩ := h
  rw [Adss.toBytes_eq_layout v (by rw [Sharks.shareToBytes_length]; exact hs) hc hd]
  exact Adss.fromBytes_layout v.thr _ v.C v.D v.J v.S ht (by rw [Sharks.shareToBytes_length]; exact hs)
    hc hd hj (Sharks.shareFromBytes_toBytes v.S hS)

/-- **Accept ⇔ well-formed, ADSS share**, for every byte string -/
theorem C08_adss_accept_iff (bs : Bytes) (v : Adss.Share) :
    Adss.Share.fromBytes bs = .ok v ↔
      ∃ sb, bs = Adss.layout v.thr sb v.C v.D v.J ∧ v.thr < 2 ^ 32 ∧ sb.length < 2 ^ 32 ∧
        v.C.length < 2 ^ 32 ∧ v.D.length < 2 ^ 32 ∧ v.J.length = 64 ∧
        Sharks.shareFromBytes sb = some v.S := by
  constructor
  · exact Adss.fromBytes_ok bs v
  · rintro ⟨sb, rfl, ht, hs, hc, hd, hj, hS⟩
    exact Adss.fromBytes_layout v.thr sb v.C v.D v.J v.S ht hs hc hd hj hS

/-- **Canonical re-encoding, ADSS share**: the re-encoding of an accepted string is the same
layout with the inner share canonicalised (and its length prefix adjusted) — nothing else changes;
and the decoded value is one the encoder can represent. -/
theorem C08_adss_reencode (bs : Bytes) (v : Adss.Share) (h : Adss.Share.fromBytes bs = .ok v) :
    AdssValid v ∧ ∃ sb, bs = Adss.layout v.thr sb v.C v.D v.J ∧
      v.toBytes = Adss.layout v.thr (canonSharks sb) v.C v.D v.J := by
  obtain ⟨sb, hbs, ht, hs, hc, hd, hj, hS⟩ := Adss.fromBytes_ok bs v h
  obtain ⟨h24, hval, hyl, henc⟩ := Sharks.shareFromBytes_some sb v.S hS
  have hsz : 24 * (v.S.y.length + 1) < 2 ^ 32 := by rw [hyl]; omega
  refine ⟨⟨ht, hval, hsz, hc, hd, hj⟩, sb, hbs, ?_⟩
  rw [Adss.toBytes_eq_layout v (by rw [Sharks.shareToBytes_length]; exact hsz) hc hd, henc]
  rfl

/-- **Round trip, report** -/
theorem C08_message_roundtrip (m : Star.Message) (h : MsgValid m) :
    Star.Message.fromBytes m.toBytes = .ok m := by
  obtain ⟨hc, hv, hs, ht⟩ := h
  rw [Star.toBytes_eq_msgLayout m hc hs ht]
  exact Star.fromBytes_msgLayout _ _ _ _ m.share hc hs ht (C08_adss_roundtrip m.share hv)

/-- **Accept ⇔ well-formed, report**, for every byte string -/
theorem C08_message_accept_iff (bs : Bytes) (m : Star.Message) :
    Star.Message.fromBytes bs = .ok m ↔
      ∃ sb rest, bs = Star.msgLayout m.ciphertext sb m.tag rest ∧ m.ciphertext.length < 2 ^ 32 ∧
        sb.length < 2 ^ 32 ∧ m.tag.length < 2 ^ 32 ∧ Adss.Share.fromBytes sb = .ok m.share := by
  constructor
  · exact Star.fromBytes_ok bs m
  · rintro ⟨sb, rest, rfl, hc, hs, ht, hsh⟩
    exact Star.fromBytes_msgLayout _ sb _ rest m.share hc hs ht hsh

/-- **Canonical re-encoding, report**: trailing bytes after the tag chunk are dropped, the share
chunk is replaced by its canonical re-encoding (length prefix adjusted), nothing else changes. -/
theorem C08_message_reencode (bs : Bytes) (m : Star.Message) (h : Star.Message.fromBytes bs = .ok m) :
    ∃ sb rest, bs = Star.msgLayout m.ciphertext sb m.tag rest ∧
      Adss.Share.fromBytes sb = .ok m.share ∧
      m.toBytes = Star.msgLayout m.ciphertext m.share.toBytes m.tag [] ∧
      m.share.toBytes.length ≤ sb.length := by
  obtain ⟨sb, rest, hbs, hc, hs, ht, hsh⟩ := Star.fromBytes_ok bs m h
  obtain ⟨hv, sb', hsb, henc⟩ := C08_adss_reencode sb m.share hsh
  have hle : m.share.toBytes.length ≤ sb.length := by
    rw [henc, hsb]
    unfold Adss.layout canonSharks
    simp only [List.length_append, List.length_take, Bytes.le32_length]
    omega
  refine ⟨sb, rest, hbs, hsh, ?_, hle⟩
  exact Star.toBytes_eq_msgLayout m hc (by omega) ht

/-- decoders never panic (the `Outcome.panic` constructor is unreachable), for every byte string -/
theorem C08_decoders_total (bs : Bytes) :
    (∀ w, Adss.loadBytes bs ≠ .panic w) ∧ (∀ w, Adss.Share.fromBytes bs ≠ .panic w) ∧
    (∀ w, Star.Message.fromBytes bs ≠ .panic w) := by
  have hlb : ∀ (b : Bytes) w, Adss.loadBytes b ≠ .panic w := Adss.loadBytes_not_panic
  have hsh : ∀ (b : Bytes) w, Adss.Share.fromBytes b ≠ .panic w := by
    intro b w
    unfold Adss.Share.fromBytes
    split
    · simp
    · simp only
      cases h1 : Adss.loadBytes (b.drop Params.accessStructureLength) with
      | err k => simp
      | panic w' => exact absurd h1 (hlb _ _)
      | ok sb =>
        simp only
        cases h2 : Adss.loadBytes ((b.drop Params.accessStructureLength).drop (4 + sb.length)) with
        | err k => simp
        | panic w' => exact absurd h2 (hlb _ _)
        | ok c =>
          simp only
          cases h3 : Adss.loadBytes (((b.drop Params.accessStructureLength).drop (4 + sb.length)).drop (4 + c.length)) with
          | err k => simp
          | panic w' => exact absurd h3 (hlb _ _)
          | ok d =>
            simp only
            split
            · simp
            · split <;> simp
  refine ⟨hlb bs, hsh bs, ?_⟩
  intro w
  unfold Star.Message.fromBytes
  cases h1 : Adss.loadBytes bs with
  | err k => simp
  | panic w' => exact absurd h1 (hlb _ _)
  | ok cb =>
    simp only
    cases h2 : Adss.loadBytes (bs.drop (4 + cb.length)) with
    | err k => simp
    | panic w' => exact absurd h2 (hlb _ _)
    | ok sb =>
      simp only
      cases h3 : Adss.Share.fromBytes sb with
      | err k => simp
      | panic w' => exact absurd h3 (hsh _ _)
      | ok sh =>
        simp only
        cases h4 : Adss.loadBytes ((bs.drop (4 + cb.length)).drop (4 + sb.length)) with
        | err k => simp
        | panic w' => exact absurd h4 (hlb _ _)
        | ok t => simp

-- non-vacuity: a concrete valid share round-trips; a concrete non-canonical string is re-encoded
example : AdssValid ⟨2, ⟨5, [7]⟩, [1, 2], [], List.replicate 64 0⟩ := by
  refine ⟨by decide, ⟨by decide +kernel, ?_⟩, by decide, by decide, by decide, by decide⟩
  intro y hy; simp at hy; subst hy; decide +kernel
example : Sharks.shareFromBytes (Bytes.ofNatLE 24 5 ++ Bytes.ofNatLE 24 7 ++ [9, 9]) = some ⟨5, [7]⟩ := by
  decide +kernel
example : Sharks.shareFromBytes (Bytes.ofNatLE 24 Fp.p) = none := by decide +kernel

end StarModel.Props.C08
