/-
C01 — Threshold recovery: ≥ t matching reports always reveal measurement and associated data.
For every STROBE permutation `F`, measurement, epoch, threshold `t ≥ 1`, client randomness `rnd`
(arbitrary bytes: locally derived or from the randomness server), per-client associated data and
OS-random share points `x` (universally quantified), and every selection of reports.
-/
import StarModel.Lemmas.Skeleton
import StarModel.Lemmas.Star
import StarModel.Props.C08

namespace StarModel.Props.C01
open StarModel StarModel.Star

/-- a client: its associated data (or absence) and the share point its OS RNG drew -/
abbrev Client := Option Bytes × Nat

/-- **Recovery and decryption.** Clients of one `(measurement, epoch, threshold, rnd)` produce
reports `rep c`. From EVERY selection `sel` of those reports — any order, repeats, surplus — that
contains `t` distinct share points, `share_recover` returns the commune `(t, r₀, r₁)`, and EVERY
client's ciphertext decrypts, under the key re-derived from the recovered message and the epoch,
to a payload that parses to exactly `(measurement, aux)` with `none`, `some []` and longer data
distinguished. -/
theorem C01_recover_and_decrypt (F : Perm) (fuel : Nat) (m e : Bytes) (t : Nat) (ht : 1 ≤ t) (rnd : Bytes)
    (clients : List Client) (rep : Client → Message)
    (hgen : ∀ c ∈ clients, generate F fuel m e t rnd c.1 c.2 = some (.ok (rep c)))
    (hx : ∀ c ∈ clients, c.2 < Fp.p)
    (hm : m.length < 2 ^ 32) (haux : ∀ c ∈ clients, ∀ a, c.1 = some a → a.length < 2 ^ 32)
    (sel : List Client) (hsel : ∀ c ∈ sel, c ∈ clients)
    (hcount : t ≤ (sel.map (·.2)).toFinset.card) :
    shareRecover F (sel.map fun c => (rep c).share) = .ok ⟨t, deriveRandom F rnd 0, deriveRandom F rnd 1⟩ ∧
    ∀ c ∈ clients,
      parsePayload (decrypt F (deriveSkeKey F (deriveRandom F rnd 0) e) (rep c).ciphertext
        Params.starEncryptLabel) = some (m, c.1) := by
  have hne : sel ≠ [] := by intro h; rw [h] at hcount; simp at hcount; omega
  obtain ⟨c0, hc0⟩ := List.exists_mem_of_ne_nil sel hne
  obtain ⟨d, hd, _, _, _⟩ := generate_ok F fuel m e t rnd c0.1 c0.2 (rep c0) (hgen c0 (hsel c0 hc0))
  have hshare : ∀ c ∈ clients, (rep c).share = ⟨t, Sharks.evaluate d.polys c.2, d.C, d.D, d.J⟩ ∧
      (rep c).ciphertext = encrypt F (deriveSkeKey F (deriveRandom F rnd 0) e) (payload m c.1)
        Params.starEncryptLabel := by
    intro c hc
    obtain ⟨d', hd', hs, _, hct⟩ := generate_ok F fuel m e t rnd c.1 c.2 (rep c) (hgen c hc)
    rw [hd] at hd'; injection hd' with hd'; injection hd' with hd'; subst hd'
    exact ⟨hs, hct⟩
  constructor
  · unfold shareRecover
    have heq : (sel.map fun c => (rep c).share) =
        (sel.map (·.2)).map fun x => (⟨t, Sharks.evaluate d.polys x, d.C, d.D, d.J⟩ : Adss.Share) := by
      rw [List.map_map]
      apply List.map_congr_left
      intro c hc
      exact (hshare c (hsel c hc)).1
    rw [heq]
    apply Adss.recover_honest F fuel t ht _ _ d hd _ _ hcount
    intro x hx'
    obtain ⟨c, hc, rfl⟩ := List.mem_map.mp hx'
    exact hx c (hsel c hc)
  · intro c hc
    rw [(hshare c hc).2, decrypt_encrypt]
    exact parsePayload_payload m c.1 hm (haux c hc)

/-- **Through the wire.** Every generated report survives `Message::to_bytes` / `from_bytes`
unchanged (so the statement above holds verbatim for decoded reports). -/
theorem C01_wire_roundtrip (F : Perm) (fuel : Nat) (m e : Bytes) (t : Nat) (ht : 1 ≤ t) (ht32 : t < 2 ^ 32)
    (rnd : Bytes) (aux : Option Bytes) (x : Nat) (hx : x < Fp.p) (msg : Message)
    (hpl : (payload m aux).length < 2 ^ 32)
    (h : generate F fuel m e t rnd aux x = some (.ok msg)) :
    Message.fromBytes msg.toBytes = .ok msg := by
  obtain ⟨d, hd, hs, htag, hct⟩ := generate_ok F fuel m e t rnd aux x msg h
  obtain ⟨hJ, _, hC, hD, _⟩ := Adss.deal_ok F fuel none t _ _ d hd
  obtain ⟨hdealt, _⟩ := Adss.deal_secret F fuel none t ht _ _ d hd
  have hCl : d.C.length = 32 := by rw [hC, Strobe.sendEnc_length]; exact strobeDigest_length F _ _ _
  have hDl : d.D.length = 32 := by rw [hD, Strobe.sendEnc_length]; exact strobeDigest_length F _ _ _
  have hJl : d.J.length = 64 := by rw [hJ]; exact Adss.macOf_length F none t _ _
  have hyl : (Sharks.evaluate d.polys x).y.length = 1 := by
    obtain ⟨_, _, _, _, g', hdf⟩ := Adss.deal_ok F fuel none t _ _ d hd
    have := hdf.length
    simp [Sharks.evaluate, this]
  have hvalid : (Sharks.evaluate d.polys x).Valid := by
    refine ⟨hx, ?_⟩
    intro y hy
    simp only [Sharks.evaluate, List.mem_map] at hy
    obtain ⟨poly, hp, rfl⟩ := hy
    rcases Sharks.evalPoly_lt poly x with h | h
    · exact h
    · obtain ⟨hl, _⟩ := hdealt poly hp; rw [h] at hl; simp at hl; omega
  have hadss : C08.AdssValid msg.share := by
    rw [hs]
    exact ⟨ht32, hvalid, by rw [hyl]; norm_num, by rw [hCl]; norm_num, by rw [hDl]; norm_num, hJl⟩
  apply C08.C08_message_roundtrip
  refine ⟨?_, hadss, ?_, ?_⟩
  · rw [hct]; unfold encrypt; rw [Strobe.sendEnc_length]; exact hpl
  · rw [hs]
    unfold Adss.Share.toBytes Adss.storeBytes
    simp only [List.length_append, Bytes.le32_length, Sharks.shareToBytes_length, hyl, hCl, hDl, hJl]
    norm_num
  · rw [htag]; unfold deriveRandom; rw [strobeDigest_length]; norm_num

/-- **End to end through the wire.** The aggregation side never sees `rep c`, only the bytes
`(rep c).toBytes`. Whatever list of byte strings it receives that are the encodings of selected
reports, decoding every one of them with `Message::from_bytes` succeeds, and recovery and
decryption from the DECODED reports give the commune, the measurement and every client's
associated data exactly as in `C01_recover_and_decrypt`. -/
theorem C01_recover_and_decrypt_from_wire (F : Perm) (fuel : Nat) (m e : Bytes) (t : Nat) (ht : 1 ≤ t)
    (ht32 : t < 2 ^ 32) (rnd : Bytes)
    (clients : List Client) (rep : Client → Message)
    (hgen : ∀ c ∈ clients, generate F fuel m e t rnd c.1 c.2 = some (.ok (rep c)))
    (hx : ∀ c ∈ clients, c.2 < Fp.p)
    (hm : m.length < 2 ^ 32) (haux : ∀ c ∈ clients, ∀ a, c.1 = some a → a.length < 2 ^ 32)
    (hpl : ∀ c ∈ clients, (payload m c.1).length < 2 ^ 32)
    (sel : List Client) (hsel : ∀ c ∈ sel, c ∈ clients)
    (hcount : t ≤ (sel.map (·.2)).toFinset.card) :
    ∃ dec : Client → Message,
      (∀ c ∈ clients, Message.fromBytes (rep c).toBytes = .ok (dec c)) ∧
      shareRecover F (sel.map fun c => (dec c).share) =
        .ok ⟨t, deriveRandom F rnd 0, deriveRandom F rnd 1⟩ ∧
      ∀ c ∈ clients,
        parsePayload (decrypt F (deriveSkeKey F (deriveRandom F rnd 0) e) (dec c).ciphertext
          Params.starEncryptLabel) = some (m, c.1) :=
  ⟨rep,
   fun c hc => C01_wire_roundtrip F fuel m e t ht ht32 rnd c.1 c.2 (hx c hc) (rep c) (hpl c hc) (hgen c hc),
   C01_recover_and_decrypt F fuel m e t ht rnd clients rep hgen hx hm haux sel hsel hcount⟩

/-- decoding is a function: the decoded report is determined by the bytes, so the `dec` above is
the only one — a server cannot decode the same bytes to a different report. -/
theorem C01_decoded_report_unique (F : Perm) (fuel : Nat) (m e : Bytes) (t : Nat) (ht : 1 ≤ t)
    (ht32 : t < 2 ^ 32) (rnd : Bytes) (aux : Option Bytes) (x : Nat) (hx : x < Fp.p) (msg msg' : Message)
    (hpl : (payload m aux).length < 2 ^ 32)
    (h : generate F fuel m e t rnd aux x = some (.ok msg))
    (hdec : Message.fromBytes msg.toBytes = .ok msg') : msg' = msg := by
  have := C01_wire_roundtrip F fuel m e t ht ht32 rnd aux x hx msg hpl h
  rw [this] at hdec
  injection hdec with hdec; exact hdec.symm

/-- both randomness sources: the statement holds in particular for locally derived randomness -/
theorem C01_local_randomness (F : Perm) (fuel : Nat) (m e : Bytes) (t : Nat) (ht : 1 ≤ t)
    (clients : List Client) (rep : Client → Message)
    (hgen : ∀ c ∈ clients, generate F fuel m e t (sampleLocalRandomness F m e t) c.1 c.2 = some (.ok (rep c)))
    (hx : ∀ c ∈ clients, c.2 < Fp.p)
    (hm : m.length < 2 ^ 32) (haux : ∀ c ∈ clients, ∀ a, c.1 = some a → a.length < 2 ^ 32)
    (sel : List Client) (hsel : ∀ c ∈ sel, c ∈ clients)
    (hcount : t ≤ (sel.map (·.2)).toFinset.card) :
    ∃ r0 r1, shareRecover F (sel.map fun c => (rep c).share) = .ok ⟨t, r0, r1⟩ ∧
    ∀ c ∈ clients, parsePayload (decrypt F (deriveSkeKey F r0 e) (rep c).ciphertext
        Params.starEncryptLabel) = some (m, c.1) :=
  ⟨_, _, C01_recover_and_decrypt F fuel m e t ht _ clients rep hgen hx hm haux sel hsel hcount⟩

-- non-vacuity: identity permutation, threshold 2, three clients (aux none / some [] / some [7]),
-- selection [2,0,2] by index: recovery succeeds and client 1's payload parses to (m, some [])
example :
    (match generate id 8 [5] [] 2 [9] none 3, generate id 8 [5] [] 2 [9] (some []) 4,
        generate id 8 [5] [] 2 [9] (some [7]) 6 with
    | some (.ok a), some (.ok b), some (.ok c) =>
      (match shareRecover id [c.share, a.share, c.share] with
       | .ok cm => some (parsePayload (decrypt id (deriveSkeKey id cm.M []) b.ciphertext Params.starEncryptLabel))
       | _ => none)
    | _, _, _ => none) = some (some ([5], some [])) := by decide +kernel

end StarModel.Props.C01
