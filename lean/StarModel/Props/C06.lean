/-
C06 — Secret sharing is textbook Shamir over GF(2^128+12451).

All statements are about `StarModel.Sharks`, the statement-by-statement model of
sharks/src/lib.rs and sharks/src/share_ff.rs, for every threshold, secret, RNG (`next`, any state
type) and every selection of shares. `K = ZMod p` with `p` prime (C07) is the "independent
big-integer model": `polyOf` is an honest `Polynomial (ZMod p)`.
-/
import StarModel.Lemmas.Dealer

open Polynomial

namespace StarModel.Props.C06
open StarModel StarModel.Sharks

variable {σ : Type}

/-- **Dealer structure.** A successful `dealer_rng` deals, for the secret's complete 24-byte chunks
(a trailing partial chunk is ignored), one polynomial per chunk: `t-1` consecutive `Fp::random`
draws of the supplied RNG (each polynomial continuing where the previous one stopped: every
coefficient is a separate draw) followed by the chunk's element as constant term. -/
theorem C06_dealer_structure (next : σ → σ × Nat) (fuel t : Nat) (secret : Bytes) (g g' : σ)
    (polys : List (List Nat)) (h : dealerRng next fuel t secret g = some (.ok (g', polys))) :
    ∃ elems : List Nat,
      (chunks 24 (secret.length / 24) secret).map Fp.fromRepr = elems.map some ∧
      (∀ e ∈ elems, e < Fp.p) ∧
      DealtFrom next fuel t elems g g' polys ∧
      polys.length = secret.length / 24 := by
  unfold dealerRng at h
  obtain ⟨elems, hdec, hdf⟩ := dealPolys_ok next fuel t _ g g' polys h
  have hel : ∀ e ∈ elems, e < Fp.p := by
    intro e he
    have : some e ∈ elems.map some := List.mem_map_of_mem he
    rw [← hdec] at this
    obtain ⟨c, _, hc⟩ := List.mem_map.mp this
    exact (fromRepr_some c e hc).2.1
  refine ⟨elems, hdec, hel, hdf, ?_⟩
  have hl : polys.length = elems.length := by
    clear h hdec hel
    induction hdf with
    | nil => rfl
    | cons _ _ _ _ _ _ _ _ _ ih => simp [ih]
  have := congrArg List.length hdec
  simp [chunks] at this
  rw [hl, ← this]; rfl

/-- each dealt polynomial has exactly `t` coefficients (degree ≤ t-1) for `t ≥ 1`, canonical
coefficients, and the secret's element as constant term -/
theorem C06_polynomial_shape (next : σ → σ × Nat) (fuel t : Nat) (ht : 1 ≤ t) (secret : Bytes) (g g' : σ)
    (polys : List (List Nat)) (h : dealerRng next fuel t secret g = some (.ok (g', polys))) :
    Dealt t polys ∧ (∀ poly ∈ polys, ∀ c ∈ poly, c < Fp.p) ∧
    (∀ poly ∈ polys, (polyOf poly).degree < t) ∧
    secretOf polys = secret.take (24 * (secret.length / 24)) := by
  obtain ⟨elems, hdec, hel, hdf, _⟩ := C06_dealer_structure next fuel t secret g g' polys h
  obtain ⟨hd, hlast, hc⟩ := hdf.dealt ht hel
  refine ⟨hd, hc, ?_, ?_⟩
  · intro poly hp
    have := polyOf_degree_lt poly
    rwa [(hd poly hp).1] at this
  · rw [secretOf_dealt elems polys _ hlast hdec]
    exact chunks_flatten _ _ (by omega)

/-- **Refusal.** A secret containing an out-of-range element is refused rather than altered;
a secret whose elements are all in range is never refused; the dealer never panics. -/
theorem C06_dealer_refusal (next : σ → σ × Nat) (fuel t : Nat) (secret : Bytes) (g : σ) :
    ((∃ c ∈ chunks 24 (secret.length / 24) secret, Fp.fromRepr c = none) →
        ∀ r, dealerRng next fuel t secret g ≠ some (.ok r)) ∧
    ((∀ c ∈ chunks 24 (secret.length / 24) secret, (Fp.fromRepr c).isSome) →
        ∀ k, dealerRng next fuel t secret g ≠ some (.err k)) ∧
    (∀ w, dealerRng next fuel t secret g ≠ some (.panic w)) :=
  ⟨dealPolys_refuses next fuel t _ g, dealPolys_err_iff next fuel t _ g, dealPolys_not_panic next fuel t _ g⟩

/-- **Every share is a point on the dealt polynomials**: `(x, f₁(x), …, f_k(x))` with
`f_j = polyOf (polys j)` evaluated in `ZMod p`, values canonical. -/
theorem C06_share_is_point (polys : List (List Nat)) (x : Nat) :
    (evaluate polys x).x = x ∧ (evaluate polys x).y.length = polys.length ∧
    ∀ j (hj : j < polys.length), ∃ (hj' : j < (evaluate polys x).y.length),
      (((evaluate polys x).y[j] : Nat) : K) = (polyOf polys[j]).eval (x : K) := by
  refine ⟨rfl, by simp [evaluate], ?_⟩
  intro j hj
  refine ⟨by simpa [evaluate] using hj, ?_⟩
  simp only [evaluate, List.getElem_map]
  exact evalPoly_cast _ _

/-- shares from the sequential iterator: the `n`-th `next()` sits at `x = n mod p`, which is
non-zero for `1 ≤ n < p` -/
theorem C06_iterator_points (polys : List (List Nat)) (n : Nat) :
    let step := fun (x : Nat) => (nextShare polys x).1
    (Nat.iterate step n 0 = n % Fp.p) ∧
    (nextShare polys (n % Fp.p)).2 = evaluate polys ((n + 1) % Fp.p) ∧
    (1 ≤ n → n < Fp.p → n % Fp.p ≠ 0) := by
  have hstep : ∀ x, (nextShare polys x).1 = (x + 1) % Fp.p := fun x => rfl
  refine ⟨?_, ?_, ?_⟩
  · induction n with
    | zero => simp [Nat.mod_eq_of_lt Fp.p_pos]
    | succ n ih =>
      rw [Function.iterate_succ_apply', ih]
      show (n % Fp.p + 1) % Fp.p = (n + 1) % Fp.p
      rw [Nat.add_mod, Nat.mod_mod, ← Nat.add_mod]
  · show evaluate polys ((n % Fp.p + 1) % Fp.p) = _
    congr 1
    rw [Nat.add_mod, Nat.mod_mod, ← Nat.add_mod]
  · intro h1 h2; rw [Nat.mod_eq_of_lt h2]; omega

/-- shares from random points (`Evaluator::gen`): the point is a canonical **non-zero** draw of the
supplied RNG and the share is the evaluation there -/
theorem C06_gen_nonzero (next : σ → σ × Nat) (fuel : Nat) (polys : List (List Nat)) (g g' : σ)
    (sh : Share) (h : gen next fuel polys g = some (g', sh)) :
    sh.x ≠ 0 ∧ sh.x < Fp.p ∧ sh = evaluate polys sh.x := by
  unfold gen at h
  cases hr : randomNonzero next fuel fuel g with
  | none => rw [hr] at h; cases h
  | some r =>
    obtain ⟨g1, x⟩ := r
    rw [hr] at h
    injection h with h; injection h with _ h2; subst h2
    have key : ∀ k g, randomNonzero next fuel k g = some (g1, x) → x ≠ 0 ∧ x < Fp.p := by
      intro k
      induction k with
      | zero => intro g h; cases h
      | succ k ih =>
        intro g h
        unfold randomNonzero at h
        cases hq : Fp.random next fuel g with
        | none => rw [hq] at h; cases h
        | some q =>
          obtain ⟨g2, v⟩ := q
          rw [hq] at h
          simp only at h
          by_cases hv : v = 0
          · rw [if_pos hv] at h; exact ih _ h
          · rw [if_neg hv] at h
            injection h with h; injection h with _ h2; subst h2
            exact ⟨hv, random_lt next fuel _ _ _ hq⟩
    obtain ⟨h0, hlt⟩ := key fuel g hr
    exact ⟨h0, hlt, rfl⟩

/-- **Recovery.** For any dealing with threshold `t ≥ 1` and ANY collection of its shares
(any order, with duplicates and surplus): recovery returns exactly the secret's bytes when the
collection holds at least `t` distinct points, and refuses otherwise. -/
theorem C06_recover (next : σ → σ × Nat) (fuel t : Nat) (ht : 1 ≤ t) (secret : Bytes) (g g' : σ)
    (polys : List (List Nat)) (h : dealerRng next fuel t secret g = some (.ok (g', polys)))
    (xs : List Nat) (hx : ∀ x ∈ xs, x < Fp.p) :
    recover t (xs.map (evaluate polys)) =
      if t ≤ xs.toFinset.card then .ok (secret.take (24 * (secret.length / 24))) else .err "few" := by
  obtain ⟨hd, _, _, hsec⟩ := C06_polynomial_shape next fuel t ht secret g g' polys h
  rw [recover_evaluate t ht polys hd xs hx, hsec]

/-- order independence, as a corollary: any two collections with the same set of points behave alike -/
theorem C06_recover_order_independent (t : Nat) (ht : 1 ≤ t) (polys : List (List Nat)) (hp : Dealt t polys)
    (xs ys : List Nat) (hx : ∀ x ∈ xs, x < Fp.p) (hy : ∀ y ∈ ys, y < Fp.p)
    (hset : xs.toFinset = ys.toFinset) :
    recover t (xs.map (evaluate polys)) = recover t (ys.map (evaluate polys)) := by
  rw [recover_evaluate t ht polys hp xs hx, recover_evaluate t ht polys hp ys hy, hset]

/-- shares of unequal length are refused; threshold 0 never recovers; recovery never panics —
for arbitrary shares, not only dealt ones -/
theorem C06_recover_refusals (t : Nat) (s0 : Share) (rest : List Share) :
    ((∃ s ∈ rest, s.y.length ≠ s0.y.length) → recover t (s0 :: rest) = .err "length") ∧
    (∃ k, recover 0 (s0 :: rest) = .err k) ∧
    (∀ w, recover t (s0 :: rest) ≠ .panic w) :=
  ⟨recover_ragged t s0 rest, recover_threshold_zero _, fun w => recover_not_panic t _ w⟩

-- non-vacuity: a concrete dealing (list RNG) and a concrete recovery from a permuted selection
-- with a duplicate
private def lnext (ws : List Nat) : List Nat × Nat := match ws with | [] => ([], 0) | w :: r => (r, w)
example : ((dealerRng lnext 4 2 (Bytes.ofNatLE 24 7) [5, 6, 0]).bind fun o =>
    match o with
    | .ok (_, polys) => some (recover 2 ([3, 1, 3].map (evaluate polys)))
    | _ => none) = some (.ok (Bytes.ofNatLE 24 7)) := by decide +kernel

end StarModel.Props.C06
