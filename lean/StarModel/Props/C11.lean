/-
C11 — After puncturing, the retained key material does not contain (or determine) the punctured
values: what a `GGM` key RETAINS at any reachable state.

Same setting as C10: `StarModel.Ggm`, generic in the seed type, the PRG `g`, the first-level seeds
and the input length `inpLen ≥ 1`; every statement is for every history of calls (`keyAfter`,
`puncturedAfter` from C10: the key held after the history, and the successfully punctured inputs).
-/
import StarModel.Props.C10
import StarModel.Props.C14

namespace StarModel.Props.C11
open StarModel StarModel.Ggm StarModel.Props.C10

variable {Seed : Type}

/-- for every punctured input `x`: no retained node is a prefix of `x` — no node of the root→`x`
path survives at any depth, in particular the leaf `x` itself is not stored -/
theorem C11_no_ancestor_retained (g : Bool → Seed → Seed) (inpLen : Nat) (hpos : 1 ≤ inpLen)
    (s0 s1 : Seed) (hist : List Op) (x : Bits) (hx : x ∈ puncturedAfter g inpLen s0 s1 hist) :
    (∀ ps ∈ (keyAfter g inpLen s0 s1 hist).prefixes, ¬ ps.1 <+: x) ∧
    (∀ i, x.take i ∉ (keyAfter g inpLen s0 s1 hist).prefixes.map Prod.fst) ∧
    x ∉ (keyAfter g inpLen s0 s1 hist).prefixes.map Prod.fst ∧
    x.length = 8 * inpLen := by
  have hinv := (C10_reachable_inv g inpLen hpos s0 s1 hist).1
  have h1 := hinv.no_ancestor hx
  refine ⟨h1, ?_, ?_, hinv.full x hx⟩
  · intro i hm
    obtain ⟨ps, hps, he⟩ := List.mem_map.1 hm
    exact h1 ps hps (by rw [he]; exact List.take_prefix _ _)
  · intro hm
    obtain ⟨ps, hps, he⟩ := List.mem_map.1 hm
    exact h1 ps hps (by rw [he]; first | done | exact List.prefix_refl _)

/-- every unpunctured full-length input lies below exactly one retained node: existence,
uniqueness of the member, and exactly one storage position; a punctured one below none -/
theorem C11_cover (g : Bool → Seed → Seed) (inpLen : Nat) (hpos : 1 ≤ inpLen)
    (s0 s1 : Seed) (hist : List Op) (x : Bits) (hl : x.length = 8 * inpLen) :
    (x ∉ puncturedAfter g inpLen s0 s1 hist →
      (∃ ps ∈ (keyAfter g inpLen s0 s1 hist).prefixes, ps.1 <+: x ∧
        ∀ ps' ∈ (keyAfter g inpLen s0 s1 hist).prefixes, ps'.1 <+: x → ps' = ps) ∧
      ((keyAfter g inpLen s0 s1 hist).prefixes.filter fun ps => ps.1.isPrefixOf x).length = 1) ∧
    (x ∈ puncturedAfter g inpLen s0 s1 hist →
      ((keyAfter g inpLen s0 s1 hist).prefixes.filter fun ps => ps.1.isPrefixOf x).length = 0) := by
  have hinv := (C10_reachable_inv g inpLen hpos s0 s1 hist).1
  constructor
  · intro hx
    obtain ⟨ps, hps, hpre⟩ := (hinv.cover x hl).2 hx
    refine ⟨⟨ps, hps, hpre, ?_⟩, ?_⟩
    · intro ps' hps' hpre'
      exact eq_of_pairwise_incomp hinv.prefixFree hps' hps
        (List.prefix_or_prefix_of_prefix hpre' hpre)
    · have hle := filter_prefix_length_le_one hinv.prefixFree x
      have hmem : ps ∈ (keyAfter g inpLen s0 s1 hist).prefixes.filter fun ps => ps.1.isPrefixOf x := by
        rw [List.mem_filter, List.isPrefixOf_iff_prefix]; exact ⟨hps, hpre⟩
      have := List.length_pos_of_mem hmem
      omega
  · intro hx
    rw [List.length_eq_zero_iff, List.filter_eq_nil_iff]
    intro ps hps
    rw [List.isPrefixOf_iff_prefix]
    exact hinv.no_ancestor hx ps hps

/-- the root seed is never stored: no retained prefix is empty (each has between 1 and `8 * inpLen`
bits) at any reachable state; the fresh key stores exactly the two depth-1 nodes -/
theorem C11_no_root (g : Bool → Seed → Seed) (inpLen : Nat) (hpos : 1 ≤ inpLen)
    (s0 s1 : Seed) (hist : List Op) :
    (∀ ps ∈ (keyAfter g inpLen s0 s1 hist).prefixes,
      ps.1 ≠ [] ∧ 1 ≤ ps.1.length ∧ ps.1.length ≤ 8 * inpLen) ∧
    (initKey s0 s1).prefixes = [([false], s0), ([true], s1)] ∧
    keyAfter g inpLen s0 s1 [] = initKey s0 s1 := by
  have hinv := (C10_reachable_inv g inpLen hpos s0 s1 hist).1
  refine ⟨fun ps hps => ?_, rfl, rfl⟩
  obtain ⟨h1, h2⟩ := hinv.bounds ps hps
  exact ⟨h1, List.length_pos_iff.2 h1, h2⟩

/-- every retained seed is the ideal seed of its node, and every retained node lies OFF every
punctured path; so the retained material is a function (`ideal`) of a set of nodes none of which is
an ancestor of (or equal to) a punctured input -/
theorem C11_retained_seeds_are_ideal (g : Bool → Seed → Seed) (inpLen : Nat) (hpos : 1 ≤ inpLen)
    (s0 s1 : Seed) (hist : List Op) :
    (∀ ps ∈ (keyAfter g inpLen s0 s1 hist).prefixes,
      ps.2 = ideal g s0 s1 ps.1 ∧ ∀ x ∈ puncturedAfter g inpLen s0 s1 hist, ¬ ps.1 <+: x) ∧
    (keyAfter g inpLen s0 s1 hist).prefixes =
      ((keyAfter g inpLen s0 s1 hist).prefixes.map Prod.fst).map fun p => (p, ideal g s0 s1 p) := by
  have hinv := (C10_reachable_inv g inpLen hpos s0 s1 hist).1
  refine ⟨fun ps hps => ⟨hinv.seeds ps hps, fun x hx => hinv.no_ancestor hx ps hps⟩, ?_⟩
  rw [List.map_map]
  conv => lhs; rw [← List.map_id (keyAfter g inpLen s0 s1 hist).prefixes]
  apply List.map_congr_left
  intro ps hps
  simp only [id, Function.comp]
  rw [← hinv.seeds ps hps]

/-- reduction: descending from ANY retained seed to ANY leaf below it never yields the value of a
punctured input, unless the PRG collides — if it did, the explicit collision of
`C10_distinct_values` (between the path to that leaf and the path to the punctured input) exists -/
theorem C11_punctured_value_not_derivable (g : Bool → Seed → Seed) (inpLen : Nat) (hpos : 1 ≤ inpLen)
    (s0 s1 : Seed) (hist : List Op) (x : Bits) (hx : x ∈ puncturedAfter g inpLen s0 s1 hist)
    (ps : Bits × Seed) (hps : ps ∈ (keyAfter g inpLen s0 s1 hist).prefixes) (r : Bits)
    (hr : (ps.1 ++ r).length = 8 * inpLen)
    (heq : bitEval g r ps.2 = ideal g s0 s1 x) :
    let y := ps.1 ++ r
    y ≠ x ∧
    ((s0 = s1 ∧ y.getD 0 false ≠ x.getD 0 false) ∨
     ∃ i, 1 ≤ i ∧ i < y.length ∧
      (y.getD i false, ideal g s0 s1 (y.take i)) ≠ (x.getD i false, ideal g s0 s1 (x.take i)) ∧
      g (y.getD i false) (ideal g s0 s1 (y.take i)) = g (x.getD i false) (ideal g s0 s1 (x.take i))) := by
  intro y
  have hinv := (C10_reachable_inv g inpLen hpos s0 s1 hist).1
  have hne : y ≠ x := by
    intro h
    exact hinv.no_ancestor hx ps hps ⟨r, h⟩
  refine ⟨hne, C10_distinct_values g s0 s1 y x ?_ ?_ hne ?_⟩
  · rw [hinv.full x hx]; exact hr
  · rw [show y.length = 8 * inpLen from hr]; omega
  · show ideal g s0 s1 (ps.1 ++ r) = _
    rw [ideal_append g s0 s1 _ _ (hinv.bounds ps hps).1, ← hinv.seeds ps hps, heq]

/-! ### non-vacuity on the concrete instance of C10 (`gN`, one-byte inputs, `demoHist`) -/

-- punctured inputs exist, and retained nodes exist
example : inputBits [0] ∈ puncturedAfter gN 1 2 3 demoHist := by decide
example : (keyAfter gN 1 2 3 demoHist).prefixes.length = 14 := by decide
-- no retained node is a prefix of the punctured input 0 or 1; input 2 has exactly one
example : ((keyAfter gN 1 2 3 demoHist).prefixes.filter fun ps => ps.1.isPrefixOf (inputBits [0])).length = 0 := by
  decide
example : ((keyAfter gN 1 2 3 demoHist).prefixes.filter fun ps => ps.1.isPrefixOf (inputBits [1])).length = 0 := by
  decide
example : ((keyAfter gN 1 2 3 demoHist).prefixes.filter fun ps => ps.1.isPrefixOf (inputBits [2])).length = 1 := by
  decide
-- retained seeds are the ideal seeds of their nodes
example : (keyAfter gN 1 2 3 demoHist).prefixes =
    ((keyAfter gN 1 2 3 demoHist).prefixes.map Prod.fst).map fun p => (p, ideal gN 2 3 p) := by
  decide
-- complete puncturing of a 1-byte domain is not needed for non-vacuity, but a key can become empty:
-- a depth-1 instance does not exist (`inpLen ≥ 1` means depth ≥ 8); after puncturing 0 and 128 the
-- whole left depth-7 subtree below `0000000` is gone
example : (keyAfter gN 1 2 3 [.puncture [0], .puncture [128]]).prefixes.map Prod.fst =
    [[true], [false, false, false, false, false, false, true], [false, false, false, false, false, true],
     [false, false, false, false, true], [false, false, false, true], [false, false, true], [false, true]] := by
  decide

/-! ### the key HOLDER: `Server` (and the key state it exports) -/

open StarModel.Ppoprf in
/-- (U) **The server's key state after any puncture history.** For a server whose GGM tree started
from `(s0, s1)` and EVERY history `mds` of `Server::puncture` calls - registered tags or not, repeats
included - the puncturable key the server holds (the `ggm_key` that `get_private_key` exports
verbatim, next to the OPRF key and the public key) contains no node on the path to any tag of the
history, and every other tag is covered by exactly one retained node. -/
theorem C11_server_key_state (F : Perm) (srv0 : Server) (s0 s1 : Bytes) (hg : srv0.ggm = initKey s0 s1)
    (mds : List UInt8) (md : UInt8) :
    (md ∈ mds → ∀ ps ∈ (C14.afterPunctures F srv0 mds).ggm.prefixes, ¬ ps.1 <+: inputBits [md]) ∧
    (md ∉ mds → ((C14.afterPunctures F srv0 mds).ggm.prefixes.filter
        fun ps => ps.1.isPrefixOf (inputBits [md])).length = 1) := by
  obtain ⟨_, _, _, _, h5⟩ := C14.C14_frame F srv0 mds
  have hlen : Params.ggmInpLen = 1 := rfl
  rw [h5, hg, hlen]
  obtain ⟨_, _, _, hP, _, _⟩ := C10.C10_history (srv0.g F) 1 (le_refl 1) s0 s1
    (mds.map fun m => Ggm.Op.puncture [m])
  have hin : inputBits [md] ∈ puncturedAfter (srv0.g F) 1 s0 s1 (mds.map fun m => Ggm.Op.puncture [m]) ↔
      md ∈ mds := by
    rw [hP, C14.mem_specRun_punctures]; simp
  constructor
  · intro hm
    exact (C11_no_ancestor_retained (srv0.g F) 1 (le_refl 1) s0 s1 _ _ (hin.mpr hm)).1
  · intro hm
    have hl : (inputBits [md]).length = 8 * 1 := by simp [inputBits_length]
    exact ((C11_cover (srv0.g F) 1 (le_refl 1) s0 s1 (mds.map fun m => Ggm.Op.puncture [m])
      (inputBits [md]) hl).1 (fun h => hm (hin.mp h))).2

end StarModel.Props.C11
