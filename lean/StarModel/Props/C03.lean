/-
C03 — Associated data stays confidential below threshold (no keystream reuse).

The third clause of the property is FALSE of the code, and this file proves it: the payload
cipher is a plain STROBE `send_enc` on a state that depends only on (label, key), and the key
depends only on (measurement, epoch, threshold) (C04). Hence for two clients of one measurement
the XOR of the two ciphertexts EQUALS the XOR of the two payloads on the whole first duplex block
(166 bytes) — for every permutation `F`. This is recorded as an open known finding (repairing it
needs a per-report nonce, i.e. a wire/protocol change); the witness is replayed against the real
crate on every run. What does hold is kept as `C03_partial_*`.
-/
import StarModel.Lemmas.Skeleton
import StarModel.Lemmas.Keystream
import StarModel.Lemmas.Star
import StarModel.Props.C04

namespace StarModel.Props.C03
open StarModel StarModel.Star StarModel.Strobe

/-- the keystream of the first block: a function of (label, key) only -/
def keystreamState (F : Perm) (key : Bytes) (label : String) : Bytes :=
  (beginOp F (tFlag (Strobe.key F (Strobe.new F (Bytes.ofString label)) key) false 0x0E).1
    (tFlag (Strobe.key F (Strobe.new F (Bytes.ofString label)) key) false 0x0E).2 true).st

/-- (U, partial) on the first duplex block the ciphertext is `payload ⊕ ks(label, key)` -/
theorem C03_partial_first_block_is_xor (F : Perm) (key data : Bytes) (label : String) :
    (encrypt F key data label).take rate = xorKs (keystreamState F key label) 0 (data.take rate) :=
  sendEnc_first_block F _ data

/-- (W) **Keystream reuse.** For every `F`, key, label and any two payloads: the XOR of the two
ciphertexts equals the XOR of the two plaintext payloads on the first 166 bytes — on ALL bytes
when the payloads are at most 166 bytes long. -/
theorem C03_keystream_reuse (F : Perm) (key p1 p2 : Bytes) (label : String) :
    Bytes.xor ((encrypt F key p1 label).take rate) ((encrypt F key p2 label).take rate) =
      Bytes.xor (p1.take rate) (p2.take rate) := by
  rw [C03_partial_first_block_is_xor, C03_partial_first_block_is_xor, xorKs_xor]

theorem C03_keystream_reuse_short (F : Perm) (key p1 p2 : Bytes) (label : String)
    (h1 : p1.length ≤ rate) (h2 : p2.length ≤ rate) :
    Bytes.xor (encrypt F key p1 label) (encrypt F key p2 label) = Bytes.xor p1 p2 := by
  have := C03_keystream_reuse F key p1 p2 label
  have e1 : (encrypt F key p1 label).length = p1.length := by unfold encrypt; exact sendEnc_length F _ _
  have e2 : (encrypt F key p2 label).length = p2.length := by unfold encrypt; exact sendEnc_length F _ _
  rwa [List.take_of_length_le (by omega), List.take_of_length_le (by omega),
    List.take_of_length_le h1, List.take_of_length_le h2] at this

/-- (W) **The violation at the level of reports**: two clients of the same measurement, epoch,
threshold and randomness with DIFFERENT associated data produce ciphertexts whose difference equals
the difference of their payloads (first block). Contradicts the third clause of C03. -/
theorem C03_reports_leak_payload_difference (F : Perm) (fuel : Nat) (m e : Bytes) (t : Nat) (rnd : Bytes)
    (aux1 aux2 : Option Bytes) (x1 x2 : Nat) (r1 r2 : Message)
    (h1 : generate F fuel m e t rnd aux1 x1 = some (.ok r1))
    (h2 : generate F fuel m e t rnd aux2 x2 = some (.ok r2)) :
    Bytes.xor (r1.ciphertext.take rate) (r2.ciphertext.take rate) =
      Bytes.xor ((payload m aux1).take rate) ((payload m aux2).take rate) := by
  obtain ⟨_, _, _, _, hc1⟩ := generate_ok F fuel m e t rnd aux1 x1 r1 h1
  obtain ⟨_, _, _, _, hc2⟩ := generate_ok F fuel m e t rnd aux2 x2 r2 h2
  rw [hc1, hc2]
  exact C03_keystream_reuse F _ _ _ _

/-- (W) **Keystream reuse continues beyond the first block** as long as the payloads agree: if two
payloads share a prefix `c` of whole blocks (`c.length` a multiple of 166), the ciphertexts agree on
it and on the NEXT block their XOR is again the XOR of the plaintexts - for every `F`. (A long
measurement is such a common prefix: the associated data of its reports leak the same way wherever
they start.) -/
theorem C03_keystream_reuse_common_prefix (F : Perm) (key c d1 d2 : Bytes) (label : String)
    (hc : c.length % rate = 0) :
    (encrypt F key (c ++ d1) label).take c.length = (encrypt F key (c ++ d2) label).take c.length ∧
    Bytes.xor (((encrypt F key (c ++ d1) label).drop c.length).take rate)
        (((encrypt F key (c ++ d2) label).drop c.length).take rate) =
      Bytes.xor (d1.take rate) (d2.take rate) := by
  obtain ⟨h1, ks, h2, h3⟩ := sendEnc_common_prefix F (Strobe.key F (Strobe.new F (Bytes.ofString label)) key) c d1 d2 hc
  refine ⟨h1, ?_⟩
  unfold encrypt
  rw [h2, h3, xorKs_xor]

/-- two payloads of one measurement agree on `len | measurement` -/
theorem payload_common (m : Bytes) (aux1 aux2 : Option Bytes) (n : Nat) (hn : n ≤ 4 + m.length) :
    (payload m aux1).take n = (payload m aux2).take n := by
  have hl : (Adss.storeBytes m).length = 4 + m.length := by
    unfold Adss.storeBytes; simp [Bytes.le32_length]
  unfold payload
  rw [List.take_append_of_le_length (by omega), List.take_append_of_le_length (by omega)]

/-- (W) at the level of reports, for every whole number of blocks `n` inside `len | measurement`:
the two ciphertexts agree up to `n` and leak the payload difference on the block that starts there -/
theorem C03_reports_leak_beyond_first_block (F : Perm) (fuel : Nat) (m e : Bytes) (t : Nat) (rnd : Bytes)
    (aux1 aux2 : Option Bytes) (x1 x2 : Nat) (r1 r2 : Message)
    (h1 : generate F fuel m e t rnd aux1 x1 = some (.ok r1))
    (h2 : generate F fuel m e t rnd aux2 x2 = some (.ok r2))
    (n : Nat) (hn : n % rate = 0) (hle : n ≤ 4 + m.length) :
    r1.ciphertext.take n = r2.ciphertext.take n ∧
    Bytes.xor ((r1.ciphertext.drop n).take rate) ((r2.ciphertext.drop n).take rate) =
      Bytes.xor (((payload m aux1).drop n).take rate) (((payload m aux2).drop n).take rate) := by
  obtain ⟨_, _, _, _, hc1⟩ := generate_ok F fuel m e t rnd aux1 x1 r1 h1
  obtain ⟨_, _, _, _, hc2⟩ := generate_ok F fuel m e t rnd aux2 x2 r2 h2
  have hp1 : 4 + m.length ≤ (payload m aux1).length := by
    unfold payload Adss.storeBytes; simp [Bytes.le32_length]
  have hcl : ((payload m aux1).take n).length = n := by rw [List.length_take]; omega
  have e1 : payload m aux1 = (payload m aux1).take n ++ (payload m aux1).drop n := (List.take_append_drop _ _).symm
  have e2 : payload m aux2 = (payload m aux1).take n ++ (payload m aux2).drop n := by
    rw [payload_common m aux1 aux2 n hle]; exact (List.take_append_drop _ _).symm
  have := C03_keystream_reuse_common_prefix F (deriveSkeKey F (deriveRandom F rnd 0) e)
    ((payload m aux1).take n) ((payload m aux1).drop n) ((payload m aux2).drop n) Params.starEncryptLabel
    (by rw [hcl]; exact hn)
  rw [hcl, ← e1, ← e2, ← hc1, ← hc2] at this
  exact this

/-- (U, partial) what does hold: the report carries the payload only through the encryption under
the threshold-protected key, and that key's holder recovers it exactly (C01); the report's other
parts do not depend on the associated data at all. -/
theorem C03_partial_dataflow (F : Perm) (fuel : Nat) (m e : Bytes) (t : Nat) (rnd : Bytes)
    (aux1 aux2 : Option Bytes) (x : Nat) (r1 r2 : Message)
    (h1 : generate F fuel m e t rnd aux1 x = some (.ok r1))
    (h2 : generate F fuel m e t rnd aux2 x = some (.ok r2)) :
    r1.share = r2.share ∧ r1.tag = r2.tag ∧
    decrypt F (deriveSkeKey F (deriveRandom F rnd 0) e) r1.ciphertext Params.starEncryptLabel = payload m aux1 := by
  obtain ⟨d1, hd1, hs1, ht1, hc1⟩ := generate_ok F fuel m e t rnd aux1 x r1 h1
  obtain ⟨d2, hd2, hs2, ht2, _⟩ := generate_ok F fuel m e t rnd aux2 x r2 h2
  rw [hd1] at hd2; injection hd2 with hd2; injection hd2 with hd2; subst hd2
  exact ⟨by rw [hs1, hs2], by rw [ht1, ht2], by rw [hc1, decrypt_encrypt]⟩

-- the witness is not vacuous: a concrete pair (identity permutation) with different aux bytes
example : Bytes.xor (encrypt id [1] [0, 0, 0, 1, 9, 0, 0, 0, 1, 7] "x")
    (encrypt id [1] [0, 0, 0, 1, 9, 0, 0, 0, 1, 8] "x") = [0, 0, 0, 0, 0, 0, 0, 0, 0, 15] :=
  (C03_keystream_reuse_short id [1] _ _ "x" (by decide) (by decide)).trans (by decide)

-- ... and beyond the first block: a 166-byte common prefix, then differing bytes
example : Bytes.xor ((encrypt id [1] (List.replicate 166 7 ++ [9, 9]) "x").drop 166)
    ((encrypt id [1] (List.replicate 166 7 ++ [9, 8]) "x").drop 166) = [0, 1] := by
  decide +kernel

end StarModel.Props.C03
