/-
C12 — PPOPRF output depends only on (server key, tag, input), never on the blinding.

For every STROBE permutation `F` and every LAWFUL group dictionary (a vector space over the prime
field `ZMod ℓ` with canonical injective 32-byte encoding — what ristretto255 is specified to be;
the executable `Ristretto.ops` is validated against curve25519-dalek by the ristretto/ppoprf
streams, its group laws are not proved). Scalars `r` (blinding) and `k + ts` (tagged key) are
assumed non-zero where the real code silently relies on it (probability 2⁻²⁵²).
-/
import StarModel.Lemmas.Skeleton
import StarModel.Lemmas.Ppoprf

namespace StarModel.Props.C12
open StarModel StarModel.Ppoprf StarModel.Scalar25519

variable {G : Type} [AddCommGroup G] [Module S G] {ops : GroupOps G}

/-- (U) **Unblinding the evaluation of a blinded input is the evaluation of the input point.**
For every input, tag, blinding `r ≠ 0`, mode and nonce: if the server answers the blinded request,
then `Client::unblind` succeeds and yields exactly what the server returns for the unblinded input
point `H(input)` — a value that does not mention `r`. -/
theorem C12_unblind_eval_blind (hl : Lawful ops) (F : Perm) (srv : Server) (input : Bytes) (md : UInt8)
    (r : Nat) (hr : (r : S) ≠ 0) (v : Bool) (n : Nat) (out : Bytes) (pr : Option (Nat × Nat))
    (h : Server.eval ops F srv (Client.blindWith ops F input r) md v n = .ok (out, pr)) :
    ∃ ts unblinded,
      tagScalar F srv.prgKey0 srv.prgKey1 srv.ggm md = .ok ts ∧
      Client.unblind ops out r = .ok unblinded ∧
      unblinded = ops.compress ((((srv.oprfKey : S) + (ts : S))⁻¹) • Client.hashToGroup ops F input) ∧
      Server.eval ops F srv (ops.compress (Client.hashToGroup ops F input)) md false 0 = .ok (unblinded, none) := by
  obtain ⟨pt, ts, hd, hreg, hts, hout⟩ := eval_ok F srv _ md v n out pr h
  unfold Client.blindWith at hd
  rw [hl.decompress_compress] at hd
  injection hd with hd
  refine ⟨ts, _, hts, ?_, rfl, ?_⟩
  · have hpt : ops.smul (invert r) (evalPoint ops srv.oprfKey ts pt) =
        (((srv.oprfKey : S) + (ts : S))⁻¹) • Client.hashToGroup ops F input := by
      rw [← hd]
      unfold evalPoint
      rw [hl.smul_eq, hl.smul_eq, hl.smul_eq, invert_cast, invert_cast, add_cast, smul_smul, smul_smul]
      congr 1
      rw [mul_comm ((r : S)⁻¹), mul_assoc, inv_mul_cancel₀ hr, mul_one]
    unfold Client.unblind
    rw [hout, hl.decompress_compress]
    show Outcome.ok (ops.compress (ops.smul (invert r) (evalPoint ops srv.oprfKey ts pt))) = _
    rw [hpt]
  · rw [eval_nonverifiable F srv _ md 0 _ ts (hl.decompress_compress _) hreg hts]
    unfold evalPoint
    rw [hl.smul_eq, invert_cast, add_cast]

/-- (U) hence the finalised 32-byte output is the same for every blinding: two requests with
different blindings `r₁, r₂` finalise to the same value -/
theorem C12_finalize_independent_of_blinding (hl : Lawful ops) (F : Perm) (srv : Server) (input : Bytes)
    (md : UInt8) (r1 r2 : Nat) (h1 : (r1 : S) ≠ 0) (h2 : (r2 : S) ≠ 0) (v1 v2 : Bool) (n1 n2 : Nat)
    (o1 o2 : Bytes) (p1 p2 : Option (Nat × Nat)) (u1 u2 : Bytes)
    (e1 : Server.eval ops F srv (Client.blindWith ops F input r1) md v1 n1 = .ok (o1, p1))
    (e2 : Server.eval ops F srv (Client.blindWith ops F input r2) md v2 n2 = .ok (o2, p2))
    (hu1 : Client.unblind ops o1 r1 = .ok u1) (hu2 : Client.unblind ops o2 r2 = .ok u2) :
    u1 = u2 ∧ Client.finalize F input md u1 = Client.finalize F input md u2 := by
  obtain ⟨ts1, w1, ht1, hw1, hv1, _⟩ := C12_unblind_eval_blind hl F srv input md r1 h1 v1 n1 o1 p1 e1
  obtain ⟨ts2, w2, ht2, hw2, hv2, _⟩ := C12_unblind_eval_blind hl F srv input md r2 h2 v2 n2 o2 p2 e2
  rw [ht1] at ht2; injection ht2 with ht2; subst ht2
  rw [hu1] at hw1; rw [hu2] at hw2
  injection hw1 with hw1; injection hw2 with hw2
  have : u1 = u2 := by rw [hw1, hw2, hv1, hv2]
  exact ⟨this, by rw [this]⟩

/-- (U) **different tagged keys / servers give different output points**: for a non-zero input
point the evaluation `k⁻¹ • P` determines the tagged key `k ≠ 0` -/
theorem C12_key_separates (P : G) (hP : P ≠ 0) (k k' : S)
    (h : k⁻¹ • P = k'⁻¹ • P) : k = k' := by
  have h2 : (k⁻¹ - k'⁻¹) • P = 0 := by rw [sub_smul, h, sub_self]
  rcases smul_eq_zero.mp h2 with h3 | h3
  · exact inv_inj.mp (sub_eq_zero.mp h3)
  · exact absurd h3 hP

/-- (U) **different input points give different output points** under the same tagged key -/
theorem C12_input_point_separates (P Q : G) (k : S) (hk : k ≠ 0) (h : k⁻¹ • P = k⁻¹ • Q) : P = Q := by
  have := congrArg (fun X => k • X) h
  simpa [smul_smul, mul_inv_cancel₀ hk] using this

/-- (U) **a blinded request never equals the unblinded input point**, and determines `r`:
for `P ≠ 0`, `r • P = P → r = 1` and `r • P = r' • P → r = r'` -/
theorem C12_blinding_injective (P : G) (hP : P ≠ 0) (r r' : S) :
    (r • P = P → r = 1) ∧ (r • P = r' • P → r = r') := by
  constructor
  · intro h
    have h2 : (r - 1) • P = 0 := by rw [sub_smul, h, one_smul, sub_self]
    rcases smul_eq_zero.mp h2 with h3 | h3
    · exact sub_eq_zero.mp h3
    · exact absurd h3 hP
  · intro h
    have h2 : (r - r') • P = 0 := by rw [sub_smul, h, sub_self]
    rcases smul_eq_zero.mp h2 with h3 | h3
    · exact sub_eq_zero.mp h3
    · exact absurd h3 hP

/-- (U) the hash input of `finalize`, `input ‖ md ‖ point`, parses uniquely from the right once
the point has its fixed length: different (input, tag, point) give different hash inputs -/
theorem C12_finalize_input_injective (i1 i2 : Bytes) (m1 m2 : UInt8) (p1 p2 : Bytes)
    (hl : p1.length = p2.length) (h : i1 ++ [m1] ++ p1 = i2 ++ [m2] ++ p2) :
    i1 = i2 ∧ m1 = m2 ∧ p1 = p2 := by
  have hp := List.append_inj_right' h hl
  have h2 := List.append_inj_left' h hl
  have hm := List.append_inj_right' h2 rfl
  have hi := List.append_inj_left' h2 rfl
  exact ⟨hi, by simpa using hm, hp⟩

-- the hypotheses are satisfiable: `G = ZMod ℓ` itself is a lawful group with a 32-byte encoding
example : ∃ (P : S) (r k : S), P ≠ 0 ∧ r ≠ 0 ∧ k ≠ 0 ∧ r⁻¹ • k⁻¹ • r • P = k⁻¹ • P :=
  ⟨1, 2, 3, one_ne_zero, by decide +kernel, by decide +kernel, by
    simp only [smul_eq_mul, mul_one]
    have h2 : (2 : S) ≠ 0 := by decide +kernel
    field_simp⟩

end StarModel.Props.C12
