/-
The dictionary of group operations the PPOPRF layer is written against. The driver instantiates
it with ristretto255 (`StarModel.Ristretto.ops`); theorems quantify over it (an abstract
prime-order group with an injective encoding). Scalars are natural numbers.
This file deliberately imports nothing.
-/
namespace StarModel

structure GroupOps (G : Type) where
  add : G → G → G
  neg : G → G
  /-- scalar multiplication `k • P` -/
  smul : Nat → G → G
  identity : G
  /-- the fixed generator (`RISTRETTO_BASEPOINT_POINT`) -/
  base : G
  /-- canonical 32-byte encoding (`RistrettoPoint::compress`) -/
  compress : G → List UInt8
  /-- `CompressedRistretto::decompress` -/
  decompress : List UInt8 → Option G
  /-- the one-way map from 64 uniform bytes (`RistrettoPoint::from_uniform_bytes`) -/
  fromUniform : List UInt8 → G

end StarModel
