/-
`ppoprf::ppoprf` (ppoprf/src/ppoprf.rs), statement by statement: the DLEQ batch proof, the server
public key, `Server::{new, eval, puncture}` and `Client::{blind, verify, unblind, finalize}`.
Parametric in the STROBE permutation `F` and in the group dictionary `ops`; scalars are natural
numbers below `Scalar25519.ell`. Every value the Rust code draws from `OsRng` is an explicit
argument (the blinding scalar, the DLEQ nonce, the server key material).
A `Point` of the Rust code (a 32-byte `CompressedRistretto`) is a `Bytes` value here.
-/
import StarModel.Bytes
import StarModel.Params
import StarModel.Strobe
import StarModel.Group
import StarModel.Scalar25519
import StarModel.Ggm
namespace StarModel.Ppoprf
open StarModel

/-- `strobe_hash(input, label, out)` with `out.len() = DIGEST_LEN` -/
def strobeHash (F : Perm) (input : Bytes) (label : String) : Bytes :=
  let t := Strobe.key F (Strobe.new F (Bytes.ofString label)) input
  (StrobeRng.fillBytes F ⟨t⟩ Params.ppoprfDigestLen).2

/-- `ProofDLEQ::hash_to_scalar` -/
def hashToScalar (F : Perm) (input : Bytes) (label : String) : Nat :=
  Scalar25519.fromBytesModOrderWide (strobeHash F input label)

/-- `ProofDLEQ::i2osp2`: panics (`expect("integer too large")`) above `u16::MAX` -/
def i2osp2 (x : Nat) : Outcome Bytes :=
  if x < 65536 then .ok (Bytes.be16 x) else .panic "i2osp2: integer too large"

/-- the context string `format!("{}-{}-{}", "PPOPRFv1", 0x03, "ristretto255-strobe")` -/
def contextString : Bytes := Bytes.ofString Params.dleqContextString

/-- the `Seed` transcript of `compute_composites` -/
def seedTranscript {G : Type} (ops : GroupOps G) (b : G) : Outcome Bytes := do
  let l1 ← i2osp2 Params.compressedPointLen
  let l2 ← i2osp2 contextString.length
  pure (l1 ++ ops.compress b ++ l2 ++ contextString)

/-- the transcript hashed to the `i`-th batching coefficient -/
def compositeTranscript {G : Type} (ops : GroupOps G) (seed : Bytes) (i : Nat) (c d : G) :
    Outcome Bytes := do
  let ls ← i2osp2 seed.length
  let li ← i2osp2 i
  let lp ← i2osp2 Params.compressedPointLen
  pure (ls ++ seed ++ li ++ lp ++ ops.compress c ++ lp ++ ops.compress d)

/-- the `for i in 0..c.len()` loop of `compute_composites`, from index `i` with accumulators
`m`, `z`; `z` is only accumulated when no key is known -/
def compositesLoop {G : Type} (ops : GroupOps G) (F : Perm) (keyIsNone : Bool) (seed : Bytes) :
    Nat → List G → List G → G → G → Outcome (G × G)
  | i, c :: cs, d :: ds, m, z =>
    match compositeTranscript ops seed i c d with
    | .ok tr =>
      let di := hashToScalar F tr Params.dleqCompositeLabel
      let m := ops.add (ops.smul di c) m
      let z := if keyIsNone then ops.add (ops.smul di d) z else z
      compositesLoop ops F keyIsNone seed (i + 1) cs ds m z
    | .err k => .err k
    | .panic w => .panic w
  | _, _, _, m, z => .ok (m, z)

/-- `ProofDLEQ::compute_composites(key, b, c, d)` -/
def computeComposites {G : Type} (ops : GroupOps G) (F : Perm) (key : Option Nat) (b : G)
    (cs ds : List G) : Outcome (G × G) :=
  if cs.length ≠ ds.length then .panic "C and D have a different number of elements!"
  else
    match seedTranscript ops b with
    | .ok st =>
      let seed := strobeHash F st Params.dleqSeedLabel
      match compositesLoop ops F key.isNone seed 0 cs ds ops.identity ops.identity with
      | .ok (m, z) =>
        match key with
        | some k => .ok (m, ops.smul k m)
        | none => .ok (m, z)
      | .err k => .err k
      | .panic w => .panic w
    | .err k => .err k
    | .panic w => .panic w

/-- the challenge transcript shared by `new_batch` and `verify_batch` -/
def challengeTranscript {G : Type} (ops : GroupOps G) (publicValue m z t2 t3 : G) :
    Outcome Bytes := do
  let lp ← i2osp2 Params.compressedPointLen
  pure (lp ++ ops.compress publicValue ++ lp ++ ops.compress m ++ lp ++ ops.compress z
    ++ lp ++ ops.compress t2 ++ lp ++ ops.compress t3)

/-- `ProofDLEQ::new_batch(key, public_value, p, q)` with the `OsRng` nonce `r` explicit;
the result is `(c, s)` -/
def newBatch {G : Type} (ops : GroupOps G) (F : Perm) (key : Nat) (publicValue : G)
    (ps qs : List G) (r : Nat) : Outcome (Nat × Nat) := do
  let (m, z) ← computeComposites ops F (some key) publicValue ps qs
  let t2 := ops.smul r ops.base
  let t3 := ops.smul r m
  let tr ← challengeTranscript ops publicValue m z t2 t3
  let c := hashToScalar F tr Params.dleqChallengeLabel
  let s := Scalar25519.sub r (Scalar25519.mul c key)
  pure (c, s)

/-- `ProofDLEQ::verify_batch(&self, public_value, p, q)` for the proof `(c, s)` -/
def verifyBatch {G : Type} (ops : GroupOps G) (F : Perm) (c s : Nat) (publicValue : G)
    (ps qs : List G) : Outcome Bool := do
  let (m, z) ← computeComposites ops F none publicValue ps qs
  let t2 := ops.add (ops.smul s ops.base) (ops.smul c publicValue)
  let t3 := ops.add (ops.smul s m) (ops.smul c z)
  let tr ← challengeTranscript ops publicValue m z t2 t3
  let c' := hashToScalar F tr Params.dleqVerifyChallengeLabel
  pure (c == c')

/-- `bincode` of a `ProofDLEQ`: `c ‖ s`, 32 little-endian bytes each -/
def proofToBincode (c s : Nat) : Bytes := Scalar25519.toBytes c ++ Scalar25519.toBytes s

/-- `ProofDLEQ::load_from_bincode` on exactly `MAX_SERIALIZED_PROOF_SIZE` bytes: both halves
must be canonical scalars -/
def proofFromBincode (bs : Bytes) : Option (Nat × Nat) :=
  if bs.length ≠ Params.maxSerializedProofSize then none
  else
    match Scalar25519.fromCanonicalBytes (bs.take 32), Scalar25519.fromCanonicalBytes (bs.drop 32) with
    | some c, some s => some (c, s)
    | _, _ => none

/-! ### the server public key -/

/-- `ServerPublicKey { base_pk, md_pks : BTreeMap<u8, Point> }`; `mdPks` is kept sorted by tag
with distinct tags -/
structure PublicKey where
  basePk : Bytes
  mdPks : List (UInt8 × Bytes)
  deriving DecidableEq, Repr

/-- `BTreeMap::insert`: keeps the list sorted, an existing entry is replaced -/
def mdInsert (md : UInt8) (pt : Bytes) : List (UInt8 × Bytes) → List (UInt8 × Bytes)
  | [] => [(md, pt)]
  | (k, v) :: rest =>
    if md < k then (md, pt) :: (k, v) :: rest
    else if md = k then (md, pt) :: rest
    else (k, v) :: mdInsert md pt rest

/-- `ServerPublicKey::get` -/
def PublicKey.get (pk : PublicKey) (md : UInt8) : Option Bytes :=
  (pk.mdPks.find? fun e => e.1 == md).map (·.2)

/-- `ServerPublicKey::get_combined_pk_value` (a `Point`, i.e. compressed bytes) -/
def getCombinedPkValue {G : Type} (ops : GroupOps G) (pk : PublicKey) (md : UInt8) :
    Outcome Bytes :=
  match pk.get md with
  | none => .err "BadTag"
  | some mdPk =>
    match ops.decompress pk.basePk with
    | none => .err "BadPointEncoding"
    | some b =>
      match ops.decompress mdPk with
      | none => .err "BadPointEncoding"
      | some m => .ok (ops.compress (ops.add b m))

/-- `impl From<Point> for RistrettoPoint`: `p.decompress().unwrap()` -/
def pointInto {G : Type} (ops : GroupOps G) (pt : Bytes) : Outcome G :=
  match ops.decompress pt with
  | some P => .ok P
  | none => .panic "Point::into: decompress().unwrap()"

/-- `bincode::serialize(&ServerPublicKey)`: the base point, the map length as `u64`, then
`(tag, point)` in key order -/
def PublicKey.toBincode (pk : PublicKey) : Bytes :=
  pk.basePk ++ Bytes.le64 pk.mdPks.length ++ pk.mdPks.flatMap fun e => e.1 :: e.2

/-! ### the server -/

/-- `Server { oprf_key, public_key, pprf }`; the GGM key consists of the two PRG keys and the
retained/punctured node lists -/
structure Server where
  oprfKey : Nat
  publicKey : PublicKey
  prgKey0 : Bytes
  prgKey1 : Bytes
  ggm : Ggm.Key Bytes

/-- the PRG pair of a server's GGM tree -/
def Server.g (F : Perm) (srv : Server) : Bool → Bytes → Bytes :=
  Ggm.strobeG F srv.prgKey0 srv.prgKey1

def ggmErr : Ggm.Err → String
  | .noPrefixFound => "NoPrefixFound"
  | .alreadyPunctured => "AlreadyPunctured"
  | .badInputLength => "BadInputLength"
  | .unexpectedEndOfBv => "UnexpectedEndOfBv"

def ofGgm {α : Type} : Except Ggm.Err α → Outcome α
  | .ok a => .ok a
  | .error e => .err (ggmErr e)

/-- `self.pprf.eval(&[md], &mut tag)?; RistrettoScalar::from_bytes_mod_order(tag)` -/
def tagScalar (F : Perm) (k0 k1 : Bytes) (ggm : Ggm.Key Bytes) (md : UInt8) : Outcome Nat :=
  match ofGgm (Ggm.eval (Ggm.strobeG F k0 k1) Params.ggmInpLen ggm [md]) with
  | .ok tag => .ok (Scalar25519.fromBytesModOrder tag)
  | .err k => .err k
  | .panic w => .panic w

/-- the `for &md in mds.iter()` loop of `Server::new` -/
def newMdPks {G : Type} (ops : GroupOps G) (F : Perm) (k0 k1 : Bytes) (ggm : Ggm.Key Bytes) :
    List UInt8 → List (UInt8 × Bytes) → Outcome (List (UInt8 × Bytes))
  | [], acc => .ok acc
  | md :: mds, acc =>
    match tagScalar F k0 k1 ggm md with
    | .ok ts => newMdPks ops F k0 k1 ggm mds (mdInsert md (ops.compress (ops.smul ts ops.base)) acc)
    | .err k => .err k
    | .panic w => .panic w

/-- `Server::new(mds)` given what it samples: the OPRF key, the two PRG keys (`k0`, `k1`) and
the two depth-one seeds (`s0 = prg0(secret)`, `s1 = prg1(secret)`) -/
def Server.new {G : Type} (ops : GroupOps G) (F : Perm) (oprfKey : Nat) (k0 k1 s0 s1 : Bytes)
    (mds : List UInt8) : Outcome Server :=
  let ggm := Ggm.initKey s0 s1
  match newMdPks ops F k0 k1 ggm mds [] with
  | .ok mdPks =>
    .ok ⟨oprfKey, ⟨ops.compress (ops.smul oprfKey ops.base), mdPks⟩, k0, k1, ggm⟩
  | .err k => .err k
  | .panic w => .panic w

/-- `Server::eval(&self, p, md, verifiable)`; `nonce` is the `OsRng` scalar of `new_batch`
(unused unless `verifiable`). Result: the output point and the proof `(c, s)`. -/
def Server.eval {G : Type} (ops : GroupOps G) (F : Perm) (srv : Server) (pointBytes : Bytes)
    (md : UInt8) (verifiable : Bool) (nonce : Nat) : Outcome (Bytes × Option (Nat × Nat)) :=
  match ops.decompress pointBytes with
  | none => .err "BadPointEncoding"
  | some point =>
    if (srv.publicKey.get md).isNone then .err "BadTag"
    else do
      let ts ← tagScalar F srv.prgKey0 srv.prgKey1 srv.ggm md
      let taggedKey := Scalar25519.add srv.oprfKey ts
      let exponent := Scalar25519.invert taggedKey
      let evalPoint := ops.smul exponent point
      if verifiable then
        let publicValue ← getCombinedPkValue ops srv.publicKey md
        let pv ← pointInto ops publicValue
        let proof ← newBatch ops F taggedKey pv [evalPoint] [point] nonce
        pure (ops.compress evalPoint, some proof)
      else
        pure (ops.compress evalPoint, none)

/-- `Server::puncture(&mut self, md)` -/
def Server.puncture (F : Perm) (srv : Server) (md : UInt8) : Outcome Server :=
  match ofGgm (Ggm.puncture (srv.g F) Params.ggmInpLen srv.ggm [md]) with
  | .ok k => .ok { srv with ggm := k }
  | .err k => .err k
  | .panic w => .panic w

/-- `Server::get_public_key` -/
def Server.getPublicKey (srv : Server) : PublicKey := srv.publicKey

/-! ### the client -/

namespace Client

/-- the point `Client::blind` hashes the input to -/
def hashToGroup {G : Type} (ops : GroupOps G) (F : Perm) (input : Bytes) : G :=
  ops.fromUniform (strobeHash F input Params.clientInputLabel)

/-- `Client::blind(input)` with the `OsRng` scalar `r` explicit: the blinded point (the second
component of the Rust result is `r` itself) -/
def blindWith {G : Type} (ops : GroupOps G) (F : Perm) (input : Bytes) (r : Nat) : Bytes :=
  ops.compress (ops.smul r (hashToGroup ops F input))

/-- `Client::verify(public_key, input, eval, md)` with `eval = Evaluation { output, proof }` -/
def verify {G : Type} (ops : GroupOps G) (F : Perm) (pk : PublicKey) (inputPoint : Bytes)
    (eval : Bytes × Option (Nat × Nat)) (md : UInt8) : Outcome Bool :=
  match getCombinedPkValue ops pk md with
  | .ok publicValue =>
    match eval.2, ops.decompress eval.1, ops.decompress inputPoint with
    | some (c, s), some output, some input =>
      match pointInto ops publicValue with
      | .ok pv => verifyBatch ops F c s pv [output] [input]
      | .err k => .err k
      | .panic w => .panic w
    | _, _, _ => .ok false
  | .err _ => .ok false
  | .panic w => .panic w

/-- `Client::unblind(p, r)`: panics (`unwrap`) on an undecodable point -/
def unblind {G : Type} (ops : GroupOps G) (pointBytes : Bytes) (r : Nat) : Outcome Bytes :=
  match ops.decompress pointBytes with
  | none => .panic "Client::unblind: decompress().unwrap()"
  | some point => .ok (ops.compress (ops.smul (Scalar25519.invert r) point))

/-- `Client::finalize(input, md, unblinded, out)` with `out.len() = 32` -/
def finalize (F : Perm) (input : Bytes) (md : UInt8) (unblinded : Bytes) : Bytes :=
  (strobeHash F (input ++ [md] ++ unblinded) Params.finalizeLabel).take Params.finalizeOutLen

end Client

end StarModel.Ppoprf
