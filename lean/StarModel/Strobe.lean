/-
STROBE duplex as implemented by `strobe-rs 0.10` (`Strobe::{new, ad, meta_ad, key, prf,
send_enc, recv_enc, send_mac, recv_mac}` with `more = false`, SecParam::B128), byte for byte.
The permutation is a parameter `F`; the driver instantiates it with Keccak-f[1600], theorems
quantify over it.
-/
import StarModel.Bytes
namespace StarModel

/-- the permutation plugged into the duplex (Keccak-f[1600] in the real code) -/
abbrev Perm := Bytes → Bytes

structure Strobe where
  st : Bytes
  pos : Nat
  posBegin : Nat
  isReceiver : Option Bool
  deriving DecidableEq, Repr

namespace Strobe

/-- `R = 200 - 128/4 - 2` -/
def rate : Nat := 166

def xorAt (st : Bytes) (i : Nat) (v : UInt8) : Bytes := st.set i (st.getD i 0 ^^^ v)

/-- `run_f` -/
def runF (F : Perm) (s : Strobe) : Strobe :=
  let st1 := xorAt s.st s.pos (UInt8.ofNat s.posBegin)
  let st2 := xorAt st1 (s.pos + 1) 0x04
  let st3 := xorAt st2 (rate + 1) 0x80
  { s with st := F st3, pos := 0, posBegin := 0 }

/-- A duplex mode maps (state byte, data byte) to (new state byte, output byte). -/
abbrev Mode := UInt8 → UInt8 → UInt8 × UInt8

def mAbsorb : Mode := fun s b => (s ^^^ b, b)
def mAbsorbAndSet : Mode := fun s b => (s ^^^ b, s ^^^ b)
def mCopyState : Mode := fun s _ => (s, s)
def mExchange : Mode := fun s b => (b, b ^^^ s)
def mOverwrite : Mode := fun _ b => (b, b)
def mSqueeze : Mode := fun s _ => (0, s)

/-- one iteration of the per-byte loops of `absorb`, `absorb_and_set`, `copy_state`, `exchange`,
`overwrite`, `squeeze` -/
def stepByte (F : Perm) (m : Mode) (s : Strobe) (b : UInt8) : Strobe × UInt8 :=
  let r := m (s.st.getD s.pos 0) b
  let s1 : Strobe := { s with st := s.st.set s.pos r.1, pos := s.pos + 1 }
  (if s1.pos = rate then runF F s1 else s1, r.2)

def duplex (F : Perm) (m : Mode) : Strobe → Bytes → Strobe × Bytes
  | s, [] => (s, [])
  | s, b :: bs =>
    let r := stepByte F m s b
    let r2 := duplex F m r.1 bs
    (r2.1, r.2 :: r2.2)

/-- `begin_op` after the direction flag has been resolved: absorb `[old pos_begin, flags]`, run
`F` when the operation uses cipher output and the position is not already 0. -/
def markBegin (s : Strobe) : Strobe := { s with posBegin := s.pos + 1 }

def beginOp (F : Perm) (s : Strobe) (flags : UInt8) (forceF : Bool) : Strobe :=
  let s2 := (duplex F mAbsorb (markBegin s) [UInt8.ofNat s.posBegin, flags]).1
  if forceF && s2.pos != 0 then runF F s2 else s2

/-- direction handling for transport (`T`) operations: the first one fixes `is_receiver`; the
`I` bit absorbed is `is_receiver != op_is_receiving`. `base` has its `I` bit clear. -/
def tFlag (s : Strobe) (opRecv : Bool) (base : UInt8) : Strobe × UInt8 :=
  let ir := s.isReceiver.getD opRecv
  ({ s with isReceiver := some ir }, if ir != opRecv then base ||| 1 else base)

inductive Op where
  | metaAd (d : Bytes)
  | ad (d : Bytes)
  | key (d : Bytes)
  | prf (n : Nat)
  | sendEnc (d : Bytes)
  | recvEnc (d : Bytes)
  | sendMac (n : Nat)
  | recvMac (d : Bytes)
  deriving DecidableEq, Repr

/-- `Strobe::operate` / `operate_no_mutate` for the operations the repository uses. The output
is the mutated buffer (for `recvMac`: the buffer that must be all zero for the MAC to verify). -/
def operate (F : Perm) (s : Strobe) : Op → Strobe × Bytes
  | .metaAd d => duplex F mAbsorb (beginOp F s 0x12 false) d
  | .ad d => duplex F mAbsorb (beginOp F s 0x02 false) d
  | .key d => duplex F mOverwrite (beginOp F s 0x06 true) d
  | .prf n => duplex F mSqueeze (beginOp F s 0x07 true) (Bytes.zeros n)
  | .sendEnc d =>
    let r := tFlag s false 0x0E
    duplex F mAbsorbAndSet (beginOp F r.1 r.2 true) d
  | .recvEnc d =>
    let r := tFlag s true 0x0E
    duplex F mExchange (beginOp F r.1 r.2 true) d
  | .sendMac n =>
    let r := tFlag s false 0x0C
    duplex F mCopyState (beginOp F r.1 r.2 true) (Bytes.zeros n)
  | .recvMac d =>
    let r := tFlag s true 0x0C
    duplex F mExchange (beginOp F r.1 r.2 true) d

def initBlock : Bytes :=
  [0x01, 168, 0x01, 0x00, 0x01, 0x60] ++ Bytes.ofString "STROBEv1.0.2" ++ Bytes.zeros 182

/-- `Strobe::new(proto, SecParam::B128)` -/
def new (F : Perm) (proto : Bytes) : Strobe :=
  (operate F { st := F initBlock, pos := 0, posBegin := 0, isReceiver := none } (.metaAd proto)).1

def metaAd (F : Perm) (s : Strobe) (d : Bytes) : Strobe := (operate F s (.metaAd d)).1
def ad (F : Perm) (s : Strobe) (d : Bytes) : Strobe := (operate F s (.ad d)).1
def key (F : Perm) (s : Strobe) (d : Bytes) : Strobe := (operate F s (.key d)).1
def prf (F : Perm) (s : Strobe) (n : Nat) : Strobe × Bytes := operate F s (.prf n)
def sendEnc (F : Perm) (s : Strobe) (d : Bytes) : Strobe × Bytes := operate F s (.sendEnc d)
def recvEnc (F : Perm) (s : Strobe) (d : Bytes) : Strobe × Bytes := operate F s (.recvEnc d)
def sendMac (F : Perm) (s : Strobe) (n : Nat) : Strobe × Bytes := operate F s (.sendMac n)
/-- `recv_mac`: `true` iff the MAC verifies -/
def recvMac (F : Perm) (s : Strobe) (mac : Bytes) : Strobe × Bool :=
  let r := operate F s (.recvMac mac)
  (r.1, r.2.all (· == 0))

/-- run a list of operations, collecting outputs -/
def runOps (F : Perm) : Strobe → List Op → Strobe × List Bytes
  | s, [] => (s, [])
  | s, op :: ops =>
    let r := operate F s op
    let r2 := runOps F r.1 ops
    (r2.1, r.2 :: r2.2)

end Strobe

/-- The three identical `strobe_rng.rs` copies: an `RngCore` over a Strobe state. -/
structure StrobeRng where
  strobe : Strobe

namespace StrobeRng
/-- `fill_bytes(dest)` with `dest.len() = n`: `meta_ad(le32 n); prf(n)` -/
def fillBytes (F : Perm) (g : StrobeRng) (n : Nat) : StrobeRng × Bytes :=
  let s1 := Strobe.metaAd F g.strobe (Bytes.le32 n)
  let r := Strobe.prf F s1 n
  (⟨r.1⟩, r.2)
/-- `next_u64` via `next_u64_via_fill` -/
def nextU64 (F : Perm) (g : StrobeRng) : StrobeRng × Nat :=
  let r := fillBytes F g 8
  (r.1, Bytes.toNatLE r.2)
end StrobeRng

end StarModel
