/-
ristretto255 as implemented by `curve25519-dalek 4.1.3` (`ristretto.rs`, `field.rs`,
`edwards.rs`, `backend/serial/curve_models`), RFC 9496. Field elements of GF(2^255 - 19) are
modelled by their canonical value `< p` (the limb arithmetic of the backends is validated
differentially by the `ristretto` correspondence stream, not modelled); points are Edwards
points in extended coordinates `(X : Y : Z : T)` and the formulas are dalek's, statement by
statement, so the model also reproduces the internal representative a computation ends with.
-/
import StarModel.Bytes
import StarModel.Fp
import StarModel.Group
import StarModel.Scalar25519
namespace StarModel.Ristretto
open StarModel

/-! ### the field GF(2^255 - 19) -/

def p : Nat := 2 ^ 255 - 19

def fadd (a b : Nat) : Nat := (a + b) % p
def fsub (a b : Nat) : Nat := (a + (p - b % p)) % p
def fneg (a : Nat) : Nat := (p - a % p) % p
def fmul (a b : Nat) : Nat := (a * b) % p
def fsq (a : Nat) : Nat := (a * a) % p
def fpow (a e : Nat) : Nat := Fp.powMod a e p

/-- `FieldElement::is_negative`: low bit of the canonical encoding -/
def isNegative (a : Nat) : Bool := a % p % 2 = 1
/-- `conditional_negate` -/
def condNeg (a : Nat) (c : Bool) : Nat := if c then fneg a else a

/-- `FieldElement::from_bytes`: the top bit is ignored, the rest is taken modulo `p` -/
def feFromBytes (bs : Bytes) : Nat := Bytes.toNatLE bs % 2 ^ 255 % p
/-- `FieldElement::as_bytes`: canonical 32-byte little-endian encoding -/
def feToBytes (a : Nat) : Bytes := Bytes.ofNatLE 32 (a % p)

/-- `EDWARDS_D = -121665/121666` -/
def edwardsD : Nat := 37095705934669439343138083508754565189542113879843219016388785533085940283555
/-- `EDWARDS_D2 = 2d` -/
def edwardsD2 : Nat := fadd edwardsD edwardsD
/-- `SQRT_M1`: the nonnegative square root of `-1` -/
def sqrtM1 : Nat := 19681161376707505956807079304988542015446066515923890162744021073123829784752
/-- `INVSQRT_A_MINUS_D = 1/sqrt(a-d)`, `a = -1` -/
def invsqrtAMinusD : Nat := 54469307008909316920995813868745141605393597292927456921205312896311721017578
/-- `ONE_MINUS_EDWARDS_D_SQUARED = 1 - d²` -/
def oneMinusDSq : Nat := 1159843021668779879193775521855586647937357759715417654439879720876111806838
/-- `EDWARDS_D_MINUS_ONE_SQUARED = (d-1)²` -/
def dMinusOneSq : Nat := 40440834346308536858101042469323190826248399146238708352240133220865137265952
/-- `SQRT_AD_MINUS_ONE = sqrt(ad - 1)`, `a = -1` -/
def sqrtAdMinusOne : Nat := 25063068953384623474111414158702152701244531502492656460079210482610430750235
/-- `MINUS_ONE` -/
def minusOne : Nat := p - 1

/-- `pow_p58`: `x^((p-5)/8)` -/
def powP58 (x : Nat) : Nat := fpow x ((p - 5) / 8)

/-- `FieldElement::sqrt_ratio_i(u, v)`:
`(true, +sqrt(u/v))` if `v ≠ 0` and `u/v` is square; `(true, 0)` if `u = 0`;
`(false, 0)` if `v = 0 ≠ u`; `(false, +sqrt(i·u/v))` if `u/v` is a nonsquare. -/
def sqrtRatioI (u v : Nat) : Bool × Nat :=
  let v3 := fmul (fsq v) v
  let v7 := fmul (fsq v3) v
  let r := fmul (fmul u v3) (powP58 (fmul u v7))
  let check := fmul v (fsq r)
  let correctSignSqrt := check == u % p
  let flippedSignSqrt := check == fneg u
  let flippedSignSqrtI := check == fmul (fneg u) sqrtM1
  let r' := fmul sqrtM1 r
  let r := if flippedSignSqrt || flippedSignSqrtI then r' else r
  let r := condNeg r (isNegative r)
  (correctSignSqrt || flippedSignSqrt, r)

/-- `FieldElement::invsqrt` -/
def invsqrt (v : Nat) : Bool × Nat := sqrtRatioI 1 v

/-! ### Edwards points in extended coordinates -/

/-- `EdwardsPoint { X, Y, Z, T }` (a `RistrettoPoint` wraps one) -/
structure Point where
  X : Nat
  Y : Nat
  Z : Nat
  T : Nat
  deriving DecidableEq, Repr

/-- `CompletedPoint` (ℙ¹ × ℙ¹) -/
structure Completed where
  X : Nat
  Y : Nat
  Z : Nat
  T : Nat

/-- `CompletedPoint::as_extended` -/
def Completed.asExtended (c : Completed) : Point :=
  ⟨fmul c.X c.T, fmul c.Y c.Z, fmul c.Z c.T, fmul c.X c.Y⟩

/-- `EdwardsPoint::identity` -/
def identity : Point := ⟨0, 1, 1, 0⟩

/-- `RISTRETTO_BASEPOINT_POINT = ED25519_BASEPOINT_POINT` -/
def basepoint : Point :=
  ⟨15112221349535400772501151409588531511454012693041857206046113283949847762202,
   46316835694926478169428394003475163141307993866256225615783033603165251855960,
   1,
   46827403850823179245072216630277197565144205554125654976674165829533817101731⟩

/-- `&EdwardsPoint + &EdwardsPoint`: `(self + other.as_projective_niels()).as_extended()` -/
def add (P Q : Point) : Point :=
  let qYpX := fadd Q.Y Q.X
  let qYmX := fsub Q.Y Q.X
  let qT2d := fmul Q.T edwardsD2
  let pp := fmul (fadd P.Y P.X) qYpX
  let mm := fmul (fsub P.Y P.X) qYmX
  let tt2d := fmul P.T qT2d
  let zz := fmul P.Z Q.Z
  let zz2 := fadd zz zz
  Completed.asExtended ⟨fsub pp mm, fadd pp mm, fadd zz2 tt2d, fsub zz2 tt2d⟩

/-- `EdwardsPoint::double`: `self.as_projective().double().as_extended()` -/
def double (P : Point) : Point :=
  let xx := fsq P.X
  let yy := fsq P.Y
  let zz := fsq P.Z
  let zz2 := fadd zz zz
  let xPlusYSq := fsq (fadd P.X P.Y)
  let yyPlusXx := fadd yy xx
  let yyMinusXx := fsub yy xx
  Completed.asExtended ⟨fsub xPlusYSq yyPlusXx, yyPlusXx, yyMinusXx, fsub zz2 yyMinusXx⟩

/-- `-&EdwardsPoint` -/
def neg (P : Point) : Point := ⟨fneg P.X, P.Y, P.Z, fneg P.T⟩

def sub (P Q : Point) : Point := add P (neg Q)

/-- double-and-add, least significant bit first, structurally recursive on the fuel -/
def scalarMulFuel : Nat → Nat → Point → Point
  | 0, _, _ => identity
  | f + 1, k, P =>
    if k = 0 then identity
    else
      let h := scalarMulFuel f (k / 2) (double P)
      if k % 2 = 1 then add P h else h

/-- `Scalar * RistrettoPoint` for a scalar given by its value (`< 2^256`) -/
def scalarMul (k : Nat) (P : Point) : Point := scalarMulFuel 256 k P

/-! ### the ristretto255 encoding -/

/-- `RistrettoPoint::compress` -/
def compress (P : Point) : Bytes :=
  let u1 := fmul (fadd P.Z P.Y) (fsub P.Z P.Y)
  let u2 := fmul P.X P.Y
  let isq := (invsqrt (fmul u1 (fsq u2))).2
  let i1 := fmul isq u1
  let i2 := fmul isq u2
  let zInv := fmul i1 (fmul i2 P.T)
  let iX := fmul P.X sqrtM1
  let iY := fmul P.Y sqrtM1
  let enchantedDenominator := fmul i1 invsqrtAMinusD
  let rotate := isNegative (fmul P.T zInv)
  let X := if rotate then iY else P.X
  let Y := if rotate then iX else P.Y
  let denInv := if rotate then enchantedDenominator else i2
  let Y := condNeg Y (isNegative (fmul X zInv))
  let s := fmul denInv (fsub P.Z Y)
  feToBytes (condNeg s (isNegative s))

/-- `CompressedRistretto::decompress`; inputs of a length other than 32 (unrepresentable in
Rust) are rejected -/
def decompress (bs : Bytes) : Option Point :=
  if bs.length ≠ 32 then none
  else
    -- step 1: canonical, nonnegative `s`
    let s := feFromBytes bs
    let sEncodingIsCanonical := feToBytes s == bs
    let sIsNegative := isNegative s
    if !sEncodingIsCanonical || sIsNegative then none
    else
      -- step 2
      let ss := fsq s
      let u1 := fsub 1 ss
      let u2 := fadd 1 ss
      let u2Sqr := fsq u2
      let v := fsub (fmul (fneg edwardsD) (fsq u1)) u2Sqr
      let r := invsqrt (fmul v u2Sqr)
      let ok := r.1
      let I := r.2
      let Dx := fmul I u2
      let Dy := fmul I (fmul Dx v)
      let x := fmul (fadd s s) Dx
      let x := condNeg x (isNegative x)
      let y := fmul u1 Dy
      let t := fmul x y
      if !ok || isNegative t || y == 0 then none
      else some ⟨x, y, 1, t⟩

/-- `RistrettoPoint::elligator_ristretto_flavor` (the MAP of RFC 9496 §4.3.4) -/
def elligator (r0 : Nat) : Point :=
  let r := fmul sqrtM1 (fsq r0)
  let Ns := fmul (fadd r 1) oneMinusDSq
  let c := minusOne
  let D := fmul (fsub c (fmul edwardsD r)) (fadd r edwardsD)
  let q := sqrtRatioI Ns D
  let NsDIsSq := q.1
  let s := q.2
  let sPrime := fmul s r0
  let sPrime := condNeg sPrime (!isNegative sPrime)
  let s := if !NsDIsSq then sPrime else s
  let c := if !NsDIsSq then r else c
  let Nt := fsub (fmul (fmul c (fsub r 1)) dMinusOneSq) D
  let sSq := fsq s
  Completed.asExtended ⟨fmul (fadd s s) D, fsub 1 sSq, fmul Nt sqrtAdMinusOne, fadd 1 sSq⟩

/-- `RistrettoPoint::from_uniform_bytes(&[u8; 64])` -/
def fromUniformBytes (bs : Bytes) : Point :=
  let R1 := elligator (feFromBytes (bs.take 32))
  let R2 := elligator (feFromBytes ((bs.drop 32).take 32))
  add R1 R2

/-- equality of ristretto elements, as equality of encodings -/
def eq (P Q : Point) : Bool := compress P == compress Q

/-- `RistrettoPoint::ct_eq`: `X₁Y₂ = Y₁X₂ ∨ X₁X₂ = Y₁Y₂` -/
def ctEq (P Q : Point) : Bool :=
  fmul P.X Q.Y == fmul P.Y Q.X || fmul P.X Q.X == fmul P.Y Q.Y

/-- ristretto255 as a `GroupOps` dictionary -/
def ops : GroupOps Point where
  add := add
  neg := neg
  smul := scalarMul
  identity := identity
  base := basepoint
  compress := compress
  decompress := decompress
  fromUniform := fromUniformBytes

end StarModel.Ristretto
