/-
`ppoprf::ggm`: the GGM puncturable PRF (ppoprf/src/ggm.rs), statement by statement.
Generic in the seed type and in the PRG `g : Bool → Seed → Seed` (bit ↦ which of the two keyed
PRGs is applied); the driver instantiates it with the two STROBE-based PRGs.
-/
import StarModel.Strobe
import StarModel.Params
namespace StarModel.Ggm
open StarModel

abbrev Bits := List Bool

/-- `GGMPuncturableKey` (the two PRG keys live in `g`) -/
structure Key (Seed : Type) where
  prefixes : List (Bits × Seed)
  punctured : List Bits

inductive Err where
  | noPrefixFound
  | alreadyPunctured
  | badInputLength
  | unexpectedEndOfBv
  deriving DecidableEq, Repr

/-- bits of a byte, least significant first (`BitVec<u8, Lsb0>`) -/
def byteBits (b : UInt8) : Bits := (List.range 8).map fun i => (b.toNat / 2 ^ i) % 2 = 1

/-- `bvcast_u8_to_usize(BitVec::from_slice(input))` -/
def inputBits (input : Bytes) : Bits := input.flatMap byteBits

/-- `bit_eval`: descend from `seed` along `bits` -/
def bitEval {Seed : Type} (g : Bool → Seed → Seed) (bits : Bits) (seed : Seed) : Seed :=
  bits.foldl (fun s b => g b s) seed

/-- `find_prefix`: the first stored prefix the input starts with -/
def findPrefix {Seed : Type} (k : Key Seed) (bv : Bits) : Option (Bits × Seed) :=
  k.prefixes.find? fun ps => ps.1.isPrefixOf bv

/-- `GGM::eval` -/
def eval {Seed : Type} (g : Bool → Seed → Seed) (inpLen : Nat) (k : Key Seed) (input : Bytes) :
    Except Err Seed :=
  if input.length ≠ inpLen then .error .badInputLength
  else
    let bv := inputBits input
    match findPrefix k bv with
    | some (pfx, seed) => .ok (bitEval g (bv.drop pfx.length) seed)
    | none => .error .noPrefixFound

/-- the co-path recomputation loop of `GGM::puncture`: for `j = n, n-1, …, pfxLen+1` emit the
sibling of the depth-`j` node on the path to `bv` (deepest first), seeded from the covering node. -/
def coPath {Seed : Type} (g : Bool → Seed → Seed) (bv : Bits) (pfxLen : Nat) (seed : Seed) :
    Nat → List (Bits × Seed)
  | 0 => []
  | j + 1 =>
    if j < pfxLen then []
    else
      let cbv := bv.take j ++ [!(bv.getD j false)]
      (cbv, bitEval g (cbv.drop pfxLen) seed) :: (if j = pfxLen then [] else coPath g bv pfxLen seed j)

/-- `GGMPuncturableKey::puncture` -/
def keyPuncture {Seed : Type} (k : Key Seed) (pfx toPunc : Bits) (newPfxs : List (Bits × Seed)) :
    Except Err (Key Seed) :=
  if k.punctured.any (· == pfx) then .error .alreadyPunctured
  else
    match k.prefixes.findIdx? (fun ps => ps.1 == pfx) with
    | some idx => .ok ⟨k.prefixes.eraseIdx idx ++ newPfxs, k.punctured ++ [toPunc]⟩
    | none => .error .noPrefixFound

/-- `GGM::puncture` -/
def puncture {Seed : Type} (g : Bool → Seed → Seed) (inpLen : Nat) (k : Key Seed) (input : Bytes) :
    Except Err (Key Seed) :=
  if input.length ≠ inpLen then .error .badInputLength
  else
    let bv := inputBits input
    match findPrefix k bv with
    | none => .error .noPrefixFound
    | some (pfx, seed) =>
      let newPfxs := if pfx.length ≠ bv.length then coPath g bv pfx.length seed bv.length else []
      keyPuncture k pfx bv newPfxs

/-- `GGMPuncturableKey::new` given the two first-level seeds (`prg_b.eval(secret)`) -/
def initKey {Seed : Type} (s0 s1 : Seed) : Key Seed := ⟨[([false], s0), ([true], s1)], []⟩

/-- one call of the public `PPRF` API on a `GGM` value -/
inductive Op where
  | eval (input : Bytes)
  | puncture (input : Bytes)
  deriving DecidableEq, Repr

/-- what the caller observes: `eval` fills the output buffer or fails, `puncture` returns `Ok(())`
or fails -/
inductive Out (Seed : Type) where
  | evalRes (r : Except Err Seed)
  | punctRes (r : Except Err Unit)

/-- one API call on key `k`: `eval` takes `&self` (the key cannot change); `puncture` takes
`&mut self` and every `Err` return happens before the first mutation of `self.key`, so on failure
the caller still holds `k`. -/
def step {Seed : Type} (g : Bool → Seed → Seed) (inpLen : Nat) (k : Key Seed) : Op → Key Seed × Out Seed
  | .eval input => (k, .evalRes (eval g inpLen k input))
  | .puncture input =>
    match puncture g inpLen k input with
    | .ok k' => (k', .punctRes (.ok ()))
    | .error e => (k, .punctRes (.error e))

/-- a whole history of API calls: final key and the outputs in order -/
def run {Seed : Type} (g : Bool → Seed → Seed) (inpLen : Nat) : Key Seed → List Op → Key Seed × List (Out Seed)
  | k, [] => (k, [])
  | k, op :: ops =>
    let r := step g inpLen k op
    let r2 := run g inpLen r.1 ops
    (r2.1, r.2 :: r2.2)

/-- the STROBE-based PRG `GGMPseudorandomGenerator::eval` with key `key` -/
def prgEval (F : Perm) (key : Bytes) (input : Bytes) : Bytes :=
  let t := Strobe.ad F (Strobe.key F (Strobe.new F (Bytes.ofString Params.ggmEvalLabel)) key) input
  (StrobeRng.fillBytes F ⟨t⟩ Params.ggmSeedLen).2

/-- `GGMPseudorandomGenerator::setup` from the sampled secret -/
def prgSetup (F : Perm) (secret : Bytes) : Bytes :=
  let t := Strobe.key F (Strobe.new F (Bytes.ofString Params.ggmKeyGenLabel)) secret
  (StrobeRng.fillBytes F ⟨t⟩ 32).2

/-- the PRG family used by the driver: bit ↦ PRG keyed with `k0` / `k1` -/
def strobeG (F : Perm) (k0 k1 : Bytes) (b : Bool) (s : Bytes) : Bytes :=
  prgEval F (if b then k1 else k0) s

end StarModel.Ggm
