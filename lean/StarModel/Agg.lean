/-
The reference aggregation server (star/test-utils/src/lib.rs): `collect_messages`,
`filter_messages`, `key_recover`, `recover_measurements`, `retrieve_outputs`, statement by
statement; parametric in the STROBE permutation `F`.

Two things the Rust code leaves to the runtime are fixed here and quantified away in the theorems:
the order in which `HashMap::values()` yields the buckets (the model yields them in order of first
appearance; every statement about the output is up to permutation of the output list) and the
rayon schedule (`into_par_iter().map().map().collect()` is an order-preserving map over the
buckets; the model has no threads at all).
-/
import StarModel.Star
namespace StarModel.Agg
open StarModel

/-- one step of the loop of `collect_messages`: `Entry::Occupied` pushes to the bucket of the key,
`Entry::Vacant` creates a bucket. Keys are `format!("{:x?}", tag)`, an injective rendering of the
byte vector, so key equality is tag equality. -/
def insertBucket {α κ : Type} [DecidableEq κ] (key : α → κ) (a : α) :
    List (κ × List α) → List (κ × List α)
  | [] => [(key a, [a])]
  | (k, b) :: rest =>
    if k = key a then (k, b ++ [a]) :: rest else (k, b) :: insertBucket key a rest

/-- the map built by `collect_messages`, as an association list in order of first appearance -/
def collectBy {α κ : Type} [DecidableEq κ] (key : α → κ) (l : List α) : List (κ × List α) :=
  l.foldl (fun acc a => insertBucket key a acc) []

/-- `collect_messages` -/
def collectMessages (messages : List Star.Message) : List (List Star.Message) :=
  (collectBy (·.tag) messages).map (·.2)

/-- `filter_messages` -/
def filterMessages (threshold : Nat) (messages : List Star.Message) : List (List Star.Message) :=
  (collectMessages messages).filter fun bucket => threshold ≤ bucket.length

/-- `key_recover`: `err` = `AggServerError::PossibleShareCollision` -/
def keyRecover (F : Perm) (epoch : String) (messages : List Star.Message) : Outcome Bytes :=
  match Star.shareRecover F (messages.map (·.share)) with
  | .err _ => .err "PossibleShareCollision"
  | .panic w => .panic w
  | .ok c => .ok (Star.deriveSkeKey F c.M (Bytes.ofString epoch))

/-- the closure that splits one plaintext: both `load_bytes(..).unwrap()` panic on malformed
framing; EMPTY associated data is reported as `None` -/
def splitPayload (p : Bytes) : Outcome (Bytes × Option Bytes) :=
  match Adss.loadBytes p with
  | .err _ => .panic "load_bytes(measurement).unwrap()"
  | .panic w => .panic w
  | .ok measurementBytes =>
    let slice := p.drop (4 + measurementBytes.length)
    if !slice.isEmpty then
      match Adss.loadBytes slice with
      | .err _ => .panic "load_bytes(aux).unwrap()"
      | .panic w => .panic w
      | .ok auxBytes =>
        if !auxBytes.isEmpty then .ok (measurementBytes, some auxBytes)
        else .ok (measurementBytes, none)
    else .ok (measurementBytes, none)

/-- `Iterator::map(f).collect()` where `f` may panic: the first panic (in order) wins -/
def mapOutcome {α β : Type} (f : α → Outcome β) : List α → Outcome (List β)
  | [] => .ok []
  | a :: as =>
    match f a with
    | .err k => .err k
    | .panic w => .panic w
    | .ok b =>
      match mapOutcome f as with
      | .ok bs => .ok (b :: bs)
      | .err k => .err k
      | .panic w => .panic w

/-- `recover_measurements` -/
def recoverMeasurements (F : Perm) (epoch : String) (messages : List Star.Message) :
    Outcome (Bytes × List (Option Bytes)) :=
  match keyRecover F epoch messages with
  | .err k => .err k
  | .panic w => .panic w
  | .ok encKey =>
    let plaintexts := messages.map fun t => Star.decrypt F encKey t.ciphertext Params.starEncryptLabel
    match mapOutcome splitPayload plaintexts with
    | .err k => .err k
    | .panic w => .panic w
    | .ok splits =>
      match splits with
      | [] => .panic "splits[0]"
      | s0 :: rest =>
        if rest.all (fun s => s.1 == s0.1) then .ok (s0.1, splits.map (·.2))
        else .panic "tag mismatch"

/-- `retrieve_outputs`: `.map(|output| output.unwrap())` turns `Err` into a panic -/
def retrieveOutputs (F : Perm) (threshold : Nat) (epoch : String) (messages : List Star.Message) :
    Outcome (List (Bytes × List (Option Bytes))) :=
  mapOutcome (fun bucket =>
      match recoverMeasurements F epoch bucket with
      | .err _ => .panic "output.unwrap()"
      | o => o)
    (filterMessages threshold messages)

end StarModel.Agg
