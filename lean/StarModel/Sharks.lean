/-
`star-sharks`: dealer, evaluator, recovery, interpolation, share codec
(sharks/src/lib.rs, sharks/src/share_ff.rs), statement by statement.
-/
import StarModel.Fp
namespace StarModel.Sharks
open StarModel

structure Share where
  x : Nat
  y : List Nat
  deriving DecidableEq, Repr

/-- Horner evaluation, coefficients from highest to lowest degree (`Evaluator::evaluate`) -/
def evalPoly (coeffs : List Nat) (x : Nat) : Nat :=
  coeffs.foldl (fun acc c => Fp.add (Fp.mul acc x) c) 0

def evaluate (polys : List (List Nat)) (x : Nat) : Share :=
  ⟨x, polys.map (evalPoly · x)⟩

/-- `n` consecutive `Fp::random` draws -/
def drawFp {σ : Type} (next : σ → σ × Nat) (fuel : Nat) : Nat → σ → Option (σ × List Nat)
  | 0, s => some (s, [])
  | n + 1, s =>
    match Fp.random next fuel s with
    | none => none
    | some (s1, v) =>
      match drawFp next fuel n s1 with
      | none => none
      | some (s2, vs) => some (s2, v :: vs)

/-- `random_polynomial(s, k, rng)`: `k-1` random coefficients (none when `k ≤ 1`) then `s` -/
def randomPolynomial {σ : Type} (next : σ → σ × Nat) (fuel : Nat) (s : Nat) (k : Nat) (g : σ) :
    Option (σ × List Nat) :=
  match drawFp next fuel (k - 1) g with
  | none => none
  | some (g1, cs) => some (g1, cs ++ [s])

def chunks (n : Nat) (count : Nat) (bs : Bytes) : List Bytes :=
  (List.range count).map fun i => (bs.drop (i * n)).take n

/-- result of `dealer_rng`: `err` when an element is out of range; `none` = sampling fuel exhausted -/
def dealPolys {σ : Type} (next : σ → σ × Nat) (fuel : Nat) (t : Nat) :
    List Bytes → σ → Option (Outcome (σ × List (List Nat)))
  | [], g => some (.ok (g, []))
  | c :: cs, g =>
    match Fp.fromRepr c with
    | none => some (.err "element")
    | some e =>
      match randomPolynomial next fuel e t g with
      | none => none
      | some (g1, poly) =>
        match dealPolys next fuel t cs g1 with
        | none => none
        | some (.ok (g2, ps)) => some (.ok (g2, poly :: ps))
        | some (.err k) => some (.err k)
        | some (.panic w) => some (.panic w)

def dealerRng {σ : Type} (next : σ → σ × Nat) (fuel : Nat) (t : Nat) (secret : Bytes) (g : σ) :
    Option (Outcome (σ × List (List Nat))) :=
  dealPolys next fuel t (chunks Params.fieldElementLen (secret.length / Params.fieldElementLen) secret) g

/-- the `n`-th call of `Iterator::next` (n ≥ 1) yields the point `x = n mod p` -/
def nextShare (polys : List (List Nat)) (x : Nat) : Nat × Share :=
  let x1 := Fp.add x 1
  (x1, evaluate polys x1)

/-- the resampling loop of `Evaluator::gen`: draw until non-zero (fuel-bounded here) -/
def randomNonzero {σ : Type} (next : σ → σ × Nat) (fuel : Nat) : Nat → σ → Option (σ × Nat)
  | 0, _ => none
  | k + 1, g =>
    match Fp.random next fuel g with
    | none => none
    | some (g1, x) => if x = 0 then randomNonzero next fuel k g1 else some (g1, x)

/-- `Evaluator::gen` -/
def gen {σ : Type} (next : σ → σ × Nat) (fuel : Nat) (polys : List (List Nat)) (g : σ) :
    Option (σ × Share) :=
  match randomNonzero next fuel fuel g with
  | none => none
  | some (g1, x) => some (g1, evaluate polys x)

def shareToBytes (s : Share) : Bytes :=
  Fp.toRepr s.x ++ (s.y.map Fp.toRepr).flatten

def decodeElems : Nat → Bytes → Option (List Nat)
  | 0, _ => some []
  | n + 1, bs =>
    match Fp.fromRepr (bs.take Params.fieldElementLen) with
    | none => none
    | some e =>
      match decodeElems n (bs.drop Params.fieldElementLen) with
      | none => none
      | some es => some (e :: es)

/-- `Share::try_from(&[u8])` -/
def shareFromBytes (bs : Bytes) : Option Share :=
  if bs.length < Params.fieldElementLen then none
  else
    match Fp.fromRepr (bs.take Params.fieldElementLen) with
    | none => none
    | some x =>
      let yb := bs.drop Params.fieldElementLen
      match decodeElems (yb.length / Params.fieldElementLen) yb with
      | none => none
      | some y => some ⟨x, y⟩

/-- Lagrange weight at zero of share `i` within `shares`: `Π_{x_j ≠ x_i} x_j / (x_j - x_i)` -/
def weight (shares : List Share) (xi : Nat) : Nat :=
  (shares.filter (fun sj => sj.x ≠ xi)).foldl
    (fun acc sj => Fp.mul acc (Fp.mul sj.x ((Fp.invert (Fp.sub sj.x xi)).getD 0))) 1

/-- `interpolate`: `panic` models `s_i.y[s]` going out of bounds on ragged input -/
def interpolate (shares : List Share) : Outcome Bytes :=
  match shares with
  | [] => .err "empty"
  | s0 :: _ =>
    if shares.all (fun s => s0.y.length ≤ s.y.length) then
      .ok ((List.range s0.y.length).map (fun k =>
        Fp.toRepr (shares.foldl (fun acc si => Fp.add acc (Fp.mul (weight shares si.x) (si.y.getD k 0))) 0))).flatten
    else .panic "interpolate: y index out of bounds"

/-- the loop of `Sharks::recover`: length check first, then insert-if-new -/
def collect (len : Nat) : List Share → List Nat → List Share → Option (List Share)
  | [], _, acc => some acc.reverse
  | s :: rest, keys, acc =>
    if s.y.length ≠ len then none
    else if keys.contains s.x then collect len rest keys acc
    else collect len rest (s.x :: keys) (s :: acc)

/-- `Sharks(t).recover(shares)` -/
def recover (t : Nat) (shares : List Share) : Outcome Bytes :=
  match shares with
  | [] => .err "few"
  | s0 :: _ =>
    match collect s0.y.length shares [] [] with
    | none => .err "length"
    | some vals =>
      if vals.length < t then .err "few"
      else interpolate (vals.take t)

end StarModel.Sharks
