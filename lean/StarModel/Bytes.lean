/-
Byte strings and little/big-endian integer codecs used throughout the model.
No Mathlib: this file is part of the executable model (compiled into the driver).
-/
namespace StarModel

abbrev Bytes := List UInt8

namespace Bytes

/-- little-endian value of a byte string -/
def toNatLE : Bytes → Nat
  | [] => 0
  | b :: bs => b.toNat + 256 * toNatLE bs

/-- `len` little-endian bytes of `n` (truncating, like `as u32` + `to_le_bytes`) -/
def ofNatLE : (len : Nat) → Nat → Bytes
  | 0, _ => []
  | len + 1, n => UInt8.ofNat (n % 256) :: ofNatLE len (n / 256)

def le32 (n : Nat) : Bytes := ofNatLE 4 n
def le64 (n : Nat) : Bytes := ofNatLE 8 n

/-- big-endian two-byte encoding (`I2OSP(x, 2)`) -/
def be16 (n : Nat) : Bytes := [UInt8.ofNat (n / 256 % 256), UInt8.ofNat (n % 256)]

def zeros (n : Nat) : Bytes := List.replicate n 0

def ofString (s : String) : Bytes := s.toUTF8.toList

def hexDigit (n : Nat) : Char :=
  if n < 10 then Char.ofNat (48 + n) else Char.ofNat (87 + n)

def toHex (bs : Bytes) : String :=
  String.ofList (bs.flatMap fun b => [hexDigit (b.toNat / 16), hexDigit (b.toNat % 16)])

def hexVal (c : Char) : Option Nat :=
  if '0' ≤ c ∧ c ≤ '9' then some (c.toNat - 48)
  else if 'a' ≤ c ∧ c ≤ 'f' then some (c.toNat - 87)
  else if 'A' ≤ c ∧ c ≤ 'F' then some (c.toNat - 55)
  else none

def ofHexChars : List Char → Option Bytes
  | [] => some []
  | [_] => none
  | a :: b :: rest => do
    let x ← hexVal a
    let y ← hexVal b
    let r ← ofHexChars rest
    pure (UInt8.ofNat (16 * x + y) :: r)

/-- `-` denotes the empty string in the line protocol -/
def ofHex (s : String) : Option Bytes :=
  if s = "-" then some [] else ofHexChars s.toList

def toHexP (bs : Bytes) : String := if bs.isEmpty then "-" else toHex bs

def xor (a b : Bytes) : Bytes := List.zipWith (· ^^^ ·) a b

end Bytes

/-- Result of a modelled entry point. `panic` is reached exactly where the Rust code panics. -/
inductive Outcome (α : Type) where
  | ok (a : α)
  | err (kind : String)
  | panic (where_ : String)
  deriving Repr, DecidableEq

namespace Outcome
def bind {α β} (x : Outcome α) (f : α → Outcome β) : Outcome β :=
  match x with
  | ok a => f a
  | err k => err k
  | panic w => panic w
instance : Monad Outcome where
  pure := ok
  bind := bind
def isPanic {α} : Outcome α → Bool
  | panic _ => true
  | _ => false
def isOk {α} : Outcome α → Bool
  | ok _ => true
  | _ => false
def ofOption {α} (k : String) : Option α → Outcome α
  | some a => ok a
  | none => err k
end Outcome

end StarModel
