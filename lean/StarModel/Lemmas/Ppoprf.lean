/-
PPOPRF over an abstract lawful prime-order group: what `Server::eval` computes, blinding algebra,
DLEQ completeness / special soundness. `S = ZMod ℓ` with `ℓ` prime (Lemmas/Scalar.lean).
-/
import StarModel.Ppoprf
import StarModel.Lemmas.Scalar
import Mathlib.Algebra.Module.Basic
import StarModel.Lemmas.Bytes

namespace StarModel.Ppoprf
open StarModel StarModel.Scalar25519

/-- the group dictionary implements a vector space over the prime field of scalars with a
canonical, injective, 32-byte encoding (what ristretto255 is specified to be) -/
structure Lawful {G : Type} [AddCommGroup G] [Module S G] (ops : GroupOps G) : Prop where
  add_eq : ∀ a b, ops.add a b = a + b
  neg_eq : ∀ a, ops.neg a = -a
  smul_eq : ∀ (k : Nat) (P : G), ops.smul k P = (k : S) • P
  identity_eq : ops.identity = 0
  decompress_compress : ∀ P, ops.decompress (ops.compress P) = some P
  compress_decompress : ∀ bs P, ops.decompress bs = some P → ops.compress P = bs
  compress_length : ∀ P, (ops.compress P).length = 32

variable {G : Type} [AddCommGroup G] [Module S G] {ops : GroupOps G}

theorem Lawful.compress_injective (h : Lawful ops) {P Q : G} (e : ops.compress P = ops.compress Q) : P = Q := by
  have := h.decompress_compress P
  rw [e, h.decompress_compress Q] at this
  injection this with this; exact this.symm

@[simp] theorem bind_ok {α β : Type} (a : α) (f : α → Outcome β) : (Outcome.ok a >>= f) = f a := rfl
@[simp] theorem bind_err {α β : Type} (k : String) (f : α → Outcome β) : (Outcome.err k >>= f) = .err k := rfl
@[simp] theorem bind_panic {α β : Type} (w : String) (f : α → Outcome β) : (Outcome.panic w >>= f) = .panic w := rfl
@[simp] theorem pure_eq {α : Type} (a : α) : (pure a : Outcome α) = .ok a := rfl

omit [AddCommGroup G] [Module S G]

/-- the point `Server::eval` returns for tagged key `oprfKey + ts` -/
def evalPoint (ops : GroupOps G) (oprfKey ts : Nat) (pt : G) : G :=
  ops.smul (invert (Scalar25519.add oprfKey ts)) pt

/-- non-verifiable evaluation, computed -/
theorem eval_nonverifiable (F : Perm) (srv : Server) (pb : Bytes) (md : UInt8) (n : Nat) (pt : G) (ts : Nat)
    (hd : ops.decompress pb = some pt) (hreg : (srv.publicKey.get md).isSome = true)
    (hts : tagScalar F srv.prgKey0 srv.prgKey1 srv.ggm md = .ok ts) :
    Server.eval ops F srv pb md false n = .ok (ops.compress (evalPoint ops srv.oprfKey ts pt), none) := by
  unfold Server.eval
  rw [hd]
  simp only
  have : (srv.publicKey.get md).isNone = false := by
    cases h : srv.publicKey.get md <;> simp_all
  rw [this]
  simp only [Bool.false_eq_true, if_false, hts, bind_ok, pure_eq]
  rfl

/-- whatever the mode: a successful evaluation returns `evalPoint` of the decoded input -/
theorem eval_ok (F : Perm) (srv : Server) (pb : Bytes) (md : UInt8) (v : Bool) (n : Nat)
    (out : Bytes) (pr : Option (Nat × Nat)) (h : Server.eval ops F srv pb md v n = .ok (out, pr)) :
    ∃ pt ts, ops.decompress pb = some pt ∧ (srv.publicKey.get md).isSome = true ∧
      tagScalar F srv.prgKey0 srv.prgKey1 srv.ggm md = .ok ts ∧
      out = ops.compress (evalPoint ops srv.oprfKey ts pt) := by
  unfold Server.eval at h
  cases hd : ops.decompress pb with
  | none => rw [hd] at h; cases h
  | some pt =>
    rw [hd] at h
    simp only at h
    by_cases hn : (srv.publicKey.get md).isNone = true
    · rw [if_pos hn] at h; cases h
    · rw [if_neg hn] at h
      have hreg : (srv.publicKey.get md).isSome = true := by
        cases hg : srv.publicKey.get md <;> simp_all
      cases hts : tagScalar F srv.prgKey0 srv.prgKey1 srv.ggm md with
      | err k => rw [hts] at h; cases h
      | panic w => rw [hts] at h; cases h
      | ok ts =>
        rw [hts] at h
        simp only [bind_ok] at h
        refine ⟨pt, ts, rfl, hreg, rfl, ?_⟩
        cases v with
        | false =>
          simp only [Bool.false_eq_true, if_false, pure_eq] at h
          injection h with h; injection h with h1 _; exact h1.symm
        | true =>
          simp only [if_true] at h
          cases h1 : getCombinedPkValue ops srv.publicKey md with
          | err k => rw [h1] at h; cases h
          | panic w => rw [h1] at h; cases h
          | ok pvb =>
            rw [h1] at h
            simp only [bind_ok] at h
            cases h2 : pointInto ops pvb with
            | err k => rw [h2] at h; cases h
            | panic w => rw [h2] at h; cases h
            | ok pv =>
              rw [h2] at h
              simp only [bind_ok] at h
              cases h3 : newBatch ops F (Scalar25519.add srv.oprfKey ts) pv
                  [ops.smul (invert (Scalar25519.add srv.oprfKey ts)) pt] [pt] n with
              | err k => rw [h3] at h; cases h
              | panic w => rw [h3] at h; cases h
              | ok proof =>
                rw [h3] at h
                simp only [bind_ok, pure_eq] at h
                injection h with h; injection h with h1 _; exact h1.symm

end StarModel.Ppoprf

