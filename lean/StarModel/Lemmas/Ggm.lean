/-
Helper lemmas for the GGM puncturable PRF model (`StarModel.Ggm`): the ideal (unpunctured)
function, the key invariant `Inv`, its preservation by `puncture`, and the characterisation of
`eval` / `puncture` on a key satisfying the invariant. Everything is generic in the seed type, the
PRG `g` and the input length.
-/
import StarModel.Ggm

namespace StarModel.Ggm

variable {Seed : Type}

/-! ### bit strings -/

theorem byteBits_length (b : UInt8) : (byteBits b).length = 8 := by
  simp [byteBits]

theorem inputBits_length (input : Bytes) : (inputBits input).length = 8 * input.length := by
  induction input with
  | nil => rfl
  | cons b bs ih =>
    have : inputBits (b :: bs) = byteBits b ++ inputBits bs := by simp [inputBits]
    rw [this, List.length_append, ih, byteBits_length, List.length_cons]; omega

/-- little-endian value of a bit string -/
def bitsVal : Bits → Nat
  | [] => 0
  | b :: r => (if b then 1 else 0) + 2 * bitsVal r

theorem bitsVal_byteBits_nat : ∀ n, n < 256 →
    bitsVal ((List.range 8).map fun i => decide ((n / 2 ^ i) % 2 = 1)) = n := by
  decide +kernel

theorem bitsVal_byteBits (b : UInt8) : bitsVal (byteBits b) = b.toNat :=
  bitsVal_byteBits_nat b.toNat b.toNat_lt

theorem byteBits_injective {a b : UInt8} (h : byteBits a = byteBits b) : a = b := by
  have := congrArg bitsVal h
  rw [bitsVal_byteBits, bitsVal_byteBits] at this
  exact UInt8.toNat_inj.1 this

theorem inputBits_cons (b : UInt8) (bs : Bytes) : inputBits (b :: bs) = byteBits b ++ inputBits bs := by
  simp [inputBits]

/-- distinct byte strings have distinct bit strings -/
theorem inputBits_injective : ∀ {x y : Bytes}, inputBits x = inputBits y → x = y := by
  intro x
  induction x with
  | nil =>
    intro y h
    have := congrArg List.length h
    rw [inputBits_length, inputBits_length] at this
    cases y with
    | nil => rfl
    | cons _ _ => simp at this
  | cons a x ih =>
    intro y h
    cases y with
    | nil =>
      have := congrArg List.length h
      rw [inputBits_length, inputBits_length] at this
      simp at this
    | cons b y =>
      rw [inputBits_cons, inputBits_cons] at h
      obtain ⟨h1, h2⟩ := List.append_inj h (by rw [byteBits_length, byteBits_length])
      rw [byteBits_injective h1, ih h2]

/-! ### `bitEval` and the ideal function -/

@[simp] theorem bitEval_nil (g : Bool → Seed → Seed) (s : Seed) : bitEval g [] s = s := rfl

@[simp] theorem bitEval_cons (g : Bool → Seed → Seed) (b : Bool) (r : Bits) (s : Seed) :
    bitEval g (b :: r) s = bitEval g r (g b s) := rfl

theorem bitEval_append (g : Bool → Seed → Seed) (a b : Bits) (s : Seed) :
    bitEval g (a ++ b) s = bitEval g b (bitEval g a s) := by
  simp [bitEval, List.foldl_append]

/-- The value the unpunctured key assigns to the tree node `x` (for a full-length `x`: to the
input `x`): descend from the first-level seed selected by the first bit. -/
def ideal (g : Bool → Seed → Seed) (s0 s1 : Seed) : Bits → Seed
  | [] => s0
  | b :: rest => bitEval g rest (if b then s1 else s0)

theorem ideal_cons (g : Bool → Seed → Seed) (s0 s1 : Seed) (b : Bool) (rest : Bits) :
    ideal g s0 s1 (b :: rest) = bitEval g rest (if b then s1 else s0) := rfl

theorem ideal_append (g : Bool → Seed → Seed) (s0 s1 : Seed) (a b : Bits) (ha : a ≠ []) :
    ideal g s0 s1 (a ++ b) = bitEval g b (ideal g s0 s1 a) := by
  cases a with
  | nil => exact absurd rfl ha
  | cons c a => simp [ideal, bitEval_append]

/-- evaluating from a stored ideal seed of a non-empty prefix of `x` gives the ideal value of `x` -/
theorem bitEval_drop_ideal (g : Bool → Seed → Seed) (s0 s1 : Seed) {pfx x : Bits}
    (hne : pfx ≠ []) (hp : pfx <+: x) :
    bitEval g (x.drop pfx.length) (ideal g s0 s1 pfx) = ideal g s0 s1 x := by
  obtain ⟨t, rfl⟩ := hp
  rw [List.drop_left, ideal_append _ _ _ _ _ hne]

/-! ### siblings along a path -/

/-- the sibling of the depth-`j+1` node on the path to `bv` -/
def sib (bv : Bits) (j : Nat) : Bits := bv.take j ++ [!(bv.getD j false)]

theorem sib_length {bv : Bits} {j : Nat} (hj : j < bv.length) : (sib bv j).length = j + 1 := by
  simp [sib, List.length_take]; omega

theorem sib_ne_nil (bv : Bits) (j : Nat) : sib bv j ≠ [] := by simp [sib]

theorem take_prefix_sib (bv : Bits) {p j : Nat} (hpj : p ≤ j) : bv.take p <+: sib bv j :=
  (List.take_prefix_take_left hpj).trans (List.prefix_append _ _)

/-- a sibling node is never on the path -/
theorem sib_not_prefix {bv : Bits} {j : Nat} (hj : j < bv.length) : ¬ sib bv j <+: bv := by
  intro h
  rw [List.prefix_iff_eq_take, sib_length hj, List.take_succ_eq_append_getElem hj] at h
  have h2 := List.append_cancel_left h
  simp [List.getD_eq_getElem?_getD, List.getElem?_eq_getElem hj] at h2

/-- two distinct siblings along one path are incomparable -/
theorem sib_not_prefix_sib {bv : Bits} {i j : Nat} (hij : i < j) (hj : j < bv.length) :
    ¬ sib bv i <+: sib bv j ∧ ¬ sib bv j <+: sib bv i := by
  constructor
  · intro h
    have h1 : sib bv i <+: bv.take j := by
      refine List.prefix_of_prefix_length_le h (List.prefix_append _ _) ?_
      rw [sib_length (by omega), List.length_take]; omega
    exact sib_not_prefix (by omega) (h1.trans (List.take_prefix _ _))
  · intro h
    have := h.length_le
    rw [sib_length hj, sib_length (by omega)] at this; omega

theorem sib_cons_succ (b : Bool) (bv : Bits) (j : Nat) : sib (b :: bv) (j + 1) = b :: sib bv j := by
  simp [sib]

/-- a full-length string below the node `bv.take p` other than `bv` itself passes through exactly
one sibling of the path below that node; here: existence -/
theorem exists_sib_prefix : ∀ (bv x : Bits) (p : Nat), x.length = bv.length → x ≠ bv →
    bv.take p <+: x → ∃ j, p ≤ j ∧ j < bv.length ∧ sib bv j <+: x := by
  intro bv
  induction bv with
  | nil => intro x p hl hne _; cases x <;> simp_all
  | cons b bv ih =>
    intro x p hl hne hp
    cases x with
    | nil => simp at hl
    | cons c x =>
      have hl' : x.length = bv.length := by simpa using hl
      by_cases hcb : c = b
      · subst hcb
        have hne' : x ≠ bv := fun h => hne (by rw [h])
        cases p with
        | zero =>
          obtain ⟨j, _, hj, hs⟩ := ih x 0 hl' hne' (by simp)
          exact ⟨j + 1, by omega, by simp; omega, by rw [sib_cons_succ]; exact (List.prefix_cons_inj _).2 hs⟩
        | succ p =>
          have hp' : bv.take p <+: x := by
            rw [List.take_succ_cons] at hp; exact (List.prefix_cons_inj _).1 hp
          obtain ⟨j, hpj, hj, hs⟩ := ih x p hl' hne' hp'
          exact ⟨j + 1, by omega, by simp; omega, by rw [sib_cons_succ]; exact (List.prefix_cons_inj _).2 hs⟩
      · cases p with
        | zero =>
          refine ⟨0, Nat.le_refl _, by simp, ?_⟩
          have : sib (b :: bv) 0 = [c] := by
            cases b <;> cases c <;> simp_all [sib]
          rw [this]; exact ⟨x, rfl⟩
        | succ p =>
          rw [List.take_succ_cons, List.cons_prefix_cons] at hp
          exact absurd hp.1.symm hcb

/-! ### the co-path -/

theorem mem_coPath {g : Bool → Seed → Seed} {bv : Bits} {p : Nat} {seed : Seed} {q : Bits × Seed} :
    ∀ {m : Nat}, q ∈ coPath g bv p seed m ↔
      ∃ j, p ≤ j ∧ j < m ∧ q = (sib bv j, bitEval g ((sib bv j).drop p) seed) := by
  intro m
  induction m with
  | zero => simp [coPath]
  | succ m ih =>
    unfold coPath
    by_cases h1 : m < p
    · simp only [h1, if_true, List.not_mem_nil, false_iff]
      rintro ⟨j, h2, h3, _⟩; omega
    · simp only [h1, if_false, List.mem_cons]
      by_cases h2 : m = p
      · subst h2
        simp only [if_true, List.not_mem_nil, or_false]
        constructor
        · intro h; exact ⟨m, Nat.le_refl _, Nat.lt_succ_self _, h⟩
        · rintro ⟨j, h3, h4, h5⟩
          have : j = m := by omega
          subst this; exact h5
      · simp only [h2, if_false, ih]
        constructor
        · rintro (h | ⟨j, h3, h4, h5⟩)
          · exact ⟨m, by omega, Nat.lt_succ_self _, h⟩
          · exact ⟨j, h3, by omega, h5⟩
        · rintro ⟨j, h3, h4, h5⟩
          by_cases h6 : j = m
          · subst h6; exact Or.inl h5
          · exact Or.inr ⟨j, h3, by omega, h5⟩

/-- incomparability of two tree nodes -/
def Incomp (a b : Bits × Seed) : Prop := ¬ a.1 <+: b.1 ∧ ¬ b.1 <+: a.1

theorem Incomp.symm {a b : Bits × Seed} (h : Incomp a b) : Incomp b a := ⟨h.2, h.1⟩

theorem coPath_pairwise (g : Bool → Seed → Seed) (bv : Bits) (p : Nat) (seed : Seed) :
    ∀ m, m ≤ bv.length → (coPath g bv p seed m).Pairwise Incomp := by
  intro m
  induction m with
  | zero => intro _; simp [coPath]
  | succ m ih =>
    intro hm
    unfold coPath
    by_cases h1 : m < p
    · simp [h1]
    · simp only [h1, if_false]
      by_cases h2 : m = p
      · simp [h2]
      · simp only [h2, if_false, List.pairwise_cons]
        refine ⟨?_, ih (by omega)⟩
        intro q hq
        obtain ⟨j, _, hj, rfl⟩ := mem_coPath.1 hq
        exact (sib_not_prefix_sib (bv := bv) hj (by omega)).symm

/-! ### the key invariant -/

/-- The invariant of a `GGM` key with first-level seeds `s0 s1`, tree depth `n`, after exactly the
full-length inputs `P` have been punctured (in this order). -/
structure Inv (g : Bool → Seed → Seed) (n : Nat) (s0 s1 : Seed) (k : Key Seed) (P : List Bits) :
    Prop where
  /-- (a) every stored prefix is non-empty and no longer than the depth -/
  bounds : ∀ ps ∈ k.prefixes, ps.1 ≠ [] ∧ ps.1.length ≤ n
  /-- (b) the stored prefixes are pairwise incomparable: none is a prefix of another, none occurs
  twice -/
  prefixFree : k.prefixes.Pairwise Incomp
  /-- (c) each stored seed is the ideal seed of its node -/
  seeds : ∀ ps ∈ k.prefixes, ps.2 = ideal g s0 s1 ps.1
  /-- (d) coverage: a full-length input lies below a stored node iff it was not punctured -/
  cover : ∀ x : Bits, x.length = n → ((∃ ps ∈ k.prefixes, ps.1 <+: x) ↔ x ∉ P)
  /-- (e) the recorded punctured list is `P` -/
  punct : k.punctured = P
  /-- every punctured input is a full-length bit string -/
  full : ∀ x ∈ P, x.length = n

theorem Inv.no_ancestor {g : Bool → Seed → Seed} {n : Nat} {s0 s1 : Seed} {k : Key Seed}
    {P : List Bits} (h : Inv g n s0 s1 k P) {x : Bits} (hx : x ∈ P) :
    ∀ ps ∈ k.prefixes, ¬ ps.1 <+: x := by
  intro ps hps hpre
  exact ((h.cover x (h.full x hx)).1 ⟨ps, hps, hpre⟩) hx

/-- `initKey` satisfies the invariant with nothing punctured (depth at least 1) -/
theorem inv_init (g : Bool → Seed → Seed) (n : Nat) (hn : 1 ≤ n) (s0 s1 : Seed) :
    Inv g n s0 s1 (initKey s0 s1) [] where
  bounds := by
    intro ps hps
    simp only [initKey, List.mem_cons, List.not_mem_nil, or_false] at hps
    rcases hps with rfl | rfl <;> exact ⟨by simp, by simpa using hn⟩
  prefixFree := by
    simp [initKey, Incomp, List.cons_prefix_cons]
  seeds := by
    intro ps hps
    simp only [initKey, List.mem_cons, List.not_mem_nil, or_false] at hps
    rcases hps with rfl | rfl <;> rfl
  cover := by
    intro x hx
    simp only [List.not_mem_nil, not_false_eq_true, iff_true]
    cases x with
    | nil => simp at hx; omega
    | cons b x =>
      cases b
      · exact ⟨([false], s0), by simp [initKey], ⟨x, rfl⟩⟩
      · exact ⟨([true], s1), by simp [initKey], ⟨x, rfl⟩⟩
  punct := rfl
  full := by simp

/-! ### generic list facts -/

/-- `position` + `remove`: the first element satisfying `p` is removed -/
theorem eraseIdx_of_findIdx? {α : Type} {p : α → Bool} {l : List α} {a : α} (ha : a ∈ l)
    (hpa : p a = true) :
    ∃ i b l₁ l₂, l.findIdx? p = some i ∧ p b = true ∧ l = l₁ ++ b :: l₂ ∧ l.eraseIdx i = l₁ ++ l₂ := by
  obtain ⟨b, l₁, l₂, _, hb, hl, he⟩ := List.exists_of_eraseP ha hpa
  rw [List.eraseP_eq_eraseIdx] at he
  cases hf : l.findIdx? p with
  | none =>
    rw [List.findIdx?_eq_none_iff] at hf
    have := hf a ha
    simp [hpa] at this
  | some i =>
    rw [hf] at he
    exact ⟨i, b, l₁, l₂, rfl, hb, hl, he⟩

/-- in a pairwise-incomparable list two comparable members are the same member -/
theorem eq_of_pairwise_incomp {l : List (Bits × Seed)} (hl : l.Pairwise Incomp) {a b : Bits × Seed}
    (ha : a ∈ l) (hb : b ∈ l) (hab : a.1 <+: b.1 ∨ b.1 <+: a.1) : a = b := by
  induction l with
  | nil => simp at ha
  | cons c l ih =>
    rw [List.pairwise_cons] at hl
    rcases List.mem_cons.1 ha with rfl | ha' <;> rcases List.mem_cons.1 hb with rfl | hb'
    · rfl
    · have := hl.1 b hb'; rcases hab with h | h
      · exact absurd h this.1
      · exact absurd h this.2
    · have := hl.1 a ha'; rcases hab with h | h
      · exact absurd h this.2
      · exact absurd h this.1
    · exact ih hl.2 ha' hb'

theorem length_le_one_of_pairwise_incomp {l : List (Bits × Seed)} (hl : l.Pairwise Incomp) {x : Bits}
    (hx : ∀ a ∈ l, a.1 <+: x) : l.length ≤ 1 := by
  match l, hl, hx with
  | [], _, _ => simp
  | [_], _, _ => simp
  | a :: b :: t, hl, hx =>
    exfalso
    rw [List.pairwise_cons] at hl
    have := hl.1 b (by simp)
    rcases List.prefix_or_prefix_of_prefix (hx a (by simp)) (hx b (by simp)) with h | h
    · exact this.1 h
    · exact this.2 h

/-- at most one member of a pairwise-incomparable list is a prefix of a given string -/
theorem filter_prefix_length_le_one {l : List (Bits × Seed)} (hl : l.Pairwise Incomp) (x : Bits) :
    (l.filter fun ps => ps.1.isPrefixOf x).length ≤ 1 := by
  refine length_le_one_of_pairwise_incomp (hl.sublist List.filter_sublist) (x := x) ?_
  intro a ha
  rw [List.mem_filter, List.isPrefixOf_iff_prefix] at ha
  exact ha.2

/-! ### `findPrefix` on a key satisfying the invariant -/

theorem findPrefix_some {k : Key Seed} {bv pfx : Bits} {seed : Seed}
    (h : findPrefix k bv = some (pfx, seed)) : (pfx, seed) ∈ k.prefixes ∧ pfx <+: bv := by
  unfold findPrefix at h
  exact ⟨List.mem_of_find?_eq_some h, by simpa using List.find?_some h⟩

theorem findPrefix_none {k : Key Seed} {bv : Bits} :
    findPrefix k bv = none ↔ ∀ ps ∈ k.prefixes, ¬ ps.1 <+: bv := by
  unfold findPrefix
  rw [List.find?_eq_none]
  simp only [List.isPrefixOf_iff_prefix]

theorem findPrefix_of_mem {g : Bool → Seed → Seed} {n : Nat} {s0 s1 : Seed} {k : Key Seed}
    {P : List Bits} (h : Inv g n s0 s1 k P) {bv : Bits} (hbv : bv ∈ P) : findPrefix k bv = none :=
  findPrefix_none.2 (h.no_ancestor hbv)

theorem findPrefix_of_not_mem {g : Bool → Seed → Seed} {n : Nat} {s0 s1 : Seed} {k : Key Seed}
    {P : List Bits} (h : Inv g n s0 s1 k P) {bv : Bits} (hl : bv.length = n) (hbv : bv ∉ P) :
    ∃ pfx, findPrefix k bv = some (pfx, ideal g s0 s1 pfx) ∧
      (pfx, ideal g s0 s1 pfx) ∈ k.prefixes ∧ pfx <+: bv ∧ pfx ≠ [] := by
  cases hf : findPrefix k bv with
  | none =>
    obtain ⟨ps, hps, hpre⟩ := (h.cover bv hl).2 hbv
    exact absurd hpre (findPrefix_none.1 hf ps hps)
  | some ps =>
    obtain ⟨pfx, seed⟩ := ps
    obtain ⟨hm, hp⟩ := findPrefix_some hf
    have hs : seed = ideal g s0 s1 pfx := h.seeds _ hm
    subst hs
    exact ⟨pfx, rfl, hm, hp, (h.bounds _ hm).1⟩

/-! ### `eval` on a key satisfying the invariant -/

theorem eval_bad_length (g : Bool → Seed → Seed) (inpLen : Nat) (k : Key Seed) {input : Bytes}
    (hl : input.length ≠ inpLen) : eval g inpLen k input = .error .badInputLength := by
  simp [eval, hl]

theorem eval_of_not_mem {g : Bool → Seed → Seed} {inpLen : Nat} {s0 s1 : Seed} {k : Key Seed}
    {P : List Bits} (h : Inv g (8 * inpLen) s0 s1 k P) {input : Bytes} (hl : input.length = inpLen)
    (hx : inputBits input ∉ P) :
    eval g inpLen k input = .ok (ideal g s0 s1 (inputBits input)) := by
  obtain ⟨pfx, hf, _, hp, hne⟩ :=
    findPrefix_of_not_mem h (by rw [inputBits_length, hl]) hx
  simp only [eval, hl, ne_eq, not_true_eq_false, if_false, hf]
  rw [bitEval_drop_ideal g s0 s1 hne hp]

theorem eval_of_mem {g : Bool → Seed → Seed} {inpLen : Nat} {s0 s1 : Seed} {k : Key Seed}
    {P : List Bits} (h : Inv g (8 * inpLen) s0 s1 k P) {input : Bytes} (hl : input.length = inpLen)
    (hx : inputBits input ∈ P) :
    eval g inpLen k input = .error .noPrefixFound := by
  simp only [eval, hl, ne_eq, not_true_eq_false, if_false, findPrefix_of_mem h hx]

/-! ### the key update of a successful `puncture` preserves the invariant -/

/-- the nodes a puncture adds: the siblings of the path below the covering node -/
theorem mem_newPfxs {g : Bool → Seed → Seed} {bv : Bits} {p : Nat} {seed : Seed} {q : Bits × Seed} :
    q ∈ (if p ≠ bv.length then coPath g bv p seed bv.length else []) ↔
      ∃ j, p ≤ j ∧ j < bv.length ∧ q = (sib bv j, bitEval g ((sib bv j).drop p) seed) := by
  split
  · exact mem_coPath
  · rename_i h
    simp only [List.not_mem_nil, false_iff]
    rintro ⟨j, h1, h2, _⟩
    simp only [ne_eq, Decidable.not_not] at h
    omega

theorem newPfxs_pairwise (g : Bool → Seed → Seed) (bv : Bits) (p : Nat) (seed : Seed) :
    (if p ≠ bv.length then coPath g bv p seed bv.length else []).Pairwise Incomp := by
  split
  · exact coPath_pairwise g bv p seed _ (Nat.le_refl _)
  · exact List.Pairwise.nil

/-- a node incomparable with `pfx` is incomparable with everything below `pfx` -/
theorem incomp_of_below {a : Bits × Seed} {pfx c : Bits} {s s' : Seed} (h : Incomp a (pfx, s))
    (hc : pfx <+: c) : Incomp a (c, s') := by
  constructor
  · intro h1
    rcases List.prefix_or_prefix_of_prefix h1 hc with h2 | h2
    · exact h.1 h2
    · exact h.2 h2
  · intro h1
    exact h.2 (hc.trans h1)

theorem inv_after_puncture {g : Bool → Seed → Seed} {n : Nat} {s0 s1 : Seed} {k : Key Seed}
    {P : List Bits} (h : Inv g n s0 s1 k P) {bv pfx : Bits} {l₁ l₂ : List (Bits × Seed)}
    (hbl : bv.length = n) (hne : pfx ≠ []) (hp : pfx <+: bv)
    (hdec : k.prefixes = l₁ ++ (pfx, ideal g s0 s1 pfx) :: l₂) :
    Inv g n s0 s1
      ⟨l₁ ++ l₂ ++ (if pfx.length ≠ bv.length
          then coPath g bv pfx.length (ideal g s0 s1 pfx) bv.length else []),
        P ++ [bv]⟩ (P ++ [bv]) := by
  have hpt : bv.take pfx.length = pfx := (List.prefix_iff_eq_take.1 hp).symm
  have hpw := h.prefixFree
  rw [hdec, List.pairwise_append, List.pairwise_cons] at hpw
  obtain ⟨hpw1, ⟨hpw2, hpw3⟩, hpw4⟩ := hpw
  -- the surviving old nodes
  have hold : ∀ q ∈ l₁ ++ l₂, q ∈ k.prefixes ∧ Incomp q (pfx, ideal g s0 s1 pfx) := by
    intro q hq
    rcases List.mem_append.1 hq with hq | hq
    · exact ⟨by rw [hdec]; simp [hq], hpw4 q hq _ (by simp)⟩
    · exact ⟨by rw [hdec]; simp [hq], (hpw2 q hq).symm⟩
  have hmemP : (pfx, ideal g s0 s1 pfx) ∈ k.prefixes := by rw [hdec]; simp
  -- the new nodes
  have hnew : ∀ q ∈ (if pfx.length ≠ bv.length
      then coPath g bv pfx.length (ideal g s0 s1 pfx) bv.length else []),
      ∃ j, pfx.length ≤ j ∧ j < bv.length ∧ q.1 = sib bv j ∧ q.2 = ideal g s0 s1 (sib bv j) := by
    intro q hq
    obtain ⟨j, h1, h2, rfl⟩ := mem_newPfxs.1 hq
    refine ⟨j, h1, h2, rfl, ?_⟩
    have : pfx <+: sib bv j := by
      have := take_prefix_sib bv h1
      rwa [hpt] at this
    exact bitEval_drop_ideal g s0 s1 hne this
  have hbelow : ∀ {j}, pfx.length ≤ j → pfx <+: sib bv j := by
    intro j h1
    have := take_prefix_sib bv h1
    rwa [hpt] at this
  refine ⟨?_, ?_, ?_, ?_, rfl, ?_⟩
  · -- bounds
    intro q hq
    rcases List.mem_append.1 hq with hq | hq
    · exact h.bounds q (hold q hq).1
    · obtain ⟨j, _, h2, h3, _⟩ := hnew q hq
      rw [h3]
      exact ⟨sib_ne_nil _ _, by rw [sib_length h2]; omega⟩
  · -- prefix-freeness
    show List.Pairwise Incomp (l₁ ++ l₂ ++ _)
    rw [List.pairwise_append]
    refine ⟨?_, newPfxs_pairwise _ _ _ _, ?_⟩
    · rw [List.pairwise_append]
      exact ⟨hpw1, hpw3, fun a ha b hb => hpw4 a ha b (List.mem_cons_of_mem _ hb)⟩
    · intro a ha b hb
      obtain ⟨j, h1, _, h3, _⟩ := hnew b hb
      have := incomp_of_below (s' := b.2) (hold a ha).2 (hbelow h1)
      rw [← h3] at this
      exact this
  · -- seeds
    intro q hq
    rcases List.mem_append.1 hq with hq | hq
    · exact h.seeds q (hold q hq).1
    · obtain ⟨j, _, _, h3, h4⟩ := hnew q hq
      rw [h4, h3]
  · -- coverage
    intro x hx
    show (∃ ps ∈ l₁ ++ l₂ ++ _, ps.1 <+: x) ↔ x ∉ P ++ [bv]
    rw [List.mem_append, List.mem_singleton, not_or]
    constructor
    · rintro ⟨ps, hps0, hpre⟩
      rcases List.mem_append.1 hps0 with hps | hps
      · have hinc := (hold ps hps).2
        refine ⟨(h.cover x hx).1 ⟨ps, (hold ps hps).1, hpre⟩, ?_⟩
        intro hxb
        rw [hxb] at hpre
        rcases List.prefix_or_prefix_of_prefix hpre hp with h1 | h1
        · exact hinc.1 h1
        · exact hinc.2 h1
      · obtain ⟨j, h1, h2, h3, _⟩ := hnew ps hps
        rw [h3] at hpre
        refine ⟨(h.cover x hx).1 ⟨_, hmemP, (hbelow h1).trans hpre⟩, ?_⟩
        intro hxb
        rw [hxb] at hpre
        exact sib_not_prefix h2 hpre
    · rintro ⟨hxP, hxb⟩
      obtain ⟨ps, hps, hpre⟩ := (h.cover x hx).2 hxP
      rw [hdec] at hps
      rcases List.mem_append.1 hps with hps | hps
      · exact ⟨ps, by simp [hps], hpre⟩
      · rcases List.mem_cons.1 hps with rfl | hps
        · -- below the removed node: through exactly one sibling of the path
          have hpre' : bv.take pfx.length <+: x := by rw [hpt]; exact hpre
          obtain ⟨j, h1, h2, h3⟩ := exists_sib_prefix bv x pfx.length (by omega) hxb hpre'
          refine ⟨(sib bv j, bitEval g ((sib bv j).drop pfx.length) (ideal g s0 s1 pfx)), ?_, h3⟩
          exact List.mem_append_right _ (mem_newPfxs.2 ⟨j, h1, h2, rfl⟩)
        · exact ⟨ps, by simp [hps], hpre⟩
  · -- full
    intro x hx
    rcases List.mem_append.1 hx with hx | hx
    · exact h.full x hx
    · rw [List.mem_singleton.1 hx]; exact hbl

/-! ### `puncture` on a key satisfying the invariant -/

theorem puncture_bad_length (g : Bool → Seed → Seed) (inpLen : Nat) (k : Key Seed) {input : Bytes}
    (hl : input.length ≠ inpLen) : puncture g inpLen k input = .error .badInputLength := by
  simp [puncture, hl]

theorem puncture_of_mem {g : Bool → Seed → Seed} {inpLen : Nat} {s0 s1 : Seed} {k : Key Seed}
    {P : List Bits} (h : Inv g (8 * inpLen) s0 s1 k P) {input : Bytes} (hl : input.length = inpLen)
    (hx : inputBits input ∈ P) :
    puncture g inpLen k input = .error .noPrefixFound := by
  simp only [puncture, hl, ne_eq, not_true_eq_false, if_false, findPrefix_of_mem h hx]

/-- the key produced by a successful `puncture`, in terms of the decomposition of the stored list
around the covering node -/
theorem puncture_of_not_mem_eq {g : Bool → Seed → Seed} {inpLen : Nat} {s0 s1 : Seed} {k : Key Seed}
    {P : List Bits} (h : Inv g (8 * inpLen) s0 s1 k P) {input : Bytes} (hl : input.length = inpLen)
    (hx : inputBits input ∉ P) :
    ∃ pfx l₁ l₂, pfx ≠ [] ∧ pfx <+: inputBits input ∧
      k.prefixes = l₁ ++ (pfx, ideal g s0 s1 pfx) :: l₂ ∧
      puncture g inpLen k input = .ok
        ⟨l₁ ++ l₂ ++ (if pfx.length ≠ (inputBits input).length
            then coPath g (inputBits input) pfx.length (ideal g s0 s1 pfx) (inputBits input).length
            else []),
         P ++ [inputBits input]⟩ := by
  have hbl : (inputBits input).length = 8 * inpLen := by rw [inputBits_length, hl]
  obtain ⟨pfx, hf, hm, hp, hne⟩ := findPrefix_of_not_mem h hbl hx
  -- the covering node is not recorded as punctured
  have hnp : pfx ∉ P := by
    intro hpP
    exact h.no_ancestor hpP _ hm (List.prefix_refl _)
  -- position + remove
  obtain ⟨i, b, l₁, l₂, hfi, hb, hdec, her⟩ :=
    eraseIdx_of_findIdx? (p := fun ps : Bits × Seed => ps.1 == pfx) hm (by simp)
  have hb1 : b.1 = pfx := by simpa using hb
  have hbm : b ∈ k.prefixes := by rw [hdec]; simp
  have hbe : b = (pfx, ideal g s0 s1 pfx) :=
    eq_of_pairwise_incomp h.prefixFree hbm hm (Or.inl (by rw [hb1]; exact List.prefix_refl _))
  subst hbe
  refine ⟨pfx, l₁, l₂, hne, hp, hdec, ?_⟩
  have hany : (k.punctured.any fun x => x == pfx) = false := by
    rw [h.punct, List.any_eq_false]
    intro x hxP
    simp only [beq_iff_eq]
    rintro rfl
    exact hnp hxP
  rw [h.punct] at hany
  simp only [puncture, hl, ne_eq, not_true_eq_false, if_false, hf, keyPuncture, hany, hfi, her,
    h.punct, Bool.false_eq_true]

/-- a successful `puncture` preserves the invariant and appends the input to `P` -/
theorem puncture_of_not_mem {g : Bool → Seed → Seed} {inpLen : Nat} {s0 s1 : Seed} {k : Key Seed}
    {P : List Bits} (h : Inv g (8 * inpLen) s0 s1 k P) {input : Bytes} (hl : input.length = inpLen)
    (hx : inputBits input ∉ P) :
    ∃ k', puncture g inpLen k input = .ok k' ∧
      Inv g (8 * inpLen) s0 s1 k' (P ++ [inputBits input]) := by
  obtain ⟨pfx, l₁, l₂, hne, hp, hdec, heq⟩ := puncture_of_not_mem_eq h hl hx
  exact ⟨_, heq, inv_after_puncture h (by rw [inputBits_length, hl]) hne hp hdec⟩

/-! ### histories: the key-based machine against the ideal machine

The ideal machine keeps only the list `P` of punctured inputs and answers from `ideal`. -/

/-- the ideal machine's next state -/
def specStep (inpLen : Nat) (P : List Bits) : Op → List Bits
  | .eval _ => P
  | .puncture input =>
    if input.length = inpLen ∧ inputBits input ∉ P then P ++ [inputBits input] else P

/-- the ideal machine's answer -/
def specOut (g : Bool → Seed → Seed) (inpLen : Nat) (s0 s1 : Seed) (P : List Bits) : Op → Out Seed
  | .eval input =>
    .evalRes (if input.length ≠ inpLen then .error .badInputLength
      else if inputBits input ∈ P then .error .noPrefixFound
      else .ok (ideal g s0 s1 (inputBits input)))
  | .puncture input =>
    .punctRes (if input.length ≠ inpLen then .error .badInputLength
      else if inputBits input ∈ P then .error .noPrefixFound
      else .ok ())

/-- the ideal machine on a whole history -/
def specRun (g : Bool → Seed → Seed) (inpLen : Nat) (s0 s1 : Seed) :
    List Bits → List Op → List Bits × List (Out Seed)
  | P, [] => (P, [])
  | P, op :: ops =>
    let r2 := specRun g inpLen s0 s1 (specStep inpLen P op) ops
    (r2.1, specOut g inpLen s0 s1 P op :: r2.2)

/-- the inputs of the `puncture` calls that returned `Ok(())`, in order -/
def successes : List Op → List (Out Seed) → List Bits
  | .puncture input :: ops, .punctRes (.ok _) :: outs => inputBits input :: successes ops outs
  | _ :: ops, _ :: outs => successes ops outs
  | _, _ => []

theorem step_spec {g : Bool → Seed → Seed} {inpLen : Nat} {s0 s1 : Seed} {k : Key Seed}
    {P : List Bits} (h : Inv g (8 * inpLen) s0 s1 k P) (op : Op) :
    (step g inpLen k op).2 = specOut g inpLen s0 s1 P op ∧
    Inv g (8 * inpLen) s0 s1 (step g inpLen k op).1 (specStep inpLen P op) ∧
    (specStep inpLen P op = P → (step g inpLen k op).1 = k) := by
  cases op with
  | eval input =>
    refine ⟨?_, h, fun _ => rfl⟩
    simp only [step, specOut]
    by_cases hl : input.length = inpLen
    · by_cases hx : inputBits input ∈ P
      · rw [eval_of_mem h hl hx]; simp [hl, hx]
      · rw [eval_of_not_mem h hl hx]; simp [hl, hx]
    · rw [eval_bad_length g inpLen k hl]; simp [hl]
  | puncture input =>
    by_cases hl : input.length = inpLen
    · by_cases hx : inputBits input ∈ P
      · simp only [step, specOut, specStep, puncture_of_mem h hl hx]
        simp [hl, hx, h]
      · obtain ⟨k', hk', hinv⟩ := puncture_of_not_mem h hl hx
        simp only [step, specOut, specStep, hk']
        refine ⟨by simp [hl, hx], by simpa [hl, hx] using hinv, ?_⟩
        intro hP
        simp [hl, hx] at hP
    · simp only [step, specOut, specStep, puncture_bad_length g inpLen k hl]
      simp [hl, h]

theorem run_spec {g : Bool → Seed → Seed} {inpLen : Nat} {s0 s1 : Seed} (hist : List Op) :
    ∀ {k : Key Seed} {P : List Bits}, Inv g (8 * inpLen) s0 s1 k P →
      (run g inpLen k hist).2 = (specRun g inpLen s0 s1 P hist).2 ∧
      Inv g (8 * inpLen) s0 s1 (run g inpLen k hist).1 (specRun g inpLen s0 s1 P hist).1 := by
  induction hist with
  | nil => intro k P h; exact ⟨rfl, h⟩
  | cons op ops ih =>
    intro k P h
    obtain ⟨h1, h2, _⟩ := step_spec h op
    obtain ⟨h3, h4⟩ := ih h2
    simp only [run, specRun]
    exact ⟨by rw [h1, h3], h4⟩

/-- the ideal machine's final state: the start state followed by the successful punctures -/
theorem specRun_successes (g : Bool → Seed → Seed) (inpLen : Nat) (s0 s1 : Seed) (hist : List Op) :
    ∀ P : List Bits, (specRun g inpLen s0 s1 P hist).1 =
      P ++ successes hist (specRun g inpLen s0 s1 P hist).2 := by
  induction hist with
  | nil => intro P; simp [specRun, successes]
  | cons op ops ih =>
    intro P
    simp only [specRun]
    rw [ih]
    cases op with
    | eval input => simp [specStep, successes]
    | puncture input =>
      by_cases hl : input.length = inpLen
      · by_cases hx : inputBits input ∈ P
        · simp [specStep, specOut, successes, hl, hx]
        · simp [specStep, specOut, successes, hl, hx]
      · simp [specStep, specOut, successes, hl]

/-! ### equal values at different inputs give a PRG collision -/

/-- two descents of equal length that end in the same seed either are the same descent or pass
through an explicit collision of the PRG: at some step `i` the pairs (bit, seed) differ while `g`
maps them to the same seed -/
theorem bitEval_collision (g : Bool → Seed → Seed) : ∀ (r r' : Bits) (s s' : Seed),
    r.length = r'.length → bitEval g r s = bitEval g r' s' →
    (r = r' ∧ s = s') ∨
    ∃ i, i < r.length ∧
      (r.getD i false, bitEval g (r.take i) s) ≠ (r'.getD i false, bitEval g (r'.take i) s') ∧
      g (r.getD i false) (bitEval g (r.take i) s) = g (r'.getD i false) (bitEval g (r'.take i) s') := by
  intro r
  induction r with
  | nil =>
    intro r' s s' hl h
    cases r' with
    | nil => exact Or.inl ⟨rfl, h⟩
    | cons _ _ => simp at hl
  | cons b t ih =>
    intro r' s s' hl h
    cases r' with
    | nil => simp at hl
    | cons b' t' =>
      have hl' : t.length = t'.length := by simpa using hl
      rcases ih t' (g b s) (g b' s') hl' h with ⟨ht, hg⟩ | ⟨i, hi, hne, heq⟩
      · by_cases hbs : (b, s) = (b', s')
        · left
          have h1 : b = b' := congrArg Prod.fst hbs
          have h2 : s = s' := congrArg Prod.snd hbs
          exact ⟨by rw [h1, ht], h2⟩
        · right
          exact ⟨0, by simp, by simpa using hbs, by simpa using hg⟩
      · right
        refine ⟨i + 1, by simp; omega, ?_, ?_⟩
        · simpa using hne
        · simpa using heq

end StarModel.Ggm
