/-
The exported key state of a REACHABLE server is inside the domain on which the byte-level codec is
proved to round-trip (`Codec.KeyStateValid`): at most 511 retained nodes of at most 8 bits, at most
256 punctured inputs of 8 bits, 32-byte seeds.
-/
import StarModel.Lemmas.Codec
import StarModel.Lemmas.Ggm
import StarModel.Lemmas.Strobe
import Mathlib.Data.List.Perm.Subperm

namespace StarModel.KeyStateLemmas
open StarModel StarModel.Ggm

/-- every bit string of length at most `n` -/
def allBits : Nat → List Bits
  | 0 => [[]]
  | n + 1 => [] :: ((allBits n).map (false :: ·) ++ (allBits n).map (true :: ·))

theorem mem_allBits : ∀ (n : Nat) (p : Bits), p.length ≤ n → p ∈ allBits n
  | 0, p, h => by
    have : p = [] := List.eq_nil_of_length_eq_zero (by omega)
    subst this; simp [allBits]
  | n + 1, [], _ => by simp [allBits]
  | n + 1, b :: p, h => by
    have hp : p ∈ allBits n := mem_allBits n p (by simpa using h)
    simp only [allBits, List.mem_cons, List.mem_append, List.mem_map]
    right
    cases b
    · exact Or.inl ⟨p, hp, rfl⟩
    · exact Or.inr ⟨p, hp, rfl⟩

theorem allBits_length (n : Nat) : (allBits n).length = 2 ^ (n + 1) - 1 := by
  induction n with
  | zero => rfl
  | succ n ih =>
    simp only [allBits, List.length_cons, List.length_append, List.length_map, ih]
    have : 1 ≤ 2 ^ (n + 1) := Nat.one_le_two_pow
    rw [Nat.pow_succ 2 (n + 1)]
    omega

/-- a duplicate-free list of bit strings of length at most `n` has fewer than `2^(n+1)` members -/
theorem nodup_bits_length_lt (l : List Bits) (n : Nat) (hd : l.Nodup) (hl : ∀ p ∈ l, p.length ≤ n) :
    l.length < 2 ^ (n + 1) := by
  have hsub : l ⊆ allBits n := fun p hp => mem_allBits n p (hl p hp)
  have := (hd.subperm hsub).length_le
  rw [allBits_length] at this
  have : 1 ≤ 2 ^ (n + 1) := Nat.one_le_two_pow
  omega

variable {Seed : Type}

/-- pairwise incomparable stored nodes have pairwise different prefixes -/
theorem nodup_of_prefixFree (l : List (Bits × Seed)) (h : l.Pairwise Incomp) : (l.map Prod.fst).Nodup := by
  rw [List.Nodup, List.pairwise_map]
  refine h.imp ?_
  intro a b hab he
  apply hab.1
  have he' : a.1 = b.1 := he
  rw [he']
  exact List.prefix_refl _

/-- the punctured list of the ideal machine never holds an input twice -/
theorem specRun_nodup (g : Bool → Seed → Seed) (inpLen : Nat) (s0 s1 : Seed) (P : List Bits) (hist : List Op)
    (hP : P.Nodup) : (specRun g inpLen s0 s1 P hist).1.Nodup := by
  induction hist generalizing P with
  | nil => exact hP
  | cons op ops ih =>
    simp only [specRun]
    apply ih
    cases op with
    | eval _ => exact hP
    | puncture input =>
      simp only [specStep]
      split
      · rename_i h
        rw [List.nodup_append]
        refine ⟨hP, by simp, ?_⟩
        intro a ha b hb
        rw [List.mem_singleton] at hb
        subst hb
        intro he
        exact h.2 (he ▸ ha)
      · exact hP

/-- length of a seed below a node: the start seed's, or the PRG's output length -/
theorem bitEval_length (F : Perm) (k0 k1 : Bytes) (rest : Bits) (s : Bytes) :
    (bitEval (strobeG F k0 k1) rest s).length = if rest = [] then s.length else Params.ggmSeedLen := by
  induction rest generalizing s with
  | nil => rfl
  | cons b rest ih =>
    simp only [bitEval, List.foldl_cons] at ih ⊢
    rw [ih]
    simp only [List.cons_ne_nil, if_false]
    by_cases hr : rest = []
    · rw [if_pos hr]
      unfold strobeG prgEval
      simp only [StrobeRng.fillBytes]
      exact Strobe.prf_length _ _ _
    · rw [if_neg hr]

end StarModel.KeyStateLemmas
