/-
Source-structure obligations. `tools/extract_params.py` extracts, on every run, the ordered list of
STROBE constructor / method calls (with their first argument) of every function of /repo that
builds a transcript, and the argument lists of the three `strobe_digest` call sites. The theorems
below state that these are the sequences the hand-written model was transcribed from:

  Adss.macTranscript / Adss.deal     ↔  skelAdssShare, skelAdssVerify
  Adss.recover                       ↔  skelAdssRecover
  Star.strobeDigest / encrypt / decrypt ↔ skelStarDigest, skelStarEncrypt, skelStarDecrypt
  StrobeRng.fillBytes                ↔  skelRngFill (three identical copies)
  Ggm.prgSetup / prgEval             ↔  skelGgmPrgSetup, skelGgmPrgEval
  Ppoprf.strobeHash                  ↔  skelPpoprfHash
  Star.localOps / deriveOps / skeOps ↔  callSampleLocal, callDeriveRandoms, callDeriveSkeKey

A reordered, dropped, merged, re-labelled or streamed (`more = true`) operation in the source makes
one of these fail to check (a broken proof obligation), independently of the byte-level
correspondence; the property files whose theorems depend on the transcript structure import this
module.
-/
import StarModel.Params

namespace StarModel.Skeleton
open StarModel.Params

theorem adss_share : skelAdssShare =
    ["new(adss)", "ad(self.A.to_bytes())", "ad(self.M)", "key(self.R)", "send_mac(_)", "prf(_)",
     "new(adss encrypt)", "key(_)", "send_enc(_)", "send_enc(_)"] := by decide

theorem adss_verify : skelAdssVerify =
    ["new(adss)", "ad(self.A.to_bytes())", "ad(self.M)", "key(self.R)", "recv_mac(_)", "prf(_)"] := by decide

/-- ... and after the MAC both derive the key with the same operation -/
theorem adss_verify_key_matches_share : skelAdssVerify.drop 5 = (skelAdssShare.drop 5).take 1 := by decide

theorem adss_recover : skelAdssRecover = ["new(adss encrypt)", "key(_)", "recv_enc(_)", "recv_enc(_)"] := by decide

/-- sharing and verification absorb the same fields in the same order -/
theorem adss_verify_matches_share : skelAdssVerify.take 4 = skelAdssShare.take 4 := by decide

theorem star_digest : skelStarDigest = ["new(<label>)", "key(_)", "ad(_)"] := by decide
theorem star_encrypt : skelStarEncrypt = ["new(<label>)", "key(_)", "send_enc(_)"] := by decide
theorem star_decrypt : skelStarDecrypt = ["new(<label>)", "key(_)", "recv_enc(_)"] := by decide

theorem rng_fill : skelRngFill = ["meta_ad(_)", "prf(_)"] ∧ skelRngFillAdss = skelRngFill ∧
    skelRngFillPpoprf = skelRngFill := by decide

theorem ggm_prg : skelGgmPrgSetup = ["new(ggm key gen (ppoprf))", "key(sample_secret())"] ∧
    skelGgmPrgEval = ["new(ggm eval (ppoprf))", "key(self.key)", "ad(_)"] := by decide

theorem ppoprf_hash : skelPpoprfHash = ["new(<label>)", "key(_)"] := by decide

/-- the three uses of `strobe_digest`: measurement keyed, epoch and threshold as two separate
associated-data operations; the index as one byte; `r₁` keyed with the epoch as associated data -/
theorem digest_calls :
    callSampleLocal = ["self.x.as_slice()", "self.epoch", "self.threshold.to_le_bytes()", "label:star_sample_local"] ∧
    callDeriveRandoms = ["randomness", "[iasu8]", "label:star_derive_randoms"] ∧
    callDeriveSkeKey = ["r1", "epoch", "label:star_derive_ske_key"] := by decide

/-- verification uses the protocol strings, key length and challenge label of the proving side -/
theorem two_sided_constants :
    adssVerifyProto = adssProto ∧ adssRecoverEncryptProto = adssEncryptProto ∧ adssRecoverKeyLen = adssKeyLen ∧
    dleqVerifyChallengeLabel = dleqChallengeLabel := by decide

end StarModel.Skeleton
