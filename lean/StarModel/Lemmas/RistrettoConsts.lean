/-
Kernel-checked facts about the literals of `StarModel.Ristretto` (no Mathlib, no axioms): each
numeric constant satisfies its defining equation, the base point lies on the curve, encodes to
`RISTRETTO_BASEPOINT_COMPRESSED`, and `ℓ • B` encodes to the identity.
-/
import StarModel.Ristretto
namespace StarModel.Ristretto

theorem edwardsD_spec : (edwardsD * 121666 + 121665) % p = 0 := by decide +kernel
theorem sqrtM1_spec : sqrtM1 * sqrtM1 % p = p - 1 := by decide +kernel
theorem sqrtM1_nonneg : isNegative sqrtM1 = false := by decide +kernel
theorem invsqrtAMinusD_spec : fmul (fsq invsqrtAMinusD) (fsub minusOne edwardsD) = 1 := by decide +kernel
theorem oneMinusDSq_spec : oneMinusDSq = fsub 1 (fsq edwardsD) := by decide +kernel
theorem dMinusOneSq_spec : dMinusOneSq = fsq (fsub edwardsD 1) := by decide +kernel
theorem sqrtAdMinusOne_spec : fsq sqrtAdMinusOne = fsub (fmul minusOne edwardsD) 1 := by decide +kernel
theorem basepoint_on_curve :
    fsub (fsq basepoint.Y) (fsq basepoint.X) = fadd 1 (fmul edwardsD (fmul (fsq basepoint.X) (fsq basepoint.Y))) := by
  decide +kernel
theorem basepoint_T : basepoint.T = fmul basepoint.X basepoint.Y ∧ basepoint.Z = 1 := by decide +kernel
theorem compress_basepoint :
    compress basepoint = [0xe2, 0xf2, 0xae, 0x0a, 0x6a, 0xbc, 0x4e, 0x71, 0xa8, 0x84, 0xa9, 0x61, 0xc5, 0x00, 0x51, 0x5f,
      0x58, 0xe3, 0x0b, 0x6a, 0xa5, 0x82, 0xdd, 0x8d, 0xb6, 0xa6, 0x59, 0x45, 0xe0, 0x8d, 0x2d, 0x76] := by
  decide +kernel
theorem ell_smul_basepoint : compress (scalarMul Scalar25519.ell basepoint) = compress identity := by
  decide +kernel
end StarModel.Ristretto
