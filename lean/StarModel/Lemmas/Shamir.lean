/-
Shamir over ZMod p: Horner evaluation is polynomial evaluation; the code's Lagrange formula at
zero recovers the constant term (via Mathlib's `Lagrange.interpolate`).
-/
import StarModel.Sharks
import StarModel.Lemmas.Field
import Mathlib.LinearAlgebra.Lagrange

open Polynomial

namespace StarModel.Sharks
open StarModel

abbrev K := ZMod Fp.p

/-- the polynomial with coefficient list `cs`, highest degree first -/
noncomputable def polyOf (cs : List Nat) : K[X] := cs.foldl (fun (acc : K[X]) (c : Nat) => acc * X + C (c : K)) 0

theorem polyOf_append (cs : List Nat) (c : Nat) : polyOf (cs ++ [c]) = polyOf cs * X + C (c : K) := by
  unfold polyOf; rw [List.foldl_append]; rfl

theorem foldl_horner (cs : List Nat) (x acc : Nat) (accP : K[X]) (h : (acc : K) = accP.eval (x : K)) :
    ((cs.foldl (fun a c => Fp.add (Fp.mul a x) c) acc : Nat) : K) =
      (cs.foldl (fun (a : K[X]) (c : Nat) => a * X + C (c : K)) accP).eval (x : K) := by
  induction cs generalizing acc accP with
  | nil => simpa using h
  | cons c cs ih =>
    simp only [List.foldl_cons]
    apply ih
    rw [Fp.add_cast, Fp.mul_cast, h]; simp

/-- Horner evaluation of the model = evaluation of the polynomial in `ZMod p` -/
theorem evalPoly_cast (cs : List Nat) (x : Nat) : ((evalPoly cs x : Nat) : K) = (polyOf cs).eval (x : K) := by
  unfold evalPoly polyOf
  exact foldl_horner cs x 0 0 (by simp)

theorem evalPoly_lt (cs : List Nat) (x : Nat) : evalPoly cs x < Fp.p ∨ cs = [] := by
  rcases List.eq_nil_or_concat cs with h | ⟨l, c, rfl⟩
  · exact Or.inr h
  · left; unfold evalPoly; rw [List.concat_eq_append, List.foldl_append]; exact Fp.add_lt _ _

theorem polyOf_degree_lt (cs : List Nat) : (polyOf cs).degree < cs.length := by
  induction cs using List.reverseRecOn with
  | nil => simp [polyOf]
  | append_singleton cs c ih =>
    rw [polyOf_append, List.length_append, List.length_singleton]
    refine lt_of_le_of_lt (degree_add_le _ _) ?_
    rw [max_lt_iff]
    constructor
    · by_cases h0 : polyOf cs = 0
      · rw [h0, zero_mul, degree_zero]; exact WithBot.bot_lt_coe _
      · rw [degree_mul, degree_X]
        have : (polyOf cs).degree + 1 < (cs.length : WithBot ℕ) + 1 := by
          rw [degree_eq_natDegree h0] at ih ⊢
          have := WithBot.coe_lt_coe.mp ih
          exact_mod_cast Nat.succ_lt_succ this
        exact_mod_cast this
    · refine lt_of_le_of_lt degree_C_le ?_
      exact_mod_cast Nat.succ_pos _

/-- the constant term is the last coefficient -/
theorem polyOf_eval_zero (cs : List Nat) (s : Nat) : (polyOf (cs ++ [s])).eval 0 = (s : K) := by
  rw [polyOf_append]; simp

/-- Lagrange interpolation at zero, in the shape the code computes it: for distinct canonical
nodes `xs` and any polynomial of degree `< |xs|`,
`f(0) = Σᵢ (Π_{j ≠ i} xⱼ / (xⱼ − xᵢ)) · f(xᵢ)` -/
theorem lagrange_zero (xs : List Nat) (hnd : xs.Nodup) (hlt : ∀ x ∈ xs, x < Fp.p) (f : K[X])
    (hdeg : f.degree < xs.length) :
    f.eval 0 = (xs.map fun (xi : Nat) =>
      ((xs.filter (· ≠ xi)).map fun (xj : Nat) => (xj : K) * ((xj : K) - (xi : K))⁻¹).prod * f.eval (xi : K)).sum := by
  classical
  let s : Finset Nat := xs.toFinset
  have hcard : s.card = xs.length := List.toFinset_card_of_nodup hnd
  have hinj : Set.InjOn (fun n : Nat => (n : K)) s := by
    intro a ha b hb hab
    exact Fp.eq_of_cast_eq (hlt a (List.mem_toFinset.mp ha)) (hlt b (List.mem_toFinset.mp hb)) hab
  have hf : f = Lagrange.interpolate s (fun n : Nat => (n : K)) (fun n => f.eval (n : K)) :=
    Lagrange.eq_interpolate hinj (by rw [hcard]; exact hdeg)
  conv_lhs => rw [hf]
  rw [Lagrange.interpolate_apply, eval_finsetSum, List.sum_toFinset _ hnd]
  congr 1
  apply List.map_congr_left
  intro xi hxi
  rw [eval_mul, eval_C, mul_comm]
  congr 1
  rw [Lagrange.basis, eval_prod]
  have herase : s.erase xi = (xs.filter (· ≠ xi)).toFinset := by
    ext a; simp [s, and_comm]
  rw [herase, List.prod_toFinset _ (hnd.filter _)]
  congr 1
  apply List.map_congr_left
  intro xj hxj
  simp only [Lagrange.basisDivisor, eval_mul, eval_C, eval_sub, eval_X]
  have hne : (xj : K) - (xi : K) ≠ 0 := by
    intro h
    have h1 := sub_eq_zero.mp h
    have hm := List.mem_filter.mp hxj
    have := Fp.eq_of_cast_eq (hlt xj hm.1) (hlt xi hxi) h1
    simpa [this] using hm.2
  have h2 : ((xi : K) - (xj : K))⁻¹ = -((xj : K) - (xi : K))⁻¹ := by
    rw [← neg_sub, inv_neg]
  rw [h2]; ring

end StarModel.Sharks
