/-
Lemmas for the serialisation layer (`StarModel.Codec`, `StarModel.Base64`): base64 round trip and
canonicity, the bincode layout of public keys and proofs, `BTreeMap` insertion, and the JSON
reader on the text the emitters produce. Core Lean only.
-/
import StarModel.Codec
import StarModel.Lemmas.Bytes

namespace StarModel.Base64
open StarModel

theorem decChar_encChar : ∀ k, k < 64 → decChar (encChar k) = some k := by decide
theorem encChar_ne_pad : ∀ k, k < 64 → encChar k ≠ '=' := by decide

theorem u8_ofNat_toNat (a : UInt8) (n : Nat) (h : n = a.toNat) : UInt8.ofNat n = a := by
  subst h; simp

theorem decodeChars_encodeChars (bs : Bytes) : decodeChars (encodeChars bs) = some bs := by
  induction bs using encodeChars.induct with
  | case1 => rfl
  | case2 a =>
    have ha := a.toNat_lt
    simp only [encodeChars]
    rw [decodeChars.eq_2, decChar_encChar _ (by omega), decChar_encChar _ (by omega)]
    have h0 : a.toNat % 4 * 16 % 16 = 0 := by omega
    simp only [Option.bind_eq_bind, Option.bind_some, h0, ne_eq, not_true_eq_false, if_false]
    congr 2
    exact u8_ofNat_toNat _ _ (by omega)
  | case3 a b =>
    have ha := a.toNat_lt
    have hb := b.toNat_lt
    simp only [encodeChars]
    rw [decodeChars.eq_3 _ _ _ (encChar_ne_pad _ (by omega))]
    rw [decChar_encChar _ (by omega), decChar_encChar _ (by omega), decChar_encChar _ (by omega)]
    have h0 : (a.toNat * 256 + b.toNat) % 16 * 4 % 4 = 0 := by omega
    simp only [Option.bind_eq_bind, Option.bind_some, h0, ne_eq, not_true_eq_false, if_false]
    congr 2
    · exact u8_ofNat_toNat _ _ (by omega)
    · congr 1; exact u8_ofNat_toNat _ _ (by omega)
  | case4 a b c rest ih =>
    have ha := a.toNat_lt
    have hb := b.toNat_lt
    have hc := c.toNat_lt
    simp only [encodeChars]
    have h4 : encChar ((a.toNat * 65536 + b.toNat * 256 + c.toNat) % 64) ≠ '=' := encChar_ne_pad _ (by omega)
    rw [decodeChars.eq_4 _ _ _ _ _ (fun _ h _ => h4 h) (fun h _ => h4 h)]
    rw [decChar_encChar _ (by omega), decChar_encChar _ (by omega), decChar_encChar _ (by omega),
      decChar_encChar _ (by omega), ih]
    simp only [Option.bind_eq_bind, Option.bind_some]
    congr 2
    · exact u8_ofNat_toNat _ _ (by omega)
    · congr 1
      · exact u8_ofNat_toNat _ _ (by omega)
      · congr 1; exact u8_ofNat_toNat _ _ (by omega)
theorem decChar_some (c : Char) (x : Nat) (h : decChar c = some x) : x < 64 ∧ encChar x = c := by
  unfold decChar at h
  simp only at h
  split at h
  · rename_i h1
    injection h with h; subst h
    refine ⟨by omega, ?_⟩
    unfold encChar
    rw [if_pos (by omega), show 65 + (c.toNat - 65) = c.toNat by omega, Char.ofNat_toNat]
  · split at h
    · rename_i h1
      injection h with h; subst h
      refine ⟨by omega, ?_⟩
      unfold encChar
      rw [if_neg (by omega), if_pos (by omega), show 97 + (c.toNat - 97 + 26 - 26) = c.toNat by omega,
        Char.ofNat_toNat]
    · split at h
      · rename_i h1
        injection h with h; subst h
        refine ⟨by omega, ?_⟩
        unfold encChar
        rw [if_neg (by omega), if_neg (by omega), if_pos (by omega),
          show 48 + (c.toNat - 48 + 52 - 52) = c.toNat by omega, Char.ofNat_toNat]
      · split at h
        · rename_i h1
          injection h with h; subst h; subst h1
          exact ⟨by omega, by decide⟩
        · split at h
          · rename_i h1
            injection h with h; subst h; subst h1
            exact ⟨by omega, by decide⟩
          · cases h

theorem toNat_ofNat_lt (n : Nat) (h : n < 256) : (UInt8.ofNat n).toNat = n := by
  simp [UInt8.toNat_ofNat']; omega

theorem encodeChars_of_decodeChars (cs : List Char) : ∀ bs, decodeChars cs = some bs → encodeChars bs = cs := by
  induction cs using decodeChars.induct with
  | case1 => intro bs h; rw [decodeChars.eq_1] at h; injection h with h; subst h; rfl
  | case2 a b =>
    intro bs h
    rw [decodeChars.eq_2] at h
    cases hx : decChar a with
    | none => simp [hx] at h
    | some x =>
      cases hy : decChar b with
      | none => simp [hx, hy] at h
      | some y =>
        obtain ⟨hx1, hx2⟩ := decChar_some _ _ hx
        obtain ⟨hy1, hy2⟩ := decChar_some _ _ hy
        simp only [hx, hy, Option.bind_eq_bind, Option.bind_some] at h
        split at h
        · cases h
        · rename_i h0
          injection h with h; subst h
          simp only [encodeChars]
          rw [toNat_ofNat_lt _ (by omega)]
          rw [show (x * 4 + y / 16) / 4 = x by omega, show (x * 4 + y / 16) % 4 * 16 = y by omega, hx2, hy2]
  | case3 a b c hc =>
    intro bs h
    rw [decodeChars.eq_3 _ _ _ hc] at h
    cases hx : decChar a with
    | none => simp [hx] at h
    | some x =>
      cases hy : decChar b with
      | none => simp [hx, hy] at h
      | some y =>
        cases hz : decChar c with
        | none => simp [hx, hy, hz] at h
        | some z =>
          obtain ⟨hx1, hx2⟩ := decChar_some _ _ hx
          obtain ⟨hy1, hy2⟩ := decChar_some _ _ hy
          obtain ⟨hz1, hz2⟩ := decChar_some _ _ hz
          simp only [hx, hy, hz, Option.bind_eq_bind, Option.bind_some] at h
          split at h
          · cases h
          · rename_i h0
            injection h with h; subst h
            simp only [encodeChars]
            rw [toNat_ofNat_lt _ (by omega), toNat_ofNat_lt _ (by omega)]
            rw [show ((x * 4 + y / 16) * 256 + (y % 16 * 16 + z / 4)) / 1024 = x by omega,
              show ((x * 4 + y / 16) * 256 + (y % 16 * 16 + z / 4)) / 16 % 64 = y by omega,
              show ((x * 4 + y / 16) * 256 + (y % 16 * 16 + z / 4)) % 16 * 4 = z by omega, hx2, hy2, hz2]
  | case4 a b c d rest h1 h2 ih =>
    intro bs h
    rw [decodeChars.eq_4 _ _ _ _ _ h1 h2] at h
    cases hx : decChar a with
    | none => simp [hx] at h
    | some x =>
      cases hy : decChar b with
      | none => simp [hx, hy] at h
      | some y =>
        cases hz : decChar c with
        | none => simp [hx, hy, hz] at h
        | some z =>
          cases hw : decChar d with
          | none => simp [hx, hy, hz, hw] at h
          | some w =>
            cases hr : decodeChars rest with
            | none => simp [hx, hy, hz, hw, hr] at h
            | some r =>
              obtain ⟨hx1, hx2⟩ := decChar_some _ _ hx
              obtain ⟨hy1, hy2⟩ := decChar_some _ _ hy
              obtain ⟨hz1, hz2⟩ := decChar_some _ _ hz
              obtain ⟨hw1, hw2⟩ := decChar_some _ _ hw
              simp only [hx, hy, hz, hw, hr, Option.bind_eq_bind, Option.bind_some] at h
              injection h with h; subst h
              simp only [encodeChars]
              rw [toNat_ofNat_lt _ (by omega), toNat_ofNat_lt _ (by omega), toNat_ofNat_lt _ (by omega)]
              rw [ih r hr]
              rw [show ((x * 4 + y / 16) * 65536 + (y % 16 * 16 + z / 4) * 256 + (z % 4 * 64 + w)) / 262144 = x by omega,
                show ((x * 4 + y / 16) * 65536 + (y % 16 * 16 + z / 4) * 256 + (z % 4 * 64 + w)) / 4096 % 64 = y by omega,
                show ((x * 4 + y / 16) * 65536 + (y % 16 * 16 + z / 4) * 256 + (z % 4 * 64 + w)) / 64 % 64 = z by omega,
                show ((x * 4 + y / 16) * 65536 + (y % 16 * 16 + z / 4) * 256 + (z % 4 * 64 + w)) % 64 = w by omega,
                hx2, hy2, hz2, hw2]
  | case5 t h1 h2 h3 h4 =>
    intro bs h
    rw [decodeChars.eq_5 t h1 h2 h3 h4] at h
    cases h
end StarModel.Base64

namespace StarModel.Codec
open StarModel

/-- the entry layout of the map part -/
def entriesBytes (es : List (UInt8 × Bytes)) : Bytes := es.flatMap fun e => e.1 :: e.2

/-- strictly increasing tags -/
def StrictTags (es : List (UInt8 × Bytes)) : Prop := es.Pairwise fun a b => a.1 < b.1

theorem toBincode_eq (pk : Ppoprf.PublicKey) :
    pk.toBincode = pk.basePk ++ Bytes.le64 pk.mdPks.length ++ entriesBytes pk.mdPks := rfl

theorem entriesBytes_length (es : List (UInt8 × Bytes)) (h : ∀ e ∈ es, e.2.length = 32) :
    (entriesBytes es).length = 33 * es.length := by
  induction es with
  | nil => rfl
  | cons e es ih =>
    have h1 := h e (by simp)
    have h2 := ih (fun e he => h e (by simp [he]))
    simp only [entriesBytes, List.flatMap_cons, List.length_append, List.length_cons] at *
    omega

theorem pkEntries_entriesBytes (es : List (UInt8 × Bytes)) (h : ∀ e ∈ es, e.2.length = 32) (rest : Bytes) :
    pkEntries es.length (entriesBytes es ++ rest) = some es := by
  induction es with
  | nil => simp [pkEntries]
  | cons e es ih =>
    have h1 := h e (by simp)
    have h2 := ih (fun e he => h e (by simp [he]))
    obtain ⟨md, pt⟩ := e
    simp only at h1
    have hcl : Params.compressedPointLen = 32 := rfl
    simp only [entriesBytes, List.flatMap_cons, List.length_cons, List.cons_append, pkEntries, hcl]
    have hlen : ¬ (pt ++ List.flatMap (fun e => e.1 :: e.2) es ++ rest).length < 32 := by
      simp [List.length_append]; omega
    rw [if_neg hlen]
    have hd : (pt ++ List.flatMap (fun e => e.1 :: e.2) es ++ rest).drop 32 = entriesBytes es ++ rest := by
      rw [List.append_assoc, List.drop_append_of_le_length (by omega), List.drop_of_length_le (by omega)]
      rfl
    have ht : (pt ++ List.flatMap (fun e => e.1 :: e.2) es ++ rest).take 32 = pt := by
      rw [List.append_assoc, List.take_append_of_le_length (by omega), List.take_of_length_le (by omega)]
    rw [hd, ht, h2]

theorem pkEntries_some (n : Nat) : ∀ (bs : Bytes) (es : List (UInt8 × Bytes)), pkEntries n bs = some es →
    es.length = n ∧ (∀ e ∈ es, e.2.length = 32) ∧ ∃ rest, bs = entriesBytes es ++ rest := by
  induction n with
  | zero =>
    intro bs es h
    simp only [pkEntries] at h
    injection h with h; subst h
    exact ⟨rfl, by simp, bs, rfl⟩
  | succ n ih =>
    intro bs es h
    cases bs with
    | nil => simp [pkEntries] at h
    | cons md tl =>
      have hcl : Params.compressedPointLen = 32 := rfl
      simp only [pkEntries, hcl] at h
      split at h
      · cases h
      · rename_i hl
        split at h
        · rename_i l hl'
          injection h with h; subst h
          obtain ⟨h1, h2, rest, h3⟩ := ih _ _ hl'
          refine ⟨by simp [h1], ?_, rest, ?_⟩
          · intro e he
            simp only [List.mem_cons] at he
            rcases he with rfl | he
            · simp; omega
            · exact h2 e he
          · simp only [entriesBytes, List.flatMap_cons, List.cons_append, List.append_assoc]
            congr 1
            have : tl = tl.take 32 ++ tl.drop 32 := (List.take_append_drop 32 tl).symm
            rw [h3] at this
            exact this
        · cases h

/-! `BTreeMap` insertion -/

theorem mdInsert_append (md : UInt8) (pt : Bytes) (acc : List (UInt8 × Bytes)) (h : ∀ e ∈ acc, e.1 < md) :
    Ppoprf.mdInsert md pt acc = acc ++ [(md, pt)] := by
  induction acc with
  | nil => rfl
  | cons e acc ih =>
    obtain ⟨k, v⟩ := e
    have hk : k < md := h (k, v) (by simp)
    have h1 : ¬ md < k := by
      intro hlt; exact absurd (UInt8.lt_trans hk hlt) (UInt8.lt_irrefl _)
    have h2 : ¬ md = k := by
      intro he; subst he; exact UInt8.lt_irrefl _ hk
    simp only [Ppoprf.mdInsert, if_neg h1, if_neg h2, List.cons_append]
    rw [ih (fun e he => h e (by simp [he]))]

theorem foldl_insert_sorted (es acc : List (UInt8 × Bytes)) (h : StrictTags (acc ++ es)) :
    es.foldl (fun acc e => Ppoprf.mdInsert e.1 e.2 acc) acc = acc ++ es := by
  induction es generalizing acc with
  | nil => simp
  | cons e es ih =>
    simp only [List.foldl_cons]
    have hlt : ∀ x ∈ acc, x.1 < e.1 := by
      intro x hx
      unfold StrictTags at h
      rw [List.pairwise_append] at h
      exact h.2.2 x hx e (by simp)
    rw [mdInsert_append _ _ _ hlt]
    have : acc ++ [(e.1, e.2)] ++ es = acc ++ e :: es := by simp
    rw [ih (acc ++ [(e.1, e.2)]) (by rw [this]; exact h), this]

theorem insertAll_sorted (es : List (UInt8 × Bytes)) (h : StrictTags es) : insertAll es = es := by
  unfold insertAll
  rw [foldl_insert_sorted es [] (by simpa using h)]; rfl



theorem mdInsert_keys (md : UInt8) (pt : Bytes) (acc : List (UInt8 × Bytes)) :
    ∀ x ∈ Ppoprf.mdInsert md pt acc, x.1 = md ∨ x ∈ acc := by
  induction acc with
  | nil => intro x hx; simp [Ppoprf.mdInsert] at hx; left; rw [hx]
  | cons e acc ih =>
    obtain ⟨k, v⟩ := e
    intro x hx
    simp only [Ppoprf.mdInsert] at hx
    split at hx
    · simp only [List.mem_cons] at hx
      rcases hx with rfl | hx | hx
      · left; rfl
      · right; simp [hx]
      · right; simp [hx]
    · split at hx
      · simp only [List.mem_cons] at hx
        rcases hx with rfl | hx
        · left; rfl
        · right; simp [hx]
      · simp only [List.mem_cons] at hx
        rcases hx with rfl | hx
        · right; simp
        · rcases ih x hx with h | h
          · left; exact h
          · right; simp [h]

theorem mdInsert_mem (md : UInt8) (pt : Bytes) (acc : List (UInt8 × Bytes)) :
    ∀ x ∈ Ppoprf.mdInsert md pt acc, x = (md, pt) ∨ x ∈ acc := by
  induction acc with
  | nil => intro x hx; simp [Ppoprf.mdInsert] at hx; left; exact hx
  | cons e acc ih =>
    obtain ⟨k, v⟩ := e
    intro x hx
    simp only [Ppoprf.mdInsert] at hx
    split at hx
    · simp only [List.mem_cons] at hx
      rcases hx with rfl | hx | hx
      · left; rfl
      · right; simp [hx]
      · right; simp [hx]
    · split at hx
      · simp only [List.mem_cons] at hx
        rcases hx with rfl | hx
        · left; rfl
        · right; simp [hx]
      · simp only [List.mem_cons] at hx
        rcases hx with rfl | hx
        · right; simp
        · rcases ih x hx with h | h
          · left; exact h
          · right; simp [h]

theorem foldl_insert_mem (P : Bytes → Prop) (es acc : List (UInt8 × Bytes)) (hes : ∀ e ∈ es, P e.2)
    (hacc : ∀ e ∈ acc, P e.2) :
    ∀ e ∈ es.foldl (fun acc e => Ppoprf.mdInsert e.1 e.2 acc) acc, P e.2 := by
  induction es generalizing acc with
  | nil => exact hacc
  | cons e es ih =>
    simp only [List.foldl_cons]
    apply ih _ (fun x hx => hes x (by simp [hx]))
    intro x hx
    rcases mdInsert_mem _ _ _ x hx with h | h
    · rw [h]; exact hes e (by simp)
    · exact hacc x h

/-- every point of the resulting map is a point of some entry -/
theorem insertAll_mem (es : List (UInt8 × Bytes)) (P : Bytes → Prop) (hes : ∀ e ∈ es, P e.2) :
    ∀ e ∈ insertAll es, P e.2 :=
  foldl_insert_mem P es [] hes (by simp)

/-- `BTreeMap::insert` keeps the keys strictly increasing -/
theorem mdInsert_strict (md : UInt8) (pt : Bytes) (acc : List (UInt8 × Bytes)) (h : StrictTags acc) :
    StrictTags (Ppoprf.mdInsert md pt acc) := by
  induction acc with
  | nil => simp [Ppoprf.mdInsert, StrictTags]
  | cons e acc ih =>
    obtain ⟨k, v⟩ := e
    unfold StrictTags at h ih ⊢
    rw [List.pairwise_cons] at h
    simp only [Ppoprf.mdInsert]
    split
    · rename_i hlt
      rw [List.pairwise_cons]
      refine ⟨?_, List.pairwise_cons.mpr h⟩
      intro x hx
      simp only [List.mem_cons] at hx
      rcases hx with rfl | hx
      · exact hlt
      · exact UInt8.lt_trans hlt (h.1 x hx)
    · split
      · rename_i _ heq
        subst heq
        exact List.pairwise_cons.mpr h
      · rename_i h1 h2
        rw [List.pairwise_cons]
        refine ⟨?_, ih h.2⟩
        intro x hx
        rcases mdInsert_keys md pt acc x hx with hx | hx
        · rw [hx]
          have := UInt8.lt_or_lt_of_ne h2
          rcases this with h3 | h3
          · exact absurd h3 h1
          · exact h3
        · exact h.1 x hx

theorem foldl_insert_strict (es acc : List (UInt8 × Bytes)) (h : StrictTags acc) :
    StrictTags (es.foldl (fun acc e => Ppoprf.mdInsert e.1 e.2 acc) acc) := by
  induction es generalizing acc with
  | nil => exact h
  | cons e es ih => exact ih _ (mdInsert_strict _ _ _ h)

theorem insertAll_strict (es : List (UInt8 × Bytes)) : StrictTags (insertAll es) :=
  foldl_insert_strict es [] (by simp [StrictTags])

/-- strictly increasing naturals in `[lo, 256)` are at most `256 - lo` many -/
theorem pairwise_lt_length (l : List Nat) : ∀ lo, lo ≤ 256 → l.Pairwise (· < ·) →
    (∀ x ∈ l, lo ≤ x ∧ x < 256) → l.length + lo ≤ 256 := by
  induction l with
  | nil => intro lo hlo _ _; simpa using hlo
  | cons x t ih =>
    intro lo hlo hp hb
    rw [List.pairwise_cons] at hp
    have hx := hb x (by simp)
    have := ih (x + 1) (by omega) hp.2 (fun y hy => ⟨hp.1 y hy, (hb y (by simp [hy])).2⟩)
    simp only [List.length_cons]; omega

theorem strictTags_length (es : List (UInt8 × Bytes)) (h : StrictTags es) : es.length ≤ 256 := by
  have hp : (es.map fun e => e.1.toNat).Pairwise (· < ·) := by
    rw [List.pairwise_map]
    exact h.imp (fun hab => UInt8.lt_iff_toNat_lt.mp hab)
  have := pairwise_lt_length _ 0 (by omega) hp (by
    intro x hx
    rw [List.mem_map] at hx
    obtain ⟨e, _, rfl⟩ := hx
    exact ⟨Nat.zero_le _, e.1.toNat_lt⟩)
  simpa using this



/-- the byte layout of an encoded key: base point, `u64` count, entries -/
def pkLayout (base : Bytes) (es : List (UInt8 × Bytes)) : Bytes :=
  base ++ Bytes.le64 es.length ++ entriesBytes es

theorem pkLayout_length (base : Bytes) (es : List (UInt8 × Bytes)) (hb : base.length = 32)
    (hes : ∀ e ∈ es, e.2.length = 32) : (pkLayout base es).length = 40 + 33 * es.length := by
  simp [pkLayout, List.length_append, hb, Bytes.le64, entriesBytes_length es hes]; omega

theorem pkDecode_layout (base : Bytes) (es : List (UInt8 × Bytes)) (rest : Bytes) (hb : base.length = 32)
    (hes : ∀ e ∈ es, e.2.length = 32) (hn : es.length < 2 ^ 64) :
    pkDecode (pkLayout base es ++ rest) = some ⟨base, insertAll es⟩ := by
  have hcl : Params.compressedPointLen = 32 := rfl
  have h8 : (Bytes.le64 es.length).length = 8 := by simp [Bytes.le64]
  unfold pkDecode
  simp only [hcl]
  have hlen : ¬ (pkLayout base es ++ rest).length < 32 + 8 := by
    rw [List.length_append, pkLayout_length base es hb hes]; omega
  rw [if_neg hlen]
  have e1 : pkLayout base es ++ rest = base ++ (Bytes.le64 es.length ++ (entriesBytes es ++ rest)) := by
    simp [pkLayout, List.append_assoc]
  have htake : (pkLayout base es ++ rest).take 32 = base := by
    rw [e1, List.take_append_of_le_length (by omega), List.take_of_length_le (by omega)]
  have hdrop : (pkLayout base es ++ rest).drop 32 = Bytes.le64 es.length ++ (entriesBytes es ++ rest) := by
    rw [e1, List.drop_append_of_le_length (by omega), List.drop_of_length_le (by omega)]; rfl
  have hn8 : ((pkLayout base es ++ rest).drop 32).take 8 = Bytes.le64 es.length := by
    rw [hdrop, List.take_append_of_le_length (by omega), List.take_of_length_le (by omega)]
  have hd40 : (pkLayout base es ++ rest).drop (32 + 8) = entriesBytes es ++ rest := by
    rw [← List.drop_drop, hdrop, List.drop_append_of_le_length (by omega), List.drop_of_length_le (by omega)]; rfl
  have hv : Bytes.toNatLE (Bytes.le64 es.length) = es.length := by
    rw [Bytes.le64, Bytes.toNatLE_ofNatLE]; exact Nat.mod_eq_of_lt (by simpa using hn)
  simp only [hn8, hv, hd40, htake, pkEntries_entriesBytes es hes rest]

theorem pkDecode_some (bs : Bytes) (v : Ppoprf.PublicKey) (h : pkDecode bs = some v) :
    ∃ es rest, bs = pkLayout v.basePk es ++ rest ∧ v.basePk.length = 32 ∧ (∀ e ∈ es, e.2.length = 32) ∧
      es.length < 2 ^ 64 ∧ v.mdPks = insertAll es := by
  have hcl : Params.compressedPointLen = 32 := rfl
  unfold pkDecode at h
  simp only [hcl] at h
  split at h
  · cases h
  · rename_i hl
    split at h
    · rename_i es hes
      injection h with h; subst h
      obtain ⟨h1, h2, rest, h3⟩ := pkEntries_some _ _ _ hes
      have hx8 : ((bs.drop 32).take 8).length = 8 := by simp; omega
      refine ⟨es, rest, ?_, by simp; omega, h2, ?_, rfl⟩
      · have hle : Bytes.le64 es.length = (bs.drop 32).take 8 := by
          rw [h1, Bytes.le64]
          have := Bytes.ofNatLE_toNatLE ((bs.drop 32).take 8)
          rw [hx8] at this; exact this
        have h3' : (bs.drop 32).drop 8 = entriesBytes es ++ rest := by rw [List.drop_drop]; exact h3
        simp only [pkLayout, hle]
        rw [List.append_assoc, List.append_assoc, ← h3', List.take_append_drop, List.take_append_drop]
      · rw [h1]
        have := Bytes.toNatLE_lt ((bs.drop 32).take 8)
        rw [hx8] at this
        simpa using this
    · cases h

/-! ### the JSON reader on emitted text -/

/-- a character that stands for itself inside a JSON string -/
def Plain (c : Char) : Prop := c ≠ '"' ∧ c ≠ '\\' ∧ 32 ≤ c.toNat

instance : DecidablePred Plain := fun c => by unfold Plain; infer_instance

theorem parseStr_plain (s rest : List Char) (hs : ∀ c ∈ s, Plain c) :
    ∀ fuel, s.length < fuel → parseStr fuel (s ++ '"' :: rest) = some (s, false, rest) := by
  induction s with
  | nil =>
    intro fuel hf
    cases fuel with
    | zero => omega
    | succ f => simp [parseStr]
  | cons c s ih =>
    intro fuel hf
    cases fuel with
    | zero => omega
    | succ f =>
      obtain ⟨h1, h2, h3⟩ := hs c (by simp)
      have := ih (fun c hc => hs c (by simp [hc])) f (by simp at hf; omega)
      simp only [List.cons_append, parseStr, if_neg h1, if_neg h2, if_neg (show ¬ c.toNat < 32 by omega), this]

theorem digitChar_props : ∀ d, d < 10 →
    isDigit (digitChar d) = true ∧ (digitChar d).toNat - 48 = d ∧ (digitChar d = '0' ↔ d = 0) ∧
      isWs (digitChar d) = false := by decide

/-- what follows a number in emitted text: `,` or `]` -/
def Delim (cs : List Char) : Prop := ∃ c r, cs = c :: r ∧ (c = ',' ∨ c = ']')

theorem takeDigits_delim (cs : List Char) (h : Delim cs) (acc : Nat) : takeDigits cs acc = (acc, cs) := by
  obtain ⟨c, r, rfl, hc | hc⟩ := h <;> subst hc <;> rfl

theorem floatFollows_delim (cs : List Char) (h : Delim cs) : floatFollows cs = false := by
  obtain ⟨c, r, rfl, hc | hc⟩ := h <;> subst hc <;> rfl

theorem takeDigits_digit (d : Nat) (hd : d < 10) (cs : List Char) (acc : Nat) :
    takeDigits (digitChar d :: cs) acc = takeDigits cs (10 * acc + d) := by
  obtain ⟨h1, h2, _, _⟩ := digitChar_props d hd
  simp only [takeDigits, h1, if_true, h2]

theorem parseU8_u8Chars (n : Nat) (hn : n < 256) (cs : List Char) (h : Delim cs) :
    parseU8 (u8Chars n ++ cs) = some (UInt8.ofNat n, cs) := by
  have hff := floatFollows_delim cs h
  unfold u8Chars
  split
  · rename_i h10
    obtain ⟨h1, h2, h3, _⟩ := digitChar_props n h10
    simp only [List.cons_append, List.nil_append, parseU8]
    by_cases h0 : n = 0
    · subst h0
      rw [if_pos (h3.mpr rfl)]
      obtain ⟨c, r, rfl, hc | hc⟩ := h <;> subst hc <;> rfl
    · rw [if_neg (fun e => h0 (h3.mp e))]
      simp only [h1, if_true, h2, takeDigits_delim cs h, hff]
      rw [if_neg (by simp; omega)]
  · split
    · rename_i h10 h100
      obtain ⟨h1, h2, h3, _⟩ := digitChar_props (n / 10) (by omega)
      simp only [List.cons_append, List.nil_append, parseU8]
      rw [if_neg (fun e => by have := h3.mp e; omega)]
      simp only [h1, if_true, h2, takeDigits_digit (n % 10) (by omega), takeDigits_delim cs h, hff]
      rw [if_neg (by simp; omega)]
      congr 3; omega
    · rename_i h10 h100
      obtain ⟨h1, h2, h3, _⟩ := digitChar_props (n / 100) (by omega)
      simp only [List.cons_append, List.nil_append, parseU8]
      rw [if_neg (fun e => by have := h3.mp e; omega)]
      simp only [h1, if_true, h2, takeDigits_digit (n / 10 % 10) (by omega),
        takeDigits_digit (n % 10) (by omega), takeDigits_delim cs h, hff]
      rw [if_neg (by simp; omega)]
      congr 3; omega

theorem skipWs_u8Chars (n : Nat) (hn : n < 256) (cs : List Char) : skipWs (u8Chars n ++ cs) = u8Chars n ++ cs := by
  unfold u8Chars
  split
  · obtain ⟨_, _, _, h4⟩ := digitChar_props n (by omega)
    simp [skipWs, h4]
  · split
    · obtain ⟨_, _, _, h4⟩ := digitChar_props (n / 10) (by omega)
      simp [skipWs, h4]
    · obtain ⟨_, _, _, h4⟩ := digitChar_props (n / 100) (by omega)
      simp [skipWs, h4]

theorem delim_tail (bs : Bytes) (r : List Char) : Delim (tailChars bs ++ ']' :: r) := by
  cases bs with
  | nil => exact ⟨']', r, rfl, Or.inr rfl⟩
  | cons b bs => exact ⟨',', _, rfl, Or.inl rfl⟩

theorem parseElems_tailChars (bs : Bytes) (r : List Char) :
    parseElems bs.length (tailChars bs ++ ']' :: r) = some (bs, ']' :: r) := by
  induction bs with
  | nil => rfl
  | cons b bs ih =>
    simp only [tailChars, List.length_cons, List.cons_append, parseElems, List.append_assoc]
    have hws : skipWs (',' :: (u8Chars b.toNat ++ (tailChars bs ++ ']' :: r))) =
        ',' :: (u8Chars b.toNat ++ (tailChars bs ++ ']' :: r)) := rfl
    rw [hws]
    simp only [skipWs_u8Chars _ b.toNat_lt, parseU8_u8Chars _ b.toNat_lt _ (delim_tail bs r), ih]
    simp

theorem parseByteArray_emit (b : UInt8) (bs : Bytes) (r : List Char) :
    parseByteArray (bs.length + 1) (bytesToJsonChars (b :: bs) ++ r) = some (b :: bs, r) := by
  simp only [bytesToJsonChars, parseByteArray, List.cons_append, List.append_assoc, List.nil_append]
  have hws : skipWs ('[' :: (u8Chars b.toNat ++ (tailChars bs ++ ']' :: r))) =
      '[' :: (u8Chars b.toNat ++ (tailChars bs ++ ']' :: r)) := rfl
  rw [hws]
  simp only [skipWs_u8Chars _ b.toNat_lt, parseU8_u8Chars _ b.toNat_lt _ (delim_tail bs r),
    Nat.add_sub_cancel, parseElems_tailChars]
  have h2 : skipWs (']' :: r) = ']' :: r := rfl
  simp [h2]

theorem parseByteArray_emit32 (pt : Bytes) (h : pt.length = 32) (r : List Char) :
    parseByteArray 32 (bytesToJsonChars pt ++ r) = some (pt, r) := by
  cases pt with
  | nil => simp at h
  | cons b bs =>
    have : bs.length + 1 = 32 := by simpa using h
    rw [← this]; exact parseByteArray_emit b bs r



theorem ell_lt : Scalar25519.ell < 256 ^ 32 := by decide +kernel

theorem toBytes_length (c : Nat) : (Scalar25519.toBytes c).length = 32 := by
  simp [Scalar25519.toBytes]

theorem fromCanonicalBytes_toBytes (c : Nat) (h : c < Scalar25519.ell) :
    Scalar25519.fromCanonicalBytes (Scalar25519.toBytes c) = some c := by
  unfold Scalar25519.fromCanonicalBytes
  rw [toBytes_length]
  simp only [ne_eq, not_true_eq_false, if_false]
  rw [Scalar25519.toBytes, Bytes.toNatLE_ofNatLE, Nat.mod_eq_of_lt (Nat.lt_trans h ell_lt)]
  simp [h]

theorem fromCanonicalBytes_some (bs : Bytes) (v : Nat) (h : Scalar25519.fromCanonicalBytes bs = some v) :
    bs.length = 32 ∧ v < Scalar25519.ell ∧ v = Bytes.toNatLE bs ∧ Scalar25519.toBytes v = bs := by
  unfold Scalar25519.fromCanonicalBytes at h
  split at h
  · cases h
  · rename_i hl
    have hl : bs.length = 32 := by simpa using hl
    simp only at h
    split at h
    · rename_i hlt
      injection h with h; subst h
      refine ⟨hl, hlt, rfl, ?_⟩
      rw [Scalar25519.toBytes, ← hl, Bytes.ofNatLE_toNatLE]
    · cases h

theorem parseScalar_emit (c : Nat) (h : c < Scalar25519.ell) (r : List Char) :
    parseScalar (bytesToJsonChars (Scalar25519.toBytes c) ++ r) = some (c, r) := by
  unfold parseScalar
  simp only [parseByteArray_emit32 _ (toBytes_length c), fromCanonicalBytes_toBytes c h]

/-! the object loop on emitted keys -/

theorem objLoop_end {σ : Type} (onField : List Char → σ → List Char → Option (σ × List Char))
    (fuel : Nat) (first : Bool) (st : σ) (r : List Char) :
    objLoop onField (fuel + 1) first st ('}' :: r) = some (st, r) := by
  simp [objLoop, skipWs, isWs]

theorem objLoop_first {σ : Type} (onField : List Char → σ → List Char → Option (σ × List Char))
    (fuel : Nat) (st st' : σ) (key r r3 : List Char) (hk : ∀ c ∈ key, Plain c)
    (hf : onField key st r = some (st', r3)) :
    objLoop onField (fuel + 1) true st ('"' :: (key ++ '"' :: ':' :: r)) =
      objLoop onField fuel false st' r3 := by
  have h1 : skipWs ('"' :: (key ++ '"' :: ':' :: r)) = '"' :: (key ++ '"' :: ':' :: r) := rfl
  have h2 : skipWs (':' :: r) = ':' :: r := rfl
  have hp := parseStr_plain key (':' :: r) hk ((key ++ '"' :: ':' :: r).length + 1) (by simp; omega)
  simp only [objLoop, h1]
  rw [if_neg (by decide)]
  simp only [if_true, hp, h2, hf]

theorem objLoop_next {σ : Type} (onField : List Char → σ → List Char → Option (σ × List Char))
    (fuel : Nat) (st st' : σ) (key r r3 : List Char) (hk : ∀ c ∈ key, Plain c)
    (hf : onField key st r = some (st', r3)) :
    objLoop onField (fuel + 1) false st (',' :: '"' :: (key ++ '"' :: ':' :: r)) =
      objLoop onField fuel false st' r3 := by
  have h0 : skipWs (',' :: '"' :: (key ++ '"' :: ':' :: r)) = ',' :: '"' :: (key ++ '"' :: ':' :: r) := rfl
  have h1 : skipWs ('"' :: (key ++ '"' :: ':' :: r)) = '"' :: (key ++ '"' :: ':' :: r) := rfl
  have h2 : skipWs (':' :: r) = ':' :: r := rfl
  have hp := parseStr_plain key (':' :: r) hk ((key ++ '"' :: ':' :: r).length + 1) (by simp; omega)
  simp only [objLoop, h0]
  rw [if_neg (by decide)]
  simp only [Bool.false_eq_true, if_false, if_true, h1, hp, h2, hf]

theorem plain_c : ∀ c ∈ ['c'], Plain c := by decide
theorem plain_s : ∀ c ∈ ['s'], Plain c := by decide
theorem plain_output : ∀ c ∈ "output".toList, Plain c := by decide
theorem plain_proof : ∀ c ∈ "proof".toList, Plain c := by decide

theorem proofToJsonChars_eq (c s : Nat) (r : List Char) : proofToJsonChars c s ++ r =
      '{' :: '"' :: (['c'] ++ '"' :: ':' :: (bytesToJsonChars (Scalar25519.toBytes c) ++
        (',' :: '"' :: (['s'] ++ '"' :: ':' :: (bytesToJsonChars (Scalar25519.toBytes s) ++ '}' :: r))))) := by
  have e1 : "{\"c\":".toList = ['{', '"', 'c', '"', ':'] := by decide
  have e2 : ",\"s\":".toList = [',', '"', 's', '"', ':'] := by decide
  unfold proofToJsonChars
  rw [e1, e2]
  simp only [List.append_assoc, List.cons_append, List.nil_append]

theorem parseProof_emit (c s : Nat) (hc : c < Scalar25519.ell) (hs : s < Scalar25519.ell) (r : List Char) :
    parseProof (proofToJsonChars c s ++ r) = some ((c, s), r) := by
  rw [proofToJsonChars_eq]
  unfold parseProof
  have h0 : ∀ x, skipWs ('{' :: x) = '{' :: x := fun _ => rfl
  rw [h0]
  simp only []
  generalize hfu : List.length _ = fuel
  have hf : 2 ≤ fuel := by rw [← hfu]; simp
  obtain ⟨f, rfl⟩ : ∃ f, fuel = f + 2 := ⟨fuel - 2, by omega⟩
  have hpf1 : ∀ x, proofField ['c'] (none, none) (bytesToJsonChars (Scalar25519.toBytes c) ++ x) =
      some ((some c, none), x) := by
    intro x; simp [proofField, parseScalar_emit c hc]
  have hpf2 : ∀ x, proofField ['s'] (some c, none) (bytesToJsonChars (Scalar25519.toBytes s) ++ x) =
      some ((some c, some s), x) := by
    intro x; simp [proofField, parseScalar_emit s hs]
  rw [objLoop_first _ _ _ _ _ _ _ plain_c (hpf1 _), objLoop_next _ _ _ _ _ _ _ plain_s (hpf2 _), objLoop_end]



theorem encChar_plain : ∀ k, k < 64 → Plain (Base64.encChar k) := by decide

theorem encodeChars_plain (bs : Bytes) : ∀ c ∈ Base64.encodeChars bs, Plain c := by
  have hp : Plain '=' := by decide
  induction bs using Base64.encodeChars.induct with
  | case1 => intro c hc; simp [Base64.encodeChars] at hc
  | case2 a =>
    have ha := a.toNat_lt
    intro c hc
    simp only [Base64.encodeChars, List.mem_cons, List.not_mem_nil, or_false] at hc
    rcases hc with rfl | rfl | rfl | rfl
    · exact encChar_plain _ (by omega)
    · exact encChar_plain _ (by omega)
    · exact hp
    · exact hp
  | case3 a b =>
    have ha := a.toNat_lt
    have hb := b.toNat_lt
    intro c hc
    simp only [Base64.encodeChars, List.mem_cons, List.not_mem_nil, or_false] at hc
    rcases hc with rfl | rfl | rfl | rfl
    · exact encChar_plain _ (by omega)
    · exact encChar_plain _ (by omega)
    · exact encChar_plain _ (by omega)
    · exact hp
  | case4 a b c rest ih =>
    have ha := a.toNat_lt
    have hb := b.toNat_lt
    have hc := c.toNat_lt
    intro x hx
    simp only [Base64.encodeChars, List.mem_cons] at hx
    rcases hx with rfl | rfl | rfl | rfl | hx
    · exact encChar_plain _ (by omega)
    · exact encChar_plain _ (by omega)
    · exact encChar_plain _ (by omega)
    · exact encChar_plain _ (by omega)
    · exact ih x hx

theorem parseOutput_emit (out : Bytes) (h : out.length = 32) (x : List Char) :
    parseOutput ('"' :: (Base64.encodeChars out ++ '"' :: x)) = some (out, x) := by
  have h0 : skipWs ('"' :: (Base64.encodeChars out ++ '"' :: x)) = '"' :: (Base64.encodeChars out ++ '"' :: x) := rfl
  have hp := parseStr_plain (Base64.encodeChars out) x (encodeChars_plain out)
    ((Base64.encodeChars out ++ '"' :: x).length + 1) (by simp; omega)
  unfold parseOutput
  rw [h0]
  simp only [hp, Base64.decodeChars_encodeChars, h, if_true]

theorem parseOptProof_none (x : List Char) :
    parseOptProof ("null".toList ++ '}' :: x) = some (none, '}' :: x) := by
  have e : "null".toList ++ '}' :: x = 'n' :: 'u' :: 'l' :: 'l' :: '}' :: x := rfl
  rw [e]; rfl

theorem parseOptProof_some (c s : Nat) (hc : c < Scalar25519.ell) (hs : s < Scalar25519.ell) (x : List Char) :
    parseOptProof (proofToJsonChars c s ++ x) = some (some (c, s), x) := by
  have h1 := parseProof_emit c s hc hs x
  unfold parseOptProof
  rw [proofToJsonChars_eq] at h1 ⊢
  have h0 : ∀ y, skipWs ('{' :: y) = '{' :: y := fun _ => rfl
  rw [h0]
  simp only [h1, Option.map_some]
  rfl

/-- the JSON text of the `proof` field -/
def proofValueChars : Option (Nat × Nat) → List Char
  | none => "null".toList
  | some (c, s) => proofToJsonChars c s

/-- a proof value the serialiser can hold: canonical scalars -/
def ProofValid : Option (Nat × Nat) → Prop
  | none => True
  | some (c, s) => c < Scalar25519.ell ∧ s < Scalar25519.ell

theorem parseOptProof_emit (proof : Option (Nat × Nat)) (hp : ProofValid proof) (x : List Char) :
    parseOptProof (proofValueChars proof ++ '}' :: x) = some (proof, '}' :: x) := by
  cases proof with
  | none => exact parseOptProof_none x
  | some p =>
    obtain ⟨c, s⟩ := p
    exact parseOptProof_some c s hp.1 hp.2 _

theorem evaluationToJsonChars_eq (out : Bytes) (proof : Option (Nat × Nat)) (r : List Char) :
    evaluationToJsonChars out proof ++ r =
      '{' :: '"' :: ("output".toList ++ '"' :: ':' :: ('"' :: (Base64.encodeChars out ++ '"' ::
        (',' :: '"' :: ("proof".toList ++ '"' :: ':' :: (proofValueChars proof ++ '}' :: r)))))) := by
  have e1 : "{\"output\":\"".toList = '{' :: '"' :: ("output".toList ++ ['"', ':', '"']) := by decide
  have e2 : "\",\"proof\":".toList = '"' :: ',' :: '"' :: ("proof".toList ++ ['"', ':']) := by decide
  cases proof with
  | none =>
    unfold evaluationToJsonChars proofValueChars
    rw [e1, e2]
    simp only [List.append_assoc, List.cons_append, List.nil_append]
  | some p =>
    obtain ⟨c, s⟩ := p
    unfold evaluationToJsonChars proofValueChars
    rw [e1, e2]
    simp only [List.append_assoc, List.cons_append, List.nil_append]

theorem parseEvaluation_emit (out : Bytes) (proof : Option (Nat × Nat)) (ho : out.length = 32)
    (hp : ProofValid proof) (r : List Char) :
    parseEvaluation (evaluationToJsonChars out proof ++ r) = some ((out, proof), r) := by
  rw [evaluationToJsonChars_eq]
  unfold parseEvaluation
  have h0 : ∀ x, skipWs ('{' :: x) = '{' :: x := fun _ => rfl
  rw [h0]
  simp only []
  generalize hfu : List.length _ = fuel
  have hf : 2 ≤ fuel := by rw [← hfu]; simp
  obtain ⟨f, rfl⟩ : ∃ f, fuel = f + 2 := ⟨fuel - 2, by omega⟩
  have hf1 : ∀ x, evalField "output".toList (none, none) ('"' :: (Base64.encodeChars out ++ '"' :: x)) =
      some ((some out, none), x) := by
    intro x; simp [evalField, parseOutput_emit out ho]
  have hf2 : ∀ x, evalField "proof".toList (some out, none) (proofValueChars proof ++ '}' :: x) =
      some ((some out, some proof), '}' :: x) := by
    intro x
    simp [evalField, parseOptProof_emit proof hp]
  rw [objLoop_first _ _ _ _ _ _ _ plain_output (hf1 _), objLoop_next _ _ _ _ _ _ _ plain_proof (hf2 _),
    objLoop_end]
  rfl

theorem pointFromJson_emit (pt : Bytes) (h : pt.length = 32) :
    pointFromJsonChars (pointToJsonChars pt) = some pt := by
  have := parseByteArray_emit32 pt h []
  rw [List.append_nil] at this
  simp [pointFromJsonChars, pointToJsonChars, this, atEnd, skipWs]

theorem evaluationFromJson_emit (out : Bytes) (proof : Option (Nat × Nat)) (ho : out.length = 32)
    (hp : ProofValid proof) :
    evaluationFromJsonChars (evaluationToJsonChars out proof) = some (out, proof) := by
  have := parseEvaluation_emit out proof ho hp []
  rw [List.append_nil] at this
  simp [evaluationFromJsonChars, this, atEnd, skipWs]

/-! ### bincode of `ProofDLEQ` -/

theorem proofToBincode_length (c s : Nat) : (Ppoprf.proofToBincode c s).length = 64 := by
  simp [Ppoprf.proofToBincode, toBytes_length]

theorem proofDecode_encode (c s : Nat) (hc : c < Scalar25519.ell) (hs : s < Scalar25519.ell) (rest : Bytes) :
    proofDecode (Ppoprf.proofToBincode c s ++ rest) = some (c, s) := by
  have hl := toBytes_length c
  have hl2 := toBytes_length s
  unfold proofDecode
  rw [if_neg (by rw [List.length_append, proofToBincode_length]; omega)]
  have h1 : (Ppoprf.proofToBincode c s ++ rest).take 32 = Scalar25519.toBytes c := by
    rw [Ppoprf.proofToBincode, List.append_assoc, List.take_append_of_le_length (by omega),
      List.take_of_length_le (by omega)]
  have h2 : ((Ppoprf.proofToBincode c s ++ rest).drop 32).take 32 = Scalar25519.toBytes s := by
    rw [Ppoprf.proofToBincode, List.append_assoc, List.drop_append_of_le_length (by omega),
      List.drop_of_length_le (by omega), List.nil_append, List.take_append_of_le_length (by omega),
      List.take_of_length_le (by omega)]
  rw [h1, h2, fromCanonicalBytes_toBytes c hc, fromCanonicalBytes_toBytes s hs]

theorem proofDecode_some (bs : Bytes) (c s : Nat) (h : proofDecode bs = some (c, s)) :
    64 ≤ bs.length ∧ c < Scalar25519.ell ∧ s < Scalar25519.ell ∧ bs.take 64 = Ppoprf.proofToBincode c s ∧
      c = Bytes.toNatLE (bs.take 32) ∧ s = Bytes.toNatLE ((bs.drop 32).take 32) := by
  unfold proofDecode at h
  split at h
  · cases h
  · rename_i hl
    split at h
    · rename_i c' s' h1 h2
      injection h with h
      injection h with hc hs
      subst hc; subst hs
      obtain ⟨_, a2, a3, a4⟩ := fromCanonicalBytes_some _ _ h1
      obtain ⟨_, b2, b3, b4⟩ := fromCanonicalBytes_some _ _ h2
      refine ⟨by omega, a2, b2, ?_, a3, b3⟩
      rw [Ppoprf.proofToBincode, a4, b4]
      have : bs.take 64 = bs.take 32 ++ (bs.drop 32).take 32 := by
        rw [show (64 : Nat) = 32 + 32 from rfl, List.take_add]
      exact this
    · cases h

/-! ### what the JSON reader accepts is well-formed -/

theorem objLoop_inv {σ : Type} (onField : List Char → σ → List Char → Option (σ × List Char))
    (P : σ → Prop)
    (hstep : ∀ key st cs st' r, P st → onField key st cs = some (st', r) → P st') :
    ∀ fuel first st cs st' r, P st → objLoop onField fuel first st cs = some (st', r) → P st' := by
  intro fuel
  induction fuel with
  | zero => intro first st cs st' r _ h; simp [objLoop] at h
  | succ f ih =>
    intro first st cs st' r hP h
    simp only [objLoop] at h
    split at h
    · cases h
    · split at h
      · injection h with h; injection h with h1 h2; subst h1; exact hP
      · split at h
        · split at h
          · split at h
            · split at h
              · rename_i hf
                exact ih _ _ _ _ _ (hstep _ _ _ _ _ hP hf) h
              · cases h
            · cases h
          · cases h
        · cases h

theorem parseScalar_lt (cs : List Char) (v : Nat) (r : List Char) (h : parseScalar cs = some (v, r)) :
    v < Scalar25519.ell := by
  unfold parseScalar at h
  split at h
  · split at h
    · rename_i hc
      injection h with h; injection h with h1 h2; subst h1
      exact (fromCanonicalBytes_some _ _ hc).2.1
    · cases h
  · cases h

theorem parseOutput_length (cs : List Char) (bs : Bytes) (r : List Char) (h : parseOutput cs = some (bs, r)) :
    bs.length = 32 := by
  unfold parseOutput at h
  split at h
  · split at h
    · split at h
      · split at h
        · rename_i hl
          injection h with h; injection h with h1 h2; subst h1; exact hl
        · cases h
      · cases h
    · cases h
  · cases h

def ProofStateOk (st : Option Nat × Option Nat) : Prop :=
  (∀ c, st.1 = some c → c < Scalar25519.ell) ∧ (∀ s, st.2 = some s → s < Scalar25519.ell)

theorem proofField_inv (key : List Char) (st : Option Nat × Option Nat) (cs : List Char)
    (st' : Option Nat × Option Nat) (r : List Char) (hP : ProofStateOk st)
    (h : proofField key st cs = some (st', r)) : ProofStateOk st' := by
  unfold proofField at h
  split at h
  · split at h
    · cases h
    · cases hp : parseScalar cs with
      | none => simp [hp] at h
      | some p =>
        obtain ⟨v, r'⟩ := p
        simp only [hp, Option.map_some] at h
        injection h with h; injection h with h1 h2; subst h1
        refine ⟨?_, hP.2⟩
        intro c hc
        injection hc with hc; subst hc
        exact parseScalar_lt _ _ _ hp
  · split at h
    · split at h
      · cases h
      · cases hp : parseScalar cs with
        | none => simp [hp] at h
        | some p =>
          obtain ⟨v, r'⟩ := p
          simp only [hp, Option.map_some] at h
          injection h with h; injection h with h1 h2; subst h1
          refine ⟨hP.1, ?_⟩
          intro c hc
          injection hc with hc; subst hc
          exact parseScalar_lt _ _ _ hp
    · cases hp : ignoreValue cs with
      | none => simp [hp] at h
      | some r' =>
        simp only [hp, Option.map_some] at h
        injection h with h; injection h with h1 h2; subst h1
        exact hP

theorem parseProof_valid (cs : List Char) (c s : Nat) (r : List Char)
    (h : parseProof cs = some ((c, s), r)) : c < Scalar25519.ell ∧ s < Scalar25519.ell := by
  unfold parseProof at h
  split at h
  · split at h
    · rename_i c' s' r' ho
      injection h with h; injection h with h1 h2
      injection h1 with hc hs; subst hc; subst hs
      have := objLoop_inv proofField ProofStateOk proofField_inv _ _ _ _ _ _
        (show ProofStateOk (none, none) from ⟨by simp, by simp⟩) ho
      exact ⟨this.1 _ rfl, this.2 _ rfl⟩
    · cases h
  · split at h
    · cases h
    · cases h
    · split at h
      · rename_i hc
        split at h
        · split at h
          · rename_i hs
            rw [Option.map_eq_some_iff] at h
            obtain ⟨r', _, h⟩ := h
            · injection h with h1 h2
              injection h1 with e1 e2; subst e1; subst e2
              exact ⟨parseScalar_lt _ _ _ hc, parseScalar_lt _ _ _ hs⟩
          · cases h
        · cases h
      · cases h
  · cases h

theorem parseOptProof_valid (cs : List Char) (p : Option (Nat × Nat)) (r : List Char)
    (h : parseOptProof cs = some (p, r)) : ProofValid p := by
  unfold parseOptProof at h
  split at h
  · rw [Option.map_eq_some_iff] at h
    obtain ⟨r', _, h⟩ := h
    injection h with h1 h2; subst h1; trivial
  · cases hp : parseProof cs with
    | none => simp [hp] at h
    | some q =>
      obtain ⟨⟨c, s⟩, r'⟩ := q
      simp only [hp, Option.map_some] at h
      injection h with h; injection h with h1 h2; subst h1
      exact parseProof_valid _ _ _ _ hp

def EvalStateOk (st : EvalState) : Prop :=
  (∀ o, st.1 = some o → o.length = 32) ∧ (∀ p, st.2 = some p → ProofValid p)

theorem evalField_inv (key : List Char) (st : EvalState) (cs : List Char)
    (st' : EvalState) (r : List Char) (hP : EvalStateOk st)
    (h : evalField key st cs = some (st', r)) : EvalStateOk st' := by
  unfold evalField at h
  split at h
  · split at h
    · cases h
    · cases hp : parseOutput cs with
      | none => simp [hp] at h
      | some p =>
        obtain ⟨v, r'⟩ := p
        simp only [hp, Option.map_some] at h
        injection h with h; injection h with h1 h2; subst h1
        refine ⟨?_, hP.2⟩
        intro c hc
        injection hc with hc; subst hc
        exact parseOutput_length _ _ _ hp
  · split at h
    · split at h
      · cases h
      · cases hp : parseOptProof cs with
        | none => simp [hp] at h
        | some p =>
          obtain ⟨v, r'⟩ := p
          simp only [hp, Option.map_some] at h
          injection h with h; injection h with h1 h2; subst h1
          refine ⟨hP.1, ?_⟩
          intro c hc
          injection hc with hc; subst hc
          exact parseOptProof_valid _ _ _ hp
    · cases hp : ignoreValue cs with
      | none => simp [hp] at h
      | some r' =>
        simp only [hp, Option.map_some] at h
        injection h with h; injection h with h1 h2; subst h1
        exact hP

theorem parseEvaluation_valid (cs : List Char) (out : Bytes) (p : Option (Nat × Nat)) (r : List Char)
    (h : parseEvaluation cs = some ((out, p), r)) : out.length = 32 ∧ ProofValid p := by
  unfold parseEvaluation at h
  split at h
  · split at h
    · rename_i o' p' r' ho
      injection h with h; injection h with h1 h2
      injection h1 with e1 e2; subst e1; subst e2
      have := objLoop_inv evalField EvalStateOk evalField_inv _ _ _ _ _ _
        (show EvalStateOk (none, none) from ⟨by simp, by simp⟩) ho
      refine ⟨this.1 _ rfl, ?_⟩
      cases p' with
      | none => trivial
      | some q => exact this.2 _ rfl
    · cases h
  · split at h
    · cases h
    · cases h
    · split at h
      · rename_i hc
        split at h
        · split at h
          · rename_i hs
            rw [Option.map_eq_some_iff] at h
            obtain ⟨r', _, h⟩ := h
            · injection h with h1 h2
              injection h1 with e1 e2; subst e1; subst e2
              exact ⟨parseOutput_length _ _ _ hc, parseOptProof_valid _ _ _ hs⟩
          · cases h
        · cases h
      · cases h
  · cases h

theorem atEnd_some {α : Type} (x : Option (α × List Char)) (a : α) (h : atEnd x = some a) :
    ∃ r, x = some (a, r) := by
  unfold atEnd at h
  split at h
  · split at h
    · injection h with h; subst h; exact ⟨_, rfl⟩
    · cases h
  · cases h

theorem parseElems_length (n : Nat) : ∀ (cs : List Char) (bs : Bytes) (r : List Char),
    parseElems n cs = some (bs, r) → bs.length = n := by
  induction n with
  | zero => intro cs bs r h; simp only [parseElems] at h; injection h with h; injection h with h1 _; subst h1; rfl
  | succ n ih =>
    intro cs bs r h
    simp only [parseElems] at h
    split at h
    · split at h
      · split at h
        · rename_i he
          injection h with h; injection h with h1 _; subst h1
          simp [ih _ _ _ he]
        · cases h
      · cases h
    · cases h

theorem parseByteArray_length (n : Nat) (hn : 0 < n) (cs : List Char) (bs : Bytes) (r : List Char)
    (h : parseByteArray n cs = some (bs, r)) : bs.length = n := by
  unfold parseByteArray at h
  split at h
  · split at h
    · split at h
      · rename_i he
        split at h
        · injection h with h; injection h with h1 _; subst h1
          simp [parseElems_length _ _ _ _ he]; omega
        · cases h
      · cases h
    · cases h
  · cases h

/-! ### the key-state codec -/

theorem rdBytes_append (x rest : Bytes) (n : Nat) (h : x.length = n) : rdBytes n (x ++ rest) = some (x, rest) := by
  unfold rdBytes
  rw [if_neg (by simp [List.length_append]; omega), List.take_left' h, List.drop_left' h]

theorem rdU64_le64 (n : Nat) (h : n < 2 ^ 64) (rest : Bytes) : rdU64 (Bytes.le64 n ++ rest) = some (n, rest) := by
  unfold rdU64
  rw [rdBytes_append _ _ 8 (by simp [Bytes.le64])]
  simp only [Bytes.le64, Bytes.toNatLE_ofNatLE]
  rw [Nat.mod_eq_of_lt (by simpa using h)]

theorem rdSeq_flatMap {α : Type} (item : Bytes → Option (α × Bytes)) (enc : α → Bytes) (l : List α)
    (h : ∀ a ∈ l, ∀ rest, item (enc a ++ rest) = some (a, rest)) (rest : Bytes) :
    rdSeq item l.length (l.flatMap enc ++ rest) = some (l, rest) := by
  induction l with
  | nil => rfl
  | cons a l ih =>
    simp only [List.length_cons, List.flatMap_cons, List.append_assoc, rdSeq, h a (by simp),
      ih (fun b hb => h b (by simp [hb]))]

theorem bitsVal_lt (bits : Ggm.Bits) : bitsVal bits < 2 ^ bits.length := by
  induction bits with
  | nil => simp [bitsVal]
  | cons b bs ih =>
    simp only [bitsVal, List.length_cons, Nat.pow_succ]
    split <;> omega

theorem bitsVal_bit (bits : Ggm.Bits) : ∀ j (hj : j < bits.length),
    ((bitsVal bits / 2 ^ j) % 2 = 1) = (bits[j] = true) := by
  induction bits with
  | nil => intro j hj; simp at hj
  | cons b bs ih =>
    intro j hj
    cases j with
    | zero =>
      simp only [bitsVal, Nat.pow_zero, Nat.div_one, List.getElem_cons_zero]
      cases b <;> simp <;> omega
    | succ j =>
      have hj' : j < bs.length := by simpa using hj
      simp only [bitsVal, List.getElem_cons_succ]
      rw [← ih j hj', Nat.pow_succ, Nat.mul_comm (2 ^ j) 2, ← Nat.div_div_eq_div_mul]
      have : ((if b = true then 1 else 0) + 2 * bitsVal bs) / 2 = bitsVal bs := by
        split <;> omega
      rw [this]

theorem extract_single (bits : Ggm.Bits) (h : bits.length ≤ 64) :
    ((List.range bits.length).map fun j => wordsBit [bitsVal bits] (0 + j)) = bits := by
  apply List.ext_getElem
  · simp
  · intro j h1 h2
    have hj : j < bits.length := by simpa using h1
    simp only [List.getElem_map, List.getElem_range, Nat.zero_add, wordsBit]
    have h64 : j / 64 = 0 := by omega
    have hm : j % 64 = j := by omega
    rw [h64, hm]
    simp only [List.getD_cons_zero]
    have := bitsVal_bit bits j hj
    cases hb : bits[j] with
    | true => rw [hb] at this; simp only [eq_iff_iff, iff_true] at this; simp [this]
    | false =>
      rw [hb] at this
      simp only [eq_iff_iff] at this
      simp only [decide_eq_false_iff_not]
      intro hc; exact absurd (this.mp hc) (by simp)

theorem bitsWords_short (bits : Ggm.Bits) (h : bits.length ≤ 64) :
    bitsWords bits.length bits = if bits = [] then [] else [bitsVal bits] := by
  cases bits with
  | nil => rfl
  | cons b bs =>
    have h1 : (b :: bs).take 64 = b :: bs := List.take_of_length_le h
    have h2 : (b :: bs).drop 64 = [] := List.drop_of_length_le h
    simp only [List.length_cons, bitsWords, h1, h2]
    cases bs <;> simp [bitsWords]

theorem orderName_length : orderName.length = 19 := by decide

theorem rdBitVec_emit (bits : Ggm.Bits) (h : bits.length ≤ 64) (rest : Bytes) :
    rdBitVec (bitvecToBincode bits ++ rest) = some (bits, rest) := by
  have hlt : bits.length < 2 ^ 64 := by omega
  unfold bitvecToBincode rdBitVec
  simp only [bitsWords_short bits h, List.append_assoc]
  rw [rdU64_le64 _ (by rw [orderName_length]; decide)]
  simp only []
  rw [rdBytes_append _ _ _ rfl]
  simp only [ne_eq, not_true_eq_false, if_false, List.cons_append, List.nil_append]
  rw [if_neg (by decide)]
  rw [rdU64_le64 _ hlt]
  simp only []
  by_cases he : bits = []
  · subst he
    simp only [if_true, List.length_nil, List.flatMap_nil, List.nil_append]
    rw [rdU64_le64 _ (by decide)]
    simp [rdSeq]
  · simp only [if_neg he, List.length_cons, List.length_nil, List.flatMap_cons, List.flatMap_nil,
      List.append_nil]
    rw [rdU64_le64 _ (by decide)]
    simp only [Nat.zero_add, rdSeq]
    have hv : bitsVal bits < 2 ^ 64 :=
      Nat.lt_of_lt_of_le (bitsVal_lt bits) (Nat.pow_le_pow_right (by decide) h)
    rw [rdU64_le64 _ hv]
    simp only []
    rw [if_neg (by simp; omega)]
    have := extract_single bits h
    simp only [Nat.zero_add] at this
    simp [this]



theorem rdPkEntry_emit (e : UInt8 × Bytes) (h : e.2.length = 32) (rest : Bytes) :
    rdPkEntry ((fun e : UInt8 × Bytes => e.1 :: e.2) e ++ rest) = some (e, rest) := by
  have hcl : Params.compressedPointLen = 32 := rfl
  simp only [rdPkEntry, List.cons_append, rdU8, hcl, rdBytes_append _ _ 32 h]

theorem rdPk_emit (pk : Ppoprf.PublicKey) (h1 : pk.basePk.length = 32) (h2 : StrictTags pk.mdPks)
    (h3 : ∀ e ∈ pk.mdPks, e.2.length = 32) (rest : Bytes) :
    rdPk (pk.toBincode ++ rest) = some (pk, rest) := by
  have hcl : Params.compressedPointLen = 32 := rfl
  have hn := strictTags_length _ h2
  unfold rdPk
  rw [toBincode_eq, List.append_assoc, List.append_assoc, hcl, rdBytes_append _ _ 32 h1]
  simp only []
  rw [rdU64_le64 _ (by omega)]
  simp only [entriesBytes]
  rw [rdSeq_flatMap rdPkEntry _ pk.mdPks (fun e he rest => rdPkEntry_emit e (h3 e he) rest)]
  simp only [insertAll_sorted _ h2]

/-- the key states the serialiser is applied to: canonical OPRF key, well-formed public key,
32-byte PRG keys, bit strings of at most 64 bits (the GGM tree has depth 8), sizes below 2^64 -/
def KeyStateValid (ks : KeyState) : Prop :=
  ks.oprfKey < Scalar25519.ell ∧
  ks.publicKey.basePk.length = 32 ∧ StrictTags ks.publicKey.mdPks ∧
  (∀ e ∈ ks.publicKey.mdPks, e.2.length = 32) ∧
  (∀ p ∈ ks.prgs, p.length = 32) ∧ ks.prgs.length < 2 ^ 64 ∧
  ks.ggm.prefixes.length < 2 ^ 64 ∧ (∀ p ∈ ks.ggm.prefixes, p.1.length ≤ 64 ∧ p.2.length < 2 ^ 64) ∧
  ks.ggm.punctured.length < 2 ^ 64 ∧ ∀ b ∈ ks.ggm.punctured, b.length ≤ 64

theorem rdPrefixEntry_emit (p : Ggm.Bits × Bytes) (h1 : p.1.length ≤ 64) (h2 : p.2.length < 2 ^ 64)
    (rest : Bytes) :
    rdPrefixEntry ((fun p : Ggm.Bits × Bytes => bitvecToBincode p.1 ++ (Bytes.le64 p.2.length ++ p.2)) p ++ rest)
      = some (p, rest) := by
  simp only [rdPrefixEntry, List.append_assoc, rdBitVec_emit p.1 h1, rdVecU8, rdU64_le64 _ h2,
    rdBytes_append _ _ _ rfl]

theorem keyStateFromBincode_emit (ks : KeyState) (h : KeyStateValid ks) (rest : Bytes) :
    keyStateFromBincode (keyStateToBincode ks ++ rest) = some ks := by
  obtain ⟨h1, h2, h3, h4, h5, h6, h7, h8, h9, h10⟩ := h
  obtain ⟨k, pk, prgs, ⟨pfxs, pun⟩⟩ := ks
  simp only at h1 h2 h3 h4 h5 h6 h7 h8 h9 h10
  unfold keyStateToBincode keyStateFromBincode
  simp only [List.append_assoc]
  rw [rdBytes_append _ _ 32 (toBytes_length k)]
  simp only [fromCanonicalBytes_toBytes k h1]
  rw [rdPk_emit pk h2 h3 h4]
  simp only []
  rw [rdU64_le64 _ h6]
  simp only []
  have hfl : prgs.flatten = prgs.flatMap id := (List.flatMap_id).symm
  rw [hfl, rdSeq_flatMap (rdBytes 32) id prgs
    (fun p hp rest => rdBytes_append p rest 32 (h5 p hp))]
  simp only []
  rw [rdU64_le64 _ h7]
  simp only []
  rw [rdSeq_flatMap rdPrefixEntry _ pfxs (fun p hp rest => rdPrefixEntry_emit p (h8 p hp).1 (h8 p hp).2 rest)]
  simp only []
  rw [rdU64_le64 _ h9]
  simp only []
  rw [rdSeq_flatMap rdBitVec bitvecToBincode pun (fun b hb rest => rdBitVec_emit b (h10 b hb) rest)]

end StarModel.Codec
