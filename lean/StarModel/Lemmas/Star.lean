/-
STAR report generation: payload framing, encryption round trip, structure of a generated report.
-/
import StarModel.Lemmas.Adss
import StarModel.Lemmas.Wire

namespace StarModel.Star
open StarModel StarModel.Adss

theorem fillBytes_length (F : Perm) (g : StrobeRng) (n : Nat) : (StrobeRng.fillBytes F g n).2.length = n := by
  unfold StrobeRng.fillBytes; simp only; exact Strobe.prf_length F _ n

theorem strobeDigest_length (F : Perm) (key : Bytes) (ads : List Bytes) (label : String) :
    (strobeDigest F key ads label).length = 32 := by
  unfold strobeDigest; simp only; rw [fillBytes_length]; rfl

theorem foldl_ad_isReceiver (F : Perm) (ads : List Bytes) (t : Strobe) :
    (ads.foldl (Strobe.ad F) t).isReceiver = t.isReceiver := by
  induction ads generalizing t with
  | nil => rfl
  | cons a as ih => simp only [List.foldl_cons]; rw [ih, Strobe.ad_isReceiver]

/-- **`Ciphertext::decrypt` inverts `Ciphertext::new`** under the same key and label, any `F` -/
theorem decrypt_encrypt (F : Perm) (key data : Bytes) (label : String) :
    decrypt F key (encrypt F key data label) label = data := by
  unfold decrypt encrypt
  have hm : Strobe.Mirror (Strobe.key F (Strobe.new F (Bytes.ofString label)) key)
      (Strobe.key F (Strobe.new F (Bytes.ofString label)) key) :=
    Strobe.Mirror.refl_of_none _ (by rw [Strobe.key_isReceiver, Strobe.new_isReceiver])
  exact (Strobe.recvEnc_sendEnc F _ _ hm data).1

/-- the payload framing parses back to exactly what the client supplied; `none`, `some []` and
non-empty associated data are distinguished -/
theorem parsePayload_payload (m : Bytes) (aux : Option Bytes) (hm : m.length < 2 ^ 32)
    (ha : ∀ a, aux = some a → a.length < 2 ^ 32) : parsePayload (payload m aux) = some (m, aux) := by
  unfold parsePayload payload
  rw [storeBytes_eq m hm]
  cases aux with
  | none =>
    simp only [List.append_nil]
    have := loadBytes_append m [] hm
    rw [List.append_nil] at this
    rw [this]
    simp only
    have hd : (Bytes.le32 m.length ++ m).drop (4 + m.length) = [] := by
      have := drop_chunk m []
      rwa [List.append_nil] at this
    rw [hd]; rfl
  | some a =>
    have hal := ha a rfl
    simp only
    rw [storeBytes_eq a hal, loadBytes_append m _ hm]
    simp only
    rw [drop_chunk]
    have hne : (Bytes.le32 a.length ++ a).isEmpty = false := by
      have : (Bytes.le32 a.length ++ a).length ≠ 0 := by simp
      cases h : (Bytes.le32 a.length ++ a) with
      | nil => rw [h] at this; simp at this
      | cons _ _ => rfl
    rw [hne]
    simp only [Bool.false_eq_true, if_false]
    have := loadBytes_append a [] hal
    rw [List.append_nil] at this
    rw [this]

/-- structure of a generated report: one ADSS dealing `d` of `(t, r₀, r₁)` shared by all clients
of the same `(rnd, t)`, the tag `r₂`, and the payload encrypted under `derive_ske_key(r₀, epoch)` -/
theorem generate_ok (F : Perm) (fuel : Nat) (m e : Bytes) (t : Nat) (rnd : Bytes) (aux : Option Bytes)
    (x : Nat) (msg : Message) (h : generate F fuel m e t rnd aux x = some (.ok msg)) :
    ∃ d, deal F fuel none t (deriveRandom F rnd 0) (deriveRandom F rnd 1) = some (.ok d) ∧
      msg.share = ⟨t, Sharks.evaluate d.polys x, d.C, d.D, d.J⟩ ∧
      msg.tag = deriveRandom F rnd 2 ∧
      msg.ciphertext = encrypt F (deriveSkeKey F (deriveRandom F rnd 0) e) (payload m aux) Params.starEncryptLabel := by
  unfold generate at h
  simp only at h
  unfold share at h
  cases hd : deal F fuel none t (deriveRandom F rnd 0) (deriveRandom F rnd 1) with
  | none => rw [hd] at h; cases h
  | some o =>
    rw [hd] at h
    cases o with
    | err k => cases h
    | panic w => cases h
    | ok d =>
      simp only at h
      injection h with h; injection h with h; subst h
      exact ⟨d, rfl, rfl, rfl, rfl⟩

end StarModel.Star
