/-
Structure of what `Sharks::dealer_rng` deals: per secret element one polynomial whose non-constant
coefficients are consecutive `Fp::random` draws of the supplied RNG and whose constant term is the
element; refusal exactly on out-of-range elements.
-/
import StarModel.Lemmas.Recover

namespace StarModel.Sharks
open StarModel

variable {σ : Type}

theorem random_lt (next : σ → σ × Nat) (fuel : Nat) (g g' : σ) (v : Nat)
    (h : Fp.random next fuel g = some (g', v)) : v < Fp.p := by
  induction fuel generalizing g with
  | zero => simp [Fp.random] at h
  | succ fuel ih =>
    unfold Fp.random at h
    simp only at h
    split at h
    · rename_i v' hv
      injection h with h; injection h with _ h2; subst h2
      unfold Fp.randomAttempt at hv
      simp only at hv
      split at hv
      · injection hv with hv; subst hv; exact Fp.mul_lt _ _
      · cases hv
    · exact ih _ h

theorem drawFp_spec (next : σ → σ × Nat) (fuel n : Nat) (g g' : σ) (vs : List Nat)
    (h : drawFp next fuel n g = some (g', vs)) : vs.length = n ∧ ∀ v ∈ vs, v < Fp.p := by
  induction n generalizing g vs with
  | zero => simp [drawFp] at h; obtain ⟨_, rfl⟩ := h; simp
  | succ n ih =>
    unfold drawFp at h
    split at h
    · cases h
    · rename_i g1 v hv
      split at h
      · cases h
      · rename_i g2 vs' hvs
        injection h with h; injection h with h1 h2; subst h1; subst h2
        obtain ⟨hl, hlt⟩ := ih _ _ hvs
        refine ⟨by simp [hl], ?_⟩
        intro w hw
        rcases List.mem_cons.mp hw with rfl | hw
        · exact random_lt next fuel _ _ _ hv
        · exact hlt w hw

/-- the relation "`polys` is what the dealer deals for the decoded elements `elems`, drawing from
`g` and leaving the RNG in state `g'`": polynomial `j` is `(t-1 consecutive draws) ++ [elem j]`,
and the draws of polynomial `j+1` start where those of polynomial `j` ended. -/
inductive DealtFrom (next : σ → σ × Nat) (fuel t : Nat) : List Nat → σ → σ → List (List Nat) → Prop
  | nil (g : σ) : DealtFrom next fuel t [] g g []
  | cons (e : Nat) (es : List Nat) (g g1 g2 : σ) (cs : List Nat) (ps : List (List Nat)) :
      drawFp next fuel (t - 1) g = some (g1, cs) → DealtFrom next fuel t es g1 g2 ps →
      DealtFrom next fuel t (e :: es) g g2 ((cs ++ [e]) :: ps)

theorem dealPolys_ok (next : σ → σ × Nat) (fuel t : Nat) (cs : List Bytes) (g g' : σ)
    (polys : List (List Nat)) (h : dealPolys next fuel t cs g = some (.ok (g', polys))) :
    ∃ elems, cs.map Fp.fromRepr = elems.map some ∧ DealtFrom next fuel t elems g g' polys := by
  induction cs generalizing g polys with
  | nil =>
    unfold dealPolys at h
    injection h with h; injection h with h; injection h with h1 h2
    subst h1; subst h2
    exact ⟨[], rfl, .nil g⟩
  | cons c cs ih =>
    unfold dealPolys at h
    cases hc : Fp.fromRepr c with
    | none => rw [hc] at h; simp at h
    | some e =>
      rw [hc] at h
      simp only at h
      unfold randomPolynomial at h
      cases hd : drawFp next fuel (t - 1) g with
      | none => rw [hd] at h; simp at h
      | some r =>
        obtain ⟨g1, coeffs⟩ := r
        rw [hd] at h
        simp only at h
        cases hrest : dealPolys next fuel t cs g1 with
        | none => rw [hrest] at h; simp at h
        | some o =>
          rw [hrest] at h
          cases o with
          | err k => simp at h
          | panic w => simp at h
          | ok r2 =>
            obtain ⟨g2, ps⟩ := r2
            simp only at h
            injection h with h; injection h with h; injection h with h1 h2
            subst h1; subst h2
            obtain ⟨elems, he, hdf⟩ := ih _ _ hrest
            exact ⟨e :: elems, by simp [hc, he], .cons e elems g g1 g2 coeffs ps hd hdf⟩

theorem dealPolys_err_iff (next : σ → σ × Nat) (fuel t : Nat) (cs : List Bytes) (g : σ) :
    (∀ c ∈ cs, (Fp.fromRepr c).isSome) → ∀ k, dealPolys next fuel t cs g ≠ some (.err k) := by
  intro hall k
  induction cs generalizing g with
  | nil => simp [dealPolys]
  | cons c cs ih =>
    unfold dealPolys
    obtain ⟨e, he⟩ := Option.isSome_iff_exists.mp (hall c (by simp))
    rw [he]
    simp only
    cases randomPolynomial next fuel e t g with
    | none => simp
    | some r =>
      obtain ⟨g1, poly⟩ := r
      simp only
      have := ih g1 (fun c' hc' => hall c' (List.mem_cons_of_mem _ hc'))
      cases hr : dealPolys next fuel t cs g1 with
      | none => simp
      | some o =>
        cases o with
        | ok r2 => simp
        | err k' =>
          simp only
          intro hc
          injection hc with hc; injection hc with hc
          subst hc
          exact this hr
        | panic w => simp

theorem dealPolys_refuses (next : σ → σ × Nat) (fuel t : Nat) (cs : List Bytes) (g : σ)
    (h : ∃ c ∈ cs, Fp.fromRepr c = none) : ∀ r, dealPolys next fuel t cs g ≠ some (.ok r) := by
  intro r hr
  obtain ⟨g', polys⟩ := r
  obtain ⟨elems, he, _⟩ := dealPolys_ok next fuel t cs g g' polys hr
  obtain ⟨c, hc, hn⟩ := h
  have : Fp.fromRepr c ∈ cs.map Fp.fromRepr := List.mem_map_of_mem hc
  rw [he, hn] at this
  simp at this

theorem dealPolys_not_panic (next : σ → σ × Nat) (fuel t : Nat) (cs : List Bytes) (g : σ) :
    ∀ w, dealPolys next fuel t cs g ≠ some (.panic w) := by
  induction cs generalizing g with
  | nil => simp [dealPolys]
  | cons c cs ih =>
    intro w
    unfold dealPolys
    cases Fp.fromRepr c with
    | none => simp
    | some e =>
      simp only
      cases randomPolynomial next fuel e t g with
      | none => simp
      | some r =>
        obtain ⟨g1, poly⟩ := r
        simp only
        cases hr : dealPolys next fuel t cs g1 with
        | none => simp
        | some o =>
          cases o with
          | ok r2 => simp
          | err k' => simp
          | panic w' => exact absurd hr (ih g1 w')

theorem DealtFrom.length {next : σ → σ × Nat} {fuel t : Nat} {elems : List Nat} {g g' : σ}
    {polys : List (List Nat)} (h : DealtFrom next fuel t elems g g' polys) : polys.length = elems.length := by
  induction h with
  | nil => rfl
  | cons _ _ _ _ _ _ _ _ _ ih => simp [ih]

theorem DealtFrom.singleton {next : σ → σ × Nat} {fuel t : Nat} {e : Nat} {g g' : σ}
    {polys : List (List Nat)} (h : DealtFrom next fuel t [e] g g' polys) :
    ∃ cs, polys = [cs ++ [e]] ∧ drawFp next fuel (t - 1) g = some (g', cs) := by
  cases h with
  | cons _ _ _ g1 _ cs ps hdraw hrest =>
    cases hrest
    exact ⟨cs, rfl, hdraw⟩

/-- consequences of the dealing relation used by recovery -/
theorem DealtFrom.dealt {next : σ → σ × Nat} {fuel t : Nat} (ht : 1 ≤ t) {elems : List Nat} {g g' : σ}
    {polys : List (List Nat)} (h : DealtFrom next fuel t elems g g' polys)
    (hel : ∀ e ∈ elems, e < Fp.p) :
    Dealt t polys ∧ polys.map (fun poly => poly.getLastD 0) = elems ∧
      ∀ poly ∈ polys, ∀ c ∈ poly, c < Fp.p := by
  induction h with
  | nil g => exact ⟨(by intro p hp; cases hp), rfl, (by intro p hp; cases hp)⟩
  | cons e es g g1 g2 cs ps hd _ ih =>
    obtain ⟨hl, hlt⟩ := drawFp_spec next fuel _ _ _ _ hd
    obtain ⟨h1, h2, h3⟩ := ih (fun e' he' => hel e' (by simp [he']))
    refine ⟨?_, (by rw [List.map_cons, h2]; simp), ?_⟩
    · intro poly hp
      rcases List.mem_cons.mp hp with rfl | hp
      · exact ⟨(by simp [hl]; omega), cs, e, rfl, hel e (by simp)⟩
      · exact h1 poly hp
    · intro poly hp c hc
      rcases List.mem_cons.mp hp with rfl | hp
      · rcases List.mem_append.mp hc with hc | hc
        · exact hlt c hc
        · have hce : c = e := by simpa using hc
          rw [hce]; exact hel e (by simp)
      · exact h3 poly hp c hc

theorem chunks_flatten (k : Nat) (bs : Bytes) (h : 24 * k ≤ bs.length) :
    (chunks 24 k bs).flatten = bs.take (24 * k) := by
  induction k with
  | zero => simp [chunks]
  | succ k ih =>
    unfold chunks at ih ⊢
    rw [List.range_succ, List.map_append, List.flatten_append, ih (by omega)]
    simp only [List.map_cons, List.map_nil, List.flatten_cons, List.flatten_nil, List.append_nil]
    have : 24 * (k + 1) = 24 * k + 24 := by omega
    rw [this, List.take_add, Nat.mul_comm k 24]

/-- the secret a successful dealing encodes is the input's complete 24-byte elements -/
theorem secretOf_dealt (elems : List Nat) (polys : List (List Nat)) (cs : List Bytes)
    (hlast : polys.map (fun poly => poly.getLastD 0) = elems)
    (hdec : cs.map Fp.fromRepr = elems.map some) : secretOf polys = cs.flatten := by
  unfold secretOf
  congr 1
  have h1 : polys.map (fun poly => Fp.toRepr (poly.getLastD 0)) = elems.map Fp.toRepr := by
    rw [← hlast, List.map_map]; rfl
  rw [h1]
  clear h1 hlast
  induction cs generalizing elems with
  | nil => cases elems <;> simp_all
  | cons c cs ih =>
    cases elems with
    | nil => simp at hdec
    | cons e es =>
      simp only [List.map_cons, List.cons.injEq] at hdec ⊢
      exact ⟨(fromRepr_some c e hdec.1).2.2, ih es hdec.2⟩

end StarModel.Sharks
