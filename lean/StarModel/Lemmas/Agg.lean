/-
Helper lemmas for C17 (WASM string API) and C18 (aggregation server): base64 alphabet, newline
splitting, chunk decoding, bucket collection.
-/
import StarModel.Wasm
import StarModel.Agg
import StarModel.Lemmas.Star
import StarModel.Props.C08
import Mathlib.Data.List.Basic

namespace StarModel.Base64.Sym
open StarModel StarModel.Base64

/-- the 64 symbols of the standard alphabet, and the padding symbol -/
def IsSymbol (c : Char) : Prop := (decChar c).isSome = true ∨ c = '='

theorem encChar_ge (n : Nat) (h : 63 ≤ n) : encChar n = '/' := by
  unfold encChar
  have h1 : ¬ n < 26 := by omega
  have h2 : ¬ n < 52 := by omega
  have h3 : ¬ n < 62 := by omega
  have h4 : ¬ n = 62 := by omega
  simp only [h1, h2, h3, h4, if_false]

theorem decChar_encChar_fin : ∀ k : Fin 64, decChar (encChar k.val) = some k.val := by decide

theorem decChar_encChar (n : Nat) (h : n < 64) : decChar (encChar n) = some n :=
  decChar_encChar_fin ⟨n, h⟩

theorem encChar_symbol (n : Nat) : (decChar (encChar n)).isSome = true := by
  by_cases h : n < 64
  · rw [decChar_encChar n h]; rfl
  · rw [encChar_ge n (by omega)]; decide

theorem encChar_ne (n : Nat) : encChar n ≠ '=' ∧ encChar n ≠ '"' ∧ encChar n ≠ '\\' ∧ encChar n ≠ '\n' := by
  have h := encChar_symbol n
  refine ⟨?_, ?_, ?_, ?_⟩ <;> intro he <;> rw [he] at h <;> revert h <;> decide

/-- base64 text consists of alphabet symbols and `=` only -/
theorem encodeChars_symbols (bs : Bytes) : ∀ c ∈ encodeChars bs, IsSymbol c := by
  induction bs using encodeChars.induct with
  | case1 => intro c hc; simp [encodeChars] at hc
  | case2 a =>
    intro c hc
    simp only [encodeChars, List.mem_cons, List.not_mem_nil, or_false] at hc
    rcases hc with rfl | rfl | rfl | rfl
    · exact Or.inl (encChar_symbol _)
    · exact Or.inl (encChar_symbol _)
    · exact Or.inr rfl
    · exact Or.inr rfl
  | case3 a b =>
    intro c hc
    simp only [encodeChars, List.mem_cons, List.not_mem_nil, or_false] at hc
    rcases hc with rfl | rfl | rfl | rfl
    · exact Or.inl (encChar_symbol _)
    · exact Or.inl (encChar_symbol _)
    · exact Or.inl (encChar_symbol _)
    · exact Or.inr rfl
  | case4 a b c rest ih =>
    intro ch hc
    simp only [encodeChars, List.mem_cons] at hc
    rcases hc with rfl | rfl | rfl | rfl | hc
    · exact Or.inl (encChar_symbol _)
    · exact Or.inl (encChar_symbol _)
    · exact Or.inl (encChar_symbol _)
    · exact Or.inl (encChar_symbol _)
    · exact ih ch hc

theorem IsSymbol.ne {c : Char} (h : IsSymbol c) : c ≠ '"' ∧ c ≠ '\\' ∧ c ≠ '\n' := by
  rcases h with h | rfl
  · refine ⟨?_, ?_, ?_⟩ <;> intro he <;> rw [he] at h <;> revert h <;> decide
  · decide

theorem encodeChars_no_newline (bs : Bytes) : '\n' ∉ encodeChars bs :=
  fun h => (encodeChars_symbols bs _ h).ne.2.2 rfl

end StarModel.Base64.Sym

namespace StarModel.Wasm
open StarModel

theorem splitNL_ne_nil (cs : List Char) : splitNL cs ≠ [] := by
  induction cs with
  | nil => simp [splitNL]
  | cons c cs ih =>
    unfold splitNL
    split
    · simp
    · split <;> simp

/-- a newline-free string is one chunk -/
theorem splitNL_of_no_newline (l : List Char) (h : '\n' ∉ l) : splitNL l = [l] := by
  induction l with
  | nil => rfl
  | cons c cs ih =>
    have hc : c ≠ '\n' := fun he => h (by rw [he]; exact List.mem_cons_self)
    have hcs : '\n' ∉ cs := fun he => h (List.mem_cons_of_mem _ he)
    rw [splitNL, if_neg hc, ih hcs]

theorem splitNL_append (l rest : List Char) (h : '\n' ∉ l) :
    splitNL (l ++ '\n' :: rest) = l :: splitNL rest := by
  induction l with
  | nil => simp [splitNL]
  | cons c cs ih =>
    have hc : c ≠ '\n' := fun he => h (by rw [he]; exact List.mem_cons_self)
    have hcs : '\n' ∉ cs := fun he => h (List.mem_cons_of_mem _ he)
    rw [List.cons_append, splitNL, if_neg hc, ih hcs]

/-- **`split('\n')` inverts joining with `"\n"`** for a non-empty list of newline-free strings -/
theorem splitNL_intercalate (ls : List (List Char)) (hne : ls ≠ []) (h : ∀ l ∈ ls, '\n' ∉ l) :
    splitNL (List.intercalate ['\n'] ls) = ls := by
  induction ls with
  | nil => exact absurd rfl hne
  | cons l rest ih =>
    cases rest with
    | nil =>
      simp only [List.intercalate, List.intersperse_singleton, List.flatten_cons, List.flatten_nil, List.append_nil]
      exact splitNL_of_no_newline l (h l List.mem_cons_self)
    | cons l2 rest =>
      have : List.intercalate ['\n'] (l :: l2 :: rest) = l ++ '\n' :: List.intercalate ['\n'] (l2 :: rest) := by
        simp [List.intercalate]
      rw [this, splitNL_append l _ (h l List.mem_cons_self), ih (by simp) (fun x hx => h x (List.mem_cons_of_mem _ hx))]

theorem decodeChunk_not_panic (c : List Char) (w : String) : decodeChunk c ≠ .panic w := by
  unfold decodeChunk
  split
  · simp
  · rename_i bs _
    cases h : Adss.Share.fromBytes bs with
    | ok sh => simp
    | err k => simp
    | panic w' => exact absurd h ((Props.C08.C08_decoders_total bs).2.1 w')

theorem decodeChunk_not_err (c : List Char) (k : String) : decodeChunk c ≠ .err k := by
  unfold decodeChunk
  split
  · simp
  · split <;> simp
    
theorem decodeChunks_not_panic (cs : List (List Char)) (w : String) : decodeChunks cs ≠ .panic w := by
  induction cs generalizing w with
  | nil => simp [decodeChunks]
  | cons c cs ih =>
    rw [decodeChunks]
    cases h : decodeChunk c with
    | panic w' => exact absurd h (decodeChunk_not_panic c w')
    | err k => simp
    | ok o =>
      cases o with
      | none => simp
      | some sh =>
        simp only
        cases h2 : decodeChunks cs with
        | panic w' => exact absurd h2 (ih w')
        | err k => simp
        | ok o2 => cases o2 <;> simp

end StarModel.Wasm

namespace StarModel.Star
open StarModel StarModel.Adss

/-- every share of a dealing of `(t, M, R)` at a canonical point is a value the codec represents -/
theorem dealt_share_valid (F : Perm) (fuel t : Nat) (ht32 : t < 2 ^ 32) (M R : Bytes)
    (hM : M.length < 2 ^ 32) (hR : R.length < 2 ^ 32) (d : Dealt)
    (hd : deal F fuel none t M R = some (.ok d)) (x : Nat) (hx : x < Fp.p) :
    Props.C08.AdssValid ⟨t, Sharks.evaluate d.polys x, d.C, d.D, d.J⟩ := by
  obtain ⟨hJ, _, hC, hD, g', hdf⟩ := deal_ok F fuel none t M R d hd
  obtain ⟨cs, hpolys, _⟩ := hdf.singleton
  have hCl : d.C.length = M.length := by rw [hC, Strobe.sendEnc_length]
  have hDl : d.D.length = R.length := by rw [hD, Strobe.sendEnc_length]
  have hJl : d.J.length = 64 := by rw [hJ]; exact macOf_length F none t _ _
  have hyl : (Sharks.evaluate d.polys x).y.length = 1 := by simp [Sharks.evaluate, hpolys]
  have hvalid : (Sharks.evaluate d.polys x).Valid := by
    refine ⟨hx, ?_⟩
    intro y hy
    simp only [Sharks.evaluate, hpolys, List.map_cons, List.map_nil, List.mem_singleton] at hy
    subst hy
    rcases Sharks.evalPoly_lt (cs ++ [Bytes.toNatLE d.K]) x with h | h
    · exact h
    · simp at h
  exact ⟨ht32, hvalid, by rw [hyl]; norm_num, by rw [hCl]; exact hM, by rw [hDl]; exact hR, hJl⟩

/-- structure of the WASM sharing material -/
theorem swlr_ok (F : Perm) (fuel : Nat) (m e : Bytes) (t x : Nat) (k tag : Bytes) (sh : Adss.Share)
    (h : shareWithLocalRandomness F fuel m e t x = some (.ok (k, sh, tag))) :
    ∃ d, deal F fuel none t (deriveRandom F (sampleLocalRandomness F m e t) 0)
        (deriveRandom F (sampleLocalRandomness F m e t) 1) = some (.ok d) ∧
      sh = ⟨t, Sharks.evaluate d.polys x, d.C, d.D, d.J⟩ ∧
      k = deriveSkeKey F (deriveRandom F (sampleLocalRandomness F m e t) 0) e ∧
      tag = deriveRandom F (sampleLocalRandomness F m e t) 2 := by
  unfold shareWithLocalRandomness at h
  simp only at h
  unfold Adss.share at h
  cases hd : deal F fuel none t (deriveRandom F (sampleLocalRandomness F m e t) 0)
      (deriveRandom F (sampleLocalRandomness F m e t) 1) with
  | none => rw [hd] at h; cases h
  | some o =>
    rw [hd] at h
    cases o with
    | err k => cases h
    | panic w => cases h
    | ok d =>
      simp only at h
      injection h with h; injection h with h
      injection h with hk h; injection h with hs htag
      exact ⟨d, rfl, hs.symm, hk.symm, htag.symm⟩

theorem swlr_not_err (F : Perm) (fuel : Nat) (m e : Bytes) (t x : Nat) :
    (∀ k, shareWithLocalRandomness F fuel m e t x ≠ some (.err k)) ∧
    (∀ w, shareWithLocalRandomness F fuel m e t x ≠ some (.panic w)) := by
  obtain ⟨h1, h2⟩ := deal_not_err F fuel none t (deriveRandom F (sampleLocalRandomness F m e t) 0)
      (deriveRandom F (sampleLocalRandomness F m e t) 1)
  constructor
  · intro k h
    unfold shareWithLocalRandomness Adss.share at h
    simp only at h
    split at h
    · cases h
    · rename_i k' he
      split at he
      · cases he
      · rename_i e' hd; injection he with he; injection he with he; subst he; exact h1 _ hd
      · cases he
      · cases he
    · cases h
    · cases h
  · intro w h
    unfold shareWithLocalRandomness Adss.share at h
    simp only at h
    split at h
    · cases h
    · cases h
    · rename_i w' he
      split at he
      · cases he
      · cases he
      · rename_i w'' hd; injection he with he; injection he with he; subst he; exact h2 _ hd
      · cases he
    · cases h

theorem deriveSkeKey_length (F : Perm) (r e : Bytes) : (deriveSkeKey F r e).length = 16 := by
  unfold deriveSkeKey
  rw [List.length_take, strobeDigest_length]; rfl

end StarModel.Star

namespace StarModel.Wasm
open StarModel

theorem decodeChunks_encode (hb64 : ∀ bs, Base64.decodeChars (Base64.encodeChars bs) = some bs)
    (shares : List Adss.Share) (hv : ∀ s ∈ shares, Adss.Share.fromBytes s.toBytes = .ok s) :
    decodeChunks (shares.map fun s => Base64.encodeChars s.toBytes) = .ok (some shares) := by
  induction shares with
  | nil => rfl
  | cons s rest ih =>
    rw [List.map_cons, decodeChunks]
    have : decodeChunk (Base64.encodeChars s.toBytes) = .ok (some s) := by
      unfold decodeChunk
      rw [hb64]
      simp only
      rw [hv s List.mem_cons_self]
    rw [this]
    simp only
    rw [ih fun s' hs' => hv s' (List.mem_cons_of_mem _ hs')]

/-- `group_shares` on the newline-joined base64 encodings of a non-empty list of representable
shares is `share_recover` on those shares followed by the key derivation -/
theorem groupShares_encoded (F : Perm) (hb64 : ∀ bs, Base64.decodeChars (Base64.encodeChars bs) = some bs)
    (shares : List Adss.Share) (hne : shares ≠ [])
    (hv : ∀ s ∈ shares, Adss.Share.fromBytes s.toBytes = .ok s) (epoch : String) :
    groupShares F ("\n".intercalate (shares.map fun s => Base64.encode s.toBytes)) epoch =
      match Star.shareRecover F shares with
      | .err _ => .ok none
      | .panic w => .panic w
      | .ok c => .ok (some (Base64.encode (Star.deriveSkeKey F c.M (epochBytes epoch)))) := by
  unfold groupShares
  have h1 : ("\n".intercalate (shares.map fun s => Base64.encode s.toBytes)).toList =
      List.intercalate ['\n'] (shares.map fun s => Base64.encodeChars s.toBytes) := by
    rw [String.toList_intercalate, List.map_map]
    congr 1
    apply List.map_congr_left
    intro s _
    simp [Base64.encode]
  rw [h1, splitNL_intercalate _ (by simpa using hne)
    (by intro l hl; obtain ⟨s, _, rfl⟩ := List.mem_map.mp hl; exact Base64.Sym.encodeChars_no_newline _),
    decodeChunks_encode hb64 shares hv]
  rfl

theorem groupShares_empty (F : Perm) (epoch : String) : groupShares F "" epoch = .ok none := by
  unfold groupShares
  have : decodeChunks (splitNL "".toList) = .ok none := by decide +kernel
  rw [this]

end StarModel.Wasm

namespace StarModel.Wasm
open StarModel

/-- what an accepted chunk list decodes to, chunk by chunk -/
theorem decodeChunks_some (cs : List (List Char)) (shares : List Adss.Share)
    (h : decodeChunks cs = .ok (some shares)) :
    List.Forall₂ (fun chunk s => ∃ bs, Base64.decodeChars chunk = some bs ∧ Adss.Share.fromBytes bs = .ok s)
      cs shares := by
  induction cs generalizing shares with
  | nil =>
    simp only [decodeChunks] at h
    injection h with h; injection h with h; subst h
    exact List.Forall₂.nil
  | cons c cs ih =>
    rw [decodeChunks] at h
    cases hc : decodeChunk c with
    | panic w => rw [hc] at h; cases h
    | err k => rw [hc] at h; cases h
    | ok o =>
      rw [hc] at h
      cases o with
      | none => cases h
      | some sh =>
        simp only at h
        cases hr : decodeChunks cs with
        | panic w => rw [hr] at h; cases h
        | err k => rw [hr] at h; cases h
        | ok o2 =>
          rw [hr] at h
          cases o2 with
          | none => cases h
          | some l =>
            simp only at h
            injection h with h; injection h with h; subst h
            refine List.Forall₂.cons ?_ (ih l hr)
            unfold decodeChunk at hc
            cases hd : Base64.decodeChars c with
            | none => rw [hd] at hc; cases hc
            | some bs =>
              rw [hd] at hc
              simp only at hc
              cases hf : Adss.Share.fromBytes bs with
              | ok s => rw [hf] at hc; injection hc with hc; injection hc with hc; subst hc; exact ⟨bs, rfl, hf⟩
              | err k => rw [hf] at hc; cases hc
              | panic w => rw [hf] at hc; cases hc

end StarModel.Wasm

namespace StarModel.Agg
open StarModel

/-! ### bucket collection -/

section Collect
variable {α κ : Type} [DecidableEq κ]

/-- keys in order of first appearance -/
def firstKeys (ks : List κ) : List κ := ks.foldl (fun acc k => if k ∈ acc then acc else acc ++ [k]) []

theorem firstKeys_snoc (ks : List κ) (k : κ) :
    firstKeys (ks ++ [k]) = if k ∈ firstKeys ks then firstKeys ks else firstKeys ks ++ [k] := by
  unfold firstKeys; rw [List.foldl_append]; rfl

theorem mem_firstKeys (ks : List κ) (k : κ) : k ∈ firstKeys ks ↔ k ∈ ks := by
  induction ks using List.reverseRecOn with
  | nil => simp [firstKeys]
  | append_singleton ks a ih =>
    rw [firstKeys_snoc]
    split
    · rename_i h
      rw [ih]
      simp only [List.mem_append, List.mem_singleton]
      constructor
      · exact Or.inl
      · rintro (h' | rfl)
        · exact h'
        · exact ih.mp h
    · simp only [List.mem_append, List.mem_singleton, ih]

theorem firstKeys_nodup (ks : List κ) : (firstKeys ks).Nodup := by
  induction ks using List.reverseRecOn with
  | nil => simp [firstKeys]
  | append_singleton ks a ih =>
    rw [firstKeys_snoc]
    split
    · exact ih
    · rename_i h
      rw [List.nodup_append]
      refine ⟨ih, by simp, ?_⟩
      intro x hx y hy
      simp only [List.mem_singleton] at hy
      subst hy
      intro he; subst he; exact h hx

theorem firstKeys_map_injOn {β : Type} [DecidableEq β] (g : κ → β) (ks : List κ)
    (hinj : ∀ a ∈ ks, ∀ b ∈ ks, g a = g b → a = b) :
    firstKeys (ks.map g) = (firstKeys ks).map g := by
  induction ks using List.reverseRecOn with
  | nil => simp [firstKeys]
  | append_singleton ks a ih =>
    have ih' := ih fun x hx y hy => hinj x (by simp [hx]) y (by simp [hy])
    rw [List.map_append, List.map_singleton, firstKeys_snoc, firstKeys_snoc, ih']
    have : g a ∈ (firstKeys ks).map g ↔ a ∈ firstKeys ks := by
      constructor
      · intro h
        obtain ⟨b, hb, hgb⟩ := List.mem_map.mp h
        have hb' : b ∈ ks := (mem_firstKeys ks b).mp hb
        have := hinj b (by simp [hb']) a (by simp) hgb
        rwa [this] at hb
      · exact List.mem_map_of_mem
    by_cases h : a ∈ firstKeys ks
    · rw [if_pos (this.mpr h), if_pos h]
    · rw [if_neg (fun h' => h (this.mp h')), if_neg h, List.map_append, List.map_singleton]

theorem insertBucket_map (key : α → κ) (a : α) (ks : List κ) (f : κ → List α) (hnd : ks.Nodup) :
    insertBucket key a (ks.map fun k => (k, f k)) =
      if key a ∈ ks then ks.map fun k => (k, if k = key a then f k ++ [a] else f k)
      else (ks.map fun k => (k, f k)) ++ [(key a, [a])] := by
  induction ks with
  | nil => simp [insertBucket]
  | cons k ks ih =>
    rw [List.nodup_cons] at hnd
    rw [List.map_cons, insertBucket]
    by_cases hk : k = key a
    · rw [if_pos hk, if_pos (by rw [hk]; exact List.mem_cons_self)]
      rw [List.map_cons, if_pos hk]
      congr 1
      apply List.map_congr_left
      intro k' hk'
      have : k' ≠ key a := fun h => hnd.1 (by rw [hk, ← h]; exact hk')
      rw [if_neg this]
    · rw [if_neg hk, ih hnd.2]
      by_cases hm : key a ∈ ks
      · rw [if_pos hm, if_pos (List.mem_cons_of_mem _ hm), List.map_cons, if_neg hk]
      · have : key a ∉ k :: ks := by
          intro h; rcases List.mem_cons.mp h with h | h
          · exact hk h.symm
          · exact hm h
        rw [if_neg hm, if_neg this]; rfl

/-- **`collect_messages` groups by key**: one bucket per key, in order of first appearance, each
holding exactly the elements with that key in arrival order -/
theorem collectBy_spec (key : α → κ) (l : List α) :
    collectBy key l = (firstKeys (l.map key)).map fun k => (k, l.filter fun a => key a = k) := by
  induction l using List.reverseRecOn with
  | nil => simp [collectBy, firstKeys]
  | append_singleton l a ih =>
    have hstep : collectBy key (l ++ [a]) = insertBucket key a (collectBy key l) := by
      unfold collectBy; rw [List.foldl_append]; rfl
    rw [hstep, ih, insertBucket_map key a _ _ (firstKeys_nodup _), List.map_append, List.map_singleton,
      firstKeys_snoc]
    by_cases hm : key a ∈ firstKeys (l.map key)
    · rw [if_pos hm, if_pos hm]
      apply List.map_congr_left
      intro k _
      congr 1
      rw [List.filter_append]
      by_cases hk : k = key a
      · rw [if_pos hk]; simp [hk]
      · rw [if_neg hk]
        have : ¬ key a = k := fun h => hk h.symm
        simp [this]
    · rw [if_neg hm, if_neg hm, List.map_append, List.map_singleton]
      congr 1
      · apply List.map_congr_left
        intro k hk
        congr 1
        rw [List.filter_append]
        have : ¬ key a = k := fun h => hm (by rw [h]; exact hk)
        simp [this]
      · congr 2
        rw [List.filter_append]
        have : l.filter (fun b => key b = key a) = [] := by
          rw [List.filter_eq_nil_iff]
          intro b hb h
          simp only [decide_eq_true_eq] at h
          exact hm ((mem_firstKeys _ _).mpr (by rw [← h]; exact List.mem_map_of_mem hb))
        rw [this]; simp

end Collect

/-! ### per-bucket processing -/

theorem mapOutcome_map_ok {α β : Type} (f : α → Outcome β) (g : α → β) (l : List α)
    (h : ∀ a ∈ l, f a = .ok (g a)) : mapOutcome f l = .ok (l.map g) := by
  induction l with
  | nil => rfl
  | cons a as ih =>
    rw [mapOutcome, h a List.mem_cons_self]
    simp only
    rw [ih fun b hb => h b (List.mem_cons_of_mem _ hb)]
    rfl

theorem mapOutcome_map_map_ok {α β γ : Type} (f : β → Outcome γ) (g : α → β) (h : α → γ) (l : List α)
    (H : ∀ a ∈ l, f (g a) = .ok (h a)) : mapOutcome f (l.map g) = .ok (l.map h) := by
  induction l with
  | nil => rfl
  | cons a as ih =>
    rw [List.map_cons, mapOutcome, H a List.mem_cons_self]
    simp only
    rw [ih fun b hb => H b (List.mem_cons_of_mem _ hb)]
    rfl

/-- how the server reports associated data: EMPTY data is reported as absent -/
def normAux : Option Bytes → Option Bytes
  | some [] => none
  | a => a

/-- the server's splitting is the documented framing followed by `normAux` -/
theorem splitPayload_of_parse (pt m : Bytes) (aux : Option Bytes)
    (h : Star.parsePayload pt = some (m, aux)) : splitPayload pt = .ok (m, normAux aux) := by
  unfold Star.parsePayload at h
  unfold splitPayload
  cases h1 : Adss.loadBytes pt with
  | err k => rw [h1] at h; cases h
  | panic w => rw [h1] at h; cases h
  | ok mb =>
    rw [h1] at h
    simp only at h ⊢
    by_cases he : (pt.drop (4 + mb.length)).isEmpty = true
    · rw [if_pos he] at h
      injection h with h; injection h with hm ha; subst hm; subst ha
      simp [he, normAux]
    · rw [if_neg he] at h
      have he' : (!(pt.drop (4 + mb.length)).isEmpty) = true := by simpa using he
      rw [if_pos he']
      cases h2 : Adss.loadBytes (pt.drop (4 + mb.length)) with
      | err k => rw [h2] at h; cases h
      | panic w => rw [h2] at h; cases h
      | ok a =>
        rw [h2] at h
        simp only at h ⊢
        injection h with h; injection h with hm ha; subst hm; subst ha
        cases a with
        | nil => simp [normAux]
        | cons b bs => simp [normAux]

end StarModel.Agg

namespace StarModel.Wasm
open StarModel

/-! ### distinct epoch strings have distinct UTF-8 bytes -/

theorem byteArray_toList_loop (bs : ByteArray) (n i : Nat) (r : List UInt8) (h : bs.size - i = n) :
    ByteArray.toList.loop bs i r = r.reverse ++ bs.data.toList.drop i := by
  induction n generalizing i r with
  | zero =>
    rw [ByteArray.toList.loop.eq_def, if_neg (by omega)]
    have : bs.data.toList.drop i = [] := by
      apply List.drop_of_length_le
      have : bs.data.toList.length = bs.size := by rw [Array.length_toList]; rfl
      omega
    rw [this, List.append_nil]
  | succ n ih =>
    have hi : i < bs.size := by omega
    rw [ByteArray.toList.loop.eq_def, if_pos hi, ih (i + 1) _ (by omega)]
    have hl : i < bs.data.toList.length := by rw [Array.length_toList]; exact hi
    rw [List.drop_eq_getElem_cons hl]
    have : bs.get! i = bs.data.toList[i] := by
      cases bs with
      | mk data =>
        simp only [ByteArray.get!]
        simp at hl
        simp [hl]
    rw [this]
    simp

theorem byteArray_toList (bs : ByteArray) : bs.toList = bs.data.toList := by
  unfold ByteArray.toList
  rw [byteArray_toList_loop bs _ 0 [] rfl]
  simp

theorem epochBytes_injective (a b : String) (h : epochBytes a = epochBytes b) : a = b := by
  unfold epochBytes Bytes.ofString at h
  rw [byteArray_toList, byteArray_toList] at h
  apply String.toByteArray_inj.mp
  rw [← String.toUTF8_eq_toByteArray, ← String.toUTF8_eq_toByteArray]
  cases ha : a.toUTF8 with
  | mk da =>
    cases hb : b.toUTF8 with
    | mk db =>
      rw [ha, hb] at h
      simp only at h
      congr
      exact Array.toList_inj.mp h

end StarModel.Wasm
