/-
Transcripts: the STROBE operation lists behind `strobe_digest` (sta-rs) and the ADSS MAC, the fact
that the digests are the last output of running those lists, and injectivity of the encoding
`(inputs) ↦ operation list` (each input is its own framed operation).
-/
import StarModel.Lemmas.Strobe
import StarModel.Lemmas.Bytes
import StarModel.Star

namespace StarModel.Strobe

/-- the state `Strobe::new` starts from before absorbing the protocol label -/
def init (F : Perm) : Strobe := { st := F initBlock, pos := 0, posBegin := 0, isReceiver := none }

theorem new_eq (F : Perm) (proto : Bytes) : new F proto = (operate F (init F) (.metaAd proto)).1 := rfl

theorem runOps_append (F : Perm) (s : Strobe) (a b : List Op) :
    runOps F s (a ++ b) = ((runOps F (runOps F s a).1 b).1, (runOps F s a).2 ++ (runOps F (runOps F s a).1 b).2) := by
  induction a generalizing s with
  | nil => rfl
  | cons op ops ih => simp only [List.cons_append, runOps]; rw [ih]

theorem runOps_map_ad (F : Perm) (s : Strobe) (ads : List Bytes) :
    (runOps F s (ads.map .ad)).1 = ads.foldl (ad F) s := by
  induction ads generalizing s with
  | nil => rfl
  | cons a as ih => simp only [List.map_cons, runOps, List.foldl_cons]; rw [ih]; rfl

/-- two different operation lists with the same final output under `F`: the event the
random-oracle assumption on STROBE/Keccak-f rules out -/
def Collision (F : Perm) (ops ops' : List Op) : Prop :=
  ops ≠ ops' ∧ (runOps F (init F) ops).2.getLastD [] = (runOps F (init F) ops').2.getLastD []

end StarModel.Strobe

namespace StarModel.Star
open StarModel StarModel.Strobe

/-- the operation list of `strobe_digest(key, ads, label)` (label given as bytes) -/
def digestOps (label key : Bytes) (ads : List Bytes) : List Op :=
  [.metaAd label, .key key] ++ ads.map .ad ++ [.metaAd (Bytes.le32 Params.starDigestLen), .prf Params.starDigestLen]

theorem strobeDigest_eq_runOps (F : Perm) (key : Bytes) (ads : List Bytes) (label : String) :
    strobeDigest F key ads label =
      (runOps F (init F) (digestOps (Bytes.ofString label) key ads)).2.getLastD [] := by
  unfold strobeDigest digestOps
  simp only
  rw [runOps_append, runOps_append]
  simp only [runOps, List.getLastD_eq_getLast?, List.getLast?_append, List.getLast?_cons_cons,
    List.getLast?_singleton, Option.getD_some, Option.some_or]
  rw [runOps_map_ad]
  rfl

theorem digestOps_injective (label label' key key' : Bytes) (ads ads' : List Bytes)
    (h : digestOps label key ads = digestOps label' key' ads') : label = label' ∧ key = key' ∧ ads = ads' := by
  unfold digestOps at h
  simp only [List.cons_append, List.nil_append, List.cons.injEq, Op.metaAd.injEq, Op.key.injEq] at h
  obtain ⟨h1, h2, h3⟩ := h
  refine ⟨h1, h2, ?_⟩
  have h4 := List.append_inj_left' h3 rfl
  have hinj : ∀ (a b : List Bytes), a.map Op.ad = b.map Op.ad → a = b := by
    intro a
    induction a with
    | nil => intro b hb; cases b with
      | nil => rfl
      | cons _ _ => simp at hb
    | cons x xs ih => intro b hb; cases b with
      | nil => simp at hb
      | cons y ys =>
        simp only [List.map_cons, List.cons.injEq, Op.ad.injEq] at hb
        rw [hb.1, ih ys hb.2]
  exact hinj _ _ h4

/-- operation list of `sample_local_randomness` for the triple `(m, e, t)` -/
def localOps (m e : Bytes) (t : Nat) : List Op :=
  digestOps (Bytes.ofString Params.starSampleLocalLabel) m [e, Bytes.le32 t]

/-- **three separately framed operations**: the operation list determines `(m, e, t)` — in
particular pairs that only move bytes across the measurement/epoch boundary, empty components,
prefix pairs and thresholds differing in a single bit all get different lists -/
theorem localOps_injective (m e m' e' : Bytes) (t t' : Nat) (ht : t < 2 ^ 32) (ht' : t' < 2 ^ 32)
    (h : localOps m e t = localOps m' e' t') : m = m' ∧ e = e' ∧ t = t' := by
  obtain ⟨_, hm, hads⟩ := digestOps_injective _ _ _ _ _ _ h
  simp only [List.cons.injEq, and_true] at hads
  exact ⟨hm, hads.1, Bytes.le32_injective ht ht' hads.2⟩

theorem sampleLocal_eq_runOps (F : Perm) (m e : Bytes) (t : Nat) :
    sampleLocalRandomness F m e t = (runOps F (init F) (localOps m e t)).2.getLastD [] :=
  strobeDigest_eq_runOps F m _ _

/-- operation list of the `i`-th derived value -/
def deriveOps (rnd : Bytes) (i : Nat) : List Op :=
  digestOps (Bytes.ofString Params.starDeriveRandomsLabel) rnd [[UInt8.ofNat i]]

theorem deriveOps_injective (rnd rnd' : Bytes) (i j : Nat) (hi : i < 256) (hj : j < 256)
    (h : deriveOps rnd i = deriveOps rnd' j) : rnd = rnd' ∧ i = j := by
  obtain ⟨_, hr, hads⟩ := digestOps_injective _ _ _ _ _ _ h
  refine ⟨hr, ?_⟩
  simp only [List.cons.injEq, and_true] at hads
  have := congrArg UInt8.toNat hads
  simp only [UInt8.toNat_ofNat'] at this
  omega

def skeOps (r1 epoch : Bytes) : List Op :=
  digestOps (Bytes.ofString Params.starDeriveSkeKeyLabel) r1 [epoch]

theorem skeOps_injective (r r' e e' : Bytes) (h : skeOps r e = skeOps r' e') : r = r' ∧ e = e' := by
  obtain ⟨_, hr, hads⟩ := digestOps_injective _ _ _ _ _ _ h
  simp only [List.cons.injEq, and_true] at hads
  exact ⟨hr, hads⟩

end StarModel.Star
