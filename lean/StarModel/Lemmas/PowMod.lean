/-
`Fp.powMod` is modular exponentiation; Lucas/Pratt primality certificates whose modular powers are
evaluated by the kernel (`decide +kernel`) on the structurally recursive `powModFuel`.
-/
import StarModel.Fp
import Mathlib.NumberTheory.LucasPrimality
import Mathlib.Data.ZMod.Basic
import Mathlib.Tactic.NormNum.Prime
import Mathlib.Algebra.BigOperators.Group.List.Basic

namespace StarModel.Fp

theorem powModFuel_eq (f b e m : Nat) (h : e < 2 ^ f) : powModFuel f b e m = b ^ e % m := by
  induction f generalizing b e with
  | zero =>
    have : e = 0 := by omega
    subst this; simp [powModFuel]
  | succ f ih =>
    unfold powModFuel
    by_cases he : e = 0
    · subst he; simp
    · simp only [he, if_false]
      have h2 : e / 2 < 2 ^ f := by
        have : 2 ^ (f + 1) = 2 * 2 ^ f := by ring
        omega
      rw [ih _ _ h2]
      have hsq : (b * b % m) ^ (e / 2) % m = (b * b) ^ (e / 2) % m := by
        rw [Nat.pow_mod, Nat.mod_mod, ← Nat.pow_mod]
      rw [hsq]
      by_cases hodd : e % 2 = 1
      · simp only [hodd, if_true]
        have he2 : e = 2 * (e / 2) + 1 := by omega
        conv_rhs => rw [he2, pow_succ, pow_mul]
        rw [Nat.mul_mod, Nat.mod_mod, ← Nat.mul_mod]
        congr 1
        rw [mul_comm]; congr 1; rw [sq]
      · simp only [hodd, if_false]
        have he2 : e = 2 * (e / 2) := by omega
        conv_rhs => rw [he2, pow_mul]
        rw [sq]

theorem powMod_eq (b e m : Nat) : powMod b e m = b ^ e % m := by
  unfold powMod
  apply powModFuel_eq
  exact Nat.lt_log2_self

theorem cast_pow_eq {n : Nat} (a e : Nat) : ((powMod a e n : Nat) : ZMod n) = (a : ZMod n) ^ e := by
  rw [powMod_eq]; simp

/-- Lucas test from a list of prime factors of `n - 1` with kernel-evaluated modular powers. -/
theorem lucas_of_factors (n a : Nat) (fs : List (Nat × Nat)) (hn : 1 < n)
    (hprod : (fs.map fun qe => qe.1 ^ qe.2).prod = n - 1)
    (hprime : ∀ qe ∈ fs, qe.1.Prime)
    (h1 : powMod a (n - 1) n = 1)
    (hq : ∀ qe ∈ fs, powMod a ((n - 1) / qe.1) n ≠ 1) : n.Prime := by
  apply lucas_primality n (a : ZMod n)
  · rw [← cast_pow_eq, h1]; simp
  · intro q hqp hqd
    rw [← hprod] at hqd
    obtain ⟨x, hx, hdx⟩ := (Prime.dvd_prod_iff hqp.prime).mp hqd
    obtain ⟨qe, hqe, rfl⟩ := List.mem_map.mp hx
    have hqeq : q = qe.1 := (Nat.prime_dvd_prime_iff_eq hqp (hprime qe hqe)).mp (hqp.dvd_of_dvd_pow hdx)
    subst hqeq
    rw [← cast_pow_eq]
    intro hc
    have h1n : ((1 : Nat) : ZMod n) = 1 := by simp
    rw [← h1n] at hc
    have := (ZMod.natCast_eq_natCast_iff' _ _ _).mp hc
    have hlt : powMod a ((n - 1) / qe.1) n < n := by rw [powMod_eq]; exact Nat.mod_lt _ (by omega)
    rw [Nat.mod_eq_of_lt hlt, Nat.mod_eq_of_lt hn] at this
    exact hq qe hqe this

end StarModel.Fp
