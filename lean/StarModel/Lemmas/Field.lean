/-
The value-level field operations of the model are the operations of `ZMod p`.
-/
import StarModel.Lemmas.Prime
import Mathlib.FieldTheory.Finite.Basic

namespace StarModel.Fp

theorem p_pos : 0 < p := modulus_prime.pos
theorem p_gt_one : 1 < p := modulus_prime.one_lt

theorem add_lt (a b : Nat) : add a b < p := Nat.mod_lt _ p_pos
theorem sub_lt (a b : Nat) : sub a b < p := Nat.mod_lt _ p_pos
theorem neg_lt (a : Nat) : neg a < p := Nat.mod_lt _ p_pos
theorem double_lt (a : Nat) : double a < p := Nat.mod_lt _ p_pos
theorem mul_lt (a b : Nat) : mul a b < p := Nat.mod_lt _ p_pos
theorem square_lt (a : Nat) : square a < p := Nat.mod_lt _ p_pos
theorem pow_lt (a e : Nat) : pow a e < p := by unfold pow; rw [powMod_eq]; exact Nat.mod_lt _ p_pos

@[simp] theorem cast_p : ((p : Nat) : ZMod p) = 0 := ZMod.natCast_self p

theorem cast_mod (a : Nat) : ((a % p : Nat) : ZMod p) = (a : ZMod p) := by simp

@[simp] theorem add_cast (a b : Nat) : ((add a b : Nat) : ZMod p) = (a : ZMod p) + b := by
  simp [add]

theorem cast_p_sub (b : Nat) : ((p - b % p : Nat) : ZMod p) = -(b : ZMod p) := by
  rw [Nat.cast_sub (Nat.mod_lt b p_pos).le]; simp

@[simp] theorem sub_cast (a b : Nat) : ((sub a b : Nat) : ZMod p) = (a : ZMod p) - b := by
  unfold sub; rw [cast_mod, Nat.cast_add, cast_p_sub]; ring

@[simp] theorem neg_cast (a : Nat) : ((neg a : Nat) : ZMod p) = -(a : ZMod p) := by
  unfold neg; rw [cast_mod, cast_p_sub]

@[simp] theorem double_cast (a : Nat) : ((double a : Nat) : ZMod p) = 2 * (a : ZMod p) := by
  simp [double]; ring

@[simp] theorem mul_cast (a b : Nat) : ((mul a b : Nat) : ZMod p) = (a : ZMod p) * b := by
  simp [mul]

@[simp] theorem square_cast (a : Nat) : ((square a : Nat) : ZMod p) = (a : ZMod p) ^ 2 := by
  simp [square]; ring

@[simp] theorem pow_cast (a e : Nat) : ((pow a e : Nat) : ZMod p) = (a : ZMod p) ^ e := cast_pow_eq a e

/-- two canonical values are equal iff they are equal in `ZMod p` -/
theorem eq_of_cast_eq {a b : Nat} (ha : a < p) (hb : b < p) (h : (a : ZMod p) = b) : a = b := by
  have := (ZMod.natCast_eq_natCast_iff' a b p).mp h
  rwa [Nat.mod_eq_of_lt ha, Nat.mod_eq_of_lt hb] at this

theorem cast_eq_zero_iff (a : Nat) : (a : ZMod p) = 0 ↔ a % p = 0 := by
  rw [ZMod.natCast_eq_zero_iff]; exact Nat.dvd_iff_mod_eq_zero

theorem invert_none_iff (a : Nat) : invert a = none ↔ (a : ZMod p) = 0 := by
  unfold invert; rw [cast_eq_zero_iff]; split <;> simp_all

theorem invert_some (a : Nat) (h : (a : ZMod p) ≠ 0) :
    ∃ r, invert a = some r ∧ r < p ∧ (r : ZMod p) = (a : ZMod p)⁻¹ := by
  have hne : a % p ≠ 0 := fun hc => h ((cast_eq_zero_iff a).mpr hc)
  refine ⟨pow a (p - 2), by simp [invert, hne], pow_lt _ _, ?_⟩
  rw [pow_cast]
  have hf : (a : ZMod p) ^ (p - 1) = 1 := ZMod.pow_card_sub_one_eq_one h
  have : (a : ZMod p) ^ (p - 2) * a = 1 := by
    rw [← pow_succ]; have : p - 2 + 1 = p - 1 := by have := p_gt_one; omega
    rw [this, hf]
  exact eq_inv_of_mul_eq_one_left this

theorem invert_getD_cast (a : Nat) : (((invert a).getD 0 : Nat) : ZMod p) = (a : ZMod p)⁻¹ := by
  by_cases h : (a : ZMod p) = 0
  · rw [(invert_none_iff a).mpr h, h]; simp
  · obtain ⟨r, hr, _, hc⟩ := invert_some a h
    rw [hr]; simpa using hc

theorem p_mod_four : p % 4 = 3 := by decide +kernel

theorem sqrt_sound (a r : Nat) (h : sqrt a = some r) : r < p ∧ (r : ZMod p) ^ 2 = (a : ZMod p) := by
  unfold sqrt at h
  simp only at h
  split at h
  · rename_i hsq
    injection h with h; subst h
    refine ⟨pow_lt _ _, ?_⟩
    have := congrArg (Nat.cast (R := ZMod p)) hsq
    rw [square_cast, cast_mod] at this
    exact this
  · simp at h

theorem sqrt_complete (a : Nat) (h : IsSquare (a : ZMod p)) : (sqrt a).isSome := by
  obtain ⟨b, hb⟩ := h
  unfold sqrt
  simp only
  have hkey : (square (pow a ((p + 1) / 4)) : Nat) = a % p := by
    apply eq_of_cast_eq (square_lt _) (Nat.mod_lt _ p_pos)
    rw [square_cast, pow_cast, cast_mod, hb, ← pow_mul]
    have hk : 0 < (p + 1) / 4 * 2 := by have := p_mod_four; omega
    by_cases hb0 : b = 0
    · subst hb0
      rw [mul_zero, zero_pow hk.ne']
    · have hf : b ^ (p - 1) = 1 := ZMod.pow_card_sub_one_eq_one hb0
      have he : (p + 1) / 4 * 2 = (p - 1) / 2 + 1 := by have := p_mod_four; omega
      have h2 : 2 * ((p - 1) / 2) = p - 1 := by have := p_mod_four; omega
      rw [he, pow_succ, ← sq, ← pow_mul, h2, hf, one_mul]
  simp [hkey]

end StarModel.Fp
