/-
The first duplex block of `send_enc` is a plain XOR with a keystream that depends only on the
state the operation starts from — for every permutation `F`.
-/
import StarModel.Lemmas.Strobe
import StarModel.Star

namespace StarModel.Strobe

theorem duplex_append (F : Perm) (m : Mode) (s : Strobe) (a b : Bytes) :
    duplex F m s (a ++ b) =
      ((duplex F m (duplex F m s a).1 b).1, (duplex F m s a).2 ++ (duplex F m (duplex F m s a).1 b).2) := by
  induction a generalizing s with
  | nil => rfl
  | cons x xs ih => simp only [List.cons_append, duplex]; rw [ih]

/-- XOR of `d` with the state bytes from position `pos` on -/
def xorKs (st : Bytes) : Nat → Bytes → Bytes
  | _, [] => []
  | pos, b :: bs => (st.getD pos 0 ^^^ b) :: xorKs st (pos + 1) bs

theorem getD_set_ne (l : Bytes) (i j : Nat) (v : UInt8) (h : i ≠ j) : (l.set i v).getD j 0 = l.getD j 0 := by
  simp only [List.getD_eq_getElem?_getD]
  rw [List.getElem?_set_ne h]

theorem xorKs_set_lt (st : Bytes) (i pos : Nat) (v : UInt8) (d : Bytes) (h : i < pos) :
    xorKs (st.set i v) pos d = xorKs st pos d := by
  induction d generalizing pos with
  | nil => rfl
  | cons b bs ih =>
    simp only [xorKs]
    rw [getD_set_ne _ _ _ _ (by omega), ih (pos + 1) (by omega)]

/-- inside the current block `absorb_and_set` outputs `state ⊕ data` -/
theorem duplex_absorbAndSet_block (F : Perm) (s : Strobe) (d : Bytes) (h : s.pos + d.length ≤ rate) :
    (duplex F mAbsorbAndSet s d).2 = xorKs s.st s.pos d := by
  induction d generalizing s with
  | nil => rfl
  | cons b bs ih =>
    simp only [duplex, xorKs]
    have hout : (stepByte F mAbsorbAndSet s b).2 = s.st.getD s.pos 0 ^^^ b := rfl
    rw [hout]
    congr 1
    cases bs with
    | nil => rfl
    | cons b2 bs2 =>
      have hlt : s.pos + 1 ≠ rate := by simp only [List.length_cons] at h; omega
      have hstep : (stepByte F mAbsorbAndSet s b).1 =
          { s with st := s.st.set s.pos (s.st.getD s.pos 0 ^^^ b), pos := s.pos + 1 } := by
        unfold stepByte mAbsorbAndSet
        simp only [hlt, if_false]
      rw [hstep, ih _ (by show s.pos + 1 + (b2 :: bs2).length ≤ rate; simp only [List.length_cons] at h ⊢; omega)]
      exact xorKs_set_lt _ _ _ _ _ (by show s.pos < s.pos + 1; omega)

theorem xorKs_xor (st : Bytes) (pos : Nat) (d1 d2 : Bytes) :
    Bytes.xor (xorKs st pos d1) (xorKs st pos d2) = Bytes.xor d1 d2 := by
  induction d1 generalizing pos d2 with
  | nil => simp [xorKs, Bytes.xor]
  | cons a as ih =>
    cases d2 with
    | nil => simp [xorKs, Bytes.xor]
    | cons b bs =>
      simp only [xorKs, Bytes.xor, List.zipWith_cons_cons, List.cons.injEq]
      refine ⟨?_, ih (pos + 1) bs⟩
      rw [UInt8.xor_comm (st.getD pos 0) a, UInt8.xor_assoc,
        ← UInt8.xor_assoc (st.getD pos 0) (st.getD pos 0) b, UInt8.xor_self, UInt8.zero_xor]

theorem beginOp_force_pos (F : Perm) (s : Strobe) (fl : UInt8) : (beginOp F s fl true).pos = 0 := by
  unfold beginOp
  simp only [Bool.true_and]
  split
  · rfl
  · rename_i h; simpa using h

/-- the first `rate` bytes of what `send_enc` emits are `data ⊕ ks` for the state at the start of
the data phase -/
theorem sendEnc_first_block (F : Perm) (s : Strobe) (d : Bytes) :
    (sendEnc F s d).2.take rate =
      xorKs (beginOp F (tFlag s false 0x0E).1 (tFlag s false 0x0E).2 true).st 0 (d.take rate) := by
  unfold sendEnc operate
  simp only
  generalize hs0 : beginOp F (tFlag s false 0x0E).1 (tFlag s false 0x0E).2 true = s0
  have hpos : s0.pos = 0 := by rw [← hs0]; exact beginOp_force_pos F _ _
  rw [show duplex F mAbsorbAndSet s0 d = duplex F mAbsorbAndSet s0 (d.take rate ++ d.drop rate) from by
    rw [List.take_append_drop], duplex_append]
  simp only
  have hlen : (duplex F mAbsorbAndSet s0 (d.take rate)).2.length = (d.take rate).length := duplex_length F _ _ _
  have hblock := duplex_absorbAndSet_block F s0 (d.take rate) (by rw [hpos, List.length_take]; omega)
  rw [hpos] at hblock
  by_cases hd : rate ≤ d.length
  · rw [List.take_append_of_le_length (by rw [hlen, List.length_take]; omega)]
    rw [List.take_of_length_le (by rw [hlen, List.length_take]; omega), hblock]
  · have hdrop : d.drop rate = [] := List.drop_of_length_le (by omega)
    rw [hdrop]
    simp only [duplex, List.append_nil]
    rw [List.take_of_length_le (by rw [hlen, List.length_take]; omega), hblock]

/-! ### beyond the first block: payloads with a common prefix of whole blocks -/

/-- the position after a duplex call: bytes are counted modulo the rate (`run_f` resets it) -/
theorem duplex_pos (F : Perm) (m : Mode) (s : Strobe) (d : Bytes) (hs : s.pos < rate) :
    (duplex F m s d).1.pos = (s.pos + d.length) % rate := by
  induction d generalizing s with
  | nil => simp only [duplex, List.length_nil, Nat.add_zero]; exact (Nat.mod_eq_of_lt hs).symm
  | cons b bs ih =>
    simp only [duplex, List.length_cons]
    have hstep : (stepByte F m s b).1.pos = (s.pos + 1) % rate ∧ (stepByte F m s b).1.pos < rate := by
      unfold stepByte
      simp only
      by_cases h : s.pos + 1 = rate
      · rw [if_pos h]
        refine ⟨?_, (by show 0 < rate; decide)⟩
        show 0 = _
        rw [h, Nat.mod_self]
      · rw [if_neg h]
        have : s.pos + 1 < rate := by omega
        exact ⟨(Nat.mod_eq_of_lt this).symm, this⟩
    rw [ih _ hstep.2, hstep.1]
    rw [Nat.mod_add_mod]
    congr 1
    omega

/-- a block that starts at position 0 is `data ⊕ state` on its first `rate` bytes -/
theorem duplex_first_block (F : Perm) (s0 : Strobe) (hpos : s0.pos = 0) (d : Bytes) :
    (duplex F mAbsorbAndSet s0 d).2.take rate = xorKs s0.st 0 (d.take rate) := by
  rw [show duplex F mAbsorbAndSet s0 d = duplex F mAbsorbAndSet s0 (d.take rate ++ d.drop rate) from by
    rw [List.take_append_drop], duplex_append]
  simp only
  have hlen : (duplex F mAbsorbAndSet s0 (d.take rate)).2.length = (d.take rate).length := duplex_length F _ _ _
  have hblock := duplex_absorbAndSet_block F s0 (d.take rate) (by rw [hpos, List.length_take]; omega)
  rw [hpos] at hblock
  by_cases hd : rate ≤ d.length
  · rw [List.take_append_of_le_length (by rw [hlen, List.length_take]; omega)]
    rw [List.take_of_length_le (by rw [hlen, List.length_take]; omega), hblock]
  · have hdrop : d.drop rate = [] := List.drop_of_length_le (by omega)
    rw [hdrop]
    simp only [duplex, List.append_nil]
    rw [List.take_of_length_le (by rw [hlen, List.length_take]; omega), hblock]

/-- **`send_enc` after a common prefix of whole blocks.** If two plaintexts agree on their first
`c.length` bytes and `c.length` is a multiple of the rate, the two ciphertexts agree on those bytes,
and on the NEXT block each is `plaintext ⊕ ks` for one and the same keystream `ks` (the state after
the common prefix) - for every permutation `F`. -/
theorem sendEnc_common_prefix (F : Perm) (s : Strobe) (c d1 d2 : Bytes) (hc : c.length % rate = 0) :
    (sendEnc F s (c ++ d1)).2.take c.length = (sendEnc F s (c ++ d2)).2.take c.length ∧
    ∃ ks : Bytes,
      ((sendEnc F s (c ++ d1)).2.drop c.length).take rate = xorKs ks 0 (d1.take rate) ∧
      ((sendEnc F s (c ++ d2)).2.drop c.length).take rate = xorKs ks 0 (d2.take rate) := by
  unfold sendEnc operate
  simp only
  generalize hs0 : beginOp F (tFlag s false 0x0E).1 (tFlag s false 0x0E).2 true = s0
  have hpos : s0.pos = 0 := by rw [← hs0]; exact beginOp_force_pos F _ _
  have hlen : (duplex F mAbsorbAndSet s0 c).2.length = c.length := duplex_length F _ _ _
  have hpos' : (duplex F mAbsorbAndSet s0 c).1.pos = 0 := by
    rw [duplex_pos F _ _ _ (by rw [hpos]; decide), hpos, Nat.zero_add, hc]
  rw [duplex_append, duplex_append]
  simp only
  refine ⟨?_, (duplex F mAbsorbAndSet s0 c).1.st, ?_, ?_⟩
  · rw [List.take_append_of_le_length (by omega), List.take_append_of_le_length (by omega)]
  · rw [← hlen, List.drop_left]
    exact duplex_first_block F _ hpos' d1
  · rw [← hlen, List.drop_left]
    exact duplex_first_block F _ hpos' d2

end StarModel.Strobe
