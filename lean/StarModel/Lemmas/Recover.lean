/-
`Sharks::recover` / `interpolate` on collections of points of dealt polynomials.
-/
import StarModel.Lemmas.Shamir
import StarModel.Lemmas.Wire

open Polynomial

namespace StarModel.Sharks
open StarModel

@[simp] theorem evaluate_x (polys : List (List Nat)) (x : Nat) : (evaluate polys x).x = x := rfl
@[simp] theorem evaluate_y_length (polys : List (List Nat)) (x : Nat) :
    (evaluate polys x).y.length = polys.length := by simp [evaluate]

/-- first occurrences of `xs` not already in `seen` (what the `BTreeSet` insertion keeps) -/
def firstsAux : List Nat → List Nat → List Nat
  | _, [] => []
  | seen, x :: xs => if seen.contains x then firstsAux seen xs else x :: firstsAux (x :: seen) xs

def firsts (xs : List Nat) : List Nat := firstsAux [] xs

theorem mem_firstsAux (seen xs : List Nat) (a : Nat) : a ∈ firstsAux seen xs ↔ a ∈ xs ∧ a ∉ seen := by
  induction xs generalizing seen with
  | nil => simp [firstsAux]
  | cons x xs ih =>
    unfold firstsAux
    cases h : seen.contains x with
    | true =>
      simp only [if_true, ih]
      have hx : x ∈ seen := by simpa using h
      constructor
      · rintro ⟨h1, h2⟩; exact ⟨List.mem_cons_of_mem _ h1, h2⟩
      · rintro ⟨h1, h2⟩
        rcases List.mem_cons.mp h1 with rfl | h1
        · exact absurd hx h2
        · exact ⟨h1, h2⟩
    | false =>
      have hx : x ∉ seen := by
        intro hc
        have : seen.contains x = true := by simpa using hc
        rw [h] at this; cases this
      simp only [Bool.false_eq_true, if_false, List.mem_cons, ih]
      constructor
      · rintro (rfl | ⟨h1, h2⟩)
        · exact ⟨Or.inl rfl, hx⟩
        · exact ⟨Or.inr h1, fun hc => h2 (Or.inr hc)⟩
      · rintro ⟨h1 | h1, h2⟩
        · exact Or.inl h1
        · by_cases hax : a = x
          · exact Or.inl hax
          · refine Or.inr ⟨h1, ?_⟩
            rintro (hc | hc)
            · exact hax hc
            · exact h2 hc

theorem firstsAux_nodup (seen xs : List Nat) : (firstsAux seen xs).Nodup := by
  induction xs generalizing seen with
  | nil => simp [firstsAux]
  | cons x xs ih =>
    unfold firstsAux
    cases h : seen.contains x with
    | true => simp only [if_true]; exact ih seen
    | false =>
      simp only [Bool.false_eq_true, if_false]
      refine List.nodup_cons.mpr ⟨?_, ih _⟩
      rw [mem_firstsAux]; simp

theorem firsts_nodup (xs : List Nat) : (firsts xs).Nodup := firstsAux_nodup [] xs
theorem mem_firsts (xs : List Nat) (a : Nat) : a ∈ firsts xs ↔ a ∈ xs := by
  unfold firsts; rw [mem_firstsAux]; simp

theorem firsts_length (xs : List Nat) : (firsts xs).length = xs.toFinset.card := by
  rw [← List.toFinset_card_of_nodup (firsts_nodup xs)]
  congr 1; ext a; simp [mem_firsts]

/-- the loop of `recover` on points of one dealing: it keeps the first occurrence of each x -/
theorem collect_evaluate (polys : List (List Nat)) (xs keys : List Nat) (acc : List Share) :
    collect polys.length (xs.map (evaluate polys)) keys acc =
      some (acc.reverse ++ (firstsAux keys xs).map (evaluate polys)) := by
  induction xs generalizing keys acc with
  | nil => simp [collect, firstsAux]
  | cons x xs ih =>
    simp only [List.map_cons, collect, evaluate_y_length, ne_eq, not_true_eq_false, if_false]
    unfold firstsAux
    by_cases h : keys.contains x = true
    · have h' : keys.contains (evaluate polys x).x = true := h
      rw [if_pos h', if_pos h]; exact ih keys acc
    · have h' : ¬ keys.contains (evaluate polys x).x = true := h
      rw [if_neg h', if_neg h, ih]; simp

theorem collect_none_of_mismatch (len : Nat) (shares : List Share) (keys : List Nat) (acc : List Share)
    (h : ∃ s ∈ shares, s.y.length ≠ len) : collect len shares keys acc = none := by
  induction shares generalizing keys acc with
  | nil => obtain ⟨s, hs, _⟩ := h; cases hs
  | cons s rest ih =>
    unfold collect
    by_cases hl : s.y.length ≠ len
    · simp [hl]
    · simp only [hl, if_false]
      have h' : ∃ s' ∈ rest, s'.y.length ≠ len := by
        obtain ⟨s', hs', hne⟩ := h
        rcases List.mem_cons.mp hs' with rfl | hs'
        · exact absurd hne hl
        · exact ⟨s', hs', hne⟩
      split <;> exact ih _ _ h'

theorem collect_some_lengths (len : Nat) (shares : List Share) (keys : List Nat) (acc vals : List Share)
    (hacc : ∀ s ∈ acc, s.y.length = len) (h : collect len shares keys acc = some vals) :
    ∀ s ∈ vals, s.y.length = len := by
  induction shares generalizing keys acc with
  | nil =>
    unfold collect at h; injection h with h; subst h
    intro s hs; exact hacc s (List.mem_reverse.mp hs)
  | cons s rest ih =>
    unfold collect at h
    by_cases hl : s.y.length ≠ len
    · simp [hl] at h
    · simp only [hl, if_false] at h
      split at h
      · exact ih _ _ hacc h
      · exact ih _ _ (by
          intro s' hs'
          rcases List.mem_cons.mp hs' with rfl | hs'
          · exact not_not.mp hl
          · exact hacc s' hs') h

/-- `recover` never reaches the out-of-bounds index of `interpolate`: all kept shares have one length -/
theorem recover_not_panic (t : Nat) (shares : List Share) (w : String) : recover t shares ≠ .panic w := by
  unfold recover
  cases shares with
  | nil => simp
  | cons s0 rest =>
    simp only
    cases hc : collect s0.y.length (s0 :: rest) [] [] with
    | none => simp
    | some vals =>
      simp only
      split
      · simp
      · have hlen := collect_some_lengths _ _ _ _ _ (by intro s hs; cases hs) hc
        unfold interpolate
        cases htk : vals.take t with
        | nil => simp
        | cons v0 vs =>
          simp only
          have hall : (v0 :: vs).all (fun s => decide (v0.y.length ≤ s.y.length)) = true := by
            rw [List.all_eq_true]
            intro s hs
            have hs' : s ∈ vals := List.mem_of_mem_take (htk ▸ hs)
            have hv0 : v0 ∈ vals := List.mem_of_mem_take (htk ▸ List.mem_cons_self)
            simp [hlen s hs', hlen v0 hv0]
          simp [hall]

/-- cast of the weight product -/
theorem weight_cast (ds : List Nat) (polys : List (List Nat)) (xi : Nat) :
    ((weight (ds.map (evaluate polys)) xi : Nat) : K) =
      ((ds.filter (· ≠ xi)).map fun (xj : Nat) => (xj : K) * ((xj : K) - (xi : K))⁻¹).prod := by
  unfold weight
  have hfilter : (ds.map (evaluate polys)).filter (fun sj => decide (sj.x ≠ xi)) =
      (ds.filter (· ≠ xi)).map (evaluate polys) := by
    rw [List.filter_map]; rfl
  rw [hfilter]
  generalize ds.filter (· ≠ xi) = l
  have : ∀ (acc : Nat) (accK : K), (acc : K) = accK →
      ((List.foldl (fun acc sj => Fp.mul acc (Fp.mul sj.x ((Fp.invert (Fp.sub sj.x xi)).getD 0))) acc
        (l.map (evaluate polys)) : Nat) : K) =
      accK * (l.map fun (xj : Nat) => (xj : K) * ((xj : K) - (xi : K))⁻¹).prod := by
    induction l with
    | nil => intro acc accK h; simpa using h
    | cons a l ih =>
      intro acc accK h
      simp only [List.map_cons, List.foldl_cons, List.prod_cons, evaluate_x]
      rw [ih _ (accK * ((a : K) * ((a : K) - (xi : K))⁻¹))]
      · ring
      · rw [Fp.mul_cast, Fp.mul_cast, Fp.invert_getD_cast, Fp.sub_cast, h]
  simpa using this 1 1 (by simp)

/-- the inner sum of `interpolate` for secret element `k`, cast to `ZMod p` -/
theorem interp_sum_cast (ds : List Nat) (polys : List (List Nat)) (k : Nat) (hk : k < polys.length) :
    (((ds.map (evaluate polys)).foldl (fun acc si =>
        Fp.add acc (Fp.mul (weight (ds.map (evaluate polys)) si.x) (si.y.getD k 0))) 0 : Nat) : K) =
      (ds.map fun (xi : Nat) =>
        ((ds.filter (· ≠ xi)).map fun (xj : Nat) => (xj : K) * ((xj : K) - (xi : K))⁻¹).prod *
          (polyOf (polys.getD k [])).eval (xi : K)).sum := by
  generalize hW : (fun xi => weight (ds.map (evaluate polys)) xi) = W
  have hWc : ∀ xi, ((W xi : Nat) : K) =
      ((ds.filter (· ≠ xi)).map fun (xj : Nat) => (xj : K) * ((xj : K) - (xi : K))⁻¹).prod := by
    intro xi; rw [← hW]; exact weight_cast ds polys xi
  have hfold : ∀ (l : List Nat) (acc : Nat) (accK : K), (acc : K) = accK →
      (((l.map (evaluate polys)).foldl (fun acc si =>
        Fp.add acc (Fp.mul (W si.x) (si.y.getD k 0))) acc : Nat) : K) =
      accK + (l.map fun (xi : Nat) =>
        ((ds.filter (· ≠ xi)).map fun (xj : Nat) => (xj : K) * ((xj : K) - (xi : K))⁻¹).prod *
          (polyOf (polys.getD k [])).eval (xi : K)).sum := by
    intro l
    induction l with
    | nil => intro acc accK h; simpa using h
    | cons a l ih =>
      intro acc accK h
      simp only [List.map_cons, List.foldl_cons, List.sum_cons, evaluate_x]
      rw [ih _ (accK + ((ds.filter (· ≠ a)).map fun (xj : Nat) => (xj : K) * ((xj : K) - (a : K))⁻¹).prod *
          (polyOf (polys.getD k [])).eval (a : K))]
      · ring
      · rw [Fp.add_cast, Fp.mul_cast, hWc, h]
        congr 2
        have : (evaluate polys a).y.getD k 0 = evalPoly (polys.getD k []) a := by
          simp [evaluate, List.getD_eq_getElem?_getD, List.getElem?_map, hk]
        rw [this, evalPoly_cast]
  have := hfold ds 0 0 (by simp)
  rw [zero_add] at this
  rw [← hW] at this
  exact this

/-- a dealt polynomial list: every polynomial has exactly `t` coefficients (degree ≤ t-1) and a
canonical constant term -/
def Dealt (t : Nat) (polys : List (List Nat)) : Prop :=
  ∀ poly ∈ polys, poly.length = t ∧ ∃ cs s, poly = cs ++ [s] ∧ s < Fp.p

/-- the secret bytes a dealing encodes: the canonical encodings of the constant terms -/
def secretOf (polys : List (List Nat)) : Bytes :=
  (polys.map fun poly => Fp.toRepr (poly.getLastD 0)).flatten

/-- **interpolation of `t` distinct points of a dealing returns the secret** -/
theorem interpolate_evaluate (t : Nat) (ht : 1 ≤ t) (polys : List (List Nat)) (hp : Dealt t polys)
    (ds : List Nat) (hnd : ds.Nodup) (hlt : ∀ x ∈ ds, x < Fp.p) (hlen : ds.length = t) :
    interpolate (ds.map (evaluate polys)) = .ok (secretOf polys) := by
  unfold interpolate
  cases hds : ds with
  | nil => rw [hds] at hlen; simp at hlen; omega
  | cons d0 dr =>
    rw [← hds]
    have hmap : ds.map (evaluate polys) = evaluate polys d0 :: dr.map (evaluate polys) := by rw [hds]; rfl
    rw [hmap]
    simp only
    rw [← hmap]
    have hall : (ds.map (evaluate polys)).all
        (fun s => decide (polys.length ≤ s.y.length)) = true := by
      rw [List.all_eq_true]; intro s hs
      obtain ⟨x, _, rfl⟩ := List.mem_map.mp hs; simp
    simp only [evaluate_y_length]
    rw [if_pos hall]
    congr 1
    unfold secretOf
    congr 1
    apply List.ext_getElem
    · simp
    · intro k h1 h2
      simp only [List.getElem_map, List.getElem_range]
      have hk : k < polys.length := by simpa using h1
      congr 1
      obtain ⟨hpl, cs, s, hcs, hs⟩ := hp (polys[k]) (List.getElem_mem hk)
      have hgd : polys.getD k [] = polys[k] := by simp [List.getD_eq_getElem?_getD, hk]
      have hlast : (polys[k]).getLastD 0 = s := by rw [hcs]; simp
      rw [hlast]
      have hne : ds.map (evaluate polys) ≠ [] := by rw [hmap]; simp
      apply Fp.eq_of_cast_eq _ hs
      · rw [interp_sum_cast ds polys k hk, hgd]
        rw [← lagrange_zero ds hnd hlt (polyOf polys[k]) (by
          have := polyOf_degree_lt polys[k]; rw [hpl, ← hlen] at this; exact this)]
        rw [hcs, polyOf_eval_zero]
      · -- the fold over a non-empty list ends with `Fp.add`, hence is canonical
        rcases List.eq_nil_or_concat (ds.map (evaluate polys)) with h | ⟨l, a, h⟩
        · exact absurd h hne
        · rw [h, List.concat_eq_append, List.foldl_append]; exact Fp.add_lt _ _

/-- **`Sharks(t).recover` on any collection of points of one dealing** (any order, duplicates,
surplus): succeeds with the secret iff at least `t` distinct points are present. -/
theorem recover_evaluate (t : Nat) (ht : 1 ≤ t) (polys : List (List Nat)) (hp : Dealt t polys)
    (xs : List Nat) (hlt : ∀ x ∈ xs, x < Fp.p) :
    recover t (xs.map (evaluate polys)) =
      if t ≤ xs.toFinset.card then .ok (secretOf polys) else .err "few" := by
  unfold recover
  cases hxs : xs with
  | nil => simp; omega
  | cons x0 xr =>
    rw [← hxs]
    have hmap : xs.map (evaluate polys) = evaluate polys x0 :: xr.map (evaluate polys) := by rw [hxs]; rfl
    rw [hmap]
    simp only
    rw [← hmap, evaluate_y_length, collect_evaluate]
    simp only [List.reverse_nil, List.nil_append, List.length_map]
    have hfl : (firstsAux [] xs).length = xs.toFinset.card := firsts_length xs
    rw [hfl]
    by_cases hc : t ≤ xs.toFinset.card
    · have hnlt : ¬ xs.toFinset.card < t := by omega
      simp only [hnlt, hc, if_false, if_true]
      rw [← List.map_take]
      apply interpolate_evaluate t ht polys hp
      · exact (firsts_nodup xs).sublist (List.take_sublist _ _)
      · intro x hx; exact hlt x ((mem_firsts xs x).mp (List.mem_of_mem_take hx))
      · rw [List.length_take, hfl]; omega
    · have hlt' : xs.toFinset.card < t := by omega
      simp [hlt', hc]

theorem recover_ragged (t : Nat) (s0 : Share) (rest : List Share)
    (h : ∃ s ∈ rest, s.y.length ≠ s0.y.length) : recover t (s0 :: rest) = .err "length" := by
  unfold recover
  simp only
  rw [collect_none_of_mismatch _ _ _ _ (by
    obtain ⟨s, hs, hne⟩ := h; exact ⟨s, List.mem_cons_of_mem _ hs, hne⟩)]

theorem recover_threshold_zero (shares : List Share) : ∃ k, recover 0 shares = .err k := by
  unfold recover
  cases shares with
  | nil => exact ⟨_, rfl⟩
  | cons s0 rest =>
    simp only
    cases collect s0.y.length (s0 :: rest) [] [] with
    | none => exact ⟨_, rfl⟩
    | some vals => simp [interpolate]

end StarModel.Sharks

namespace StarModel.Sharks
open StarModel

/-- on ARBITRARY shares: what the loop keeps are the first occurrences of each x -/
theorem collect_xs (len : Nat) (shares : List Share) (keys : List Nat) (acc vals : List Share)
    (h : collect len shares keys acc = some vals) :
    vals.map (·.x) = acc.reverse.map (·.x) ++ firstsAux keys (shares.map (·.x)) := by
  induction shares generalizing keys acc with
  | nil =>
    unfold collect at h; injection h with h; subst h; simp [firstsAux]
  | cons s rest ih =>
    unfold collect at h
    by_cases hl : s.y.length ≠ len
    · simp [hl] at h
    · simp only [hl, if_false] at h
      simp only [List.map_cons]
      unfold firstsAux
      by_cases hk : keys.contains s.x = true
      · rw [if_pos hk] at h ⊢; exact ih _ _ h
      · rw [if_neg hk] at h ⊢
        rw [ih _ _ h]; simp

/-- **count gate**: `Sharks(t).recover` succeeds only if `t ≥ 1` and the collection holds at
least `t` distinct points — duplicates never count -/
theorem recover_ok_count (t : Nat) (shares : List Share) (key : Bytes) (h : recover t shares = .ok key) :
    1 ≤ t ∧ t ≤ (shares.map (·.x)).toFinset.card := by
  unfold recover at h
  cases shares with
  | nil => cases h
  | cons s0 rest =>
    simp only at h
    cases hc : collect s0.y.length (s0 :: rest) [] [] with
    | none => rw [hc] at h; cases h
    | some vals =>
      rw [hc] at h
      simp only at h
      by_cases hlt : vals.length < t
      · rw [if_pos hlt] at h; cases h
      · rw [if_neg hlt] at h
        have hx := collect_xs _ _ _ _ _ hc
        simp only [List.reverse_nil, List.map_nil, List.nil_append] at hx
        have hlen : vals.length = ((s0 :: rest).map (·.x)).toFinset.card := by
          rw [← firsts_length, ← List.length_map (f := (·.x)), hx]; rfl
        refine ⟨?_, by omega⟩
        by_contra h0
        have : t = 0 := by omega
        subst this
        simp [interpolate] at h

end StarModel.Sharks
