/-
Pratt certificate for the share-field modulus taken from the Rust source (`Params.modulus`).
Every modular power is evaluated by the kernel; small primes by `norm_num`.
-/
import StarModel.Lemmas.PowMod

namespace StarModel.Fp

theorem prime_83765619188099 : Nat.Prime 83765619188099 := by
  apply lucas_of_factors 83765619188099 2 [(2, 1), (2673793, 1), (15664193, 1)] (by norm_num) (by norm_num)
  · intro qe h
    simp only [List.mem_cons, List.not_mem_nil, or_false] at h
    rcases h with rfl | rfl | rfl <;> norm_num
  · decide +kernel
  · decide +kernel

theorem prime_303232839737309 : Nat.Prime 303232839737309 := by
  apply lucas_of_factors 303232839737309 2 [(2, 2), (13, 1), (61, 1), (257, 1), (997, 1), (373091, 1)]
    (by norm_num) (by norm_num)
  · intro qe h
    simp only [List.mem_cons, List.not_mem_nil, or_false] at h
    rcases h with rfl | rfl | rfl | rfl | rfl | rfl <;> norm_num
  · decide +kernel
  · decide +kernel

theorem prime_q : Nat.Prime 170141183460469231731687303715884111953 := by
  apply lucas_of_factors 170141183460469231731687303715884111953 3
    [(2, 4), (31771, 1), (13177, 1), (83765619188099, 1), (303232839737309, 1)] (by norm_num) (by norm_num)
  · intro qe h
    simp only [List.mem_cons, List.not_mem_nil, or_false] at h
    rcases h with rfl | rfl | rfl | rfl | rfl
    · norm_num
    · norm_num
    · norm_num
    · exact prime_83765619188099
    · exact prime_303232839737309
  · decide +kernel
  · decide +kernel

/-- the factorisation of `p - 1` used by the primality and generator-order proofs -/
def pm1Factors : List (Nat × Nat) := [(2, 1), (170141183460469231731687303715884111953, 1)]

theorem pm1Factors_prod : (pm1Factors.map fun qe => qe.1 ^ qe.2).prod = p - 1 := by decide +kernel

theorem pm1Factors_prime : ∀ qe ∈ pm1Factors, qe.1.Prime := by
  intro qe h
  simp only [pm1Factors, List.mem_cons, List.not_mem_nil, or_false] at h
  rcases h with rfl | rfl
  · norm_num
  · exact prime_q

/-- **The modulus configured in `sharks/src/share_ff.rs` is prime.** -/
theorem modulus_prime : Nat.Prime p := by
  apply lucas_of_factors p 2 pm1Factors (by decide +kernel) pm1Factors_prod pm1Factors_prime
  · decide +kernel
  · decide +kernel

instance : Fact (Nat.Prime p) := ⟨modulus_prime⟩

end StarModel.Fp
