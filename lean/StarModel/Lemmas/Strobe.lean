/-
STROBE duplex lemmas, for EVERY permutation function `F`:
 * every operation commutes with changing the `is_receiver` field, and preserves it;
 * `recv_enc` inverts `send_enc` (sender/receiver mirror relation);
 * `recv_mac` accepts exactly the bytes `send_mac` would emit;
 * output lengths.
Core Lean only.
-/
import StarModel.Strobe

namespace StarModel.Strobe

/-- replace the direction flag -/
def withRecv (s : Strobe) (r : Option Bool) : Strobe := { s with isReceiver := r }

@[simp] theorem withRecv_isReceiver (s : Strobe) (r) : (s.withRecv r).isReceiver = r := rfl
@[simp] theorem withRecv_withRecv (s : Strobe) (r r') : (s.withRecv r).withRecv r' = s.withRecv r' := rfl
@[simp] theorem withRecv_self (s : Strobe) : s.withRecv s.isReceiver = s := rfl

theorem runF_withRecv (F : Perm) (s : Strobe) (r) : runF F (s.withRecv r) = (runF F s).withRecv r := rfl

theorem stepByte_withRecv (F : Perm) (m : Mode) (s : Strobe) (r) (b : UInt8) :
    stepByte F m (s.withRecv r) b = ((stepByte F m s b).1.withRecv r, (stepByte F m s b).2) := by
  unfold stepByte
  simp only [withRecv]
  by_cases h : s.pos + 1 = rate
  · simp only [h, if_true]; rfl
  · simp only [h, if_false]

theorem duplex_withRecv (F : Perm) (m : Mode) (s : Strobe) (r) (d : Bytes) :
    duplex F m (s.withRecv r) d = ((duplex F m s d).1.withRecv r, (duplex F m s d).2) := by
  induction d generalizing s with
  | nil => rfl
  | cons b bs ih =>
    simp only [duplex]
    rw [stepByte_withRecv]
    simp only
    rw [ih]

theorem markBegin_withRecv (s : Strobe) (r) : markBegin (s.withRecv r) = (markBegin s).withRecv r := rfl

theorem beginOp_withRecv (F : Perm) (s : Strobe) (r) (fl : UInt8) (force : Bool) :
    beginOp F (s.withRecv r) fl force = (beginOp F s fl force).withRecv r := by
  unfold beginOp
  simp only
  rw [markBegin_withRecv, duplex_withRecv]
  simp only
  have hp : ∀ x : Strobe, (x.withRecv r).pos = x.pos := fun _ => rfl
  have hb : (s.withRecv r).posBegin = s.posBegin := rfl
  rw [hp, hb]
  split
  · rw [runF_withRecv]
  · rfl

theorem runF_isReceiver (F : Perm) (s : Strobe) : (runF F s).isReceiver = s.isReceiver := rfl

theorem stepByte_isReceiver (F : Perm) (m : Mode) (s : Strobe) (b : UInt8) :
    (stepByte F m s b).1.isReceiver = s.isReceiver := by
  unfold stepByte; simp only; split <;> rfl

theorem duplex_isReceiver (F : Perm) (m : Mode) (s : Strobe) (d : Bytes) :
    (duplex F m s d).1.isReceiver = s.isReceiver := by
  induction d generalizing s with
  | nil => rfl
  | cons b bs ih => simp only [duplex]; rw [ih, stepByte_isReceiver]

theorem beginOp_isReceiver (F : Perm) (s : Strobe) (fl : UInt8) (force : Bool) :
    (beginOp F s fl force).isReceiver = s.isReceiver := by
  unfold beginOp; simp only
  split
  · rw [runF_isReceiver, duplex_isReceiver]; rfl
  · rw [duplex_isReceiver]; rfl

theorem duplex_length (F : Perm) (m : Mode) (s : Strobe) (d : Bytes) : (duplex F m s d).2.length = d.length := by
  induction d generalizing s with
  | nil => rfl
  | cons b bs ih => simp only [duplex, List.length_cons]; rw [ih]

/-- decrypting with `exchange` what `absorb_and_set` produced, from equal states, gives back the
plaintext and equal states -/
theorem duplex_exchange_absorbAndSet (F : Perm) (s : Strobe) (d : Bytes) :
    duplex F mExchange s (duplex F mAbsorbAndSet s d).2 = ((duplex F mAbsorbAndSet s d).1, d) := by
  induction d generalizing s with
  | nil => rfl
  | cons b bs ih =>
    simp only [duplex]
    have hstep : stepByte F mExchange s (stepByte F mAbsorbAndSet s b).2 =
        ((stepByte F mAbsorbAndSet s b).1, b) := by
      unfold stepByte mExchange mAbsorbAndSet
      simp only
      have hx : (s.st.getD s.pos 0 ^^^ b) ^^^ s.st.getD s.pos 0 = b := by
        rw [UInt8.xor_comm (s.st.getD s.pos 0) b, UInt8.xor_assoc, UInt8.xor_self, UInt8.xor_zero]
      rw [hx]
    rw [hstep]
    simp only
    rw [ih]

/-- the transport flag absorbed by the first/subsequent `send_*` of a sender equals the one absorbed
by the matching `recv_*` of a receiver -/
theorem tFlag_mirror (s : Strobe) (base : UInt8)
    (h : s.isReceiver = none ∨ s.isReceiver = some false) :
    tFlag s false base = (s.withRecv (some false), base) ∧
    (∀ r', (r' = none ∧ s.isReceiver = none) ∨ (r' = some true) →
      tFlag (s.withRecv r') true base = (s.withRecv (some true), base)) := by
  constructor
  · unfold tFlag; rcases h with h | h <;> simp [h, withRecv]
  · intro r' hr'
    unfold tFlag
    rcases hr' with ⟨rfl, _⟩ | rfl <;> simp [withRecv]

/-- sender and receiver are "mirrors": same duplex state, directions unset on both sides or
sender/receiver respectively -/
def Mirror (s s' : Strobe) : Prop :=
  (s.isReceiver = none ∧ s' = s) ∨ (s.isReceiver = some false ∧ s' = s.withRecv (some true))

theorem Mirror.refl_of_none (s : Strobe) (h : s.isReceiver = none) : Mirror s s := Or.inl ⟨h, rfl⟩

/-- **`recv_enc` inverts `send_enc`**, and the two parties stay mirrors -/
theorem recvEnc_sendEnc (F : Perm) (s s' : Strobe) (h : Mirror s s') (d : Bytes) :
    (recvEnc F s' (sendEnc F s d).2).2 = d ∧ Mirror (sendEnc F s d).1 (recvEnc F s' (sendEnc F s d).2).1 := by
  have hs : s.isReceiver = none ∨ s.isReceiver = some false := by
    rcases h with ⟨h, _⟩ | ⟨h, _⟩
    · exact Or.inl h
    · exact Or.inr h
  obtain ⟨h1, h2⟩ := tFlag_mirror s 0x0E hs
  have hs' : tFlag s' true 0x0E = (s.withRecv (some true), 0x0E) := by
    rcases h with ⟨hn, rfl⟩ | ⟨hf, rfl⟩
    · have := h2 none (Or.inl ⟨rfl, hn⟩)
      rw [← hn] at this
      simpa using this
    · exact h2 (some true) (Or.inr rfl)
  unfold sendEnc recvEnc operate
  simp only
  rw [h1, hs']
  simp only
  rw [show s.withRecv (some true) = (s.withRecv (some false)).withRecv (some true) from rfl,
    beginOp_withRecv, duplex_withRecv]
  simp only
  rw [duplex_exchange_absorbAndSet]
  refine ⟨rfl, Or.inr ⟨?_, rfl⟩⟩
  rw [duplex_isReceiver, beginOp_isReceiver]; rfl

theorem getD_set_self (l : Bytes) (i : Nat) : l.set i (l.getD i 0) = l := by
  induction l generalizing i with
  | nil => rfl
  | cons a l ih =>
    cases i with
    | zero => rfl
    | succ i => simp only [List.set_cons_succ, List.getD_cons_succ]; rw [ih]

/-- `exchange` on a candidate MAC yields all zeros exactly when the candidate equals what
`copy_state` emits from the same state -/
theorem duplex_exchange_zero_iff (F : Perm) (s : Strobe) (mac : Bytes) :
    ((duplex F mExchange s mac).2.all (· == 0)) = true ↔
      mac = (duplex F mCopyState s (Bytes.zeros mac.length)).2 := by
  induction mac generalizing s with
  | nil => simp [duplex, Bytes.zeros]
  | cons b bs ih =>
    simp only [duplex, List.length_cons, Bytes.zeros, List.replicate_succ, List.all_cons, Bool.and_eq_true,
      beq_iff_eq, List.cons.injEq]
    have hout : (stepByte F mExchange s b).2 = b ^^^ s.st.getD s.pos 0 := rfl
    have hcopy : (stepByte F mCopyState s 0).2 = s.st.getD s.pos 0 := rfl
    rw [hout, hcopy]
    have hxz : b ^^^ s.st.getD s.pos 0 = 0 ↔ b = s.st.getD s.pos 0 := by
      constructor
      · intro h
        have := congrArg (· ^^^ s.st.getD s.pos 0) h
        simp only [UInt8.xor_assoc, UInt8.xor_self, UInt8.xor_zero, UInt8.zero_xor] at this
        exact this
      · intro h; rw [h, UInt8.xor_self]
    rw [hxz]
    constructor
    · rintro ⟨hb, hrest⟩
      refine ⟨hb, ?_⟩
      have hst : (stepByte F mExchange s b).1 = (stepByte F mCopyState s 0).1 := by
        unfold stepByte mExchange mCopyState
        simp only
        rw [hb, getD_set_self]
      rw [hst] at hrest
      exact (ih _).mp hrest
    · rintro ⟨hb, hrest⟩
      refine ⟨hb, ?_⟩
      have hst : (stepByte F mExchange s b).1 = (stepByte F mCopyState s 0).1 := by
        unfold stepByte mExchange mCopyState
        simp only
        rw [hb, getD_set_self]
      rw [hst]
      exact (ih _).mpr hrest

/-- **`recv_mac` accepts exactly the MAC `send_mac` emits** from a mirrored state -/
theorem recvMac_iff (F : Perm) (s s' : Strobe) (h : Mirror s s') (mac : Bytes) :
    (recvMac F s' mac).2 = true ↔ mac = (sendMac F s mac.length).2 := by
  have hs : s.isReceiver = none ∨ s.isReceiver = some false := by
    rcases h with ⟨h, _⟩ | ⟨h, _⟩
    · exact Or.inl h
    · exact Or.inr h
  obtain ⟨h1, h2⟩ := tFlag_mirror s 0x0C hs
  have hs' : tFlag s' true 0x0C = (s.withRecv (some true), 0x0C) := by
    rcases h with ⟨hn, rfl⟩ | ⟨hf, rfl⟩
    · have := h2 none (Or.inl ⟨rfl, hn⟩)
      rw [← hn] at this
      simpa using this
    · exact h2 (some true) (Or.inr rfl)
  unfold recvMac sendMac operate
  simp only
  rw [h1, hs']
  simp only
  rw [show s.withRecv (some true) = (s.withRecv (some false)).withRecv (some true) from rfl,
    beginOp_withRecv, duplex_withRecv]
  simp only
  exact duplex_exchange_zero_iff F _ mac

/-- when the candidate MAC is the right one, `exchange` leaves the state `copy_state` leaves -/
theorem duplex_exchange_state (F : Perm) (s : Strobe) (mac : Bytes)
    (h : mac = (duplex F mCopyState s (Bytes.zeros mac.length)).2) :
    (duplex F mExchange s mac).1 = (duplex F mCopyState s (Bytes.zeros mac.length)).1 := by
  induction mac generalizing s with
  | nil => rfl
  | cons b bs ih =>
    simp only [duplex, List.length_cons, Bytes.zeros, List.replicate_succ, List.cons.injEq] at h ⊢
    have hcopy : (stepByte F mCopyState s 0).2 = s.st.getD s.pos 0 := rfl
    rw [hcopy] at h
    have hst : (stepByte F mExchange s b).1 = (stepByte F mCopyState s 0).1 := by
      unfold stepByte mExchange mCopyState
      simp only
      rw [h.1, getD_set_self]
    rw [hst]
    exact ih _ (by rw [← hst]; rw [hst]; exact h.2)

/-- after a successful `recv_mac` the receiver's state mirrors the sender's state after `send_mac` -/
theorem recvMac_state (F : Perm) (s s' : Strobe) (h : Mirror s s') (mac : Bytes)
    (hv : (recvMac F s' mac).2 = true) :
    (recvMac F s' mac).1 = (sendMac F s mac.length).1.withRecv (some true) := by
  have hmac := (recvMac_iff F s s' h mac).mp hv
  have hs : s.isReceiver = none ∨ s.isReceiver = some false := by
    rcases h with ⟨h, _⟩ | ⟨h, _⟩
    · exact Or.inl h
    · exact Or.inr h
  obtain ⟨h1, h2⟩ := tFlag_mirror s 0x0C hs
  have hs' : tFlag s' true 0x0C = (s.withRecv (some true), 0x0C) := by
    rcases h with ⟨hn, rfl⟩ | ⟨hf, rfl⟩
    · have := h2 none (Or.inl ⟨rfl, hn⟩)
      rw [← hn] at this
      simpa using this
    · exact h2 (some true) (Or.inr rfl)
  unfold recvMac sendMac operate at hmac ⊢
  simp only at hmac ⊢
  rw [h1] at hmac ⊢
  rw [hs']
  simp only at hmac ⊢
  rw [show s.withRecv (some true) = (s.withRecv (some false)).withRecv (some true) from rfl,
    beginOp_withRecv, duplex_withRecv]
  simp only
  rw [duplex_exchange_state F _ mac hmac]

/-- `prf` does not look at the direction flag -/
theorem prf_withRecv (F : Perm) (s : Strobe) (r) (n : Nat) :
    prf F (s.withRecv r) n = ((prf F s n).1.withRecv r, (prf F s n).2) := by
  unfold prf operate
  simp only
  rw [beginOp_withRecv, duplex_withRecv]

theorem sendMac_length (F : Perm) (s : Strobe) (n : Nat) : (sendMac F s n).2.length = n := by
  unfold sendMac operate; simp only; rw [duplex_length]; simp [Bytes.zeros]

theorem prf_length (F : Perm) (s : Strobe) (n : Nat) : (prf F s n).2.length = n := by
  unfold prf operate; simp only; rw [duplex_length]; simp [Bytes.zeros]

theorem sendEnc_length (F : Perm) (s : Strobe) (d : Bytes) : (sendEnc F s d).2.length = d.length := by
  unfold sendEnc operate; simp only; rw [duplex_length]

theorem recvEnc_length (F : Perm) (s : Strobe) (d : Bytes) : (recvEnc F s d).2.length = d.length := by
  unfold recvEnc operate; simp only; rw [duplex_length]

/-- operations that are not transport operations keep the direction flag -/
theorem key_isReceiver (F : Perm) (s : Strobe) (d : Bytes) : (key F s d).isReceiver = s.isReceiver := by
  unfold key operate; simp only; rw [duplex_isReceiver, beginOp_isReceiver]

theorem ad_isReceiver (F : Perm) (s : Strobe) (d : Bytes) : (ad F s d).isReceiver = s.isReceiver := by
  unfold ad operate; simp only; rw [duplex_isReceiver, beginOp_isReceiver]

theorem metaAd_isReceiver (F : Perm) (s : Strobe) (d : Bytes) : (metaAd F s d).isReceiver = s.isReceiver := by
  unfold metaAd operate; simp only; rw [duplex_isReceiver, beginOp_isReceiver]

theorem new_isReceiver (F : Perm) (proto : Bytes) : (new F proto).isReceiver = none := by
  unfold new operate; simp only; rw [duplex_isReceiver, beginOp_isReceiver]

end StarModel.Strobe
