/-
Little-endian integer codec lemmas (core Lean only).
-/
import StarModel.Bytes

namespace StarModel.Bytes

@[simp] theorem ofNatLE_length (n v : Nat) : (ofNatLE n v).length = n := by
  induction n generalizing v with
  | zero => rfl
  | succ n ih => simp [ofNatLE, ih]

theorem toNatLE_lt (bs : Bytes) : toNatLE bs < 256 ^ bs.length := by
  induction bs with
  | nil => simp [toNatLE]
  | cons b bs ih =>
    simp only [toNatLE, List.length_cons, Nat.pow_succ]
    have := b.toNat_lt
    omega

theorem toNatLE_ofNatLE (n v : Nat) : toNatLE (ofNatLE n v) = v % 256 ^ n := by
  induction n generalizing v with
  | zero => simp [ofNatLE, toNatLE, Nat.mod_one]
  | succ n ih =>
    simp only [ofNatLE, toNatLE, ih]
    have h1 : (UInt8.ofNat (v % 256)).toNat = v % 256 := by
      simp [UInt8.toNat_ofNat']
    rw [h1, Nat.pow_succ, Nat.mul_comm (256 ^ n) 256, Nat.mod_mul]

theorem ofNatLE_toNatLE (bs : Bytes) : ofNatLE bs.length (toNatLE bs) = bs := by
  induction bs with
  | nil => rfl
  | cons b bs ih =>
    simp only [List.length_cons, ofNatLE, toNatLE]
    have hb := b.toNat_lt
    have h1 : (b.toNat + 256 * toNatLE bs) % 256 = b.toNat := by omega
    have h2 : (b.toNat + 256 * toNatLE bs) / 256 = toNatLE bs := by omega
    rw [h1, h2, ih]
    simp

theorem toNatLE_injective {a b : Bytes} (hl : a.length = b.length) (h : toNatLE a = toNatLE b) : a = b := by
  rw [← ofNatLE_toNatLE a, ← ofNatLE_toNatLE b, hl, h]

theorem ofNatLE_injective {n a b : Nat} (ha : a < 256 ^ n) (hb : b < 256 ^ n)
    (h : ofNatLE n a = ofNatLE n b) : a = b := by
  have := congrArg toNatLE h
  rwa [toNatLE_ofNatLE, toNatLE_ofNatLE, Nat.mod_eq_of_lt ha, Nat.mod_eq_of_lt hb] at this

@[simp] theorem le32_length (n : Nat) : (le32 n).length = 4 := by simp [le32]

theorem toNatLE_le32 (n : Nat) (h : n < 2 ^ 32) : toNatLE (le32 n) = n := by
  rw [le32, toNatLE_ofNatLE]; exact Nat.mod_eq_of_lt (by simpa using h)

theorem le32_injective {a b : Nat} (ha : a < 2 ^ 32) (hb : b < 2 ^ 32) (h : le32 a = le32 b) : a = b :=
  ofNatLE_injective (by simpa using ha) (by simpa using hb) h

end StarModel.Bytes
