/-
Length-prefixed chunk helpers (`store_bytes` / `load_bytes`) and the share codecs.
-/
import StarModel.Adss
import StarModel.Star
import StarModel.Lemmas.Bytes

namespace StarModel.Adss
open StarModel

theorem storeBytes_eq (s : Bytes) (h : s.length < 2 ^ 32) : storeBytes s = Bytes.le32 s.length ++ s := by
  unfold storeBytes; rw [Nat.mod_eq_of_lt h]

theorem loadBytes_append (x rest : Bytes) (h : x.length < 2 ^ 32) :
    loadBytes (Bytes.le32 x.length ++ x ++ rest) = .ok x := by
  unfold loadBytes
  have h4 : (Bytes.le32 x.length).length = 4 := Bytes.le32_length _
  have htake : (Bytes.le32 x.length ++ x ++ rest).take 4 = Bytes.le32 x.length := by
    rw [List.append_assoc, List.take_append_of_le_length (by omega)]
    exact List.take_of_length_le (by omega)
  have hlen : (Bytes.le32 x.length ++ x ++ rest).length = 4 + x.length + rest.length := by
    simp [List.length_append, h4]; omega
  rw [htake, Bytes.toNatLE_le32 _ h, hlen]
  have h1 : ¬ (4 + x.length + rest.length < 4) := by omega
  have h2 : ¬ (4 + x.length + rest.length < 4 + x.length) := by omega
  simp only [h1, h2, if_false]
  congr 1
  rw [List.append_assoc, List.drop_append_of_le_length (by omega)]
  rw [show List.drop 4 (Bytes.le32 x.length) = [] from List.drop_of_length_le (by omega)]
  simp

/-- `load_bytes` accepts exactly the strings that start with a well-formed chunk -/
theorem loadBytes_ok_iff (bs x : Bytes) :
    loadBytes bs = .ok x ↔ ∃ rest, bs = Bytes.le32 x.length ++ x ++ rest ∧ x.length < 2 ^ 32 := by
  constructor
  · intro h
    unfold loadBytes at h
    split at h
    · cases h
    · rename_i h4
      simp only at h
      split at h
      · cases h
      · rename_i hl
        injection h with h
        have hlt : Bytes.toNatLE (bs.take 4) < 2 ^ 32 := by
          have := Bytes.toNatLE_lt (bs.take 4)
          have hl4 : (bs.take 4).length = 4 := by simp; omega
          rw [hl4] at this; simpa using this
        have hxl : x.length = Bytes.toNatLE (bs.take 4) := by
          rw [← h]; simp; omega
        refine ⟨(bs.drop 4).drop (Bytes.toNatLE (bs.take 4)), ?_, by omega⟩
        have h1 : Bytes.le32 x.length = bs.take 4 := by
          rw [hxl]
          have hl4 : (bs.take 4).length = 4 := by simp; omega
          have := Bytes.ofNatLE_toNatLE (bs.take 4)
          rw [hl4] at this
          exact this
        rw [h1, ← h, List.append_assoc, List.take_append_drop, List.take_append_drop]
  · rintro ⟨rest, rfl, hx⟩
    exact loadBytes_append x rest hx

theorem loadBytes_not_panic (bs : Bytes) (w : String) : loadBytes bs ≠ .panic w := by
  unfold loadBytes; split
  · simp
  · simp only; split <;> simp

theorem drop_chunk (x rest : Bytes) :
    (Bytes.le32 x.length ++ x ++ rest).drop (4 + x.length) = rest := by
  have h4 : (Bytes.le32 x.length).length = 4 := Bytes.le32_length _
  rw [List.drop_append_of_le_length (by simp [h4])]
  have : (Bytes.le32 x.length ++ x).length = 4 + x.length := by simp [h4]
  rw [List.drop_of_length_le (by omega)]; simp

end StarModel.Adss

namespace StarModel.Sharks
open StarModel

theorem reprLen_eq : Fp.reprLen = 24 := by decide +kernel

theorem toRepr_eq (a : Nat) : Fp.toRepr a = Bytes.ofNatLE 24 a := by
  unfold Fp.toRepr; rw [reprLen_eq]; rfl

theorem toRepr_length (a : Nat) : (Fp.toRepr a).length = 24 := by rw [toRepr_eq]; simp

theorem p_lt : Fp.p < 256 ^ 24 := by decide +kernel

theorem fromRepr_toRepr (a : Nat) (h : a < Fp.p) : Fp.fromRepr (Fp.toRepr a) = some a := by
  unfold Fp.fromRepr
  have hle : Params.reprLittleEndian = true := rfl
  rw [toRepr_length, reprLen_eq]
  simp only [hle, if_true, ne_eq, not_true_eq_false, if_false]
  rw [toRepr_eq, Bytes.toNatLE_ofNatLE, Nat.mod_eq_of_lt (by have := p_lt; omega)]
  simp [h]

theorem fromRepr_some (bs : Bytes) (a : Nat) (h : Fp.fromRepr bs = some a) :
    bs.length = 24 ∧ a < Fp.p ∧ Fp.toRepr a = bs := by
  unfold Fp.fromRepr at h
  have hle : Params.reprLittleEndian = true := rfl
  rw [reprLen_eq] at h
  simp only [hle, if_true] at h
  split at h
  · cases h
  · rename_i hl
    split at h
    · rename_i hlt
      injection h with h
      have hl' : bs.length = 24 := by simpa using hl
      refine ⟨hl', by omega, ?_⟩
      rw [toRepr_eq, ← h, ← hl', Bytes.ofNatLE_toNatLE]
    · cases h

/-- a share whose coordinates are canonical field elements -/
def Share.Valid (s : Share) : Prop := s.x < Fp.p ∧ ∀ y ∈ s.y, y < Fp.p

theorem flatten_toRepr_length (ys : List Nat) : ((ys.map Fp.toRepr).flatten).length = 24 * ys.length := by
  induction ys with
  | nil => rfl
  | cons y ys ih => simp [toRepr_length, ih]; omega

theorem decodeElems_encode (ys : List Nat) (rest : Bytes) (h : ∀ y ∈ ys, y < Fp.p) :
    decodeElems ys.length ((ys.map Fp.toRepr).flatten ++ rest) = some ys := by
  induction ys with
  | nil => rfl
  | cons y ys ih =>
    have hfe : Params.fieldElementLen = 24 := rfl
    simp only [List.length_cons, decodeElems, List.map_cons, List.flatten_cons, hfe]
    have h1 : List.take 24 (Fp.toRepr y ++ (ys.map Fp.toRepr).flatten ++ rest) = Fp.toRepr y := by
      rw [List.append_assoc, List.take_append_of_le_length (by rw [toRepr_length]; omega)]
      exact List.take_of_length_le (by rw [toRepr_length]; omega)
    have h2 : List.drop 24 (Fp.toRepr y ++ (ys.map Fp.toRepr).flatten ++ rest) = (ys.map Fp.toRepr).flatten ++ rest := by
      rw [List.append_assoc, List.drop_append_of_le_length (by rw [toRepr_length]; omega)]
      rw [List.drop_of_length_le (by rw [toRepr_length]; omega)]; rfl
    rw [h1, h2, fromRepr_toRepr y (h y (by simp)), ih (fun z hz => h z (by simp [hz]))]

/-- decoding returns the elements of the complete 24-byte chunks; trailing bytes are ignored -/
theorem decodeElems_some (n : Nat) (bs : Bytes) (ys : List Nat) (h : decodeElems n bs = some ys) :
    ys.length = n ∧ (∀ y ∈ ys, y < Fp.p) ∧ (ys.map Fp.toRepr).flatten = bs.take (24 * n) := by
  induction n generalizing bs ys with
  | zero =>
    unfold decodeElems at h
    injection h with h; subst h; simp
  | succ n ih =>
    have hfe : Params.fieldElementLen = 24 := rfl
    simp only [decodeElems, hfe] at h
    split at h
    · cases h
    · rename_i e he
      split at h
      · cases h
      · rename_i es hes
        injection h with h; subst h
        obtain ⟨h1, h2, h3⟩ := ih _ _ hes
        obtain ⟨hl, hlt, hr⟩ := fromRepr_some _ _ he
        refine ⟨by simp [h1], ?_, ?_⟩
        · intro y hy
          rcases List.mem_cons.mp hy with rfl | hy
          · exact hlt
          · exact h2 y hy
        · simp only [List.map_cons, List.flatten_cons, hr, h3]
          have : 24 * (n + 1) = 24 + 24 * n := by omega
          rw [this, List.take_add]

theorem shareToBytes_length (s : Share) : (shareToBytes s).length = 24 * (s.y.length + 1) := by
  unfold shareToBytes; rw [List.length_append, toRepr_length, flatten_toRepr_length]; omega

theorem shareFromBytes_toBytes (s : Share) (h : s.Valid) : shareFromBytes (shareToBytes s) = some s := by
  have hfe : Params.fieldElementLen = 24 := rfl
  unfold shareFromBytes
  rw [shareToBytes_length, hfe]
  have hnot : ¬ (24 * (s.y.length + 1) < 24) := by omega
  simp only [hnot, if_false]
  have h1 : List.take 24 (shareToBytes s) = Fp.toRepr s.x := by
    unfold shareToBytes
    rw [List.take_append_of_le_length (by rw [toRepr_length]; omega)]
    exact List.take_of_length_le (by rw [toRepr_length]; omega)
  have h2 : List.drop 24 (shareToBytes s) = (s.y.map Fp.toRepr).flatten := by
    unfold shareToBytes
    rw [List.drop_append_of_le_length (by rw [toRepr_length]; omega)]
    rw [List.drop_of_length_le (by rw [toRepr_length]; omega)]; rfl
  rw [h1, h2, fromRepr_toRepr _ h.1, flatten_toRepr_length]
  have : 24 * s.y.length / 24 = s.y.length := by omega
  rw [this]
  have := decodeElems_encode s.y [] h.2
  rw [List.append_nil] at this
  rw [this]

/-- acceptance ⇒ the value is valid and its encoding is the input with the trailing partial
element dropped (the canonical form of the input) -/
theorem shareFromBytes_some (bs : Bytes) (s : Share) (h : shareFromBytes bs = some s) :
    24 ≤ bs.length ∧ s.Valid ∧ s.y.length = (bs.length - 24) / 24 ∧
    shareToBytes s = bs.take (24 * (bs.length / 24)) := by
  have hfe : Params.fieldElementLen = 24 := rfl
  unfold shareFromBytes at h
  rw [hfe] at h
  split at h
  · cases h
  · rename_i hl
    split at h
    · cases h
    · rename_i x hx
      simp only at h
      split at h
      · cases h
      · rename_i ys hys
        injection h with h; subst h
        obtain ⟨hxl, hxlt, hxr⟩ := fromRepr_some _ _ hx
        obtain ⟨hyl, hylt, hyr⟩ := decodeElems_some _ _ _ hys
        have hdl : (bs.drop 24).length = bs.length - 24 := by simp
        rw [hdl] at hyl hyr
        refine ⟨by omega, ⟨hxlt, hylt⟩, hyl, ?_⟩
        unfold shareToBytes
        simp only
        rw [hxr, hyr]
        have : 24 * (bs.length / 24) = 24 + 24 * ((bs.length - 24) / 24) := by omega
        rw [this, List.take_add]

end StarModel.Sharks

namespace StarModel.Adss
open StarModel

/-- the documented layout of an encoded ADSS share around an already encoded Shamir share `sb` -/
def layout (thr : Nat) (sb c d j : Bytes) : Bytes :=
  Bytes.le32 thr ++ (Bytes.le32 sb.length ++ sb ++ (Bytes.le32 c.length ++ c ++ (Bytes.le32 d.length ++ d ++ j)))

theorem fromBytes_layout (thr : Nat) (sb c d j : Bytes) (S : Sharks.Share)
    (ht : thr < 2 ^ 32) (hs : sb.length < 2 ^ 32) (hc : c.length < 2 ^ 32) (hd : d.length < 2 ^ 32)
    (hj : j.length = 64) (hS : Sharks.shareFromBytes sb = some S) :
    Share.fromBytes (layout thr sb c d j) = .ok ⟨thr, S, c, d, j⟩ := by
  have hal : Params.accessStructureLength = 4 := rfl
  have hml : Params.macLength = 64 := rfl
  unfold Share.fromBytes layout
  rw [hal, hml]
  have hlen : ¬ ((Bytes.le32 thr ++ (Bytes.le32 sb.length ++ sb ++ (Bytes.le32 c.length ++ c ++ (Bytes.le32 d.length ++ d ++ j)))).length < 4) := by
    simp [List.length_append]
  simp only [hlen, if_false]
  have htk : (Bytes.le32 thr ++ (Bytes.le32 sb.length ++ sb ++ (Bytes.le32 c.length ++ c ++ (Bytes.le32 d.length ++ d ++ j)))).take 4 = Bytes.le32 thr := by
    rw [List.take_append_of_le_length (by simp)]
    exact List.take_of_length_le (by simp)
  have hdr : (Bytes.le32 thr ++ (Bytes.le32 sb.length ++ sb ++ (Bytes.le32 c.length ++ c ++ (Bytes.le32 d.length ++ d ++ j)))).drop 4 = (Bytes.le32 sb.length ++ sb ++ (Bytes.le32 c.length ++ c ++ (Bytes.le32 d.length ++ d ++ j))) := by
    rw [List.drop_append_of_le_length (by simp)]
    rw [List.drop_of_length_le (by simp)]; rfl
  rw [htk, hdr, Bytes.toNatLE_le32 _ ht, loadBytes_append sb _ hs]
  simp only
  rw [drop_chunk, loadBytes_append c _ hc]
  simp only
  rw [drop_chunk, loadBytes_append d _ hd]
  simp only
  rw [drop_chunk]
  simp [hj, hS]

theorem fromBytes_ok (bs : Bytes) (v : Share) (h : Share.fromBytes bs = .ok v) :
    ∃ sb, bs = layout v.thr sb v.C v.D v.J ∧ v.thr < 2 ^ 32 ∧ sb.length < 2 ^ 32 ∧
      v.C.length < 2 ^ 32 ∧ v.D.length < 2 ^ 32 ∧ v.J.length = 64 ∧ Sharks.shareFromBytes sb = some v.S := by
  have hal : Params.accessStructureLength = 4 := rfl
  have hml : Params.macLength = 64 := rfl
  unfold Share.fromBytes at h
  rw [hal, hml] at h
  by_cases h4 : bs.length < 4
  · simp [h4] at h
  · simp only [h4, if_false] at h
    cases hsb : loadBytes (bs.drop 4) with
    | err k => rw [hsb] at h; cases h
    | panic w => rw [hsb] at h; cases h
    | ok sb =>
      rw [hsb] at h
      simp only at h
      obtain ⟨r1, e1, l1⟩ := (loadBytes_ok_iff _ _).mp hsb
      rw [e1, drop_chunk] at h
      cases hc : loadBytes r1 with
      | err k => rw [hc] at h; cases h
      | panic w => rw [hc] at h; cases h
      | ok c =>
        rw [hc] at h
        simp only at h
        obtain ⟨r2, e2, l2⟩ := (loadBytes_ok_iff _ _).mp hc
        rw [e2, drop_chunk] at h
        cases hd : loadBytes r2 with
        | err k => rw [hd] at h; cases h
        | panic w => rw [hd] at h; cases h
        | ok d =>
          rw [hd] at h
          simp only at h
          obtain ⟨r3, e3, l3⟩ := (loadBytes_ok_iff _ _).mp hd
          rw [e3, drop_chunk] at h
          by_cases hj : r3.length = 64
          · simp only [hj, ne_eq, not_true_eq_false, if_false] at h
            cases hS : Sharks.shareFromBytes sb with
            | none => rw [hS] at h; cases h
            | some S =>
              rw [hS] at h
              injection h with h
              subst h
              have hl4 : (bs.take 4).length = 4 := by simp; omega
              have hthr : Bytes.toNatLE (bs.take 4) < 2 ^ 32 := by
                have := Bytes.toNatLE_lt (bs.take 4)
                rw [hl4] at this; simpa using this
              refine ⟨sb, ?_, hthr, l1, l2, l3, hj, hS⟩
              simp only
              unfold layout
              have h1 : Bytes.le32 (Bytes.toNatLE (bs.take 4)) = bs.take 4 := by
                have := Bytes.ofNatLE_toNatLE (bs.take 4)
                rw [hl4] at this; exact this
              rw [h1]
              conv => lhs; rw [← List.take_append_drop 4 bs]
              rw [e1, e2, e3]
          · simp [hj] at h

theorem toBytes_eq_layout (v : Share) (hs : (Sharks.shareToBytes v.S).length < 2 ^ 32)
    (hc : v.C.length < 2 ^ 32) (hd : v.D.length < 2 ^ 32) :
    v.toBytes = layout v.thr (Sharks.shareToBytes v.S) v.C v.D v.J := by
  unfold Share.toBytes layout
  rw [storeBytes_eq _ hs, storeBytes_eq _ hc, storeBytes_eq _ hd]
  simp [List.append_assoc]

end StarModel.Adss

namespace StarModel.Star
open StarModel StarModel.Adss

/-- the documented layout of a report: three chunks (ciphertext, share, tag); bytes after the tag
chunk are ignored by the decoder -/
def msgLayout (cb sb tag rest : Bytes) : Bytes :=
  Bytes.le32 cb.length ++ cb ++ (Bytes.le32 sb.length ++ sb ++ (Bytes.le32 tag.length ++ tag ++ rest))

theorem fromBytes_msgLayout (cb sb tag rest : Bytes) (sh : Adss.Share)
    (hc : cb.length < 2 ^ 32) (hs : sb.length < 2 ^ 32) (ht : tag.length < 2 ^ 32)
    (hsh : Adss.Share.fromBytes sb = .ok sh) :
    Message.fromBytes (msgLayout cb sb tag rest) = .ok ⟨cb, sh, tag⟩ := by
  unfold Message.fromBytes msgLayout
  rw [loadBytes_append cb _ hc]
  simp only
  rw [drop_chunk, loadBytes_append sb _ hs]
  simp only
  rw [hsh]
  simp only
  rw [drop_chunk, loadBytes_append tag _ ht]

theorem fromBytes_ok (bs : Bytes) (v : Message) (h : Message.fromBytes bs = .ok v) :
    ∃ sb rest, bs = msgLayout v.ciphertext sb v.tag rest ∧ v.ciphertext.length < 2 ^ 32 ∧
      sb.length < 2 ^ 32 ∧ v.tag.length < 2 ^ 32 ∧ Adss.Share.fromBytes sb = .ok v.share := by
  unfold Message.fromBytes at h
  cases hcb : loadBytes bs with
  | err k => rw [hcb] at h; cases h
  | panic w => rw [hcb] at h; cases h
  | ok cb =>
    rw [hcb] at h
    simp only at h
    obtain ⟨r1, e1, l1⟩ := (loadBytes_ok_iff _ _).mp hcb
    rw [e1, drop_chunk] at h
    cases hsb : loadBytes r1 with
    | err k => rw [hsb] at h; cases h
    | panic w => rw [hsb] at h; cases h
    | ok sb =>
      rw [hsb] at h
      simp only at h
      obtain ⟨r2, e2, l2⟩ := (loadBytes_ok_iff _ _).mp hsb
      cases hsh : Adss.Share.fromBytes sb with
      | err k => rw [hsh] at h; cases h
      | panic w => rw [hsh] at h; cases h
      | ok sh =>
        rw [hsh] at h
        simp only at h
        rw [e2, drop_chunk] at h
        cases htag : loadBytes r2 with
        | err k => rw [htag] at h; cases h
        | panic w => rw [htag] at h; cases h
        | ok tag =>
          rw [htag] at h
          injection h with h
          subst h
          obtain ⟨r3, e3, l3⟩ := (loadBytes_ok_iff _ _).mp htag
          refine ⟨sb, r3, ?_, l1, l2, l3, hsh⟩
          unfold msgLayout
          rw [e1, e2, e3]

theorem toBytes_eq_msgLayout (v : Message) (hc : v.ciphertext.length < 2 ^ 32)
    (hs : v.share.toBytes.length < 2 ^ 32) (ht : v.tag.length < 2 ^ 32) :
    v.toBytes = msgLayout v.ciphertext v.share.toBytes v.tag [] := by
  unfold Message.toBytes msgLayout
  rw [storeBytes_eq _ hc, storeBytes_eq _ hs, storeBytes_eq _ ht]
  simp [List.append_assoc]

end StarModel.Star
